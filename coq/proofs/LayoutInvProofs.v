(* C03 - layout invariance of the statement fragment of StmtNestProofs: the line ends (LF, CR, CRLF, LFCR, a different
   one at each line), the indentation unit (4 spaces or one TAB per level), blank lines between statements (empty or
   holding whole indentation units), a trailing line end / trailing blank lines: the tree is always [prescribed p]. *)
From Coq Require Import List ZArith Bool Lia Arith.
Import ListNotations.
From Zn.gen Require Import GenFrontTokens.
From Zn.model Require Import LexerTok Lexer Ast Parser.
From Zn.model Require StringLit Lines.
From Zn.proofs Require LineStartsProofs.
From Zn.proofs Require Import FrontCompleteProofs FrontTotalProofs ExprPrecProofs ChainPrecProofs StmtNestProofs.
Open Scope Z_scope.

(* ================================================================== layouts *)
Inductive eol := LF | CR | CRLF | LFCR.
Definition eolc (e : eol) : list Z :=
  match e with LF => [10] | CR => [13] | CRLF => [13; 10] | LFCR => [10; 13] end.

(* the indentation unit: one TAB or four spaces *)
Definition ichar (tab : bool) : Z := if tab then 9 else 32.
Definition uw (tab : bool) : nat := if tab then 1%nat else 4%nat.
Definition utype (tab : bool) : Z := if tab then g_IndentTab else g_IndentSpace.
Definition indent (tab : bool) (k : nat) : list Z := repeat (ichar tab) (uw tab * k).

(* a break item: a line end followed by k indentation units (the start of the next line, blank or not) *)
Definition bitem : Type := (eol * nat)%type.
Definition bic (tab : bool) (b : bitem) : list Z := eolc (fst b) ++ indent tab (snd b).
Definition brkc (tab : bool) (bs : list bitem) : list Z := flat_map (bic tab) bs.

(* CR directly followed by LF (LF by CR) is ONE line end for the lexer: a layout must not write the line end LF (CR),
   an empty blank line, then a line end that begins with CR (LF); it writes LFCR (CRLF) instead *)
Definition clash_free (e1 : eol) (k1 : nat) (e2 : eol) : bool :=
  match e1 with
  | LF => negb ((k1 =? 0)%nat && match e2 with CR | CRLF => true | _ => false end)
  | CR => negb ((k1 =? 0)%nat && match e2 with LF | LFCR => true | _ => false end)
  | _ => true
  end.
Fixpoint bs_ok (bs : list bitem) : bool :=
  match bs with
  | [] => true
  | b :: r => match r with [] => true | b2 :: _ => clash_free (fst b) (snd b) (fst b2) end && bs_ok r
  end.

(* the lines recorded over a run of break items that starts at offset p, and the indentation type after it *)
Fixpoint btab (tab : bool) (p : Z) (bs : list bitem) : list line :=
  match bs with
  | [] => []
  | b :: r => mkLine (Z.of_nat (snd b)) (p + Z.of_nat (length (eolc (fst b))))
              :: btab tab (p + Z.of_nat (length (bic tab b))) r
  end.
Fixpoint bityp (tab : bool) (it : Z) (bs : list bitem) : Z :=
  match bs with
  | [] => it
  | b :: r => bityp tab (if (snd b =? 0)%nat then it else utype tab) r
  end.

Lemma brkc_cons : forall tab b r, brkc tab (b :: r) = bic tab b ++ brkc tab r. Proof. reflexivity. Qed.
Lemma brkc_app : forall tab a b, brkc tab (a ++ b) = brkc tab a ++ brkc tab b.
Proof. intros. unfold brkc. apply flat_map_app. Qed.

Lemma eolc_len : forall e, (1 <= length (eolc e))%nat. Proof. destruct e; cbn; lia. Qed.
Lemma brkc_len : forall tab bs, (length bs <= length (brkc tab bs))%nat.
Proof.
  induction bs as [|b r IH]; [cbn; lia|]. rewrite brkc_cons, app_length. unfold bic. rewrite app_length.
  pose proof (eolc_len (fst b)). cbn [length]. lia.
Qed.

Lemma eolc_head : forall e, exists c r, eolc e = c :: r /\ (c = 10 \/ c = 13).
Proof. destruct e; cbn [eolc]; eexists _, _; split; try reflexivity; auto. Qed.

Lemma brkc_head : forall tab bs, bs <> [] -> exists c r, brkc tab bs = c :: r /\ (c = 10 \/ c = 13).
Proof.
  intros tab [|b r] N; [congruence|]. rewrite brkc_cons. unfold bic.
  destruct (eolc_head (fst b)) as (c & r0 & E & H). rewrite E. cbn [app]. eauto.
Qed.

(* ================================================================== the lexer over one break item *)
Lemma run_same_rep : forall ch n tl p k, (curc tl =? ch) = false ->
  run_same ch (repeat ch n ++ tl) p k = (tl, p + Z.of_nat n + 1, k + Z.of_nat n).
Proof.
  induction n as [|n IH]; intros tl p k C.
  - cbn [repeat app]. destruct tl as [|c r]; cbn [run_same].
    + f_equal; [f_equal|]; lia.
    + cbn [curc hd] in C. rewrite C. f_equal; [f_equal|]; lia.
  - cbn [repeat app run_same]. rewrite Z.eqb_refl. rewrite IH by exact C. f_equal; [f_equal|]; lia.
Qed.

Lemma ichar_indent : forall tab, is_indent_char (ichar tab) = true. Proof. destruct tab; reflexivity. Qed.

Lemma not_indent_ichar : forall tab c, is_indent_char c = false -> (c =? ichar tab) = false.
Proof.
  intros tab c H. unfold is_indent_char in H. apply orb_false_iff in H. destruct H as [A B].
  destruct tab; [exact B|exact A].
Qed.

Lemma indent_len : forall tab k, length (indent tab k) = (uw tab * k)%nat.
Proof. intros. unfold indent. apply repeat_length. Qed.

Lemma uw_pos : forall tab k, (uw tab * k = 0)%nat -> k = 0%nat.
Proof. intros [|] k H; cbn [uw] in H; lia. Qed.

Lemma curc_indent : forall tab k tl, curc (indent tab k ++ tl) = if (k =? 0)%nat then curc tl else ichar tab.
Proof.
  intros tab k tl. unfold indent. destruct (uw tab * k)%nat as [|m] eqn:E.
  - apply uw_pos in E. subst k. reflexivity.
  - destruct k as [|k]; [rewrite Nat.mul_0_r in E; discriminate|]. reflexivity.
Qed.

Lemma count_indent_indent : forall tab k st tl, rest st = indent tab k ++ tl -> is_indent_char (curc tl) = false ->
  count_indent st = (set_pos_rest st (pos st + Z.of_nat (uw tab * k)) tl, Z.of_nat (uw tab * k)).
Proof.
  intros tab k st tl E CI. destruct st as [p rs it ls sl]. cbn [rest pos] in *. subst rs.
  unfold count_indent, indent. cbn [rest pos]. destruct (uw tab * k)%nat as [|m] eqn:EM.
  - cbn [repeat app]. unfold set_pos_rest. cbn [pos itype lines slen Z.of_nat]. rewrite Z.add_0_r.
    destruct tl as [|c r]; [reflexivity|]. cbn [curc hd] in *. rewrite CI. reflexivity.
  - cbn [repeat app curc hd]. rewrite ichar_indent.
    rewrite (run_same_rep (ichar tab) m tl p 1 (not_indent_ichar tab _ CI)).
    unfold set_pos_rest. cbn [pos itype lines slen]. f_equal; [f_equal|]; lia.
Qed.

Lemma sit_zero : forall c st, is_indent_char c = false -> set_indent_type 0 c st = LOk 0 st.
Proof.
  intros c st H. unfold is_indent_char in H. apply orb_false_iff in H. destruct H as [A B].
  unfold set_indent_type. rewrite A, B. change (g_IndentUnknown =? g_IndentUnknown) with true. cbv iota.
  change (0 <? 0) with false. cbn [andb]. cbv iota. destruct (itype st =? g_IndentSpace); reflexivity.
Qed.

Lemma sit_pos : forall tab k st, (0 < k)%nat -> (itype st = g_IndentUnknown \/ itype st = utype tab) ->
  set_indent_type (Z.of_nat (uw tab * k)) (ichar tab) st = LOk (Z.of_nat k) (set_itype st (utype tab)).
Proof.
  intros tab k st K IT. unfold set_indent_type. destruct tab; cbn [ichar uw utype] in *.
  - change (9 =? g_RuneTAB) with true. cbv iota. change (g_IndentTab =? g_IndentUnknown) with false. cbv iota.
    change (g_IndentTab =? g_IndentSpace) with false. cbn [andb]. cbv iota.
    assert (I2 : (if itype st =? g_IndentUnknown then g_IndentTab else itype st) = g_IndentTab).
    { destruct IT as [I|I]; rewrite I; reflexivity. }
    rewrite I2. change (g_IndentTab =? g_IndentTab) with true. cbn [negb]. cbv iota.
    change (g_IndentTab =? g_IndentSpace) with false. cbv iota. f_equal. lia.
  - change (32 =? g_RuneTAB) with false. change (32 =? g_RuneSP) with true. cbv iota.
    change (g_IndentSpace =? g_IndentUnknown) with false. cbv iota.
    change (g_IndentSpace =? g_IndentSpace) with true.
    assert (I2 : (if itype st =? g_IndentUnknown then g_IndentSpace else itype st) = g_IndentSpace).
    { destruct IT as [I|I]; rewrite I; reflexivity. }
    rewrite I2. change (g_IndentSpace =? g_IndentSpace) with true.
    assert (M4 : Z.of_nat (4 * k) mod 4 = 0).
    { replace (Z.of_nat (4 * k)) with (Z.of_nat k * 4) by lia. apply Z_mod_mult. }
    rewrite M4. change (0 =? 0) with true. cbn [negb andb]. cbv iota.
    assert (D4 : Z.of_nat (4 * k) / 4 = Z.of_nat k).
    { replace (Z.of_nat (4 * k)) with (Z.of_nat k * 4) by lia. apply Z_div_mult. lia. }
    rewrite D4. reflexivity.
Qed.

(* the cursor over the line end itself *)
Definition pair_free (e : eol) (X : list Z) : Prop :=
  match e with LF => (curc X =? 13) = false | CR => (curc X =? 10) = false | _ => True end.

Definition after_eol (l : lstate) (e : eol) (X : list Z) : lstate :=
  mkL (pos l + Z.of_nat (length (eolc e))) X (itype l) (lines l) (slen l).

Lemma is_pair_10 : forall b, is_pair 10 b = (b =? 13). Proof. reflexivity. Qed.
Lemma is_pair_13 : forall b, is_pair 13 b = (b =? 10).
Proof. intro b. unfold is_pair. change (13 =? g_RuneCR) with true. change (13 =? g_RuneLF) with false.
  cbn [andb]. apply orb_false_r. Qed.

Lemma eol_step : forall l e X, rest l = eolc e ++ X -> pair_free e X ->
  (if is_pair (curc (rest l)) (curc (rest (nextc l))) then nextc (nextc l) else nextc l) = after_eol l e X.
Proof.
  intros l e X E PF. destruct l as [p rs it ls sl]. cbn [rest] in E. subst rs. unfold after_eol.
  destruct e; cbn [pair_free] in PF; cbn [eolc app]; unfold nextc, set_pos_rest;
    cbn [rest pos itype lines slen tl curc hd length].
  - rewrite is_pair_10. fold (curc X). rewrite PF. f_equal.
  - rewrite is_pair_13. fold (curc X). rewrite PF. f_equal.
  - change (is_pair 13 10) with true. cbv iota. f_equal. lia.
  - change (is_pair 10 13) with true. cbv iota. f_equal. lia.
Qed.

Lemma parse_line_eq : forall f st, parse_line (S f) st =
  let st2 := if is_pair (curc (rest st)) (curc (rest (nextc st))) then nextc (nextc st) else nextc st in
  if negb (line_text_ok st (pos st)) then LCrash
  else
    let '(st4, count) := count_indent (set_lines st2 (lines st2 ++ [mkLine 0 (pos st2)])) in
    match set_indent_type count (curc (rest st2)) st4 with
    | LOk n st5 =>
        let st6 := set_lines st5 (set_last_indent n (lines st5)) in
        if is_break (curc (rest st6)) then parse_line f st6 else LOk tt st6
    | LErr c k => LErr c k
    | LCrash => LCrash
    | LFuel => LFuel
    end.
Proof. reflexivity. Qed.

Definition item_state (tab : bool) (l : lstate) (b : bitem) (tl : list Z) : lstate :=
  mkL (pos l + Z.of_nat (length (bic tab b))) tl (if (snd b =? 0)%nat then itype l else utype tab)
      (lines l ++ [mkLine (Z.of_nat (snd b)) (pos l + Z.of_nat (length (eolc (fst b))))]) (slen l).

Lemma pl_step : forall tab f l e k tl, rest l = bic tab (e, k) ++ tl ->
  is_indent_char (curc tl) = false -> (k = 0%nat -> pair_free e tl) ->
  line_text_ok l (pos l) = true -> (itype l = g_IndentUnknown \/ itype l = utype tab) ->
  parse_line (S f) l =
    if is_break (curc tl) then parse_line f (item_state tab l (e, k) tl) else LOk tt (item_state tab l (e, k) tl).
Proof.
  intros tab f l e k tl E CI PF LT IT. unfold bic in E. cbn [fst snd] in E. rewrite <- app_assoc in E.
  assert (PF2 : pair_free e (indent tab k ++ tl)).
  { destruct e; cbn [pair_free] in *; try exact I; rewrite curc_indent; destruct (k =? 0)%nat eqn:K.
    - apply PF. apply Nat.eqb_eq. exact K.
    - destruct tab; reflexivity.
    - apply PF. apply Nat.eqb_eq. exact K.
    - destruct tab; reflexivity. }
  rewrite parse_line_eq. cbv zeta. rewrite (eol_step l e _ E PF2). rewrite LT. cbn [negb]. cbv iota.
  unfold after_eol at 1 2 3. cbn [lines pos set_lines rest itype slen].
  match goal with |- context [count_indent ?s] => set (s3 := s) end.
  rewrite (count_indent_indent tab k s3 tl eq_refl CI). cbv iota beta.
  unfold after_eol. cbn [rest]. rewrite curc_indent.
  unfold item_state, bic. cbn [fst snd]. rewrite app_length, !indent_len.
  destruct (k =? 0)%nat eqn:K.
  - apply Nat.eqb_eq in K. subst k. rewrite Nat.mul_0_r. cbn [Z.of_nat].
    rewrite sit_zero by exact CI. unfold s3.
    cbn [set_pos_rest set_lines lines pos rest itype slen]. rewrite set_last_indent_app.
    replace (pos l + Z.of_nat (length (eolc e)) + 0) with (pos l + Z.of_nat (length (eolc e) + 0)) by lia.
    reflexivity.
  - apply Nat.eqb_neq in K.
    rewrite (sit_pos tab k _ ltac:(lia)) by (unfold s3; cbn [set_pos_rest set_lines itype]; exact IT).
    unfold s3. cbn [set_pos_rest set_itype set_lines lines pos rest itype slen]. rewrite set_last_indent_app.
    replace (pos l + Z.of_nat (length (eolc e)) + Z.of_nat (uw tab * k))
      with (pos l + Z.of_nat (length (eolc e) + uw tab * k)) by lia.
    reflexivity.
Qed.

(* ================================================================== the lexer over a run of break items *)
Record lgeo (l : lstate) : Prop := mkLgeo {
  lg_pos : 0 <= pos l;
  lg_len : slen l = pos l + Z.of_nat (length (rest l));
  lg_lt : line_text_ok l (pos l) = true }.

Lemma lto_intro : forall l endc,
  0 <= l_start (last (lines l) (mkLine 0 0))
       + (if itype l =? g_IndentSpace then 4 * l_indents (last (lines l) (mkLine 0 0))
          else if itype l =? g_IndentTab then l_indents (last (lines l) (mkLine 0 0)) else 0) <= endc ->
  endc <= slen l -> line_text_ok l endc = true.
Proof.
  intros l endc A B. unfold line_text_ok. destruct (lines l) as [|a b]; [reflexivity|].
  apply andb_true_iff. split; [apply andb_true_iff; split|]; apply Z.leb_le; lia.
Qed.

Lemma lto_mono : forall l l' p p', line_text_ok l p = true -> lines l' = lines l -> itype l' = itype l ->
  slen l' = slen l -> p <= p' -> p' <= slen l -> line_text_ok l' p' = true.
Proof.
  intros l l' p p' H EL EI ES LE LE2. unfold line_text_ok in *. rewrite EL, EI, ES.
  destruct (lines l) as [|a b]; [reflexivity|].
  apply andb_true_iff in H. destruct H as [H H3]. apply andb_true_iff in H. destruct H as [H1 H2].
  apply Z.leb_le in H1, H2, H3.
  apply andb_true_iff. split; [apply andb_true_iff; split|]; apply Z.leb_le; lia.
Qed.

Lemma item_geo : forall tab l b tl, lgeo l -> rest l = bic tab b ++ tl ->
  (itype l = g_IndentUnknown \/ itype l = utype tab) ->
  lgeo (item_state tab l b tl) /\
  (itype (item_state tab l b tl) = g_IndentUnknown \/ itype (item_state tab l b tl) = utype tab).
Proof.
  intros tab l [e k] tl [G1 G2 G3] E IT. split.
  - assert (LEN : slen l = pos l + Z.of_nat (length (bic tab (e, k))) + Z.of_nat (length tl)).
    { rewrite G2, E, app_length. lia. }
    constructor; unfold item_state; cbn [pos rest slen fst snd].
    + lia.
    + exact LEN.
    + apply lto_intro; cbn [lines itype slen pos]; [|lia]. rewrite last_last. cbn [l_start l_indents].
      unfold bic. cbn [fst snd]. rewrite app_length, indent_len.
      destruct (k =? 0)%nat eqn:K.
      * apply Nat.eqb_eq in K. subst k. rewrite Nat.mul_0_r. cbn [Z.of_nat].
        destruct (itype l =? g_IndentSpace); [lia|]. destruct (itype l =? g_IndentTab); lia.
      * destruct tab; cbn [utype uw].
        -- change (g_IndentTab =? g_IndentSpace) with false. change (g_IndentTab =? g_IndentTab) with true. cbv iota. lia.
        -- change (g_IndentSpace =? g_IndentSpace) with true. cbv iota. lia.
  - unfold item_state. cbn [itype snd]. destruct (k =? 0)%nat; [exact IT|right; reflexivity].
Qed.

Definition brk_state (tab : bool) (l : lstate) (bs : list bitem) (tl : list Z) : lstate :=
  mkL (pos l + Z.of_nat (length (brkc tab bs))) tl (bityp tab (itype l) bs) (lines l ++ btab tab (pos l) bs) (slen l).

Lemma brk_state_cons : forall tab l b r tl,
  brk_state tab (item_state tab l b (brkc tab r ++ tl)) r tl = brk_state tab l (b :: r) tl.
Proof.
  intros tab l b r tl. unfold brk_state, item_state. cbn [pos rest itype lines slen btab bityp].
  rewrite brkc_cons, app_length, <- app_assoc. cbn [app]. f_equal. lia.
Qed.

Lemma brk_head_facts : forall tab bs tl, bs <> [] ->
  is_indent_char (curc (brkc tab bs ++ tl)) = false /\ is_break (curc (brkc tab bs ++ tl)) = true /\
  is_ws (curc (brkc tab bs ++ tl)) = false.
Proof.
  intros tab bs tl N. destruct (brkc_head tab bs N) as (c & r & E & [H|H]); rewrite E; subst c; cbn [app curc hd];
    repeat split; reflexivity.
Qed.

Lemma clash_pair_free : forall tab e b2 r tl, clash_free e 0 (fst b2) = true -> pair_free e (brkc tab (b2 :: r) ++ tl).
Proof.
  intros tab e [e2 k2] r tl H. rewrite brkc_cons. unfold bic. cbn [fst snd] in *.
  destruct e; cbn [pair_free]; try exact I; destruct e2; cbn in H; try discriminate; reflexivity.
Qed.

Lemma pl_run : forall tab bs f l tl, bs <> [] -> rest l = brkc tab bs ++ tl ->
  is_indent_char (curc tl) = false -> is_break (curc tl) = false -> bs_ok bs = true -> lgeo l ->
  (itype l = g_IndentUnknown \/ itype l = utype tab) -> (length bs <= S f)%nat ->
  parse_line (S f) l = LOk tt (brk_state tab l bs tl).
Proof.
  intros tab bs. induction bs as [|[e k] r IH]; intros f l tl N E CI CB OK G IT LF; [congruence|].
  destruct r as [|b2 r'].
  - cbn [brkc flat_map] in E. rewrite app_nil_r in E.
    assert (PF : k = 0%nat -> pair_free e tl).
    { intros _. destruct e; cbn [pair_free]; try exact I; unfold is_break in CB; apply orb_false_iff in CB; tauto. }
    rewrite (pl_step tab f l e k tl E CI PF (lg_lt l G) IT). rewrite CB.
    rewrite <- (brk_state_cons tab l (e, k) [] tl). cbn [brkc flat_map app].
    unfold brk_state. cbn [btab bityp brkc flat_map length Z.of_nat]. rewrite app_nil_r, Z.add_0_r.
    unfold item_state. cbn [pos rest itype lines slen]. reflexivity.
  - rewrite brkc_cons, <- app_assoc in E.
    destruct (brk_head_facts tab (b2 :: r') tl ltac:(discriminate)) as (CI2 & CB2 & _).
    change (bs_ok ((e, k) :: b2 :: r')) with (clash_free e k (fst b2) && bs_ok (b2 :: r')) in OK.
    apply andb_true_iff in OK. destruct OK as [CF OK].
    assert (PF : k = 0%nat -> pair_free e (brkc tab (b2 :: r') ++ tl)).
    { intro K. subst k. apply clash_pair_free. exact CF. }
    destruct f as [|f']; [cbn [length] in LF; lia|].
    rewrite (pl_step tab (S f') l e k _ E CI2 PF (lg_lt l G) IT). rewrite CB2.
    destruct (item_geo tab l (e, k) _ G E IT) as (G2 & IT2).
    rewrite (IH f' (item_state tab l (e, k) (brkc tab (b2 :: r') ++ tl)) tl ltac:(discriminate) eq_refl CI CB OK G2 IT2 ltac:(cbn [length] in *; lia)).
    rewrite brk_state_cons. reflexivity.
Qed.

(* PreNextToken and NextToken over a run of break items followed by a token character or by the end of the text *)
Lemma pre_break : forall f l c r, rest l = c :: r -> is_ws c = false -> is_break c = true ->
  pre_next_token (S f) l = match parse_line (S (length (rest l))) l with
                           | LOk _ st' => pre_next_token f st'
                           | LErr a b => LErr a b | LCrash => LCrash | LFuel => LFuel
                           end.
Proof.
  intros f l c r E W B. destruct l as [p rs it ls sl]. cbn [rest] in E. subst rs.
  cbn [pre_next_token rest curc hd]. rewrite W, B.
  destruct (parse_line (S (length (c :: r))) _); reflexivity.
Qed.

Lemma pre_done : forall f l, is_ws (curc (rest l)) = false -> is_break (curc (rest l)) = false ->
  pre_next_token (S f) l = LOk tt l.
Proof.
  intros f l W B. cbn [pre_next_token]. destruct (rest l) as [|c r] eqn:E; [reflexivity|].
  rewrite W, B. reflexivity.
Qed.

Lemma pre_brk : forall tab bs l tl, bs <> [] -> rest l = brkc tab bs ++ tl ->
  is_ws (curc tl) = false -> is_indent_char (curc tl) = false -> is_break (curc tl) = false -> bs_ok bs = true ->
  lgeo l -> (itype l = g_IndentUnknown \/ itype l = utype tab) ->
  pre_next_token (S (length (rest l))) l = LOk tt (brk_state tab l bs tl).
Proof.
  intros tab bs l tl N E CW CI CB OK G IT.
  destruct (brkc_head tab bs N) as (c & r & EB & HC).
  assert (E2 : rest l = c :: (r ++ tl)) by (rewrite E, EB; reflexivity).
  assert (WB : is_ws c = false /\ is_break c = true) by (destruct HC; subst c; split; reflexivity).
  destruct WB as [W B].
  rewrite (pre_break _ l c _ E2 W B).
  rewrite (pl_run tab bs (length (rest l)) l tl N E CI CB OK G IT).
  - rewrite E2. cbn [length]. apply pre_done; unfold brk_state; cbn [rest]; assumption.
  - rewrite E, app_length. pose proof (brkc_len tab bs). lia.
Qed.

Lemma next_token_brk : forall tab bs l tl, bs <> [] -> rest l = brkc tab bs ++ tl ->
  is_ws (curc tl) = false -> is_indent_char (curc tl) = false -> is_break (curc tl) = false -> bs_ok bs = true ->
  lgeo l -> (itype l = g_IndentUnknown \/ itype l = utype tab) ->
  next_token l = nt_body (brk_state tab l bs tl).
Proof.
  intros tab bs l tl N E CW CI CB OK G IT. unfold next_token. rewrite (pre_brk tab bs l tl N E CW CI CB OK G IT).
  reflexivity.
Qed.

Lemma brk_state_geo : forall tab bs l tl, rest l = brkc tab bs ++ tl -> lgeo l ->
  (itype l = g_IndentUnknown \/ itype l = utype tab) ->
  lgeo (brk_state tab l bs tl) /\
  (itype (brk_state tab l bs tl) = g_IndentUnknown \/ itype (brk_state tab l bs tl) = utype tab).
Proof.
  intros tab bs. induction bs as [|b r IH]; intros l tl E G IT.
  - cbn [brkc flat_map app] in E. unfold brk_state. cbn [brkc flat_map length Z.of_nat btab bityp].
    rewrite app_nil_r, Z.add_0_r. destruct l as [p rs it ls sl]. cbn [rest pos itype lines slen] in *. subst rs.
    split; assumption.
  - rewrite brkc_cons, <- app_assoc in E. destruct (item_geo tab l b _ G E IT) as (G2 & IT2).
    rewrite <- brk_state_cons. apply IH; [reflexivity|exact G2|exact IT2].
Qed.

(* ================================================================== the parser's token buffer: geometry for a layout *)
Record geoL (tab : bool) (st : pstate) : Prop := mkGeoL {
  gl_ne : lines (lx st) <> [];
  gl_s2 : sl2 st = Z.of_nat (length (lines (lx st))) - 1;
  gl_e2 : el2 st = sl2 st;
  gl_lg : lgeo (lx st);
  gl_it : itype (lx st) = g_IndentUnknown \/ itype (lx st) = utype tab }.

Lemma geoL_reb : forall tab st f b, geoL tab st -> geoL tab (reb st f b).
Proof. intros tab st f b [A1 A2 A3 A4 A5]. constructor; assumption. Qed.

Lemma lgeo_adv : forall l pre tl, lgeo l -> rest l = pre ++ tl ->
  lgeo (set_pos_rest l (pos l + Z.of_nat (length pre)) tl).
Proof.
  intros l pre tl [G1 G2 G3] E.
  assert (LEN : slen l = pos l + Z.of_nat (length pre) + Z.of_nat (length tl)) by (rewrite G2, E, app_length; lia).
  constructor; cbn [set_pos_rest pos rest slen].
  - lia.
  - exact LEN.
  - apply (lto_mono l _ (pos l)); [exact G3|reflexivity|reflexivity|reflexivity|lia|lia].
Qed.

Lemma p_next_inlineL : forall tab st tk l' c, geoL tab st -> next_token (lx st) = LOk tk l' ->
  (t_ty tk =? g_TypeComment) = false ->
  lines l' = lines (lx st) -> p2 st = Some c -> (t_ty c =? g_TypeEOF) = false -> (t_ty tk =? g_TypeEOF) = false ->
  p_next st = Ok tt (mkP l' (p2 st) (Some tk) (sl2 st) (el2 st) (sl2 st) (el2 st) (flag st) (bind_ st)).
Proof.
  intros tab st tk l' c G NT NC HL P EC ET. destruct G as [A1 A2 A3 A4 A5].
  rewrite (p_next_gen st tk l' (sl2 st) (el2 st) NT NC).
  - unfold meet_line_break. cbn [p1 p2 el1 sl2]. rewrite P, EC, ET. cbn [orb]. rewrite A3, Z.ltb_irrefl. reflexivity.
  - rewrite HL, A2. apply find_last. exact A1.
  - rewrite HL, A3, A2. apply find_last. exact A1.
Qed.

(* inside a line (tokens separated by single spaces): as StmtNestProofs.run_line, for the geometry of a layout *)
Lemma run_lineL : forall tab tail, tail_ok tail -> forall ts t st, geoL tab st -> headok t st ->
  (fst t =? g_TypeEOF) = false ->
  rest (lx st) = after3 ts ++ tail -> forallb tok_ok3 ts = true -> lastok3 (t :: ts) = true ->
  exists stl, (forall st', p_next stl = Ok tt st' -> feeds (t :: ts) st st') /\ geoL tab stl /\ flag stl = false /\
    (exists tkl, p2 stl = Some tkl /\ (t_ty tkl =? g_TypeEOF) = false /\
                 (lastok2 (t :: ts) = true -> mlb_ok (t_ty tkl) = true)) /\
    rest (lx stl) = tail /\ lines (lx stl) = lines (lx st) /\ itype (lx stl) = itype (lx st) /\ bind_ stl = bind_ st /\
    pos (lx stl) = pos (lx st) + Z.of_nat (length (after3 ts)).
Proof.
  intros tab tail TT. induction ts as [|t2 ts IH]; intros t st G HO NE ER TO LO.
  - exists st. split; [intros st' PN; apply feeds_one; split; assumption|].
    split; [exact G|]. destruct HO as (Hf & tk0 & P2 & Ty & Tx).
    split; [exact Hf|]. split.
    { exists tk0. split; [exact P2|]. rewrite Ty. split; [exact NE|]. intro L2. apply endable2_mlb. exact L2. }
    split; [exact ER|]. cbn [after3 length]. repeat split; try reflexivity. cbn [Z.of_nat]. lia.
  - cbn [forallb] in TO. apply andb_true_iff in TO. destruct TO as [T2 TO].
    pose proof HO as HO0. destruct HO as (Hf & tk0 & P2 & Ty & Tx).
    destruct (head_plain_inv _ (spell_head3 _ T2)) as (c & r & SP & CW & CB & CI & CE).
    assert (ER2 : rest (lx st) = 32 :: c :: (r ++ after3 ts ++ tail)).
    { rewrite ER. cbn [after3]. rewrite joinc3_cons, SP. cbn [app]. rewrite <- app_assoc. reflexivity. }
    pose proof (next_token_space _ _ _ ER2 CW CB) as NT.
    set (l1 := set_pos_rest (lx st) (pos (lx st) + 1) (c :: r ++ after3 ts ++ tail)) in *.
    assert (TL : (exists t', after3 ts ++ tail = 32 :: t') \/ (endable3 t2 = true /\ tail_ok (after3 ts ++ tail))).
    { destruct ts as [|t3 ts'].
      - cbn [after3 app]. right. split; [exact LO|exact TT].
      - left. cbn [after3 app]. eauto. }
    assert (R1 : rest l1 = spell3 t2 ++ after3 ts ++ tail) by (rewrite SP; reflexivity).
    destruct (lex_atok3 t2 l1 (after3 ts ++ tail) T2 R1 TL) as (tk2 & LX & Ty2 & Tx2).
    rewrite LX in NT.
    destruct (tok_ty_ok3 _ T2) as [NE2 NC2].
    pose proof (p_next_inlineL tab st _ _ tk0 G NT ltac:(rewrite Ty2; exact NC2) eq_refl P2
                  ltac:(rewrite Ty; exact NE) ltac:(rewrite Ty2; exact NE2)) as PN.
    match type of PN with p_next st = Ok tt ?s => set (st1 := s) in * end.
    assert (G' : geoL tab st1).
    { destruct G as [A1 A2 A3 A4 A5].
      constructor; unfold st1; cbn [lx sl2 el2 set_pos_rest lines itype]; try assumption.
      apply lgeo_adv; [|exact R1].
      exact (lgeo_adv (lx st) [32] _ A4 ER2). }
    assert (HO1 : headok t2 st1).
    { split; [exact Hf|]. exists tk2. split; [reflexivity|]. auto. }
    destruct (IH t2 st1 G' HO1 NE2 eq_refl TO LO) as (stl & FE & GF & FF & (tkl & PL & NL & ML) & RF & LF & IF & BF & PP).
    exists stl. split; [intros st' PL'; econstructor; eauto|].
    split; [exact GF|]. split; [exact FF|].
    split; [exists tkl; split; [exact PL|split; [exact NL|exact ML]]|].
    split; [exact RF|]. split; [exact LF|]. split; [exact IF|]. split; [exact BF|].
    rewrite PP. unfold st1, l1. cbn [lx set_pos_rest pos]. cbn [after3]. rewrite joinc3_cons, SP.
    cbn [length]. repeat rewrite app_length. cbn [length]. lia.
Qed.

(* ------------------------------------------------------------------ line indices over new lines *)
Lemma find_aux_all : forall new i c, Forall (fun ln => l_start ln <= c) new ->
  find_line_idx_aux new i c = i + Z.of_nat (length new).
Proof.
  induction new as [|x r IH]; intros i c H; [cbn; lia|].
  inversion H as [|x0 r0 Hx Hr]; subst. cbn [find_line_idx_aux].
  assert (X : (c <? l_start x) = false) by (apply Z.ltb_ge; lia). rewrite X, IH by exact Hr. cbn [length]. lia.
Qed.

Lemma find_app : forall ls new c, ls <> [] -> Forall (fun ln => l_start ln <= c) new ->
  find_line_idx (ls ++ new) c (Z.of_nat (length ls) - 1) = Z.of_nat (length ls) + Z.of_nat (length new) - 1.
Proof.
  intros ls new c N H. unfold find_line_idx.
  assert (L : (0 < length ls)%nat) by (destruct ls; [congruence|cbn; lia]).
  replace (Z.to_nat (Z.of_nat (length ls) - 1 + 1)) with (length ls) by lia.
  rewrite skipn_app, skipn_all, Nat.sub_diag. cbn [app skipn]. rewrite find_aux_all by exact H. lia.
Qed.

Lemma btab_le : forall tab bs p c, p + Z.of_nat (length (brkc tab bs)) <= c ->
  Forall (fun ln => l_start ln <= c) (btab tab p bs).
Proof.
  intros tab bs. induction bs as [|b r IH]; intros p c H; [constructor|].
  rewrite brkc_cons, app_length in H. cbn [btab]. constructor.
  - cbn [l_start]. unfold bic in H. rewrite app_length in H. lia.
  - apply IH. lia.
Qed.

Lemma btab_length : forall tab bs p, length (btab tab p bs) = length bs.
Proof. intros tab bs. induction bs as [|b r IH]; intro p; [reflexivity|]. cbn [btab length]. rewrite IH. reflexivity. Qed.

Lemma btab_app : forall tab a b p,
  btab tab p (a ++ b) = btab tab p a ++ btab tab (p + Z.of_nat (length (brkc tab a))) b.
Proof.
  intros tab a. induction a as [|x a IH]; intros b p.
  - cbn [app btab brkc flat_map length Z.of_nat]. rewrite Z.add_0_r. reflexivity.
  - cbn [app btab]. rewrite IH, brkc_cons, app_length. f_equal. f_equal. f_equal. lia.
Qed.

Lemma bityp_app : forall tab a b it, bityp tab it (a ++ b) = bityp tab (bityp tab it a) b.
Proof. intros tab a. induction a as [|x a IH]; intros b it; [reflexivity|]. cbn [app bityp]. apply IH. Qed.

Lemma brk_state_nil : forall tab l, brk_state tab l [] (rest l) = l.
Proof.
  intros tab [p rs it ls sl]. unfold brk_state. cbn [pos rest itype lines slen brkc flat_map length Z.of_nat btab bityp].
  rewrite app_nil_r, Z.add_0_r. reflexivity.
Qed.

(* ------------------------------------------------------------------ the end of the text, after trailing break items *)
Lemma eof_stepL : forall tab stl tkl bs, geoL tab stl -> p2 stl = Some tkl -> rest (lx stl) = brkc tab bs ->
  bs_ok bs = true ->
  exists st', p_next stl = Ok tt st' /\ flag st' = true /\ ateof st' /\ lx st' = brk_state tab (lx stl) bs [].
Proof.
  intros tab st tkl bs G P ER OK. destruct G as [A1 A2 A3 LG A5].
  set (l' := brk_state tab (lx st) bs []).
  assert (ER0 : rest (lx st) = brkc tab bs ++ []) by (rewrite app_nil_r; exact ER).
  destruct (brk_state_geo tab bs (lx st) [] ER0 LG A5) as (LG' & _). fold l' in LG'.
  assert (NT : next_token (lx st) = LOk (mkTok g_TypeEOF [] (pos l') (pos l')) l').
  { destruct bs as [|b r].
    - cbn [brkc flat_map] in ER. assert (EL : l' = lx st).
      { unfold l'. rewrite <- ER. apply brk_state_nil. }
      rewrite EL. rewrite next_token_eof by exact ER. unfold parse_eof. rewrite (lg_lt _ LG). reflexivity.
    - rewrite (next_token_brk tab (b :: r) (lx st) [] ltac:(discriminate) ER0 eq_refl eq_refl eq_refl OK LG A5).
      fold l'. unfold nt_body. change (rest l') with (@nil Z). cbv iota. unfold parse_eof.
      rewrite (lg_lt _ LG'). reflexivity. }
  set (nn := Z.of_nat (length (lines (lx st))) + Z.of_nat (length (btab tab (pos (lx st)) bs)) - 1).
  assert (FA : Forall (fun ln => l_start ln <= pos l') (btab tab (pos (lx st)) bs)).
  { apply btab_le. unfold l', brk_state. cbn [pos]. lia. }
  assert (F1 : find_line_idx (lines l') (pos l') (sl2 st) = nn).
  { unfold l' at 1, brk_state. cbn [lines]. rewrite A2. apply find_app; [exact A1|exact FA]. }
  assert (F2 : find_line_idx (lines l') (pos l') (el2 st) = nn).
  { unfold l' at 1, brk_state. cbn [lines]. rewrite A3, A2. apply find_app; [exact A1|exact FA]. }
  rewrite (p_next_gen st _ _ nn nn NT eq_refl F1 F2).
  unfold meet_line_break. cbn [p1 p2 t_ty]. rewrite P. change (g_TypeEOF =? g_TypeEOF) with true.
  rewrite orb_true_r. eexists. split; [reflexivity|]. cbn [set_flag flag p2 lx].
  split; [reflexivity|]. split; [eexists; split; reflexivity|reflexivity].
Qed.

(* ------------------------------------------------------------------ over break items: the first token of the next line *)
Lemma nl_stepL : forall tab stl tkl bs e n t2 rest2, geoL tab stl -> p2 stl = Some tkl -> (t_ty tkl =? g_TypeEOF) = false ->
  rest (lx stl) = brkc tab (bs ++ [(e, n)]) ++ spell3 t2 ++ rest2 -> bs_ok (bs ++ [(e, n)]) = true ->
  tok_ok3 t2 = true -> mem (fst t2) lheads = true ->
  (exists t', rest2 = 32 :: t') \/ (endable3 t2 = true /\ tail_ok rest2) ->
  exists st1 tk2, p_next stl = Ok tt st1 /\ geoL tab st1 /\ p2 st1 = Some tk2 /\ t_ty tk2 = fst t2 /\ text_of tk2 = snd t2 /\
    rest (lx st1) = rest2 /\ peek_indent st1 = Z.of_nat n /\
    lines (lx st1) = lines (lx stl) ++ btab tab (pos (lx stl)) (bs ++ [(e, n)]) /\
    itype (lx st1) = bityp tab (itype (lx stl)) (bs ++ [(e, n)]) /\
    pos (lx st1) = pos (lx stl) + Z.of_nat (length (brkc tab (bs ++ [(e, n)]))) + Z.of_nat (length (spell3 t2)) /\
    flag st1 = (flag stl || (mlb_ok (t_ty tkl) && negb (mem (fst t2) [g_TypeArrayQuoteR; g_TypeStmtQuoteR]))) /\
    bind_ st1 = bind_ stl.
Proof.
  intros tab st tkl bs e n t2 rest2 G P NE ER OK T2 MH HT.
  assert (NB : bs ++ [(e, n)] <> []) by (destruct bs; discriminate).
  destruct (head_plain_inv _ (spell_head3 _ T2)) as (c & r & SP & CW & CB & CI & CE).
  assert (ER2 : rest (lx st) = brkc tab (bs ++ [(e, n)]) ++ c :: (r ++ rest2)).
  { rewrite ER, SP. reflexivity. }
  destruct G as [A1 A2 A3 LG A5].
  pose proof (next_token_brk tab _ _ _ NB ER2 CW CI CB OK LG A5) as NT.
  destruct (brk_state_geo tab _ (lx st) _ ER2 LG A5) as (LG1 & IT1).
  set (l1 := brk_state tab (lx st) (bs ++ [(e, n)]) (c :: r ++ rest2)) in *.
  assert (R1 : rest l1 = spell3 t2 ++ rest2) by (rewrite SP; reflexivity).
  destruct (lex_atok3 t2 l1 rest2 T2 R1 HT) as (tk2 & LX & Ty2 & Tx2).
  destruct (lex_head_pos t2 l1 rest2 tk2 _ T2 MH R1 HT LX) as (PS & PE).
  rewrite LX in NT. destruct (tok_ty_ok3 _ T2) as [NE2 NC2].
  set (new := btab tab (pos (lx st)) (bs ++ [(e, n)])).
  set (nn := Z.of_nat (length (lines (lx st))) + Z.of_nat (length new) - 1).
  set (l2 := set_pos_rest l1 (pos l1 + Z.of_nat (length (spell3 t2))) rest2) in *.
  assert (LN : (1 <= length new)%nat).
  { unfold new. rewrite btab_length, app_length. cbn [length]. lia. }
  assert (F1 : find_line_idx (lines l2) (t_s tk2) (sl2 st) = nn).
  { cbn [l2 set_pos_rest lines l1 brk_state]. rewrite A2. apply find_app; [exact A1|].
    apply btab_le. cbn [l1 brk_state pos] in PS. exact PS. }
  assert (F2 : find_line_idx (lines l2) (t_e tk2) (el2 st) = nn).
  { cbn [l2 set_pos_rest lines l1 brk_state]. rewrite A3, A2. apply find_app; [exact A1|].
    apply btab_le. cbn [l1 brk_state pos] in PE. exact PE. }
  pose proof (p_next_gen st tk2 _ nn nn NT ltac:(rewrite Ty2; exact NC2) F1 F2) as PN.
  unfold meet_line_break in PN. cbn [p1 p2 el1 sl2] in PN. rewrite P, NE, Ty2, NE2 in PN. cbn [orb] in PN.
  assert (LTn : (el2 st <? nn) = true) by (apply Z.ltb_lt; unfold nn; lia). rewrite LTn in PN.
  assert (GN : forall fl, geoL tab (mkP l2 (Some tkl) (Some tk2) (sl2 st) (el2 st) nn nn fl (bind_ st))).
  { intro fl. constructor; cbn [lx sl2 el2].
    - cbn [l2 set_pos_rest lines l1 brk_state]. intro X. apply app_eq_nil in X. destruct X as [X _]. exact (A1 X).
    - cbn [l2 set_pos_rest lines l1 brk_state]. rewrite app_length. fold new. unfold nn. lia.
    - reflexivity.
    - unfold l2. apply lgeo_adv; [exact LG1|exact R1].
    - exact IT1. }
  assert (PIn : forall fl, peek_indent (mkP l2 (Some tkl) (Some tk2) (sl2 st) (el2 st) nn nn fl (bind_ st)) = Z.of_nat n).
  { intro fl. unfold peek_indent. cbn [lx sl2 l2 set_pos_rest lines l1 brk_state].
    replace nn with (Z.of_nat (length (lines (lx st) ++ btab tab (pos (lx st)) bs))).
    - rewrite btab_app. cbn [btab]. rewrite app_assoc. rewrite line_indent_new. reflexivity.
    - unfold nn, new. rewrite btab_app, !app_length. cbn [btab length]. lia. }
  unfold mlb_ok.
  destruct (mem (t_ty tkl) [g_TypeCommaSep; g_TypePauseCommaSep; g_TypeStmtQuoteL; g_TypeArrayQuoteL; g_TypeFuncCall; g_TypeFuncDeclare]) eqn:MM.
  - cbv iota in PN. eexists _, tk2. split; [exact PN|]. split; [apply GN|]. cbn [p2 lx flag bind_].
    split; [reflexivity|]. split; [exact Ty2|]. split; [exact Tx2|]. split; [reflexivity|]. split; [apply PIn|].
    split; [reflexivity|]. split; [reflexivity|]. split; [reflexivity|].
    split; [cbn [andb negb]; rewrite orb_false_r; reflexivity|reflexivity].
  - destruct (mem (fst t2) [g_TypeArrayQuoteR; g_TypeStmtQuoteR]) eqn:MR; cbv iota in PN.
    + eexists _, tk2. split; [exact PN|]. split; [apply GN|]. cbn [p2 lx flag bind_].
      split; [reflexivity|]. split; [exact Ty2|]. split; [exact Tx2|]. split; [reflexivity|]. split; [apply PIn|].
      split; [reflexivity|]. split; [reflexivity|]. split; [reflexivity|].
      split; [cbn [andb negb]; rewrite orb_false_r; reflexivity|reflexivity].
    + eexists _, tk2. split; [exact PN|]. cbn [set_flag]. split; [apply GN|]. cbn [p2 lx flag bind_].
      split; [reflexivity|]. split; [exact Ty2|]. split; [exact Tx2|]. split; [reflexivity|]. split; [apply PIn|].
      split; [reflexivity|]. split; [reflexivity|]. split; [reflexivity|].
      split; [cbn [andb negb]; rewrite orb_true_r; reflexivity|reflexivity].
Qed.

(* ================================================================== the text of a list of lines under a layout *)
(* a gap between two statement lines: blank lines (each: the line end before it, its indentation units), then the line
   end before the next statement line *)
Definition gap : Type := (list bitem * eol)%type.
Definition dgap : gap := ([], LF).
Definition gitems (g : gap) (d : nat) : list bitem := fst g ++ [(snd g, d)].
Definition gap_ok (g : gap) : bool := bs_ok (gitems g 0).

(* what follows the last token of a line: the gap, the next line, ...; after the last line the trailing break items *)
Fixpoint aftL (tab : bool) (trail : list bitem) (gs : list gap) (r : list pline) : list Z :=
  match r with
  | [] => brkc tab trail
  | l :: r' => brkc tab (gitems (hd dgap gs) (fst (fst l))) ++ joinc3 (snd (fst l)) ++ aftL tab trail (tl gs) r'
  end.
Definition textL (tab : bool) (trail : list bitem) (gs : list gap) (L : list pline) : list Z :=
  match L with
  | [] => []
  | l :: r => indent tab (fst (fst l)) ++ joinc3 (snd (fst l)) ++ aftL tab trail gs r
  end.

(* the lines recorded after offset p (the end of the tokens of a line), and the indentation type *)
Fixpoint ltabL (tab : bool) (p : Z) (trail : list bitem) (gs : list gap) (r : list pline) : list line :=
  match r with
  | [] => btab tab p trail
  | l :: r' =>
      btab tab p (gitems (hd dgap gs) (fst (fst l)))
      ++ ltabL tab (p + Z.of_nat (length (brkc tab (gitems (hd dgap gs) (fst (fst l)))))
                     + Z.of_nat (length (joinc3 (snd (fst l))))) trail (tl gs) r'
  end.
Fixpoint itypL (tab : bool) (it : Z) (trail : list bitem) (gs : list gap) (r : list pline) : Z :=
  match r with
  | [] => bityp tab it trail
  | l :: r' => itypL tab (bityp tab it (gitems (hd dgap gs) (fst (fst l)))) trail (tl gs) r'
  end.

Lemma tail_ok_cr : forall t', tail_ok (13 :: t'). Proof. intro t'. reflexivity. Qed.

Lemma tail_ok_brk : forall tab bs X, bs <> [] -> tail_ok (brkc tab bs ++ X).
Proof.
  intros tab bs X N. destruct (brkc_head tab bs N) as (c & r & E & [H|H]); rewrite E; subst c; cbn [app];
    [apply tail_ok_lf|apply tail_ok_cr].
Qed.

Lemma gitems_ne : forall g d, gitems g d <> []. Proof. intros [bs e] d. unfold gitems. cbn [fst snd]. destruct bs; discriminate. Qed.

Lemma tail_ok_aftL : forall tab trail gs r, tail_ok (aftL tab trail gs r).
Proof.
  intros tab trail gs [|l r]; cbn [aftL].
  - destruct trail as [|b t]; [apply tail_ok_nil|].
    rewrite <- (app_nil_r (brkc tab (b :: t))). apply tail_ok_brk. discriminate.
  - apply tail_ok_brk. apply gitems_ne.
Qed.

Lemma bs_ok_last : forall bs e d d', bs_ok (bs ++ [(e, d)]) = bs_ok (bs ++ [(e, d')]).
Proof.
  induction bs as [|b r IH]; intros e d d'; [reflexivity|].
  destruct r as [|b2 r'].
  - reflexivity.
  - change (bs_ok ((b :: b2 :: r') ++ [(e, d)])) with (clash_free (fst b) (snd b) (fst b2) && bs_ok ((b2 :: r') ++ [(e, d)])).
    change (bs_ok ((b :: b2 :: r') ++ [(e, d')])) with (clash_free (fst b) (snd b) (fst b2) && bs_ok ((b2 :: r') ++ [(e, d')])).
    rewrite (IH e d d'). reflexivity.
Qed.

Lemma gap_ok_items : forall g d, gap_ok g = true -> bs_ok (gitems g d) = true.
Proof. intros g d H. unfold gap_ok, gitems in *. exact (eq_trans (bs_ok_last (fst g) (snd g) d 0%nat) H). Qed.

Lemma gaps_hd_tl : forall gs, forallb gap_ok gs = true -> gap_ok (hd dgap gs) = true /\ forallb gap_ok (tl gs) = true.
Proof.
  intros [|g gs] H; [split; reflexivity|]. cbn [forallb] in H. apply andb_true_iff in H. exact H.
Qed.

Lemma run_linesL : forall tab trail, bs_ok trail = true -> forall r gs d t ts sm st tk,
  forallb lineok ((d, t :: ts, sm) :: r) = true -> forallb gap_ok gs = true -> geoL tab st ->
  p2 st = Some tk -> t_ty tk = fst t -> text_of tk = snd t -> peek_indent st = Z.of_nat d ->
  rest (lx st) = after3 ts ++ aftL tab trail gs r ->
  exists st', lfeeds ((d, t :: ts, sm) :: r) st st' /\ ateof st' /\
    lines (lx st') = lines (lx st) ++ ltabL tab (pos (lx st) + Z.of_nat (length (after3 ts))) trail gs r /\
    itype (lx st') = itypL tab (itype (lx st)) trail gs r.
Proof.
  intros tab trail TOK. induction r as [|l2 r2 IH]; intros gs d t ts sm st tk OK GOK G P Ty Tx PI ER.
  - cbn [forallb] in OK. rewrite andb_true_r in OK. unfold lineok in OK. cbn [fst snd] in OK.
    apply andb_true_iff in OK. destruct OK as [OK MH]. apply andb_true_iff in OK. destruct OK as [OK LS].
    apply andb_true_iff in OK. destruct OK as [OK LO]. apply andb_true_iff in OK. destruct OK as [T1 TO].
    destruct (lheads_facts _ MH) as [_ NE].
    assert (HO : headok t (reb st false (bind_ st))).
    { split; [reflexivity|]. exists tk. split; [exact P|]. auto. }
    destruct (run_lineL tab (aftL tab trail gs []) (tail_ok_aftL _ _ _ _) ts t _ (geoL_reb tab st false (bind_ st) G) HO NE ER TO LO)
      as (stl & FE & GL & FL & (tkl & PL & NL & ML) & RL & LL & IL & BL & PP).
    cbn [aftL] in RL.
    destruct (eof_stepL tab stl tkl trail GL PL RL TOK) as (st' & PN & FF & EO & LX).
    exists st'. split.
    { econstructor; [exact PI|apply FE; exact PN|intros _; exact FF|constructor]. }
    split; [exact EO|]. rewrite LX. unfold brk_state. cbn [lines itype]. rewrite LL, IL, PP. cbn [ltabL itypL reb lx]. auto.
  - cbn [forallb] in OK. apply andb_true_iff in OK. destruct OK as [OK1 OK2].
    pose proof OK2 as OK2'. cbn [forallb] in OK2. apply andb_true_iff in OK2. destruct OK2 as [OKl2 _].
    destruct l2 as [[d2 tss2] sm2]. unfold lineok in OKl2. cbn [fst snd] in OKl2.
    destruct tss2 as [|t2 ts2]; [discriminate|].
    unfold lineok in OK1. cbn [fst snd] in OK1.
    apply andb_true_iff in OK1. destruct OK1 as [OK MH]. apply andb_true_iff in OK. destruct OK as [OK LS].
    apply andb_true_iff in OK. destruct OK as [OK LO]. apply andb_true_iff in OK. destruct OK as [T1 TO].
    apply andb_true_iff in OKl2. destruct OKl2 as [OK MH2]. apply andb_true_iff in OK. destruct OK as [OK LS2].
    apply andb_true_iff in OK. destruct OK as [OK LO2]. apply andb_true_iff in OK. destruct OK as [T2 TO2].
    destruct (lheads_facts _ MH) as [_ NE]. destruct (lheads_facts _ MH2) as [NC2 NE2].
    destruct (gaps_hd_tl gs GOK) as (GH & GT).
    assert (HO : headok t (reb st false (bind_ st))).
    { split; [reflexivity|]. exists tk. split; [exact P|]. auto. }
    destruct (run_lineL tab (aftL tab trail gs ((d2, t2 :: ts2, sm2) :: r2)) (tail_ok_aftL _ _ _ _) ts t _
                (geoL_reb tab st false (bind_ st) G) HO NE ER TO LO)
      as (stl & FE & GL & FL & (tkl & PL & NL & ML) & RL & LL & IL & BL & PP).
    set (g := hd dgap gs) in *.
    assert (RL2 : rest (lx stl) = brkc tab (fst g ++ [(snd g, d2)]) ++ spell3 t2 ++ (after3 ts2 ++ aftL tab trail (tl gs) r2)).
    { rewrite RL. cbn [aftL fst snd]. fold g. unfold gitems. rewrite joinc3_cons. rewrite <- !app_assoc. reflexivity. }
    assert (HT : (exists t', after3 ts2 ++ aftL tab trail (tl gs) r2 = 32 :: t') \/
                 (endable3 t2 = true /\ tail_ok (after3 ts2 ++ aftL tab trail (tl gs) r2))).
    { destruct ts2 as [|t3 ts3].
      - right. cbn [after3 app]. split; [exact LO2|apply tail_ok_aftL].
      - left. cbn [after3 app]. eauto. }
    destruct (nl_stepL tab stl tkl (fst g) (snd g) d2 t2 _ GL PL NL RL2 (gap_ok_items g d2 GH) T2 MH2 HT)
      as (st1 & tk2 & PN & G1 & P21 & Ty2 & Tx2 & R1 & PI1 & L1 & I1 & PP1 & F1 & B1).
    change (fst g ++ [(snd g, d2)]) with (gitems g d2) in L1, I1, PP1.
    destruct (IH (tl gs) d2 t2 ts2 sm2 st1 tk2 OK2' GT G1 P21 Ty2 Tx2 PI1 R1) as (st' & LFD & EO & LT & IT).
    exists st'. split.
    { econstructor; [exact PI|apply FE; exact PN| |exact LFD].
      intro SM. subst sm. rewrite F1, FL, (ML LS), NC2. reflexivity. }
    split; [exact EO|]. split.
    + rewrite LT, L1, LL. cbn [reb lx]. rewrite <- app_assoc. cbn [ltabL fst snd]. fold g.
      f_equal. rewrite PP. cbn [reb lx]. f_equal. f_equal.
      rewrite PP1, PP. cbn [reb lx]. rewrite joinc3_cons, app_length. lia.
    + rewrite IT, I1, IL. cbn [itypL fst snd reb lx]. reflexivity.
Qed.

(* ------------------------------------------------------------------ from the first character *)
Lemma init_linesL : forall tab trail gs t ts sm r, forallb lineok ((0%nat, t :: ts, sm) :: r) = true ->
  exists l0 st0 tk, lex_init (textL tab trail gs ((0%nat, t :: ts, sm) :: r)) = LOk tt l0 /\
    p_next (init_pstate l0) = Ok tt st0 /\
    geoL tab st0 /\ p2 st0 = Some tk /\ t_ty tk = fst t /\ text_of tk = snd t /\ peek_indent st0 = 0 /\
    rest (lx st0) = after3 ts ++ aftL tab trail gs r /\ lines (lx st0) = [mkLine 0 0] /\ itype (lx st0) = g_IndentUnknown /\
    pos (lx st0) = Z.of_nat (length (spell3 t)).
Proof.
  intros tab trail gs t ts sm r OK. cbn [forallb] in OK. apply andb_true_iff in OK. destruct OK as [OK1 _].
  unfold lineok in OK1. cbn [fst snd] in OK1.
  apply andb_true_iff in OK1. destruct OK1 as [OK MH]. apply andb_true_iff in OK. destruct OK as [OK LS].
  apply andb_true_iff in OK. destruct OK as [OK LO]. apply andb_true_iff in OK. destruct OK as [T1 TO].
  destruct (head_plain_inv _ (spell_head3 _ T1)) as (c & r0 & SP & CW & CB & CI & CE).
  set (src := textL tab trail gs ((0%nat, t :: ts, sm) :: r)).
  set (X := aftL tab trail gs r) in *.
  assert (ES : src = c :: r0 ++ after3 ts ++ X).
  { unfold src. cbn [textL fst snd]. fold X. unfold indent. rewrite Nat.mul_0_r. cbn [repeat app].
    rewrite joinc3_cons, SP. cbn [app]. rewrite <- app_assoc. reflexivity. }
  set (l0 := mkL 0 src g_IndentUnknown [mkLine 0 0] (Z.of_nat (length src))).
  assert (LI : lex_init src = LOk tt l0).
  { unfold lex_init, parse_begin_lex. cbn [rest]. rewrite ES at 1. rewrite CE, CI. reflexivity. }
  assert (TL : (exists t', after3 ts ++ X = 32 :: t') \/ (endable3 t = true /\ tail_ok (after3 ts ++ X))).
  { destruct ts as [|t3 ts'].
    - cbn [after3 app]. right. split; [exact LO|apply tail_ok_aftL].
    - left. cbn [after3 app]. eauto. }
  assert (R0 : rest l0 = spell3 t ++ after3 ts ++ X) by (cbn [l0 rest]; rewrite ES, SP; reflexivity).
  destruct (lex_atok3 t l0 _ T1 R0 TL) as (tk & LX & Ty & Tx).
  assert (NT : next_token l0 = nt_body l0).
  { apply (next_token_plain l0 c (r0 ++ after3 ts ++ X)); [exact ES|exact CW|exact CB]. }
  rewrite LX in NT. destruct (tok_ty_ok3 _ T1) as [NE NC].
  pose proof (p_next_gen (init_pstate l0) tk _ 0 0 NT ltac:(rewrite Ty; exact NC) eq_refl eq_refl) as PN.
  unfold meet_line_break in PN. cbn [init_pstate p1 p2] in PN.
  assert (LG0 : lgeo l0).
  { constructor; cbn [l0 pos rest slen].
    - lia.
    - lia.
    - apply lto_intro; cbn [l0 lines itype slen last l_start l_indents]; [|lia].
      change (g_IndentUnknown =? g_IndentSpace) with false. change (g_IndentUnknown =? g_IndentTab) with false. cbv iota. lia. }
  eexists l0, _, tk. split; [exact LI|]. split; [exact PN|].
  split.
  { constructor; cbn [lx sl2 el2].
    - cbn [l0 set_pos_rest lines]. discriminate.
    - cbn [l0 set_pos_rest lines length Z.of_nat]. lia.
    - reflexivity.
    - apply lgeo_adv; [exact LG0|exact R0].
    - left. reflexivity. }
  cbn [p2 lx set_pos_rest rest lines itype pos l0].
  split; [reflexivity|]. split; [exact Ty|]. split; [exact Tx|]. split; [reflexivity|].
  split; [reflexivity|]. split; [reflexivity|]. split; [reflexivity|]. lia.
Qed.

(* ================================================================== layouts of programs *)
Record layout := mkLayout {
  l_tab : bool;               (* the indentation unit: one TAB (true) or four spaces (false) per nesting level *)
  l_gaps : list gap;          (* the i-th gap separates the lines i and i+1 of the text; missing gaps are a single LF *)
  l_trail : list bitem }.     (* after the last line: line ends, each followed by indentation units (possibly none) *)

Definition layout_ok (L : layout) : bool := forallb gap_ok (l_gaps L) && bs_ok (l_trail L).

Definition print_with (L : layout) (p : list sstmt) : list Z :=
  textL (l_tab L) (l_trail L) (l_gaps L) (blines 0 p).

(* the line table: every physical line (statement lines, blank lines, the lines opened by trailing line ends) with
   its indentation level (= the number of indentation units at its start) and the offset of its first character *)
Definition line_table_with (L : layout) (p : list sstmt) : list line :=
  match blines 0 p with
  | [] => []
  | l :: r => mkLine 0 0 :: ltabL (l_tab L) (Z.of_nat (length (joinc3 (snd (fst l))))) (l_trail L) (l_gaps L) r
  end.
(* the indentation type: unknown (0) when no line (statement, blank or trailing) starts with an indentation unit,
   otherwise the type of the unit: 32 for spaces, 9 for TAB *)
Definition indent_type_with (L : layout) (p : list sstmt) : Z :=
  match blines 0 p with
  | [] => g_IndentUnknown
  | l :: r => itypL (l_tab L) g_IndentUnknown (l_trail L) (l_gaps L) r
  end.

Theorem compile_lines_textL : forall L p fuel, p <> [] -> forallb swf p = true -> forallb lineok (blines 0 p) = true ->
  layout_ok L = true -> (pfuel p <= fuel)%nat ->
  compile fuel (print_with L p) = OTree (prescribed p) (line_table_with L p) (indent_type_with L p).
Proof.
  intros L p fuel N W OK LOK LF. unfold layout_ok in LOK. apply andb_true_iff in LOK. destruct LOK as [GOK TOK].
  unfold print_with, line_table_with, indent_type_with.
  destruct (blines_head 0 p N) as (t & ts & sm & r & EL & MH). rewrite EL in OK.
  destruct (init_linesL (l_tab L) (l_trail L) (l_gaps L) t ts sm r OK)
    as (l0 & st0 & tk & LI & PN & G & P & Ty & Tx & PI & ER & LL & IL & PP).
  destruct (run_linesL (l_tab L) (l_trail L) TOK r (l_gaps L) 0%nat t ts sm st0 tk OK GOK G P Ty Tx PI ER)
    as (st' & LFD & EO & LT & IT).
  rewrite <- EL in LFD.
  destruct (parse_program_tokens p fuel st0 st' N W LF LFD EO) as (b' & PP').
  rewrite EL. unfold compile. rewrite LI. unfold bind. rewrite PN, PI, PP'.
  destruct EO as (tke & PE & TE). unfold peek_ty. cbn [setb reb p2 lx]. rewrite PE. cbn [tok_ty]. rewrite TE.
  change (g_TypeEOF =? g_TypeEOF) with true. cbn [negb]. cbv iota.
  rewrite LT, IT, LL, IL. cbn [fst snd app]. f_equal. f_equal. f_equal.
  rewrite PP. rewrite joinc3_cons, app_length. lia.
Qed.

(* ================================================================== MAIN THEOREMS *)
Theorem compile_print_with : forall L p fuel, prog_ok p = true -> layout_ok L = true -> (pfuel p <= fuel)%nat ->
  compile fuel (print_with L p) = OTree (prescribed p) (line_table_with L p) (indent_type_with L p).
Proof.
  intros L p fuel OK LOK LF. unfold prog_ok in OK. apply andb_true_iff in OK. destruct OK as [OK LO].
  apply andb_true_iff in OK. destruct OK as [N W]. apply nonnil_ne in N.
  apply compile_lines_textL; auto. apply blines_ok; assumption.
Qed.

Theorem compile_print_with_default : forall L p, prog_ok p = true -> layout_ok L = true ->
  compile (default_fuel (print_with L p)) (print_with L p)
  = OTree (prescribed p) (line_table_with L p) (indent_type_with L p).
Proof.
  intros L p OK LOK.
  set (F := Nat.max (default_fuel (print_with L p)) (pfuel p)).
  pose proof (compile_print_with L p F OK LOK ltac:(unfold F; lia)) as HF.
  destruct (compile_mono (default_fuel (print_with L p)) F (print_with L p) ltac:(unfold F; lia)) as [H|H].
  - exfalso. exact (compile_total _ H).
  - rewrite H. exact HF.
Qed.

Definition tree_of (o : outcome) : option program := match o with OTree p _ _ => Some p | _ => None end.

(* text that only rearranges layout never changes the tree *)
Theorem layout_invariance : forall L1 L2 p, prog_ok p = true -> layout_ok L1 = true -> layout_ok L2 = true ->
  tree_of (compile (default_fuel (print_with L1 p)) (print_with L1 p))
  = tree_of (compile (default_fuel (print_with L2 p)) (print_with L2 p)) /\
  tree_of (compile (default_fuel (print_with L1 p)) (print_with L1 p)) = Some (prescribed p).
Proof.
  intros L1 L2 p OK O1 O2. rewrite (compile_print_with_default L1 p OK O1), (compile_print_with_default L2 p OK O2).
  split; reflexivity.
Qed.

(* ================================================================== what the line table and the indentation type are *)
Definition nzb (b : bitem) : bool := negb (snd b =? 0)%nat.

Lemma bityp_spec : forall tab bs it, bityp tab it bs = if existsb nzb bs then utype tab else it.
Proof.
  intros tab bs. induction bs as [|b r IH]; intro it; [reflexivity|].
  cbn [bityp existsb]. rewrite IH. unfold nzb at 2. destruct (snd b =? 0)%nat; cbn [negb orb]; [reflexivity|].
  destruct (existsb nzb r); reflexivity.
Qed.

(* some line of the text after the first starts with an indentation unit *)
Fixpoint any_indent (trail : list bitem) (gs : list gap) (r : list pline) : bool :=
  match r with
  | [] => existsb nzb trail
  | l :: r' => existsb nzb (gitems (hd dgap gs) (fst (fst l))) || any_indent trail (tl gs) r'
  end.

Lemma itypL_spec : forall tab trail r gs it,
  itypL tab it trail gs r = if any_indent trail gs r then utype tab else it.
Proof.
  intros tab trail. induction r as [|l r IH]; intros gs it; cbn [itypL any_indent].
  - apply bityp_spec.
  - rewrite IH, bityp_spec. destruct (existsb nzb (gitems (hd dgap gs) (fst (fst l)))); cbn [orb]; [|reflexivity].
    destruct (any_indent trail (tl gs) r); reflexivity.
Qed.

Theorem indent_type_with_spec : forall L p,
  indent_type_with L p =
  match blines 0 p with
  | [] => g_IndentUnknown
  | l :: r => if any_indent (l_trail L) (l_gaps L) r then utype (l_tab L) else g_IndentUnknown
  end.
Proof. intros L p. unfold indent_type_with. destruct (blines 0 p) as [|l r]; [reflexivity|]. apply itypL_spec. Qed.

(* the line starts of the table are the physical line starts of the text (LineStartsProofs) *)
Corollary line_table_with_physical : forall L p, prog_ok p = true -> layout_ok L = true ->
  ~ In EOFc (print_with L p) -> print_with L p <> [] ->
  map l_start (line_table_with L p) = Lines.phys_starts (print_with L p).
Proof.
  intros L p OK LOK NI NE.
  exact (LineStartsProofs.compile_lines_are_physical_lines _ _ _ _ _ (compile_print_with_default L p OK LOK) NE NI).
Qed.

(* ------------------------------------------------------------------ the canonical layout is StmtNestProofs.print *)
Definition canon : layout := mkLayout false [] [].

Lemma aftL_canon : forall r, aftL false [] [] r = aftl r.
Proof.
  induction r as [|l r IH]; [reflexivity|].
  cbn [aftL hd tl]. rewrite IH. cbn [aftl]. rewrite ptext_cons. unfold ltext, gitems, dgap. cbn [fst snd app brkc flat_map].
  unfold bic. cbn [fst snd eolc]. rewrite app_nil_r. cbn [app]. rewrite <- app_assoc. reflexivity.
Qed.

Theorem print_with_canon : forall p, print_with canon p = print p.
Proof.
  intro p. unfold print_with, print, canon. cbn [l_tab l_trail l_gaps]. destruct (blines 0 p) as [|l r]; [reflexivity|].
  cbn [textL]. rewrite aftL_canon, ptext_cons. unfold ltext. rewrite <- app_assoc. reflexivity.
Qed.

(* ------------------------------------------------------------------ the three dimensions as special layouts *)
(* (b) only the line ends vary; (a) with TAB indentation *)
Definition layout_eols (tab : bool) (es : list eol) : layout := mkLayout tab (map (fun e => ([], e)) es) [].
Lemma layout_eols_ok : forall tab es, layout_ok (layout_eols tab es) = true.
Proof.
  intros tab es. unfold layout_ok, layout_eols. cbn [l_gaps l_trail bs_ok]. rewrite andb_true_r.
  induction es as [|e es IH]; [reflexivity|]. cbn [map forallb]. rewrite IH. reflexivity.
Qed.

Theorem compile_print_eols : forall tab es p, prog_ok p = true ->
  compile (default_fuel (print_with (layout_eols tab es) p)) (print_with (layout_eols tab es) p)
  = OTree (prescribed p) (line_table_with (layout_eols tab es) p) (indent_type_with (layout_eols tab es) p).
Proof. intros tab es p OK. apply compile_print_with_default; [exact OK|apply layout_eols_ok]. Qed.

(* (c) one trailing line end *)
Theorem compile_print_trailing : forall tab es e p, prog_ok p = true ->
  let L := mkLayout tab (map (fun e => ([], e)) es) [(e, 0%nat)] in
  print_with L p = print_with (layout_eols tab es) p ++ eolc e /\
  compile (default_fuel (print_with L p)) (print_with L p) = OTree (prescribed p) (line_table_with L p) (indent_type_with L p).
Proof.
  intros tab es e p OK L. split.
  - destruct p as [|s p']; [discriminate OK|].
    destruct (blines_head 0 (s :: p') ltac:(discriminate)) as (t & ts & sm & r & E & _).
    unfold print_with, L, layout_eols. cbn [l_tab l_trail l_gaps]. rewrite E.
    cbn [textL]. rewrite <- !app_assoc. f_equal. f_equal.
    generalize (map (fun e0 : eol => (@nil bitem, e0)) es). clear. induction r as [|l2 r IH]; intro gs; cbn [aftL].
    + cbn [brkc flat_map]. unfold bic, indent. cbn [fst snd]. rewrite Nat.mul_0_r. cbn [repeat]. rewrite !app_nil_r. reflexivity.
    + rewrite IH. rewrite <- !app_assoc. reflexivity.
  - apply compile_print_with_default; [exact OK|]. unfold layout_ok, L. cbn [l_gaps l_trail bs_ok]. rewrite andb_true_r.
    clear. induction es as [|e0 es IH]; [reflexivity|]. cbn [map forallb]. rewrite IH. reflexivity.
Qed.

(* ================================================================== examples (all confirmed with the Go parser) *)
(* TAB indentation; line ends CR, LF + blank line (empty) + blank line (2 TABs) + LFCR, CRLF, LF, CR + empty blank line + CR;
   then a trailing LFCR, CRLF and one TAB *)
Definition ex_L1 : layout :=
  mkLayout true [([], CR); ([(LF, 0%nat); (LF, 2%nat)], LFCR); ([], CRLF); ([], LF); ([(CR, 0%nat)], CR)]
           [(LFCR, 0%nat); (CRLF, 1%nat)].
Definition ex_src1_L1 : list Z :=
  [27599; 24403; 32; 65; 32; 65306; 13;
   9; 22914; 26524; 32; 66; 32; 65306; 10;
   10;
   9; 9; 10; 13;
   9; 9; 27599; 24403; 32; 67; 32; 65306; 13; 10;
   9; 9; 9; 68; 10;
   9; 69; 13;
   13;
   70; 10; 13;
   13; 10;
   9].
Example ex1_L1_ok : layout_ok ex_L1 = true. Proof. reflexivity. Qed.
Example ex1_L1_print : print_with ex_L1 ex_p1 = ex_src1_L1. Proof. vm_compute. reflexivity. Qed.
Example ex1_L1_by_theorem : compile (default_fuel ex_src1_L1) ex_src1_L1
  = OTree ex_tree1 [mkLine 0 0; mkLine 1 7; mkLine 0 15; mkLine 2 16; mkLine 2 20; mkLine 3 30; mkLine 1 35; mkLine 0 38;
                    mkLine 0 39; mkLine 0 42; mkLine 1 44] g_IndentTab.
Proof. rewrite <- ex1_L1_print. rewrite (compile_print_with_default ex_L1 ex_p1 eq_refl eq_refl). reflexivity. Qed.

(* 4 spaces; a blank line holding one indentation unit, CR, a trailing CRLF *)
Definition ex_L2 : layout := mkLayout false [([(LF, 1%nat)], LF); ([], CR)] [(CRLF, 0%nat)].
Example ex1_L2_by_theorem :
  tree_of (compile (default_fuel (print_with ex_L2 ex_p1)) (print_with ex_L2 ex_p1)) = Some ex_tree1 /\
  line_table_with ex_L2 ex_p1
  = [mkLine 0 0; mkLine 1 7; mkLine 1 12; mkLine 2 23; mkLine 3 38; mkLine 1 52; mkLine 0 58; mkLine 0 61].
Proof. split; [rewrite (compile_print_with_default ex_L2 ex_p1 eq_refl eq_refl); reflexivity|vm_compute; reflexivity]. Qed.

(* why layout_ok: the line end LF, an empty blank line, the line end CR is the text  A LF CR B : ONE line end LFCR for the
   lexer; the tree is the same but the table has two lines, not the three of the layout *)
Definition ex_L3 : layout := mkLayout false [([(LF, 0%nat)], CR)] [].
Example ex_L3_clash : layout_ok ex_L3 = false /\ print_with ex_L3 [TExpr xA; TExpr xB] = [65; 10; 13; 66] /\
  print_with (layout_eols false [LFCR]) [TExpr xA; TExpr xB] = [65; 10; 13; 66] /\
  compile 100 [65; 10; 13; 66] = OTree (prescribed [TExpr xA; TExpr xB]) [mkLine 0 0; mkLine 0 3] g_IndentUnknown /\
  line_table_with ex_L3 [TExpr xA; TExpr xB] = [mkLine 0 0; mkLine 0 2; mkLine 0 3].
Proof. vm_compute. repeat split; reflexivity. Qed.

(* ------------------------------------------------------------------ layouts the lexer REJECTS (not in the family) *)
Definition hdrA : list Z := [27599; 24403; 32; 65; 32; 65306].     (* 每当 A ： *)
(* a blank line holding 2 spaces: error 24 (the number of spaces is not a multiple of 4) *)
Example reject_blank_2_spaces :
  compile 200 (hdrA ++ [10; 32; 32; 32; 32; 88; 10; 32; 32; 10; 89]) = OErr ErrInvalidIndentSpaceCount 15.
Proof. vm_compute. reflexivity. Qed.
(* trailing 2 spaces after the last line end: error 24 *)
Example reject_trailing_2_spaces : compile 200 [88; 10; 32; 32] = OErr ErrInvalidIndentSpaceCount 4.
Proof. vm_compute. reflexivity. Qed.
(* a blank line holding 4 spaces in a TAB-indented text: error 23 (indentation type differs) *)
Example reject_blank_spaces_in_tab_text :
  compile 200 (hdrA ++ [10; 9; 88; 10; 32; 32; 32; 32; 10; 89]) = OErr ErrInvalidIndent 14.
Proof. vm_compute. reflexivity. Qed.
(* TAB at one line, 4 spaces at another: error 23 *)
Example reject_mixed_units :
  compile 200 (hdrA ++ [10; 9; 88; 10; 32; 32; 32; 32; 89]) = OErr ErrInvalidIndent 14.
Proof. vm_compute. reflexivity. Qed.
(* a blank line holding a whole unit is accepted, and it alone fixes the indentation type of a flat text *)
Example blank_tab_in_flat_text :
  compile 200 [88; 10; 9; 10; 89]
  = OTree (prescribed [TExpr (XId [88]); TExpr (XId [89])]) [mkLine 0 0; mkLine 1 2; mkLine 0 4] g_IndentTab.
Proof. vm_compute. reflexivity. Qed.

(* ================================================================== assumptions *)
Print Assumptions compile_print_with.
Print Assumptions compile_print_with_default.
Print Assumptions layout_invariance.
Print Assumptions indent_type_with_spec.
Print Assumptions line_table_with_physical.
Print Assumptions print_with_canon.
Print Assumptions compile_print_eols.
Print Assumptions compile_print_trailing.

(* ================================================================== every layout has the text of an unambiguous layout *)
Definition fch (e : eol) : Z := match e with LF | LFCR => 10 | CR | CRLF => 13 end.
Definition b0 : bitem := (LF, 0%nat).

Lemma clash_fch : forall e1 k1 e2 e2', fch e2 = fch e2' -> clash_free e1 k1 e2 = clash_free e1 k1 e2'.
Proof. intros e1 k1 e2 e2' H. destruct e1, e2, e2'; cbn in H; try discriminate; reflexivity. Qed.

Lemma indent_0 : forall tab, indent tab 0 = []. Proof. intro tab. unfold indent. rewrite Nat.mul_0_r. reflexivity. Qed.

Lemma bs_ok_cons : forall b x r, bs_ok (b :: x :: r) = clash_free (fst b) (snd b) (fst x) && bs_ok (x :: r).
Proof. reflexivity. Qed.

Lemma last_cons2 : forall (b x : bitem) r d, last (b :: x :: r) d = last (x :: r) d. Proof. reflexivity. Qed.

Lemma last_snd_repl : forall (e e' : eol) k (r : list bitem) d, snd (last ((e, k) :: r) d) = snd (last ((e', k) :: r) d).
Proof. intros e e' k [|x r] d; reflexivity. Qed.

Lemma norm_ex : forall tab n bs, (length bs <= n)%nat -> bs <> [] ->
  exists bs', bs' <> [] /\ brkc tab bs' = brkc tab bs /\ bs_ok bs' = true /\
    snd (last bs' b0) = snd (last bs b0) /\ fch (fst (hd b0 bs')) = fch (fst (hd b0 bs)).
Proof.
  intros tab. induction n as [|n IH]; intros bs LN NE; [destruct bs; [congruence|cbn in LN; lia]|].
  destruct bs as [|b r]; [congruence|]. destruct r as [|b2 r'].
  - exists [b]. repeat split; try reflexivity. discriminate.
  - cbn [length] in LN.
    assert (KEEP : forall m, (length m <= n)%nat -> m <> [] -> brkc tab (b :: m) = brkc tab (b :: b2 :: r') ->
              snd (last m b0) = snd (last (b2 :: r') b0) ->
              (forall x : bitem, fch (fst x) = fch (fst (hd b0 m)) -> clash_free (fst b) (snd b) (fst x) = true) ->
              exists bs', bs' <> [] /\ brkc tab bs' = brkc tab (b :: b2 :: r') /\ bs_ok bs' = true /\
                snd (last bs' b0) = snd (last (b :: b2 :: r') b0) /\ fch (fst (hd b0 bs')) = fch (fst (hd b0 (b :: b2 :: r')))).
    { intros m LM NM EB EL CF. destruct (IH m LM NM) as (m' & N' & B' & O' & L' & H').
      destruct m' as [|x m'']; [congruence|].
      exists (b :: x :: m''). split; [discriminate|]. split.
      { rewrite brkc_cons, B', <- EB. reflexivity. }
      split.
      { rewrite bs_ok_cons, O', andb_true_r. apply CF. exact H'. }
      split; [rewrite !last_cons2, L'; exact EL|reflexivity]. }
    destruct (clash_free (fst b) (snd b) (fst b2)) eqn:CL.
    + apply (KEEP (b2 :: r')); [cbn [length]; lia|discriminate|reflexivity|reflexivity|].
      intros x Hx. rewrite (clash_fch _ _ (fst x) (fst b2) Hx). exact CL.
    + destruct b as [e k]. destruct b2 as [e2 k2]. cbn [fst snd] in CL.
      assert (K0 : k = 0%nat).
      { destruct e; cbn [clash_free] in CL; try discriminate; destruct (k =? 0)%nat eqn:K;
          try (apply Nat.eqb_eq in K; exact K); cbn in CL; discriminate. }
      subst k.
      assert (MERGE : forall em, eolc em = eolc e ++ eolc e2 -> fch em = fch e ->
                exists bs', bs' <> [] /\ brkc tab bs' = brkc tab ((e, 0%nat) :: (e2, k2) :: r') /\ bs_ok bs' = true /\
                  snd (last bs' b0) = snd (last ((e, 0%nat) :: (e2, k2) :: r') b0) /\
                  fch (fst (hd b0 bs')) = fch (fst (hd b0 ((e, 0%nat) :: (e2, k2) :: r')))).
      { intros em EM FM. destruct (IH ((em, k2) :: r') ltac:(cbn [length] in *; lia) ltac:(discriminate))
          as (m' & N' & B' & O' & L' & H').
        exists m'. split; [exact N'|]. split.
        { rewrite B'. rewrite !brkc_cons. unfold bic. cbn [fst snd]. rewrite indent_0, EM, app_nil_r, <- !app_assoc. reflexivity. }
        split; [exact O'|]. split.
        { rewrite L', last_cons2. apply last_snd_repl. }
        rewrite H'. cbn [hd fst]. exact FM. }
      assert (SPLIT : forall ea eb, eolc ea ++ eolc eb = eolc e ++ eolc e2 -> fch ea = fch e ->
                (forall x, clash_free ea 0 x = true) ->
                exists bs', bs' <> [] /\ brkc tab bs' = brkc tab ((e, 0%nat) :: (e2, k2) :: r') /\ bs_ok bs' = true /\
                  snd (last bs' b0) = snd (last ((e, 0%nat) :: (e2, k2) :: r') b0) /\
                  fch (fst (hd b0 bs')) = fch (fst (hd b0 ((e, 0%nat) :: (e2, k2) :: r')))).
      { intros ea eb EM FM CFA.
        destruct (IH ((eb, k2) :: r') ltac:(cbn [length] in *; lia) ltac:(discriminate))
          as (m' & N' & B' & O' & L' & H').
        destruct m' as [|x m'']; [congruence|].
        exists ((ea, 0%nat) :: x :: m''). split; [discriminate|]. split.
        { rewrite brkc_cons, B'. rewrite !brkc_cons. unfold bic. cbn [fst snd]. rewrite !indent_0, !app_nil_r.
          rewrite !app_assoc. rewrite EM. reflexivity. }
        split.
        { rewrite bs_ok_cons, O', andb_true_r. apply CFA. }
        split.
        { rewrite last_cons2, L', last_cons2. apply last_snd_repl. }
        cbn [hd fst]. exact FM. }
      destruct e; cbn [clash_free Nat.eqb andb negb] in CL; try discriminate; destruct e2; try discriminate.
      * apply (MERGE LFCR); reflexivity.
      * apply (SPLIT LFCR LF); [reflexivity|reflexivity|intro x; reflexivity].
      * apply (MERGE CRLF); reflexivity.
      * apply (SPLIT CRLF CR); [reflexivity|reflexivity|intro x; reflexivity].
Qed.

Lemma brkc_gitems : forall tab g d, brkc tab (gitems g d) = brkc tab (gitems g 0) ++ indent tab d.
Proof.
  intros tab [bs e] d. unfold gitems. cbn [fst snd]. rewrite !brkc_app. cbn [brkc flat_map]. unfold bic. cbn [fst snd].
  rewrite indent_0, !app_nil_r, <- !app_assoc. reflexivity.
Qed.

Lemma gap_norm_ex : forall tab g, exists g', gap_ok g' = true /\ forall d, brkc tab (gitems g' d) = brkc tab (gitems g d).
Proof.
  intros tab g.
  destruct (norm_ex tab (length (gitems g 0)) (gitems g 0) (le_n _) (gitems_ne g 0)) as (bs' & N' & B' & O' & L' & _).
  assert (L0 : snd (last bs' b0) = 0%nat).
  { rewrite L'. unfold gitems. rewrite last_last. reflexivity. }
  exists (removelast bs', fst (last bs' b0)).
  assert (EG : gitems (removelast bs', fst (last bs' b0)) 0 = bs').
  { unfold gitems. cbn [fst snd]. rewrite <- L0. rewrite <- surjective_pairing. symmetry. apply app_removelast_last. exact N'. }
  split.
  - unfold gap_ok. rewrite EG. exact O'.
  - intro d. rewrite brkc_gitems, EG, B'. symmetry. apply brkc_gitems.
Qed.

Lemma aftL_trail : forall tab trail trail' r gs, brkc tab trail' = brkc tab trail -> aftL tab trail' gs r = aftL tab trail gs r.
Proof. intros tab trail trail' r. induction r as [|l r IH]; intros gs H; cbn [aftL]; [exact H|]. rewrite (IH _ H). reflexivity. Qed.

Lemma gaps_norm_ex : forall tab gs, exists gs', forallb gap_ok gs' = true /\
  forall trail r, aftL tab trail gs' r = aftL tab trail gs r.
Proof.
  intros tab gs. induction gs as [|g gs IH].
  - exists []. split; reflexivity.
  - destruct IH as (gs' & O' & A'). destruct (gap_norm_ex tab g) as (g' & OG & BG).
    exists (g' :: gs'). split; [cbn [forallb]; rewrite OG, O'; reflexivity|].
    intros trail [|l r]; [reflexivity|]. cbn [aftL hd tl]. rewrite BG, A'. reflexivity.
Qed.

Theorem layout_norm_ex : forall L, exists L', layout_ok L' = true /\ l_tab L' = l_tab L /\
  forall p, print_with L' p = print_with L p.
Proof.
  intros [tab gs trail]. destruct (gaps_norm_ex tab gs) as (gs' & OG & AG).
  assert (TR : exists trail', bs_ok trail' = true /\ brkc tab trail' = brkc tab trail).
  { destruct trail as [|b t]; [exists []; split; reflexivity|].
    destruct (norm_ex tab (length (b :: t)) (b :: t) (le_n _) ltac:(discriminate)) as (t' & _ & B' & O' & _).
    exists t'. split; assumption. }
  destruct TR as (trail' & OT & BT).
  exists (mkLayout tab gs' trail'). split; [unfold layout_ok; cbn [l_gaps l_trail]; rewrite OG, OT; reflexivity|].
  split; [reflexivity|]. intro p. unfold print_with. cbn [l_tab l_gaps l_trail].
  destruct (blines 0 p) as [|l r]; [reflexivity|]. cbn [textL]. rewrite AG, (aftL_trail tab trail trail' r gs BT). reflexivity.
Qed.

(* ------------------------------------------------------------------ MAIN THEOREM for every layout *)
Theorem compile_print_any_layout : forall L p, prog_ok p = true ->
  exists L', layout_ok L' = true /\ l_tab L' = l_tab L /\ print_with L' p = print_with L p /\
    compile (default_fuel (print_with L p)) (print_with L p)
    = OTree (prescribed p) (line_table_with L' p) (indent_type_with L' p).
Proof.
  intros L p OK. destruct (layout_norm_ex L) as (L' & O' & T' & P').
  exists L'. split; [exact O'|]. split; [exact T'|]. split; [apply P'|].
  rewrite <- P'. apply compile_print_with_default; assumption.
Qed.

Theorem layout_invariance_all : forall L1 L2 p, prog_ok p = true ->
  tree_of (compile (default_fuel (print_with L1 p)) (print_with L1 p)) = Some (prescribed p) /\
  tree_of (compile (default_fuel (print_with L1 p)) (print_with L1 p))
  = tree_of (compile (default_fuel (print_with L2 p)) (print_with L2 p)).
Proof.
  intros L1 L2 p OK.
  destruct (compile_print_any_layout L1 p OK) as (L1' & _ & _ & _ & C1).
  destruct (compile_print_any_layout L2 p OK) as (L2' & _ & _ & _ & C2).
  rewrite C1, C2. split; reflexivity.
Qed.

Print Assumptions layout_norm_ex.
Print Assumptions compile_print_any_layout.
Print Assumptions layout_invariance_all.
