(* SemLines.v — the current-line bookkeeping of frames and the call chain at an error (property C18, runtime part). *)
From Coq Require Import List ZArith Bool Lia.
From Zn.model Require Import SemDefs Sem.
From Zn.proofs Require Import SemBase SemStmt SemCalls.
Import ListNotations.
Open Scope Z_scope.

Definition top_line (st : state) : Z := match stack st with f :: _ => f_line f | [] => -1 end.

(* every statement of a block starts with the running frame's current line set to its own line *)
Lemma top_line_set_line st l : stack st <> [] -> top_line (set_line st l) = l.
Proof. unfold top_line, set_line. destruct (stack st) eqn:E; [congruence|]. intros _. reflexivity. Qed.

(* ... and setting the line touches nothing else: the other frames keep the line of their pending call *)
Lemma set_line_tail st l f tl : stack st = f :: tl -> exists f', stack (set_line st l) = f' :: tl /\ f_line f' = l /\ frame_sim f' f.
Proof. intros E. unfold set_line. rewrite E. eexists. cbn [stack set_stack]. repeat split; reflexivity. Qed.

Lemma block_go_sets_line exec line s tl st last :
  is_def s = false ->
  block_go exec ((line, s) :: tl) st last =
    let! (v, s1) := exec (set_line st line) s in
    match top_ret s1 with Some r => Ok r s1 | None => block_go exec tl s1 v end.
Proof. intros H. cbn [block_go]. rewrite H. reflexivity. Qed.

(* a finished call leaves no frame; a failed call leaves exactly its own frame above whatever its callees left;
   the handler of a body drops them all before it runs *)
Theorem finished_call_leaves_no_frame n st e v s1 : wf st -> eval_expr n st e = Ok v s1 -> stack s1 = stack st.
Proof. intros W H. pose proof (eval_expr_balanced n st e W) as B. rewrite H in B. apply B. Qed.

Theorem failed_call_leaves_its_frame s1 k t s3 :
  wf s1 -> R_er_b (push_frame s1 k t) s3 ->
  exists extra f', stack s3 = extra ++ f' :: stack s1 /\ f_kind f' = k /\ f_this f' = t.
Proof.
  intros W ((ex & f & f' & tl & Ha & Hb & [F1 F2]) & _).
  cbn [stack push_frame set_stack] in Ha. inversion Ha; subst.
  exists ex, f'. split; [exact Hb|]. cbn in F1, F2. split; assumption.
Qed.

Theorem handler_runs_on_entry_stack st extra base xv :
  stack st = extra ++ base ->
  stack (push_frame (unwind st (length base)) 3 (Some xv)) =
    {| f_kind := 3; f_this := Some xv; f_ret := None; f_line := 0 |} :: base.
Proof. intros H. cbn [stack push_frame set_stack]. rewrite (unwind_exact st extra base H). reflexivity. Qed.

(* 每当: on every pass — the first and every later one, after the statements of the body have moved the frame's
   line — the condition is evaluated with the frame at the line of the loop statement, so a fault in it is
   reported there (the pinned code evaluated it at the line of the last executed body statement) *)
Theorem while_condition_line ev body c l j st :
  stack st <> [] ->
  top_line (set_line st l) = l /\
  while_loop ev body c l (S j) st =
    (let! (cv, s1) := ev (set_line st l) c in
     match cv with
     | VBool true =>
       match after_pass (body s1) with
       | (Some r, _) => r
       | (None, Some s2) => while_loop ev body c l j s2
       | (None, None) => Crash 8
       end
     | VBool false => Ok VNull s1
     | _ => Er (ERun E_EXPRTYPE) s1
     end).
Proof. intros H. split; [apply top_line_set_line; exact H|reflexivity]. Qed.

(* the statement executor hands the loop its own line: the line the block driver set before running it *)
Lemma exec_while_uses_statement_line ev k st c body :
  exec_stmt ev (S k) st (SWhile c body) = while_loop ev (fun s1 => exec_block ev k s1 body) c (cur_line st) k st.
Proof. reflexivity. Qed.

(* ------------------------------------------------------------------------------------------ *)
(* where an error is reported                                                                  *)

(* An expression that fails leaves the frame that evaluated it exactly as it was — its line included — under the
   frames of the calls that were in progress.  (For every fuel, state and expression, at any call depth.) *)
Theorem expr_fault_keeps_frame n st e er s1 :
  wf st -> eval_expr n st e = Er er s1 -> exists extra, stack s1 = extra ++ stack st.
Proof.
  intros W H. pose proof (eval_expr_balanced n st e W) as B. rewrite H in B. exact (proj1 (proj1 B)).
Qed.

(* The statements that evaluate their expressions themselves — an expression statement, 输出, a declaration:
   when one of them, run by the block driver at its line, fails, the frame it runs in shows that line, whatever calls
   were made (and left their frames) on the way. *)
Definition direct_stmt (s : stmt) : bool :=
  match s with SExpr _ | SReturn _ | SDecl _ => true | _ => false end.

Theorem direct_stmt_fault_line n k st line s er s1 :
  wf st -> direct_stmt s = true ->
  exec_stmt (eval_expr n) (S k) (set_line st line) s = Er er s1 ->
  exists extra f tl, stack s1 = extra ++ f :: tl /\ f_line f = line /\ tl = List.tl (stack st).
Proof.
  intros W D H.
  assert (Wl : wf (set_line st line)) by (apply (R_wf_ok_s st), R_ok_s_set_line; exact W).
  assert (Hst : exists f, stack (set_line st line) = f :: List.tl (stack st) /\ f_line f = line).
  { destruct W as [Hne _]. unfold set_line. destruct (stack st) as [|f0 tl0] eqn:E; [congruence|].
    eexists. cbn [stack set_stack List.tl]. split; reflexivity. }
  destruct Hst as (f & Hf & Hl).
  assert (Hx : exists extra, stack s1 = extra ++ stack (set_line st line)).
  { destruct s; try discriminate; cbn [exec_stmt] in H.
    - (* declaration *)
      pose proof (bal_decl_pairs (eval_expr n) (eval_expr_balanced n) k pairs (set_line st line) Wl) as B.
      rewrite H in B. exact (proj1 (proj1 B)).
    - (* 输出 *)
      destruct (eval_expr n (set_line st line) e) as [v s2|e2 s2| |w] eqn:E; cbn [bind] in H; try discriminate.
      inversion H; subst. eapply expr_fault_keeps_frame; eassumption.
    - (* expression statement *)
      eapply expr_fault_keeps_frame; eassumption. }
  destruct Hx as [extra Hx]. exists extra, f, (List.tl (stack st)). rewrite Hx, Hf. repeat split; assumption.
Qed.

(* 每当: a fault in the condition — on the first pass or on any later one — is reported at the loop's own line *)
Theorem while_condition_fault_line n body c l j st er s1 :
  wf st -> eval_expr n (set_line st l) c = Er er s1 ->
  while_loop (eval_expr n) body c l (S j) st = Er er s1 /\
  exists extra f tl, stack s1 = extra ++ f :: tl /\ f_line f = l /\ tl = List.tl (stack st).
Proof.
  intros W H. split; [cbn [while_loop]; rewrite H; reflexivity|].
  assert (Wl : wf (set_line st l)) by (apply (R_wf_ok_s st), R_ok_s_set_line; exact W).
  destruct (expr_fault_keeps_frame n (set_line st l) c er s1 Wl H) as [extra Hx].
  destruct W as [Hne _]. unfold set_line in Hx. destruct (stack st) as [|f0 tl0] eqn:E; [congruence|].
  cbn [stack set_stack] in Hx. eexists extra, _, tl0. split; [exact Hx|]. split; reflexivity.
Qed.
