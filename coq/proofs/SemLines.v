(* SemLines.v — the current-line bookkeeping of frames and the call chain at an error (property C18, runtime part). *)
From Coq Require Import List ZArith Bool Lia.
From Zn.model Require Import SemDefs Sem.
From Zn.proofs Require Import SemBase SemStmt SemCalls.
Import ListNotations.
Open Scope Z_scope.

Definition top_line (st : state) : Z := match stack st with f :: _ => f_line f | [] => -1 end.

(* every statement of a block starts with the running frame's current line set to its own line *)
Lemma top_line_set_line st l : stack st <> [] -> top_line (set_line st l) = l.
Proof. unfold top_line, set_line. destruct (stack st) eqn:E; [congruence|]. intros _. reflexivity. Qed.

(* ... and setting the line touches nothing else: the other frames keep the line of their pending call *)
Lemma set_line_tail st l f tl : stack st = f :: tl -> exists f', stack (set_line st l) = f' :: tl /\ f_line f' = l /\ frame_sim f' f.
Proof. intros E. unfold set_line. rewrite E. eexists. cbn [stack set_stack]. repeat split; reflexivity. Qed.

Lemma block_go_sets_line exec line s tl st last :
  is_def s = false ->
  block_go exec ((line, s) :: tl) st last =
    let! (v, s1) := exec (set_line st line) s in
    match top_ret s1 with Some r => Ok r s1 | None => block_go exec tl s1 v end.
Proof. intros H. cbn [block_go]. rewrite H. reflexivity. Qed.

(* a finished call leaves no frame; a failed call leaves exactly its own frame above whatever its callees left;
   the handler of a body drops them all before it runs *)
Theorem finished_call_leaves_no_frame n st e v s1 : wf st -> eval_expr n st e = Ok v s1 -> stack s1 = stack st.
Proof. intros W H. pose proof (eval_expr_balanced n st e W) as B. rewrite H in B. apply B. Qed.

Theorem failed_call_leaves_its_frame s1 k t s3 :
  wf s1 -> R_er_b (push_frame s1 k t) s3 ->
  exists extra f', stack s3 = extra ++ f' :: stack s1 /\ f_kind f' = k /\ f_this f' = t.
Proof.
  intros W ((ex & f & f' & tl & Ha & Hb & [F1 F2]) & _).
  cbn [stack push_frame set_stack] in Ha. inversion Ha; subst.
  exists ex, f'. split; [exact Hb|]. cbn in F1, F2. split; assumption.
Qed.

Theorem handler_runs_on_entry_stack st extra base xv :
  stack st = extra ++ base ->
  stack (push_frame (unwind st (length base)) 3 (Some xv)) =
    {| f_kind := 3; f_this := Some xv; f_ret := None; f_line := 0 |} :: base.
Proof. intros H. cbn [stack push_frame set_stack]. rewrite (unwind_exact st extra base H). reflexivity. Qed.

(* 每当: on every pass — the first and every later one, after the statements of the body have moved the frame's
   line — the condition is evaluated with the frame at the line of the loop statement, so a fault in it is
   reported there (the pinned code evaluated it at the line of the last executed body statement) *)
Theorem while_condition_line ev body c l j st :
  stack st <> [] ->
  top_line (set_line st l) = l /\
  while_loop ev body c l (S j) st =
    (let! (cv, s1) := ev (set_line st l) c in
     match cv with
     | VBool true =>
       match after_pass (body s1) with
       | (Some r, _) => r
       | (None, Some s2) => while_loop ev body c l j s2
       | (None, None) => Crash 8
       end
     | VBool false => Ok VNull s1
     | _ => Er (ERun E_EXPRTYPE) s1
     end).
Proof. intros H. split; [apply top_line_set_line; exact H|reflexivity]. Qed.

(* the statement executor hands the loop its own line: the line the block driver set before running it *)
Lemma exec_while_uses_statement_line ev k st c body :
  exec_stmt ev (S k) st (SWhile c body) = while_loop ev (fun s1 => exec_block ev k s1 body) c (cur_line st) k st.
Proof. reflexivity. Qed.
