(* C05 - proofs about the error-printer model (model/ErrDisplay.v): it never crashes, and it quotes a maximal
   break-free piece of the source that starts at a recorded line start (plus skipped indentation). *)
From Coq Require Import List ZArith Bool Lia.
Import ListNotations.
From Zn.gen Require Import GenFrontTokens.
From Zn.model Require Import LexerTok Lexer Parser ErrDisplay.
Open Scope Z_scope.

Lemma width_lookup_nonneg : forall ws bs t, Forall (fun w => 0 <= w) ws -> 0 <= width_lookup t bs ws.
Proof.
  induction ws as [|w ws IH]; intros bs t H; destruct bs as [|b bs]; cbn [width_lookup]; try lia.
  inversion H; subst. destruct (t <=? b); auto.
Qed.

Lemma get_offset_nonneg : forall t, 0 <= get_offset t.
Proof.
  intro t. unfold get_offset. destruct ((t =? 14) || (t =? 15)); [lia|].
  apply width_lookup_nonneg. unfold widths. repeat constructor; lia.
Qed.

Lemma fold_offsets_nonneg : forall l acc, 0 <= acc -> 0 <= fold_left (fun a t => a + get_offset t) l acc.
Proof.
  induction l as [|x l IH]; intros acc H; cbn [fold_left]; auto.
  apply IH. pose proof (get_offset_nonneg x). lia.
Qed.

Lemma slice_some : forall src a b, 0 <= a -> a <= b -> b <= Z.of_nat (length src) -> exists q, slice src a b = Some q.
Proof.
  intros src a b H1 H2 H3. unfold slice.
  replace (0 <=? a) with true by (symmetry; apply Z.leb_le; lia).
  replace (a <=? b) with true by (symmetry; apply Z.leb_le; lia).
  replace (b <=? Z.of_nat (length src)) with true by (symmetry; apply Z.leb_le; lia).
  cbn. eauto.
Qed.

Lemma calc_cursor_offset_ok : forall text col, exists off, calc_cursor_offset text col = Some off /\ 0 <= off.
Proof.
  intros text col. unfold calc_cursor_offset.
  set (n := Z.of_nat (length text)).
  set (c := if col <? 0 then 0 else if n <? col then n else col).
  assert (Hc : 0 <= c <= n).
  { subst c. destruct (col <? 0) eqn:E1; [lia|]. destruct (n <? col) eqn:E2; lia. }
  destruct (slice_some text 0 c) as [q Hq]; try lia.
  rewrite Hq. eexists. split; [reflexivity|]. apply fold_offsets_nonneg. lia.
Qed.

Lemma skip_indent_spec : forall seg s c,
  let s' := skip_indent seg s c in
  s <= s' /\ s' <= s + Z.of_nat (length seg) /\ (s' <= c \/ s' = s) /\
  Forall (fun ch => is_indent_char ch = true) (firstn (Z.to_nat (s' - s)) seg).
Proof.
  induction seg as [|ch seg IH]; intros s c; cbn [skip_indent length].
  - split; [lia|]. split; [lia|]. split; [right; lia|]. replace (s - s) with 0 by lia. constructor.
  - destruct ((s <? c) && is_indent_char ch) eqn:E.
    + apply andb_true_iff in E. destruct E as [E1 E2]. apply Z.ltb_lt in E1.
      specialize (IH (s + 1) c). cbv zeta in IH. destruct IH as (A & B & C & D).
      split; [lia|]. split; [lia|]. split; [left; lia|].
      replace (Z.to_nat (skip_indent seg (s + 1) c - s)) with (S (Z.to_nat (skip_indent seg (s + 1) c - (s + 1)))) by lia.
      cbn [firstn]. constructor; auto.
    + split; [lia|]. split; [lia|]. split; [right; lia|]. replace (s - s) with 0 by lia. constructor.
Qed.

Lemma scan_to_break_spec : forall seg s,
  let e := scan_to_break seg s in
  s <= e /\ e <= s + Z.of_nat (length seg) /\
  Forall (fun ch => is_break ch = false) (firstn (Z.to_nat (e - s)) seg) /\
  (e = s + Z.of_nat (length seg) \/ exists ch, nth_error seg (Z.to_nat (e - s)) = Some ch /\ is_break ch = true).
Proof.
  induction seg as [|ch seg IH]; intros s; cbn [scan_to_break length].
  - split; [lia|]. split; [lia|]. split; [replace (s - s) with 0 by lia; constructor|]. left. lia.
  - destruct (is_break ch) eqn:E.
    + split; [lia|]. split; [lia|]. split; [replace (s - s) with 0 by lia; constructor|].
      right. exists ch. replace (s - s) with 0 by lia. cbn. auto.
    + specialize (IH (s + 1)). cbv zeta in IH. destruct IH as (A & B & C & D).
      split; [lia|]. split; [lia|]. split.
      * replace (Z.to_nat (scan_to_break seg (s + 1) - s)) with (S (Z.to_nat (scan_to_break seg (s + 1) - (s + 1)))) by lia.
        cbn [firstn]. constructor; auto.
      * destruct D as [D|[c2 [D1 D2]]]; [left; lia|].
        right. exists c2. split; auto.
        replace (Z.to_nat (scan_to_break seg (s + 1) - s)) with (S (Z.to_nat (scan_to_break seg (s + 1) - (s + 1)))) by lia.
        cbn [nth_error]. exact D1.
Qed.

Lemma nth_error_skipn' : forall (A : Type) (l : list A) k i, nth_error (skipn k l) i = nth_error l (k + i).
Proof. induction l as [|x l IH]; intros [|k] i; cbn; auto. destruct i; reflexivity. Qed.

Lemma length_skipn_Z : forall (A : Type) (l : list A) k, 0 <= k <= Z.of_nat (length l) ->
  Z.of_nat (length (skipn (Z.to_nat k) l)) = Z.of_nat (length l) - k.
Proof. intros. rewrite skipn_length. lia. Qed.

(* the start chosen by the printer: 0 or a recorded line start not after the (clamped) cursor *)
Definition start_of (src : list Z) (ls : list line) (cursor : Z) : Z :=
  let n := Z.of_nat (length src) in
  let c := if cursor <? 0 then 0 else if n <? cursor then n else cursor in
  match nth_error ls (Z.to_nat (find_line_idx ls c 0)) with
  | Some li => if l_start li <=? c then l_start li else 0
  | None => 0
  end.
Definition clamp_cursor (src : list Z) (cursor : Z) : Z :=
  let n := Z.of_nat (length src) in if cursor <? 0 then 0 else if n <? cursor then n else cursor.

Lemma clamp_cursor_range : forall src cursor, 0 <= clamp_cursor src cursor <= Z.of_nat (length src).
Proof. intros. unfold clamp_cursor. destruct (cursor <? 0) eqn:E1; [lia|]. destruct (Z.of_nat (length src) <? cursor) eqn:E2; lia. Qed.

Lemma start_of_spec : forall src ls cursor,
  Forall (fun l => 0 <= l_start l) ls ->
  0 <= start_of src ls cursor <= clamp_cursor src cursor /\
  (start_of src ls cursor = 0 \/ exists li, In li ls /\ l_start li = start_of src ls cursor).
Proof.
  intros src ls cursor H. unfold start_of. fold (clamp_cursor src cursor).
  pose proof (clamp_cursor_range src cursor) as R.
  destruct (nth_error ls (Z.to_nat (find_line_idx ls (clamp_cursor src cursor) 0))) as [li|] eqn:E.
  - destruct (l_start li <=? clamp_cursor src cursor) eqn:E2.
    + apply Z.leb_le in E2. apply nth_error_In in E. rewrite Forall_forall in H. specialize (H li E).
      split; [lia|]. right. exists li. auto.
    + split; [lia|]. left. reflexivity.
  - split; [lia|]. left. reflexivity.
Qed.

Theorem display_never_crashes : forall src ls cursor,
  Forall (fun l => 0 <= l_start l) ls -> display src ls cursor <> DCrash.
Proof.
  intros src ls cursor H. unfold display.
  fold (clamp_cursor src cursor).
  change (match nth_error ls (Z.to_nat (find_line_idx ls (clamp_cursor src cursor) 0)) with
          | Some li => if l_start li <=? clamp_cursor src cursor then l_start li else 0
          | None => 0 end) with (start_of src ls cursor).
  destruct (start_of_spec src ls cursor H) as [[S0 S1] _].
  pose proof (clamp_cursor_range src cursor) as R.
  set (st0 := start_of src ls cursor) in *. set (c := clamp_cursor src cursor) in *.
  replace (st0 <? 0) with false by (symmetry; apply Z.ltb_ge; lia).
  pose proof (skip_indent_spec (skipn (Z.to_nat st0) src) st0 c) as SI. cbv zeta in SI.
  set (s := skip_indent (skipn (Z.to_nat st0) src) st0 c) in *.
  destruct SI as (A & B & C & _).
  rewrite length_skipn_Z in B by lia.
  assert (Hs : 0 <= s <= Z.of_nat (length src)) by lia.
  pose proof (scan_to_break_spec (skipn (Z.to_nat s) src) s) as SB. cbv zeta in SB.
  set (e := scan_to_break (skipn (Z.to_nat s) src) s) in *.
  destruct SB as (A2 & B2 & _).
  rewrite length_skipn_Z in B2 by lia.
  destruct (slice_some src s e) as [q Hq]; try lia.
  rewrite Hq.
  destruct (calc_cursor_offset_ok q (c - s)) as [off [Ho Hn]]. rewrite Ho.
  replace (off <? 0) with false by (symmetry; apply Z.ltb_ge; lia).
  discriminate.
Qed.

(* what is quoted: the piece of the source from s to e where
   - s is reached from a recorded line start (or 0) by skipping only indentation characters, not beyond the cursor,
   - the piece contains no line break and ends at a line break or at the end of the text *)
Theorem display_quotes_line : forall src ls cursor n q off,
  Forall (fun l => 0 <= l_start l) ls ->
  display src ls cursor = DOk n q off ->
  exists st0 s e,
    (st0 = 0 \/ exists li, In li ls /\ l_start li = st0) /\
    0 <= st0 <= s /\ (s <= clamp_cursor src cursor \/ s = st0) /\ st0 <= clamp_cursor src cursor /\
    e <= Z.of_nat (length src) /\
    Forall (fun ch => is_indent_char ch = true) (firstn (Z.to_nat (s - st0)) (skipn (Z.to_nat st0) src)) /\
    q = firstn (Z.to_nat (e - s)) (skipn (Z.to_nat s) src) /\
    Forall (fun ch => is_break ch = false) q /\
    (e = Z.of_nat (length src) \/ exists ch, nth_error src (Z.to_nat e) = Some ch /\ is_break ch = true) /\
    n = find_line_idx ls cursor 0 + 1 /\ 0 <= off.
Proof.
  intros src ls cursor n q off H D. unfold display in D.
  fold (clamp_cursor src cursor) in D.
  change (match nth_error ls (Z.to_nat (find_line_idx ls (clamp_cursor src cursor) 0)) with
          | Some li => if l_start li <=? clamp_cursor src cursor then l_start li else 0
          | None => 0 end) with (start_of src ls cursor) in D.
  destruct (start_of_spec src ls cursor H) as [[S0 S1] S2].
  pose proof (clamp_cursor_range src cursor) as R.
  set (st0 := start_of src ls cursor) in *. set (c := clamp_cursor src cursor) in *.
  replace (st0 <? 0) with false in D by (symmetry; apply Z.ltb_ge; lia).
  pose proof (skip_indent_spec (skipn (Z.to_nat st0) src) st0 c) as SI. cbv zeta in SI.
  set (s := skip_indent (skipn (Z.to_nat st0) src) st0 c) in *.
  destruct SI as (A & B & C & I).
  rewrite length_skipn_Z in B by lia.
  assert (Hs : 0 <= s <= Z.of_nat (length src)) by lia.
  pose proof (scan_to_break_spec (skipn (Z.to_nat s) src) s) as SB. cbv zeta in SB.
  set (e := scan_to_break (skipn (Z.to_nat s) src) s) in *.
  destruct SB as (A2 & B2 & NB & EB).
  rewrite length_skipn_Z in B2, EB by lia.
  unfold slice in D.
  replace (0 <=? s) with true in D by (symmetry; apply Z.leb_le; lia).
  replace (s <=? e) with true in D by (symmetry; apply Z.leb_le; lia).
  replace (e <=? Z.of_nat (length src)) with true in D by (symmetry; apply Z.leb_le; lia).
  cbn [andb] in D.
  destruct (calc_cursor_offset_ok (firstn (Z.to_nat (e - s)) (skipn (Z.to_nat s) src)) (c - s)) as [o [Ho Hn]].
  rewrite Ho in D.
  replace (o <? 0) with false in D by (symmetry; apply Z.ltb_ge; lia).
  inversion D; subst n q off.
  exists st0, s, e.
  split; [exact S2|]. split; [lia|]. split; [exact C|]. split; [lia|]. split; [lia|]. split; [exact I|].
  split; [reflexivity|]. split; [exact NB|]. split; [|split; [reflexivity|lia]].
  destruct EB as [EB|[ch [E1 E2]]]; [left; lia|].
  right. exists ch. split; auto.
  rewrite nth_error_skipn' in E1. rewrite <- E1. f_equal. lia.
Qed.
