(* SemHeap.v — value.DuplicateValue in the heap model: the copy is fresh, equal, and disjoint from the
   original (property C07).  Plain values are observed through a snapshot function that follows lists and
   dictionaries and treats objects (and methods, types, exceptions) as references. *)
From Coq Require Import List ZArith Bool Lia.
From Zn.lib Require Import Float64.
From Zn.model Require Import SemDefs Sem.
From Zn.proofs Require Import SemBase.
Import ListNotations.
Open Scope Z_scope.

(* ---------- plain values ---------- *)
Inductive pval :=
| PNull | PBool (b : bool) | PNum (bits : Z) | PStr (s : str)
| PList (items : list pval)
| PDict (kvs : list (str * pval))
| PRef (v : val).            (* objects, methods, types, exceptions: identity *)

Definition snap_kv (f : val -> option pval) (kv : str * val) : option (str * pval) :=
  match f (snd kv) with Some p => Some (fst kv, p) | None => None end.

Fixpoint snapf (fuel : nat) (h : list cell) (v : val) : option pval :=
  match fuel with
  | O => None
  | S k =>
    match v with
    | VNull => Some PNull
    | VBool b => Some (PBool b)
    | VNum z => Some (PNum z)
    | VStr s => Some (PStr s)
    | VList l =>
      match nth_error h l with
      | Some (CList items) =>
        match sequence (map (snapf k h) items) with Some ps => Some (PList ps) | None => None end
      | _ => None
      end
    | VDict l =>
      match nth_error h l with
      | Some (CDict kvs) =>
        match sequence (map (snap_kv (snapf k h)) kvs) with Some ps => Some (PDict ps) | None => None end
      | _ => None
      end
    | other => Some (PRef other)
    end
  end.

(* ---------- well-formed heaps ---------- *)
Definition loc_of (v : val) : option nat := match v with VList l | VDict l => Some l | _ => None end.

(* a collection value points at a cell of its own kind *)
Definition val_ok (h : list cell) (v : val) : Prop :=
  match v with
  | VList l => exists items, nth_error h l = Some (CList items)
  | VDict l => exists kvs, nth_error h l = Some (CDict kvs)
  | _ => True
  end.

Definition cell_vals (c : cell) : list val :=
  match c with
  | CList items => items
  | CDict kvs => map snd kvs
  | CObj _ _ => []            (* objects are followed neither by copying nor by snapshots *)
  end.

Definition closed (h : list cell) : Prop :=
  forall l c, nth_error h l = Some c -> Forall (val_ok h) (cell_vals c).

Definition val_from (n : nat) (v : val) : Prop := match loc_of v with Some l => (n <= l)%nat | None => True end.
Definition closed_from (n : nat) (h : list cell) : Prop :=
  forall l c, (n <= l)%nat -> nth_error h l = Some c -> Forall (val_from n) (cell_vals c).

Lemma val_ok_lt h v l : val_ok h v -> loc_of v = Some l -> (l < length h)%nat.
Proof.
  destruct v; cbn; intros H E; inversion E; subst; destruct H as [x H]; apply nth_error_Some; congruence.
Qed.

Lemma val_ok_app h more v : val_ok h v -> val_ok (h ++ more) v.
Proof.
  destruct v; cbn; try tauto; intros [x H]; exists x; rewrite nth_error_app1; try exact H;
    apply nth_error_Some; congruence.
Qed.

(* ---------- locality of snapshots ---------- *)
Lemma sequence_ext {A B} (f g : A -> option B) : forall l, Forall (fun x => f x = g x) l -> sequence (map f l) = sequence (map g l).
Proof. induction l as [|a tl IH]; intros F; [reflexivity|]. inversion F; subst. cbn. rewrite H1, IH by assumption. reflexivity. Qed.

(* the snapshot of a value of a closed heap only reads that heap's own cells *)
Lemma snapf_local h h2 : closed h -> (forall l, (l < length h)%nat -> nth_error h2 l = nth_error h l) ->
  forall fuel v, val_ok h v -> snapf fuel h2 v = snapf fuel h v.
Proof.
  intros Hc Ha. induction fuel as [|k IH]; intros v Hv; [reflexivity|].
  cbn [snapf]. destruct v; try reflexivity.
  - pose proof (val_ok_lt h _ l Hv eq_refl) as Hl. rewrite (Ha l Hl).
    destruct (nth_error h l) as [[items|?|? ?]|] eqn:E; try reflexivity.
    rewrite (sequence_ext (snapf k h2) (snapf k h) items); [reflexivity|].
    pose proof (Hc l _ E) as F. cbn in F. eapply Forall_impl; [|exact F]. intros a Ha'. apply IH. exact Ha'.
  - pose proof (val_ok_lt h _ l Hv eq_refl) as Hl. rewrite (Ha l Hl).
    destruct (nth_error h l) as [[?|kvs|? ?]|] eqn:E; try reflexivity.
    rewrite (sequence_ext (snap_kv (snapf k h2)) (snap_kv (snapf k h)) kvs); [reflexivity|].
    pose proof (Hc l _ E) as F. cbn in F. rewrite Forall_map in F.
    eapply Forall_impl; [|exact F]. intros a Ha'. unfold snap_kv. rewrite IH by exact Ha'. reflexivity.
Qed.

(* the snapshot of a value living from n on only reads cells from n on *)
Lemma snapf_from n h h2 : closed_from n h -> (forall l, (n <= l)%nat -> nth_error h2 l = nth_error h l) ->
  forall fuel v, val_from n v -> snapf fuel h2 v = snapf fuel h v.
Proof.
  intros Hc Ha. induction fuel as [|k IH]; intros v Hv; [reflexivity|].
  cbn [snapf]. destruct v; try reflexivity; unfold val_from in Hv; cbn in Hv.
  - rewrite (Ha l Hv). destruct (nth_error h l) as [[items|?|? ?]|] eqn:E; try reflexivity.
    rewrite (sequence_ext (snapf k h2) (snapf k h) items); [reflexivity|].
    pose proof (Hc l _ Hv E) as F. cbn in F. eapply Forall_impl; [|exact F]. intros a Ha'. apply IH. exact Ha'.
  - rewrite (Ha l Hv). destruct (nth_error h l) as [[?|kvs|? ?]|] eqn:E; try reflexivity.
    rewrite (sequence_ext (snap_kv (snapf k h2)) (snap_kv (snapf k h)) kvs); [reflexivity|].
    pose proof (Hc l _ Hv E) as F. cbn in F. rewrite Forall_map in F.
    eapply Forall_impl; [|exact F]. intros a Ha'. unfold snap_kv. rewrite IH by exact Ha'. reflexivity.
Qed.

Lemma snapf_grow h more fuel v : closed h -> val_ok h v -> snapf fuel (h ++ more) v = snapf fuel h v.
Proof.
  intros Hc Hv. apply snapf_local; [exact Hc| |exact Hv]. intros l Hl. apply nth_error_app1. exact Hl.
Qed.

(* ---------- invariant along a duplication that started in heap h0 ---------- *)
Record inv (h0 : list cell) (s : state) : Prop := {
  inv_ext : exists added, heap s = h0 ++ added;
  inv_closed : closed (heap s);
  inv_from : closed_from (length h0) (heap s)
}.

Definition grows (a b : state) : Prop := exists more, heap b = heap a ++ more.

Lemma grows_refl a : grows a a. Proof. exists []. rewrite app_nil_r. reflexivity. Qed.
Lemma grows_trans a b c : grows a b -> grows b c -> grows a c.
Proof. intros [m1 H1] [m2 H2]. exists (m1 ++ m2). rewrite H2, H1, app_assoc. reflexivity. Qed.

(* what the copy y of x satisfies in state s *)
Record copy_of (h0 : list cell) (fuel : nat) (s : state) (y x : val) : Prop := {
  co_ok : val_ok (heap s) y;
  co_from : loc_of x <> None -> val_from (length h0) y;
  co_scalar : loc_of x = None -> y = x;
  co_snap : snapf fuel (heap s) y = snapf fuel h0 x
}.

Lemma copy_of_grows h0 fuel a b y x : inv h0 a -> grows a b -> copy_of h0 fuel a y x -> copy_of h0 fuel b y x.
Proof.
  intros Ia [more Hb] [C1 C2 C3 C4]. constructor; try assumption.
  - rewrite Hb. apply val_ok_app. exact C1.
  - rewrite Hb, snapf_grow; [exact C4|apply Ia|exact C1].
Qed.

(* generic traversal lemma *)
Lemma map_state_spec {A B} (f : state -> A -> option (B * state)) (h0 : list cell)
      (Pre : A -> Prop) (Q : state -> B -> A -> Prop) :
  (forall a b y x, inv h0 a -> grows a b -> Q a y x -> Q b y x) ->
  (forall s x y s1, inv h0 s -> Pre x -> f s x = Some (y, s1) -> inv h0 s1 /\ grows s s1 /\ Q s1 y x) ->
  forall l s ys s', inv h0 s -> Forall Pre l -> map_state f s l = Some (ys, s') ->
    inv h0 s' /\ grows s s' /\ Forall2 (Q s') ys l.
Proof.
  intros Hst Hf. induction l as [|x tl IH]; intros s ys s' Is Fp H; cbn in H.
  - inversion H; subst. split; [exact Is|]. split; [apply grows_refl|constructor].
  - destruct (f s x) as [[y s1]|] eqn:E; [|discriminate].
    destruct (map_state f s1 tl) as [[ys' s2]|] eqn:E2; [|discriminate]. inversion H; subst.
    inversion Fp as [|? ? Px Ftl]; subst.
    destruct (Hf s x y s1 Is Px E) as (I1 & G1 & Q1).
    destruct (IH s1 ys' s' I1 Ftl E2) as (I2 & G2 & F2).
    split; [exact I2|]. split; [eapply grows_trans; eassumption|].
    constructor; [exact (Hst s1 s' y x I1 G2 Q1)|exact F2].
Qed.

(* allocation of a cell whose contents are copies *)
Lemma inv_alloc h0 s c :
  inv h0 s -> Forall (val_ok (heap s)) (cell_vals c) -> Forall (val_from (length h0)) (cell_vals c) ->
  inv h0 (snd (alloc s c)) /\ grows s (snd (alloc s c)).
Proof.
  intros [[added Hh] Hc Hf] Fok Ffrom.
  assert (Hh2 : heap (snd (alloc s c)) = heap s ++ [c]) by reflexivity.
  split; [|exists [c]; exact Hh2]. constructor.
  - exists (added ++ [c]). rewrite Hh2, Hh, app_assoc. reflexivity.
  - rewrite Hh2. intros l c1 E. destruct (Nat.lt_ge_cases l (length (heap s))) as [Hlt|Hge].
    + rewrite nth_error_app1 in E by exact Hlt.
      eapply Forall_impl; [|exact (Hc l c1 E)]. intros a. apply val_ok_app.
    + rewrite nth_error_app2 in E by exact Hge.
      destruct (l - length (heap s))%nat as [|m] eqn:Em; cbn in E; [|destruct m; discriminate].
      inversion E; subst. eapply Forall_impl; [|exact Fok]. intros a. apply val_ok_app.
  - rewrite Hh2. intros l c1 Hl E. destruct (Nat.lt_ge_cases l (length (heap s))) as [Hlt|Hge].
    + rewrite nth_error_app1 in E by exact Hlt. exact (Hf l c1 Hl E).
    + rewrite nth_error_app2 in E by exact Hge.
      destruct (l - length (heap s))%nat as [|m] eqn:Em; cbn in E; [|destruct m; discriminate].
      inversion E; subst. exact Ffrom.
Qed.

Lemma Forall2_Forall_l {A B} (P : A -> B -> Prop) (Q : A -> Prop) l1 l2 :
  (forall a b, P a b -> Q a) -> Forall2 P l1 l2 -> Forall Q l1.
Proof. intros H F. induction F; constructor; eauto. Qed.

Lemma Forall2_impl {A B} (P Q : A -> B -> Prop) l1 l2 :
  (forall a b, P a b -> Q a b) -> Forall2 P l1 l2 -> Forall2 Q l1 l2.
Proof. intros H F. induction F; constructor; eauto. Qed.

Lemma sequence_Forall2 {A B C} (f : A -> option C) (g : B -> option C) l1 l2 :
  Forall2 (fun a b => f a = g b) l1 l2 -> sequence (map f l1) = sequence (map g l2).
Proof. intros F. induction F; [reflexivity|]. cbn. rewrite H, IHF. reflexivity. Qed.

(* ---------- the theorem about DuplicateValue ---------- *)
Theorem dup_spec h0 : closed h0 -> forall fuel st v v' st',
  inv h0 st -> val_ok h0 v ->
  dup fuel st v = DOk v' st' ->
  inv h0 st' /\ grows st st' /\ copy_of h0 fuel st' v' v.
Proof.
  intros Hc0. induction fuel as [|k IH]; intros st v v' st' Is Hv H; [discriminate|].
  assert (Hold : forall l, (l < length h0)%nat -> nth_error (heap st) l = nth_error h0 l).
  { intros l Hl. destruct (inv_ext _ _ Is) as [added ->]. apply nth_error_app1. exact Hl. }
  assert (Hlocal : forall f x, val_ok h0 x -> snapf f (heap st) x = snapf f h0 x).
  { intros f x Hx. apply snapf_local; assumption. }
  assert (Hscalar : loc_of v = None -> v' = v /\ st' = st).
  { intros Hl. cbn [dup] in H. destruct v; cbn in Hl; try discriminate; inversion H; split; reflexivity. }
  destruct (loc_of v) as [l0|] eqn:Hloc.
  2:{ destruct (Hscalar eq_refl) as [-> ->]. split; [exact Is|]. split; [apply grows_refl|].
      constructor.
      - destruct v; cbn in Hloc; try discriminate; exact I.
      - congruence.
      - reflexivity.
      - apply Hlocal. exact Hv. }
  clear Hscalar. cbn [dup] in H. destruct v; cbn in Hloc; try discriminate; inversion Hloc; subst l0.
  - (* list *)
    destruct Hv as [items Hit]. pose proof (val_ok_lt h0 (VList l) l (ex_intro _ items Hit) eq_refl) as Hl.
    unfold hget in H. rewrite (Hold l Hl), Hit in H.
    destruct (map_state _ st items) as [[items' s1]|] eqn:Hm; [|discriminate].
    match type of Hm with map_state ?g _ _ = _ => set (f := g) in * end.
    assert (Hf : forall s x y sx, inv h0 s -> val_ok h0 x -> f s x = Some (y, sx) ->
                 inv h0 sx /\ grows s sx /\ copy_of h0 k sx y x).
    { intros s x y sx Isx Px Hfx. unfold f in Hfx. destruct (dup k s x) as [x' s'|] eqn:Hd; [|discriminate].
      inversion Hfx; subst. exact (IH s x y sx Isx Px Hd). }
    destruct (map_state_spec f h0 (val_ok h0) (fun s y x => copy_of h0 k s y x)
                (fun a b y x Ia G Q => copy_of_grows h0 k a b y x Ia G Q) Hf
                items st items' s1 Is (Hc0 l _ Hit) Hm) as (I1 & G1 & F2).
    destruct (inv_alloc h0 s1 (CList items') I1) as [I2 G2].
    { cbn. eapply Forall2_Forall_l; [|exact F2]. intros a b Q. apply Q. }
    { cbn. clear - F2. induction F2 as [|y x ys xs Q F IHF]; constructor; [|exact IHF].
      unfold val_from. destruct (loc_of y) eqn:Ey; [|exact I].
      destruct (loc_of x) eqn:Ex.
      - pose proof (co_from _ _ _ _ _ Q) as Hf. unfold val_from in Hf. rewrite Ey in Hf. apply Hf. congruence.
      - rewrite (co_scalar _ _ _ _ _ Q Ex) in Ey. congruence. }
    unfold alloc in H, I2, G2. cbn [snd] in I2, G2. inversion H; subst v' st'. clear H.
    split; [exact I2|]. split; [eapply grows_trans; [exact G1|exact G2]|].
    assert (Hnew : nth_error (heap s1 ++ [CList items']) (length (heap s1)) = Some (CList items')).
    { rewrite nth_error_app2 by lia. rewrite Nat.sub_diag. reflexivity. }
    constructor.
    + cbn [heap set_heap val_ok]. exists items'. exact Hnew.
    + intros _. unfold val_from. cbn. destruct (inv_ext _ _ I1) as [ad ->]. rewrite app_length. lia.
    + cbn. congruence.
    + cbn [snapf heap set_heap]. rewrite Hnew, Hit.
      rewrite (sequence_Forall2 (snapf k (heap s1 ++ [CList items'])) (snapf k h0) items' items); [reflexivity|].
      eapply Forall2_impl; [|exact F2]. intros y x Q.
      rewrite snapf_grow; [apply Q|apply I1|apply Q].
  - (* dictionary *)
    destruct Hv as [kvs Hit]. pose proof (val_ok_lt h0 (VDict l) l (ex_intro _ kvs Hit) eq_refl) as Hl.
    unfold hget in H. rewrite (Hold l Hl), Hit in H.
    destruct (map_state _ st kvs) as [[kvs' s1]|] eqn:Hm; [|discriminate].
    match type of Hm with map_state ?g _ _ = _ => set (f := g) in * end.
    assert (Hf : forall s (x y : str * val) sx, inv h0 s -> val_ok h0 (snd x) -> f s x = Some (y, sx) ->
                 inv h0 sx /\ grows s sx /\ (fst y = fst x /\ copy_of h0 k sx (snd y) (snd x))).
    { intros s x y sx Isx Px Hfx. unfold f in Hfx. destruct (dup k s (snd x)) as [x' s'|] eqn:Hd; [|discriminate].
      inversion Hfx; subst. destruct (IH s (snd x) x' sx Isx Px Hd) as (A1 & A2 & A3).
      split; [exact A1|]. split; [exact A2|]. split; [reflexivity|exact A3]. }
    assert (Fpre : Forall (fun kv : str * val => val_ok h0 (snd kv)) kvs).
    { pose proof (Hc0 l _ Hit) as F. cbn in F. rewrite Forall_map in F. exact F. }
    destruct (map_state_spec f h0 (fun kv : str * val => val_ok h0 (snd kv))
                (fun s (y x : str * val) => fst y = fst x /\ copy_of h0 k s (snd y) (snd x))
                (fun a b y x Ia G Q => conj (proj1 Q) (copy_of_grows h0 k a b _ _ Ia G (proj2 Q))) Hf
                kvs st kvs' s1 Is Fpre Hm) as (I1 & G1 & F2).
    destruct (inv_alloc h0 s1 (CDict kvs') I1) as [I2 G2].
    { cbn. rewrite Forall_map. eapply Forall2_Forall_l; [|exact F2]. intros a b Q. apply Q. }
    { cbn. rewrite Forall_map. clear - F2. induction F2 as [|y x ys xs [_ Q] F IHF]; constructor; [|exact IHF].
      unfold val_from. destruct (loc_of (snd y)) eqn:Ey; [|exact I].
      destruct (loc_of (snd x)) eqn:Ex.
      - pose proof (co_from _ _ _ _ _ Q) as Hf. unfold val_from in Hf. rewrite Ey in Hf. apply Hf. congruence.
      - rewrite (co_scalar _ _ _ _ _ Q Ex) in Ey. congruence. }
    unfold alloc in H, I2, G2. cbn [snd] in I2, G2. inversion H; subst v' st'. clear H.
    split; [exact I2|]. split; [eapply grows_trans; [exact G1|exact G2]|].
    assert (Hnew : nth_error (heap s1 ++ [CDict kvs']) (length (heap s1)) = Some (CDict kvs')).
    { rewrite nth_error_app2 by lia. rewrite Nat.sub_diag. reflexivity. }
    constructor.
    + cbn [heap set_heap val_ok]. exists kvs'. exact Hnew.
    + intros _. unfold val_from. cbn. destruct (inv_ext _ _ I1) as [ad ->]. rewrite app_length. lia.
    + cbn. congruence.
    + cbn [snapf heap set_heap]. rewrite Hnew, Hit.
      rewrite (sequence_Forall2 (snap_kv (snapf k (heap s1 ++ [CDict kvs']))) (snap_kv (snapf k h0)) kvs' kvs); [reflexivity|].
      eapply Forall2_impl; [|exact F2]. intros y x [Hk Q]. unfold snap_kv.
      rewrite snapf_grow; [|apply I1|apply Q]. rewrite (co_snap _ _ _ _ _ Q), Hk. reflexivity.
Qed.
