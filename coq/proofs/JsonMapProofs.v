(* JsonMapProofs.v — the element <-> JSON value mapping and the entry points (property C19). *)
From Coq Require Import List ZArith Bool Lia Arith.
Import ListNotations.
From Zn.model Require Import Json.
From Zn.proofs Require Import JsonProofs.
Open Scope Z_scope.

Section ElemInd.
  Variable P : elem -> Prop.
  Hypothesis Hnull : P ENull.
  Hypothesis Hbool : forall b, P (EBool b).
  Hypothesis Hnum : forall b, P (ENum b).
  Hypothesis Hstr : forall s, P (EStr s).
  Hypothesis Harr : forall l, Forall P l -> P (EArr l).
  Hypothesis Hdict : forall m, Forall (fun kv => P (snd kv)) m -> P (EDict m).
  Hypothesis Hother : P EOther.
  Fixpoint elem_ind' (e : elem) : P e :=
    match e with
    | ENull => Hnull
    | EBool b => Hbool b
    | ENum b => Hnum b
    | EStr s => Hstr s
    | EArr l => Harr l ((fix go (l : list elem) : Forall P l :=
                           match l with [] => Forall_nil _ | x :: r => Forall_cons _ (elem_ind' x) (go r) end) l)
    | EDict m => Hdict m ((fix go (m : list (list Z * elem)) : Forall (fun kv => P (snd kv)) m :=
                           match m with [] => Forall_nil _ | kv :: r => Forall_cons _ (elem_ind' (snd kv)) (go r) end) m)
    | EOther => Hother
    end.
End ElemInd.

(* ---------------------------------------------------------------- HashMap *)
Lemma list_eqb_eq : forall a b, list_eqb a b = true <-> a = b.
Proof.
  induction a as [| x a IH]; destruct b as [| y b]; cbn [list_eqb]; split; intros H; try discriminate; try reflexivity.
  - apply andb_prop in H. destruct H as [H1 H2]. apply Z.eqb_eq in H1. apply IH in H2. congruence.
  - inversion H; subst. rewrite Z.eqb_refl. cbn. apply IH. reflexivity.
Qed.

Lemma nodupb_NoDup : forall ks, nodupb ks = true <-> NoDup ks.
Proof.
  induction ks as [| k ks IH]; cbn [nodupb]; split; intros H; try constructor; try reflexivity.
  - apply andb_prop in H. destruct H as [H1 H2]. apply negb_true_iff in H1.
    intros Hin. assert (existsb (fun k' => list_eqb k k') ks = true); [| congruence].
    apply existsb_exists. exists k. split; [assumption | apply list_eqb_eq; reflexivity].
  - apply IH. apply andb_prop in H. tauto.
  - inversion H as [| ? ? Hn Hd]; subst. apply andb_true_intro. split; [| apply IH; assumption].
    apply negb_true_iff. destruct (existsb (fun k' => list_eqb k k') ks) eqn:E; [| reflexivity].
    apply existsb_exists in E. destruct E as (k' & Hin & He). apply list_eqb_eq in He. subst. contradiction.
Qed.

Lemma hm_append_fresh : forall (A : Type) (acc : list (list Z * A)) k v,
  (forall a, In a acc -> list_eqb (fst a) k = false) -> hm_append acc k v = acc ++ [(k, v)].
Proof.
  induction acc as [| [k' v'] acc IH]; intros k v H; [reflexivity |].
  cbn [hm_append]. pose proof (H (k', v') (or_introl eq_refl)) as Hk. cbn [fst] in Hk. rewrite Hk. cbn [app]. f_equal.
  apply IH. intros a Ha. apply H. right. assumption.
Qed.

Lemma hm_fold_nodup : forall (A : Type) (m acc : list (list Z * A)),
  (forall a kv, In a acc -> In kv m -> list_eqb (fst a) (fst kv) = false) ->
  nodupb (map fst m) = true ->
  fold_left (fun acc kv => hm_append acc (fst kv) (snd kv)) m acc = acc ++ m.
Proof.
  induction m as [| [k v] m IH]; intros acc Hacc Hnd; [cbn; rewrite app_nil_r; reflexivity |].
  cbn [fold_left fst snd]. cbn [map nodupb fst] in Hnd. apply andb_prop in Hnd. destruct Hnd as [Hk Hnd].
  rewrite hm_append_fresh.
  - rewrite IH; [rewrite <- app_assoc; reflexivity | | assumption].
    intros a kv Ha Hkv. apply in_app_or in Ha. destruct Ha as [Ha | [<- | []]].
    + apply Hacc; [assumption | right; assumption].
    + cbn [fst]. apply negb_true_iff in Hk.
      destruct (list_eqb k (fst kv)) eqn:E; [| reflexivity].
      assert (existsb (fun k' => list_eqb k k') (map fst m) = true); [| congruence].
      apply existsb_exists. exists (fst kv). split; [apply in_map; assumption | assumption].
  - intros a Ha. apply (Hacc a (k, v) Ha). left. reflexivity.
Qed.

Lemma hm_of_pairs_nodup : forall (A : Type) (m : list (list Z * A)),
  nodupb (map fst m) = true -> hm_of_pairs m = m.
Proof. intros A m H. unfold hm_of_pairs. rewrite hm_fold_nodup; [reflexivity | intros a kv [] | assumption]. Qed.

(* ---------------------------------------------------------------- mapping *)
Section Mapping.
  Variable fmt_num : Z -> option numtok.
  Variable num_val : numtok -> option Z.
  Variable num_ok : Z -> bool.
  (* the number bridge: every accepted double has a well-formed token that reads back as the same double *)
  Hypothesis num_bridge : forall b, num_ok b = true ->
    exists t, fmt_num b = Some t /\ wf_num t = true /\ num_val t = Some b.
  Hypothesis num_reject : forall b, num_ok b = false -> fmt_num b = None.

  Definition to_json (e : elem) : option jv := marshal fmt_num (fun x => x) (build_plain e).
  Definition of_json (j : jv) : option elem := decode_element num_val j.

  Lemma sequence_map_some : forall (A B : Type) (f : A -> option B) (l : list A) (g : A -> B),
    (forall x, In x l -> f x = Some (g x)) -> sequence (map f l) = Some (map g l).
  Proof.
    induction l as [| x l IH]; intros g H; [reflexivity |].
    cbn [map sequence]. rewrite (H x (or_introl eq_refl)). rewrite (IH g); [reflexivity |].
    intros y Hy. apply H. right. assumption.
  Qed.

  (* existence of a witness function from pointwise existence *)
  Lemma forall_exists_map : forall (A B : Type) (R : A -> B -> Prop) (l : list A),
    Forall (fun x => exists y, R x y) l -> exists l', Forall2 R l l'.
  Proof.
    induction 1 as [| x l [y Hy] _ [l' IH]]; [exists []; constructor | exists (y :: l'); constructor; assumption].
  Qed.

  Lemma sequence_forall2 : forall (A B : Type) (f : A -> option B) (l : list A) (l' : list B),
    Forall2 (fun x y => f x = Some y) l l' -> sequence (map f l) = Some l'.
  Proof.
    induction 1 as [| x y l l' Hxy _ IH]; [reflexivity |]. cbn [map sequence]. rewrite Hxy, IH. reflexivity.
  Qed.

  Lemma Forall2_weaken : forall (A B : Type) (R R' : A -> B -> Prop) l l',
    (forall a b, R a b -> R' a b) -> Forall2 R l l' -> Forall2 R' l l'.
  Proof. induction 2; constructor; auto. Qed.

  Theorem mapping_inverse : forall e, representable num_ok e = true ->
    exists j, to_json e = Some j /\ wf j = true /\ of_json j = Some e.
  Proof.
    unfold to_json, of_json.
    induction e as [| b | b | s | l IH | m IH |] using elem_ind'; intros Hr; cbn [representable] in Hr.
    - exists JNull. auto.
    - exists (JBool b). auto.
    - destruct (num_bridge b Hr) as (t & Ht & Hw & Hv). exists (JNum t).
      cbn [build_plain marshal decode_element]. rewrite Ht, Hv. auto.
    - exists (JStr s). auto.
    - (* list *)
      assert (HF : Forall (fun x => exists j, marshal fmt_num (fun x => x) (build_plain x) = Some j /\ wf j = true /\
                                     decode_element num_val j = Some x) l).
      { rewrite Forall_forall in *. rewrite forallb_forall in Hr. intros x Hin. apply IH; auto. }
      apply forall_exists_map in HF. destruct HF as [js HF].
      exists (JArr js). cbn [build_plain marshal decode_element wf]. rewrite map_map.
      rewrite (sequence_forall2 _ _ (fun x => marshal fmt_num (fun x => x) (build_plain x)) l js).
      2:{ eapply Forall2_weaken; [| exact HF]. cbn. intros a b0 H. tauto. }
      cbn [option_map]. split; [reflexivity |]. split.
      + apply forallb_forall. intros j Hin.
        clear - HF Hin. induction HF as [| x j' l js Hxy _ IHF]; [contradiction |].
        destruct Hin as [-> | Hin]; [tauto | auto].
      + rewrite (sequence_forall2 _ _ (decode_element num_val) js l); [reflexivity |].
        clear - HF. induction HF; constructor; tauto.
    - (* dictionary *)
      apply andb_prop in Hr. destruct Hr as [Hnd Hr].
      assert (HF : Forall (fun kv => exists j, marshal fmt_num (fun x => x) (build_plain (snd kv)) = Some j /\ wf j = true /\
                                      decode_element num_val j = Some (snd kv)) m).
      { rewrite Forall_forall in *. rewrite forallb_forall in Hr. intros kv Hin. apply IH; [assumption |].
        specialize (Hr kv Hin). apply andb_prop in Hr. tauto. }
      apply forall_exists_map in HF. destruct HF as [js HF].
      exists (JObj (combine (map fst m) js)).
      cbn [build_plain marshal decode_element wf]. rewrite map_map. cbn [fst snd].
      rewrite (sequence_forall2 _ _ _ m (combine (map fst m) js)).
      2:{ clear - HF. induction HF as [| [k v] j m js Hxy _ IHF]; [constructor |].
          cbn [map combine fst]. constructor; [| exact IHF]. cbn [fst snd] in *.
          destruct Hxy as (-> & _). reflexivity. }
      cbn [option_map]. split; [reflexivity |]. split.
      + apply forallb_forall. intros [k j] Hin. cbn [fst snd].
        rewrite forallb_forall in Hr.
        clear - HF Hin Hr. induction HF as [| [k' v'] j' m js Hxy _ IHF]; [contradiction |].
        cbn [map combine fst] in Hin. destruct Hin as [Hin | Hin].
        * inversion Hin; subst. specialize (Hr (k, v') (or_introl eq_refl)). cbn [fst snd] in *.
          apply andb_prop in Hr. apply andb_true_intro. tauto.
        * apply IHF; try assumption. intros x Hx. apply Hr. right. assumption.
      + rewrite (sequence_forall2 _ _ _ (combine (map fst m) js) m).
        2:{ clear - HF. induction HF as [| [k v] j m js Hxy _ IHF]; [constructor |].
            cbn [map combine fst]. constructor; [| exact IHF]. cbn [fst snd] in *.
            destruct Hxy as (_ & _ & ->). reflexivity. }
        cbn [option_map]. rewrite hm_of_pairs_nodup by assumption. reflexivity.
    - discriminate.
  Qed.

  (* a value JSON cannot represent makes Marshal fail *)
  Theorem marshal_bad_num : forall e, has_bad_num num_ok e = true -> to_json e = None.
  Proof.
    unfold to_json.
    induction e as [| b | b | s | l IH | m IH |] using elem_ind'; intros Hb; cbn [has_bad_num] in Hb; try discriminate.
    - apply negb_true_iff in Hb. cbn [build_plain marshal]. rewrite (num_reject b Hb). reflexivity.
    - cbn [build_plain marshal]. rewrite map_map.
      assert (sequence (map (fun x => marshal fmt_num (fun x0 => x0) (build_plain x)) l) = None) as ->; [| reflexivity].
      induction IH as [| x l Hx _ IHl]; [discriminate |].
      cbn [existsb] in Hb. cbn [map sequence]. apply orb_prop in Hb. destruct Hb as [Hb | Hb].
      + rewrite (Hx Hb). reflexivity.
      + rewrite (IHl Hb). destruct (marshal _ _ (build_plain x)); reflexivity.
    - cbn [build_plain marshal]. rewrite map_map. cbn [fst snd].
      assert (sequence (map (fun kv => option_map (pair (fst kv)) (marshal fmt_num (fun x0 => x0) (build_plain (snd kv)))) m) = None)
        as ->; [| reflexivity].
      induction IH as [| kv m Hx _ IHm]; [discriminate |].
      cbn [existsb] in Hb. cbn [map sequence]. apply orb_prop in Hb. destruct Hb as [Hb | Hb].
      + rewrite (Hx Hb). reflexivity.
      + rewrite (IHm Hb). destruct (option_map _ _); reflexivity.
  Qed.

  (* ------------------------------------------------------------ entry points *)
  Theorem generate_then_parse : forall m, representable num_ok (EDict m) = true ->
    exists t, fn_generate_json fmt_num [EDict m] = Value (EStr t) /\
              fn_parse_json num_val [EStr t] = Value (EDict m).
  Proof.
    intros m Hr. destruct (mapping_inverse (EDict m) Hr) as (j & Hj & Hw & Hd).
    exists (render j). unfold fn_generate_json, hashmap_to_json_string, fn_parse_json, json_string_to_element.
    unfold to_json in Hj. rewrite Hj. split; [reflexivity |].
    rewrite parse_text_render by assumption. unfold of_json in Hd. rewrite Hd. reflexivity.
  Qed.

  Theorem generate_nonfinite_exception : forall m, has_bad_num num_ok (EDict m) = true ->
    fn_generate_json fmt_num [EDict m] = Exception.
  Proof.
    intros m Hb. unfold fn_generate_json, hashmap_to_json_string.
    pose proof (marshal_bad_num (EDict m) Hb) as H. unfold to_json in H. rewrite H. reflexivity.
  Qed.

  (* 生成JSON never crashes: a text, an exception, or the parameter error *)
  Theorem generate_outcomes : forall args,
    (exists t, fn_generate_json fmt_num args = Value (EStr t)) \/ fn_generate_json fmt_num args = Exception \/
    fn_generate_json fmt_num args = ParamError.
  Proof.
    intros args. unfold fn_generate_json, hashmap_to_json_string.
    destruct args as [| [| | | | | m |] [| ? ?]]; auto.
    destruct (marshal _ _ _); [left; eexists; reflexivity | auto].
  Qed.
End Mapping.
