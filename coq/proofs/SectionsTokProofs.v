(* C03 - "program sections (导入, 输入, statements, 拦截)" and further statement kinds, TOKEN LEVEL.
   Extends proofs/StmtNestProofs.v: a new surface syntax [ystmt] (all of [sstmt] re-declared, plus 遍历 in its three
   forms, 抛出, 继续循环 / 结束循环, multi-name 令, and method definitions 如何 F ？ with a nested exec block: 输入 line,
   statements, 拦截 sections) and programs [yprog] = import lines, input line, statements, 拦截 sections.
   Everything is proved on ANY parser state that presents the lines ([lfeeds] of StmtNestProofs). *)
From Coq Require Import List ZArith Bool Lia Arith.
Import ListNotations.
From Zn.gen Require Import GenFrontTokens.
From Zn.model Require Import LexerTok Lexer Ast Parser.
From Zn.model Require StringLit.
From Zn.proofs Require Import FrontLexProofs FrontCompleteProofs FrontTotalProofs ExprPrecProofs ChainPrecProofs StmtNestProofs.
Open Scope Z_scope.

(* ================================================================== surface syntax *)
Inductive ystmt :=
| YExpr (e : cx)                                   (* e *)
| YOut (e : cx)                                    (* 输出 e *)
| YLet (xs : list lit) (e : cx)                    (* 令 a 、 b = e *)
| YWhile (e : cx) (b : list ystmt)                 (* 每当 e ： + block *)
| YIf (e : cx) (b : list ystmt) (others : list (cx * list ystmt)) (els : option (list ystmt))
| YIter (ids : list lit) (e : cx) (b : list ystmt) (* 遍历 e ： / 以 V 遍历 e ： / 以 K 、 V 遍历 e ： + block *)
| YThrow (cls : lit) (args : list cx)              (* 抛出 X ： e1 、 e2 ！ *)
| YBreak                                           (* 结束循环 *)
| YContinue                                        (* 继续循环 *)
| YFunc (name : lit) (ins : list lit) (b : list ystmt) (cs : list (lit * list ystmt)).
                                                   (* 如何 F ？ + exec block: 输入 line, statements, 拦截 X ： + block ... *)

Definition Forall_list {A} (P : A -> Prop) (f : forall a, P a) : forall l, Forall P l :=
  fix go l := match l with [] => Forall_nil P | x :: r => Forall_cons x (f x) (go r) end.

Section YInd.
Variable P : ystmt -> Prop.
Hypothesis HE : forall e, P (YExpr e).
Hypothesis HO : forall e, P (YOut e).
Hypothesis HL : forall xs e, P (YLet xs e).
Hypothesis HW : forall e b, Forall P b -> P (YWhile e b).
Definition yoptF (el : option (list ystmt)) : Prop := match el with Some x => Forall P x | None => True end.
Hypothesis HI : forall e b os el, Forall P b -> Forall (fun p : cx * list ystmt => Forall P (snd p)) os -> yoptF el -> P (YIf e b os el).
Hypothesis HT : forall ids e b, Forall P b -> P (YIter ids e b).
Hypothesis HTh : forall c args, P (YThrow c args).
Hypothesis HB : P YBreak.
Hypothesis HC : P YContinue.
Hypothesis HF : forall n ins b cs, Forall P b -> Forall (fun p : lit * list ystmt => Forall P (snd p)) cs -> P (YFunc n ins b cs).
Fixpoint ystmt_ind2 (s : ystmt) : P s :=
  match s with
  | YExpr e => HE e
  | YOut e => HO e
  | YLet xs e => HL xs e
  | YWhile e b => HW e b (Forall_list P ystmt_ind2 b)
  | YIf e b os el =>
      HI e b os el (Forall_list P ystmt_ind2 b)
         (Forall_list (fun p : cx * list ystmt => Forall P (snd p)) (fun p => Forall_list P ystmt_ind2 (snd p)) os)
         (match el as el0 return yoptF el0 with Some x => Forall_list P ystmt_ind2 x | None => I end)
  | YIter ids e b => HT ids e b (Forall_list P ystmt_ind2 b)
  | YThrow c args => HTh c args
  | YBreak => HB
  | YContinue => HC
  | YFunc n ins b cs =>
      HF n ins b cs (Forall_list P ystmt_ind2 b)
         (Forall_list (fun p : lit * list ystmt => Forall P (snd p)) (fun p => Forall_list P ystmt_ind2 (snd p)) cs)
  end.
End YInd.

(* the prescribed tree *)
Fixpoint yast (s : ystmt) : stmt :=
  match s with
  | YExpr e => SExpr (cast e)
  | YOut e => SReturn (cast e)
  | YLet xs e => SVarDecl [(1, xs, cast e)]
  | YWhile e b => SWhile (cast e) (map yast b)
  | YIf e b os el =>
      SBranch (Some (cast e)) (Some (map yast b))
              (match el with Some x => Some (map yast x) | None => None end)
              (map (fun p => cast (fst p)) os) (map (fun p => map yast (snd p)) os)
              (match el with Some _ => true | None => false end)
  | YIter ids e b => SIterate (cast e) ids (map yast b)
  | YThrow c args => SThrow c (map cast args)
  | YBreak => SBreak
  | YContinue => SContinue
  | YFunc n ins b cs => SFuncDecl n 1 (XBlock ins (map yast b) (map (fun c => (fst c, map yast (snd c))) cs))
  end.
Definition ycatch (c : lit * list ystmt) : lit * list stmt := (fst c, map yast (snd c)).

Fixpoint ywf (s : ystmt) : bool :=
  match s with
  | YExpr e | YOut e => cwf e
  | YLet xs e => nonnil xs && cwf e
  | YWhile e b => cwf e && nonnil b && forallb ywf b
  | YIf e b os el =>
      cwf e && nonnil b && forallb ywf b
      && forallb (fun p => cwf (fst p) && nonnil (snd p) && forallb ywf (snd p)) os
      && match el with Some x => nonnil x && forallb ywf x | None => true end
  | YIter ids e b => (length ids <=? 2)%nat && cwf e && nonnil b && forallb ywf b
  | YThrow c args => nonnil args && forallb cwf args
  | YBreak | YContinue => true
  | YFunc n ins b cs =>
      (nonnil b || nonnil cs) && forallb ywf b && forallb (fun c => nonnil (snd c) && forallb ywf (snd c)) cs
  end.

Definition idt (x : lit) : atok := (g_TypeIdentifier, x).
Fixpoint idlist (xs : list lit) : list atok :=
  match xs with
  | [] => []
  | x :: r => match r with [] => [idt x] | _ => idt x :: tPause :: idlist r end
  end.
Lemma idlist_cons2 : forall x y r, idlist (x :: y :: r) = idt x :: tPause :: idlist (y :: r). Proof. reflexivity. Qed.

Definition iter_hdr (ids : list lit) : list atok := match ids with [] => [] | _ => kwt g_TypeVarOneW :: idlist ids end.
Definition inlines (d : nat) (ins : list lit) : list pline :=
  match ins with [] => [] | _ => [(d, kwt g_TypeInputW :: idlist ins, true)] end.

Fixpoint ylines (d : nat) (s : ystmt) : list pline :=
  match s with
  | YExpr e => [(d, cshow e, true)]
  | YOut e => [(d, kwt g_TypeReturnW :: cshow e, true)]
  | YLet xs e => [(d, kwt g_TypeDeclareW :: idlist xs ++ kwt g_TypeAssignMark :: cshow e, true)]
  | YWhile e b => (d, kwt g_TypeWhileLoopW :: cshow e ++ [tColon], false) :: flat_map (ylines (S d)) b
  | YIf e b os el =>
      (d, kwt g_TypeCondW :: cshow e ++ [tColon], false) :: flat_map (ylines (S d)) b
      ++ flat_map (fun p => (d, kwt g_TypeCondOtherW :: cshow (fst p) ++ [tColon], false) :: flat_map (ylines (S d)) (snd p)) os
      ++ match el with Some x => (d, [kwt g_TypeCondElseW; tColon], false) :: flat_map (ylines (S d)) x | None => [] end
  | YIter ids e b => (d, iter_hdr ids ++ kwt g_TypeIteratorW :: cshow e ++ [tColon], false) :: flat_map (ylines (S d)) b
  | YThrow c args =>
      [(d, kwt g_TypeThrowErrorW :: idt c :: tColon :: sepcat tPause (map cshow args) ++ [kwt g_TypeExceptionT], true)]
  | YBreak => [(d, [kwt g_TypeBreakW], true)]
  | YContinue => [(d, [kwt g_TypeContinueW], true)]
  | YFunc n ins b cs =>
      (d, [kwt g_TypeFuncW; idt n; kwt g_TypeFuncDeclare], false) :: inlines (S d) ins ++ flat_map (ylines (S d)) b
      ++ flat_map (fun c => (S d, [kwt g_TypeCatchErrorW; idt (fst c); tColon], false) :: flat_map (ylines (S (S d))) (snd c)) cs
  end.
Definition yblines (d : nat) (b : list ystmt) : list pline := flat_map (ylines d) b.
Definition yolines (d : nat) (os : list (cx * list ystmt)) : list pline :=
  flat_map (fun p => (d, kwt g_TypeCondOtherW :: cshow (fst p) ++ [tColon], false) :: yblines (S d) (snd p)) os.
Definition yelines (d : nat) (el : option (list ystmt)) : list pline :=
  match el with Some x => (d, [kwt g_TypeCondElseW; tColon], false) :: yblines (S d) x | None => [] end.
Definition yclines (d : nat) (cs : list (lit * list ystmt)) : list pline :=
  flat_map (fun c => (d, [kwt g_TypeCatchErrorW; idt (fst c); tColon], false) :: yblines (S d) (snd c)) cs.
(* an exec block: input line, statements, catch sections *)
Definition yxlines (d : nat) (ins : list lit) (b : list ystmt) (cs : list (lit * list ystmt)) : list pline :=
  inlines d ins ++ yblines d b ++ yclines d cs.

Lemma ylines_if : forall d e b os el,
  ylines d (YIf e b os el) = (d, kwt g_TypeCondW :: cshow e ++ [tColon], false) :: yblines (S d) b ++ yolines d os ++ yelines d el.
Proof. reflexivity. Qed.
Lemma ylines_while : forall d e b,
  ylines d (YWhile e b) = (d, kwt g_TypeWhileLoopW :: cshow e ++ [tColon], false) :: yblines (S d) b.
Proof. reflexivity. Qed.
Lemma ylines_iter : forall d ids e b,
  ylines d (YIter ids e b) = (d, iter_hdr ids ++ kwt g_TypeIteratorW :: cshow e ++ [tColon], false) :: yblines (S d) b.
Proof. reflexivity. Qed.
Lemma ylines_func : forall d n ins b cs,
  ylines d (YFunc n ins b cs) = (d, [kwt g_TypeFuncW; idt n; kwt g_TypeFuncDeclare], false) :: yxlines (S d) ins b cs.
Proof. reflexivity. Qed.

(* fuel *)
Fixpoint yfuel (s : ystmt) : nat :=
  match s with
  | YExpr e | YOut e => (ccfuel e + 2)%nat
  | YLet xs e => (ccfuel e + length xs + 5)%nat
  | YWhile e b => (ccfuel e + 4 + fold_right (fun x a => S (yfuel x + a)) 1%nat b)%nat
  | YIf e b os el =>
      (ccfuel e + 6 + fold_right (fun x a => S (yfuel x + a)) 1%nat b
       + fold_right (fun p a => (ccfuel (fst p) + 6 + fold_right (fun x a => S (yfuel x + a)) 1%nat (snd p) + a)%nat) 2%nat os
       + match el with Some x => (6 + fold_right (fun x a => S (yfuel x + a)) 1%nat x)%nat | None => 2%nat end)%nat
  | YIter ids e b => (ccfuel e + 40 + fold_right (fun x a => S (yfuel x + a)) 1%nat b)%nat
  | YThrow c args => (list_max (map ccfuel args) + length args + 4)%nat
  | YBreak | YContinue => 2%nat
  | YFunc n ins b cs =>
      (8 + length ins + fold_right (fun x a => S (yfuel x + a)) 1%nat b
       + fold_right (fun c a => (4 + fold_right (fun x a => S (yfuel x + a)) 1%nat (snd c) + a)%nat) 1%nat cs)%nat
  end.
Definition ybfuel (b : list ystmt) : nat := fold_right (fun x a => S (yfuel x + a)) 1%nat b.
Definition yofuel (os : list (cx * list ystmt)) : nat :=
  fold_right (fun p a => (ccfuel (fst p) + 6 + ybfuel (snd p) + a)%nat) 2%nat os.
Definition yefuel (el : option (list ystmt)) : nat := match el with Some x => (6 + ybfuel x)%nat | None => 2%nat end.
Definition ycfuel (cs : list (lit * list ystmt)) : nat := fold_right (fun c a => (4 + ybfuel (snd c) + a)%nat) 1%nat cs.
Definition yxfuel (ins : list lit) (b : list ystmt) (cs : list (lit * list ystmt)) : nat :=
  (4 + length ins + ybfuel b + ycfuel cs)%nat.
Lemma ybfuel_cons : forall x r, ybfuel (x :: r) = S (yfuel x + ybfuel r). Proof. reflexivity. Qed.
Lemma yofuel_cons : forall p r, yofuel (p :: r) = (ccfuel (fst p) + 6 + ybfuel (snd p) + yofuel r)%nat. Proof. reflexivity. Qed.
Lemma ycfuel_cons : forall c r, ycfuel (c :: r) = (4 + ybfuel (snd c) + ycfuel r)%nat. Proof. reflexivity. Qed.
Lemma yfuel_while : forall e b, yfuel (YWhile e b) = (ccfuel e + 4 + ybfuel b)%nat. Proof. reflexivity. Qed.
Lemma yfuel_if : forall e b os el, yfuel (YIf e b os el) = (ccfuel e + 6 + ybfuel b + yofuel os + yefuel el)%nat. Proof. reflexivity. Qed.
Lemma yfuel_iter : forall ids e b, yfuel (YIter ids e b) = (ccfuel e + 40 + ybfuel b)%nat. Proof. reflexivity. Qed.
Lemma yfuel_func : forall n ins b cs, yfuel (YFunc n ins b cs) = (4 + yxfuel ins b cs)%nat. Proof. reflexivity. Qed.

(* ================================================================== first tokens of lines *)
Definition yheads : list Z :=
  sheads ++ [g_TypeFuncW; g_TypeVarOneW; g_TypeIteratorW; g_TypeThrowErrorW; g_TypeBreakW; g_TypeContinueW].
Lemma yheads_facts : forall ty, mem ty yheads = true -> shead_spec ty.
Proof.
  intros ty H. apply mem_in in H. unfold yheads, sheads in H. cbn [app] in H.
  repeat (destruct H as [H|H]; [subst ty; constructor; reflexivity|]). destruct H.
Qed.
Lemma mem_yheads : forall ty, mem ty sheads = true -> mem ty yheads = true.
Proof. intros ty H. unfold yheads, mem. rewrite existsb_app. unfold mem in H. rewrite H. reflexivity. Qed.

Lemma ylines_head : forall d s, exists t ts sm r, ylines d s = (d, t :: ts, sm) :: r /\ mem (fst t) yheads = true.
Proof.
  intros d s. destruct s as [e|e|xs e|e b|e b os el|ids e b|c args| | |n ins b cs]; cbn [ylines].
  - destruct (cshow_head e) as (t & ts & E & ST). rewrite E. eexists _, _, _, _.
    split; [reflexivity|apply mem_yheads; apply starter2_shead; exact ST].
  - eexists _, _, _, _. split; reflexivity.
  - eexists _, _, _, _. split; reflexivity.
  - eexists _, _, _, _. split; reflexivity.
  - eexists _, _, _, _. split; reflexivity.
  - destruct ids as [|k ids]; cbn [iter_hdr app]; eexists _, _, _, _; split; reflexivity.
  - eexists _, _, _, _. split; reflexivity.
  - eexists _, _, _, _. split; reflexivity.
  - eexists _, _, _, _. split; reflexivity.
  - eexists _, _, _, _. split; reflexivity.
Qed.

Lemma yblines_head : forall d b, b <> [] ->
  exists t ts sm r, yblines d b = (d, t :: ts, sm) :: r /\ mem (fst t) yheads = true.
Proof.
  intros d b N. destruct b as [|s b]; [congruence|]. cbn [yblines flat_map].
  destruct (ylines_head d s) as (t & ts & sm & r & E & M). rewrite E. cbn [app]. eexists _, _, _, _. split; [reflexivity|exact M].
Qed.

(* heads of the lines of an exec block after the input line: statements and 拦截 *)
Definition xheads : list Z := yheads ++ [g_TypeCatchErrorW].
Record xhead_spec (ty : Z) : Prop := mk_xhead {
  xh_comma : (ty =? g_TypeCommaSep) = false;
  xh_eof : (ty =? g_TypeEOF) = false;
  xh_br : mem ty [g_TypeCondElseW; g_TypeCondOtherW] = false;
  xh_imp : mem ty [g_TypeImportW] = false;
  xh_inp : mem ty [g_TypeInputW] = false }.
Lemma xheads_facts : forall ty, mem ty xheads = true -> xhead_spec ty.
Proof.
  intros ty H. apply mem_in in H. unfold xheads, yheads, sheads in H. cbn [app] in H.
  repeat (destruct H as [H|H]; [subst ty; constructor; reflexivity|]). destruct H.
Qed.
Lemma mem_xheads : forall ty, mem ty yheads = true -> mem ty xheads = true.
Proof. intros ty H. unfold xheads, mem. rewrite existsb_app. unfold mem in H. rewrite H. reflexivity. Qed.

Lemma bc_head : forall d b cs, b <> [] \/ cs <> [] ->
  exists t ts sm r, yblines d b ++ yclines d cs = (d, t :: ts, sm) :: r /\ mem (fst t) xheads = true.
Proof.
  intros d b cs N. destruct b as [|s b'].
  - destruct cs as [|c cs']; [destruct N; congruence|]. cbn [yblines flat_map app yclines].
    eexists _, _, _, _. split; reflexivity.
  - destruct (yblines_head d (s :: b') ltac:(discriminate)) as (t & ts & sm & r & E & M). rewrite E. cbn [app].
    eexists _, _, _, _. split; [reflexivity|apply mem_xheads; exact M].
Qed.

(* ================================================================== small facts on the parser monad *)
Lemma tc_none_flag : forall valid st tk, p2 st = Some tk -> (t_ty tk =? g_TypeCommaSep) = false -> flag st = true ->
  tc valid st = Ok None st.
Proof. intros valid st tk P C F. unfold tc. rewrite P, C. unfold try_tail. rewrite P, F. reflexivity. Qed.

Lemma endblk_mono : forall d d' st, d <= d' -> endblk d st -> endblk d' st.
Proof. intros d d' st L (tk & P & C & H). exists tk. split; [exact P|]. split; [exact C|]. destruct H; [left; auto|right; lia]. Qed.

Lemma folS_same : forall d st tk, peek_indent st = d -> p2 st = Some tk -> (t_ty tk =? g_TypeCommaSep) = false ->
  mem (t_ty tk) [g_TypeCondElseW; g_TypeCondOtherW] = false -> folS d st.
Proof. intros d st tk PI P C B. exists tk. split; [exact P|]. split; [exact C|]. right. right. auto. Qed.

(* the flag stays down over ？ (and ：) when a token other than the end of the text follows *)
Lemma p_next_keep : forall ty l st st' tk', headok (ty, l) st ->
  mem ty [g_TypeCommaSep; g_TypePauseCommaSep; g_TypeStmtQuoteL; g_TypeArrayQuoteL; g_TypeFuncCall; g_TypeFuncDeclare] = true ->
  p_next st = Ok tt st' -> p2 st' = Some tk' -> (t_ty tk' =? g_TypeEOF) = false -> flag st' = false.
Proof.
  intros ty l st st' tk' (Hf & tk & P & Ty & _) M PN P' NE. cbn [fst] in Ty. unfold p_next in PN.
  destruct (lex_skip_comments (S (length (rest (lx st)))) (lx st)) as [tk2 l'| | |]; try discriminate.
  cbv zeta in PN. unfold meet_line_break in PN. cbn [p1 p2 el1 sl2] in PN. rewrite P in PN.
  assert (E1 : (t_ty tk =? g_TypeEOF) = false).
  { rewrite Ty. pose proof M as M0. apply mem_in in M0. clear - M0.
    repeat (destruct M0 as [M0|M0]; [rewrite <- M0; reflexivity|]). destruct M0. }
  rewrite E1, Ty, M in PN. cbn [orb] in PN.
  destruct (t_ty tk2 =? g_TypeEOF) eqn:E2.
  - cbv iota in PN. inversion PN; subst st'. cbn [p2] in P'. inversion P'; subst tk'. rewrite E2 in NE. discriminate.
  - cbv iota in PN. match type of PN with context [Z.ltb ?a ?b] => destruct (Z.ltb a b) end; cbv iota in PN;
      inversion PN; subst st'; exact Hf.
Qed.

(* identifier lists: parsePauseCommaList of parseID *)
Lemma idlist_run : forall xs, xs <> [] -> forall F acc st st', (length xs <= F)%nat -> feeds (idlist xs) st st' ->
  tc [g_TypePauseCommaSep] st' = Ok None st' -> parse F (NIdList acc) st = Ok (acc ++ xs) st'.
Proof.
  induction xs as [|x r IH]; [congruence|]. intros _ F acc st st' LF FE TN.
  destruct F as [|f]; [cbn in LF; lia|]. destruct r as [|y r'].
  - cbn [idlist] in FE. apply feeds_one in FE. destruct FE as (HX & PN).
    cbn [parse]. stepb (parse_id_take _ _ _ HX PN). stepb TN. reflexivity.
  - rewrite idlist_cons2 in FE. apply feeds_cons in FE. destruct FE as (HX & s1 & PN & FE).
    apply feeds_cons in FE. destruct FE as (HP & s2 & PN2 & FE).
    destruct (tc_take [g_TypePauseCommaSep] _ _ _ _ HP PN2 eq_refl eq_refl) as (tk & T & _).
    cbn [parse]. stepb (parse_id_take _ _ _ HX PN). stepb T.
    pose proof (IH ltac:(discriminate) f (acc ++ [x]) s2 st' ltac:(cbn [length] in *; lia) FE TN) as PI.
    rewrite <- app_assoc in PI. exact PI.
Qed.

Lemma idlist_head : forall x r, exists ts, idlist (x :: r) = idt x :: ts.
Proof. intros x r. destruct r; cbn [idlist]; eauto. Qed.

(* ================================================================== the statements proved by induction *)
Definition YStmtP (s : ystmt) : Prop :=
  ywf s = true -> forall d F st st', (yfuel s <= F)%nat -> lfeeds (ylines d s) st st' -> bind_ st = Z.of_nat d ->
    folS (Z.of_nat d) st' ->
    flag st' = true /\ exists b', parse F NStmt st = Ok (yast s) (setb st' b').

Definition YBlkP (b : list ystmt) : Prop :=
  forall d F st st' acc, (ybfuel b <= F)%nat -> lfeeds (yblines d b) st st' -> endblk (Z.of_nat d) st' ->
    (b <> [] -> flag st' = true) /\
    exists b', parse F (NBlock (Z.of_nat d) acc) st = Ok (acc ++ map yast b) (setb st' b').

Lemma yblk_of_stmts : forall b, Forall YStmtP b -> forallb ywf b = true -> YBlkP b.
Proof.
  intros b H. induction H as [|s r Hs Hr IH]; intros W d F st st' acc LF L EB.
  - cbn [yblines flat_map] in L. inversion L; subst. split; [congruence|]. exists (bind_ st'). rewrite setb_same.
    destruct F as [|f]; [cbn in LF; lia|]. cbn [parse]. rewrite (bgo_false _ _ EB). cbn [map]. rewrite app_nil_r. reflexivity.
  - cbn [forallb] in W. apply andb_true_iff in W. destruct W as [Ws Wr].
    cbn [yblines flat_map] in L. fold (yblines d r) in L. apply lfeeds_app in L. destruct L as (stm & L1 & L2).
    destruct (ylines_head d s) as (t & ts & sm & rr & E & MH). pose proof (yheads_facts _ MH) as SH.
    assert (HD : peek_indent st = Z.of_nat d /\ exists tk, p2 st = Some tk /\ t_ty tk = fst t /\ text_of tk = snd t).
    { rewrite E in L1. eapply lfeeds_hd; eauto. }
    destruct HD as (PI & tk & P2 & Ty & _).
    assert (FO : folS (Z.of_nat d) stm).
    { destruct r as [|s2 r'].
      - cbn [yblines flat_map] in L2. inversion L2; subst. apply endblk_folS. exact EB.
      - destruct (yblines_head d (s2 :: r') ltac:(discriminate)) as (t2 & ts2 & sm2 & r2 & E2 & M2).
        rewrite E2 in L2. destruct (lfeeds_hd _ _ _ _ _ _ _ L2) as (PI2 & tk2 & P22 & Ty2 & _).
        apply (folS_of_hd _ _ tk2); auto. rewrite Ty2. apply yheads_facts. exact M2. }
    destruct F as [|f]; [cbn in LF; lia|]. rewrite ybfuel_cons in LF.
    assert (L1' : lfeeds (ylines d s) (setb st (Z.of_nat d)) (setb stm (Z.of_nat d))).
    { rewrite E in *. apply (lfeeds_reb _ _ _ _ (flag st) (Z.of_nat d)) in L1. exact L1. }
    destruct (Hs Ws d f (setb st (Z.of_nat d)) (setb stm (Z.of_nat d)) ltac:(lia) L1' eq_refl FO) as (FL & b1 & PS).
    change (setb (setb stm (Z.of_nat d)) b1) with (setb stm b1) in PS.
    assert (L2' : lfeeds (yblines d r) (setb stm b1) (setb st' b1)) by (apply lfeeds_setb; exact L2).
    destruct (IH Wr d f (setb stm b1) (setb st' b1) (acc ++ [yast s]) ltac:(lia) L2' EB) as (FL2 & b2 & PB).
    change (setb (setb st' b1) b2) with (setb st' b2) in PB.
    split.
    { intros _. destruct r as [|s2 r'].
      - cbn [yblines flat_map] in L2. inversion L2; subst. exact FL.
      - apply (FL2 ltac:(discriminate)). }
    exists b2. cbn [parse].
    rewrite (bgo_true _ _ tk P2 ltac:(rewrite Ty; destruct SH; assumption) PI).
    stepb (set_bind_reb (Z.of_nat d) st). stepb PS. cbn [map]. rewrite <- app_assoc in PB. exact PB.
Qed.

(* ------------------------------------------------------------------ one-line statements *)
Lemma ystmt_expr : forall e, YStmtP (YExpr e).
Proof.
  intros e W d F st st' LF L B FO. cbn [ywf] in W. cbn [ylines] in L. cbn [yfuel] in LF.
  destruct (line1 _ _ _ _ _ L) as (PI & FE & FL). specialize (FL eq_refl).
  split; [exact FL|]. exists (bind_ st'). rewrite setb_same.
  destruct F as [|f]; [lia|]. cbn [parse yast]. stepb (set_flag_reb false st).
  destruct (cshow_head e) as (t & ts & E & ST). pose proof FE as FE0. rewrite E in FE0. apply feeds_head in FE0.
  destruct (starter2_facts t ST) as [C _ _ _ _ _ MS _ _ _ _ _]. destruct t as [ty l].
  stepb (tc_none_head stmt_types ty l _ FE0 C MS).
  stepb (expr_run_flag e f _ st' _ W ltac:(lia) FE FL FO).
  stepb (stmt_done_flag st' FL). reflexivity.
Qed.

Lemma ystmt_out : forall e, YStmtP (YOut e).
Proof.
  intros e W d F st st' LF L B FO. cbn [ywf] in W. cbn [ylines] in L. cbn [yfuel] in LF.
  destruct (line1 _ _ _ _ _ L) as (PI & FE & FL). specialize (FL eq_refl).
  split; [exact FL|]. exists (bind_ st'). rewrite setb_same.
  apply feeds_cons in FE. destruct FE as (HO & s0a & PN & FE).
  destruct (tc_take stmt_types _ _ _ _ HO PN eq_refl eq_refl) as (tk & T & Ty & _).
  destruct F as [|f]; [lia|]. cbn [parse yast]. stepb (set_flag_reb false st). stepb T. cbv zeta. rewrite Ty.
  zsimp. cbv iota.
  unfold bind at 1. unfold bind at 1. rewrite (expr_run_flag e f _ st' _ W ltac:(lia) FE FL FO). cbv beta iota.
  unfold ret at 1. stepb (stmt_done_flag st' FL). reflexivity.
Qed.

Lemma ystmt_let : forall xs e, YStmtP (YLet xs e).
Proof.
  intros xs e W d F st st' LF L B FO. cbn [ywf] in W. cbn [ylines] in L. cbn [yfuel] in LF.
  apply andb_true_iff in W. destruct W as [Nx W]. apply nonnil_ne in Nx.
  destruct (line1 _ _ _ _ _ L) as (PI & FE & FL). specialize (FL eq_refl).
  split; [exact FL|]. exists (bind_ st'). rewrite setb_same.
  apply feeds_cons in FE. destruct FE as (HO & s0a & PN & FE).
  apply feeds_app in FE. destruct FE as (s0b & FEI & FE).
  apply feeds_cons in FE. destruct FE as (HA & s0c & PNA & FE).
  destruct (tc_take stmt_types _ _ _ _ HO PN eq_refl eq_refl) as (tk & T & Ty & _).
  assert (HX : headok (g_TypeIdentifier, hd [] xs) s0a).
  { destruct xs as [|x r]; [congruence|]. destruct (idlist_head x r) as (ts & E). rewrite E in FEI.
    apply feeds_head in FEI. exact FEI. }
  destruct F as [|[|[|f]]]; try lia.
  assert (PI0 : parse f (NIdList []) s0a = Ok xs s0b).
  { apply (idlist_run xs Nx f [] s0a s0b ltac:(lia) FEI).
    apply (tc_none_head [g_TypePauseCommaSep] _ _ _ HA eq_refl eq_refl). }
  assert (PP : parse (S f) NVDPair s0a = Ok (1, xs, cast e) st').
  { cbn [parse]. stepb PI0.
    destruct (tc_take [g_TypeAssignW; g_TypeAssignMark; g_TypeAssignConstW] _ _ _ _ HA PNA eq_refl eq_refl) as (tk2 & T2 & Ty2 & _).
    stepb T2. stepb (expr_run_flag e f _ st' _ W ltac:(lia) FE FL FO). rewrite Ty2. reflexivity. }
  assert (PV : parse (S (S f)) NVarDecl s0a = Ok (SVarDecl [(1, xs, cast e)]) st').
  { remember (S f) as g eqn:Eg. cbn [parse]. stepb (tc_none_head [g_TypeFuncCall] _ _ _ HX eq_refl eq_refl). stepb PP. reflexivity. }
  remember (S (S f)) as g eqn:Eg.
  cbn [parse yast]. stepb (set_flag_reb false st). stepb T. cbv zeta. rewrite Ty.
  zsimp. cbv iota. stepb PV. stepb (stmt_done_flag st' FL). reflexivity.
Qed.

Lemma ystmt_break : YStmtP YBreak.
Proof.
  intros W d F st st' LF L B FO. cbn [ylines] in L. cbn [yfuel] in LF.
  destruct (line1 _ _ _ _ _ L) as (PI & FE & FL). specialize (FL eq_refl).
  split; [exact FL|]. exists (bind_ st'). rewrite setb_same.
  apply feeds_one in FE. destruct FE as (HO & PN).
  destruct (tc_take stmt_types _ _ _ _ HO PN eq_refl eq_refl) as (tk & T & Ty & _).
  destruct F as [|f]; [lia|]. cbn [parse yast]. stepb (set_flag_reb false st). stepb T. cbv zeta. rewrite Ty.
  zsimp. cbv iota. unfold bind at 1. unfold ret at 1. cbv beta iota. stepb (stmt_done_flag st' FL). reflexivity.
Qed.

Lemma ystmt_continue : YStmtP YContinue.
Proof.
  intros W d F st st' LF L B FO. cbn [ylines] in L. cbn [yfuel] in LF.
  destruct (line1 _ _ _ _ _ L) as (PI & FE & FL). specialize (FL eq_refl).
  split; [exact FL|]. exists (bind_ st'). rewrite setb_same.
  apply feeds_one in FE. destruct FE as (HO & PN).
  destruct (tc_take stmt_types _ _ _ _ HO PN eq_refl eq_refl) as (tk & T & Ty & _).
  destruct F as [|f]; [lia|]. cbn [parse yast]. stepb (set_flag_reb false st). stepb T. cbv zeta. rewrite Ty.
  zsimp. cbv iota. unfold bind at 1. unfold ret at 1. cbv beta iota. stepb (stmt_done_flag st' FL). reflexivity.
Qed.

(* ------------------------------------------------------------------ header lines:  ... ： + indented block *)
Lemma ycolon_block : forall b d f s0b st1 st', b <> [] -> YBlkP b -> headok tColon s0b -> p_next s0b = Ok tt st1 ->
  lfeeds (yblines (S d) b) st1 st' -> endblk (Z.of_nat (S d)) st' -> (ybfuel b <= f)%nat ->
  consume [g_TypeFuncCall] s0b = Ok tt st1 /\ expect_block_indent (Z.of_nat d) st1 = Ok (Some (Z.of_nat (S d))) st1 /\
  flag st' = true /\ exists b', parse f (NBlock (Z.of_nat (S d)) []) st1 = Ok (map yast b) (setb st' b').
Proof.
  intros b d f s0b st1 st' N HB HC PC LB EB LF.
  split; [exact (consume_take _ _ _ _ HC PC eq_refl)|].
  destruct (yblines_head (S d) b N) as (t & ts & sm & r & E & M).
  pose proof LB as LB0. rewrite E in LB0. destruct (lfeeds_hd _ _ _ _ _ _ _ LB0) as (PI & _).
  split; [apply ebi_ok; exact PI|].
  destruct (HB (S d) f st1 st' [] LF LB EB) as (FL & b' & PB). split; [exact (FL N)|]. exists b'. exact PB.
Qed.

Lemma ystmt_while : forall e b, Forall YStmtP b -> YStmtP (YWhile e b).
Proof.
  intros e b HB W d F st st' LF L B FO. cbn [ywf] in W.
  apply andb_true_iff in W. destruct W as [W Wb]. apply andb_true_iff in W. destruct W as [We Nb].
  apply nonnil_ne in Nb. pose proof (yblk_of_stmts b HB Wb) as BP.
  rewrite ylines_while in L. rewrite yfuel_while in LF.
  inversion L as [|d0 ts0 sm0 rest s0 st1 s2 PI FE _ LB]; subst.
  pose proof (feeds_bind _ _ _ FE) as BD. cbn [reb bind_] in BD. rewrite B in BD.
  apply feeds_cons in FE. destruct FE as (HO & s0a & PN & FE).
  apply feeds_app in FE. destruct FE as (s0b & FE3 & FE4). apply feeds_one in FE4. destruct FE4 as (HC & PC).
  destruct (tc_take stmt_types _ _ _ _ HO PN eq_refl eq_refl) as (tk & T & Ty & _).
  destruct F as [|[|f]]; try lia.
  destruct (ycolon_block b d f s0b st1 st' Nb BP HC PC LB (folS_endblkS _ _ FO) ltac:(lia)) as (CO & EBI & FL & b' & PB).
  split; [exact FL|]. exists b'.
  assert (PW : parse (S f) NWhile s0a = Ok (SWhile (cast e) (map yast b)) (setb st' b')).
  { cbn [parse]. stepb (expr_run_colon e f _ _ We ltac:(lia) FE3 HC). stepb CO. stepb (get_bind_eq st1).
    rewrite BD. stepb EBI. stepb PB. reflexivity. }
  remember (S f) as g eqn:Eg.
  cbn [parse yast]. stepb (set_flag_reb false st). stepb T. cbv zeta. rewrite Ty.
  zsimp. cbv iota. stepb PW. stepb (stmt_done_flag (setb st' b') FL). reflexivity.
Qed.

(* ------------------------------------------------------------------ 遍历 *)
Lemma iter_rest : forall ids e b d f s0a st1 st' s0b, cwf e = true -> b <> [] -> YBlkP b ->
  feeds (cshow e) s0a s0b -> headok tColon s0b -> p_next s0b = Ok tt st1 -> bind_ st1 = Z.of_nat d ->
  lfeeds (yblines (S d) b) st1 st' -> endblk (Z.of_nat (S d)) st' -> (ccfuel e + ybfuel b + 1 <= f)%nat ->
  flag st' = true /\ exists b', parse f (NIterRest ids) s0a = Ok (SIterate (cast e) ids (map yast b)) (setb st' b').
Proof.
  intros ids e b d f s0a st1 st' s0b We Nb BP FE3 HC PC BD LB EB LF.
  destruct f as [|f]; [lia|].
  destruct (ycolon_block b d f s0b st1 st' Nb BP HC PC LB EB ltac:(lia)) as (CO & EBI & FL & b' & PB).
  split; [exact FL|]. exists b'.
  cbn [parse]. stepb (expr_run_colon e f _ _ We ltac:(lia) FE3 HC). stepb CO. stepb (get_bind_eq st1).
  rewrite BD. stepb EBI. stepb PB. reflexivity.
Qed.

Lemma stopbS_iter : stopbS 6 g_TypeIteratorW = true /\ stopbS 6 g_TypePauseCommaSep = true /\ stopbS 6 g_TypeExceptionT = true.
Proof. repeat split; vm_compute; reflexivity. Qed.

Lemma id_expr : forall v f st st' ty l, headok (idt v) st -> p_next st = Ok tt st' -> headok (ty, l) st' -> stopbS 6 ty = true ->
  (30 <= f)%nat -> parse f (NExpr false) st = Ok (EId v) st'.
Proof.
  intros v f st st' ty l HO PN HN SB LF.
  apply (parse_cshow_tokens_gen (XId v) false f st st' st' eq_refl LF).
  - cbn [cshow]. apply feeds_one. split; assumption.
  - apply stopsG_refl. eapply headok_stopsS; eauto.
Qed.

Lemma ystmt_iter : forall ids e b, Forall YStmtP b -> YStmtP (YIter ids e b).
Proof.
  intros ids e b HB W d F st st' LF L B FO. cbn [ywf] in W.
  apply andb_true_iff in W. destruct W as [W Wb]. apply andb_true_iff in W. destruct W as [W Nb].
  apply andb_true_iff in W. destruct W as [Wi We]. apply Nat.leb_le in Wi.
  apply nonnil_ne in Nb. pose proof (yblk_of_stmts b HB Wb) as BP.
  rewrite ylines_iter in L. rewrite yfuel_iter in LF.
  inversion L as [|d0 ts0 sm0 rest s0 st1 s2 PI FE _ LB]; subst.
  pose proof (feeds_bind _ _ _ FE) as BD. cbn [reb bind_] in BD. rewrite B in BD.
  pose proof (folS_endblkS _ _ FO) as EB.
  destruct ids as [|k [|v [|w ids]]]; [| | |cbn [length] in Wi; lia]; cbn [iter_hdr idlist app] in FE.
  - (* 遍历 e ： *)
    apply feeds_cons in FE. destruct FE as (HO & s0a & PN & FE).
    apply feeds_app in FE. destruct FE as (s0b & FE3 & FE4). apply feeds_one in FE4. destruct FE4 as (HC & PC).
    destruct (tc_take stmt_types _ _ _ _ HO PN eq_refl eq_refl) as (tk & T & Ty & _).
    destruct F as [|f]; [lia|].
    destruct (iter_rest [] e b d f s0a st1 st' s0b We Nb BP FE3 HC PC BD LB EB ltac:(lia)) as (FL & b' & PR).
    split; [exact FL|]. exists b'.
    cbn [parse yast]. stepb (set_flag_reb false st). stepb T. cbv zeta. rewrite Ty.
    zsimp. cbv iota. stepb PR. stepb (stmt_done_flag (setb st' b') FL). reflexivity.
  - (* 以 V 遍历 e ： *)
    apply feeds_cons in FE. destruct FE as (HO & s0a & PN & FE).
    apply feeds_cons in FE. destruct FE as (HV & s0v & PNV & FE).
    apply feeds_cons in FE. destruct FE as (HI & s0i & PNI & FE).
    apply feeds_app in FE. destruct FE as (s0b & FE3 & FE4). apply feeds_one in FE4. destruct FE4 as (HC & PC).
    destruct (tc_take stmt_types _ _ _ _ HO PN eq_refl eq_refl) as (tk & T & Ty & _).
    destruct (tc_take [g_TypeIteratorW; g_TypeFuncQuoteL] _ _ _ _ HI PNI eq_refl eq_refl) as (tk2 & T2 & Ty2 & _).
    destruct F as [|[|f]]; try lia.
    destruct (iter_rest [k] e b d f s0i st1 st' s0b We Nb BP FE3 HC PC BD LB EB ltac:(lia)) as (FL & b' & PR).
    split; [exact FL|]. exists b'.
    assert (PV : parse (S f) NVarOne s0a = Ok (SIterate (cast e) [k] (map yast b)) (setb st' b')).
    { cbn [parse]. stepb (id_expr k f s0a s0v _ _ HV PNV HI (proj1 stopbS_iter) ltac:(lia)).
      stepb T2. rewrite Ty2. zsimp. cbv iota. exact PR. }
    remember (S f) as g eqn:Eg.
    cbn [parse yast]. stepb (set_flag_reb false st). stepb T. cbv zeta. rewrite Ty.
    zsimp. cbv iota. stepb PV. stepb (stmt_done_flag (setb st' b') FL). reflexivity.
  - (* 以 K 、 V 遍历 e ： *)
    apply feeds_cons in FE. destruct FE as (HO & s0a & PN & FE).
    apply feeds_cons in FE. destruct FE as (HK & s0k & PNK & FE).
    apply feeds_cons in FE. destruct FE as (HP & s0p & PNP & FE).
    apply feeds_cons in FE. destruct FE as (HV & s0v & PNV & FE).
    apply feeds_cons in FE. destruct FE as (HI & s0i & PNI & FE).
    apply feeds_app in FE. destruct FE as (s0b & FE3 & FE4). apply feeds_one in FE4. destruct FE4 as (HC & PC).
    destruct (tc_take stmt_types _ _ _ _ HO PN eq_refl eq_refl) as (tk & T & Ty & _).
    destruct (tc_take [g_TypeIteratorW] _ _ _ _ HI PNI eq_refl eq_refl) as (tk2 & T2 & Ty2 & _).
    destruct F as [|[|f]]; try lia.
    destruct (iter_rest [k; v] e b d f s0i st1 st' s0b We Nb BP FE3 HC PC BD LB EB ltac:(lia)) as (FL & b' & PR).
    split; [exact FL|]. exists b'.
    assert (PV : parse (S f) NVarOne s0a = Ok (SIterate (cast e) [k; v] (map yast b)) (setb st' b')).
    { cbn [parse]. stepb (id_expr k f s0a s0k _ _ HK PNK HP (proj1 (proj2 stopbS_iter)) ltac:(lia)).
      stepb (tc_none_head [g_TypeIteratorW; g_TypeFuncQuoteL] _ _ _ HP eq_refl eq_refl).
      stepb (consume_take _ _ _ _ HP PNP eq_refl).
      stepb (id_expr v f s0p s0v _ _ HV PNV HI (proj1 stopbS_iter) ltac:(lia)).
      stepb T2. exact PR. }
    remember (S f) as g eqn:Eg.
    cbn [parse yast]. stepb (set_flag_reb false st). stepb T. cbv zeta. rewrite Ty.
    zsimp. cbv iota. stepb PV. stepb (stmt_done_flag (setb st' b') FL). reflexivity.
Qed.

(* ------------------------------------------------------------------ 抛出 X ： e1 、 e2 ！ *)
Lemma targ_items : forall l, l <> [] -> forallb cwf l = true ->
  forall F acc st st1, (list_max (map ccfuel l) + length l <= F)%nat ->
    feeds (sepcat tPause (map cshow l)) st st1 -> headok (kwt g_TypeExceptionT) st1 ->
    parse F (NExprList acc) st = Ok (acc ++ map cast l) st1.
Proof.
  induction l as [|x r IH]; [congruence|]. intros _ W F acc st st1 LF FE HOF.
  cbn [forallb] in W. apply andb_true_iff in W. destruct W as [Wx Wr].
  cbn [map length] in LF. rewrite list_max_cons in LF.
  destruct F as [|f]; [lia|]. destruct r as [|y r'].
  - cbn [map sepcat] in FE. cbn [parse].
    stepb (parse_cshow_tokens_gen x false f st st1 st1 Wx ltac:(lia) FE
             (stopsG_refl _ _ (headok_stopsS 6 _ _ _ HOF (proj2 (proj2 stopbS_iter))))).
    stepb (tc_none_head [g_TypePauseCommaSep] _ _ st1 HOF eq_refl eq_refl). reflexivity.
  - cbn [map] in FE. rewrite sepcat_cons2 in FE.
    apply feeds_app in FE. destruct FE as (stx & FX & FE).
    apply feeds_cons in FE. destruct FE as (HOC & stc & PNC & FE).
    cbn [parse].
    stepb (parse_cshow_tokens_gen x false f st stx stx Wx ltac:(lia) FX
             (stopsG_refl _ _ (headok_stopsS 6 _ _ _ HOC (proj1 (proj2 stopbS_iter))))).
    destruct (tc_take [g_TypePauseCommaSep] _ _ _ _ HOC PNC eq_refl eq_refl) as (tk & T & _).
    stepb T.
    pose proof (IH ltac:(discriminate) Wr f (acc ++ [cast x]) stc st1 ltac:(cbn [map length] in *; lia) FE HOF) as PI.
    rewrite <- app_assoc in PI. exact PI.
Qed.

Lemma ystmt_throw : forall c args, YStmtP (YThrow c args).
Proof.
  intros c args W d F st st' LF L B FO. cbn [ywf] in W. cbn [ylines] in L. cbn [yfuel] in LF.
  apply andb_true_iff in W. destruct W as [Na W]. apply nonnil_ne in Na.
  destruct (line1 _ _ _ _ _ L) as (PI & FE & FL). specialize (FL eq_refl).
  split; [exact FL|]. exists (bind_ st'). rewrite setb_same.
  apply feeds_cons in FE. destruct FE as (HO & s0a & PN & FE).
  apply feeds_cons in FE. destruct FE as (HX & s0x & PNX & FE).
  apply feeds_cons in FE. destruct FE as (HC & s0c & PNC & FE).
  apply feeds_app in FE. destruct FE as (s0b & FE3 & FE4). apply feeds_one in FE4. destruct FE4 as (HE & PE).
  destruct (tc_take stmt_types _ _ _ _ HO PN eq_refl eq_refl) as (tk & T & Ty & _).
  destruct F as [|[|f]]; try lia.
  assert (PT : parse (S f) NThrow s0a = Ok (SThrow c (map cast args)) st').
  { cbn [parse]. stepb (parse_id_take _ _ _ HX PNX). stepb (consume_take _ _ _ _ HC PNC eq_refl).
    stepb (targ_items args Na W f [] s0c s0b ltac:(lia) FE3 HE). stepb (consume_take _ _ _ _ HE PE eq_refl). reflexivity. }
  remember (S f) as g eqn:Eg.
  cbn [parse yast]. stepb (set_flag_reb false st). stepb T. cbv zeta. rewrite Ty.
  zsimp. cbv iota. stepb PT. stepb (stmt_done_flag st' FL). reflexivity.
Qed.

(* ------------------------------------------------------------------ 如果 ... 再如 ... 否则 *)
Definition yelseB (el : option (list ystmt)) : option (list stmt) := match el with Some x => Some (map yast x) | None => None end.
Definition yhasElse (el : option (list ystmt)) : bool := match el with Some _ => true | None => false end.

Lemma yafter_block_endblk : forall d os el stm st', lfeeds (yolines d os ++ yelines d el) stm st' ->
  folS (Z.of_nat d) st' -> endblk (Z.of_nat (S d)) stm.
Proof.
  intros d os el stm st' L FO. destruct os as [|[e2 b2] os'].
  - cbn [yolines flat_map app] in L. destruct el as [x|]; cbn [yelines] in L.
    + destruct (lfeeds_hd _ _ _ _ _ _ _ L) as (PI & tk & P & Ty & _). cbn [kwt fst] in Ty.
      apply (endblk_of_hd d stm tk PI P). rewrite Ty. reflexivity.
    + inversion L; subst. apply folS_endblkS. exact FO.
  - cbn [yolines flat_map app fst snd] in L.
    destruct (lfeeds_hd _ _ _ _ _ _ _ L) as (PI & tk & P & Ty & _). cbn [kwt fst] in Ty.
    apply (endblk_of_hd d stm tk PI P). rewrite Ty. reflexivity.
Qed.

Lemma ybranch_tail : forall os, Forall (fun p : cx * list ystmt => YBlkP (snd p)) os ->
  forallb (fun p : cx * list ystmt => cwf (fst p) && nonnil (snd p)) os = true ->
  forall el, match el with Some x => YBlkP x /\ x <> [] | None => True end ->
  forall d hs ifE ifB oE oB F st st', (hs = 1 \/ hs = 3) -> (yofuel os + yefuel el <= F)%nat ->
    lfeeds (yolines d os ++ yelines d el) st st' -> flag st = true -> folS (Z.of_nat d) st' ->
    flag st' = true /\
    exists b', parse F (NBranch (Z.of_nat d) hs ifE ifB oE oB) st
               = Ok (SBranch ifE ifB (yelseB el) (oE ++ map (fun p => cast (fst p)) os)
                             (oB ++ map (fun p => map yast (snd p)) os) (yhasElse el)) (setb st' b').
Proof.
  intros os HO. induction HO as [|p os Hp Hos IH]; intros W el HE d hs ifE ifB oE oB F st st' HS LF L FLs FO.
  - cbn [yolines flat_map app] in L. cbn [map]. rewrite !app_nil_r. destruct el as [x|].
    + destruct HE as (HB & Nx). cbn [yelines] in L. cbn [yofuel fold_right yefuel] in LF.
      inversion L as [|d0 ts0 sm0 rest s0 st1 s2 PI FE _ LB]; subst.
      apply feeds_cons in FE. destruct FE as (HK & s0b & PN & FE). apply feeds_one in FE. destruct FE as (HC & PC).
      destruct F as [|f]; [lia|].
      destruct (ycolon_block x d f s0b st1 st' Nx HB HC PC LB (folS_endblkS _ _ FO) ltac:(lia)) as (CO & EBI & FL & b' & PB).
      split; [exact FL|]. exists b'.
      destruct (tc_take [g_TypeCondElseW; g_TypeCondOtherW] _ _ _ _ HK PN eq_refl eq_refl) as (tk & T & Ty & _).
      destruct HK as (_ & tk0 & P0 & Ty0 & _). cbn [reb p2] in P0. cbn [kwt fst] in Ty0.
      cbn [parse]. cbv zeta. unfold peek_ty. rewrite P0. cbn [tok_ty]. rewrite Ty0, PI, (Z.eqb_refl (Z.of_nat d)).
      destruct HS as [HS|HS]; subst hs; zsimp; cbn [orb negb]; cbv iota;
        (stepb (set_flag_reb false st); stepb T; rewrite Ty; zsimp; cbv iota;
         unfold bind at 1; unfold ret at 1; cbv beta iota; stepb CO; stepb EBI; stepb PB; reflexivity).
    + cbn [yelines] in L. inversion L; subst. split; [exact FLs|]. exists (bind_ st').
      destruct F as [|f]; [cbn in LF; lia|].
      destruct FO as (tk & P & C & FO).
      cbn [parse]. cbv zeta. unfold peek_ty. rewrite P. cbn [tok_ty yelseB yhasElse].
      assert (DONE : ret (SBranch ifE ifB None oE oB false) st' = Ok (SBranch ifE ifB None oE oB false) (setb st' (bind_ st')))
        by (rewrite setb_same; reflexivity).
      destruct (t_ty tk =? g_TypeEOF) eqn:EO.
      { destruct HS as [HS|HS]; subst hs; zsimp; cbn [orb negb]; cbv iota; exact DONE. }
      destruct FO as [E|[Lt|[Eq M]]].
      * rewrite E in EO. discriminate.
      * assert (N : (peek_indent st' =? Z.of_nat d) = false) by (apply Z.eqb_neq; lia). rewrite N.
        destruct HS as [HS|HS]; subst hs; zsimp; cbn [orb negb]; cbv iota; exact DONE.
      * rewrite Eq, (Z.eqb_refl (Z.of_nat d)).
        destruct HS as [HS|HS]; subst hs; zsimp; cbn [orb negb]; cbv iota;
          (stepb (set_flag_reb false st');
           stepb (tc_none_p2 [g_TypeCondElseW; g_TypeCondOtherW] (reb st' false (bind_ st')) tk P eq_refl C M);
           stepb (set_flag_reb true (reb st' false (bind_ st'))); unfold ret, setb; rewrite FLs; reflexivity).
  - cbn [forallb] in W. apply andb_true_iff in W. destruct W as [Wp W]. apply andb_true_iff in Wp. destruct Wp as [We Np].
    apply nonnil_ne in Np. destruct p as [e b]. cbn [fst snd] in *.
    cbn [yolines flat_map] in L. fold (yolines d os) in L. cbn [fst snd] in L. rewrite <- app_assoc in L.
    cbn [app] in L. rewrite yofuel_cons in LF. cbn [fst snd] in LF.
    inversion L as [|d0 ts0 sm0 rest s0 st1 s2 PI FE _ LB]; subst.
    apply lfeeds_app in LB. destruct LB as (stm & LB & LR).
    apply feeds_cons in FE. destruct FE as (HK & s0a & PN & FE).
    apply feeds_app in FE. destruct FE as (s0b & FE3 & FE4). apply feeds_one in FE4. destruct FE4 as (HC & PC).
    pose proof (yafter_block_endblk _ _ _ _ _ LR FO) as EBm.
    destruct F as [|f]; [lia|].
    destruct (ycolon_block b d f s0b st1 stm Np Hp HC PC LB EBm ltac:(lia)) as (CO & EBI & FLm & b1 & PB).
    assert (LR' : lfeeds (yolines d os ++ yelines d el) (setb stm b1) (setb st' b1)) by (apply lfeeds_setb; exact LR).
    destruct (IH W el HE d 3 ifE ifB (oE ++ [cast e]) (oB ++ [map yast b]) f (setb stm b1) (setb st' b1)
                 (or_intror eq_refl) ltac:(lia) LR' FLm FO) as (FL & b2 & PR).
    change (setb (setb st' b1) b2) with (setb st' b2) in PR.
    split; [exact FL|]. exists b2.
    destruct (tc_take [g_TypeCondElseW; g_TypeCondOtherW] _ _ _ _ HK PN eq_refl eq_refl) as (tk & T & Ty & _).
    destruct HK as (_ & tk0 & P0 & Ty0 & _). cbn [reb p2] in P0. cbn [kwt fst] in Ty0.
    cbn [map]. rewrite <- !app_assoc in PR. cbn [app] in PR.
    cbn [parse]. cbv zeta. unfold peek_ty. rewrite P0. cbn [tok_ty]. rewrite Ty0, PI, (Z.eqb_refl (Z.of_nat d)).
    destruct HS as [HS|HS]; subst hs; zsimp; cbn [orb negb]; cbv iota;
      (stepb (set_flag_reb false st); stepb T; rewrite Ty; zsimp; cbv iota;
       unfold bind at 1; unfold bind at 1; rewrite (expr_run_colon e f _ _ We ltac:(lia) FE3 HC); cbv beta iota;
       unfold ret at 1; stepb CO; stepb EBI; stepb PB; exact PR).
Qed.

Lemma ystmt_if : forall e b os el, Forall YStmtP b -> Forall (fun p : cx * list ystmt => Forall YStmtP (snd p)) os ->
  match el with Some x => Forall YStmtP x | None => True end -> YStmtP (YIf e b os el).
Proof.
  intros e b os el HB HOS HEL W d F st st' LF L B FO. cbn [ywf] in W.
  apply andb_true_iff in W. destruct W as [W Wel]. apply andb_true_iff in W. destruct W as [W Wos].
  apply andb_true_iff in W. destruct W as [W Wb]. apply andb_true_iff in W. destruct W as [We Nb].
  apply nonnil_ne in Nb. pose proof (yblk_of_stmts b HB Wb) as BP.
  assert (BOS : Forall (fun p : cx * list ystmt => YBlkP (snd p)) os /\
                forallb (fun p : cx * list ystmt => cwf (fst p) && nonnil (snd p)) os = true).
  { clear - HOS Wos. induction HOS as [|p os Hp Hos IH]; [split; [constructor|reflexivity]|].
    cbn [forallb] in Wos. apply andb_true_iff in Wos. destruct Wos as [Wp Wos].
    apply andb_true_iff in Wp. destruct Wp as [Wp Wpb]. destruct (IH Wos) as [A1 A2].
    split; [constructor; [apply yblk_of_stmts; assumption|exact A1]|]. cbn [forallb]. rewrite Wp, A2. reflexivity. }
  destruct BOS as [BOS WOS].
  assert (BEL : match el with Some x => YBlkP x /\ x <> [] | None => True end).
  { destruct el as [x|]; [|exact I]. apply andb_true_iff in Wel. destruct Wel as [Nx Wx].
    split; [apply yblk_of_stmts; assumption|apply nonnil_ne; exact Nx]. }
  rewrite ylines_if in L. rewrite yfuel_if in LF.
  inversion L as [|d0 ts0 sm0 rest s0 st1 s2 PI FE _ LB0]; subst.
  apply lfeeds_app in LB0. destruct LB0 as (stm & LB & LR).
  apply feeds_cons in FE. destruct FE as (HO & s0a & PN & FE).
  pose proof (p_next_bind _ _ PN) as BD. cbn [reb bind_] in BD. rewrite B in BD.
  apply feeds_app in FE. destruct FE as (s0b & FE3 & FE4). apply feeds_one in FE4. destruct FE4 as (HC & PC).
  destruct (tc_take stmt_types _ _ _ _ HO PN eq_refl eq_refl) as (tk & T & Ty & _).
  pose proof (yafter_block_endblk _ _ _ _ _ LR FO) as EBm.
  destruct F as [|[|f]]; try lia.
  destruct (ycolon_block b d f s0b st1 stm Nb BP HC PC LB EBm ltac:(lia)) as (CO & EBI & FLm & b1 & PB).
  assert (LR' : lfeeds (yolines d os ++ yelines d el) (setb stm b1) (setb st' b1)) by (apply lfeeds_setb; exact LR).
  destruct (ybranch_tail os BOS WOS el BEL d 1 (Some (cast e)) (Some (map yast b)) [] [] f (setb stm b1) (setb st' b1)
              (or_introl eq_refl) ltac:(lia) LR' FLm FO) as (FL & b2 & PR).
  change (setb (setb st' b1) b2) with (setb st' b2) in PR. cbn [app] in PR.
  split; [exact FL|]. exists b2.
  assert (PBr : parse (S f) (NBranch (Z.of_nat d) 0 None None [] []) s0a = Ok (yast (YIf e b os el)) (setb st' b2)).
  { cbn [parse]. cbv zeta. zsimp. cbn [orb]. cbv iota.
    unfold bind at 1. unfold bind at 1. rewrite (expr_run_colon e f _ _ We ltac:(lia) FE3 HC). cbv beta iota.
    unfold ret at 1. stepb CO. stepb EBI. stepb PB. exact PR. }
  remember (S f) as g eqn:Eg.
  cbn [parse]. stepb (set_flag_reb false st). stepb T. cbv zeta. rewrite Ty.
  zsimp. cbv iota. unfold bind at 1. unfold bind at 1. rewrite (get_bind_eq s0a), BD. cbv beta iota. rewrite PBr. cbv beta iota.
  stepb (stmt_done_flag (setb st' b2) FL). reflexivity.
Qed.

(* ------------------------------------------------------------------ exec blocks: 输入 line, statements, 拦截 sections *)
Definition CatchesP (cs : list (lit * list ystmt)) : Prop :=
  Forall (fun c : lit * list ystmt => YBlkP (snd c) /\ snd c <> []) cs.

Lemma yclines_cons : forall d c r,
  yclines d (c :: r) = (d, [kwt g_TypeCatchErrorW; idt (fst c); tColon], false) :: yblines (S d) (snd c) ++ yclines d r.
Proof. reflexivity. Qed.

Lemma exec_catches : forall cs, CatchesP cs ->
  forall d hs ins ss acc F st st', (hs = 2 \/ hs = 3) -> (ycfuel cs <= F)%nat ->
    lfeeds (yclines d cs) st st' -> endblk (Z.of_nat d) st' ->
    (cs <> [] -> flag st' = true) /\
    exists b', parse F (NExec (Z.of_nat d) hs ins ss acc) st = Ok (XBlock ins ss (acc ++ map ycatch cs)) (setb st' b').
Proof.
  intros cs HC. induction HC as [|c r [Hc Nc] Hr IH]; intros d hs ins ss acc F st st' HS LF L EB.
  - cbn [yclines flat_map] in L. inversion L; subst. split; [congruence|]. exists (bind_ st'). rewrite setb_same.
    destruct F as [|f]; [cbn in LF; lia|]. cbn [parse]. rewrite (bgo_false _ _ EB). cbn [map]. rewrite app_nil_r.
    destruct HS as [HS|HS]; subst hs; reflexivity.
  - rewrite yclines_cons in L. rewrite ycfuel_cons in LF.
    apply (lfeeds_reb _ _ _ _ false (Z.of_nat d)) in L.
    inversion L as [|d0 ts0 sm0 rest s0 st1 s2 PI FE _ LB0]; subst.
    apply lfeeds_app in LB0. destruct LB0 as (stm & LB & LR).
    change (reb (reb st false (Z.of_nat d)) false (bind_ (reb st false (Z.of_nat d)))) with (reb st false (Z.of_nat d)) in FE.
    pose proof (feeds_bind _ _ _ FE) as BD. cbn [reb bind_] in BD.
    apply feeds_cons in FE. destruct FE as (HK & s0a & PN & FE).
    apply feeds_cons in FE. destruct FE as (HI & s0b & PNI & FE).
    apply feeds_one in FE. destruct FE as (HCo & PC).
    assert (EBm : endblk (Z.of_nat (S d)) stm).
    { destruct r as [|c2 r'].
      - cbn [yclines flat_map] in LR. inversion LR; subst. apply (endblk_mono (Z.of_nat d)); [lia|exact EB].
      - rewrite yclines_cons in LR. destruct (lfeeds_hd _ _ _ _ _ _ _ LR) as (PI2 & tk2 & P2 & Ty2 & _). cbn [kwt fst] in Ty2.
        apply (endblk_of_hd d stm tk2 PI2 P2). rewrite Ty2. reflexivity. }
    destruct F as [|[|f]]; try lia.
    destruct (ycolon_block (snd c) d f s0b st1 stm Nc Hc HCo PC LB EBm ltac:(lia)) as (CO & EBI & FLm & b1 & PB).
    assert (LR' : lfeeds (yclines d r) (setb stm b1) (setb (setb st' (Z.of_nat d)) b1)) by (apply lfeeds_setb; exact LR).
    destruct (IH d 3 ins ss (acc ++ [ycatch c]) (S f) (setb stm b1) (setb (setb st' (Z.of_nat d)) b1)
                 (or_intror eq_refl) ltac:(lia) LR' EB) as (FL2 & b2 & PR).
    change (setb (setb (setb st' (Z.of_nat d)) b1) b2) with (setb st' b2) in PR.
    split.
    { intros _. destruct r as [|c2 r'].
      - cbn [yclines flat_map] in LR. inversion LR; subst. exact FLm.
      - apply (FL2 ltac:(discriminate)). }
    exists b2.
    destruct (tc_take [g_TypeCatchErrorW] _ _ _ _ HK PN eq_refl eq_refl) as (tk & T & Ty & _).
    assert (PCa : parse (S f) NCatch s0a = Ok (ycatch c) (setb stm b1)).
    { cbn [parse]. stepb (parse_id_take _ _ _ HI PNI). stepb CO. stepb (get_bind_eq st1). rewrite BD. stepb EBI.
      unfold bind at 1. rewrite PB. cbv beta iota. reflexivity. }
    destruct HK as (_ & tk0 & P0 & Ty0 & _). cbn [reb p2] in P0. cbn [kwt fst] in Ty0.
    remember (S f) as g eqn:Eg. cbn [parse].
    rewrite (bgo_true _ _ tk0 P0 ltac:(rewrite Ty0; reflexivity) PI).
    stepb (set_bind_reb (Z.of_nat d) st).
    destruct HS as [HS|HS]; subst hs; zsimp; cbv iota;
      (stepb (set_flag_reb false (setb st (Z.of_nat d)));
       change (reb (setb st (Z.of_nat d)) false (bind_ (setb st (Z.of_nat d)))) with (reb st false (Z.of_nat d));
       stepb T; stepb PCa; rewrite <- app_assoc in PR; exact PR).
Qed.

Lemma bc_nil_dec : forall (r : list ystmt) (cs : list (lit * list ystmt)), (r = [] /\ cs = []) \/ (r <> [] \/ cs <> []).
Proof. intros [|x r] [|c cs]; [left; auto|right; right; discriminate|right; left; discriminate|right; left; discriminate]. Qed.

Lemma exec_stmts : forall b, Forall YStmtP b -> forallb ywf b = true -> forall cs, CatchesP cs ->
  forall d ins acc F st st', (ybfuel b + ycfuel cs <= F)%nat ->
    lfeeds (yblines d b ++ yclines d cs) st st' -> endblk (Z.of_nat d) st' ->
    (b <> [] \/ cs <> [] -> flag st' = true) /\
    exists b', parse F (NExec (Z.of_nat d) 2 ins acc []) st
               = Ok (XBlock ins (acc ++ map yast b) (map ycatch cs)) (setb st' b').
Proof.
  intros b H. induction H as [|s r Hs Hr IH]; intros W cs HC d ins acc F st st' LF L EB.
  - cbn [yblines flat_map app] in L. cbn [ybfuel fold_right] in LF.
    destruct (exec_catches cs HC d 2 ins acc [] F st st' (or_introl eq_refl) ltac:(lia) L EB) as (FL & b' & PX).
    split; [intros [N|N]; [congruence|exact (FL N)]|]. exists b'. cbn [map]. rewrite app_nil_r. exact PX.
  - cbn [forallb] in W. apply andb_true_iff in W. destruct W as [Ws Wr].
    cbn [yblines flat_map] in L. fold (yblines d r) in L. rewrite <- app_assoc in L.
    apply lfeeds_app in L. destruct L as (stm & L1 & L2).
    destruct (ylines_head d s) as (t & ts & sm & rr & E & MH). pose proof (yheads_facts _ MH) as SH.
    assert (HD : peek_indent st = Z.of_nat d /\ exists tk, p2 st = Some tk /\ t_ty tk = fst t /\ text_of tk = snd t).
    { rewrite E in L1. eapply lfeeds_hd; eauto. }
    destruct HD as (PI & tk & P2 & Ty & _).
    assert (FO : folS (Z.of_nat d) stm).
    { destruct (bc_nil_dec r cs) as [[Er Ec]|N].
      - subst r cs. cbn [yblines yclines flat_map app] in L2. inversion L2; subst. apply endblk_folS. exact EB.
      - destruct (bc_head d r cs N) as (t2 & ts2 & sm2 & r2 & E2 & M2).
        rewrite E2 in L2. destruct (lfeeds_hd _ _ _ _ _ _ _ L2) as (PI2 & tk2 & P22 & Ty2 & _).
        destruct (xheads_facts _ M2) as [C2 _ B2 _ _]. rewrite <- Ty2 in C2, B2.
        apply (folS_same _ _ tk2); auto. }
    destruct F as [|f]; [cbn in LF; lia|]. rewrite ybfuel_cons in LF.
    assert (L1' : lfeeds (ylines d s) (reb st false (Z.of_nat d)) (setb stm (Z.of_nat d))).
    { rewrite E in *. apply (lfeeds_reb _ _ _ _ false (Z.of_nat d)) in L1. exact L1. }
    destruct (Hs Ws d f (reb st false (Z.of_nat d)) (setb stm (Z.of_nat d)) ltac:(lia) L1' eq_refl FO) as (FL & b1 & PS).
    change (setb (setb stm (Z.of_nat d)) b1) with (setb stm b1) in PS.
    assert (L2' : lfeeds (yblines d r ++ yclines d cs) (setb stm b1) (setb st' b1)) by (apply lfeeds_setb; exact L2).
    destruct (IH Wr cs HC d ins (acc ++ [yast s]) f (setb stm b1) (setb st' b1) ltac:(lia) L2' EB) as (FL2 & b2 & PB).
    change (setb (setb st' b1) b2) with (setb st' b2) in PB.
    split.
    { intros _. destruct (bc_nil_dec r cs) as [[Er Ec]|N].
      - subst r cs. cbn [yblines yclines flat_map app] in L2. inversion L2; subst. exact FL.
      - apply (FL2 N). }
    exists b2. destruct SH as [C NE _ _ _ MC]. rewrite <- Ty in C, NE, MC.
    cbn [parse]. rewrite (bgo_true _ _ tk P2 NE PI).
    stepb (set_bind_reb (Z.of_nat d) st). zsimp. cbv iota. stepb (set_flag_reb false (setb st (Z.of_nat d))).
    change (reb (setb st (Z.of_nat d)) false (bind_ (setb st (Z.of_nat d)))) with (reb st false (Z.of_nat d)).
    stepb (tc_none_p2 [g_TypeCatchErrorW] (reb st false (Z.of_nat d)) tk P2 eq_refl C MC).
    stepb PS. cbn [map]. rewrite <- app_assoc in PB. exact PB.
Qed.

Lemma exec_block : forall ins b cs, Forall YStmtP b -> forallb ywf b = true -> CatchesP cs -> (b <> [] \/ cs <> []) ->
  forall d F st st' bb, (yxfuel ins b cs <= F)%nat -> lfeeds (yxlines d ins b cs) st st' -> endblk (Z.of_nat d) st' ->
  flag st' = true /\
  exists b', parse F (NExec (Z.of_nat d) 1 [] [] []) (reb st false bb)
             = Ok (XBlock ins (map yast b) (map ycatch cs)) (setb st' b').
Proof.
  intros ins b cs HB W HC N d F st st' bb LF L EB. unfold yxfuel in LF. unfold yxlines in L.
  destruct (bc_head d b cs N) as (t & ts & sm & r & E & MH). pose proof (xheads_facts _ MH) as XH.
  destruct ins as [|x xs].
  - cbn [inlines app] in L. cbn [length] in LF.
    pose proof L as L0. rewrite E in L0. destruct (lfeeds_hd _ _ _ _ _ _ _ L0) as (PI & tk & P2 & Ty & _).
    destruct XH as [C NE _ _ MN]. rewrite <- Ty in C, NE, MN.
    assert (L' : lfeeds (yblines d b ++ yclines d cs) (reb st false (Z.of_nat d)) (setb st' (Z.of_nat d))).
    { rewrite E in *. apply (lfeeds_reb _ _ _ _ false (Z.of_nat d)) in L. exact L. }
    destruct F as [|f]; [lia|].
    destruct (exec_stmts b HB W cs HC d [] [] f _ _ ltac:(lia) L' EB) as (FL & b' & PX).
    change (setb (setb st' (Z.of_nat d)) b') with (setb st' b') in PX. cbn [app] in PX.
    split; [exact (FL N)|]. exists b'.
    cbn [parse]. rewrite (bgo_true _ (reb st false bb) tk P2 NE PI).
    stepb (set_bind_reb (Z.of_nat d) (reb st false bb)). zsimp. cbv iota.
    change (setb (reb st false bb) (Z.of_nat d)) with (reb st false (Z.of_nat d)).
    stepb (tc_none_p2 [g_TypeInputW] (reb st false (Z.of_nat d)) tk P2 eq_refl C MN). exact PX.
  - cbn [inlines app] in L.
    apply (lfeeds_reb _ _ _ _ false (Z.of_nat d)) in L.
    inversion L as [|d0 ts0 sm0 rest s0 st1 s2 PI FE FL1 LR]; subst. specialize (FL1 eq_refl).
    change (reb (reb st false (Z.of_nat d)) false (bind_ (reb st false (Z.of_nat d)))) with (reb st false (Z.of_nat d)) in FE.
    pose proof (feeds_bind _ _ _ FE) as BD. cbn [reb bind_] in BD.
    apply feeds_cons in FE. destruct FE as (HK & s0a & PN & FE).
    pose proof LR as L0. rewrite E in L0. destruct (lfeeds_hd _ _ _ _ _ _ _ L0) as (PI1 & tk1 & P21 & Ty1 & _).
    destruct XH as [C NE _ _ _]. rewrite <- Ty1 in C, NE.
    destruct F as [|[|f]]; try (cbn [length] in LF; lia).
    destruct (exec_stmts b HB W cs HC d (x :: xs) [] f st1 _ ltac:(cbn [length] in LF; lia) LR EB) as (FL & b' & PX).
    change (setb (setb st' (Z.of_nat d)) b') with (setb st' b') in PX. cbn [app] in PX.
    split; [exact (FL N)|]. exists b'.
    assert (PIL : parse (S f) (NIdList []) s0a = Ok (x :: xs) st1).
    { apply (idlist_run (x :: xs) ltac:(discriminate) (S f) [] s0a st1 ltac:(cbn [length] in *; lia) FE).
      apply (tc_none_flag _ st1 tk1 P21 C FL1). }
    assert (PIN : parse (S f) (NExec (Z.of_nat d) 1 (x :: xs) [] []) st1
                  = Ok (XBlock (x :: xs) (map yast b) (map ycatch cs)) (setb st' b')).
    { cbn [parse]. rewrite (bgo_true _ st1 tk1 P21 NE PI1). stepb (set_bind_same st1 (Z.of_nat d) BD). zsimp. cbv iota.
      stepb (tc_none_flag [g_TypeInputW] st1 tk1 P21 C FL1). exact PX. }
    destruct (tc_take [g_TypeInputW] _ _ _ _ HK PN eq_refl eq_refl) as (tk & T & Ty & _).
    destruct HK as (_ & tk0 & P0 & Ty0 & _). cbn [reb p2] in P0. cbn [kwt fst] in Ty0.
    remember (S f) as g eqn:Eg. cbn [parse].
    rewrite (bgo_true _ (reb st false bb) tk0 P0 ltac:(rewrite Ty0; reflexivity) PI).
    stepb (set_bind_reb (Z.of_nat d) (reb st false bb)). zsimp. cbv iota.
    change (setb (reb st false bb) (Z.of_nat d)) with (reb st false (Z.of_nat d)).
    stepb T. stepb PIL. cbn [app]. exact PIN.
Qed.

(* the first line of an exec block *)
Lemma yx_head : forall d ins b cs, b <> [] \/ cs <> [] ->
  exists t ts sm r, yxlines d ins b cs = (d, t :: ts, sm) :: r /\
    (fst t =? g_TypeEOF) = false /\ (fst t =? g_TypeCommaSep) = false /\ mem (fst t) [g_TypeImportW] = false.
Proof.
  intros d ins b cs N. unfold yxlines. destruct ins as [|x xs].
  - cbn [inlines app]. destruct (bc_head d b cs N) as (t & ts & sm & r & E & MH). rewrite E.
    eexists _, _, _, _. split; [reflexivity|]. destruct (xheads_facts _ MH). auto.
  - cbn [inlines app]. eexists _, _, _, _. split; [reflexivity|]. repeat split; reflexivity.
Qed.

Lemma catches_of : forall cs, Forall (fun p : lit * list ystmt => Forall YStmtP (snd p)) cs ->
  forallb (fun c : lit * list ystmt => nonnil (snd c) && forallb ywf (snd c)) cs = true -> CatchesP cs.
Proof.
  intros cs HCS Wcs. induction HCS as [|c r Hc Hr IH]; [constructor|].
  cbn [forallb] in Wcs. apply andb_true_iff in Wcs. destruct Wcs as [Wc Wr]. apply andb_true_iff in Wc. destruct Wc as [Nc Wc].
  constructor; [split; [apply yblk_of_stmts; assumption|apply nonnil_ne; exact Nc]|apply IH; exact Wr].
Qed.

(* ------------------------------------------------------------------ 如何 F ？ + exec block *)
Lemma ystmt_func : forall n ins b cs, Forall YStmtP b -> Forall (fun p : lit * list ystmt => Forall YStmtP (snd p)) cs ->
  YStmtP (YFunc n ins b cs).
Proof.
  intros n ins b cs HB HCS W d F st st' LF L B FO. cbn [ywf] in W.
  apply andb_true_iff in W. destruct W as [W Wcs]. apply andb_true_iff in W. destruct W as [Nn Wb].
  assert (N : b <> [] \/ cs <> []).
  { apply orb_true_iff in Nn. destruct Nn as [Nn|Nn]; apply nonnil_ne in Nn; auto. }
  pose proof (catches_of cs HCS Wcs) as HC.
  rewrite ylines_func in L. rewrite yfuel_func in LF.
  inversion L as [|d0 ts0 sm0 rest s0 st1 s2 PI FE _ LB]; subst.
  pose proof (feeds_bind _ _ _ FE) as BD. cbn [reb bind_] in BD. rewrite B in BD.
  apply feeds_cons in FE. destruct FE as (HO & s0a & PN & FE).
  apply feeds_cons in FE. destruct FE as (HI & s0b & PNI & FE).
  apply feeds_one in FE. destruct FE as (HQ & PQ).
  destruct (tc_take stmt_types _ _ _ _ HO PN eq_refl eq_refl) as (tk & T & Ty & _).
  destruct (yx_head (S d) ins b cs N) as (t1 & ts1 & sm1 & r1 & E1 & NE1 & _ & _).
  pose proof LB as LB0. rewrite E1 in LB0. destruct (lfeeds_hd _ _ _ _ _ _ _ LB0) as (PI1 & tk1 & P21 & Ty1 & _).
  assert (F1 : flag st1 = false).
  { apply (p_next_keep _ _ _ _ tk1 HQ eq_refl PQ P21). rewrite Ty1. exact NE1. }
  assert (ES : st1 = reb st1 false (bind_ st1)).
  { clear - F1. destruct st1 as [a1 a2 a3 a4 a5 a6 a7 fl bi]. cbn in F1. subst fl. reflexivity. }
  destruct F as [|[|[|f]]]; try lia.
  pose proof (folS_endblkS _ _ FO) as EB.
  destruct (exec_block ins b cs HB Wb HC N (S d) (S f) st1 st' (bind_ st1) ltac:(lia) LB EB) as (FL & b' & PX).
  rewrite <- ES in PX.
  split; [exact FL|]. exists b'.
  assert (PF : parse (S (S f)) NFuncBlock s0a = Ok (n, XBlock ins (map yast b) (map ycatch cs)) (setb st' b')).
  { remember (S f) as g eqn:Eg. cbn [parse]. stepb (parse_id_take _ _ _ HI PNI). stepb (consume_take _ _ _ _ HQ PQ eq_refl). stepb (get_bind_eq st1).
    rewrite BD. stepb (ebi_ok d st1 PI1). unfold bind at 1. rewrite PX. cbv beta iota. reflexivity. }
  remember (S (S f)) as g eqn:Eg.
  cbn [parse yast]. stepb (set_flag_reb false st). stepb T. cbv zeta. rewrite Ty. zsimp. cbv iota.
  unfold bind at 1. stepb (tc_none_head [g_TypeObjNewW] _ _ _ HI eq_refl eq_refl). stepb PF.
  unfold ret at 1. cbn [fst snd]. stepb (stmt_done_flag (setb st' b') FL). reflexivity.
Qed.

Theorem ystmt_all : forall s, YStmtP s.
Proof.
  induction s using ystmt_ind2.
  - apply ystmt_expr.
  - apply ystmt_out.
  - apply ystmt_let.
  - apply ystmt_while; assumption.
  - apply ystmt_if; assumption.
  - apply ystmt_iter; assumption.
  - apply ystmt_throw.
  - apply ystmt_break.
  - apply ystmt_continue.
  - apply ystmt_func; assumption.
Qed.

Lemma YForall_all : forall (P : ystmt -> Prop) l, (forall s, P s) -> Forall P l.
Proof. intros P l H. induction l; constructor; auto. Qed.

(* Token-level theorems for the extended fragment *)
Theorem parse_ystmt_tokens : forall s d F st st', ywf s = true -> (yfuel s <= F)%nat ->
  lfeeds (ylines d s) st st' -> bind_ st = Z.of_nat d -> folS (Z.of_nat d) st' ->
  flag st' = true /\ exists b', parse F NStmt st = Ok (yast s) (setb st' b').
Proof. intros s d F st st' W LF L B FO. exact (ystmt_all s W d F st st' LF L B FO). Qed.

Theorem parse_yblock_tokens : forall b d F st st' acc, forallb ywf b = true -> (ybfuel b <= F)%nat ->
  lfeeds (yblines d b) st st' -> endblk (Z.of_nat d) st' ->
  exists b', parse F (NBlock (Z.of_nat d) acc) st = Ok (acc ++ map yast b) (setb st' b').
Proof.
  intros b d F st st' acc W LF L EB.
  destruct (yblk_of_stmts b (YForall_all _ _ ystmt_all) W d F st st' acc LF L EB) as (_ & H). exact H.
Qed.

Definition ycwf (cs : list (lit * list ystmt)) : bool := forallb (fun c => nonnil (snd c) && forallb ywf (snd c)) cs.

Lemma catches_all : forall cs, ycwf cs = true -> CatchesP cs.
Proof.
  intros cs W. apply catches_of; [|exact W]. apply Forall_forall. intros c _. apply YForall_all. apply ystmt_all.
Qed.

(* an exec block (ParseExecBlock) at nesting level d: input line, statements, catch sections *)
Theorem parse_exec_tokens : forall ins b cs d F st st' bb, forallb ywf b = true -> ycwf cs = true ->
  nonnil b || nonnil cs = true -> (yxfuel ins b cs <= F)%nat ->
  lfeeds (yxlines d ins b cs) st st' -> endblk (Z.of_nat d) st' ->
  flag st' = true /\
  exists b', parse F (NExec (Z.of_nat d) 1 [] [] []) (reb st false bb)
             = Ok (XBlock ins (map yast b) (map ycatch cs)) (setb st' b').
Proof.
  intros ins b cs d F st st' bb W Wc Nn LF L EB.
  assert (N : b <> [] \/ cs <> []).
  { apply orb_true_iff in Nn. destruct Nn as [Nn|Nn]; apply nonnil_ne in Nn; auto. }
  exact (exec_block ins b cs (YForall_all _ _ ystmt_all) W (catches_all cs Wc) N d F st st' bb LF L EB).
Qed.

(* ================================================================== programs: import lines, then the exec block *)
Record yimport := mkImp { i_lib : bool; i_name : lit; i_w : bool; i_ids : list lit }.
  (* 导入 《name》 / 导入 “name”, optionally followed by 之 (i_w = true) or 的 and a list a 、 b *)
Definition imp_ast (i : yimport) : import := ((if i_lib i then 1 else 2), i_name i, i_ids i).
Definition imp_toks (i : yimport) : list atok :=
  kwt g_TypeImportW :: ((if i_lib i then g_TypeLibString else g_TypeString), i_name i)
  :: match i_ids i with [] => [] | _ => tDot (i_w i) :: idlist (i_ids i) end.
Definition imp_line (i : yimport) : pline := (0%nat, imp_toks i, true).

Record yprog := mkYP {
  q_imports : list yimport; q_inputs : list lit; q_body : list ystmt; q_catches : list (lit * list ystmt) }.
Definition qlines (q : yprog) : list pline :=
  map imp_line (q_imports q) ++ yxlines 0 (q_inputs q) (q_body q) (q_catches q).
Definition qhas_exec (q : yprog) : bool := nonnil (q_body q) || nonnil (q_catches q).
Definition isnil {A} (l : list A) : bool := match l with [] => true | _ => false end.
Definition qprescribed (q : yprog) : program :=
  mkProgram (map imp_ast (q_imports q))
            (if qhas_exec q then Some (XBlock (q_inputs q) (map yast (q_body q)) (map ycatch (q_catches q))) else None).
Definition qwf (q : yprog) : bool :=
  forallb ywf (q_body q) && ycwf (q_catches q) && (qhas_exec q || (isnil (q_inputs q) && nonnil (q_imports q))).
Definition ifuel (is : list yimport) : nat := fold_right (fun i a => (4 + length (i_ids i) + a)%nat) 0%nat is.
Definition qfuel (q : yprog) : nat := (ifuel (q_imports q) + yxfuel (q_inputs q) (q_body q) (q_catches q) + 5)%nat.

Definition nocomma (st : pstate) : Prop := exists tk, p2 st = Some tk /\ (t_ty tk =? g_TypeCommaSep) = false.

Lemma import_line : forall i f st st1, (length (i_ids i) + 2 <= f)%nat -> feeds (imp_toks i) st st1 -> flag st1 = true ->
  nocomma st1 ->
  exists sa tk, tc [g_TypeImportW] st = Ok (Some tk) sa /\ parse f NImport sa = Ok (imp_ast i) st1.
Proof.
  intros [lib name w ids] f st st1 LF FE FL (tk1 & P1 & C1). unfold imp_toks in FE. cbn [i_lib i_name i_w i_ids] in *.
  apply feeds_cons in FE. destruct FE as (HK & sa & PN & FE).
  apply feeds_cons in FE. destruct FE as (HN & sb & PNN & FE).
  destruct (tc_take [g_TypeImportW] _ _ _ _ HK PN eq_refl eq_refl) as (tk & T & _).
  exists sa, tk. split; [exact T|].
  assert (TN : exists tkn, tc [g_TypeLibString; g_TypeString] sa = Ok (Some tkn) sb /\
                 (if t_ty tkn =? g_TypeLibString then 1 else 2) = (if lib then 1 else 2) /\ text_of tkn = name).
  { destruct lib.
    - destruct (tc_take [g_TypeLibString; g_TypeString] _ _ _ _ HN PNN eq_refl eq_refl) as (tkn & Tn & Tyn & Txn).
      exists tkn. rewrite Tyn. auto.
    - destruct (tc_take [g_TypeLibString; g_TypeString] _ _ _ _ HN PNN eq_refl eq_refl) as (tkn & Tn & Tyn & Txn).
      exists tkn. rewrite Tyn. auto. }
  destruct TN as (tkn & Tn & LT & Txn).
  destruct f as [|f]; [lia|]. unfold imp_ast. cbn [i_lib i_name i_ids].
  destruct ids as [|y ys].
  - assert (EQ : sb = st1) by (inversion FE; reflexivity). subst sb. cbn [parse]. stepb Tn. cbv zeta.
    stepb (tc_none_flag [g_TypeObjDotW; g_TypeObjDotIIW] st1 tk1 P1 C1 FL). unfold ret. rewrite LT, Txn. reflexivity.
  - apply feeds_cons in FE. destruct FE as (HD & sc & PND & FE).
    assert (TD : exists tkd, tc [g_TypeObjDotW; g_TypeObjDotIIW] sb = Ok (Some tkd) sc).
    { destruct w.
      - destruct (tc_take [g_TypeObjDotW; g_TypeObjDotIIW] _ _ _ _ HD PND eq_refl eq_refl) as (tkd & Td & _). eauto.
      - destruct (tc_take [g_TypeObjDotW; g_TypeObjDotIIW] _ _ _ _ HD PND eq_refl eq_refl) as (tkd & Td & _). eauto. }
    destruct TD as (tkd & Td).
    cbn [parse]. stepb Tn. cbv zeta. stepb Td.
    unfold bind at 1.
    rewrite (idlist_run (y :: ys) ltac:(discriminate) f [] sc st1 ltac:(cbn [length] in *; lia) FE
               (tc_none_flag [g_TypePauseCommaSep] st1 tk1 P1 C1 FL)).
    cbv beta iota. unfold ret. rewrite LT, Txn. reflexivity.
Qed.

Lemma imports_loop : forall is acc st st1 K (Q : program) st2,
  lfeeds (map imp_line is) st st1 -> nocomma st1 ->
  (forall F', (K <= F')%nat -> exists b', parse F' (NProgram 0 1 (acc ++ map imp_ast is) None) (setb st1 0) = Ok Q (setb st2 b')) ->
  forall F, (K + ifuel is <= F)%nat -> exists b', parse F (NProgram 0 1 acc None) (setb st 0) = Ok Q (setb st2 b').
Proof.
  induction is as [|i r IH]; intros acc st st1 K Q st2 L NC HK F LF.
  - cbn [map] in L. inversion L; subst. cbn [map] in HK. rewrite app_nil_r in HK. apply HK. cbn [ifuel fold_right] in LF. lia.
  - cbn [map] in L. apply (lfeeds_setb _ _ _ 0) in L.
    inversion L as [|d0 ts0 sm0 rest s0 stm s2 PI FE FLm LR]; subst. specialize (FLm eq_refl).
    change (reb (setb st 0) false (bind_ (setb st 0))) with (reb st false 0) in FE.
    pose proof (feeds_bind _ _ _ FE) as BD. cbn [reb bind_] in BD.
    assert (NCm : nocomma stm).
    { destruct r as [|i2 r'].
      - cbn [map] in LR. inversion LR; subst. exact NC.
      - cbn [map] in LR. unfold imp_line at 1, imp_toks in LR.
        destruct (lfeeds_hd _ _ _ _ _ _ _ LR) as (_ & tk2 & P2 & Ty2 & _). cbn [kwt fst] in Ty2.
        exists tk2. split; [exact P2|]. rewrite Ty2. reflexivity. }
    cbn [ifuel fold_right] in LF. fold (ifuel r) in LF.
    destruct F as [|f]; [lia|].
    destruct (import_line i f (reb st false 0) stm ltac:(lia) FE FLm NCm) as (sa & tk & T & PIm).
    assert (ES : stm = setb stm 0) by (rewrite <- BD; symmetry; apply setb_same).
    assert (HK' : forall F', (K <= F')%nat ->
              exists b', parse F' (NProgram 0 1 ((acc ++ [imp_ast i]) ++ map imp_ast r) None) (setb (setb st1 0) 0) = Ok Q (setb st2 b')).
    { intros F' LF'. rewrite <- app_assoc. exact (HK F' LF'). }
    destruct (IH (acc ++ [imp_ast i]) stm (setb st1 0) K Q st2 LR NC HK' f ltac:(lia)) as (b' & PR).
    rewrite <- ES in PR. exists b'.
    pose proof FE as FE0. unfold imp_toks in FE0. apply feeds_head in FE0.
    destruct FE0 as (_ & tk0 & P0 & Ty0 & _). cbn [reb p2] in P0. cbn [kwt fst] in Ty0.
    cbn [parse]. rewrite (bgo_true 0 (setb st 0) tk0 P0 ltac:(rewrite Ty0; reflexivity) PI).
    stepb (set_bind_reb 0 (setb st 0)). stepb (set_flag_reb false (setb (setb st 0) 0)). zsimp. cbv iota.
    change (reb (setb (setb st 0) 0) false (bind_ (setb (setb st 0) 0))) with (reb st false 0).
    stepb T. stepb PIm. exact PR.
Qed.

Lemma prog_exec : forall imps ins b cs st st' F, forallb ywf b = true -> ycwf cs = true -> nonnil b || nonnil cs = true ->
  (yxfuel ins b cs + 4 <= F)%nat -> lfeeds (yxlines 0 ins b cs) st st' -> ateof st' ->
  exists b', parse F (NProgram 0 1 imps None) st
             = Ok (mkProgram imps (Some (XBlock ins (map yast b) (map ycatch cs)))) (setb st' b').
Proof.
  intros imps ins b cs st st' F W Wc Nn LF L EO.
  assert (N : b <> [] \/ cs <> []).
  { apply orb_true_iff in Nn. destruct Nn as [Nn|Nn]; apply nonnil_ne in Nn; auto. }
  destruct (yx_head 0 ins b cs N) as (t & ts & sm & r & E & NE & C & MI).
  pose proof L as L0. rewrite E in L0. destruct (lfeeds_hd _ _ _ _ _ _ _ L0) as (PI & tk & P2 & Ty & _).
  change (Z.of_nat 0) with 0 in PI. rewrite <- Ty in NE, C, MI.
  destruct F as [|[|[|f]]]; try lia.
  destruct (parse_exec_tokens ins b cs 0 (S f) st st' 0 W Wc Nn ltac:(lia) L (ateof_endblk _ _ EO)) as (FL & b' & PX).
  change (Z.of_nat 0) with 0 in PX. exists b'.
  assert (BG : block_goes_on 0 (reb st false 0) = true) by (apply (bgo_true _ _ tk P2 NE PI)).
  assert (P2' : parse (S (S f)) (NProgram 0 2 imps None) (reb st false 0)
                = Ok (mkProgram imps (Some (XBlock ins (map yast b) (map ycatch cs)))) (setb st' b')).
  { remember (S f) as g eqn:Eg. cbn [parse]. rewrite BG. stepb (set_bind_reb 0 (reb st false 0)).
    stepb (set_flag_reb false (setb (reb st false 0) 0)). zsimp. cbv iota.
    change (reb (setb (reb st false 0) 0) false (bind_ (setb (reb st false 0) 0))) with (reb st false 0).
    stepb PX. rewrite Eg.
    exact (prog_end f 0 2 imps (Some (XBlock ins (map yast b) (map ycatch cs))) (setb st' b')
             (bgo_false _ _ (ateof_endblk 0 _ EO))). }
  remember (S (S f)) as g eqn:Eg. cbn [parse]. rewrite (bgo_true _ _ tk P2 NE PI).
  stepb (set_bind_reb 0 st). stepb (set_flag_reb false (setb st 0)). zsimp. cbv iota.
  change (reb (setb st 0) false (bind_ (setb st 0))) with (reb st false 0).
  stepb (tc_none_p2 [g_TypeImportW] (reb st false 0) tk P2 eq_refl C MI). exact P2'.
Qed.

(* TOKEN-LEVEL MAIN THEOREM: on any parser state (blockIndent 0) that presents the lines of the program and then the end
   of the text, ParseProgram returns the prescribed program *)
Theorem parse_sections_tokens : forall q F st st', qwf q = true -> (qfuel q <= F)%nat -> bind_ st = 0 ->
  lfeeds (qlines q) st st' -> ateof st' ->
  exists b', parse F (NProgram 0 1 [] None) st = Ok (qprescribed q) (setb st' b').
Proof.
  intros [is ins b cs] F st st' W LF B L EO. unfold qwf, qfuel, qlines, qprescribed, qhas_exec in *.
  cbn [q_imports q_inputs q_body q_catches] in *.
  apply andb_true_iff in W. destruct W as [W WX]. apply andb_true_iff in W. destruct W as [Wb Wc].
  apply lfeeds_app in L. destruct L as (st1 & LI & LX).
  assert (ES : st = setb st 0) by (rewrite <- B; symmetry; apply setb_same).
  rewrite ES.
  destruct (nonnil b || nonnil cs) eqn:Nn.
  - assert (N : b <> [] \/ cs <> []).
    { apply orb_true_iff in Nn. destruct Nn as [Nn'|Nn']; apply nonnil_ne in Nn'; auto. }
    assert (NC : nocomma st1).
    { destruct (yx_head 0 ins b cs N) as (t & ts & sm & r & E & _ & C & _).
      rewrite E in LX. destruct (lfeeds_hd _ _ _ _ _ _ _ LX) as (_ & tk & P2 & Ty & _).
      exists tk. split; [exact P2|]. rewrite Ty. exact C. }
    apply (imports_loop is [] st st1 (yxfuel ins b cs + 4) _ st' LI NC); [|lia].
    intros F' LF'. cbn [app].
    apply (prog_exec (map imp_ast is) ins b cs (setb st1 0) (setb st' 0) F' Wb Wc Nn LF'); [|exact EO].
    apply lfeeds_setb. exact LX.
  - cbn [orb] in WX. apply andb_true_iff in WX. destruct WX as [Ni Nis].
    destruct ins; [|discriminate]. destruct b; [|discriminate]. destruct cs; [|discriminate].
    cbn in LX. inversion LX; subst.
    assert (NC : nocomma st').
    { destruct EO as (tk & P & E). exists tk. split; [exact P|]. rewrite E. reflexivity. }
    apply (imports_loop is [] st st' 1 _ st' LI NC); [|lia].
    intros F' LF'. cbn [app]. exists 0. destruct F' as [|f']; [lia|].
    exact (prog_end f' 0 1 (map imp_ast is) None (setb st' 0) (bgo_false _ _ (ateof_endblk 0 _ EO))).
Qed.

Print Assumptions parse_ystmt_tokens.
Print Assumptions parse_exec_tokens.
Print Assumptions parse_sections_tokens.
