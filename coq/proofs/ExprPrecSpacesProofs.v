(* C03 - precedence / associativity with OPTIONAL SPACES: the theorem of proofs/ExprPrecProofs.v for printings in which the
   gap between two tokens is any run of white-space characters, or nothing at all where the lexer can still
   tell the two tokens apart (identifier before a keyword operator, a comparison mark, | or a brace; keyword, mark or
   brace before anything; + - * / < > before { ). *)
From Coq Require Import List ZArith Bool Lia Arith.
Import ListNotations.
From Zn.gen Require Import GenFrontTokens.
From Zn.model Require Import LexerTok Lexer Ast Parser.
From Zn.proofs Require Import FrontLexProofs FrontCompleteProofs FrontTotalProofs.
From Zn.proofs Require Import ExprPrecProofs.
Open Scope Z_scope.

(* ------------------------------------------------------------------ skipping a gap *)
Lemma skip_ws_gap : forall g c r p, forallb is_ws g = true -> is_ws c = false ->
  skip_ws (g ++ c :: r) p = (c :: r, p + Z.of_nat (length g)).
Proof.
  induction g as [|w g IH]; intros c r p HG HC.
  - cbn [app skip_ws length Z.of_nat]. rewrite HC, Z.add_0_r. reflexivity.
  - cbn [forallb] in HG. apply andb_true_iff in HG. destruct HG as [HW HG].
    cbn [app skip_ws]. rewrite HW. rewrite IH by assumption. cbn [length].
    f_equal. lia.
Qed.

Lemma set_pos_rest_same : forall l, set_pos_rest l (pos l + 0) (rest l) = l.
Proof. intro l. destruct l. unfold set_pos_rest. cbn. rewrite Z.add_0_r. reflexivity. Qed.

Lemma next_token_gap : forall l g c r, rest l = g ++ c :: r -> forallb is_ws g = true ->
  is_ws c = false -> is_break c = false ->
  next_token l = nt_body (set_pos_rest l (pos l + Z.of_nat (length g)) (c :: r)).
Proof.
  intros l g c r E HG W B. destruct g as [|w g].
  - cbn [app] in E. rewrite (next_token_plain l c r E W B). cbn [length Z.of_nat].
    rewrite <- E. rewrite set_pos_rest_same. reflexivity.
  - pose proof HG as HG0. cbn [forallb] in HG. apply andb_true_iff in HG. destruct HG as [HW HG].
    unfold next_token. rewrite E. cbn [app length]. rewrite app_length. cbn [length].
    remember (S (length g + S (length r))) as m eqn:Em.
    cbn [pre_next_token]. rewrite E. cbn [app curc hd]. rewrite HW.
    change (w :: g ++ c :: r) with ((w :: g) ++ c :: r). rewrite (skip_ws_gap (w :: g) c r (pos l) HG0 W).
    subst m. rewrite (pre_stop _ (set_pos_rest l (pos l + Z.of_nat (length (w :: g))) (c :: r)) c r eq_refl W B).
    reflexivity.
Qed.

(* ------------------------------------------------------------------ one token before arbitrary text *)
(* operators whose recogniser looks at the next character *)
Definition look_toks : list Z := [g_TypePlus; g_TypeMinus; g_TypeMultiply; g_TypeDivision; g_TypeGTMark; g_TypeLTMark].
Definition look_spellings : list (Z * list Z) :=
  [(g_TypePlus, [43]); (g_TypeMinus, [45]); (g_TypeMultiply, [42]); (g_TypeDivision, [47]); (g_TypeGTMark, [62]); (g_TypeLTMark, [60])].
Definition free_spellings : list (Z * list Z) :=
  [(g_TypeStmtQuoteL, [123]); (g_TypeStmtQuoteR, [125]); (g_TypeIntDivMark, [124]); (g_TypeModuloMark, [37]);
   (g_TypeLogicEqualW, [31561; 20110]); (g_TypeEqualMark, [61; 61]);
   (g_TypeLogicNotEqW, [19981; 31561; 20110]); (g_TypeNEMark, [47; 61]);
   (g_TypeLogicGtW, [22823; 20110]); (g_TypeLogicGteW, [19981; 23567; 20110]); (g_TypeGTEMark, [62; 61]);
   (g_TypeLogicLtW, [23567; 20110]); (g_TypeLogicLteW, [19981; 22823; 20110]); (g_TypeLTEMark, [60; 61]);
   (g_TypeLogicYesW, [20026]); (g_TypeLogicNoW, [19981; 20026]);
   (g_TypeLogicAndW, [19988]); (g_TypeLogicOrW, [25110])].

Lemma lex_free : forall ty cs, In (ty, cs) free_spellings -> forall l tail, rest l = cs ++ tail ->
  nt_body l = LOk (mkTok ty [] (pos l) (pos l + Z.of_nat (length cs)))
                  (set_pos_rest l (pos l + Z.of_nat (length cs)) tail).
Proof.
  intros ty cs HI l tail E. destruct l as [p r it ls sl]. cbn [rest pos] in *. subst r.
  unfold free_spellings in HI.
  repeat (destruct HI as [HI|HI]; [inversion HI; subst ty cs; reflexivity|]).
  destruct HI.
Qed.

Definition followers : list Z := 123 :: g_whiteSpaces.

Lemma lex_look : forall ty cs, In (ty, cs) look_spellings -> forall l h tail, rest l = cs ++ h :: tail ->
  In h followers ->
  nt_body l = LOk (mkTok ty [] (pos l) (pos l + Z.of_nat (length cs)))
                  (set_pos_rest l (pos l + Z.of_nat (length cs)) (h :: tail)).
Proof.
  intros ty cs HI l h tail E HH. destruct l as [p r it ls sl]. cbn [rest pos] in *. subst r.
  unfold look_spellings in HI. unfold followers, g_whiteSpaces in HH.
  repeat (destruct HI as [HI|HI];
          [inversion HI; subst ty cs; repeat (destruct HH as [HH|HH]; [subst h; reflexivity|]); destruct HH|]).
  destruct HI.
Qed.

Lemma spellings_split : forall ty cs, In (ty, cs) spellings -> In (ty, cs) free_spellings \/ In (ty, cs) look_spellings.
Proof.
  intros ty cs H. unfold spellings in H.
  repeat (destruct H as [H|H];
          [inversion H; subst;
           first [left; unfold free_spellings; repeat (first [left; reflexivity|right]); fail
                 |right; unfold look_spellings; repeat (first [left; reflexivity|right]); fail]|]).
  destruct H.
Qed.

Lemma look_mem : forall ty cs, In (ty, cs) look_spellings -> mem ty look_toks = true.
Proof.
  intros ty cs H. unfold look_spellings in H.
  repeat (destruct H as [H|H]; [inversion H; subst; reflexivity|]). destruct H.
Qed.

Lemma lex_atok_f : forall t l tail, tok_ok t = true -> rest l = spell t ++ tail ->
  (fst t = g_TypeIdentifier -> tail_ok tail) ->
  (mem (fst t) look_toks = true -> exists h tail', tail = h :: tail' /\ In h followers) ->
  exists tk, nt_body l = LOk tk (set_pos_rest l (pos l + Z.of_nat (length (spell t))) tail)
             /\ t_ty tk = fst t /\ text_of tk = snd t.
Proof.
  intros t l tail H E HI HL. unfold tok_ok in H. unfold spell in *. destruct (fst t =? g_TypeIdentifier) eqn:I.
  - apply Z.eqb_eq in I.
    eexists. split; [apply lex_ident; eauto|]. cbn [t_ty]. split; [auto|].
    unfold text_of. cbn [t_lit]. apply to_text_id. unfold leaf_ok in H. apply andb_true_iff in H. tauto.
  - apply andb_true_iff in H. destruct H as [SN H]. apply spell_ty_in in H.
    assert (S0 : snd t = []) by (destruct (snd t); [reflexivity|discriminate]).
    destruct (spellings_split _ _ H) as [F|L].
    + eexists. split; [apply (lex_free _ _ F); exact E|]. cbn [t_ty]. split; [reflexivity|].
      unfold text_of. cbn [t_lit]. rewrite S0. reflexivity.
    + destruct (HL (look_mem _ _ L)) as (h & tail' & ET & IH). subst tail.
      eexists. split; [apply (lex_look _ _ L); [exact E|exact IH]|]. cbn [t_ty]. split; [reflexivity|].
      unfold text_of. cbn [t_lit]. rewrite S0. reflexivity.
Qed.

(* ------------------------------------------------------------------ gaps *)
(* token types whose spelling, written directly after an identifier, ends it *)
Definition id_tight : list Z :=
  [g_TypeStmtQuoteL; g_TypeStmtQuoteR; g_TypeIntDivMark; g_TypeLogicEqualW; g_TypeEqualMark; g_TypeLogicNotEqW;
   g_TypeNEMark; g_TypeLogicGtW; g_TypeGTMark; g_TypeLogicGteW; g_TypeGTEMark; g_TypeLogicLtW; g_TypeLTMark;
   g_TypeLogicLteW; g_TypeLTEMark; g_TypeLogicYesW; g_TypeLogicNoW; g_TypeLogicAndW; g_TypeLogicOrW].

(* the gap g between token t and the next token t2 *)
Definition gap_ok (t : atok) (g : list Z) (t2 : atok) : bool :=
  forallb is_ws g &&
  match g with
  | _ :: _ => true
  | [] => if fst t =? g_TypeIdentifier then mem (fst t2) id_tight
          else if mem (fst t) look_toks then fst t2 =? g_TypeStmtQuoteL
          else true
  end.

Lemma gap_follow : forall t g t2 X, gap_ok t g t2 = true ->
  (fst t = g_TypeIdentifier -> tail_ok (g ++ spell t2 ++ X)) /\
  (mem (fst t) look_toks = true -> exists h tail', g ++ spell t2 ++ X = h :: tail' /\ In h followers).
Proof.
  intros t g t2 X H. unfold gap_ok in H. apply andb_true_iff in H. destruct H as [HW H].
  destruct g as [|w g].
  - cbn [app]. split.
    + intro I. rewrite I in H. change (g_TypeIdentifier =? g_TypeIdentifier) with true in H. cbv iota in H.
      apply mem_in in H. destruct t2 as [ty2 l2]. cbn [fst] in H. unfold id_tight in H.
      repeat (destruct H as [H|H]; [subst ty2; reflexivity|]). destruct H.
    + intro L. destruct (fst t =? g_TypeIdentifier) eqn:I.
      { apply Z.eqb_eq in I. rewrite I in L. discriminate. }
      rewrite L in H. apply Z.eqb_eq in H. destruct t2 as [ty2 l2]. cbn [fst] in H. subst ty2.
      exists 123, X. split; [reflexivity|left; reflexivity].
  - cbn [forallb] in HW. apply andb_true_iff in HW. destruct HW as [W _]. cbn [app]. split.
    + intros _. unfold tail_ok, ident_stop. cbn [cur hd]. rewrite W. reflexivity.
    + intros _. eexists w, _. split; [reflexivity|]. right. apply mem_in. exact W.
Qed.

Fixpoint joing (ts : list atok) (gs : list (list Z)) : list Z :=
  match ts with
  | [] => []
  | t :: ts' => spell t ++ match ts' with [] => [] | _ => hd [] gs ++ joing ts' (tl gs) end
  end.

Definition afterg (ts : list atok) (gs : list (list Z)) : list Z :=
  match ts with [] => [] | _ => hd [] gs ++ joing ts (tl gs) end.

Fixpoint gaps_ok (ts : list atok) (gs : list (list Z)) : bool :=
  match ts with
  | t :: ts' => match ts' with t2 :: _ => gap_ok t (hd [] gs) t2 && gaps_ok ts' (tl gs) | [] => true end
  | [] => true
  end.

Lemma joing_cons : forall t ts gs, joing (t :: ts) gs = spell t ++ afterg ts gs.
Proof. intros. destruct ts; reflexivity. Qed.

Lemma endable_not_look : forall t, endable t = true -> mem (fst t) look_toks = false.
Proof.
  intros t H. unfold endable in H. apply orb_true_iff in H. destruct H as [H|H]; apply Z.eqb_eq in H; rewrite H; reflexivity.
Qed.

Lemma follow_from_gaps : forall t ts gs, gaps_ok (t :: ts) gs = true -> lastok (t :: ts) = true ->
  (fst t = g_TypeIdentifier -> tail_ok (afterg ts gs)) /\
  (mem (fst t) look_toks = true -> exists h tail', afterg ts gs = h :: tail' /\ In h followers).
Proof.
  intros t ts gs HG HL. destruct ts as [|t2 ts'].
  - cbn [afterg]. split; [intros _; apply tail_ok_nil|].
    intro L. cbn [lastok] in HL. rewrite (endable_not_look _ HL) in L. discriminate.
  - cbn [gaps_ok] in HG. apply andb_true_iff in HG. destruct HG as [HG _].
    unfold afterg. rewrite joing_cons. apply gap_follow. exact HG.
Qed.

(* ------------------------------------------------------------------ the token buffer along the gapped text *)
Lemma run_tokens_g : forall ts t gs st, geo st -> headok t st -> (fst t =? g_TypeEOF) = false ->
  rest (lx st) = afterg ts gs -> forallb tok_ok ts = true -> gaps_ok (t :: ts) gs = true -> lastok (t :: ts) = true ->
  exists st', feeds (t :: ts) st st' /\ geo st' /\ flag st' = true /\ peek_ty st' = g_TypeEOF /\
              rest (lx st') = [] /\ bind_ st' = bind_ st /\ stops 6 st'.
Proof.
  induction ts as [|t2 ts IH]; intros t gs st G HO NE ER TO GO LO.
  - cbn [afterg] in ER. pose proof HO as HO0. destruct HO as (Hf & tk0 & P2 & Ty & Tx).
    destruct (end_eof st tk0 G Hf P2 ltac:(rewrite Ty; exact NE) ER) as (st' & PN & R).
    exists st'. split; [apply feeds_one; split; assumption|exact R].
  - cbn [forallb] in TO. apply andb_true_iff in TO. destruct TO as [T2 TO].
    pose proof GO as GO0. cbn [gaps_ok] in GO. apply andb_true_iff in GO. destruct GO as [GA GO].
    assert (GW : forallb is_ws (hd [] gs) = true) by (unfold gap_ok in GA; apply andb_true_iff in GA; tauto).
    destruct G as (GL & GI & G1 & G2 & GP & GS).
    pose proof HO as HO0. destruct HO as (Hf & tk0 & P2 & Ty & Tx).
    destruct (head_plain_inv _ (spell_head _ T2)) as (c & r & SP & CW & CB & CI & CE).
    set (g := hd [] gs) in *.
    assert (ER2 : rest (lx st) = g ++ c :: (r ++ afterg ts (tl gs))).
    { rewrite ER. unfold afterg at 1. fold g. rewrite joing_cons, SP. reflexivity. }
    pose proof (next_token_gap _ _ _ _ ER2 GW CW CB) as NT.
    set (l1 := set_pos_rest (lx st) (pos (lx st) + Z.of_nat (length g)) (c :: r ++ afterg ts (tl gs))) in *.
    assert (LO1 : lastok (t2 :: ts) = true) by exact LO.
    destruct (follow_from_gaps t2 ts (tl gs) GO LO1) as [FI FL].
    destruct (lex_atok_f t2 l1 (afterg ts (tl gs)) T2 ltac:(rewrite SP; reflexivity) FI FL) as (tk2 & LX & Ty2 & Tx2).
    rewrite LX in NT.
    destruct (tok_ty_ok _ T2) as [NE2 NC2].
    pose proof (p_next_step st _ _ NT ltac:(rewrite Ty2; exact NC2) GL G1 G2) as PN.
    rewrite P2, Hf, Ty, NE, Ty2, NE2 in PN. cbn [orb] in PN.
    match type of PN with p_next st = Ok tt ?s => set (st1 := s) in * end.
    assert (G' : geo st1).
    { unfold geo, st1, l1. cbn [lx sl2 el2 set_pos_rest lines itype pos slen rest].
      split; [exact GL|]. split; [exact GI|]. split; [reflexivity|]. split; [reflexivity|].
      split; [lia|]. rewrite GS, ER2, SP. rewrite !app_length. cbn [length]. rewrite app_length. lia. }
    assert (HO1 : headok t2 st1).
    { split; [reflexivity|]. exists tk2. split; [reflexivity|]. auto. }
    destruct (IH t2 (tl gs) st1 G' HO1 NE2 eq_refl TO GO LO1) as (st' & FE & GF & FF & PF & RF & BF & SF).
    exists st'. split; [econstructor; eauto|]. auto 10.
Qed.

Lemma init_state_g : forall t ts gs, tok_ok t = true -> forallb tok_ok ts = true ->
  gaps_ok (t :: ts) gs = true -> lastok (t :: ts) = true ->
  exists l0 st0, lex_init (joing (t :: ts) gs) = LOk tt l0 /\ p_next (init_pstate l0) = Ok tt st0 /\
                 geo st0 /\ headok t st0 /\ rest (lx st0) = afterg ts gs /\ bind_ st0 = 0.
Proof.
  intros t ts gs T1 TO GO LO.
  destruct (head_plain_inv _ (spell_head _ T1)) as (c & r & SP & CW & CB & CI & CE).
  set (src := joing (t :: ts) gs).
  assert (ES : src = c :: r ++ afterg ts gs) by (unfold src; rewrite joing_cons, SP; reflexivity).
  set (l0 := mkL 0 src g_IndentUnknown [mkLine 0 0] (Z.of_nat (length src))).
  assert (LI : lex_init src = LOk tt l0).
  { unfold lex_init, parse_begin_lex. cbn [rest]. rewrite ES at 1. rewrite CE, CI. reflexivity. }
  destruct (follow_from_gaps t ts gs GO LO) as [FI FL].
  assert (R0 : rest l0 = spell t ++ afterg ts gs) by (cbn [l0 rest]; rewrite ES, SP; reflexivity).
  destruct (lex_atok_f t l0 (afterg ts gs) T1 R0 FI FL) as (tk & LX & Ty & Tx).
  assert (NT : next_token l0 = nt_body l0).
  { apply (next_token_plain l0 c (r ++ afterg ts gs)); [exact ES|exact CW|exact CB]. }
  rewrite LX in NT.
  destruct (tok_ty_ok _ T1) as [NE NC].
  pose proof (p_next_step (init_pstate l0) _ _ NT ltac:(rewrite Ty; exact NC) eq_refl eq_refl eq_refl) as PN.
  cbn [init_pstate p2 flag bind_ orb] in PN.
  eexists l0, _. split; [exact LI|]. split; [exact PN|].
  split.
  { unfold geo. cbn [lx sl2 el2 set_pos_rest lines itype pos slen rest l0].
    split; [reflexivity|]. split; [reflexivity|]. split; [reflexivity|]. split; [reflexivity|].
    split; [lia|]. rewrite ES, SP. cbn [length]. rewrite app_length. cbn [length]. lia. }
  split.
  { split; [reflexivity|]. exists tk. split; [reflexivity|]. auto. }
  split; reflexivity.
Qed.

(* ------------------------------------------------------------------ theorems *)
(* the text of s with the gaps gs (one per token boundary, missing ones are empty) *)
Definition showg (s : sx) (gs : list (list Z)) : list Z := joing (show s) gs.
Definition spacing_ok (s : sx) (gs : list (list Z)) : bool := gaps_ok (show s) gs.

Theorem parse_show_spaces : forall s gs fuel, wf s = true -> leaves_ok s = true -> spacing_ok s gs = true ->
  (cfuel s <= fuel)%nat ->
  exists l0 st', lex_init (showg s gs) = LOk tt l0 /\
                 (p_next ;;; parse_expression fuel) (init_pstate l0) = Ok (ast s) st' /\
                 peek_ty st' = g_TypeEOF /\ rest (lx st') = [].
Proof.
  intros s gs fuel W LO GO LF. unfold spacing_ok, showg in *.
  destruct (show_head s) as (t & ts & E & ST).
  pose proof (show_tok_ok s W LO) as TO. pose proof (show_lastok s) as LA. rewrite E in TO, LA, GO.
  cbn [forallb] in TO. apply andb_true_iff in TO. destruct TO as [T1 TO].
  destruct (init_state_g t ts gs T1 TO GO LA) as (l0 & st0 & LI & PN & G & HO & ER & B0).
  destruct (tok_ty_ok _ T1) as [NE NC].
  destruct (run_tokens_g ts t gs st0 G HO NE ER TO GO LA) as (st' & FE & GF & FF & PF & RF & BF & SF).
  exists l0, st'. rewrite E. split; [exact LI|].
  split; [|auto]. unfold bind. rewrite PN.
  apply parse_show_tokens; auto. rewrite E. exact FE.
Qed.

Theorem compile_show_spaces : forall s gs fuel, wf s = true -> leaves_ok s = true -> spacing_ok s gs = true ->
  (cfuel s + 5 <= fuel)%nat ->
  compile fuel (showg s gs) = OTree (one_expression (ast s)) [mkLine 0 0] g_IndentUnknown.
Proof.
  intros s gs fuel W LO GO LF. unfold spacing_ok, showg in *.
  destruct (show_head s) as (t & ts & E & ST).
  pose proof (show_tok_ok s W LO) as TO. pose proof (show_lastok s) as LA. rewrite E in TO, LA, GO.
  cbn [forallb] in TO. apply andb_true_iff in TO. destruct TO as [T1 TO].
  destruct (init_state_g t ts gs T1 TO GO LA) as (l0 & st0 & LI & PN & G & HO & ER & B0).
  destruct (tok_ty_ok _ T1) as [NE NC].
  destruct (run_tokens_g ts t gs st0 G HO NE ER TO GO LA) as (st' & FE & GF & FF & PF & RF & BF & SF).
  assert (PE : parse (fuel - 5) (NExpr false) st0 = Ok (ast s) st').
  { apply parse_show_tokens; auto; [lia|]. rewrite E. exact FE. }
  unfold compile. rewrite E, LI. unfold bind. rewrite PN.
  assert (PI : peek_indent st0 = 0).
  { destruct G as (GL & GI & G1 & _). unfold peek_indent, line_indent. rewrite GL, G1. reflexivity. }
  rewrite PI. pose proof (program_one t st0 st' (ast s) ST HO G B0 FF PF _ PE) as PP.
  replace (S (S (S (S (S (fuel - 5))))))%nat with fuel in PP by lia. rewrite PP.
  rewrite PF. change (g_TypeEOF =? g_TypeEOF) with true. cbn [negb].
  destruct GF as (GL & GI & _). rewrite GL, GI. reflexivity.
Qed.

Theorem compile_show_spaces_default : forall s gs, wf s = true -> leaves_ok s = true -> spacing_ok s gs = true ->
  compile (default_fuel (showg s gs)) (showg s gs) = OTree (one_expression (ast s)) [mkLine 0 0] g_IndentUnknown.
Proof.
  intros s gs W LO GO.
  set (F := Nat.max (default_fuel (showg s gs)) (cfuel s + 5)).
  pose proof (compile_show_spaces s gs F W LO GO ltac:(unfold F; lia)) as HF.
  destruct (compile_mono (default_fuel (showg s gs)) F (showg s gs) ltac:(unfold F; lia)) as [H|H].
  - exfalso. exact (compile_total _ H).
  - rewrite H. exact HF.
Qed.

(* single spaces are one of the spacings *)
Lemma single_spaces : forall ts, forallb tok_ok ts = true -> gaps_ok ts (repeat [32] (length ts)) = true /\
  joing ts (repeat [32] (length ts)) = joinc ts.
Proof.
  induction ts as [|t ts IH]; intro TO; [split; reflexivity|].
  cbn [forallb] in TO. apply andb_true_iff in TO. destruct TO as [T1 TO]. destruct (IH TO) as [I1 I2].
  destruct ts as [|t2 ts']; [split; [reflexivity|cbn [joing joinc]; apply app_nil_r]|].
  cbn [length repeat gaps_ok joing joinc hd tl] in *. split.
  - rewrite I1. reflexivity.
  - rewrite I2. reflexivity.
Qed.

(* ------------------------------------------------------------------ examples *)
Definition sA := SId [65]. Definition sB := SId [66]. Definition sC := SId [67]. Definition sD := SId [68].

(* {A + B}* {C - D} : no space inside the braces, none before *, a tab and two spaces around - *)
Example ex_spaces_1 :
  let s := SBin g_TypeMultiply (SBin g_TypePlus sA sB) (SBin g_TypeMinus sC sD) in
  let gs := [[]; [32]; [32]; []; []; [32]; []; [9]; [32; 32]; []] in
  showg s gs = [123; 65; 32; 43; 32; 66; 125; 42; 32; 123; 67; 9; 45; 32; 32; 68; 125] /\
  spacing_ok s gs = true /\
  compile (default_fuel (showg s gs)) (showg s gs)
  = OTree (one_expression (EArith 14 (EArith 12 (EId [65]) (EId [66])) (EArith 13 (EId [67]) (EId [68])))) [mkLine 0 0] 0.
Proof.
  intros s gs. split; [vm_compute; reflexivity|]. split; [vm_compute; reflexivity|].
  apply (compile_show_spaces_default s gs); vm_compute; reflexivity.
Qed.

(* A等于B或C且D and A==B或C<=D : keyword operators and marks need no spaces *)
Example ex_spaces_2 :
  let s := SBin g_TypeLogicOrW (SBin g_TypeLogicEqualW sA sB) (SBin g_TypeLogicAndW sC sD) in
  showg s [] = [65; 31561; 20110; 66; 25110; 67; 19988; 68] /\
  compile (default_fuel (showg s [])) (showg s [])
  = OTree (one_expression (ELogic 1 (ELogic 4 (EId [65]) (EId [66])) (ELogic 2 (EId [67]) (EId [68])))) [mkLine 0 0] 0.
Proof.
  intros s. split; [vm_compute; reflexivity|].
  apply (compile_show_spaces_default s []); vm_compute; reflexivity.
Qed.
Example ex_spaces_3 :
  let s := SBin g_TypeLogicOrW (SBin g_TypeEqualMark sA sB) (SBin g_TypeLTEMark sC sD) in
  showg s [] = [65; 61; 61; 66; 25110; 67; 60; 61; 68] /\
  compile (default_fuel (showg s [])) (showg s [])
  = OTree (one_expression (ELogic 1 (ELogic 4 (EId [65]) (EId [66])) (ELogic 9 (EId [67]) (EId [68])))) [mkLine 0 0] 0.
Proof.
  intros s. split; [vm_compute; reflexivity|].
  apply (compile_show_spaces_default s []); vm_compute; reflexivity.
Qed.
(* A==B==C and A等于B不为C without spaces: chained comparisons, left-nested (fixes/C03-chain) *)
Example ex_spaces_chain :
  let s := SBin g_TypeEqualMark (SBin g_TypeEqualMark sA sB) sC in
  showg s [] = [65; 61; 61; 66; 61; 61; 67] /\
  compile (default_fuel (showg s [])) (showg s [])
  = OTree (one_expression (ELogic 4 (ELogic 4 (EId [65]) (EId [66])) (EId [67]))) [mkLine 0 0] 0.
Proof.
  intros s. split; [vm_compute; reflexivity|].
  apply (compile_show_spaces_default s []); vm_compute; reflexivity.
Qed.
(* why + needs its spaces: A+B is ONE identifier (not a finding: the manual says so) *)
Example ex_plus_needs_spaces : compile 100 [65; 43; 66] = OTree (one_expression (EId [65; 43; 66])) [mkLine 0 0] 0.
Proof. vm_compute. reflexivity. Qed.

Print Assumptions parse_show_spaces.
Print Assumptions compile_show_spaces.
Print Assumptions compile_show_spaces_default.
