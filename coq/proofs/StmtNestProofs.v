(* C03 - "statement nesting from indentation": programs that are sequences of statements with nested blocks.
   Token-level theorem (any parser state) + character-level lifting (lexer with indentation counting and line table). *)
From Coq Require Import List ZArith Bool Lia Arith.
Import ListNotations.
From Zn.gen Require Import GenFrontTokens.
From Zn.model Require Import LexerTok Lexer Ast Parser.
From Zn.model Require StringLit.
From Zn.proofs Require Import FrontLexProofs FrontCompleteProofs FrontTotalProofs ExprPrecProofs ChainPrecProofs.
Open Scope Z_scope.

(* ================================================================== surface syntax of statements *)
Inductive sstmt :=
| TExpr (e : cx)                                   (* e *)
| TOut (e : cx)                                    (* 输出 e *)
| TLet (x : lit) (e : cx)                          (* 令 x = e *)
| TWhile (e : cx) (b : list sstmt)                 (* 每当 e ： + block *)
| TIf (e : cx) (b : list sstmt) (others : list (cx * list sstmt)) (els : option (list sstmt)).
                                                   (* 如果 e ： + block, 再如 e ： + block ..., 否则 ： + block *)

Section SInd.
Variable P : sstmt -> Prop.
Hypothesis HE : forall e, P (TExpr e).
Hypothesis HO : forall e, P (TOut e).
Hypothesis HL : forall x e, P (TLet x e).
Hypothesis HW : forall e b, Forall P b -> P (TWhile e b).
Definition optF (el : option (list sstmt)) : Prop := match el with Some x => Forall P x | None => True end.
Hypothesis HI : forall e b os el, Forall P b -> Forall (fun p => Forall P (snd p)) os -> optF el -> P (TIf e b os el).
Fixpoint sstmt_ind2 (s : sstmt) : P s :=
  match s with
  | TExpr e => HE e
  | TOut e => HO e
  | TLet x e => HL x e
  | TWhile e b => HW e b ((fix go (l : list sstmt) : Forall P l :=
                             match l with [] => Forall_nil P | x :: r => Forall_cons x (sstmt_ind2 x) (go r) end) b)
  | TIf e b os el =>
      HI e b os el
        ((fix go (l : list sstmt) : Forall P l :=
            match l with [] => Forall_nil P | x :: r => Forall_cons x (sstmt_ind2 x) (go r) end) b)
        ((fix go2 (l : list (cx * list sstmt)) : Forall (fun p => Forall P (snd p)) l :=
            match l with
            | [] => Forall_nil _
            | p :: r => Forall_cons p
                          (match p as p0 return Forall P (snd p0) with
                           | (a, bb) => (fix go (l : list sstmt) : Forall P l :=
                                           match l with [] => Forall_nil P | x :: r => Forall_cons x (sstmt_ind2 x) (go r) end) bb
                           end) (go2 r)
            end) os)
        (match el as el0 return optF el0 with
         | Some x => (fix go (l : list sstmt) : Forall P l :=
                        match l with [] => Forall_nil P | x :: r => Forall_cons x (sstmt_ind2 x) (go r) end) x
         | None => I
         end)
  end.
End SInd.

(* the prescribed tree (model/Ast.v as model/Parser.v builds it) *)
Fixpoint sast (s : sstmt) : stmt :=
  match s with
  | TExpr e => SExpr (cast e)
  | TOut e => SReturn (cast e)
  | TLet x e => SVarDecl [(1, [x], cast e)]
  | TWhile e b => SWhile (cast e) (map sast b)
  | TIf e b os el =>
      SBranch (Some (cast e)) (Some (map sast b))
              (match el with Some x => Some (map sast x) | None => None end)
              (map (fun p => cast (fst p)) os) (map (fun p => map sast (snd p)) os)
              (match el with Some _ => true | None => false end)
  end.

Definition prescribed (p : list sstmt) : program := mkProgram [] (Some (XBlock [] (map sast p) [])).

Definition nonnil {A} (l : list A) : bool := match l with [] => false | _ => true end.

Fixpoint swf (s : sstmt) : bool :=
  match s with
  | TExpr e | TOut e | TLet _ e => cwf e
  | TWhile e b => cwf e && nonnil b && forallb swf b
  | TIf e b os el =>
      cwf e && nonnil b && forallb swf b
      && forallb (fun p => cwf (fst p) && nonnil (snd p) && forallb swf (snd p)) os
      && match el with Some x => nonnil x && forallb swf x | None => true end
  end.

(* lines of tokens: indentation level, tokens, "simple" (the line ends a statement) *)
Definition pline : Type := (nat * list atok * bool)%type.
Definition kwt (ty : Z) : atok := (ty, []).

Fixpoint slines (d : nat) (s : sstmt) : list pline :=
  match s with
  | TExpr e => [(d, cshow e, true)]
  | TOut e => [(d, kwt g_TypeReturnW :: cshow e, true)]
  | TLet x e => [(d, kwt g_TypeDeclareW :: (g_TypeIdentifier, x) :: kwt g_TypeAssignMark :: cshow e, true)]
  | TWhile e b => (d, kwt g_TypeWhileLoopW :: cshow e ++ [tColon], false) :: flat_map (slines (S d)) b
  | TIf e b os el =>
      (d, kwt g_TypeCondW :: cshow e ++ [tColon], false) :: flat_map (slines (S d)) b
      ++ flat_map (fun p => (d, kwt g_TypeCondOtherW :: cshow (fst p) ++ [tColon], false) :: flat_map (slines (S d)) (snd p)) os
      ++ match el with Some x => (d, [kwt g_TypeCondElseW; tColon], false) :: flat_map (slines (S d)) x | None => [] end
  end.
Definition blines (d : nat) (b : list sstmt) : list pline := flat_map (slines d) b.
Definition olines (d : nat) (os : list (cx * list sstmt)) : list pline :=
  flat_map (fun p => (d, kwt g_TypeCondOtherW :: cshow (fst p) ++ [tColon], false) :: blines (S d) (snd p)) os.
Definition elines (d : nat) (el : option (list sstmt)) : list pline :=
  match el with Some x => (d, [kwt g_TypeCondElseW; tColon], false) :: blines (S d) x | None => [] end.

Lemma slines_if : forall d e b os el,
  slines d (TIf e b os el) = (d, kwt g_TypeCondW :: cshow e ++ [tColon], false) :: blines (S d) b ++ olines d os ++ elines d el.
Proof. reflexivity. Qed.
Lemma slines_while : forall d e b,
  slines d (TWhile e b) = (d, kwt g_TypeWhileLoopW :: cshow e ++ [tColon], false) :: blines (S d) b.
Proof. reflexivity. Qed.

(* fuel *)
Fixpoint sfuel (s : sstmt) : nat :=
  match s with
  | TExpr e | TOut e => (ccfuel e + 2)%nat
  | TLet _ e => (ccfuel e + 5)%nat
  | TWhile e b => (ccfuel e + 4 + fold_right (fun x a => S (sfuel x + a)) 1%nat b)%nat
  | TIf e b os el =>
      (ccfuel e + 6 + fold_right (fun x a => S (sfuel x + a)) 1%nat b
       + fold_right (fun p a => (ccfuel (fst p) + 6 + fold_right (fun x a => S (sfuel x + a)) 1%nat (snd p) + a)%nat) 2%nat os
       + match el with Some x => (6 + fold_right (fun x a => S (sfuel x + a)) 1%nat x)%nat | None => 2%nat end)%nat
  end.
Definition bfuel (b : list sstmt) : nat := fold_right (fun x a => S (sfuel x + a)) 1%nat b.
Definition ofuel (os : list (cx * list sstmt)) : nat :=
  fold_right (fun p a => (ccfuel (fst p) + 6 + bfuel (snd p) + a)%nat) 2%nat os.
Definition efuel (el : option (list sstmt)) : nat := match el with Some x => (6 + bfuel x)%nat | None => 2%nat end.
Lemma bfuel_cons : forall x r, bfuel (x :: r) = S (sfuel x + bfuel r). Proof. reflexivity. Qed.
Lemma ofuel_cons : forall p r, ofuel (p :: r) = (ccfuel (fst p) + 6 + bfuel (snd p) + ofuel r)%nat. Proof. reflexivity. Qed.
Lemma sfuel_while : forall e b, sfuel (TWhile e b) = (ccfuel e + 4 + bfuel b)%nat. Proof. reflexivity. Qed.
Lemma sfuel_if : forall e b os el, sfuel (TIf e b os el) = (ccfuel e + 6 + bfuel b + ofuel os + efuel el)%nat. Proof. reflexivity. Qed.

(* ================================================================== parser states up to flag and block indent *)
Definition reb (st : pstate) (f : bool) (b : Z) : pstate :=
  mkP (lx st) (p1 st) (p2 st) (sl1 st) (el1 st) (sl2 st) (el2 st) f b.
Definition setb (st : pstate) (b : Z) : pstate := reb st (flag st) b.

Lemma set_flag_reb : forall b st, set_flag b st = Ok tt (reb st b (bind_ st)). Proof. reflexivity. Qed.
Lemma set_bind_reb : forall i st, set_bind i st = Ok tt (setb st i). Proof. reflexivity. Qed.
Lemma get_bind_eq : forall st, get_bind st = Ok (bind_ st) st. Proof. reflexivity. Qed.
Lemma setb_same : forall st, setb st (bind_ st) = st. Proof. destruct st; reflexivity. Qed.

Lemma p_next_setb : forall st st' b, p_next st = Ok tt st' -> p_next (setb st b) = Ok tt (setb st' b).
Proof.
  intros st st' b H. unfold p_next in *. cbn [setb reb lx sl2 el2 p2 flag bind_].
  destruct (lex_skip_comments (S (length (rest (lx st)))) (lx st)) as [tk l'| | |]; try discriminate.
  cbv zeta in *.
  match type of H with (if meet_line_break ?x then _ else _) = _ => set (A := x) in * end.
  match goal with |- (if meet_line_break ?x then _ else _) = _ => set (B := x) end.
  assert (E : meet_line_break B = meet_line_break A) by reflexivity.
  rewrite E. destruct (meet_line_break A); inversion H; subst st'; reflexivity.
Qed.

Lemma p_next_bind : forall st st', p_next st = Ok tt st' -> bind_ st' = bind_ st.
Proof.
  intros st st' H. unfold p_next in H.
  destruct (lex_skip_comments (S (length (rest (lx st)))) (lx st)) as [tk l'| | |]; try discriminate.
  cbv zeta in H.
  match type of H with (if ?c then _ else _) = _ => destruct c end; inversion H; subst st'; reflexivity.
Qed.

Lemma headok_setb : forall t st b, headok t st -> headok t (setb st b).
Proof. intros t st b H. exact H. Qed.

Lemma feeds_setb : forall ts st st' b, feeds ts st st' -> feeds ts (setb st b) (setb st' b).
Proof.
  intros ts st st' b H. induction H as [st|t ts st st1 st' HO PN FE IH].
  - constructor.
  - econstructor; [apply headok_setb; exact HO|apply p_next_setb; exact PN|exact IH].
Qed.

Lemma feeds_bind : forall ts st st', feeds ts st st' -> bind_ st' = bind_ st.
Proof.
  intros ts st st' H. induction H as [st|t ts st st1 st' HO PN FE IH]; [reflexivity|].
  rewrite IH. apply p_next_bind. exact PN.
Qed.

(* ================================================================== parser states that present lines of tokens *)
Inductive lfeeds : list pline -> pstate -> pstate -> Prop :=
| LF_nil : forall st, lfeeds [] st st
| LF_cons : forall d ts sm rest st st1 st',
    peek_indent st = Z.of_nat d ->
    feeds ts (reb st false (bind_ st)) st1 ->
    (sm = true -> flag st1 = true) ->
    lfeeds rest st1 st' -> lfeeds ((d, ts, sm) :: rest) st st'.

Lemma lfeeds_app : forall a b st st', lfeeds (a ++ b) st st' -> exists st1, lfeeds a st st1 /\ lfeeds b st1 st'.
Proof.
  induction a as [|l a IH]; intros b st st' H; cbn [app] in H.
  - exists st. split; [constructor|exact H].
  - inversion H as [|d ts sm rest s0 s1 s2 PI FE FL LR]; subst.
    destruct (IH _ _ _ LR) as (stm & A & B). exists stm. split; [econstructor; eauto|exact B].
Qed.

Lemma lfeeds_app_intro : forall a b st st1 st', lfeeds a st st1 -> lfeeds b st1 st' -> lfeeds (a ++ b) st st'.
Proof.
  intros a b st st1 st' H. induction H; intro K; cbn [app]; [exact K|]. econstructor; eauto.
Qed.

Lemma lfeeds_setb : forall L st st' b, lfeeds L st st' -> lfeeds L (setb st b) (setb st' b).
Proof.
  intros L st st' b H. induction H as [st|d ts sm rest st st1 st' PI FE FL LR IH]; [constructor|].
  apply (LF_cons d ts sm rest (setb st b) (setb st1 b) (setb st' b)); [exact PI| |exact FL|exact IH].
  exact (feeds_setb _ _ _ b FE).
Qed.

Lemma lfeeds_reb : forall l r st st' f b, lfeeds (l :: r) st st' -> lfeeds (l :: r) (reb st f b) (setb st' b).
Proof.
  intros l r st st' f b H. apply (lfeeds_setb _ _ _ b) in H.
  inversion H as [|d ts sm rest s0 s1 s2 PI FE FL LR]; subst. econstructor; eauto.
Qed.

Lemma lfeeds_hd : forall d t ts sm r st st', lfeeds ((d, t :: ts, sm) :: r) st st' ->
  peek_indent st = Z.of_nat d /\ exists tk, p2 st = Some tk /\ t_ty tk = fst t /\ text_of tk = snd t.
Proof.
  intros d t ts sm r st st' H. inversion H as [|d0 ts0 sm0 rest s0 s1 s2 PI FE FL LR]; subst.
  split; [exact PI|]. apply feeds_head in FE. destruct FE as (_ & tk & P2 & Ty & Tx). exists tk. auto.
Qed.

(* ================================================================== what follows a statement / a block *)
Definition folS (d : Z) (st : pstate) : Prop :=
  exists tk, p2 st = Some tk /\ (t_ty tk =? g_TypeCommaSep) = false /\
    (t_ty tk = g_TypeEOF \/ peek_indent st < d \/
     (peek_indent st = d /\ mem (t_ty tk) [g_TypeCondElseW; g_TypeCondOtherW] = false)).
Definition endblk (d : Z) (st : pstate) : Prop :=
  exists tk, p2 st = Some tk /\ (t_ty tk =? g_TypeCommaSep) = false /\ (t_ty tk = g_TypeEOF \/ peek_indent st < d).

Lemma endblk_folS : forall d st, endblk d st -> folS d st.
Proof. intros d st (tk & P & C & H). exists tk. split; [exact P|]. split; [exact C|]. destruct H; auto. Qed.
Lemma folS_endblk : forall d st, folS d st -> endblk (d + 1) st.
Proof.
  intros d st (tk & P & C & H). exists tk. split; [exact P|]. split; [exact C|].
  destruct H as [H|[H|[H _]]]; [left; exact H|right; lia|right; lia].
Qed.
Lemma folS_setb : forall d st b, folS d st -> folS d (setb st b). Proof. intros d st b H. exact H. Qed.
Lemma endblk_setb : forall d st b, endblk d st -> endblk d (setb st b). Proof. intros d st b H. exact H. Qed.

Lemma folS_stopsS : forall d st, folS d st -> flag st = true -> stopsS 6 st.
Proof. intros d st (tk & P & C & _) F. exists tk. split; [exact P|]. split; [exact C|left; exact F]. Qed.

Lemma bgo_true : forall d st tk, p2 st = Some tk -> (t_ty tk =? g_TypeEOF) = false -> peek_indent st = d ->
  block_goes_on d st = true.
Proof. intros d st tk P E I. unfold block_goes_on, peek_ty. rewrite P. cbn [tok_ty]. rewrite E, I, Z.eqb_refl. reflexivity. Qed.

Lemma bgo_false : forall d st, endblk d st -> block_goes_on d st = false.
Proof.
  intros d st (tk & P & C & [E|L]); unfold block_goes_on, peek_ty; rewrite P; cbn [tok_ty].
  - rewrite E. reflexivity.
  - assert (N : (peek_indent st =? d) = false) by (apply Z.eqb_neq; lia). rewrite N. apply andb_false_r.
Qed.

Lemma tc_none_p2 : forall valid st tk, p2 st = Some tk -> flag st = false -> (t_ty tk =? g_TypeCommaSep) = false ->
  mem (t_ty tk) valid = false -> tc valid st = Ok None st.
Proof. intros valid st tk P F C M. unfold tc. rewrite P, C. unfold try_tail. rewrite P, F, M. reflexivity. Qed.

(* first tokens of statements *)
Definition sheads : list Z :=
  [g_TypeIdentifier; g_TypeString; g_TypeStmtQuoteL; g_TypeArrayQuoteL; g_TypeFuncQuoteL;
   g_TypeReturnW; g_TypeDeclareW; g_TypeWhileLoopW; g_TypeCondW].
Record shead_spec (ty : Z) : Prop := mk_shead {
  sh_comma : (ty =? g_TypeCommaSep) = false;
  sh_eof : (ty =? g_TypeEOF) = false;
  sh_br : mem ty [g_TypeCondElseW; g_TypeCondOtherW] = false;
  sh_imp : mem ty [g_TypeImportW] = false;
  sh_inp : mem ty [g_TypeInputW] = false;
  sh_catch : mem ty [g_TypeCatchErrorW] = false }.
Lemma sheads_facts : forall ty, mem ty sheads = true -> shead_spec ty.
Proof.
  intros ty H. apply mem_in in H. unfold sheads in H.
  repeat (destruct H as [H|H]; [subst ty; constructor; reflexivity|]). destruct H.
Qed.
Lemma starter2_shead : forall t, starter2 t -> mem (fst t) sheads = true.
Proof.
  intros [ty l] H. unfold starter2 in H. cbn [fst] in *. apply mem_in in H. unfold starters in H.
  repeat (destruct H as [H|H]; [subst ty; reflexivity|]). destruct H.
Qed.

Lemma slines_head : forall d s, exists t ts sm r, slines d s = (d, t :: ts, sm) :: r /\ mem (fst t) sheads = true.
Proof.
  intros d s. destruct s as [e|e|x e|e b|e b os el]; cbn [slines].
  - destruct (cshow_head e) as (t & ts & E & ST). rewrite E. eexists _, _, _, _. split; [reflexivity|apply starter2_shead; exact ST].
  - eexists _, _, _, _. split; reflexivity.
  - eexists _, _, _, _. split; reflexivity.
  - eexists _, _, _, _. split; reflexivity.
  - eexists _, _, _, _. split; reflexivity.
Qed.

Lemma blines_head : forall d b, b <> [] ->
  exists t ts sm r, blines d b = (d, t :: ts, sm) :: r /\ mem (fst t) sheads = true.
Proof.
  intros d b N. destruct b as [|s b]; [congruence|]. cbn [blines flat_map].
  destruct (slines_head d s) as (t & ts & sm & r & E & M). rewrite E. cbn [app]. eexists _, _, _, _. split; [reflexivity|exact M].
Qed.

Lemma folS_of_hd : forall d st tk, peek_indent st = d -> p2 st = Some tk -> shead_spec (t_ty tk) -> folS d st.
Proof.
  intros d st tk PI P [C _ B _ _ _]. exists tk. split; [exact P|]. split; [exact C|]. right. right. auto.
Qed.

(* ================================================================== the statements proved by induction *)
Definition StmtP (s : sstmt) : Prop :=
  swf s = true -> forall d F st st', (sfuel s <= F)%nat -> lfeeds (slines d s) st st' -> bind_ st = Z.of_nat d ->
    folS (Z.of_nat d) st' ->
    flag st' = true /\ exists b', parse F NStmt st = Ok (sast s) (setb st' b').

Definition BlkP (b : list sstmt) : Prop :=
  forall d F st st' acc, (bfuel b <= F)%nat -> lfeeds (blines d b) st st' -> endblk (Z.of_nat d) st' ->
    (b <> [] -> flag st' = true) /\
    exists b', parse F (NBlock (Z.of_nat d) acc) st = Ok (acc ++ map sast b) (setb st' b').

Lemma blk_of_stmts : forall b, Forall StmtP b -> forallb swf b = true -> BlkP b.
Proof.
  intros b H. induction H as [|s r Hs Hr IH]; intros W d F st st' acc LF L EB.
  - cbn [blines flat_map] in L. inversion L; subst. split; [congruence|]. exists (bind_ st'). rewrite setb_same.
    destruct F as [|f]; [cbn in LF; lia|]. cbn [parse]. rewrite (bgo_false _ _ EB). cbn [map]. rewrite app_nil_r. reflexivity.
  - cbn [forallb] in W. apply andb_true_iff in W. destruct W as [Ws Wr].
    cbn [blines flat_map] in L. fold (blines d r) in L. apply lfeeds_app in L. destruct L as (stm & L1 & L2).
    destruct (slines_head d s) as (t & ts & sm & rr & E & MH). pose proof (sheads_facts _ MH) as SH.
    assert (HD : peek_indent st = Z.of_nat d /\ exists tk, p2 st = Some tk /\ t_ty tk = fst t /\ text_of tk = snd t).
    { rewrite E in L1. eapply lfeeds_hd; eauto. }
    destruct HD as (PI & tk & P2 & Ty & _).
    assert (FO : folS (Z.of_nat d) stm).
    { destruct r as [|s2 r'].
      - cbn [blines flat_map] in L2. inversion L2; subst. apply endblk_folS. exact EB.
      - destruct (blines_head d (s2 :: r') ltac:(discriminate)) as (t2 & ts2 & sm2 & r2 & E2 & M2).
        rewrite E2 in L2. destruct (lfeeds_hd _ _ _ _ _ _ _ L2) as (PI2 & tk2 & P22 & Ty2 & _).
        apply (folS_of_hd _ _ tk2); auto. rewrite Ty2. apply sheads_facts. exact M2. }
    destruct F as [|f]; [cbn in LF; lia|]. rewrite bfuel_cons in LF.
    assert (L1' : lfeeds (slines d s) (setb st (Z.of_nat d)) (setb stm (Z.of_nat d))).
    { rewrite E in *. apply (lfeeds_reb _ _ _ _ (flag st) (Z.of_nat d)) in L1. exact L1. }
    destruct (Hs Ws d f (setb st (Z.of_nat d)) (setb stm (Z.of_nat d)) ltac:(lia) L1' eq_refl FO) as (FL & b1 & PS).
    change (setb (setb stm (Z.of_nat d)) b1) with (setb stm b1) in PS.
    assert (L2' : lfeeds (blines d r) (setb stm b1) (setb st' b1)) by (apply lfeeds_setb; exact L2).
    destruct (IH Wr d f (setb stm b1) (setb st' b1) (acc ++ [sast s]) ltac:(lia) L2' EB) as (FL2 & b2 & PB).
    change (setb (setb st' b1) b2) with (setb st' b2) in PB.
    split.
    { intros _. destruct r as [|s2 r'].
      - cbn [blines flat_map] in L2. inversion L2; subst. exact FL.
      - apply (FL2 ltac:(discriminate)). }
    exists b2. cbn [parse].
    rewrite (bgo_true _ _ tk P2 ltac:(rewrite Ty; destruct SH; assumption) PI).
    stepb (set_bind_reb (Z.of_nat d) st). stepb PS. cbn [map]. rewrite <- app_assoc in PB. exact PB.
Qed.

(* ------------------------------------------------------------------ expressions inside statement lines *)
Lemma expr_run_flag : forall e f s0 st1 d, cwf e = true -> (ccfuel e <= f)%nat -> feeds (cshow e) s0 st1 ->
  flag st1 = true -> folS d st1 -> parse f (NExpr false) s0 = Ok (cast e) st1.
Proof.
  intros e f s0 st1 d W LF FE FL FO.
  apply (parse_cshow_tokens_gen e false f s0 st1 st1 W LF FE). apply stopsG_refl. eapply folS_stopsS; eauto.
Qed.

Lemma expr_run_colon : forall e f s0 s0b, cwf e = true -> (ccfuel e <= f)%nat -> feeds (cshow e) s0 s0b ->
  headok tColon s0b -> parse f (NExpr false) s0 = Ok (cast e) s0b.
Proof.
  intros e f s0 s0b W LF FE HC.
  apply (parse_cshow_tokens_gen e false f s0 s0b s0b W LF FE). apply stopsG_refl.
  eapply headok_stopsS; [exact HC|reflexivity].
Qed.

Ltac zsimp := repeat match goal with
  | |- context [Z.eqb ?a ?b] => first [ change (Z.eqb a b) with true | change (Z.eqb a b) with false ]
  end.

Lemma line1 : forall d ts sm st st', lfeeds [(d, ts, sm)] st st' ->
  peek_indent st = Z.of_nat d /\ feeds ts (reb st false (bind_ st)) st' /\ (sm = true -> flag st' = true).
Proof.
  intros d ts sm st st' H. inversion H as [|d0 ts0 sm0 rest s0 s1 s2 PI FE FL LR]; subst. inversion LR; subst. auto.
Qed.

Lemma stmt_done_flag : forall st, flag st = true -> require_stmt_done st = Ok tt st.
Proof. intros st H. unfold require_stmt_done, stmt_done. rewrite H. reflexivity. Qed.

Lemma stmt_expr : forall e, StmtP (TExpr e).
Proof.
  intros e W d F st st' LF L B FO. cbn [swf] in W. cbn [slines] in L. cbn [sfuel] in LF.
  destruct (line1 _ _ _ _ _ L) as (PI & FE & FL). specialize (FL eq_refl).
  split; [exact FL|]. exists (bind_ st'). rewrite setb_same.
  destruct F as [|f]; [lia|]. cbn [parse sast]. stepb (set_flag_reb false st).
  destruct (cshow_head e) as (t & ts & E & ST). pose proof FE as FE0. rewrite E in FE0. apply feeds_head in FE0.
  destruct (starter2_facts t ST) as [C _ _ _ _ _ MS _ _ _ _ _]. destruct t as [ty l].
  stepb (tc_none_head stmt_types ty l _ FE0 C MS).
  stepb (expr_run_flag e f _ st' _ W ltac:(lia) FE FL FO).
  stepb (stmt_done_flag st' FL). reflexivity.
Qed.

Lemma stmt_out : forall e, StmtP (TOut e).
Proof.
  intros e W d F st st' LF L B FO. cbn [swf] in W. cbn [slines] in L. cbn [sfuel] in LF.
  destruct (line1 _ _ _ _ _ L) as (PI & FE & FL). specialize (FL eq_refl).
  split; [exact FL|]. exists (bind_ st'). rewrite setb_same.
  apply feeds_cons in FE. destruct FE as (HO & s0a & PN & FE).
  destruct (tc_take stmt_types _ _ _ _ HO PN eq_refl eq_refl) as (tk & T & Ty & _).
  destruct F as [|f]; [lia|]. cbn [parse sast]. stepb (set_flag_reb false st). stepb T. cbv zeta. rewrite Ty.
  zsimp. cbv iota.
  unfold bind at 1. unfold bind at 1. rewrite (expr_run_flag e f _ st' _ W ltac:(lia) FE FL FO). cbv beta iota.
  unfold ret at 1. stepb (stmt_done_flag st' FL). reflexivity.
Qed.

Lemma stmt_let : forall x e, StmtP (TLet x e).
Proof.
  intros x e W d F st st' LF L B FO. cbn [swf] in W. cbn [slines] in L. cbn [sfuel] in LF.
  destruct (line1 _ _ _ _ _ L) as (PI & FE & FL). specialize (FL eq_refl).
  split; [exact FL|]. exists (bind_ st'). rewrite setb_same.
  apply feeds_cons in FE. destruct FE as (HO & s0a & PN & FE).
  apply feeds_cons in FE. destruct FE as (HX & s0b & PNX & FE).
  apply feeds_cons in FE. destruct FE as (HA & s0c & PNA & FE).
  destruct (tc_take stmt_types _ _ _ _ HO PN eq_refl eq_refl) as (tk & T & Ty & _).
  destruct F as [|[|[|[|f]]]]; try lia.
  assert (PI0 : parse (S f) (NIdList []) s0a = Ok [x] s0b).
  { cbn [parse]. stepb (parse_id_take _ _ _ HX PNX).
    stepb (tc_none_head [g_TypePauseCommaSep] _ _ _ HA eq_refl eq_refl). reflexivity. }
  assert (PP : parse (S (S f)) NVDPair s0a = Ok (1, [x], cast e) st').
  { remember (S f) as g eqn:Eg. cbn [parse]. stepb PI0.
    destruct (tc_take [g_TypeAssignW; g_TypeAssignMark; g_TypeAssignConstW] _ _ _ _ HA PNA eq_refl eq_refl) as (tk2 & T2 & Ty2 & _).
    stepb T2. stepb (expr_run_flag e g _ st' _ W ltac:(lia) FE FL FO). rewrite Ty2. reflexivity. }
  assert (PV : parse (S (S (S f))) NVarDecl s0a = Ok (SVarDecl [(1, [x], cast e)]) st').
  { remember (S (S f)) as g eqn:Eg. cbn [parse]. stepb (tc_none_head [g_TypeFuncCall] _ _ _ HX eq_refl eq_refl). stepb PP. reflexivity. }
  remember (S (S (S f))) as g eqn:Eg.
  cbn [parse sast]. stepb (set_flag_reb false st). stepb T. cbv zeta. rewrite Ty.
  zsimp. cbv iota. stepb PV. stepb (stmt_done_flag st' FL). reflexivity.
Qed.

(* ------------------------------------------------------------------ header lines:  ... ： + indented block *)
Lemma ebi_ok : forall d st, peek_indent st = Z.of_nat (S d) ->
  expect_block_indent (Z.of_nat d) st = Ok (Some (Z.of_nat (S d))) st.
Proof.
  intros d st H. unfold expect_block_indent. cbv zeta. rewrite H.
  replace (Z.of_nat d + 1) with (Z.of_nat (S d)) by lia. rewrite Z.eqb_refl. reflexivity.
Qed.

Lemma folS_endblkS : forall d st, folS (Z.of_nat d) st -> endblk (Z.of_nat (S d)) st.
Proof. intros d st H. replace (Z.of_nat (S d)) with (Z.of_nat d + 1) by lia. apply folS_endblk. exact H. Qed.

Lemma endblk_of_hd : forall d st tk, peek_indent st = Z.of_nat d -> p2 st = Some tk -> (t_ty tk =? g_TypeCommaSep) = false ->
  endblk (Z.of_nat (S d)) st.
Proof. intros d st tk PI P C. exists tk. split; [exact P|]. split; [exact C|]. right. lia. Qed.

Lemma colon_block : forall b d f s0b st1 st', b <> [] -> BlkP b -> headok tColon s0b -> p_next s0b = Ok tt st1 ->
  lfeeds (blines (S d) b) st1 st' -> endblk (Z.of_nat (S d)) st' -> (bfuel b <= f)%nat ->
  consume [g_TypeFuncCall] s0b = Ok tt st1 /\ expect_block_indent (Z.of_nat d) st1 = Ok (Some (Z.of_nat (S d))) st1 /\
  flag st' = true /\ exists b', parse f (NBlock (Z.of_nat (S d)) []) st1 = Ok (map sast b) (setb st' b').
Proof.
  intros b d f s0b st1 st' N HB HC PC LB EB LF.
  split; [exact (consume_take _ _ _ _ HC PC eq_refl)|].
  destruct (blines_head (S d) b N) as (t & ts & sm & r & E & M).
  pose proof LB as LB0. rewrite E in LB0. destruct (lfeeds_hd _ _ _ _ _ _ _ LB0) as (PI & _).
  split; [apply ebi_ok; exact PI|].
  destruct (HB (S d) f st1 st' [] LF LB EB) as (FL & b' & PB). split; [exact (FL N)|]. exists b'. exact PB.
Qed.

Lemma nonnil_ne : forall A (l : list A), nonnil l = true -> l <> [].
Proof. intros A l H. destruct l; [discriminate|discriminate]. Qed.

Lemma stmt_while : forall e b, Forall StmtP b -> StmtP (TWhile e b).
Proof.
  intros e b HB W d F st st' LF L B FO. cbn [swf] in W.
  apply andb_true_iff in W. destruct W as [W Wb]. apply andb_true_iff in W. destruct W as [We Nb].
  apply nonnil_ne in Nb. pose proof (blk_of_stmts b HB Wb) as BP.
  rewrite slines_while in L. rewrite sfuel_while in LF.
  inversion L as [|d0 ts0 sm0 rest s0 st1 s2 PI FE _ LB]; subst.
  pose proof (feeds_bind _ _ _ FE) as BD. cbn [reb bind_] in BD. rewrite B in BD.
  apply feeds_cons in FE. destruct FE as (HO & s0a & PN & FE).
  apply feeds_app in FE. destruct FE as (s0b & FE3 & FE4). apply feeds_one in FE4. destruct FE4 as (HC & PC).
  destruct (tc_take stmt_types _ _ _ _ HO PN eq_refl eq_refl) as (tk & T & Ty & _).
  destruct F as [|[|f]]; try lia.
  destruct (colon_block b d f s0b st1 st' Nb BP HC PC LB (folS_endblkS _ _ FO) ltac:(lia)) as (CO & EBI & FL & b' & PB).
  split; [exact FL|]. exists b'.
  assert (PW : parse (S f) NWhile s0a = Ok (SWhile (cast e) (map sast b)) (setb st' b')).
  { cbn [parse]. stepb (expr_run_colon e f _ _ We ltac:(lia) FE3 HC). stepb CO. stepb (get_bind_eq st1).
    rewrite BD. stepb EBI. stepb PB. reflexivity. }
  remember (S f) as g eqn:Eg.
  cbn [parse sast]. stepb (set_flag_reb false st). stepb T. cbv zeta. rewrite Ty.
  zsimp. cbv iota. stepb PW. stepb (stmt_done_flag (setb st' b') FL). reflexivity.
Qed.

(* ------------------------------------------------------------------ 如果 ... 再如 ... 否则 *)
Definition elseB (el : option (list sstmt)) : option (list stmt) := match el with Some x => Some (map sast x) | None => None end.
Definition hasElse (el : option (list sstmt)) : bool := match el with Some _ => true | None => false end.

Lemma after_block_endblk : forall d os el stm st', lfeeds (olines d os ++ elines d el) stm st' ->
  folS (Z.of_nat d) st' -> endblk (Z.of_nat (S d)) stm.
Proof.
  intros d os el stm st' L FO. destruct os as [|[e2 b2] os'].
  - cbn [olines flat_map app] in L. destruct el as [x|]; cbn [elines] in L.
    + destruct (lfeeds_hd _ _ _ _ _ _ _ L) as (PI & tk & P & Ty & _). cbn [kwt fst] in Ty.
      apply (endblk_of_hd d stm tk PI P). rewrite Ty. reflexivity.
    + inversion L; subst. apply folS_endblkS. exact FO.
  - cbn [olines flat_map app fst snd] in L.
    destruct (lfeeds_hd _ _ _ _ _ _ _ L) as (PI & tk & P & Ty & _). cbn [kwt fst] in Ty.
    apply (endblk_of_hd d stm tk PI P). rewrite Ty. reflexivity.
Qed.

Lemma branch_tail : forall os, Forall (fun p => BlkP (snd p)) os ->
  forallb (fun p : cx * list sstmt => cwf (fst p) && nonnil (snd p)) os = true ->
  forall el, match el with Some x => BlkP x /\ x <> [] | None => True end ->
  forall d hs ifE ifB oE oB F st st', (hs = 1 \/ hs = 3) -> (ofuel os + efuel el <= F)%nat ->
    lfeeds (olines d os ++ elines d el) st st' -> flag st = true -> folS (Z.of_nat d) st' ->
    flag st' = true /\
    exists b', parse F (NBranch (Z.of_nat d) hs ifE ifB oE oB) st
               = Ok (SBranch ifE ifB (elseB el) (oE ++ map (fun p => cast (fst p)) os)
                             (oB ++ map (fun p => map sast (snd p)) os) (hasElse el)) (setb st' b').
Proof.
  intros os HO. induction HO as [|p os Hp Hos IH]; intros W el HE d hs ifE ifB oE oB F st st' HS LF L FLs FO.
  - cbn [olines flat_map app] in L. cbn [map]. rewrite !app_nil_r. destruct el as [x|].
    + destruct HE as (HB & Nx). cbn [elines] in L. cbn [ofuel fold_right efuel] in LF.
      inversion L as [|d0 ts0 sm0 rest s0 st1 s2 PI FE _ LB]; subst.
      apply feeds_cons in FE. destruct FE as (HK & s0b & PN & FE). apply feeds_one in FE. destruct FE as (HC & PC).
      destruct F as [|f]; [lia|].
      destruct (colon_block x d f s0b st1 st' Nx HB HC PC LB (folS_endblkS _ _ FO) ltac:(lia)) as (CO & EBI & FL & b' & PB).
      split; [exact FL|]. exists b'.
      destruct (tc_take [g_TypeCondElseW; g_TypeCondOtherW] _ _ _ _ HK PN eq_refl eq_refl) as (tk & T & Ty & _).
      destruct HK as (_ & tk0 & P0 & Ty0 & _). cbn [reb p2] in P0. cbn [kwt fst] in Ty0.
      cbn [parse]. cbv zeta. unfold peek_ty. rewrite P0. cbn [tok_ty]. rewrite Ty0, PI, (Z.eqb_refl (Z.of_nat d)).
      destruct HS as [HS|HS]; subst hs; zsimp; cbn [orb negb]; cbv iota;
        (stepb (set_flag_reb false st); stepb T; rewrite Ty; zsimp; cbv iota;
         unfold bind at 1; unfold ret at 1; cbv beta iota; stepb CO; stepb EBI; stepb PB; reflexivity).
    + cbn [elines] in L. inversion L; subst. split; [exact FLs|]. exists (bind_ st').
      destruct F as [|f]; [cbn in LF; lia|].
      destruct FO as (tk & P & C & FO).
      cbn [parse]. cbv zeta. unfold peek_ty. rewrite P. cbn [tok_ty elseB hasElse].
      assert (DONE : ret (SBranch ifE ifB None oE oB false) st' = Ok (SBranch ifE ifB None oE oB false) (setb st' (bind_ st')))
        by (rewrite setb_same; reflexivity).
      destruct (t_ty tk =? g_TypeEOF) eqn:EO.
      { destruct HS as [HS|HS]; subst hs; zsimp; cbn [orb negb]; cbv iota; exact DONE. }
      destruct FO as [E|[Lt|[Eq M]]].
      * rewrite E in EO. discriminate.
      * assert (N : (peek_indent st' =? Z.of_nat d) = false) by (apply Z.eqb_neq; lia). rewrite N.
        destruct HS as [HS|HS]; subst hs; zsimp; cbn [orb negb]; cbv iota; exact DONE.
      * rewrite Eq, (Z.eqb_refl (Z.of_nat d)).
        destruct HS as [HS|HS]; subst hs; zsimp; cbn [orb negb]; cbv iota;
          (stepb (set_flag_reb false st');
           stepb (tc_none_p2 [g_TypeCondElseW; g_TypeCondOtherW] (reb st' false (bind_ st')) tk P eq_refl C M);
           stepb (set_flag_reb true (reb st' false (bind_ st'))); unfold ret, setb; rewrite FLs; reflexivity).
  - cbn [forallb] in W. apply andb_true_iff in W. destruct W as [Wp W]. apply andb_true_iff in Wp. destruct Wp as [We Np].
    apply nonnil_ne in Np. destruct p as [e b]. cbn [fst snd] in *.
    cbn [olines flat_map] in L. fold (olines d os) in L. cbn [fst snd] in L. rewrite <- app_assoc in L.
    cbn [app] in L. rewrite ofuel_cons in LF. cbn [fst snd] in LF.
    inversion L as [|d0 ts0 sm0 rest s0 st1 s2 PI FE _ LB]; subst.
    apply lfeeds_app in LB. destruct LB as (stm & LB & LR).
    apply feeds_cons in FE. destruct FE as (HK & s0a & PN & FE).
    apply feeds_app in FE. destruct FE as (s0b & FE3 & FE4). apply feeds_one in FE4. destruct FE4 as (HC & PC).
    pose proof (after_block_endblk _ _ _ _ _ LR FO) as EBm.
    destruct F as [|f]; [lia|].
    destruct (colon_block b d f s0b st1 stm Np Hp HC PC LB EBm ltac:(lia)) as (CO & EBI & FLm & b1 & PB).
    assert (LR' : lfeeds (olines d os ++ elines d el) (setb stm b1) (setb st' b1)) by (apply lfeeds_setb; exact LR).
    destruct (IH W el HE d 3 ifE ifB (oE ++ [cast e]) (oB ++ [map sast b]) f (setb stm b1) (setb st' b1)
                 (or_intror eq_refl) ltac:(lia) LR' FLm FO) as (FL & b2 & PR).
    change (setb (setb st' b1) b2) with (setb st' b2) in PR.
    split; [exact FL|]. exists b2.
    destruct (tc_take [g_TypeCondElseW; g_TypeCondOtherW] _ _ _ _ HK PN eq_refl eq_refl) as (tk & T & Ty & _).
    destruct HK as (_ & tk0 & P0 & Ty0 & _). cbn [reb p2] in P0. cbn [kwt fst] in Ty0.
    cbn [map]. rewrite <- !app_assoc in PR. cbn [app] in PR.
    cbn [parse]. cbv zeta. unfold peek_ty. rewrite P0. cbn [tok_ty]. rewrite Ty0, PI, (Z.eqb_refl (Z.of_nat d)).
    destruct HS as [HS|HS]; subst hs; zsimp; cbn [orb negb]; cbv iota;
      (stepb (set_flag_reb false st); stepb T; rewrite Ty; zsimp; cbv iota;
       unfold bind at 1; unfold bind at 1; rewrite (expr_run_colon e f _ _ We ltac:(lia) FE3 HC); cbv beta iota;
       unfold ret at 1; stepb CO; stepb EBI; stepb PB; exact PR).
Qed.

Lemma stmt_if : forall e b os el, Forall StmtP b -> Forall (fun p => Forall StmtP (snd p)) os ->
  match el with Some x => Forall StmtP x | None => True end -> StmtP (TIf e b os el).
Proof.
  intros e b os el HB HOS HEL W d F st st' LF L B FO. cbn [swf] in W.
  apply andb_true_iff in W. destruct W as [W Wel]. apply andb_true_iff in W. destruct W as [W Wos].
  apply andb_true_iff in W. destruct W as [W Wb]. apply andb_true_iff in W. destruct W as [We Nb].
  apply nonnil_ne in Nb. pose proof (blk_of_stmts b HB Wb) as BP.
  assert (BOS : Forall (fun p => BlkP (snd p)) os /\
                forallb (fun p : cx * list sstmt => cwf (fst p) && nonnil (snd p)) os = true).
  { clear - HOS Wos. induction HOS as [|p os Hp Hos IH]; [split; [constructor|reflexivity]|].
    cbn [forallb] in Wos. apply andb_true_iff in Wos. destruct Wos as [Wp Wos].
    apply andb_true_iff in Wp. destruct Wp as [Wp Wpb]. destruct (IH Wos) as [A1 A2].
    split; [constructor; [apply blk_of_stmts; assumption|exact A1]|]. cbn [forallb]. rewrite Wp, A2. reflexivity. }
  destruct BOS as [BOS WOS].
  assert (BEL : match el with Some x => BlkP x /\ x <> [] | None => True end).
  { destruct el as [x|]; [|exact I]. apply andb_true_iff in Wel. destruct Wel as [Nx Wx].
    split; [apply blk_of_stmts; assumption|apply nonnil_ne; exact Nx]. }
  rewrite slines_if in L. rewrite sfuel_if in LF.
  inversion L as [|d0 ts0 sm0 rest s0 st1 s2 PI FE _ LB0]; subst.
  apply lfeeds_app in LB0. destruct LB0 as (stm & LB & LR).
  apply feeds_cons in FE. destruct FE as (HO & s0a & PN & FE).
  pose proof (p_next_bind _ _ PN) as BD. cbn [reb bind_] in BD. rewrite B in BD.
  apply feeds_app in FE. destruct FE as (s0b & FE3 & FE4). apply feeds_one in FE4. destruct FE4 as (HC & PC).
  destruct (tc_take stmt_types _ _ _ _ HO PN eq_refl eq_refl) as (tk & T & Ty & _).
  pose proof (after_block_endblk _ _ _ _ _ LR FO) as EBm.
  destruct F as [|[|f]]; try lia.
  destruct (colon_block b d f s0b st1 stm Nb BP HC PC LB EBm ltac:(lia)) as (CO & EBI & FLm & b1 & PB).
  assert (LR' : lfeeds (olines d os ++ elines d el) (setb stm b1) (setb st' b1)) by (apply lfeeds_setb; exact LR).
  destruct (branch_tail os BOS WOS el BEL d 1 (Some (cast e)) (Some (map sast b)) [] [] f (setb stm b1) (setb st' b1)
              (or_introl eq_refl) ltac:(lia) LR' FLm FO) as (FL & b2 & PR).
  change (setb (setb st' b1) b2) with (setb st' b2) in PR. cbn [app] in PR.
  split; [exact FL|]. exists b2.
  assert (PBr : parse (S f) (NBranch (Z.of_nat d) 0 None None [] []) s0a = Ok (sast (TIf e b os el)) (setb st' b2)).
  { cbn [parse]. cbv zeta. zsimp. cbn [orb]. cbv iota.
    unfold bind at 1. unfold bind at 1. rewrite (expr_run_colon e f _ _ We ltac:(lia) FE3 HC). cbv beta iota.
    unfold ret at 1. stepb CO. stepb EBI. stepb PB. exact PR. }
  remember (S f) as g eqn:Eg.
  cbn [parse]. stepb (set_flag_reb false st). stepb T. cbv zeta. rewrite Ty.
  zsimp. cbv iota. unfold bind at 1. unfold bind at 1. rewrite (get_bind_eq s0a), BD. cbv beta iota. rewrite PBr. cbv beta iota.
  stepb (stmt_done_flag (setb st' b2) FL). reflexivity.
Qed.

Theorem stmt_all : forall s, StmtP s.
Proof.
  induction s using sstmt_ind2.
  - apply stmt_expr.
  - apply stmt_out.
  - apply stmt_let.
  - apply stmt_while; assumption.
  - apply stmt_if; assumption.
Qed.

Lemma Forall_all : forall (P : sstmt -> Prop) l, (forall s, P s) -> Forall P l.
Proof. intros P l H. induction l; constructor; auto. Qed.

(* Token-level theorems: on ANY parser state that presents the lines of a statement (a block) at nesting level d,
   followed by what may follow a statement (a block), ParseStatement (the block loop) returns the prescribed tree. *)
Theorem parse_stmt_tokens : forall s d F st st', swf s = true -> (sfuel s <= F)%nat ->
  lfeeds (slines d s) st st' -> bind_ st = Z.of_nat d -> folS (Z.of_nat d) st' ->
  flag st' = true /\ exists b', parse F NStmt st = Ok (sast s) (setb st' b').
Proof. intros s d F st st' W LF L B FO. exact (stmt_all s W d F st st' LF L B FO). Qed.

Theorem parse_block_tokens : forall b d F st st' acc, forallb swf b = true -> (bfuel b <= F)%nat ->
  lfeeds (blines d b) st st' -> endblk (Z.of_nat d) st' ->
  exists b', parse F (NBlock (Z.of_nat d) acc) st = Ok (acc ++ map sast b) (setb st' b').
Proof.
  intros b d F st st' acc W LF L EB.
  destruct (blk_of_stmts b (Forall_all _ _ stmt_all) W d F st st' acc LF L EB) as (_ & H). exact H.
Qed.

(* ------------------------------------------------------------------ the program: ParseProgram / ParseExecBlock loops *)
Definition ateof (st : pstate) : Prop := exists tk, p2 st = Some tk /\ t_ty tk = g_TypeEOF.

Lemma ateof_endblk : forall d st, ateof st -> endblk d st.
Proof. intros d st (tk & P & E). exists tk. split; [exact P|]. split; [rewrite E; reflexivity|left; exact E]. Qed.

Lemma exec_loop : forall p, forallb swf p = true -> forall F st st' acc, (bfuel p <= F)%nat ->
  lfeeds (blines 0 p) st st' -> ateof st' ->
  exists b', parse F (NExec 0 2 [] acc []) st = Ok (XBlock [] (acc ++ map sast p) []) (setb st' b').
Proof.
  induction p as [|s r IH]; intros W F st st' acc LF L EO.
  - cbn [blines flat_map] in L. inversion L; subst. exists (bind_ st'). rewrite setb_same.
    destruct F as [|f]; [cbn in LF; lia|]. cbn [parse]. rewrite (bgo_false _ _ (ateof_endblk 0 _ EO)).
    cbn [map]. rewrite app_nil_r. reflexivity.
  - cbn [forallb] in W. apply andb_true_iff in W. destruct W as [Ws Wr].
    cbn [blines flat_map] in L. fold (blines 0 r) in L. apply lfeeds_app in L. destruct L as (stm & L1 & L2).
    destruct (slines_head 0 s) as (t & ts & sm & rr & E & MH). pose proof (sheads_facts _ MH) as SH.
    assert (HD : peek_indent st = Z.of_nat 0 /\ exists tk, p2 st = Some tk /\ t_ty tk = fst t /\ text_of tk = snd t).
    { rewrite E in L1. eapply lfeeds_hd; eauto. }
    destruct HD as (PI & tk & P2 & Ty & _). change (Z.of_nat 0) with 0 in PI.
    assert (FO : folS (Z.of_nat 0) stm).
    { destruct r as [|s2 r'].
      - cbn [blines flat_map] in L2. inversion L2; subst. apply endblk_folS. apply ateof_endblk. exact EO.
      - destruct (blines_head 0 (s2 :: r') ltac:(discriminate)) as (t2 & ts2 & sm2 & r2 & E2 & M2).
        rewrite E2 in L2. destruct (lfeeds_hd _ _ _ _ _ _ _ L2) as (PI2 & tk2 & P22 & Ty2 & _).
        apply (folS_of_hd _ _ tk2); auto. rewrite Ty2. apply sheads_facts. exact M2. }
    destruct F as [|f]; [cbn in LF; lia|]. rewrite bfuel_cons in LF.
    assert (L1' : lfeeds (slines 0 s) (reb st false 0) (setb stm 0)).
    { rewrite E in *. apply (lfeeds_reb _ _ _ _ false 0) in L1. exact L1. }
    destruct (stmt_all s Ws 0%nat f (reb st false 0) (setb stm 0) ltac:(lia) L1' eq_refl FO) as (FL & b1 & PS).
    change (setb (setb stm 0) b1) with (setb stm b1) in PS.
    assert (L2' : lfeeds (blines 0 r) (setb stm b1) (setb st' b1)) by (apply lfeeds_setb; exact L2).
    destruct (IH Wr f (setb stm b1) (setb st' b1) (acc ++ [sast s]) ltac:(lia) L2' EO) as (b2 & PB).
    change (setb (setb st' b1) b2) with (setb st' b2) in PB.
    exists b2. destruct SH as [C NE _ _ _ MC]. rewrite <- Ty in C, NE, MC.
    cbn [parse]. rewrite (bgo_true _ _ tk P2 NE PI).
    stepb (set_bind_reb 0 st). zsimp. cbv iota. stepb (set_flag_reb false (setb st 0)).
    change (reb (setb st 0) false (bind_ (setb st 0))) with (reb st false 0).
    stepb (tc_none_p2 [g_TypeCatchErrorW] (reb st false 0) tk P2 eq_refl C MC).
    stepb PS. cbn [map]. rewrite <- app_assoc in PB. exact PB.
Qed.

Definition pfuel (p : list sstmt) : nat := (bfuel p + 4)%nat.

Theorem parse_program_tokens : forall p F st st', p <> [] -> forallb swf p = true -> (pfuel p <= F)%nat ->
  lfeeds (blines 0 p) st st' -> ateof st' ->
  exists b', parse F (NProgram 0 1 [] None) st = Ok (prescribed p) (setb st' b').
Proof.
  intros p F st st' N W LF L EO. unfold pfuel in LF.
  destruct (blines_head 0 p N) as (t & ts & sm & r & E & MH). pose proof (sheads_facts _ MH) as SH.
  assert (HD : peek_indent st = Z.of_nat 0 /\ exists tk, p2 st = Some tk /\ t_ty tk = fst t /\ text_of tk = snd t).
  { rewrite E in L. eapply lfeeds_hd; eauto. }
  destruct HD as (PI & tk & P2 & Ty & _). change (Z.of_nat 0) with 0 in PI.
  destruct SH as [C NE _ MI MN _]. rewrite <- Ty in C, NE, MI, MN.
  destruct F as [|[|[|[|f]]]]; try lia.
  assert (L' : lfeeds (blines 0 p) (reb st false 0) (setb st' 0)).
  { rewrite E in *. apply (lfeeds_reb _ _ _ _ false 0) in L. exact L. }
  destruct (exec_loop p W (S f) (reb st false 0) (setb st' 0) [] ltac:(lia) L' EO) as (b' & PX).
  change (setb (setb st' 0) b') with (setb st' b') in PX. cbn [app] in PX.
  exists b'.
  assert (BG : block_goes_on 0 (reb st false 0) = true) by (apply (bgo_true _ _ tk P2 NE PI)).
  assert (P1 : parse (S (S f)) (NExec 0 1 [] [] []) (reb st false 0) = Ok (XBlock [] (map sast p) []) (setb st' b')).
  { remember (S f) as g eqn:Eg. cbn [parse]. rewrite BG. stepb (set_bind_reb 0 (reb st false 0)). zsimp. cbv iota.
    change (setb (reb st false 0) 0) with (reb st false 0).
    stepb (tc_none_p2 [g_TypeInputW] (reb st false 0) tk P2 eq_refl C MN). exact PX. }
  assert (P2' : parse (S (S (S f))) (NProgram 0 2 [] None) (reb st false 0) = Ok (prescribed p) (setb st' b')).
  { remember (S (S f)) as g eqn:Eg. cbn [parse]. rewrite BG. stepb (set_bind_reb 0 (reb st false 0)).
    stepb (set_flag_reb false (setb (reb st false 0) 0)). zsimp. cbv iota.
    change (reb (setb (reb st false 0) 0) false (bind_ (setb (reb st false 0) 0))) with (reb st false 0).
    stepb P1. rewrite Eg.
    exact (prog_end (S f) 0 2 [] (Some (XBlock [] (map sast p) [])) (setb st' b') (bgo_false _ _ (ateof_endblk 0 _ EO))). }
  remember (S (S (S f))) as g eqn:Eg. cbn [parse]. rewrite (bgo_true _ _ tk P2 NE PI).
  stepb (set_bind_reb 0 st). stepb (set_flag_reb false (setb st 0)). zsimp. cbv iota.
  change (reb (setb st 0) false (bind_ (setb st 0))) with (reb st false 0).
  stepb (tc_none_p2 [g_TypeImportW] (reb st false 0) tk P2 eq_refl C MI). exact P2'.
Qed.

(* ================================================================== Part 2: characters *)
(* spellings of the statement keywords: 输出 令 每当 如果 再如 否则 and the assignment mark = *)
Definition spellings3 : list (Z * list Z) :=
  [(g_TypeReturnW, [36755; 20986]); (g_TypeDeclareW, [20196]); (g_TypeWhileLoopW, [27599; 24403]);
   (g_TypeCondW, [22914; 26524]); (g_TypeCondOtherW, [20877; 22914]); (g_TypeCondElseW, [21542; 21017]);
   (g_TypeAssignMark, [61])].
Definition in3 (t : atok) : bool := mem (fst t) (map fst spellings3).
Definition spell3 (t : atok) : list Z := if in3 t then spell_ty (fst t) spellings3 else spell2 t.
Definition tok_ok3 (t : atok) : bool :=
  if in3 t then (match snd t with [] => true | _ => false end) else tok_ok2 t.
Definition endable3 (t : atok) : bool := negb (in3 t) && (endable2 t || (fst t =? g_TypeFuncCall)).

Fixpoint joinc3 (ts : list atok) : list Z :=
  match ts with
  | [] => []
  | t :: ts' => match ts' with [] => spell3 t | _ => spell3 t ++ 32 :: joinc3 ts' end
  end.
Definition after3 (ts : list atok) : list Z := match ts with [] => [] | _ => 32 :: joinc3 ts end.
Lemma joinc3_cons : forall t ts, joinc3 (t :: ts) = spell3 t ++ after3 ts.
Proof. intros t ts. destruct ts as [|t2 ts]; cbn [joinc3 after3]; [rewrite app_nil_r|]; reflexivity. Qed.

Fixpoint lastok3 (ts : list atok) : bool :=
  match ts with
  | [] => true
  | t :: r => match r with [] => endable3 t | _ => lastok3 r end
  end.

Lemma lex_fixed_sp3 : forall ty cs, In (ty, cs) spellings3 -> forall l t', rest l = cs ++ 32 :: t' ->
  nt_body l = LOk (mkTok ty [] (pos l) (pos l + Z.of_nat (length cs)))
                  (set_pos_rest l (pos l + Z.of_nat (length cs)) (32 :: t')).
Proof.
  intros ty cs HI l t' E. destruct l as [p r it ls sl]. cbn [rest pos] in *. subst r.
  unfold spellings3 in HI.
  repeat (destruct HI as [HI|HI]; [inversion HI; subst ty cs; reflexivity|]).
  destruct HI.
Qed.

Lemma lex_colon_any : forall l tail, rest l = 65306 :: tail ->
  nt_body l = LOk (mkTok g_TypeFuncCall [] (pos l) (pos l + 1)) (set_pos_rest l (pos l + 1) tail).
Proof. intros l tail E. destruct l as [p r it ls sl]. cbn [rest pos] in *. subst r. reflexivity. Qed.

Lemma lex_atok3 : forall t l tail, tok_ok3 t = true -> rest l = spell3 t ++ tail ->
  (exists t', tail = 32 :: t') \/ (endable3 t = true /\ tail_ok tail) ->
  exists tk, nt_body l = LOk tk (set_pos_rest l (pos l + Z.of_nat (length (spell3 t))) tail)
             /\ t_ty tk = fst t /\ text_of tk = snd t.
Proof.
  intros t l tail H E HT. unfold tok_ok3 in H. unfold spell3, endable3 in *. destruct (in3 t) eqn:I3.
  - unfold in3 in I3. pose proof (spell_ty_in _ _ I3) as HI.
    assert (S0 : snd t = []) by (destruct (snd t); [reflexivity|discriminate]).
    destruct HT as [(t' & A)|[EN _]]; [|discriminate]. subst tail.
    eexists. split; [apply (lex_fixed_sp3 _ _ HI); exact E|]. cbn [t_ty]. split; [reflexivity|].
    unfold text_of. cbn [t_lit]. rewrite S0. reflexivity.
  - cbn [negb andb] in HT. destruct HT as [A|[EN A]].
    + apply lex_atok2; [exact H|exact E|left; exact A].
    + destruct (endable2 t) eqn:E2.
      * apply lex_atok2; [exact H|exact E|right; split; [exact E2|exact A]].
      * cbn [orb] in EN. apply Z.eqb_eq in EN.
        assert (S0 : snd t = []).
        { unfold tok_ok2 in H. rewrite EN in H. change (g_TypeFuncCall =? g_TypeString) with false in H.
          change (mem g_TypeFuncCall (map fst spellings2)) with true in H. cbv iota in H.
          destruct (snd t); [reflexivity|discriminate]. }
        assert (SP : spell2 t = [65306]) by (unfold spell2; rewrite EN; reflexivity).
        rewrite SP in *. cbn [app] in E.
        eexists. split; [apply lex_colon_any; exact E|]. cbn [t_ty]. split; [symmetry; exact EN|].
        unfold text_of. cbn [t_lit]. rewrite S0. reflexivity.
Qed.

Lemma spellings3_heads : forallb (fun e : Z * list Z => head_plain (snd e)) spellings3 = true.
Proof. vm_compute. reflexivity. Qed.
Lemma spell_head3 : forall t, tok_ok3 t = true -> head_plain (spell3 t) = true.
Proof.
  intros t H. unfold tok_ok3 in H. unfold spell3. destruct (in3 t) eqn:I3; [|apply spell_head2; exact H].
  unfold in3 in I3. apply spell_ty_in in I3. pose proof spellings3_heads as A. rewrite forallb_forall in A. apply (A _ I3).
Qed.
Lemma spellings3_types : forallb (fun ty => negb (ty =? g_TypeEOF) && negb (ty =? g_TypeComment)) (map fst spellings3) = true.
Proof. vm_compute. reflexivity. Qed.
Lemma tok_ty_ok3 : forall t, tok_ok3 t = true -> (fst t =? g_TypeEOF) = false /\ (fst t =? g_TypeComment) = false.
Proof.
  intros t H. unfold tok_ok3 in H. destruct (in3 t) eqn:I3; [|apply tok_ty_ok2; exact H].
  unfold in3 in I3. apply mem_in in I3. pose proof spellings3_types as A. rewrite forallb_forall in A. specialize (A _ I3).
  apply andb_true_iff in A. destruct A as [A B]. apply negb_true_iff in A. apply negb_true_iff in B. auto.
Qed.

Lemma tail_ok_lf : forall t', tail_ok (10 :: t').
Proof. intro t'. reflexivity. Qed.

(* ------------------------------------------------------------------ the lexer over a line break and the indentation *)
Lemma run_same_spaces : forall n c r p k, (c =? 32) = false ->
  run_same 32 (repeat 32 n ++ c :: r) p k = (c :: r, p + Z.of_nat n + 1, k + Z.of_nat n).
Proof.
  induction n as [|n IH]; intros c r p k C.
  - cbn [repeat app run_same]. rewrite C. f_equal; [f_equal|]; lia.
  - cbn [repeat app run_same]. change (32 =? 32) with true. cbv iota. rewrite IH by exact C.
    f_equal; [f_equal|]; lia.
Qed.

Lemma set_last_indent_app : forall n ls a s, set_last_indent n (ls ++ [mkLine a s]) = ls ++ [mkLine n s].
Proof.
  induction ls as [|l ls IH]; intros a s; [reflexivity|].
  cbn [app]. cbn [set_last_indent]. destruct (ls ++ [mkLine a s]) eqn:E.
  - destruct ls; discriminate.
  - rewrite <- E. rewrite IH. reflexivity.
Qed.

Definition nl_state (l : lstate) (n : nat) (cr : list Z) : lstate :=
  mkL (pos l + 1 + Z.of_nat (4 * n)) cr (if (n =? 0)%nat then itype l else g_IndentSpace)
      (lines l ++ [mkLine (Z.of_nat n) (pos l + 1)]) (slen l).

Ltac lsimp := cbn [nextc set_pos_rest set_lines set_itype rest pos itype lines slen tl curc hd].

Lemma parse_line_nl : forall f l n c r, rest l = 10 :: repeat 32 (4 * n) ++ c :: r ->
  is_break c = false -> is_indent_char c = false ->
  line_text_ok l (pos l) = true -> (itype l = g_IndentUnknown \/ itype l = g_IndentSpace) ->
  parse_line (S f) l = LOk tt (nl_state l n (c :: r)).
Proof.
  intros f l n c r E CB CI LT IT. destruct l as [p rs it ls sl]. cbn [rest pos itype lines slen] in *. subst rs.
  assert (C32 : (c =? 32) = false).
  { unfold is_indent_char in CI. apply orb_false_iff in CI. destruct CI as [A _]. exact A. }
  assert (C9 : (c =? 9) = false).
  { unfold is_indent_char in CI. apply orb_false_iff in CI. destruct CI as [_ A]. exact A. }
  assert (C13 : (c =? 13) = false).
  { unfold is_break in CB. apply orb_false_iff in CB. destruct CB as [A _]. exact A. }
  unfold nl_state. cbn [pos itype lines slen].
  destruct n as [|m].
  - change (4 * 0)%nat with 0%nat in *. cbn [repeat app] in *. cbn [parse_line]. cbv zeta. lsimp.
    rewrite LT. cbn [negb]. cbv iota.
    unfold is_pair. change (10 =? g_RuneCR) with false. change (10 =? g_RuneLF) with true.
    change (c =? g_RuneCR) with (c =? 13). rewrite C13. cbn [andb orb]. cbv iota. lsimp.
    unfold count_indent. lsimp. rewrite CI.
    unfold set_indent_type. change (c =? g_RuneTAB) with (c =? 9). change (c =? g_RuneSP) with (c =? 32).
    rewrite C9, C32. change (g_IndentUnknown =? g_IndentUnknown) with true. cbv iota.
    change (0 <? 0) with false. cbn [andb]. cbv iota. lsimp.
    assert (Z0 : (if it =? g_IndentSpace then 0 / 4 else 0) = 0) by (destruct (it =? g_IndentSpace); reflexivity).
    rewrite Z0. lsimp. rewrite set_last_indent_app.
    lsimp. rewrite CB. replace (p + 1 + Z.of_nat 0) with (p + 1) by lia. reflexivity.
  - replace (4 * S m)%nat with (S (4 * m + 3)) in * by lia. cbn [repeat app] in *. cbn [parse_line]. cbv zeta. lsimp.
    rewrite LT. cbn [negb]. cbv iota.
    unfold is_pair. change (10 =? g_RuneCR) with false. change (10 =? g_RuneLF) with true.
    change (32 =? g_RuneCR) with false. cbn [andb orb]. cbv iota. lsimp.
    unfold count_indent. lsimp.
    change (is_indent_char 32) with true. cbv iota.
    rewrite (run_same_spaces (4 * m + 3) c r (p + 1) 1 C32). lsimp.
    unfold set_indent_type. change (32 =? g_RuneTAB) with false. change (32 =? g_RuneSP) with true. cbv iota.
    change (g_IndentSpace =? g_IndentUnknown) with false. cbv iota. lsimp.
    assert (IT2 : (if it =? g_IndentUnknown then g_IndentSpace else it) = g_IndentSpace).
    { destruct IT as [IT|IT]; subst it; reflexivity. }
    rewrite IT2. change (g_IndentSpace =? g_IndentSpace) with true.
    assert (M4 : (1 + Z.of_nat (4 * m + 3)) mod 4 = 0).
    { replace (1 + Z.of_nat (4 * m + 3)) with (Z.of_nat (S m) * 4) by lia. apply Z_mod_mult. }
    rewrite M4. change (0 =? 0) with true. cbn [negb andb]. cbv iota.
    assert (D4 : (1 + Z.of_nat (4 * m + 3)) / 4 = Z.of_nat (S m)).
    { replace (1 + Z.of_nat (4 * m + 3)) with (Z.of_nat (S m) * 4) by lia. apply Z_div_mult. lia. }
    rewrite D4. lsimp. rewrite set_last_indent_app.
    lsimp. rewrite CB. cbn [Nat.eqb].
    replace (p + 1 + Z.of_nat (4 * m + 3) + 1) with (p + 1 + Z.of_nat (S (4 * m + 3))) by lia. reflexivity.
Qed.

Lemma pre_nl : forall l n c r, rest l = 10 :: repeat 32 (4 * n) ++ c :: r ->
  is_ws c = false -> is_break c = false -> is_indent_char c = false ->
  line_text_ok l (pos l) = true -> (itype l = g_IndentUnknown \/ itype l = g_IndentSpace) ->
  pre_next_token (S (length (rest l))) l = LOk tt (nl_state l n (c :: r)).
Proof.
  intros l n c r E CW CB CI LT IT.
  pose proof (parse_line_nl (length (rest l)) l n c r E CB CI LT IT) as PL.
  cbn [pre_next_token]. rewrite PL. rewrite E at 1. cbn [curc hd].
  change (is_ws 10) with false. change (is_break 10) with true. cbv iota.
  rewrite E. cbn [length].
  apply (pre_stop _ (nl_state l n (c :: r)) c r eq_refl CW CB).
Qed.

Lemma next_token_nl : forall l n c r, rest l = 10 :: repeat 32 (4 * n) ++ c :: r ->
  is_ws c = false -> is_break c = false -> is_indent_char c = false ->
  line_text_ok l (pos l) = true -> (itype l = g_IndentUnknown \/ itype l = g_IndentSpace) ->
  next_token l = nt_body (nl_state l n (c :: r)).
Proof.
  intros l n c r E CW CB CI LT IT. unfold next_token. rewrite (pre_nl l n c r E CW CB CI LT IT). reflexivity.
Qed.

(* ------------------------------------------------------------------ the parser's token buffer over several lines *)
Record geoM (st : pstate) : Prop := mkGeo {
  gm_ne : lines (lx st) <> [];
  gm_s2 : sl2 st = Z.of_nat (length (lines (lx st))) - 1;
  gm_e2 : el2 st = sl2 st;
  gm_pos : 0 <= pos (lx st);
  gm_len : slen (lx st) = pos (lx st) + Z.of_nat (length (rest (lx st)));
  gm_ls : 0 <= l_start (last (lines (lx st)) (mkLine 0 0));
  gm_li : 0 <= l_indents (last (lines (lx st)) (mkLine 0 0));
  gm_lp : l_start (last (lines (lx st)) (mkLine 0 0)) + 4 * l_indents (last (lines (lx st)) (mkLine 0 0)) <= pos (lx st);
  gm_sp : 0 < l_indents (last (lines (lx st)) (mkLine 0 0)) -> itype (lx st) = g_IndentSpace;
  gm_it : itype (lx st) = g_IndentUnknown \/ itype (lx st) = g_IndentSpace }.

Lemma geoM_reb : forall st f b, geoM st -> geoM (reb st f b).
Proof. intros st f b [A1 A2 A3 A4 A5 A6 A7 A8 A9 A10]. constructor; assumption. Qed.

Lemma lto_geo : forall st, geoM st -> line_text_ok (lx st) (pos (lx st)) = true.
Proof.
  intros st [A1 A2 A3 A4 A5 A6 A7 A8 A9 A10]. unfold line_text_ok.
  set (ln := last (lines (lx st)) (mkLine 0 0)) in *.
  destruct (lines (lx st)) as [|l0 ls0]; [reflexivity|].
  assert (S : 0 <= l_start ln + (if itype (lx st) =? g_IndentSpace then 4 * l_indents ln
                                 else if itype (lx st) =? g_IndentTab then l_indents ln else 0) <= pos (lx st)).
  { destruct A10 as [I|I]; rewrite I.
    - change (g_IndentUnknown =? g_IndentSpace) with false. change (g_IndentUnknown =? g_IndentTab) with false. cbv iota. lia.
    - change (g_IndentSpace =? g_IndentSpace) with true. cbv iota. lia. }
  apply andb_true_iff. split; [apply andb_true_iff; split|]; apply Z.leb_le; lia.
Qed.

Lemma find_last : forall ls c, ls <> [] -> find_line_idx ls c (Z.of_nat (length ls) - 1) = Z.of_nat (length ls) - 1.
Proof.
  intros ls c N. unfold find_line_idx.
  assert (L : (0 < length ls)%nat) by (destruct ls; [congruence|cbn; lia]).
  replace (Z.to_nat (Z.of_nat (length ls) - 1 + 1)) with (length ls) by lia.
  rewrite skipn_all. reflexivity.
Qed.

Lemma find_new : forall ls ln c, ls <> [] -> l_start ln <= c ->
  find_line_idx (ls ++ [ln]) c (Z.of_nat (length ls) - 1) = Z.of_nat (length ls).
Proof.
  intros ls ln c N LE. unfold find_line_idx.
  assert (L : (0 < length ls)%nat) by (destruct ls; [congruence|cbn; lia]).
  replace (Z.to_nat (Z.of_nat (length ls) - 1 + 1)) with (length ls) by lia.
  rewrite skipn_app, skipn_all, Nat.sub_diag. cbn [app skipn find_line_idx_aux].
  assert (X : (c <? l_start ln) = false) by (apply Z.ltb_ge; lia). rewrite X. lia.
Qed.

Lemma p_next_gen : forall st tk l' s2 e2, next_token (lx st) = LOk tk l' -> (t_ty tk =? g_TypeComment) = false ->
  find_line_idx (lines l') (t_s tk) (sl2 st) = s2 -> find_line_idx (lines l') (t_e tk) (el2 st) = e2 ->
  p_next st = (if meet_line_break (mkP l' (p2 st) (Some tk) (sl2 st) (el2 st) s2 e2 (flag st) (bind_ st))
               then set_flag true (mkP l' (p2 st) (Some tk) (sl2 st) (el2 st) s2 e2 (flag st) (bind_ st))
               else Ok tt (mkP l' (p2 st) (Some tk) (sl2 st) (el2 st) s2 e2 (flag st) (bind_ st))).
Proof.
  intros st tk l' s2 e2 NT NC F1 F2. unfold p_next. cbn [lex_skip_comments]. rewrite NT, NC. cbv zeta.
  rewrite F1, F2. reflexivity.
Qed.

Lemma p_next_inline : forall st tk l' c, geoM st -> next_token (lx st) = LOk tk l' -> (t_ty tk =? g_TypeComment) = false ->
  lines l' = lines (lx st) -> p2 st = Some c -> (t_ty c =? g_TypeEOF) = false -> (t_ty tk =? g_TypeEOF) = false ->
  p_next st = Ok tt (mkP l' (p2 st) (Some tk) (sl2 st) (el2 st) (sl2 st) (el2 st) (flag st) (bind_ st)).
Proof.
  intros st tk l' c G NT NC HL P EC ET. destruct G as [A1 A2 A3 A4 A5 A6 A7 A8 A9 A10].
  rewrite (p_next_gen st tk l' (sl2 st) (el2 st) NT NC).
  - unfold meet_line_break. cbn [p1 p2 el1 sl2]. rewrite P, EC, ET. cbn [orb]. rewrite A3, Z.ltb_irrefl. reflexivity.
  - rewrite HL, A2. apply find_last. exact A1.
  - rewrite HL, A3, A2. apply find_last. exact A1.
Qed.

Definition mlb_ok (ty : Z) : bool :=
  negb (mem ty [g_TypeCommaSep; g_TypePauseCommaSep; g_TypeStmtQuoteL; g_TypeArrayQuoteL; g_TypeFuncCall; g_TypeFuncDeclare]).

Lemma endable2_mlb : forall t, endable2 t = true -> mlb_ok (fst t) = true.
Proof.
  intros t H. unfold endable2, endable in H.
  repeat (apply orb_true_iff in H; destruct H as [H|H]); apply Z.eqb_eq in H; rewrite H; reflexivity.
Qed.

(* up to the state whose peek token is the last token of the line; tail = the text after the line *)
Lemma run_line : forall tail, tail_ok tail -> forall ts t st, geoM st -> headok t st -> (fst t =? g_TypeEOF) = false ->
  rest (lx st) = after3 ts ++ tail -> forallb tok_ok3 ts = true -> lastok3 (t :: ts) = true ->
  exists stl, (forall st', p_next stl = Ok tt st' -> feeds (t :: ts) st st') /\ geoM stl /\ flag stl = false /\
    (exists tkl, p2 stl = Some tkl /\ (t_ty tkl =? g_TypeEOF) = false /\
                 (lastok2 (t :: ts) = true -> mlb_ok (t_ty tkl) = true)) /\
    rest (lx stl) = tail /\ lines (lx stl) = lines (lx st) /\ itype (lx stl) = itype (lx st) /\ bind_ stl = bind_ st /\
    pos (lx stl) = pos (lx st) + Z.of_nat (length (after3 ts)).
Proof.
  intros tail TT. induction ts as [|t2 ts IH]; intros t st G HO NE ER TO LO.
  - exists st. split; [intros st' PN; apply feeds_one; split; assumption|].
    split; [exact G|]. destruct HO as (Hf & tk0 & P2 & Ty & Tx).
    split; [exact Hf|]. split.
    { exists tk0. split; [exact P2|]. rewrite Ty. split; [exact NE|]. intro L2. apply endable2_mlb. exact L2. }
    split; [exact ER|]. cbn [after3 length]. repeat split; try reflexivity. cbn [Z.of_nat]. lia.
  - cbn [forallb] in TO. apply andb_true_iff in TO. destruct TO as [T2 TO].
    pose proof HO as HO0. destruct HO as (Hf & tk0 & P2 & Ty & Tx).
    destruct (head_plain_inv _ (spell_head3 _ T2)) as (c & r & SP & CW & CB & CI & CE).
    assert (ER2 : rest (lx st) = 32 :: c :: (r ++ after3 ts ++ tail)).
    { rewrite ER. cbn [after3]. rewrite joinc3_cons, SP. cbn [app]. rewrite <- app_assoc. reflexivity. }
    pose proof (next_token_space _ _ _ ER2 CW CB) as NT.
    set (l1 := set_pos_rest (lx st) (pos (lx st) + 1) (c :: r ++ after3 ts ++ tail)) in *.
    assert (TL : (exists t', after3 ts ++ tail = 32 :: t') \/ (endable3 t2 = true /\ tail_ok (after3 ts ++ tail))).
    { destruct ts as [|t3 ts'].
      - cbn [after3 app]. right. split; [exact LO|exact TT].
      - left. cbn [after3 app]. eauto. }
    destruct (lex_atok3 t2 l1 (after3 ts ++ tail) T2 ltac:(rewrite SP; reflexivity) TL) as (tk2 & LX & Ty2 & Tx2).
    rewrite LX in NT.
    destruct (tok_ty_ok3 _ T2) as [NE2 NC2].
    pose proof (p_next_inline st _ _ tk0 G NT ltac:(rewrite Ty2; exact NC2) eq_refl P2
                  ltac:(rewrite Ty; exact NE) ltac:(rewrite Ty2; exact NE2)) as PN.
    match type of PN with p_next st = Ok tt ?s => set (st1 := s) in * end.
    assert (G' : geoM st1).
    { destruct G as [A1 A2 A3 A4 A5 A6 A7 A8 A9 A10].
      constructor; unfold st1, l1; cbn [lx sl2 el2 set_pos_rest lines itype pos slen rest]; try assumption; try lia.
      rewrite A5, ER2, SP. cbn [length]. repeat rewrite app_length. cbn [length]. lia. }
    assert (HO1 : headok t2 st1).
    { split; [exact Hf|]. exists tk2. split; [reflexivity|]. auto. }
    destruct (IH t2 st1 G' HO1 NE2 eq_refl TO LO) as (stl & FE & GF & FF & (tkl & PL & NL & ML) & RF & LF & IF & BF & PP).
    exists stl. split; [intros st' PL'; econstructor; eauto|].
    split; [exact GF|]. split; [exact FF|].
    split; [exists tkl; split; [exact PL|split; [exact NL|exact ML]]|].
    split; [exact RF|]. split; [exact LF|]. split; [exact IF|]. split; [exact BF|].
    rewrite PP. unfold st1, l1. cbn [lx set_pos_rest pos]. cbn [after3]. rewrite joinc3_cons, SP.
    cbn [length]. repeat rewrite app_length. cbn [length]. lia.
Qed.

(* first tokens of lines: statement heads, 再如, 否则 ; the lexer's token starts at the cursor *)
Definition lheads : list Z := sheads ++ [g_TypeCondOtherW; g_TypeCondElseW].

Lemma lex_head_pos : forall t l tail tk l', tok_ok3 t = true -> mem (fst t) lheads = true ->
  rest l = spell3 t ++ tail -> (exists t', tail = 32 :: t') \/ (endable3 t = true /\ tail_ok tail) ->
  nt_body l = LOk tk l' -> pos l <= t_s tk /\ pos l <= t_e tk.
Proof.
  intros [ty lit] l tail tk l' H M E HT NT. cbn [fst] in M. apply mem_in in M. unfold lheads, sheads in M. cbn [app] in M.
  assert (FIX : forall cs, spell3 (ty, lit) = cs -> (endable3 (ty, lit) = false) ->
            (forall t', rest l = cs ++ 32 :: t' ->
               nt_body l = LOk (mkTok ty [] (pos l) (pos l + Z.of_nat (length cs)))
                               (set_pos_rest l (pos l + Z.of_nat (length cs)) (32 :: t'))) ->
            pos l <= t_s tk /\ pos l <= t_e tk).
  { intros cs SP EN LXF. destruct HT as [(t' & A)|[EN2 _]]; [|rewrite EN in EN2; discriminate].
    subst tail. rewrite SP in E. rewrite (LXF t' E) in NT. inversion NT; subst. cbn [t_s t_e]. lia. }
  destruct M as [M|[M|[M|[M|[M|[M|[M|[M|[M|[M|[M|[]]]]]]]]]]]]; subst ty.
  - (* identifier *)
    change (tok_ok3 (g_TypeIdentifier, lit)) with (leaf_ok lit) in H.
    change (spell3 (g_TypeIdentifier, lit)) with lit in E.
    assert (TO : tail_ok tail) by (destruct HT as [(t' & A)|[_ A]]; [subst tail; apply tail_ok_space|exact A]).
    rewrite (lex_ident l lit tail H E TO) in NT. inversion NT; subst. cbn [t_s t_e]. lia.
  - (* text literal *)
    change (tok_ok3 (g_TypeString, lit)) with (forallb strc lit) in H.
    change (spell3 (g_TypeString, lit)) with (8220 :: lit ++ [8221]) in E.
    cbn [app] in E. rewrite <- app_assoc in E. cbn [app] in E.
    rewrite (lex_str l lit tail H E) in NT. inversion NT; subst. cbn [t_s t_e]. lia.
  - apply (FIX [123] eq_refl eq_refl). intros t' E'.
    apply (lex_fixed_sp g_TypeStmtQuoteL [123] ltac:(cbn; tauto) l t' E').
  - apply (FIX [12304] eq_refl eq_refl). intros t' E'.
    apply (lex_fixed_sp2 g_TypeArrayQuoteL [12304] ltac:(cbn; tauto) l t' E').
  - apply (FIX [65288] eq_refl eq_refl). intros t' E'.
    apply (lex_fixed_sp2 g_TypeFuncQuoteL [65288] ltac:(cbn; tauto) l t' E').
  - apply (FIX [36755; 20986] eq_refl eq_refl). intros t' E'.
    apply (lex_fixed_sp3 g_TypeReturnW _ ltac:(cbn; tauto) l t' E').
  - apply (FIX [20196] eq_refl eq_refl). intros t' E'.
    apply (lex_fixed_sp3 g_TypeDeclareW _ ltac:(cbn; tauto) l t' E').
  - apply (FIX [27599; 24403] eq_refl eq_refl). intros t' E'.
    apply (lex_fixed_sp3 g_TypeWhileLoopW _ ltac:(cbn; tauto) l t' E').
  - apply (FIX [22914; 26524] eq_refl eq_refl). intros t' E'.
    apply (lex_fixed_sp3 g_TypeCondW _ ltac:(cbn; tauto) l t' E').
  - apply (FIX [20877; 22914] eq_refl eq_refl). intros t' E'.
    apply (lex_fixed_sp3 g_TypeCondOtherW _ ltac:(cbn; tauto) l t' E').
  - apply (FIX [21542; 21017] eq_refl eq_refl). intros t' E'.
    apply (lex_fixed_sp3 g_TypeCondElseW _ ltac:(cbn; tauto) l t' E').
Qed.

Lemma last_app1 : forall (ls : list line) x d, last (ls ++ [x]) d = x.
Proof. intros. apply last_last. Qed.

Lemma line_indent_new : forall ls x, line_indent (ls ++ [x]) (Z.of_nat (length ls)) = l_indents x.
Proof.
  intros ls x. unfold line_indent. rewrite Nat2Z.id. rewrite nth_error_app2 by lia. rewrite Nat.sub_diag. reflexivity.
Qed.

(* the end of the text after the last token of the last line *)
Lemma eof_step : forall stl tkl, geoM stl -> p2 stl = Some tkl -> rest (lx stl) = [] ->
  exists st', p_next stl = Ok tt st' /\ flag st' = true /\ (exists tk, p2 st' = Some tk /\ t_ty tk = g_TypeEOF) /\
              lx st' = lx stl.
Proof.
  intros st tkl G P ER.
  assert (NT : next_token (lx st) = LOk (mkTok g_TypeEOF [] (pos (lx st)) (pos (lx st))) (lx st)).
  { rewrite next_token_eof by exact ER. unfold parse_eof. rewrite (lto_geo st G). reflexivity. }
  destruct G as [A1 A2 A3 A4 A5 A6 A7 A8 A9 A10].
  rewrite (p_next_gen st _ _ (sl2 st) (el2 st) NT eq_refl).
  - unfold meet_line_break. cbn [p1 p2 t_ty]. rewrite P. change (g_TypeEOF =? g_TypeEOF) with true.
    rewrite orb_true_r. eexists. split; [reflexivity|]. cbn [set_flag flag p2 lx].
    split; [reflexivity|]. split; [eexists; split; reflexivity|reflexivity].
  - rewrite A2. apply find_last. exact A1.
  - rewrite A3, A2. apply find_last. exact A1.
Qed.

(* over a line break: the first token of the next line *)
Lemma nl_step : forall stl tkl n t2 rest2, geoM stl -> p2 stl = Some tkl -> (t_ty tkl =? g_TypeEOF) = false ->
  rest (lx stl) = 10 :: repeat 32 (4 * n) ++ spell3 t2 ++ rest2 -> tok_ok3 t2 = true -> mem (fst t2) lheads = true ->
  (exists t', rest2 = 32 :: t') \/ (endable3 t2 = true /\ tail_ok rest2) ->
  exists st1 tk2, p_next stl = Ok tt st1 /\ geoM st1 /\ p2 st1 = Some tk2 /\ t_ty tk2 = fst t2 /\ text_of tk2 = snd t2 /\
    rest (lx st1) = rest2 /\ peek_indent st1 = Z.of_nat n /\
    lines (lx st1) = lines (lx stl) ++ [mkLine (Z.of_nat n) (pos (lx stl) + 1)] /\
    itype (lx st1) = (if (n =? 0)%nat then itype (lx stl) else g_IndentSpace) /\
    pos (lx st1) = pos (lx stl) + 1 + Z.of_nat (4 * n) + Z.of_nat (length (spell3 t2)) /\
    flag st1 = (flag stl || (mlb_ok (t_ty tkl) && negb (mem (fst t2) [g_TypeArrayQuoteR; g_TypeStmtQuoteR]))) /\
    bind_ st1 = bind_ stl.
Proof.
  intros st tkl n t2 rest2 G P NE ER T2 MH HT.
  destruct (head_plain_inv _ (spell_head3 _ T2)) as (c & r & SP & CW & CB & CI & CE).
  assert (ER2 : rest (lx st) = 10 :: repeat 32 (4 * n) ++ c :: (r ++ rest2)).
  { rewrite ER, SP. reflexivity. }
  pose proof (next_token_nl _ n c _ ER2 CW CB CI (lto_geo st G) (gm_it st G)) as NT.
  set (l1 := nl_state (lx st) n (c :: r ++ rest2)) in *.
  assert (R1 : rest l1 = spell3 t2 ++ rest2) by (rewrite SP; reflexivity).
  destruct (lex_atok3 t2 l1 rest2 T2 R1 HT) as (tk2 & LX & Ty2 & Tx2).
  destruct (lex_head_pos t2 l1 rest2 tk2 _ T2 MH R1 HT LX) as (PS & PE).
  rewrite LX in NT. destruct (tok_ty_ok3 _ T2) as [NE2 NC2].
  destruct G as [A1 A2 A3 A4 A5 A6 A7 A8 A9 A10].
  set (nn := Z.of_nat (length (lines (lx st)))).
  assert (F1 : find_line_idx (lines (set_pos_rest l1 (pos l1 + Z.of_nat (length (spell3 t2))) rest2)) (t_s tk2) (sl2 st) = nn).
  { cbn [set_pos_rest lines l1 nl_state]. rewrite A2. apply find_new; [exact A1|]. cbn [l_start]. cbn [l1 nl_state pos] in PS. lia. }
  assert (F2 : find_line_idx (lines (set_pos_rest l1 (pos l1 + Z.of_nat (length (spell3 t2))) rest2)) (t_e tk2) (el2 st) = nn).
  { cbn [set_pos_rest lines l1 nl_state]. rewrite A3, A2. apply find_new; [exact A1|]. cbn [l_start]. cbn [l1 nl_state pos] in PE. lia. }
  pose proof (p_next_gen st tk2 _ nn nn NT ltac:(rewrite Ty2; exact NC2) F1 F2) as PN.
  unfold meet_line_break in PN. cbn [p1 p2 el1 sl2] in PN. rewrite P, NE, Ty2, NE2 in PN. cbn [orb] in PN.
  assert (LTn : (el2 st <? nn) = true) by (apply Z.ltb_lt; unfold nn; lia). rewrite LTn in PN.
  assert (GN : forall fl, geoM (mkP (set_pos_rest l1 (pos l1 + Z.of_nat (length (spell3 t2))) rest2) (Some tkl) (Some tk2)
                                   (sl2 st) (el2 st) nn nn fl (bind_ st))).
  { intro fl. constructor; cbn [lx sl2 el2 set_pos_rest lines itype pos slen rest l1 nl_state].
    - intro X. apply app_eq_nil in X. destruct X; discriminate.
    - rewrite app_length. cbn [length]. unfold nn. lia.
    - reflexivity.
    - lia.
    - rewrite A5, ER. cbn [length]. repeat rewrite app_length. rewrite repeat_length. cbn [length]. lia.
    - rewrite last_app1. cbn [l_start]. lia.
    - rewrite last_app1. cbn [l_indents]. lia.
    - rewrite last_app1. cbn [l_start l_indents]. lia.
    - rewrite last_app1. cbn [l_indents]. intro X. destruct n; [lia|reflexivity].
    - destruct n; [exact A10|right; reflexivity]. }
  assert (PIn : forall fl, peek_indent (mkP (set_pos_rest l1 (pos l1 + Z.of_nat (length (spell3 t2))) rest2) (Some tkl) (Some tk2)
                                   (sl2 st) (el2 st) nn nn fl (bind_ st)) = Z.of_nat n).
  { intro fl. unfold peek_indent. cbn [lx sl2 set_pos_rest lines l1 nl_state]. unfold nn. rewrite line_indent_new. reflexivity. }
  unfold mlb_ok.
  destruct (mem (t_ty tkl) [g_TypeCommaSep; g_TypePauseCommaSep; g_TypeStmtQuoteL; g_TypeArrayQuoteL; g_TypeFuncCall; g_TypeFuncDeclare]) eqn:MM.
  - cbv iota in PN. eexists _, tk2. split; [exact PN|]. split; [apply GN|]. cbn [p2 lx flag bind_ set_pos_rest rest lines itype pos].
    split; [reflexivity|]. split; [exact Ty2|]. split; [exact Tx2|]. split; [reflexivity|]. split; [apply PIn|].
    split; [reflexivity|]. split; [reflexivity|]. split; [cbn [l1 nl_state pos]; reflexivity|].
    split; [cbn [andb negb]; rewrite orb_false_r; reflexivity|reflexivity].
  - destruct (mem (fst t2) [g_TypeArrayQuoteR; g_TypeStmtQuoteR]) eqn:MR; cbv iota in PN.
    + eexists _, tk2. split; [exact PN|]. split; [apply GN|]. cbn [p2 lx flag bind_ set_pos_rest rest lines itype pos].
      split; [reflexivity|]. split; [exact Ty2|]. split; [exact Tx2|]. split; [reflexivity|]. split; [apply PIn|].
      split; [reflexivity|]. split; [reflexivity|]. split; [cbn [l1 nl_state pos]; reflexivity|].
      split; [cbn [andb negb]; rewrite orb_false_r; reflexivity|reflexivity].
    + eexists _, tk2. split; [exact PN|]. cbn [set_flag]. split; [apply GN|]. cbn [p2 lx flag bind_ set_pos_rest rest lines itype pos].
      split; [reflexivity|]. split; [exact Ty2|]. split; [exact Tx2|]. split; [reflexivity|]. split; [apply PIn|].
      split; [reflexivity|]. split; [reflexivity|]. split; [cbn [l1 nl_state pos]; reflexivity|].
      split; [cbn [andb negb]; rewrite orb_true_r; reflexivity|reflexivity].
Qed.

(* ------------------------------------------------------------------ the text of a list of lines *)
Definition ltext (l : pline) : list Z := repeat 32 (4 * fst (fst l)) ++ joinc3 (snd (fst l)).
Fixpoint ptext (L : list pline) : list Z :=
  match L with
  | [] => []
  | l :: r => ltext l ++ match r with [] => [] | _ => 10 :: ptext r end
  end.
Definition aftl (r : list pline) : list Z := match r with [] => [] | _ => 10 :: ptext r end.
Lemma ptext_cons : forall l r, ptext (l :: r) = ltext l ++ aftl r. Proof. reflexivity. Qed.

Definition lineok (l : pline) : bool :=
  match snd (fst l) with
  | [] => false
  | t :: ts => tok_ok3 t && forallb tok_ok3 ts && lastok3 (t :: ts) && (if snd l then lastok2 (t :: ts) else true)
              && mem (fst t) lheads
  end.

(* the line table: indentation level and offset of the first character of every line; the indentation type *)
Fixpoint ltab (p : Z) (L : list pline) : list line :=
  match L with
  | [] => []
  | l :: r => mkLine (Z.of_nat (fst (fst l))) p :: ltab (p + Z.of_nat (length (ltext l)) + 1) r
  end.
Fixpoint ityp (it : Z) (L : list pline) : Z :=
  match L with
  | [] => it
  | l :: r => ityp (if (fst (fst l) =? 0)%nat then it else g_IndentSpace) r
  end.

Lemma lheads_open : forallb (fun ty => negb (mem ty [g_TypeArrayQuoteR; g_TypeStmtQuoteR]) && negb (ty =? g_TypeEOF)) lheads = true.
Proof. vm_compute. reflexivity. Qed.
Lemma lheads_facts : forall ty, mem ty lheads = true ->
  mem ty [g_TypeArrayQuoteR; g_TypeStmtQuoteR] = false /\ (ty =? g_TypeEOF) = false.
Proof.
  intros ty H. apply mem_in in H. pose proof lheads_open as A. rewrite forallb_forall in A. specialize (A _ H).
  apply andb_true_iff in A. destruct A as [A B]. apply negb_true_iff in A. apply negb_true_iff in B. auto.
Qed.

Lemma tail_ok_aftl : forall r, tail_ok (aftl r).
Proof. intros [|l r]; [apply tail_ok_nil|apply tail_ok_lf]. Qed.

Lemma run_lines : forall r d t ts sm st tk, forallb lineok ((d, t :: ts, sm) :: r) = true -> geoM st ->
  p2 st = Some tk -> t_ty tk = fst t -> text_of tk = snd t -> peek_indent st = Z.of_nat d ->
  rest (lx st) = after3 ts ++ aftl r ->
  exists st', lfeeds ((d, t :: ts, sm) :: r) st st' /\ ateof st' /\
    lines (lx st') = lines (lx st) ++ ltab (pos (lx st) + Z.of_nat (length (after3 ts)) + 1) r /\
    itype (lx st') = ityp (itype (lx st)) r.
Proof.
  induction r as [|l2 r2 IH]; intros d t ts sm st tk OK G P Ty Tx PI ER.
  - cbn [forallb] in OK. rewrite andb_true_r in OK. unfold lineok in OK. cbn [fst snd] in OK.
    apply andb_true_iff in OK. destruct OK as [OK MH]. apply andb_true_iff in OK. destruct OK as [OK LS].
    apply andb_true_iff in OK. destruct OK as [OK LO]. apply andb_true_iff in OK. destruct OK as [T1 TO].
    destruct (lheads_facts _ MH) as [_ NE].
    assert (HO : headok t (reb st false (bind_ st))).
    { split; [reflexivity|]. exists tk. split; [exact P|]. auto. }
    destruct (run_line (aftl []) (tail_ok_aftl []) ts t _ (geoM_reb st false (bind_ st) G) HO NE ER TO LO)
      as (stl & FE & GL & FL & (tkl & PL & NL & ML) & RL & LL & IL & BL & PP).
    cbn [aftl] in RL.
    destruct (eof_step stl tkl GL PL RL) as (st' & PN & FF & EO & LX).
    exists st'. split.
    { econstructor; [exact PI|apply FE; exact PN|intros _; exact FF|constructor]. }
    split; [exact EO|]. rewrite LX, LL, IL. cbn [ltab ityp reb lx]. rewrite app_nil_r. auto.
  - cbn [forallb] in OK. apply andb_true_iff in OK. destruct OK as [OK1 OK2].
    pose proof OK2 as OK2'. cbn [forallb] in OK2. apply andb_true_iff in OK2. destruct OK2 as [OKl2 _].
    destruct l2 as [[d2 tss2] sm2]. unfold lineok in OKl2. cbn [fst snd] in OKl2.
    destruct tss2 as [|t2 ts2]; [discriminate|].
    unfold lineok in OK1. cbn [fst snd] in OK1.
    apply andb_true_iff in OK1. destruct OK1 as [OK MH]. apply andb_true_iff in OK. destruct OK as [OK LS].
    apply andb_true_iff in OK. destruct OK as [OK LO]. apply andb_true_iff in OK. destruct OK as [T1 TO].
    apply andb_true_iff in OKl2. destruct OKl2 as [OK MH2]. apply andb_true_iff in OK. destruct OK as [OK LS2].
    apply andb_true_iff in OK. destruct OK as [OK LO2]. apply andb_true_iff in OK. destruct OK as [T2 TO2].
    destruct (lheads_facts _ MH) as [_ NE]. destruct (lheads_facts _ MH2) as [NC2 NE2].
    assert (HO : headok t (reb st false (bind_ st))).
    { split; [reflexivity|]. exists tk. split; [exact P|]. auto. }
    destruct (run_line (aftl ((d2, t2 :: ts2, sm2) :: r2)) (tail_ok_aftl _) ts t _ (geoM_reb st false (bind_ st) G) HO NE ER TO LO)
      as (stl & FE & GL & FL & (tkl & PL & NL & ML) & RL & LL & IL & BL & PP).
    assert (RL2 : rest (lx stl) = 10 :: repeat 32 (4 * d2) ++ spell3 t2 ++ (after3 ts2 ++ aftl r2)).
    { rewrite RL. cbn [aftl]. rewrite ptext_cons. unfold ltext. cbn [fst snd]. rewrite joinc3_cons.
      rewrite <- !app_assoc. reflexivity. }
    assert (HT : (exists t', after3 ts2 ++ aftl r2 = 32 :: t') \/ (endable3 t2 = true /\ tail_ok (after3 ts2 ++ aftl r2))).
    { destruct ts2 as [|t3 ts3].
      - right. cbn [after3 app]. split; [exact LO2|apply tail_ok_aftl].
      - left. cbn [after3 app]. eauto. }
    destruct (nl_step stl tkl d2 t2 _ GL PL NL RL2 T2 MH2 HT)
      as (st1 & tk2 & PN & G1 & P21 & Ty2 & Tx2 & R1 & PI1 & L1 & I1 & PP1 & F1 & B1).
    destruct (IH d2 t2 ts2 sm2 st1 tk2 OK2' G1 P21 Ty2 Tx2 PI1 R1) as (st' & LFD & EO & LT & IT).
    exists st'. split.
    { econstructor; [exact PI|apply FE; exact PN| |exact LFD].
      intro SM. subst sm. rewrite F1, FL, (ML LS), NC2. reflexivity. }
    split; [exact EO|]. split.
    + rewrite LT, L1, LL. cbn [reb lx]. rewrite <- app_assoc. cbn [app ltab fst snd]. f_equal. f_equal.
      * f_equal. rewrite PP. cbn [reb lx]. lia.
      * f_equal. rewrite PP1, PP. cbn [reb lx]. unfold ltext. cbn [fst snd]. rewrite joinc3_cons.
        repeat rewrite app_length. rewrite repeat_length. lia.
    + rewrite IT, I1, IL. cbn [ityp fst snd reb lx]. reflexivity.
Qed.

(* ------------------------------------------------------------------ from the first character *)
Lemma init_lines : forall t ts sm r, forallb lineok ((0%nat, t :: ts, sm) :: r) = true ->
  exists l0 st0 tk, lex_init (ptext ((0%nat, t :: ts, sm) :: r)) = LOk tt l0 /\ p_next (init_pstate l0) = Ok tt st0 /\
    geoM st0 /\ p2 st0 = Some tk /\ t_ty tk = fst t /\ text_of tk = snd t /\ peek_indent st0 = 0 /\
    rest (lx st0) = after3 ts ++ aftl r /\ lines (lx st0) = [mkLine 0 0] /\ itype (lx st0) = g_IndentUnknown /\
    pos (lx st0) = Z.of_nat (length (spell3 t)).
Proof.
  intros t ts sm r OK. cbn [forallb] in OK. apply andb_true_iff in OK. destruct OK as [OK1 _].
  unfold lineok in OK1. cbn [fst snd] in OK1.
  apply andb_true_iff in OK1. destruct OK1 as [OK MH]. apply andb_true_iff in OK. destruct OK as [OK LS].
  apply andb_true_iff in OK. destruct OK as [OK LO]. apply andb_true_iff in OK. destruct OK as [T1 TO].
  destruct (head_plain_inv _ (spell_head3 _ T1)) as (c & r0 & SP & CW & CB & CI & CE).
  set (src := ptext ((0%nat, t :: ts, sm) :: r)).
  assert (ES : src = c :: r0 ++ after3 ts ++ aftl r).
  { unfold src. rewrite ptext_cons. unfold ltext. cbn [fst snd]. change (4 * 0)%nat with 0%nat. cbn [repeat app].
    rewrite joinc3_cons, SP. cbn [app]. rewrite <- app_assoc. reflexivity. }
  set (l0 := mkL 0 src g_IndentUnknown [mkLine 0 0] (Z.of_nat (length src))).
  assert (LI : lex_init src = LOk tt l0).
  { unfold lex_init, parse_begin_lex. cbn [rest]. rewrite ES at 1. rewrite CE, CI. reflexivity. }
  assert (TL : (exists t', after3 ts ++ aftl r = 32 :: t') \/ (endable3 t = true /\ tail_ok (after3 ts ++ aftl r))).
  { destruct ts as [|t3 ts'].
    - cbn [after3 app]. right. split; [exact LO|apply tail_ok_aftl].
    - left. cbn [after3 app]. eauto. }
  assert (R0 : rest l0 = spell3 t ++ after3 ts ++ aftl r) by (cbn [l0 rest]; rewrite ES, SP; reflexivity).
  destruct (lex_atok3 t l0 _ T1 R0 TL) as (tk & LX & Ty & Tx).
  assert (NT : next_token l0 = nt_body l0).
  { apply (next_token_plain l0 c (r0 ++ after3 ts ++ aftl r)); [exact ES|exact CW|exact CB]. }
  rewrite LX in NT. destruct (tok_ty_ok3 _ T1) as [NE NC].
  pose proof (p_next_gen (init_pstate l0) tk _ 0 0 NT ltac:(rewrite Ty; exact NC) eq_refl eq_refl) as PN.
  unfold meet_line_break in PN. cbn [init_pstate p1 p2] in PN.
  eexists l0, _, tk. split; [exact LI|]. split; [exact PN|].
  split.
  { constructor; cbn [lx sl2 el2 set_pos_rest lines itype pos slen rest l0 length last l_start l_indents Z.of_nat];
      try lia; try discriminate; try (left; reflexivity).
    rewrite ES, SP. cbn [length]. repeat rewrite app_length. cbn [length]. lia. }
  cbn [p2 lx set_pos_rest rest lines itype pos l0].
  split; [reflexivity|]. split; [exact Ty|]. split; [exact Tx|]. split; [reflexivity|].
  split; [reflexivity|]. split; [reflexivity|]. split; [reflexivity|]. lia.
Qed.

(* the front end on the text of a list of well-formed lines that is the printing of a program *)
Theorem compile_lines_text : forall p fuel, p <> [] -> forallb swf p = true -> forallb lineok (blines 0 p) = true ->
  (pfuel p <= fuel)%nat ->
  compile fuel (ptext (blines 0 p)) = OTree (prescribed p) (ltab 0 (blines 0 p)) (ityp g_IndentUnknown (blines 0 p)).
Proof.
  intros p fuel N W OK LF.
  destruct (blines_head 0 p N) as (t & ts & sm & r & EL & MH). rewrite EL in OK.
  destruct (init_lines t ts sm r OK) as (l0 & st0 & tk & LI & PN & G & P & Ty & Tx & PI & ER & LL & IL & PP).
  destruct (run_lines r 0%nat t ts sm st0 tk OK G P Ty Tx PI ER) as (st' & LFD & EO & LT & IT).
  rewrite <- EL in LFD.
  destruct (parse_program_tokens p fuel st0 st' N W LF LFD EO) as (b' & PP').
  rewrite EL. unfold compile. rewrite LI. unfold bind. rewrite PN, PI, PP'.
  destruct EO as (tke & PE & TE). unfold peek_ty. cbn [setb reb p2 lx]. rewrite PE. cbn [tok_ty]. rewrite TE.
  change (g_TypeEOF =? g_TypeEOF) with true. cbn [negb]. cbv iota.
  rewrite LT, IT, LL, IL. cbn [ltab ityp fst snd app Nat.eqb]. f_equal. f_equal. f_equal.
  rewrite PP. unfold ltext. cbn [fst snd]. change (4 * 0)%nat with 0%nat. cbn [repeat app]. rewrite joinc3_cons, app_length. lia.
Qed.

(* ------------------------------------------------------------------ the printing of a program is made of such lines *)
Fixpoint sleaves (s : sstmt) : bool :=
  match s with
  | TExpr e | TOut e => cleaves_ok e
  | TLet x e => leaf_ok x && cleaves_ok e
  | TWhile e b => cleaves_ok e && forallb sleaves b
  | TIf e b os el =>
      cleaves_ok e && forallb sleaves b && forallb (fun p => cleaves_ok (fst p) && forallb sleaves (snd p)) os
      && match el with Some x => forallb sleaves x | None => true end
  end.

Lemma types3_disjoint :
  forallb (fun ty => negb (mem ty (map fst spellings3)))
          (g_TypeString :: g_TypeIdentifier :: map fst spellings2 ++ map fst spellings) = true.
Proof. vm_compute. reflexivity. Qed.

Lemma tok_ok2_in3 : forall t, tok_ok2 t = true -> in3 t = false.
Proof.
  intros t H. unfold in3. pose proof types3_disjoint as A. rewrite forallb_forall in A.
  assert (I : In (fst t) (g_TypeString :: g_TypeIdentifier :: map fst spellings2 ++ map fst spellings)).
  { unfold tok_ok2 in H. destruct (fst t =? g_TypeString) eqn:E1; [apply Z.eqb_eq in E1; left; auto|].
    destruct (mem (fst t) (map fst spellings2)) eqn:E2.
    - right. right. apply in_or_app. left. apply mem_in. exact E2.
    - unfold tok_ok in H. destruct (fst t =? g_TypeIdentifier) eqn:E3; [apply Z.eqb_eq in E3; right; left; auto|].
      apply andb_true_iff in H. destruct H as [_ H]. right. right. apply in_or_app. right. apply mem_in. exact H. }
  specialize (A _ I). apply negb_true_iff in A. exact A.
Qed.

Lemma tok_ok23 : forall t, tok_ok2 t = true -> tok_ok3 t = true.
Proof. intros t H. unfold tok_ok3. rewrite (tok_ok2_in3 t H). exact H. Qed.

Lemma forallb_tok23 : forall ts, forallb tok_ok2 ts = true -> forallb tok_ok3 ts = true.
Proof.
  induction ts as [|t ts IH]; intro H; [reflexivity|]. cbn [forallb] in *. apply andb_true_iff in H. destruct H as [A B].
  rewrite (tok_ok23 t A), (IH B). reflexivity.
Qed.

Lemma lastok23 : forall ts, forallb tok_ok2 ts = true -> lastok2 ts = true -> lastok3 ts = true.
Proof.
  induction ts as [|t ts IH]; intros H L; [reflexivity|]. cbn [forallb] in H. apply andb_true_iff in H. destruct H as [A B].
  destruct ts as [|t2 ts'].
  - cbn [lastok2 lastok3] in *. unfold endable3. rewrite (tok_ok2_in3 t A), L. reflexivity.
  - change (lastok3 (t :: t2 :: ts')) with (lastok3 (t2 :: ts')). apply IH; [exact B|exact L].
Qed.

Lemma lastok3_app : forall a b, b <> [] -> lastok3 (a ++ b) = lastok3 b.
Proof.
  induction a as [|t a IH]; intros b N; [reflexivity|].
  cbn [app]. cbn [lastok3]. destruct (a ++ b) eqn:E.
  - destruct a; cbn in E; [congruence|discriminate].
  - rewrite <- E. apply IH. exact N.
Qed.

Lemma mem_lheads : forall ty, mem ty sheads = true -> mem ty lheads = true.
Proof. intros ty H. unfold lheads, mem. rewrite existsb_app. unfold mem in H. rewrite H. reflexivity. Qed.

Section LineShapes.
Variables (d : nat) (e : cx).
Hypothesis W : cwf e = true.
Hypothesis LO : cleaves_ok e = true.

Lemma line_expr : lineok (d, cshow e, true) = true.
Proof.
  pose proof (cshow_tok_ok2 e W LO) as T2. pose proof (cshow_lastok2 e) as L2.
  pose proof (lastok23 _ T2 L2) as L3. pose proof (forallb_tok23 _ T2) as T3.
  destruct (cshow_head e) as (t & ts & E & ST). rewrite E in *.
  unfold lineok. cbn [fst snd]. cbn [forallb] in T3. rewrite T3, L3, L2.
  rewrite (mem_lheads _ (starter2_shead t ST)). reflexivity.
Qed.

Lemma line_kw_expr : forall k, mem k [g_TypeReturnW] = true -> lineok (d, kwt k :: cshow e, true) = true.
Proof.
  intros k HK. cbn [mem existsb] in HK. rewrite orb_false_r in HK. apply Z.eqb_eq in HK. subst k.
  pose proof (cshow_tok_ok2 e W LO) as T2. pose proof (cshow_lastok2 e) as L2.
  pose proof (lastok23 _ T2 L2) as L3. pose proof (forallb_tok23 _ T2) as T3.
  unfold lineok. cbn [fst snd].
  change (kwt g_TypeReturnW :: cshow e) with ([kwt g_TypeReturnW] ++ cshow e).
  rewrite lastok3_app, lastok2_app by apply cshow_nonempty. rewrite T3, L3, L2. reflexivity.
Qed.

Lemma line_let : forall x, leaf_ok x = true ->
  lineok (d, kwt g_TypeDeclareW :: (g_TypeIdentifier, x) :: kwt g_TypeAssignMark :: cshow e, true) = true.
Proof.
  intros x LX.
  pose proof (cshow_tok_ok2 e W LO) as T2. pose proof (cshow_lastok2 e) as L2.
  pose proof (lastok23 _ T2 L2) as L3. pose proof (forallb_tok23 _ T2) as T3.
  unfold lineok. cbn [fst snd].
  change (kwt g_TypeDeclareW :: (g_TypeIdentifier, x) :: kwt g_TypeAssignMark :: cshow e)
    with ([kwt g_TypeDeclareW; (g_TypeIdentifier, x); kwt g_TypeAssignMark] ++ cshow e).
  rewrite lastok3_app, lastok2_app by apply cshow_nonempty. cbn [forallb]. rewrite T3, L3, L2.
  change (tok_ok3 (g_TypeIdentifier, x)) with (leaf_ok x). rewrite LX. reflexivity.
Qed.

Lemma line_hdr : forall k, mem k [g_TypeWhileLoopW; g_TypeCondW; g_TypeCondOtherW] = true ->
  lineok (d, kwt k :: cshow e ++ [tColon], false) = true.
Proof.
  intros k HK.
  pose proof (forallb_tok23 _ (cshow_tok_ok2 e W LO)) as T3.
  unfold lineok. cbn [fst snd].
  change (kwt k :: cshow e ++ [tColon]) with ((kwt k :: cshow e) ++ [tColon]).
  rewrite lastok3_app by discriminate. rewrite forallb_app, T3.
  apply mem_in in HK. destruct HK as [HK|[HK|[HK|[]]]]; subst k; reflexivity.
Qed.
End LineShapes.

Lemma forallb_flat_map : forall (A B : Type) (f : B -> bool) (g : A -> list B) l,
  Forall (fun x => forallb f (g x) = true) l -> forallb f (flat_map g l) = true.
Proof.
  intros A B f g l H. induction H as [|x r Hx Hr IH]; [reflexivity|]. cbn [flat_map]. rewrite forallb_app, Hx, IH. reflexivity.
Qed.

Lemma Forall_lines : forall (l : list sstmt) (d : nat),
  Forall (fun s => swf s = true -> sleaves s = true -> forall d, forallb lineok (slines d s) = true) l ->
  forallb swf l = true -> forallb sleaves l = true -> forallb lineok (blines d l) = true.
Proof.
  intros l d H W LO. apply forallb_flat_map. induction H as [|x r Hx Hr IH]; [constructor|].
  cbn [forallb] in W, LO. apply andb_true_iff in W. destruct W as [Wx Wr]. apply andb_true_iff in LO. destruct LO as [Lx Lr].
  constructor; [apply Hx; assumption|apply IH; assumption].
Qed.

Lemma slines_ok : forall s, swf s = true -> sleaves s = true -> forall d, forallb lineok (slines d s) = true.
Proof.
  induction s as [e|e|x e|e b IHb|e b os el IHb IHos IHel] using sstmt_ind2; intros W LO d; cbn [swf sleaves] in W, LO.
  - cbn [slines forallb]. rewrite (line_expr d e W LO). reflexivity.
  - cbn [slines forallb]. rewrite (line_kw_expr d e W LO g_TypeReturnW eq_refl). reflexivity.
  - apply andb_true_iff in LO. destruct LO as [LX LO]. cbn [slines forallb]. rewrite (line_let d e W LO x LX). reflexivity.
  - apply andb_true_iff in W. destruct W as [W Wb]. apply andb_true_iff in W. destruct W as [We _].
    apply andb_true_iff in LO. destruct LO as [Le Lb].
    rewrite slines_while. cbn [forallb]. rewrite (line_hdr d e We Le g_TypeWhileLoopW eq_refl). apply (Forall_lines b (S d) IHb Wb Lb).
  - apply andb_true_iff in W. destruct W as [W Wel]. apply andb_true_iff in W. destruct W as [W Wos].
    apply andb_true_iff in W. destruct W as [W Wb]. apply andb_true_iff in W. destruct W as [We _].
    apply andb_true_iff in LO. destruct LO as [LO Lel]. apply andb_true_iff in LO. destruct LO as [LO Los].
    apply andb_true_iff in LO. destruct LO as [Le Lb].
    rewrite slines_if. cbn [forallb]. rewrite (line_hdr d e We Le g_TypeCondW eq_refl). cbn [andb].
    rewrite !forallb_app. rewrite (Forall_lines b (S d) IHb Wb Lb). cbn [andb].
    apply andb_true_iff. split.
    + unfold olines. apply forallb_flat_map. clear - IHos Wos Los.
      induction IHos as [|p os Hp Hos IH]; [constructor|].
      cbn [forallb] in Wos, Los. apply andb_true_iff in Wos. destruct Wos as [Wp Wos].
      apply andb_true_iff in Los. destruct Los as [Lp Los].
      apply andb_true_iff in Wp. destruct Wp as [Wp Wpb]. apply andb_true_iff in Wp. destruct Wp as [Wpe _].
      apply andb_true_iff in Lp. destruct Lp as [Lpe Lpb].
      constructor; [|apply IH; assumption].
      cbn [forallb]. rewrite (line_hdr d (fst p) Wpe Lpe g_TypeCondOtherW eq_refl). apply (Forall_lines (snd p) (S d) Hp Wpb Lpb).
    + destruct el as [x|]; [|reflexivity]. cbn [elines forallb]. apply andb_true_iff in Wel. destruct Wel as [_ Wx].
      change (lineok (d, [kwt g_TypeCondElseW; tColon], false)) with true. apply (Forall_lines x (S d) IHel Wx Lel).
Qed.

Lemma blines_ok : forall p, forallb swf p = true -> forallb sleaves p = true -> forallb lineok (blines 0 p) = true.
Proof. intros p W LO. apply Forall_lines; [|exact W|exact LO]. apply Forall_all. intros s Ws Ls d. apply slines_ok; assumption. Qed.

(* ================================================================== MAIN THEOREMS *)
(* the printing: one statement per line, LF between lines, 4 spaces per nesting level, single spaces between tokens *)
Definition print (p : list sstmt) : list Z := ptext (blines 0 p).
(* the line table: for every printed line its nesting level and the offset of its first character *)
Definition line_table (p : list sstmt) : list line := ltab 0 (blines 0 p).
(* the indentation type: unknown (0) when no line is indented, spaces (32) otherwise *)
Definition indent_type (p : list sstmt) : Z := ityp g_IndentUnknown (blines 0 p).

Definition prog_ok (p : list sstmt) : bool := nonnil p && forallb swf p && forallb sleaves p.

Theorem compile_print : forall p fuel, prog_ok p = true -> (pfuel p <= fuel)%nat ->
  compile fuel (print p) = OTree (prescribed p) (line_table p) (indent_type p).
Proof.
  intros p fuel OK LF. unfold prog_ok in OK. apply andb_true_iff in OK. destruct OK as [OK LO].
  apply andb_true_iff in OK. destruct OK as [N W]. apply nonnil_ne in N.
  apply compile_lines_text; auto. apply blines_ok; assumption.
Qed.

Theorem compile_print_default : forall p, prog_ok p = true ->
  compile (default_fuel (print p)) (print p) = OTree (prescribed p) (line_table p) (indent_type p).
Proof.
  intros p OK.
  set (F := Nat.max (default_fuel (print p)) (pfuel p)).
  pose proof (compile_print p F OK ltac:(unfold F; lia)) as HF.
  destruct (compile_mono (default_fuel (print p)) F (print p) ltac:(unfold F; lia)) as [H|H].
  - exfalso. exact (compile_total _ H).
  - rewrite H. exact HF.
Qed.

Theorem compile_print_any_fuel : forall p fuel, prog_ok p = true ->
  compile fuel (print p) = OFuel \/ compile fuel (print p) = OTree (prescribed p) (line_table p) (indent_type p).
Proof.
  intros p fuel OK.
  set (F := Nat.max fuel (pfuel p)).
  pose proof (compile_print p F OK ltac:(unfold F; lia)) as HF.
  destruct (compile_mono fuel F (print p) ltac:(unfold F; lia)) as [H|H]; [left; exact H|right].
  rewrite H. exact HF.
Qed.

(* ================================================================== corollaries and examples *)
(* order of statements, nearest enclosing header, dedent closes blocks: the prescribed tree is [map sast], block by block *)
Corollary compile_print_encode : forall p, prog_ok p = true ->
  compile_encode (print p) = [[1; 0; 0; indent_type p]; enc_lines (line_table p); enc_program (prescribed p)].
Proof. intros p OK. unfold compile_encode. rewrite (compile_print_default p OK). reflexivity. Qed.

(* 每当 A ：                     a 每当 inside a 如果 inside a 每当,
       如果 B ：                 then a dedent of two levels (E belongs to the outer 每当),
           每当 C ：             then a dedent to level 0 (F is the second statement of the program)
               D
       E
   F                                                                                         *)
Definition ex_p1 : list sstmt :=
  [TWhile xA [TIf xB [TWhile xC [TExpr xD]] [] None; TExpr (XId [69])]; TExpr (XId [70])].
Definition ex_src1 : list Z :=
  [27599; 24403; 32; 65; 32; 65306; 10;
   32; 32; 32; 32; 22914; 26524; 32; 66; 32; 65306; 10;
   32; 32; 32; 32; 32; 32; 32; 32; 27599; 24403; 32; 67; 32; 65306; 10;
   32; 32; 32; 32; 32; 32; 32; 32; 32; 32; 32; 32; 68; 10;
   32; 32; 32; 32; 69; 10;
   70].
Definition ex_tree1 : program :=
  mkProgram [] (Some (XBlock []
    [SWhile (EId [65])
       [SBranch (Some (EId [66])) (Some [SWhile (EId [67]) [SExpr (EId [68])]]) None [] [] false;
        SExpr (EId [69])];
     SExpr (EId [70])] [])).
Example ex1_print : print ex_p1 = ex_src1. Proof. vm_compute. reflexivity. Qed.
Example ex1_prescribed : prescribed ex_p1 = ex_tree1. Proof. reflexivity. Qed.
Example ex1_compute : compile 400 ex_src1
  = OTree ex_tree1 [mkLine 0 0; mkLine 1 7; mkLine 2 18; mkLine 3 33; mkLine 1 47; mkLine 0 53] 32.
Proof. vm_compute. reflexivity. Qed.
Example ex1_by_theorem : compile (default_fuel ex_src1) ex_src1
  = OTree ex_tree1 [mkLine 0 0; mkLine 1 7; mkLine 2 18; mkLine 3 33; mkLine 1 47; mkLine 0 53] g_IndentSpace.
Proof. rewrite <- ex1_print. rewrite (compile_print_default ex_p1 eq_refl). reflexivity. Qed.

(* 如果 A ：                     the first 否则 attaches to the inner 如果 (same indentation, level 1),
       如果 B ：                 再如 and the last 否则 to the outer one (level 0)
           C
       否则 ：
           D
   再如 E ：
       令 X = F
   否则 ：
       输出 G                                                                                 *)
Definition ex_p2 : list sstmt :=
  [TIf xA [TIf xB [TExpr xC] [] (Some [TExpr xD])] [(XId [69], [TLet [88] (XId [70])])] (Some [TOut (XId [71])])].
Definition ex_src2 : list Z :=
  [22914; 26524; 32; 65; 32; 65306; 10;
   32; 32; 32; 32; 22914; 26524; 32; 66; 32; 65306; 10;
   32; 32; 32; 32; 32; 32; 32; 32; 67; 10;
   32; 32; 32; 32; 21542; 21017; 32; 65306; 10;
   32; 32; 32; 32; 32; 32; 32; 32; 68; 10;
   20877; 22914; 32; 69; 32; 65306; 10;
   32; 32; 32; 32; 20196; 32; 88; 32; 61; 32; 70; 10;
   21542; 21017; 32; 65306; 10;
   32; 32; 32; 32; 36755; 20986; 32; 71].
Definition ex_tree2 : program :=
  mkProgram [] (Some (XBlock []
    [SBranch (Some (EId [65]))
       (Some [SBranch (Some (EId [66])) (Some [SExpr (EId [67])]) (Some [SExpr (EId [68])]) [] [] true])
       (Some [SReturn (EId [71])])
       [EId [69]] [[SVarDecl [(1, [[88]], EId [70])]]] true] [])).
Example ex2_print : print ex_p2 = ex_src2. Proof. vm_compute. reflexivity. Qed.
Example ex2_prescribed : prescribed ex_p2 = ex_tree2. Proof. reflexivity. Qed.
Example ex2_compute : exists ls, compile 400 ex_src2 = OTree ex_tree2 ls 32.
Proof. eexists. vm_compute. reflexivity. Qed.
Example ex2_by_theorem : compile (default_fuel ex_src2) ex_src2 = OTree ex_tree2 (line_table ex_p2) g_IndentSpace.
Proof. rewrite <- ex2_print. rewrite (compile_print_default ex_p2 eq_refl). reflexivity. Qed.
Example ex2_lines : line_table ex_p2
  = [mkLine 0 0; mkLine 1 7; mkLine 2 18; mkLine 1 28; mkLine 2 37; mkLine 0 47; mkLine 1 54; mkLine 0 66; mkLine 1 71].
Proof. vm_compute. reflexivity. Qed.

(* a flat program: no indented line, the indentation type stays unknown *)
Example ex3_flat : compile (default_fuel (print [TLet [88] xA; TOut (XId [88])])) (print [TLet [88] xA; TOut (XId [88])])
  = OTree (mkProgram [] (Some (XBlock [] [SVarDecl [(1, [[88]], EId [65])]; SReturn (EId [88])] [])))
          [mkLine 0 0; mkLine 0 8] g_IndentUnknown.
Proof. rewrite (compile_print_default [TLet [88] xA; TOut (XId [88])] eq_refl). reflexivity. Qed.

(* ================================================================== assumptions *)
Print Assumptions parse_stmt_tokens.
Print Assumptions parse_block_tokens.
Print Assumptions parse_program_tokens.
Print Assumptions compile_print.
Print Assumptions compile_print_default.
Print Assumptions compile_print_any_fuel.
Print Assumptions compile_print_encode.
