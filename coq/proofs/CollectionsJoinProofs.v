(* CollectionsJoinProofs.v — C12: laws of 拼接 (join) and of 左移 / 右移 on the empty list, for every list. *)
From Coq Require Import List ZArith Bool Lia.
Import ListNotations.
From Zn.model Require Import CollectionsTypes Collections.
Open Scope Z_scope.

Lemma validate_all_strings : forall strs, validate_all (map VStr strs) TString = None.
Proof. induction strs as [|s r IH]; cbn; [reflexivity|exact IH]. Qed.

Lemma strings_of_map : forall strs, strings_of (map VStr strs) = Some strs.
Proof. induction strs as [|s r IH]; cbn [map strings_of]; [reflexivity|]. rewrite IH. reflexivity. Qed.

(* 拼接 on a list of texts: the texts joined by the separator, in list order; the list is left as it was *)
Lemma law_join : forall strs sep,
  arr_step true (LMethod MJoin [VStr sep]) (map VStr strs) = (Ok (VStr (join_text sep strs)), map VStr strs).
Proof.
  intros strs sep. cbn [arr_step arr_exec_method].
  rewrite validate_all_strings. cbn [validate_exact validate_each length Nat.eqb negb param_ok].
  rewrite strings_of_map. reflexivity.
Qed.

(* join_text is the separator-interleaved concatenation: characterised without reference to the loop *)
Lemma join_text_cons2 : forall sep a b r, join_text sep (a :: b :: r) = a ++ sep ++ join_text sep (b :: r).
Proof. reflexivity. Qed.
Lemma join_text_length : forall sep strs,
  Z.of_nat (length (join_text sep strs)) =
  Z.of_nat (length (concat strs)) + Z.of_nat (length sep) * (Z.of_nat (length strs) - 1) * (if (length strs =? 0)%nat then 0 else 1).
Proof.
  intros sep strs. induction strs as [|a r IH]; [cbn [join_text concat length Nat.eqb]; lia|].
  destruct r as [|b r'].
  - cbn [join_text concat length Nat.eqb]. rewrite app_nil_r. lia.
  - rewrite join_text_cons2. cbn [concat]. rewrite !app_length. rewrite !Nat2Z.inj_add. rewrite IH.
    cbn [length Nat.eqb concat]. rewrite !app_length. lia.
Qed.

(* a list with a member that is not a text is refused, and left as it was *)
Lemma law_join_rejects : forall pre v post sep, (forall s, v <> VStr s) ->
  arr_step true (LMethod MJoin [VStr sep]) (map VStr pre ++ v :: post) = (Err E_PARAM_TYPE, map VStr pre ++ v :: post).
Proof.
  intros pre v post sep Hv. cbn [arr_step arr_exec_method].
  assert (H : validate_all (map VStr pre ++ v :: post) TString = Some E_PARAM_TYPE).
  { induction pre as [|s r IH]; cbn [map app validate_all].
    - destruct v; cbn; try reflexivity. exfalso. eapply Hv. reflexivity.
    - cbn. exact IH. }
  rewrite H. reflexivity.
Qed.

Lemma law_shift_empty : arr_step true (LMethod MShift []) [] = (Ok VNull, []).
Proof. reflexivity. Qed.
Lemma law_pop_empty : arr_step true (LMethod MPop []) [] = (Ok VNull, []).
Proof. reflexivity. Qed.
