(* LinesProofs.v — FindLineIdx finds the line that contains the cursor; physical line starts are increasing. *)
From Coq Require Import List ZArith Bool Lia Sorted.
From Zn.model Require Import Lines.
Import ListNotations.
Open Scope Z_scope.

(* every recorded start lies in (pos, pos + length] and the list is strictly increasing *)
Lemma starts_from_bounds : forall src pending pos x,
  In x (starts_from pending pos src) -> pos <= x <= pos + Z.of_nat (length src) + 1.
Proof.
  induction src as [|c tl IH]; intros pending pos x H; cbn [starts_from] in H.
  - destruct pending; [destruct H as [<-|[]]; cbn; lia|destruct H].
  - cbn [length]. destruct pending as [p|].
    + destruct (is_break c).
      * destruct (c =? p); destruct H as [<-|H]; try lia; apply IH in H; lia.
      * destruct H as [<-|H]; try lia; apply IH in H; lia.
    + destruct (is_break c); apply IH in H; lia.
Qed.

Lemma starts_from_increasing : forall src pending pos,
  StronglySorted Z.lt (starts_from pending pos src) /\
  (forall x, In x (starts_from pending pos src) -> match pending with Some _ => pos <= x | None => pos < x end).
Proof.
  induction src as [|c tl IH]; intros pending pos; cbn [starts_from].
  - destruct pending; split; try constructor; try constructor; intros x H; try destruct H as [<-|[]]; try lia; destruct H.
  - destruct pending as [p|].
    + destruct (is_break c).
      * destruct (c =? p).
        -- destruct (IH (Some c) (pos + 1)) as [S B]. split.
           ++ constructor; [exact S|]. apply Forall_forall. intros x Hx. apply B in Hx. lia.
           ++ intros x [<-|Hx]; [lia|]. apply B in Hx. lia.
        -- destruct (IH None (pos + 1)) as [S B]. split.
           ++ constructor; [exact S|]. apply Forall_forall. intros x Hx. apply B in Hx. lia.
           ++ intros x [<-|Hx]; [lia|]. apply B in Hx. lia.
      * destruct (IH None (pos + 1)) as [S B]. split.
        -- constructor; [exact S|]. apply Forall_forall. intros x Hx. apply B in Hx. lia.
        -- intros x [<-|Hx]; [lia|]. apply B in Hx. lia.
    + destruct (is_break c).
      * destruct (IH (Some c) (pos + 1)) as [S B]. split; [exact S|]. intros x Hx. apply B in Hx. lia.
      * destruct (IH None (pos + 1)) as [S B]. split; [exact S|]. intros x Hx. apply B in Hx. lia.
Qed.

Theorem phys_starts_sorted src : StronglySorted Z.lt (phys_starts src).
Proof.
  unfold phys_starts. destruct (starts_from_increasing src None 0) as [S B].
  constructor; [exact S|]. apply Forall_forall. intros x Hx. apply B in Hx. exact Hx.
Qed.

Lemma find_line_from_cons i s0 s1 tl cursor :
  find_line_from i (s0 :: s1 :: tl) cursor = if cursor <? s1 then i else find_line_from (i + 1) (s1 :: tl) cursor.
Proof. reflexivity. Qed.
Lemma find_line_from_one i s0 cursor : find_line_from i [s0] cursor = i.
Proof. reflexivity. Qed.

(* FindLineIdx over strictly increasing starts: the result i satisfies starts[i] <= cursor < starts[i+1]
   (no upper bound for the last line) *)
Lemma find_line_from_spec : forall starts i cursor s0,
  StronglySorted Z.lt (s0 :: starts) -> s0 <= cursor ->
  let r := find_line_from i (s0 :: starts) cursor in
  i <= r /\
  (exists s, nth_error (s0 :: starts) (Z.to_nat (r - i)) = Some s /\ s <= cursor) /\
  (forall s', nth_error (s0 :: starts) (Z.to_nat (r - i) + 1) = Some s' -> cursor < s').
Proof.
  induction starts as [|s1 tl IH]; intros i cursor s0 HS Hc; [rewrite find_line_from_one|rewrite find_line_from_cons].
  - cbn zeta. replace (i - i) with 0 by lia. cbn. split; [lia|]. split; [exists s0; split; [reflexivity|exact Hc]|]. intros s' H. discriminate.
  - destruct (cursor <? s1) eqn:E.
    + cbn zeta. replace (i - i) with 0 by lia. cbn [Z.to_nat nth_error Nat.add]. split; [lia|]. split; [exists s0; split; [reflexivity|exact Hc]|].
      intros s' H. inversion H; subst. lia.
    + assert (Hc1 : s1 <= cursor) by lia.
      inversion HS as [|? ? HS' _]; subst.
      destruct (IH (i + 1) cursor s1 HS' Hc1) as (R1 & (s & R2 & R3) & R4).
      set (r := find_line_from (i + 1) (s1 :: tl) cursor) in *. cbn zeta.
      split; [lia|].
      assert (Hn : Z.to_nat (r - i) = S (Z.to_nat (r - (i + 1)))) by lia.
      split.
      * exists s. rewrite Hn. cbn [nth_error]. split; assumption.
      * intros s' H. rewrite Hn in H. cbn [nth_error Nat.add] in H. apply R4. exact H.
Qed.

Theorem find_line_contains src cursor : 0 <= cursor ->
  let i := line_of src cursor in
  0 <= i /\
  (exists s, nth_error (phys_starts src) (Z.to_nat i) = Some s /\ s <= cursor) /\
  (forall s', nth_error (phys_starts src) (Z.to_nat i + 1) = Some s' -> cursor < s').
Proof.
  intros Hc. unfold line_of, find_line, phys_starts.
  pose proof (phys_starts_sorted src) as HS. unfold phys_starts in HS.
  pose proof (find_line_from_spec (starts_from None 0 src) 0 cursor 0 HS Hc) as H. cbn zeta in H.
  rewrite Z.sub_0_r in H. exact H.
Qed.
