(* Proofs about the process-manager model (model/PM.v): the accounting invariant and
   the pool bounds for ALL configurations and ALL valid event traces. *)
From Coq Require Import List ZArith Bool Lia Arith Permutation.
Import ListNotations.
From Zn.model Require Import PM.
Open Scope Z_scope.

(* ------------------------------------------------------------------ association lists *)
Section Assoc.
Context {A : Type}.
Implicit Types (l : list (nat * A)).

Lemma amem_In : forall l k, amem k l = true <-> In k (keys l).
Proof.
  induction l as [|[k' v] t IH]; intros k; cbn.
  - split; [discriminate | tauto].
  - destruct (Nat.eqb_spec k k'); subst.
    + split; auto.
    + rewrite IH. split; [auto | intros [H|H]; [congruence | auto]].
Qed.

Lemma aget_In : forall l k v, aget k l = Some v -> In (k, v) l.
Proof.
  induction l as [|[k' v'] t IH]; intros k v; cbn; [discriminate|].
  destruct (Nat.eqb_spec k k'); subst.
  - intros [= ->]. auto.
  - intros H. right. auto.
Qed.

Lemma aget_keys : forall l k v, aget k l = Some v -> In k (keys l).
Proof. intros l k v H. apply aget_In in H. apply (in_map fst) in H. exact H. Qed.

Lemma In_aget : forall l k v, NoDup (keys l) -> In (k, v) l -> aget k l = Some v.
Proof.
  induction l as [|[k' v'] t IH]; intros k v ND HI; cbn in *; [tauto|].
  inversion ND as [|? ? Hn ND']; subst.
  destruct HI as [[= -> ->]|HI].
  - rewrite Nat.eqb_refl. reflexivity.
  - destruct (Nat.eqb_spec k k'); subst.
    + exfalso. apply Hn. apply (in_map fst) in HI. exact HI.
    + auto.
Qed.

Lemma keys_aset_in : forall l k v, In k (keys l) -> keys (aset k v l) = keys l.
Proof.
  induction l as [|[k' v'] t IH]; intros k v H; cbn in *; [tauto|].
  destruct (Nat.eqb_spec k k'); subst; cbn; [reflexivity|].
  f_equal. apply IH. destruct H; [congruence | auto].
Qed.

Lemma keys_aset_notin : forall l k v, ~ In k (keys l) -> keys (aset k v l) = keys l ++ [k].
Proof.
  induction l as [|[k' v'] t IH]; intros k v H; cbn in *; [reflexivity|].
  destruct (Nat.eqb_spec k k'); subst; cbn; [tauto|].
  f_equal. apply IH. tauto.
Qed.

Lemma length_aset_in : forall l k v, In k (keys l) -> length (aset k v l) = length l.
Proof.
  intros l k v H. pose proof (keys_aset_in l k v H) as E.
  apply (f_equal (@length _)) in E. unfold keys in E. rewrite !map_length in E. exact E.
Qed.

Lemma length_aset_notin : forall l k v, ~ In k (keys l) -> length (aset k v l) = S (length l).
Proof.
  intros l k v H. pose proof (keys_aset_notin l k v H) as E.
  apply (f_equal (@length _)) in E. unfold keys in E. rewrite app_length, !map_length in E. cbn in E. lia.
Qed.

Lemma In_aset : forall l k v q w, NoDup (keys l) -> In (q, w) (aset k v l) ->
  (q = k /\ w = v) \/ (q <> k /\ In (q, w) l).
Proof.
  induction l as [|[k' v'] t IH]; intros k v q w ND; cbn.
  - intros [[= <- <-]|[]]. auto.
  - inversion ND as [|? ? Hn ND']; subst.
    destruct (Nat.eqb_spec k k'); subst; cbn.
    + intros [[= <- <-]|H]; auto.
      right. split; auto. intros ->. apply Hn. apply (in_map fst) in H. exact H.
    + intros [[= <- <-]|H]; [right; split; auto|].
      destruct (IH _ _ _ _ ND' H) as [?|[? ?]]; auto.
Qed.

Lemma aset_In_other : forall l k v q w, q <> k -> In (q, w) l -> In (q, w) (aset k v l).
Proof.
  induction l as [|[k' v'] t IH]; intros k v q w Hn; cbn; [tauto|].
  destruct (Nat.eqb_spec k k'); subst; cbn.
  - intros [[= <- <-]|H]; [congruence | auto].
  - intros [[= <- <-]|H]; auto.
Qed.

Lemma In_adel : forall l k q w, In (q, w) (adel k l) <-> q <> k /\ In (q, w) l.
Proof.
  induction l as [|[k' v'] t IH]; intros k q w; cbn; [tauto|].
  destruct (Nat.eqb_spec k k'); subst; cbn; rewrite IH.
  - split; [tauto|]. intros [Hn [[= <- <-]|H]]; [congruence | auto].
  - split.
    + intros [[= <- <-]|[? ?]]; auto.
    + intros [Hn [[= <- <-]|H]]; auto.
Qed.

Lemma In_keys_adel : forall l k q, In q (keys (adel k l)) <-> q <> k /\ In q (keys l).
Proof.
  unfold keys. induction l as [|[k' v'] t IH]; intros k q; cbn; [tauto|].
  destruct (Nat.eqb_spec k k'); subst; cbn; rewrite IH.
  - split; [tauto|]. intros [Hn [<-|H]]; [congruence | auto].
  - split.
    + intros [<-|[? ?]]; auto.
    + intros [Hn [<-|H]]; auto.
Qed.

Lemma NoDup_keys_adel : forall l k, NoDup (keys l) -> NoDup (keys (adel k l)).
Proof.
  induction l as [|[k' v'] t IH]; intros k ND; cbn in *; [constructor|].
  inversion ND; subst.
  destruct (Nat.eqb_spec k k'); subst; cbn.
  - apply IH; assumption.
  - constructor; [|apply IH; assumption].
    intro Hin. apply In_keys_adel in Hin. tauto.
Qed.

Lemma length_adel : forall l k, NoDup (keys l) -> In k (keys l) -> S (length (adel k l)) = length l.
Proof.
  induction l as [|[k' v'] t IH]; intros k ND HI; cbn in *; [tauto|].
  inversion ND as [|? ? Hn ND']; subst.
  destruct (Nat.eqb_spec k k'); subst; cbn.
  - f_equal. clear IH ND ND' HI. induction t as [|[k2 v2] t IH]; cbn in *; auto.
    destruct (Nat.eqb_spec k' k2); subst; [tauto|]. cbn. f_equal. apply IH. tauto.
  - f_equal. apply IH; auto. destruct HI; [congruence | auto].
Qed.
End Assoc.

(* ------------------------------------------------------------------ plain nat lists *)
Lemma nmem_In : forall l k, nmem k l = true <-> In k l.
Proof.
  induction l as [|h t IH]; intros k; cbn.
  - split; [discriminate | tauto].
  - destruct (Nat.eqb_spec k h); subst.
    + split; auto.
    + rewrite IH. split; [auto | intros [H|H]; [congruence | auto]].
Qed.

Lemma In_nremove : forall l k q, In q (nremove k l) <-> q <> k /\ In q l.
Proof.
  induction l as [|h t IH]; intros k q; cbn; [tauto|].
  destruct (Nat.eqb_spec k h); subst; cbn; rewrite IH.
  - split; [tauto|]. intros [Hn [<-|H]]; [congruence | auto].
  - split.
    + intros [<-|[? ?]]; auto.
    + intros [Hn [<-|H]]; auto.
Qed.

(* ------------------------------------------------------------------ batches *)
Lemma reserved_app : forall l1 l2, reserved_nat (l1 ++ l2) = (reserved_nat l1 + reserved_nat l2)%nat.
Proof. unfold reserved_nat. induction l1; intros; cbn [app fold_right]; [reflexivity | rewrite IHl1; lia]. Qed.

Lemma flys_app : forall l1 l2, flys (l1 ++ l2) = flys l1 ++ flys l2.
Proof. intros. unfold flys. apply flat_map_app. Qed.

Lemma set_nth_split : forall (bs : list batch) i old new, nth_error bs i = Some old ->
  exists l1 l2, bs = l1 ++ old :: l2 /\ set_nth i new bs = l1 ++ new :: l2.
Proof.
  induction bs as [|h t IH]; intros [|i] old new H; cbn in *; try discriminate.
  - injection H as ->. exists [], t. auto.
  - destruct (IH _ _ new H) as (l1 & l2 & -> & E). exists (h :: l1), l2. cbn. rewrite E. auto.
Qed.

Lemma flys_set_spawn : forall bs i r q,
  nth_error bs i = Some {| b_rem := S r; b_fly := None |} ->
  let bs' := set_nth i {| b_rem := r; b_fly := Some q |} bs in
  (forall p, In p (flys bs') <-> p = q \/ In p (flys bs)) /\
  (NoDup (flys bs) -> ~ In q (flys bs) -> NoDup (flys bs')) /\
  reserved_nat bs' = reserved_nat bs.
Proof.
  intros bs i r q H bs'. subst bs'.
  destruct (set_nth_split _ _ _ {| b_rem := r; b_fly := Some q |} H) as (l1 & l2 & -> & ->).
  change (l1 ++ ?x :: l2) with (l1 ++ [x] ++ l2).
  rewrite !flys_app, !reserved_app. cbn [flys flat_map b_fly app reserved_nat fold_right b_rem fly_count].
  split; [|split].
  - intros p. rewrite !in_app_iff. cbn. intuition (subst; auto).
  - intros ND Hn. apply NoDup_Add with (a := q) (l := flys l1 ++ flys l2); [apply Add_app|].
    split; auto.
  - lia.
Qed.

Lemma flys_set_add : forall bs i r q,
  nth_error bs i = Some {| b_rem := r; b_fly := Some q |} -> NoDup (flys bs) ->
  let bs' := set_nth i {| b_rem := r; b_fly := None |} bs in
  (forall p, In p (flys bs') <-> p <> q /\ In p (flys bs)) /\
  NoDup (flys bs') /\ In q (flys bs) /\
  S (reserved_nat bs') = reserved_nat bs.
Proof.
  intros bs i r q H ND bs'. subst bs'.
  destruct (set_nth_split _ _ _ {| b_rem := r; b_fly := None |} H) as (l1 & l2 & -> & ->).
  revert ND. change (l1 ++ ?x :: l2) with (l1 ++ [x] ++ l2).
  rewrite !flys_app, !reserved_app. cbn [flys flat_map b_fly app reserved_nat fold_right b_rem fly_count].
  intros ND.
  pose proof (NoDup_remove_1 _ _ _ ND) as ND1. pose proof (NoDup_remove_2 _ _ _ ND) as ND2.
  split; [|split; [|split]].
  - intros p. rewrite !in_app_iff in *. cbn. split.
    + intros Hp. split; [intros ->; tauto | tauto].
    + intros [Hn [Hp|[Hp|Hp]]]; [tauto | congruence | tauto].
  - exact ND1.
  - rewrite !in_app_iff. cbn. auto.
  - lia.
Qed.

Lemma flys_new_batch : forall n bs, flys (new_batch n bs) = flys bs.
Proof.
  intros. unfold new_batch. destruct (0 <? n); [|reflexivity].
  rewrite flys_app. cbn. apply app_nil_r.
Qed.

Lemma reserved_new_batch : forall n bs, 0 <= n ->
  Z.of_nat (reserved_nat (new_batch n bs)) = Z.of_nat (reserved_nat bs) + n.
Proof.
  intros n bs Hn. unfold new_batch. destruct (Z.ltb_spec 0 n).
  - rewrite reserved_app. cbn. lia.
  - lia.
Qed.

(* ------------------------------------------------------------------ the invariant *)
Record inv (c : cfg) (s : state) : Prop := {
  i_acct : refCount s = zlen (childs s) + reserved s;
  i_lo : c_init c <= refCount s;
  i_hi : refCount s <= c_max c;
  i_nd_keys : NoDup (keys (childs s));
  i_nd_run : NoDup (keys (running s));
  i_nd_fly : NoDup (flys (batches s));
  i_disj : forall p, In p (keys (running s)) -> ~ In p (exited s);
  i_fly_keys : forall p, In p (flys (batches s)) -> ~ In p (keys (childs s));
  i_lt_keys : forall p, In p (keys (childs s)) -> (p < npid s)%nat;
  i_lt_fly : forall p, In p (flys (batches s)) -> (p < npid s)%nat;
  i_lt_run : forall p, In p (keys (running s)) -> (p < npid s)%nat;
  i_lt_ex : forall p, In p (exited s) -> (p < npid s)%nat;
  i_run_cov : forall p, In p (keys (running s)) -> In p (flys (batches s)) \/ In p (keys (childs s));
  i_keys_cov : forall p, In p (keys (childs s)) -> In p (keys (running s)) \/ In p (exited s);
  i_fly_cov : forall p, In p (flys (batches s)) -> In p (keys (running s)) \/ In p (exited s)
}.

Lemma inv_init : forall c, cfg_ok c -> inv c (init_state c).
Proof.
  intros c (H0 & H1 & H2). unfold init_state, init_gen.
  constructor; cbn [childs refCount batches running exited npid pipe keys map flys];
    try rewrite flys_new_batch; cbn; try (constructor; fail); try tauto; try lia.
  unfold reserved, zlen. cbn [batches childs length]. rewrite reserved_new_batch by lia. cbn. lia.
Qed.

Lemma NoDup_snoc : forall (l : list nat) x, NoDup l -> ~ In x l -> NoDup (l ++ [x]).
Proof.
  intros l x ND Hn. apply NoDup_Add with (a := x) (l := l ++ []); [apply Add_app|].
  rewrite app_nil_r. auto.
Qed.

Lemma keys_snoc : forall {A} (l : list (nat * A)) k v, keys (l ++ [(k, v)]) = keys l ++ [k].
Proof. intros. unfold keys. rewrite map_app. reflexivity. Qed.

Lemma In_snoc : forall (l : list nat) x p, In p (l ++ [x]) <-> In p l \/ p = x.
Proof. intros. rewrite in_app_iff. cbn. intuition. Qed.

Ltac proj := cbn [childs refCount batches running exited npid pipe nreq acc served].

(* --- SpawnOne *)
Lemma step_inv_spawn : forall c s b s', cfg_ok c -> inv c s -> step c s (SpawnOne b) = Some s' -> inv c s'.
Proof.
  intros c s b s' _ I H. unfold step, step_gen in H.
  destruct (nth_error (batches s) b) as [[[|r] [q|]]|] eqn:E; try discriminate. injection H as <-.
  destruct (flys_set_spawn _ _ _ (npid s) E) as (F1 & F2 & F3). destruct I.
  constructor; proj; try assumption.
  - unfold reserved in *. proj. rewrite F3. assumption.
  - rewrite keys_snoc. apply NoDup_snoc; auto. intros Hq. apply i_lt_run0 in Hq. lia.
  - apply F2; auto. intros Hq. apply i_lt_fly0 in Hq. lia.
  - intros p. rewrite keys_snoc, In_snoc. intros [Hp| ->]; auto. intros Hq. apply i_lt_ex0 in Hq. lia.
  - intros p Hp. apply F1 in Hp. destruct Hp as [->|Hp]; auto. intros Hq. apply i_lt_keys0 in Hq. lia.
  - intros p Hp. apply i_lt_keys0 in Hp. lia.
  - intros p Hp. apply F1 in Hp. destruct Hp as [->|Hp]; [lia|]. apply i_lt_fly0 in Hp. lia.
  - intros p. rewrite keys_snoc, In_snoc. intros [Hp| ->]; [|lia]. apply i_lt_run0 in Hp. lia.
  - intros p Hp. apply i_lt_ex0 in Hp. lia.
  - intros p. rewrite keys_snoc, In_snoc. intros [Hp| ->].
    + destruct (i_run_cov0 _ Hp); auto. left. apply F1. auto.
    + left. apply F1. auto.
  - intros p Hp. rewrite keys_snoc, In_snoc. destruct (i_keys_cov0 _ Hp); auto.
  - intros p Hp. rewrite keys_snoc, In_snoc. apply F1 in Hp. destruct Hp as [->|Hp]; auto.
    destruct (i_fly_cov0 _ Hp); auto.
Qed.

(* --- MasterAdd *)
Lemma step_inv_add : forall c s b s', cfg_ok c -> inv c s -> step c s (MasterAdd b) = Some s' -> inv c s'.
Proof.
  intros c s b s' _ I H. unfold step, step_gen in H.
  destruct (nth_error (batches s) b) as [[r [q|]]|] eqn:E; try discriminate.
  unfold m_add in H. injection H as <-. destruct I.
  destruct (flys_set_add _ _ _ _ E i_nd_fly0) as (F1 & F2 & F3 & F4).
  assert (Hq : ~ In q (keys (childs s))) by auto.
  constructor; proj; try assumption.
  - unfold reserved, zlen in *. proj. rewrite length_aset_notin by assumption. lia.
  - rewrite keys_aset_notin by assumption. apply NoDup_snoc; auto.
  - intros p Hp. apply F1 in Hp. destruct Hp as [Hn Hp]. rewrite keys_aset_notin by assumption.
    rewrite In_snoc. intros [Hk|Hk]; [|congruence]. exact (i_fly_keys0 _ Hp Hk).
  - intros p. rewrite keys_aset_notin by assumption. rewrite In_snoc. intros [Hp| ->]; auto.
  - intros p Hp. apply F1 in Hp. destruct Hp; auto.
  - intros p Hp. rewrite keys_aset_notin by assumption. rewrite In_snoc.
    destruct (Nat.eq_dec p q); auto.
    destruct (i_run_cov0 _ Hp); auto. left. apply F1. auto.
  - intros p. rewrite keys_aset_notin by assumption. rewrite In_snoc. intros [Hp| ->]; auto.
  - intros p Hp. apply F1 in Hp. destruct Hp; auto.
Qed.

Lemma m_update_spec : forall c p stv cs rc cs' rc' n, m_update c p stv cs rc = (cs', rc', n) ->
  keys cs' = keys cs /\ length cs' = length cs /\
  (rc <= c_max c -> 0 <= c_inc c -> 0 <= n /\ rc' = rc + n /\ rc' <= c_max c /\ rc <= rc').
Proof.
  intros c p stv cs rc cs' rc' n H. unfold m_update in H.
  set (cs1 := if amem p cs then aset p stv cs else cs) in *.
  assert (K : keys cs1 = keys cs /\ length cs1 = length cs).
  { subst cs1. destruct (amem p cs) eqn:E; auto. apply amem_In in E.
    split; [apply keys_aset_in | apply length_aset_in]; auto. }
  destruct (has_idle cs1).
  - injection H as <- <- <-. destruct K. repeat split; auto; lia.
  - injection H as <- <- <-. destruct K. repeat split; auto;
      destruct (Z.ltb_spec (c_max c) (rc + c_inc c)); lia.
Qed.

Lemma m_del_spec : forall c p cs rc cs' rc' n, m_del c p cs rc = (cs', rc', n) ->
  cs' = adel p cs /\ 0 <= n /\ rc' = rc - 1 + n /\ c_init c <= rc' /\
  (rc <= c_max c -> c_init c <= c_max c -> rc' <= c_max c).
Proof.
  intros c p cs rc cs' rc' n H. unfold m_del in H.
  destruct (Z.ltb_spec (rc - 1) (c_init c)); injection H as <- <- <-; repeat split; lia.
Qed.

(* --- MasterUpdate *)
Lemma step_inv_update : forall c s s', cfg_ok c -> inv c s -> step c s MasterUpdate = Some s' -> inv c s'.
Proof.
  intros c s s' (C0 & C1 & C2) I H. unfold step, step_gen in H.
  destruct (pipe s) as [|[p stv] rest]; try discriminate.
  destruct (m_update c p stv (childs s) (refCount s)) as [[cs' rc'] n] eqn:M. injection H as <-.
  destruct I. destruct (m_update_spec _ _ _ _ _ _ _ _ M) as (K1 & K2 & K3).
  destruct (K3 i_hi0 C2) as (N0 & N1 & N2 & N3).
  constructor; proj; rewrite ?flys_new_batch, ?K1; try assumption.
  - unfold reserved, zlen in *. proj. rewrite reserved_new_batch by assumption. rewrite K2. lia.
  - lia.
Qed.

(* --- MasterDel *)
Lemma step_inv_del : forall c s p s', cfg_ok c -> inv c s -> step c s (MasterDel p) = Some s' -> inv c s'.
Proof.
  intros c s p s' (C0 & C1 & C2) I H. unfold step, step_gen in H.
  destruct (nmem p (exited s) && amem p (childs s)) eqn:G; try discriminate.
  apply andb_true_iff in G. destruct G as [G1 G2]. apply nmem_In in G1. apply amem_In in G2.
  destruct (m_del c p (childs s) (refCount s)) as [[cs' rc'] n] eqn:M. injection H as <-.
  destruct I. destruct (m_del_spec _ _ _ _ _ _ _ M) as (-> & N0 & N1 & N2 & N3).
  assert (Hrun : ~ In p (keys (running s))) by (intros Hr; exact (i_disj0 _ Hr G1)).
  constructor; proj; rewrite ?flys_new_batch; try assumption.
  - unfold reserved, zlen in *. proj. rewrite reserved_new_batch by assumption.
    pose proof (length_adel _ _ i_nd_keys0 G2). lia.
  - auto.
  - apply NoDup_keys_adel; assumption.
  - intros q Hq He. apply In_nremove in He. destruct He. eapply i_disj0; eauto.
  - intros q Hq Hk. apply In_keys_adel in Hk. destruct Hk. eapply i_fly_keys0; eauto.
  - intros q Hk. apply In_keys_adel in Hk. destruct Hk. auto.
  - intros q He. apply In_nremove in He. destruct He. auto.
  - intros q Hq. destruct (i_run_cov0 _ Hq) as [?|Hk]; auto. right. apply In_keys_adel. split; auto.
    intros ->. auto.
  - intros q Hk. apply In_keys_adel in Hk. destruct Hk as [Hn Hk].
    destruct (i_keys_cov0 _ Hk); auto. right. apply In_nremove. auto.
  - intros q Hq. destruct (i_fly_cov0 _ Hq); auto. right. apply In_nremove. split; auto.
    intros ->. exact (i_fly_keys0 _ Hq G2).
Qed.

(* --- worker events: the master's bookkeeping is untouched *)
Lemma step_inv_wsame : forall c s s' w p,
  inv c s -> In p (keys (running s)) ->
  childs s' = childs s -> refCount s' = refCount s -> batches s' = batches s ->
  running s' = aset p w (running s) -> exited s' = exited s -> npid s' = npid s -> inv c s'.
Proof.
  intros c s s' w p I Hp E1 E2 E3 E4 E5 E6. destruct I.
  constructor; unfold reserved in *; rewrite ?E1, ?E2, ?E3, ?E4, ?E5, ?E6, ?keys_aset_in by assumption; assumption.
Qed.

Lemma step_inv_wexit : forall c s s' p,
  inv c s -> In p (keys (running s)) ->
  childs s' = childs s -> refCount s' = refCount s -> batches s' = batches s ->
  running s' = adel p (running s) -> exited s' = exited s ++ [p] -> npid s' = npid s -> inv c s'.
Proof.
  intros c s s' p I Hp E1 E2 E3 E4 E5 E6. destruct I.
  constructor; unfold reserved in *; rewrite ?E1, ?E2, ?E3, ?E4, ?E5, ?E6; try assumption.
  - apply NoDup_keys_adel; assumption.
  - intros q Hq. apply In_keys_adel in Hq. destruct Hq as [Hn Hq]. rewrite In_snoc.
    intros [He| ->]; [exact (i_disj0 _ Hq He) | congruence].
  - intros q Hq. apply In_keys_adel in Hq. destruct Hq. auto.
  - intros q. rewrite In_snoc. intros [He| ->]; auto.
  - intros q Hq. apply In_keys_adel in Hq. destruct Hq. auto.
  - intros q Hq. rewrite In_snoc. destruct (Nat.eq_dec q p); auto.
    destruct (i_keys_cov0 _ Hq); auto. left. apply In_keys_adel. auto.
  - intros q Hq. rewrite In_snoc. destruct (Nat.eq_dec q p); auto.
    destruct (i_fly_cov0 _ Hq); auto. left. apply In_keys_adel. auto.
Qed.

Theorem step_inv : forall c s e s', cfg_ok c -> inv c s -> step c s e = Some s' -> inv c s'.
Proof.
  intros c s e s' C I H. destruct e.
  - eapply step_inv_spawn; eauto.
  - eapply step_inv_add; eauto.
  - eapply step_inv_update; eauto.
  - eapply step_inv_del; eauto.
  - unfold step, step_gen in H. destruct (aget p (running s)) as [w|] eqn:G; try discriminate.
    destruct (wstep w (WEAccept (nreq s))) as [[[[w'|] fr] o]|]; try discriminate. injection H as <-.
    eapply step_inv_wsame with (p := p) (w := w'); eauto using aget_keys.
  - unfold step, step_gen in H. destruct (aget p (running s)) as [w|] eqn:G; try discriminate.
    destruct (wstep w WEFinish) as [[[[w'|] fr] [r|]]|]; try discriminate. injection H as <-.
    eapply step_inv_wsame with (p := p) (w := w'); eauto using aget_keys.
  - unfold step, step_gen in H. destruct (aget p (running s)) as [w|] eqn:G; try discriminate.
    destruct (wstep w WETimeout) as [[[[w'|] fr] o]|]; try discriminate. injection H as <-.
    eapply step_inv_wexit with (p := p); eauto using aget_keys.
  - unfold step, step_gen in H. destruct (aget p (running s)) as [w|] eqn:G; try discriminate.
    injection H as <-. eapply step_inv_wexit with (p := p); eauto using aget_keys.
  - unfold step, step_gen in H. injection H as <-. destruct I. constructor; assumption.
Qed.

Theorem run_inv : forall c tr s s', cfg_ok c -> inv c s -> run c s tr = Some s' -> inv c s'.
Proof.
  intros c tr. induction tr as [|e tr IH]; intros s s' C I H; cbn in H.
  - injection H as <-. assumption.
  - unfold run in *. cbn in H. destruct (step_gen false c s e) as [s1|] eqn:E; try discriminate.
    apply (IH s1 s' C); [|exact H]. exact (step_inv c s e s1 C I E).
Qed.

(* ------------------------------------------------------------------ the bounds *)
Lemma inv_live_le_ref : forall c s, inv c s -> live s <= refCount s.
Proof.
  intros c s I. destruct I.
  assert (L : (length (keys (running s)) <= length (flys (batches s) ++ keys (childs s)))%nat).
  { apply NoDup_incl_length; auto. intros p Hp. apply in_app_iff. auto. }
  assert (F : (length (flys (batches s)) <= reserved_nat (batches s))%nat).
  { clear. unfold flys, reserved_nat. induction (batches s) as [|b t IH]; cbn [flat_map fold_right length]; [lia|].
    rewrite app_length. unfold fly_count in *. destruct (b_fly b); cbn [length]; lia. }
  rewrite app_length in L. unfold keys in L. rewrite !map_length in L.
  unfold live, zlen, reserved in *. lia.
Qed.

Theorem live_le_max : forall c tr s, cfg_ok c -> run c (init_state c) tr = Some s -> live s <= c_max c.
Proof.
  intros c tr s C H. pose proof (run_inv _ _ _ _ C (inv_init _ C) H) as I.
  pose proof (inv_live_le_ref _ _ I). destruct I. lia.
Qed.

Theorem quiescent_ge_init : forall c tr s, cfg_ok c -> run c (init_state c) tr = Some s ->
  quiescent s -> c_init c <= live s.
Proof.
  intros c tr s C H [Q1 Q2]. pose proof (run_inv _ _ _ _ C (inv_init _ C) H) as I. destruct I.
  assert (L : (length (keys (childs s)) <= length (keys (running s)))%nat).
  { apply NoDup_incl_length; auto. intros p Hp. destruct (i_keys_cov0 _ Hp) as [?|He]; auto.
    rewrite Q2 in He. destruct He. }
  unfold keys in L. rewrite !map_length in L. unfold live, zlen in *. lia.
Qed.

(* ------------------------------------------------------------------ traces *)
Lemma run_app : forall c t1 t2 s, run c s (t1 ++ t2) =
  match run c s t1 with Some s1 => run c s1 t2 | None => None end.
Proof.
  intros c t1. induction t1 as [|e t1 IH]; intros t2 s; [reflexivity|].
  unfold run in *. cbn. destruct (step_gen false c s e); auto.
Qed.

Lemma reach_inv : forall c tr s, cfg_ok c -> run c (init_state c) tr = Some s -> inv c s.
Proof. intros c tr s C H. exact (run_inv _ _ _ _ C (inv_init _ C) H). Qed.

(* ------------------------------------------------------------------ exit notices follow registrations *)
Lemma In_keys_aset : forall {A} (l : list (nat * A)) k v p, In p (keys (aset k v l)) -> p = k \/ In p (keys l).
Proof.
  intros A l k v p H. destruct (in_dec Nat.eq_dec k (keys l)) as [Hk|Hk].
  - rewrite keys_aset_in in H by assumption. auto.
  - rewrite keys_aset_notin in H by assumption. apply In_snoc in H. tauto.
Qed.

Lemma step_keys : forall c s e s' p, step c s e = Some s' -> In p (keys (childs s')) ->
  In p (keys (childs s)) \/
  exists b r, e = MasterAdd b /\ nth_error (batches s) b = Some {| b_rem := r; b_fly := Some p |}.
Proof.
  intros c s e s' p H Hp. unfold step, step_gen in H. destruct e.
  - destruct (nth_error (batches s) b) as [[[|r] [q|]]|]; try discriminate. injection H as <-. auto.
  - destruct (nth_error (batches s) b) as [[r [q|]]|] eqn:E; try discriminate.
    unfold m_add in H. injection H as <-. cbn [childs] in Hp.
    apply In_keys_aset in Hp. destruct Hp as [->|Hp]; auto. right. eauto.
  - destruct (pipe s) as [|[q stv] rest]; try discriminate.
    destruct (m_update c q stv (childs s) (refCount s)) as [[cs' rc'] n] eqn:M. injection H as <-.
    destruct (m_update_spec _ _ _ _ _ _ _ _ M) as (K1 & _). cbn [childs] in Hp. rewrite K1 in Hp. auto.
  - destruct (nmem p0 (exited s) && amem p0 (childs s)); try discriminate.
    destruct (m_del c p0 (childs s) (refCount s)) as [[cs' rc'] n] eqn:M. injection H as <-.
    destruct (m_del_spec _ _ _ _ _ _ _ M) as (-> & _). cbn [childs] in Hp.
    apply In_keys_adel in Hp. tauto.
  - destruct (aget p0 (running s)) as [w|]; try discriminate.
    destruct (wstep w (WEAccept (nreq s))) as [[[[w'|] fr] o]|]; try discriminate. injection H as <-. auto.
  - destruct (aget p0 (running s)) as [w|]; try discriminate.
    destruct (wstep w WEFinish) as [[[[w'|] fr] [r|]]|]; try discriminate. injection H as <-. auto.
  - destruct (aget p0 (running s)) as [w|]; try discriminate.
    destruct (wstep w WETimeout) as [[[[w'|] fr] o]|]; try discriminate. injection H as <-. auto.
  - destruct (aget p0 (running s)) as [w|]; try discriminate. injection H as <-. auto.
  - injection H as <-. auto.
Qed.

Lemma key_origin : forall c p tr s s1, run c s tr = Some s1 -> In p (keys (childs s1)) ->
  In p (keys (childs s)) \/
  exists tr0 b tr0' s0 r, tr = tr0 ++ MasterAdd b :: tr0' /\ run c s tr0 = Some s0 /\
    nth_error (batches s0) b = Some {| b_rem := r; b_fly := Some p |}.
Proof.
  intros c p tr. induction tr as [|e tr IH]; intros s s1 H Hp.
  - injection H as <-. auto.
  - unfold run in H. cbn in H. destruct (step_gen false c s e) as [s'|] eqn:E; try discriminate.
    destruct (IH _ _ H Hp) as [Hk|(tr0 & b & tr0' & s0 & r & -> & R & N)].
    + destruct (step_keys _ _ _ _ _ E Hk) as [?|(b & r & -> & N)]; auto.
      right. exists [], b, tr, s, r. auto.
    + right. exists (e :: tr0), b, tr0', s0, r. repeat split; auto.
      unfold run. cbn. rewrite E. exact R.
Qed.

Theorem exit_after_registration : forall c tr1 tr2 p s, cfg_ok c ->
  run c (init_state c) (tr1 ++ MasterDel p :: tr2) = Some s ->
  exists tr0 b tr0' s0 r, tr1 = tr0 ++ MasterAdd b :: tr0' /\ run c (init_state c) tr0 = Some s0 /\
    nth_error (batches s0) b = Some {| b_rem := r; b_fly := Some p |}.
Proof.
  intros c tr1 tr2 p s _ H. rewrite run_app in H.
  destruct (run c (init_state c) tr1) as [s1|] eqn:R; try discriminate.
  unfold run in H. cbn in H.
  destruct (nmem p (exited s1) && amem p (childs s1)) eqn:G; try discriminate.
  apply andb_true_iff in G. destruct G as [_ G]. apply amem_In in G.
  destruct (key_origin _ _ _ _ _ R G) as [Hk|?]; auto.
  unfold init_state, init_gen in Hk. cbn in Hk. destruct Hk.
Qed.

(* ------------------------------------------------------------------ workers are not disturbed by others *)
Theorem undisturbed : forall c s e s' q w, NoDup (keys (running s)) ->
  ev_worker e <> Some q -> step c s e = Some s' -> In (q, w) (running s) -> In (q, w) (running s').
Proof.
  intros c s e s' q w ND Hq H Hin. unfold step, step_gen in H. destruct e; cbn in Hq.
  - destruct (nth_error (batches s) b) as [[[|r] [f|]]|]; try discriminate. injection H as <-.
    cbn [running]. apply in_or_app. auto.
  - destruct (nth_error (batches s) b) as [[r [f|]]|]; try discriminate.
    unfold m_add in H. injection H as <-. auto.
  - destruct (pipe s) as [|[f stv] rest]; try discriminate.
    destruct (m_update c f stv (childs s) (refCount s)) as [[cs' rc'] n]. injection H as <-. auto.
  - destruct (nmem p (exited s) && amem p (childs s)); try discriminate.
    destruct (m_del c p (childs s) (refCount s)) as [[cs' rc'] n]. injection H as <-. auto.
  - destruct (aget p (running s)) as [w0|]; try discriminate.
    destruct (wstep w0 (WEAccept (nreq s))) as [[[[w'|] fr] o]|]; try discriminate. injection H as <-.
    cbn [running]. apply aset_In_other; [congruence | assumption].
  - destruct (aget p (running s)) as [w0|]; try discriminate.
    destruct (wstep w0 WEFinish) as [[[[w'|] fr] [r|]]|]; try discriminate. injection H as <-.
    cbn [running]. apply aset_In_other; [congruence | assumption].
  - destruct (aget p (running s)) as [w0|]; try discriminate.
    destruct (wstep w0 WETimeout) as [[[[w'|] fr] o]|]; try discriminate. injection H as <-.
    cbn [running]. apply In_adel. split; [congruence | assumption].
  - destruct (aget p (running s)) as [w0|]; try discriminate. injection H as <-.
    cbn [running]. apply In_adel. split; [congruence | assumption].
  - injection H as <-. auto.
Qed.

(* a terminated process never comes back *)
Definition gone (p : nat) (s : state) : Prop := (p < npid s)%nat /\ ~ In p (keys (running s)).

Lemma step_gone : forall c s e s' p, step c s e = Some s' -> gone p s -> gone p s'.
Proof.
  intros c s e s' p H [G1 G2]. unfold step, step_gen in H. destruct e.
  - destruct (nth_error (batches s) b) as [[[|r] [f|]]|]; try discriminate. injection H as <-.
    split; cbn [npid running]; [lia|]. rewrite keys_snoc, In_snoc. intros [?|?]; [auto | lia].
  - destruct (nth_error (batches s) b) as [[r [f|]]|]; try discriminate.
    unfold m_add in H. injection H as <-. split; auto.
  - destruct (pipe s) as [|[f stv] rest]; try discriminate.
    destruct (m_update c f stv (childs s) (refCount s)) as [[cs' rc'] n]. injection H as <-. split; auto.
  - destruct (nmem p0 (exited s) && amem p0 (childs s)); try discriminate.
    destruct (m_del c p0 (childs s) (refCount s)) as [[cs' rc'] n]. injection H as <-. split; auto.
  - destruct (aget p0 (running s)) as [w0|] eqn:G; try discriminate.
    destruct (wstep w0 (WEAccept (nreq s))) as [[[[w'|] fr] o]|]; try discriminate. injection H as <-.
    split; cbn [npid running]; auto. rewrite keys_aset_in by eauto using aget_keys. auto.
  - destruct (aget p0 (running s)) as [w0|] eqn:G; try discriminate.
    destruct (wstep w0 WEFinish) as [[[[w'|] fr] [r|]]|]; try discriminate. injection H as <-.
    split; cbn [npid running]; auto. rewrite keys_aset_in by eauto using aget_keys. auto.
  - destruct (aget p0 (running s)) as [w0|] eqn:G; try discriminate.
    destruct (wstep w0 WETimeout) as [[[[w'|] fr] o]|]; try discriminate. injection H as <-.
    split; cbn [npid running]; auto. intros Hk. apply In_keys_adel in Hk. tauto.
  - destruct (aget p0 (running s)) as [w0|] eqn:G; try discriminate. injection H as <-.
    split; cbn [npid running]; auto. intros Hk. apply In_keys_adel in Hk. tauto.
  - injection H as <-. split; auto.
Qed.

Lemma run_gone : forall c tr s s' p, run c s tr = Some s' -> gone p s -> gone p s'.
Proof.
  intros c tr. induction tr as [|e tr IH]; intros s s' p H G.
  - injection H as <-. assumption.
  - unfold run in *. cbn in H. destruct (step_gen false c s e) as [s1|] eqn:E; try discriminate.
    eapply IH; eauto. eapply step_gone; eauto.
Qed.

Theorem timeout_replaced : forall c tr1 tr2 p s1 s1' s2, cfg_ok c ->
  run c (init_state c) tr1 = Some s1 -> step c s1 (WTimeout p) = Some s1' -> run c s1' tr2 = Some s2 ->
  (exists r, In (p, WServing r) (running s1)) /\
  (forall q w, q <> p -> In (q, w) (running s1) -> In (q, w) (running s1')) /\
  ~ In p (keys (running s1')) /\ In p (exited s1') /\
  ~ In p (keys (running s2)) /\
  live s2 <= c_max c /\
  (quiescent s2 -> c_init c <= live s2).
Proof.
  intros c tr1 tr2 p s1 s1' s2 C R1 T R2.
  pose proof (reach_inv _ _ _ C R1) as I1.
  assert (R : run c (init_state c) (tr1 ++ WTimeout p :: tr2) = Some s2).
  { rewrite run_app, R1.
    change (run c s1 (WTimeout p :: tr2)) with
      (match step c s1 (WTimeout p) with Some s' => run c s' tr2 | None => None end).
    rewrite T. exact R2. }
  assert (E : exists r, aget p (running s1) = Some (WServing r) /\ running s1' = adel p (running s1) /\
              exited s1' = exited s1 ++ [p] /\ npid s1' = npid s1).
  { unfold step, step_gen in T. destruct (aget p (running s1)) as [[|r]|]; cbn in T; try discriminate.
    injection T as <-. exists r. auto. }
  destruct E as (r & G & E1 & E2 & E3). rewrite E1, E2.
  assert (Gn : ~ In p (keys (adel p (running s1)))) by (intros Hk; apply In_keys_adel in Hk; tauto).
  split; [exists r; apply aget_In; assumption|].
  split; [intros q w Hq Hin; apply In_adel; auto|].
  split; [assumption|].
  split; [apply in_or_app; cbn; auto|].
  split.
  - assert (G1 : gone p s1').
    { split; [rewrite E3; apply (i_lt_run _ _ I1); eapply aget_keys; eauto | rewrite E1; exact Gn]. }
    exact (proj2 (run_gone _ _ _ _ _ R2 G1)).
  - split; [exact (live_le_max _ _ _ C R) | exact (quiescent_ge_init _ _ _ C R)].
Qed.

(* ------------------------------------------------------------------ one request, one worker, one at a time *)
Record winv (s : state) : Prop := {
  w_acc_lt : forall r p, In (r, p) (acc s) -> (r < nreq s)%nat;
  w_nd_acc : NoDup (keys (acc s));
  w_served_acc : forall r p, In (r, p) (served s) -> In (r, p) (acc s);
  w_nd_served : NoDup (keys (served s));
  w_serving_acc : forall p r, In (p, WServing r) (running s) -> In (r, p) (acc s);
  w_serving_unserved : forall p r, In (p, WServing r) (running s) -> ~ In r (keys (served s));
  w_serving_inj : forall p p' r, In (p, WServing r) (running s) -> In (p', WServing r) (running s) -> p = p'
}.

Lemma In_keys_ex : forall {A} (l : list (nat * A)) k, In k (keys l) -> exists v, In (k, v) l.
Proof.
  intros A l k H. unfold keys in H. apply in_map_iff in H. destruct H as ([k' v] & E & H). cbn in E. subst.
  eauto.
Qed.

Lemma winv_same : forall s s', winv s -> running s' = running s -> nreq s' = nreq s -> acc s' = acc s ->
  served s' = served s -> winv s'.
Proof.
  intros s s' W E1 E2 E3 E4. destruct W. constructor; rewrite ?E1, ?E2, ?E3, ?E4; assumption.
Qed.

Lemma winv_sub : forall s s', winv s -> (forall q w, In (q, w) (running s') -> In (q, w) (running s)) ->
  nreq s' = nreq s -> acc s' = acc s -> served s' = served s -> winv s'.
Proof.
  intros s s' W E1 E2 E3 E4. destruct W. constructor; rewrite ?E2, ?E3, ?E4; eauto.
Qed.

Lemma In_snoc_serving : forall (l : list (nat * wst)) n p r,
  In (p, WServing r) (l ++ [(n, WAccepting)]) -> In (p, WServing r) l.
Proof. intros l n p r H. apply in_app_or in H. destruct H as [?|[[=]|[]]]. assumption. Qed.

Lemma step_winv : forall c s e s', NoDup (keys (running s)) -> winv s -> step c s e = Some s' -> winv s'.
Proof.
  intros c s e s' ND W H. unfold step, step_gen in H. destruct e.
  - destruct (nth_error (batches s) b) as [[[|r] [f|]]|]; try discriminate. injection H as <-.
    destruct W. constructor; cbn [running nreq acc served]; try assumption.
    + intros q r1 Hin. apply In_snoc_serving in Hin. eauto.
    + intros q r1 Hin. apply In_snoc_serving in Hin. eauto.
    + intros q q' r1 Hin Hin'. apply In_snoc_serving in Hin. apply In_snoc_serving in Hin'. eauto.
  - destruct (nth_error (batches s) b) as [[r [f|]]|]; try discriminate.
    unfold m_add in H. injection H as <-. apply winv_same with (s := s); auto.
  - destruct (pipe s) as [|[f stv] rest]; try discriminate.
    destruct (m_update c f stv (childs s) (refCount s)) as [[cs' rc'] n]. injection H as <-.
    apply winv_same with (s := s); auto.
  - destruct (nmem p (exited s) && amem p (childs s)); try discriminate.
    destruct (m_del c p (childs s) (refCount s)) as [[cs' rc'] n]. injection H as <-.
    apply winv_same with (s := s); auto.
  - destruct (aget p (running s)) as [w0|] eqn:G; try discriminate.
    destruct w0 as [|r0]; cbn in H; try discriminate. injection H as <-.
    destruct W. constructor; cbn [running nreq acc served].
    + intros r q Hin. apply in_app_or in Hin. destruct Hin as [Hin|[[= <- <-]|[]]]; [|lia].
      apply w_acc_lt0 in Hin. lia.
    + rewrite keys_snoc. apply NoDup_snoc; auto. intros Hk. apply In_keys_ex in Hk. destruct Hk as [q Hk].
      apply w_acc_lt0 in Hk. lia.
    + intros r q Hin. apply in_or_app. auto.
    + assumption.
    + intros q r Hin. apply In_aset in Hin; auto. destruct Hin as [[-> [= ->]]|[Hn Hin]]; apply in_or_app; cbn; auto.
    + intros q r Hin. apply In_aset in Hin; auto. destruct Hin as [[-> [= ->]]|[Hn Hin]]; eauto.
      intros Hk. apply In_keys_ex in Hk. destruct Hk as [q' Hk]. apply w_served_acc0, w_acc_lt0 in Hk. lia.
    + intros q q' r Hin Hin'. apply In_aset in Hin; auto. apply In_aset in Hin'; auto.
      destruct Hin as [[Hq Hw]|[Hn Hin]]; destruct Hin' as [[Hq' Hw']|[Hn' Hin']].
      * congruence.
      * injection Hw as Hr. subst r. apply w_serving_acc0, w_acc_lt0 in Hin'. lia.
      * injection Hw' as Hr. subst r. apply w_serving_acc0, w_acc_lt0 in Hin. lia.
      * eauto.
  - destruct (aget p (running s)) as [w0|] eqn:G; try discriminate.
    destruct w0 as [|r0]; cbn in H; try discriminate. injection H as <-.
    apply aget_In in G. destruct W. constructor; cbn [running nreq acc served].
    + assumption.
    + assumption.
    + intros r q Hin. apply in_app_or in Hin. destruct Hin as [Hin|[[= <- <-]|[]]]; auto.
    + rewrite keys_snoc. apply NoDup_snoc; eauto.
    + intros q r Hin. apply In_aset in Hin; auto. destruct Hin as [[-> [=]]|[Hn Hin]]. auto.
    + intros q r Hin. apply In_aset in Hin; auto. destruct Hin as [[-> [=]]|[Hn Hin]].
      rewrite keys_snoc, In_snoc. intros [Hk| ->]; [eapply w_serving_unserved0; eauto|].
      apply Hn. eauto.
    + intros q q' r Hin Hin'. apply In_aset in Hin; auto. apply In_aset in Hin'; auto.
      destruct Hin as [[-> [=]]|[Hn Hin]]; destruct Hin' as [[-> [=]]|[Hn' Hin']]. eauto.
  - destruct (aget p (running s)) as [w0|] eqn:G; try discriminate.
    destruct w0 as [|r0]; cbn in H; try discriminate. injection H as <-.
    apply winv_sub with (s := s); auto. cbn [running]. intros q w Hin. apply In_adel in Hin. tauto.
  - destruct (aget p (running s)) as [w0|] eqn:G; try discriminate. injection H as <-.
    apply winv_sub with (s := s); auto. cbn [running]. intros q w Hin. apply In_adel in Hin. tauto.
  - injection H as <-. apply winv_same with (s := s); auto.
Qed.

Lemma winv_init : forall c, winv (init_state c).
Proof.
  intros c. unfold init_state, init_gen. constructor; cbn; try (constructor; fail); try tauto.
Qed.

Lemma run_winv : forall c tr s s', cfg_ok c -> inv c s -> winv s -> run c s tr = Some s' -> winv s'.
Proof.
  intros c tr. induction tr as [|e tr IH]; intros s s' C I W H.
  - injection H as <-. assumption.
  - unfold run in *. cbn in H. destruct (step_gen false c s e) as [s1|] eqn:E; try discriminate.
    apply (IH s1 s' C); [exact (step_inv c s e s1 C I E) | | exact H].
    exact (step_winv c s e s1 (i_nd_run _ _ I) W E).
Qed.

Theorem worker_one_at_a_time : forall c tr s, cfg_ok c -> run c (init_state c) tr = Some s ->
  (forall p w w', In (p, w) (running s) -> In (p, w') (running s) -> w = w') /\
  NoDup (keys (acc s)) /\ NoDup (keys (served s)) /\
  (forall r p, In (r, p) (served s) -> In (r, p) (acc s)) /\
  (forall p p' r, In (p, WServing r) (running s) -> In (p', WServing r) (running s) -> p = p') /\
  (forall p r, In (p, WServing r) (running s) -> In (r, p) (acc s) /\ ~ In r (keys (served s))).
Proof.
  intros c tr s C H. pose proof (reach_inv _ _ _ C H) as I.
  pose proof (run_winv _ _ _ _ C (inv_init _ C) (winv_init c) H) as W. destruct W.
  split.
  { intros p w w' H1 H2. apply (In_aget _ _ _ (i_nd_run _ _ I)) in H1. apply (In_aget _ _ _ (i_nd_run _ _ I)) in H2.
    congruence. }
  repeat split; eauto.
Qed.

(* the worker loop itself: a connection is accepted only by a worker that serves nothing, the answer /
   the timeout concern exactly the request being served *)
Lemma wstep_shape : forall w e w' fr o, wstep w e = Some (w', fr, o) ->
  match e with
  | WEAccept r => w = WAccepting /\ w' = Some (WServing r) /\ fr = ST_BUSY /\ o = None
  | WEFinish => exists r, w = WServing r /\ w' = Some WAccepting /\ fr = ST_IDLE /\ o = Some r
  | WETimeout => exists r, w = WServing r /\ w' = None /\ fr = ST_STOPPED /\ o = None
  end.
Proof.
  intros w e w' fr o H. destruct w, e; cbn in H; try discriminate; injection H as <- <- <-; eauto.
Qed.

(* ------------------------------------------------------------------ the pinned bookkeeping is refuted *)
Lemma overshoot_pinned :
  option_map live (run_pinned cfg14 (init_pinned cfg14) overshoot_trace) = Some 6.
Proof. vm_compute. reflexivity. Qed.

Theorem overshoot_refuted :
  cfg_ok cfg14 /\
  ~ (forall c tr s, cfg_ok c -> run_pinned c (init_pinned c) tr = Some s -> live s <= c_max c).
Proof.
  assert (C : cfg_ok cfg14) by (unfold cfg_ok, cfg14; cbn [c_init c_max c_inc]; lia).
  split; [exact C|].
  intros H. pose proof overshoot_pinned as L.
  destruct (run_pinned cfg14 (init_pinned cfg14) overshoot_trace) as [s|] eqn:R; [|discriminate].
  specialize (H cfg14 overshoot_trace s C R). cbn [option_map] in L. injection L as L.
  rewrite L in H. unfold cfg14 in H. cbn [c_max] in H. lia.
Qed.

(* the repaired loop does not follow that trace: after the second all-busy report nothing more is
   reserved; its valid prefix ends with 4 live workers and nothing reserved *)
Lemma overshoot_repaired :
  run cfg14 (init_state cfg14) overshoot_trace = None /\
  option_map (fun s => (live s, reserved s)) (run cfg14 (init_state cfg14) (firstn 12 overshoot_trace)) = Some (4, 0).
Proof. split; vm_compute; reflexivity. Qed.
