(* C13 — proofs about the string-literal lexer model (model/StringLit.v). *)
From Coq Require Import List ZArith Bool Lia.
Import ListNotations.
From Zn.model Require Import StringLit.
Open Scope Z_scope.

(* ------------------------------------------------------------------ basic facts about quotes *)
Lemma left_quote_cases o : is_left_quote o = true ->
  o = LDQ1 \/ o = LDQ2 \/ o = LSQ1 \/ o = LSQ2 \/ o = LLIB.
Proof. unfold is_left_quote. rewrite !orb_true_iff, !Z.eqb_eq. tauto. Qed.

Lemma right_quote_cases c : is_right_quote c = true ->
  c = RDQ1 \/ c = RDQ2 \/ c = RSQ1 \/ c = RSQ2 \/ c = RLIB.
Proof. unfold is_right_quote. rewrite !orb_true_iff, !Z.eqb_eq. tauto. Qed.

Record quote_pair (o c : Z) : Prop := {
  qp_match : quote_match o = c;
  qp_ol : is_left_quote o = true;  qp_or : is_right_quote o = false;
  qp_cl : is_left_quote c = false; qp_cr : is_right_quote c = true;
  qp_oc : o <> c;
  qp_o0 : o <> EOFc; qp_oCR : o <> CR; qp_oLF : o <> LF; qp_oBT : o <> BT;
  qp_c0 : c <> EOFc; qp_oN : o <> 0; qp_cN : c <> 0; qp_cCR : c <> CR; qp_cLF : c <> LF; qp_cBT : c <> BT }.

Lemma quote_pair_of o : is_left_quote o = true -> quote_pair o (quote_match o).
Proof.
  intros H. destruct (left_quote_cases o H) as [-> | [-> | [-> | [-> | ->]]]];
    constructor; vm_compute; congruence.
Qed.

Lemma is_quote_not_special q : is_quote q = true -> q <> EOFc /\ q <> CR /\ q <> LF /\ q <> BT.
Proof.
  unfold is_quote. rewrite orb_true_iff. intros [H|H].
  - destruct (left_quote_cases q H) as [-> | [-> | [-> | [-> | ->]]]]; vm_compute; repeat split; congruence.
  - destruct (right_quote_cases q H) as [-> | [-> | [-> | [-> | ->]]]]; vm_compute; repeat split; congruence.
Qed.

Tactic Notation "neqb" constr(H) := rewrite (proj2 (Z.eqb_neq _ _) H).
Tactic Notation "neqb" constr(H) "in" hyp(K) := rewrite (proj2 (Z.eqb_neq _ _) H) in K.

(* ------------------------------------------------------------------ one-step equations of parseString *)
Lemma ps_loop_S fuel sch quoteNum lit lines pos rest :
  ps_loop (S fuel) sch quoteNum lit lines pos rest =
      let ch := peek rest in
      let pos1 := pos + 1 in
      let rest1 := tl rest in
      if ch =? EOFc then LexErr ErrIncompleteString pos1
      else if (ch =? CR) || (ch =? LF) then
        let p := peek rest1 in
        if ((ch =? CR) && (p =? LF)) || ((ch =? LF) && (p =? CR)) then
          ps_loop fuel sch quoteNum ((lit ++ [ch]) ++ [p]) (lines ++ [pos1 + 1 + 1]) (pos1 + 1) (tl rest1)
        else
          ps_loop fuel sch quoteNum (lit ++ [ch]) (lines ++ [pos1 + 1]) pos1 rest1
      else if is_left_quote ch then
        ps_loop fuel sch (if sch =? ch then quoteNum + 1 else quoteNum) (lit ++ [ch]) lines pos1 rest1
      else if is_right_quote ch then
        if quote_match sch =? ch then
          if quoteNum - 1 =? 0 then LexOk (token_type sch) lit (pos1 + 1) lines
          else ps_loop fuel sch (quoteNum - 1) (lit ++ [ch]) lines pos1 rest1
        else ps_loop fuel sch quoteNum (lit ++ [ch]) lines pos1 rest1
      else if ch =? BT then
        match unescape rest1 with
        | (out, n, rest2) => ps_loop fuel sch quoteNum (lit ++ out) lines (pos1 + n) rest2
        end
      else ps_loop fuel sch quoteNum (lit ++ [ch]) lines pos1 rest1.
Proof. reflexivity. Qed.

Section Steps.
  Variables o c : Z.
  Hypothesis QP : quote_pair o c.

  (* an ordinary character (anything but NUL, CR, LF, backtick and the two own quotes — foreign quotes included) is
     appended verbatim and does not change the depth *)
  Lemma ps_plain f q lit lines pos x R :
    x <> EOFc -> x <> CR -> x <> LF -> x <> BT -> x <> o -> x <> c ->
    ps_loop (S f) o q lit lines pos (x :: R) = ps_loop f o q (lit ++ [x]) lines (pos + 1) R.
  Proof.
    intros H0 HCR HLF HBT Ho Hc. rewrite ps_loop_S. cbn [peek hd tl]. cbv zeta.
    neqb H0. neqb HCR. neqb HLF. cbn [orb].
    assert (Hoe : (o =? x) = false) by (apply Z.eqb_neq; congruence).
    assert (Hce : (quote_match o =? x) = false) by (rewrite (qp_match _ _ QP); apply Z.eqb_neq; congruence).
    rewrite Hoe, Hce. neqb HBT.
    destruct (is_left_quote x); [reflexivity|]. destruct (is_right_quote x); reflexivity.
  Qed.

  Lemma ps_open f q lit lines pos R :
    ps_loop (S f) o q lit lines pos (o :: R) = ps_loop f o (q + 1) (lit ++ [o]) lines (pos + 1) R.
  Proof.
    rewrite ps_loop_S. cbn [peek hd tl]. cbv zeta.
    neqb (qp_o0 _ _ QP). neqb (qp_oCR _ _ QP). neqb (qp_oLF _ _ QP). cbn [orb].
    rewrite (qp_ol _ _ QP), Z.eqb_refl. reflexivity.
  Qed.

  Lemma ps_close_nested f q lit lines pos R : q - 1 <> 0 ->
    ps_loop (S f) o q lit lines pos (c :: R) = ps_loop f o (q - 1) (lit ++ [c]) lines (pos + 1) R.
  Proof.
    intros Hq. rewrite ps_loop_S. cbn [peek hd tl]. cbv zeta.
    neqb (qp_c0 _ _ QP). neqb (qp_cCR _ _ QP). neqb (qp_cLF _ _ QP). cbn [orb].
    rewrite (qp_cl _ _ QP), (qp_cr _ _ QP), (qp_match _ _ QP), Z.eqb_refl. neqb Hq. reflexivity.
  Qed.

  Lemma ps_close_final f lit lines pos R :
    ps_loop (S f) o 1 lit lines pos (c :: R) = LexOk (token_type o) lit (pos + 2) lines.
  Proof.
    rewrite ps_loop_S. cbn [peek hd tl]. cbv zeta.
    neqb (qp_c0 _ _ QP). neqb (qp_cCR _ _ QP). neqb (qp_cLF _ _ QP). cbn [orb].
    rewrite (qp_cl _ _ QP), (qp_cr _ _ QP), (qp_match _ _ QP), Z.eqb_refl.
    change (1 - 1 =? 0) with true. cbv iota. f_equal. lia.
  Qed.

  (* line breaks: CR LF and LF CR are taken as one break and kept as written; a single CR or LF likewise *)
  Lemma ps_crlf f q lit lines pos R :
    ps_loop (S f) o q lit lines pos (CR :: LF :: R) =
    ps_loop f o q ((lit ++ [CR]) ++ [LF]) (lines ++ [pos + 1 + 1 + 1]) (pos + 1 + 1) R.
  Proof. rewrite ps_loop_S. reflexivity. Qed.

  Lemma ps_lfcr f q lit lines pos R :
    ps_loop (S f) o q lit lines pos (LF :: CR :: R) =
    ps_loop f o q ((lit ++ [LF]) ++ [CR]) (lines ++ [pos + 1 + 1 + 1]) (pos + 1 + 1) R.
  Proof. rewrite ps_loop_S. reflexivity. Qed.

  Lemma ps_cr f q lit lines pos R : peek R <> LF ->
    ps_loop (S f) o q lit lines pos (CR :: R) = ps_loop f o q (lit ++ [CR]) (lines ++ [pos + 1 + 1]) (pos + 1) R.
  Proof.
    intros H. rewrite ps_loop_S. cbn [peek hd tl]. cbv zeta.
    change (CR =? EOFc) with false. change (CR =? CR) with true. change (CR =? LF) with false.
    cbn [orb andb]. fold (peek R). neqb H. reflexivity.
  Qed.

  Lemma ps_lf f q lit lines pos R : peek R <> CR ->
    ps_loop (S f) o q lit lines pos (LF :: R) = ps_loop f o q (lit ++ [LF]) (lines ++ [pos + 1 + 1]) (pos + 1) R.
  Proof.
    intros H. rewrite ps_loop_S. cbn [peek hd tl]. cbv zeta.
    change (LF =? EOFc) with false. change (LF =? CR) with false. change (LF =? LF) with true.
    cbn [orb andb]. fold (peek R). neqb H. reflexivity.
  Qed.

  (* a backtick hands over to the escape machine *)
  Lemma ps_bt f q lit lines pos R :
    ps_loop (S f) o q lit lines pos (BT :: R) =
    match unescape R with (out, n, R2) => ps_loop f o q (lit ++ out) lines (pos + 1 + n) R2 end.
  Proof. rewrite ps_loop_S. reflexivity. Qed.
End Steps.

(* ------------------------------------------------------------------ the escape table *)
(* every documented name, wherever it stands (any following text R): the machine consumes exactly the name and
   yields the characters of the table *)
Lemma unescape_names : forall name chars, In (name, chars) esc_names ->
  forall R, unescape (tl name ++ R) = (chars, Z.of_nat (length name) - 1, R).
Proof.
  intros name chars H R. cbn in H.
  repeat (destruct H as [H|H]; [inversion H; subst; reflexivity|]). destruct H.
Qed.

Lemma unescape_NUL R : unescape (tl esc_NUL ++ R) = ([0], 4, R).
Proof. reflexivity. Qed.

(* a single quote character between backticks denotes itself and is not counted *)
Lemma unescape_wrapped q R : is_quote q = true -> unescape (q :: BT :: R) = ([q], 2, R).
Proof.
  intros H. unfold unescape. cbn [esc_loop peek hd]. rewrite H. reflexivity.
Qed.

Section StepsEsc.
  Variables o c : Z.
  Hypothesis QP : quote_pair o c.

  Lemma ps_name name chars : In (name, chars) esc_names -> forall f q lit lines pos R,
    ps_loop (S f) o q lit lines pos (name ++ R) = ps_loop f o q (lit ++ chars) lines (pos + Z.of_nat (length name)) R.
  Proof.
    intros H f q lit lines pos R.
    assert (Hn : name = BT :: tl name).
    { cbn in H. repeat (destruct H as [H|H]; [inversion H; subst; reflexivity|]). destruct H. }
    rewrite Hn at 1. cbn [app]. rewrite ps_bt, (unescape_names _ _ H). f_equal. lia.
  Qed.

  Lemma ps_NUL f q lit lines pos R :
    ps_loop (S f) o q lit lines pos (esc_NUL ++ R) = ps_loop f o q (lit ++ [0]) lines (pos + 5) R.
  Proof. change (esc_NUL ++ R) with (BT :: (tl esc_NUL ++ R)). rewrite ps_bt, unescape_NUL. f_equal. lia. Qed.

  Lemma ps_wrapped f q lit lines pos x R : is_quote x = true ->
    ps_loop (S f) o q lit lines pos (wrap x ++ R) = ps_loop f o q (lit ++ [x]) lines (pos + 3) R.
  Proof. intros H. cbn [wrap app]. rewrite ps_bt, (unescape_wrapped _ _ H). f_equal. lia. Qed.
End StepsEsc.

(* ------------------------------------------------------------------ the encoder round-trips *)
Lemma surplus_cons o c x r : surplus o c (x :: r) =
  if x =? c then S (surplus o c r) else if x =? o then Nat.pred (surplus o c r) else surplus o c r.
Proof. reflexivity. Qed.

Lemma encode_from_cons nul o c k x r : encode_from nul o c k (x :: r) =
      if x =? BT then esc_BK ++ encode_from nul o c k r
      else if nul && (x =? 0) then esc_NUL ++ encode_from nul o c k r
      else if x =? c then
        match k with
        | O => wrap c ++ encode_from nul o c O r
        | S k' => c :: encode_from nul o c k' r
        end
      else if x =? o then
        match surplus o c r with
        | O => wrap o ++ encode_from nul o c k r
        | S _ => o :: encode_from nul o c (S k) r
        end
      else x :: encode_from nul o c k r.
Proof. reflexivity. Qed.

(* first character of an encoded remainder followed by the closing quote *)
Lemma peek_encode nul o c k r tail y : y <> BT -> y <> c ->
  peek (encode_from nul o c k r ++ c :: tail) = y -> exists r', r = y :: r'.
Proof.
  intros HBT Hc. destruct r as [|x r']; [cbn; congruence|].
  rewrite encode_from_cons.
  destruct (x =? BT); [cbn; congruence|].
  destruct (nul && (x =? 0)); [cbn; congruence|].
  destruct (x =? c) eqn:Exc.
  { apply Z.eqb_eq in Exc. destruct k; cbn; intros; subst; congruence. }
  destruct (x =? o) eqn:Exo.
  { apply Z.eqb_eq in Exo. destruct (surplus o c r'); cbn; intros; subst; [congruence|eauto]. }
  cbn. intros; subst; eauto.
Qed.

Lemma In_BK : In (esc_BK, [BT]) esc_names.
Proof. cbn. auto. Qed.

Section RoundTrip.
  Variables o c : Z.
  Hypothesis QP : quote_pair o c.
  Variable nul : bool.

  Lemma roundtrip_gen : forall n s, (length s <= n)%nat -> Forall (fun x => 0 <= x) s ->
    forall k fuel lit lines pos tail,
      (k <= surplus o c s)%nat ->
      (length (encode_from nul o c k s) + 1 <= fuel)%nat ->
      exists lines',
        ps_loop fuel o (1 + Z.of_nat k) lit lines pos (encode_from nul o c k s ++ c :: tail)
        = LexOk (token_type o) (lit ++ s) (pos + Z.of_nat (length (encode_from nul o c k s)) + 2) lines'.
  Proof.
    pose proof (qp_oBT _ _ QP) as HoBT. pose proof (qp_cBT _ _ QP) as HcBT.
    pose proof (qp_o0 _ _ QP) as Ho0. pose proof (qp_c0 _ _ QP) as Hc0.
    pose proof (qp_oc _ _ QP) as Hoc.
    pose proof (qp_oN _ _ QP) as HoN. pose proof (qp_cN _ _ QP) as HcN.
    induction n as [|n IH]; intros s Hlen Hpos k fuel lit lines pos tail Hk Hfuel.
    - destruct s; [|cbn in Hlen; lia]. cbn in Hk. assert (k = 0)%nat by lia. subst k.
      cbn [encode_from app length] in *. destruct fuel as [|f]; [lia|].
      exists lines. change (1 + Z.of_nat 0) with 1. rewrite (ps_close_final _ _ QP). rewrite app_nil_r.
      f_equal. cbn. lia.
    - destruct s as [|x r].
      { cbn in Hk. assert (k = 0)%nat by lia. subst k.
        cbn [encode_from app length] in *. destruct fuel as [|f]; [lia|].
        exists lines. change (1 + Z.of_nat 0) with 1. rewrite (ps_close_final _ _ QP). rewrite app_nil_r.
        f_equal. cbn. lia. }
      cbn [length] in Hlen. assert (Hr : (length r <= n)%nat) by lia.
      inversion Hpos as [|? ? Hx0 Hr0]; subst.
      rewrite surplus_cons in Hk. rewrite encode_from_cons in *.
      destruct (x =? BT) eqn:ExBT.
      { (* a backtick is written `BK` *)
        apply Z.eqb_eq in ExBT. subst x.
        neqb (not_eq_sym HcBT) in Hk. neqb (not_eq_sym HoBT) in Hk.
        rewrite app_length in Hfuel. cbn [esc_BK length] in Hfuel.
        destruct fuel as [|f]; [lia|].
        destruct (IH r Hr Hr0 k f (lit ++ [BT]) lines (pos + 4) tail Hk ltac:(lia)) as [lines' E].
        exists lines'. rewrite <- app_assoc. rewrite (ps_name o _ _ In_BK).
        cbn [esc_BK length]. change (Z.of_nat 4) with 4. rewrite E. rewrite <- app_assoc. cbn [app].
        f_equal. rewrite app_length. cbn [esc_BK length]. lia. }
      destruct (nul && (x =? 0)) eqn:Ex0.
      { (* NUL is written `U+0` (when the encoder is asked to) *)
        apply andb_true_iff in Ex0. destruct Ex0 as [_ Ex0]. apply Z.eqb_eq in Ex0. subst x.
        assert (H0c : 0 <> c) by congruence. assert (H0o : 0 <> o) by congruence.
        neqb H0c in Hk. neqb H0o in Hk.
        rewrite app_length in Hfuel. cbn [esc_NUL length] in Hfuel.
        destruct fuel as [|f]; [lia|].
        destruct (IH r Hr Hr0 k f (lit ++ [0]) lines (pos + 5) tail Hk ltac:(lia)) as [lines' E].
        exists lines'. rewrite <- app_assoc. rewrite (ps_NUL o).
        rewrite E. rewrite <- app_assoc. cbn [app].
        f_equal. rewrite app_length. cbn [esc_NUL length]. lia. }
      apply Z.eqb_neq in ExBT.
      destruct (x =? c) eqn:Exc.
      { apply Z.eqb_eq in Exc. subst x. destruct k as [|k'].
        - (* own closing quote with no partner: `c` *)
          rewrite app_length in Hfuel. cbn [wrap length] in Hfuel.
          destruct fuel as [|f]; [lia|].
          destruct (IH r Hr Hr0 0%nat f (lit ++ [c]) lines (pos + 3) tail ltac:(lia) ltac:(lia)) as [lines' E].
          exists lines'. rewrite <- app_assoc. rewrite (ps_wrapped o).
          2:{ unfold is_quote. rewrite (qp_cr _ _ QP). apply orb_true_r. }
          rewrite E. rewrite <- app_assoc. cbn [app].
          f_equal. rewrite app_length. cbn [wrap length]. lia.
        - (* closes a verbatim opening quote *)
          cbn [length] in Hfuel. destruct fuel as [|f]; [lia|].
          destruct (IH r Hr Hr0 k' f (lit ++ [c]) lines (pos + 1) tail ltac:(lia) ltac:(lia)) as [lines' E].
          exists lines'. cbn [app]. rewrite (ps_close_nested _ _ QP) by lia.
          replace (1 + Z.of_nat (S k') - 1) with (1 + Z.of_nat k') by lia.
          rewrite E. rewrite <- app_assoc. cbn [app]. f_equal. cbn [length]. lia. }
      apply Z.eqb_neq in Exc.
      destruct (x =? o) eqn:Exo.
      { apply Z.eqb_eq in Exo. subst x. destruct (surplus o c r) as [|m] eqn:Esur.
        - (* own opening quote with no partner: `o` *)
          rewrite app_length in Hfuel. cbn [wrap length] in Hfuel.
          destruct fuel as [|f]; [lia|].
          destruct (IH r Hr Hr0 k f (lit ++ [o]) lines (pos + 3) tail ltac:(cbn in Hk; lia) ltac:(lia)) as [lines' E].
          exists lines'. rewrite <- app_assoc. rewrite (ps_wrapped o).
          2:{ unfold is_quote. rewrite (qp_ol _ _ QP). reflexivity. }
          rewrite E. rewrite <- app_assoc. cbn [app].
          f_equal. rewrite app_length. cbn [wrap length]. lia.
        - (* balanced: verbatim, one level deeper *)
          cbn [length] in Hfuel. destruct fuel as [|f]; [lia|].
          destruct (IH r Hr Hr0 (S k) f (lit ++ [o]) lines (pos + 1) tail ltac:(cbn in Hk; lia) ltac:(lia)) as [lines' E].
          exists lines'. cbn [app]. rewrite (ps_open _ _ QP).
          replace (1 + Z.of_nat k + 1) with (1 + Z.of_nat (S k)) by lia.
          rewrite E. rewrite <- app_assoc. cbn [app]. f_equal. cbn [length]. lia. }
      apply Z.eqb_neq in Exo.
      (* any other character is written verbatim *)
      cbn [length] in Hfuel. destruct fuel as [|f]; [lia|]. cbn [app].
      destruct (Z.eq_dec x CR) as [ECR|NCR].
      { subst x. destruct (Z.eq_dec (peek (encode_from nul o c k r ++ c :: tail)) LF) as [EP|NP].
        - (* CR LF: one line break, both characters kept *)
          destruct (peek_encode nul o c k r tail LF ltac:(discriminate) ltac:(apply not_eq_sym, (qp_cLF _ _ QP)) EP) as [r' ->].
          assert (HLFc : LF <> c) by (apply not_eq_sym, (qp_cLF _ _ QP)).
          assert (HLFo : LF <> o) by (apply not_eq_sym, (qp_oLF _ _ QP)).
          rewrite surplus_cons in Hk. neqb HLFc in Hk. neqb HLFo in Hk.
          rewrite encode_from_cons in *.
          change (LF =? BT) with false in *. change (LF =? 0) with false in *. rewrite andb_false_r in *.
          inversion Hr0 as [|? ? _ Hr0']; subst.
          neqb HLFc. neqb HLFo. neqb HLFc in Hfuel. neqb HLFo in Hfuel.
          cbn [length] in Hfuel, Hr. destruct f as [|f']; [lia|].
          destruct (IH r' ltac:(lia) Hr0' k (S f') ((lit ++ [CR]) ++ [LF]) (lines ++ [pos + 1 + 1 + 1]) (pos + 1 + 1) tail Hk ltac:(lia))
            as [lines' E].
          exists lines'. cbn [app]. rewrite (ps_crlf o). rewrite E. rewrite <- !app_assoc. cbn [app].
          f_equal. cbn [length]. lia.
        - destruct (IH r Hr Hr0 k f (lit ++ [CR]) (lines ++ [pos + 1 + 1]) (pos + 1) tail Hk ltac:(lia)) as [lines' E].
          exists lines'. rewrite (ps_cr o) by assumption. rewrite E. rewrite <- app_assoc. cbn [app].
          f_equal. cbn [length]. lia. }
      destruct (Z.eq_dec x LF) as [ELF|NLF].
      { subst x. destruct (Z.eq_dec (peek (encode_from nul o c k r ++ c :: tail)) CR) as [EP|NP].
        - destruct (peek_encode nul o c k r tail CR ltac:(discriminate) ltac:(apply not_eq_sym, (qp_cCR _ _ QP)) EP) as [r' ->].
          assert (HCRc : CR <> c) by (apply not_eq_sym, (qp_cCR _ _ QP)).
          assert (HCRo : CR <> o) by (apply not_eq_sym, (qp_oCR _ _ QP)).
          rewrite surplus_cons in Hk. neqb HCRc in Hk. neqb HCRo in Hk.
          rewrite encode_from_cons in *.
          change (CR =? BT) with false in *. change (CR =? 0) with false in *. rewrite andb_false_r in *.
          inversion Hr0 as [|? ? _ Hr0']; subst.
          neqb HCRc. neqb HCRo. neqb HCRc in Hfuel. neqb HCRo in Hfuel.
          cbn [length] in Hfuel, Hr. destruct f as [|f']; [lia|].
          destruct (IH r' ltac:(lia) Hr0' k (S f') ((lit ++ [LF]) ++ [CR]) (lines ++ [pos + 1 + 1 + 1]) (pos + 1 + 1) tail Hk ltac:(lia))
            as [lines' E].
          exists lines'. cbn [app]. rewrite (ps_lfcr o). rewrite E. rewrite <- !app_assoc. cbn [app].
          f_equal. cbn [length]. lia.
        - destruct (IH r Hr Hr0 k f (lit ++ [LF]) (lines ++ [pos + 1 + 1]) (pos + 1) tail Hk ltac:(lia)) as [lines' E].
          exists lines'. rewrite (ps_lf o) by assumption. rewrite E. rewrite <- app_assoc. cbn [app].
          f_equal. cbn [length]. lia. }
      destruct (IH r Hr Hr0 k f (lit ++ [x]) lines (pos + 1) tail Hk ltac:(lia)) as [lines' E].
      assert (HxE : x <> EOFc) by (unfold EOFc; lia).
      exists lines'. rewrite (ps_plain _ _ QP) by assumption. rewrite E. rewrite <- app_assoc. cbn [app].
      f_equal. cbn [length]. lia.
  Qed.
End RoundTrip.

Lemma Forall_scalar_to_text s : Forall (fun x => scalar x = true) s -> to_text s = s.
Proof.
  induction 1 as [|x r Hx _ IH]; [reflexivity|]. cbn [to_text map]. rewrite Hx. f_equal. exact IH.
Qed.

Lemma scalar_nonneg s : Forall (fun x => scalar x = true) s -> Forall (fun x => 0 <= x) s.
Proof.
  apply Forall_impl. intros x H. unfold scalar in H. apply orb_true_iff in H.
  destruct H as [H|H]; apply andb_true_iff in H; destruct H as [H _]; apply Z.leb_le in H; lia.
Qed.

(* Every text (list of code points) can be written as a literal, in each of the five quote styles, and reads back
   exactly: whatever follows the literal, the token is the text and ends right after the closing quote.
   Both encoders: NUL as `U+0` (nul = true) or verbatim (nul = false). *)
Theorem roundtrip_flag : forall nul o s tail, is_left_quote o = true -> Forall (fun x => 0 <= x) s ->
  exists lines,
    lex_string (literal_gen nul o s ++ tail)
    = LexOk (token_type o) s (Z.of_nat (length (literal_gen nul o s))) lines.
Proof.
  intros nul o s tail Ho Hs. pose proof (quote_pair_of o Ho) as QP.
  unfold literal_gen, encode_gen. set (c := quote_match o) in *.
  cbn [app]. rewrite <- app_assoc. cbn [app]. unfold lex_string. rewrite Ho.
  destruct (roundtrip_gen o c QP nul (length s) s (le_n _) Hs 0%nat
              (length (o :: encode_from nul o c 0 s ++ c :: tail)) [] [0] 0 tail (Nat.le_0_l _)) as [lines E].
  { cbn [length]. rewrite app_length. lia. }
  exists lines. change (1 + Z.of_nat 0) with 1 in E. rewrite E. cbn [app]. f_equal.
  cbn [length]. rewrite app_length. cbn [length]. lia.
Qed.

Theorem roundtrip : forall o s tail, is_left_quote o = true -> Forall (fun x => 0 <= x) s ->
  exists lines,
    lex_string (literal_of o s ++ tail)
    = LexOk (token_type o) s (Z.of_nat (length (literal_of o s))) lines.
Proof. intros o s tail. exact (roundtrip_flag true o s tail). Qed.

(* ... and the text value the interpreter builds from the token (string(runes)) is the text itself
   when the text consists of Unicode scalar values *)
Corollary roundtrip_value : forall o s tail, is_left_quote o = true -> Forall (fun x => scalar x = true) s ->
  exists e lines, lex_string (literal_of o s ++ tail) = LexOk (token_type o) s e lines /\ to_text s = s.
Proof.
  intros o s tail Ho Hs. destruct (roundtrip o s tail Ho (scalar_nonneg _ Hs)) as [lines E].
  eexists; exists lines; split; [exact E | apply Forall_scalar_to_text; exact Hs].
Qed.

(* ------------------------------------------------------------------ balanced own quotes stay verbatim *)
Lemma balanced_surplus o c : o <> c -> forall s k, balanced o c k s = true -> surplus o c s = k.
Proof.
  intros Hoc. induction s as [|x r IH]; intros k H; cbn [balanced surplus] in *.
  - apply Nat.eqb_eq in H. congruence.
  - destruct (x =? c).
    + destruct k; [discriminate|]. f_equal. apply IH, H.
    + destruct (x =? o); [rewrite (IH _ H); reflexivity | apply IH, H].
Qed.

Lemma no_special_nonneg s : no_special s = true -> Forall (fun x => 0 <= x) s.
Proof.
  induction s as [|x r IH]; [constructor|]. cbn [no_special forallb]. intros H.
  apply andb_true_iff in H. destruct H as [Hx Hr]. apply andb_true_iff in Hx. destruct Hx as [_ Hx].
  constructor; [apply Z.leb_le; exact Hx | apply IH; exact Hr].
Qed.

Lemma encode_balanced o c : o <> c -> forall s k, no_special s = true -> balanced o c k s = true ->
  encode_from false o c k s = s.
Proof.
  intros Hoc. induction s as [|x r IH]; intros k Hn Hb; [reflexivity|].
  rewrite encode_from_cons. cbn [no_special forallb] in Hn. apply andb_true_iff in Hn. destruct Hn as [Hx Hn].
  apply andb_true_iff in Hx. destruct Hx as [H1 _]. apply negb_true_iff in H1. rewrite H1. cbn [andb].
  cbn [balanced] in Hb. destruct (x =? c) eqn:Exc.
  - apply Z.eqb_eq in Exc. subst x. destruct k; [discriminate|]. f_equal. apply IH; assumption.
  - destruct (x =? o) eqn:Exo.
    + apply Z.eqb_eq in Exo. subst x. rewrite (balanced_surplus o c Hoc _ _ Hb). f_equal. apply IH; assumption.
    + f_equal. apply IH; assumption.
Qed.

(* The characters between the outer quotes become the value verbatim — nested balanced pairs of the own quotes,
   all foreign quotes, line breaks, NUL, everything except the backtick — and the literal closes exactly at the own
   closing quote that brings the nesting depth back to zero (not at a nested closer, not at a foreign one). *)
Theorem balanced_verbatim : forall o body tail, is_left_quote o = true ->
  no_special body = true -> balanced o (quote_match o) 0 body = true ->
  exists lines,
    lex_string (o :: body ++ quote_match o :: tail) = LexOk (token_type o) body (Z.of_nat (length body) + 2) lines.
Proof.
  intros o body tail Ho Hn Hb. pose proof (quote_pair_of o Ho) as QP.
  destruct (roundtrip_flag false o body tail Ho (no_special_nonneg _ Hn)) as [lines E]. exists lines.
  unfold literal_gen, encode_gen in E. rewrite (encode_balanced _ _ (qp_oc _ _ QP) _ _ Hn Hb) in E.
  cbn [app] in E. rewrite <- app_assoc in E. cbn [app] in E. rewrite E. f_equal.
  cbn [length]. rewrite app_length. cbn [length]. lia.
Qed.

(* ------------------------------------------------------------------ the escape machine, completely *)
Definition hexd (d : Z) : Prop := is_hex d = true.
Definition notq (x : Z) : Prop := is_quote x = false.

(* What the text after a backtick (R) can do.  Exactly four cases: a documented name, U+ with 1..8 hex digits,
   one quote character closed by a backtick, or — everything else — the consumed text is kept literally
   (backtick included), it never contains a quote character, and reading resumes right after it. *)
Inductive esc_class (R out : list Z) (n : Z) (R2 : list Z) : Prop :=
| EC_name name : In (name, out) esc_names -> R = tl name ++ R2 -> n = Z.of_nat (length (tl name)) -> esc_class R out n R2
| EC_uplus ds : (1 <= length ds <= 8)%nat -> Forall hexd ds -> R = 85 :: 43 :: ds ++ BT :: R2 ->
    out = [parse_hex32 ds] -> n = Z.of_nat (length ds) + 3 -> esc_class R out n R2
| EC_quote q : is_quote q = true -> R = q :: BT :: R2 -> out = [q] -> n = 2 -> esc_class R out n R2
| EC_kept used : R = used ++ R2 -> out = BT :: used ->
    n = Z.of_nat (length used) -> Forall notq used -> esc_class R out n R2.

Lemma lookup_name_In buf tbl v : lookup_name buf tbl = Some v -> In (buf, v) tbl.
Proof.
  induction tbl as [|[k w] t IH]; cbn [lookup_name]; [discriminate|].
  destruct (list_eqb buf k) eqn:E.
  - intros H. inversion H. subst w. left. f_equal.
    clear -E. revert k E. induction buf as [|x a IHa]; destruct k as [|y b]; cbn; try discriminate; auto.
    intros H. apply andb_true_iff in H. destruct H as [H1 H2]. apply Z.eqb_eq in H1. subst. f_equal. auto.
  - intros H. right. auto.
Qed.

Lemma esc_trans_BT s : esc_trans s BT = None.
Proof. destruct s; reflexivity. Qed.

Lemma esc_trans_notq s x s' : esc_trans s x = Some s' -> is_quote x = false.
Proof.
  unfold esc_trans. intros H.
  repeat match type of H with
         | (if ?x =? ?k then _ else _) = _ => destruct (Z.eqb_spec x k) as [->|_]; [reflexivity|]
         end. discriminate.
Qed.

Lemma is_hex_notq x : is_hex x = true -> is_quote x = false /\ x <> BT.
Proof.
  unfold is_hex. intros H. split.
  - destruct (is_quote x) eqn:E; [|reflexivity]. exfalso.
    unfold is_quote in E. apply orb_true_iff in E. destruct E as [E|E].
    + destruct (left_quote_cases _ E) as [-> | [-> | [-> | [-> | ->]]]]; discriminate.
    + destruct (right_quote_cases _ E) as [-> | [-> | [-> | [-> | ->]]]]; discriminate.
  - intros ->. discriminate.
Qed.

Lemma is_hex_nbrk x : is_hex x = true -> (x =? CR) || (x =? LF) = false.
Proof.
  unfold is_hex. intros H.
  destruct (Z.eqb_spec x CR) as [->|_]; [discriminate|]. destruct (Z.eqb_spec x LF) as [->|_]; [discriminate|]. reflexivity.
Qed.

Definition esc_state_inv (s : est) (hc : Z) (used : list Z) : Prop :=
  match s with
  | sBegin => used = []
  | sU => used = [85]
  | smP => used = [85; 43]
  | sHexNum => exists ds, used = 85 :: 43 :: ds /\ Forall hexd ds /\ Z.of_nat (length ds) = hc /\ (1 <= length ds)%nat
  | _ => True
  end.

Lemma esc_trans_inv s x s' hc used : esc_trans s x = Some s' -> esc_state_inv s hc used ->
  esc_state_inv s' hc (used ++ [x]).
Proof.
  unfold esc_trans. intros H I.
  repeat match type of H with
         | (if ?x =? ?k then _ else _) = _ => destruct (Z.eqb_spec x k) as [->|_];
             [destruct s; inversion H; subst; cbn in *; try exact Logic.I; subst; reflexivity|]
         end. discriminate.
Qed.

Lemma esc_loop_classify : forall rest cur s hc buf n used out n' R2,
  buf = BT :: used -> n = Z.of_nat (length used) -> Forall notq used -> (cur = BT -> used = []) ->
  esc_state_inv s hc used ->
  esc_loop cur s hc buf n rest = (out, n', R2) ->
  esc_class (used ++ rest) out n' R2.
Proof.
  induction rest as [|cch rest' IH]; intros cur s hc buf n used out n' R2 Hbuf Hn Hq Hcur Hst E.
  - cbn in E. inversion E; subst. apply (EC_kept _ _ _ _ used); auto.
  - cbn [esc_loop peek hd] in E. destruct (is_quote cch) eqn:Eq.
    + destruct ((cur =? BT) && (peek2 (cch :: rest') =? BT)) eqn:Eb.
      * apply andb_true_iff in Eb. destruct Eb as [E1 E2]. apply Z.eqb_eq in E1, E2.
        pose proof (Hcur E1) as Hu. destruct rest' as [|b R']; [cbn in E2; discriminate|].
        cbn in E2. subst b. cbn in E. inversion E; subst. cbn [app].
        apply (EC_quote _ _ _ _ cch); auto.
      * inversion E; subst. apply (EC_kept _ _ _ _ used); auto.
    + destruct ((cch =? CR) || (cch =? LF)) eqn:Ebrk.
      { inversion E; subst. apply (EC_kept _ _ _ _ used); auto. }
      set (buf' := buf ++ [cch]) in *.
      assert (Hbuf' : buf' = BT :: (used ++ [cch])) by (unfold buf'; rewrite Hbuf; reflexivity).
      assert (Hn' : n + 1 = Z.of_nat (length (used ++ [cch]))) by (rewrite app_length; cbn [length]; lia).
      assert (Hq' : Forall notq (used ++ [cch])) by (apply Forall_app; split; [assumption|constructor; [exact Eq|constructor]]).
      assert (Happ : forall X, (used ++ [cch]) ++ X = used ++ cch :: X) by (intros; rewrite <- app_assoc; reflexivity).
      destruct (is_hex cch && est_eqb s smP) eqn:E1.
      { apply andb_true_iff in E1. destruct E1 as [Hh Hs]. destruct s; try discriminate.
        rewrite <- Happ. eapply IH; eauto.
        - intros ->. destruct (is_hex_notq _ Hh) as [_ F]. congruence.
        - cbn in Hst |- *. subst used. exists [cch]. repeat split; auto. }
      destruct (is_hex cch && est_eqb s sHexNum) eqn:E2.
      { apply andb_true_iff in E2. destruct E2 as [Hh Hs]. destruct s; try discriminate.
        rewrite <- Happ. eapply IH; eauto.
        - intros ->. destruct (is_hex_notq _ Hh) as [_ F]. congruence.
        - cbn in Hst |- *. destruct Hst as (ds & -> & Hds & Hl & H1). exists (ds ++ [cch]). repeat split.
          + apply Forall_app; split; [assumption|constructor; [exact Hh|constructor]].
          + rewrite app_length. cbn [length]. lia.
          + rewrite app_length. lia. }
      destruct (esc_trans s cch) as [s'|] eqn:Et.
      { rewrite <- Happ. eapply IH; eauto.
        - intros ->. rewrite esc_trans_BT in Et. discriminate.
        - eapply esc_trans_inv; eauto. }
      destruct (cch =? BT) eqn:EBT.
      * apply Z.eqb_eq in EBT. subst cch.
        destruct (esc_close s hc buf') as [v|] eqn:Ec.
        { inversion E; subst out n' R2. unfold esc_close in Ec.
          destruct (lookup_name buf' esc_names) as [w|] eqn:El.
          - inversion Ec; subst w. apply lookup_name_In in El.
            apply (EC_name _ _ _ _ buf'); auto; rewrite Hbuf'; cbn [tl]; [symmetry; apply Happ | exact Hn'].
          - destruct (est_eqb s sHexNum && (1 <=? hc) && (hc <=? 8)) eqn:Eh; [|discriminate].
            apply andb_true_iff in Eh. destruct Eh as [Eh H8]. apply andb_true_iff in Eh. destruct Eh as [Hs H1].
            destruct s; try discriminate. cbn in Hst. destruct Hst as (ds & Hu & Hds & Hl & H1').
            apply Z.leb_le in H8.
            assert (Hsk : firstn (length buf' - 4) (skipn 3 buf') = ds).
            { rewrite Hbuf', Hu. cbn [app skipn length]. rewrite app_length. cbn [length].
              replace (S (S (S (length ds + 1))) - 4)%nat with (length ds + 0)%nat by lia.
              rewrite firstn_app_2. cbn. apply app_nil_r. }
            rewrite Hsk in Ec. inversion Ec; subst v.
            apply (EC_uplus _ _ _ _ ds); auto.
            + lia.
            + rewrite Hu. reflexivity.
            + rewrite Hn', Hu. rewrite app_length. cbn [length]. lia. }
        { inversion E; subst. apply (EC_kept _ _ _ _ (used ++ [BT])); auto. }
      * inversion E; subst. apply (EC_kept _ _ _ _ (used ++ [cch])); auto.
Qed.

Theorem unescape_classify : forall R out n R2, unescape R = (out, n, R2) -> esc_class R out n R2.
Proof.
  intros R out n R2 E. change R with ([] ++ R).
  eapply esc_loop_classify; try exact E; auto. reflexivity.
Qed.

(* consequence: the machine consumes a prefix of its input (or runs into the end of the source) *)
Lemma unescape_split R out n R2 : unescape R = (out, n, R2) ->
  exists used, R = used ++ R2 /\ n = Z.of_nat (length used).
Proof.
  intros E. destruct (unescape_classify _ _ _ _ E) as [name Hin HR Hn | ds Hl Hds HR Ho Hn | q Hq HR Ho Hn | used HR Ho Hn Hq].
  - exists (tl name). auto.
  - exists (85 :: 43 :: ds ++ [BT]). split.
    + rewrite HR. cbn [app]. rewrite <- app_assoc. reflexivity.
    + cbn [length]. rewrite app_length. cbn [length]. lia.
  - exists [q; BT]. split; [exact HR | rewrite Hn; reflexivity].
  - exists used; auto.
Qed.

(* ------------------------------------------------------------------ shape of every run of parseString *)
(* fuel suffices; an error is always "incomplete string"; a token ends right after an own closing quote *)
Definition shape (o pos : Z) (rest : list Z) (r : lex_result) : Prop :=
  match r with
  | LexOk ty _ e _ => exists pre post, rest = pre ++ quote_match o :: post /\
                                       e = pos + Z.of_nat (length pre) + 2 /\ ty = token_type o
  | LexErr code _ => code = ErrIncompleteString
  | OutOfFuel => False
  end.

Lemma shape_app o pos used rest2 r :
  shape o (pos + Z.of_nat (length used)) rest2 r -> shape o pos (used ++ rest2) r.
Proof.
  destruct r as [ty lit e lines|code cur|]; cbn [shape]; auto.
  intros (pre & post & -> & -> & ->). exists (used ++ pre), post. repeat split.
  - rewrite app_assoc. reflexivity.
  - rewrite app_length. lia.
Qed.

Lemma shape_cons o pos ch rest1 r : shape o (pos + 1) rest1 r -> shape o pos (ch :: rest1) r.
Proof. intros H. apply (shape_app o pos [ch]). exact H. Qed.

Lemma ps_loop_shape : forall fuel o q lit lines pos rest, (length rest < fuel)%nat ->
  shape o pos rest (ps_loop fuel o q lit lines pos rest).
Proof.
  induction fuel as [|f IH]; intros o q lit lines pos rest Hf; [lia|].
  rewrite ps_loop_S. destruct rest as [|ch rest1]; [reflexivity|].
  cbn [peek hd tl]. cbv zeta. cbn [length] in Hf.
  destruct (ch =? EOFc); [reflexivity|].
  destruct ((ch =? CR) || (ch =? LF)).
  { destruct (((ch =? CR) && (peek rest1 =? LF)) || ((ch =? LF) && (peek rest1 =? CR))) eqn:Ep.
    - destruct rest1 as [|p rest2].
      { cbn in Ep. rewrite !andb_false_r in Ep. discriminate. }
      cbn [peek hd tl]. apply (shape_app o pos [ch; p]). cbn [length].
      replace (pos + Z.of_nat 2) with (pos + 1 + 1) by lia. apply IH. cbn [length] in Hf. lia.
    - apply shape_cons. apply IH. lia. }
  destruct (is_left_quote ch).
  { apply shape_cons. apply IH. lia. }
  destruct (is_right_quote ch).
  { destruct (quote_match o =? ch) eqn:Em.
    - destruct (q - 1 =? 0).
      + apply Z.eqb_eq in Em. cbn [shape]. exists [], rest1. cbn [app length]. subst ch. repeat split. lia.
      + apply shape_cons. apply IH. lia.
    - apply shape_cons. apply IH. lia. }
  destruct (ch =? BT) eqn:EBT.
  { apply Z.eqb_eq in EBT. subst ch.
    destruct (unescape rest1) as [[out n] rest2] eqn:Eu.
    destruct (unescape_split _ _ _ _ Eu) as (used & -> & ->).
    apply shape_cons. apply shape_app. apply IH. rewrite app_length in Hf. lia. }
  apply shape_cons. apply IH. lia.
Qed.

Theorem lex_string_shape : forall src,
  match lex_string src with
  | LexOk ty lit e lines =>
      exists o pre post, src = o :: pre ++ quote_match o :: post /\ is_left_quote o = true /\
                         e = Z.of_nat (length pre) + 2 /\ ty = token_type o
  | LexErr code _ => is_left_quote (hd 0 src) = true -> code = ErrIncompleteString
  | OutOfFuel => False
  end.
Proof.
  intros [|o rest]; [cbn; discriminate|]. unfold lex_string. destruct (is_left_quote o) eqn:Ho.
  - pose proof (ps_loop_shape (length (o :: rest)) o 1 [] [0] 0 rest ltac:(cbn; lia)) as H.
    destruct (ps_loop _ _ _ _ _ _ _); cbn [shape] in H; auto.
    destruct H as (pre & post & -> & -> & ->). exists o, pre, post. repeat split; auto.
  - cbn. rewrite Ho. discriminate.
Qed.

(* An unterminated literal is a syntax error: if the own closing quote does not occur after the opening quote,
   the result is "incomplete string" (code 27) — never a token, never out of fuel. *)
Theorem unterminated_is_error : forall o rest, is_left_quote o = true -> ~ In (quote_match o) rest ->
  exists cursor, lex_string (o :: rest) = LexErr ErrIncompleteString cursor.
Proof.
  intros o rest Ho Hnot. pose proof (lex_string_shape (o :: rest)) as H.
  destruct (lex_string (o :: rest)) as [ty lit e lines|code cur|].
  - destruct H as (o' & pre & post & E & _). inversion E; subst. exfalso. apply Hnot.
    apply in_or_app. right. left. reflexivity.
  - exists cur. rewrite (H Ho). reflexivity.
  - contradiction.
Qed.

(* ------------------------------------------------------------------ U+hex *)
Lemma esc_loop_hex : forall ds cur hc buf n R, Forall hexd ds ->
  esc_loop cur sHexNum hc buf n (ds ++ BT :: R) =
  match esc_close sHexNum (hc + Z.of_nat (length ds)) (buf ++ ds ++ [BT]) with
  | Some out => (out, n + Z.of_nat (length ds) + 1, R)
  | None => (buf ++ ds ++ [BT], n + Z.of_nat (length ds) + 1, R)
  end.
Proof.
  induction ds as [|d ds IH]; intros cur hc buf n R Hds.
  - cbn [app length esc_loop peek hd]. change (is_quote BT) with false. change ((BT =? CR) || (BT =? LF)) with false.
    change (is_hex BT) with false.
    cbn [andb]. rewrite esc_trans_BT. change (BT =? BT) with true. cbv iota.
    replace (hc + Z.of_nat 0) with hc by (cbn; lia). replace (n + Z.of_nat 0 + 1) with (n + 1) by (cbn; lia).
    reflexivity.
  - inversion Hds as [|? ? Hd Hds']; subst. cbn [app esc_loop peek hd].
    destruct (is_hex_notq _ Hd) as [Hq _]. rewrite Hq. unfold hexd in Hd. rewrite (is_hex_nbrk _ Hd), Hd.
    cbn [est_eqb andb]. rewrite (IH d (hc + 1) (buf ++ [d]) (n + 1) R Hds').
    cbn [length]. rewrite <- !app_assoc. cbn [app].
    replace (hc + 1 + Z.of_nat (length ds)) with (hc + Z.of_nat (S (length ds))) by lia.
    replace (n + 1 + Z.of_nat (length ds) + 1) with (n + Z.of_nat (S (length ds)) + 1) by lia.
    reflexivity.
Qed.

Lemma unescape_UP rest : unescape (85 :: 43 :: rest) = esc_loop 43 smP 0 [BT; 85; 43] 2 rest.
Proof. reflexivity. Qed.

(* `U+h` with 1 to 8 hex digits [0-9A-F] denotes the code point h *)
Theorem unescape_uplus : forall ds R, Forall hexd ds -> (1 <= length ds <= 8)%nat ->
  unescape (85 :: 43 :: ds ++ BT :: R) = ([parse_hex32 ds], Z.of_nat (length ds) + 3, R).
Proof.
  intros ds R Hds Hl. destruct ds as [|d ds]; [cbn in Hl; lia|].
  inversion Hds as [|? ? Hd Hds']; subst.
  rewrite unescape_UP. cbn [app esc_loop peek hd].
  destruct (is_hex_notq _ Hd) as [Hq _]. rewrite Hq. unfold hexd in Hd. rewrite (is_hex_nbrk _ Hd), Hd. cbn [est_eqb andb].
  rewrite (esc_loop_hex ds d 1 _ _ R Hds'). cbn [app].
  unfold esc_close. cbn [lookup_name esc_names list_eqb].
  change (85 =? 84) with false. change (85 =? 66) with false. change (85 =? 83) with false.
  change (85 =? 67) with false. change (85 =? 76) with false. rewrite !andb_false_r. cbv iota.
  cbn [est_eqb andb]. cbn [length] in Hl.
  replace (1 <=? 1 + Z.of_nat (length ds)) with true by (symmetry; apply Z.leb_le; lia).
  replace (1 + Z.of_nat (length ds) <=? 8) with true by (symmetry; apply Z.leb_le; lia).
  cbn [andb]. cbn [length skipn]. rewrite app_length. cbn [length].
  replace (S (S (S (S (length ds + 1)))) - 4)%nat with (length (d :: ds) + 0)%nat by (cbn [length]; lia).
  change (d :: ds ++ [BT]) with ((d :: ds) ++ [BT]). rewrite firstn_app_2. cbn [firstn]. rewrite app_nil_r.
  f_equal. f_equal. cbn [length]. lia.
Qed.

Lemma hex_char_ok d : 0 <= d < 16 -> is_hex (hex_char d) = true /\ hex_val (hex_char d) = d.
Proof.
  intros H. unfold hex_char, is_hex, hex_val. destruct (d <? 10) eqn:E.
  - apply Z.ltb_lt in E. split.
    + apply orb_true_iff. left. apply andb_true_iff. split; apply Z.leb_le; lia.
    + replace (48 + d <=? 57) with true by (symmetry; apply Z.leb_le; lia). lia.
  - apply Z.ltb_ge in E. split.
    + apply orb_true_iff. right. apply andb_true_iff. split; apply Z.leb_le; lia.
    + replace (55 + d <=? 57) with false by (symmetry; apply Z.leb_gt; lia). lia.
Qed.

Lemma hex_digits_ok : forall n v, 0 <= v ->
  Forall hexd (hex_digits n v) /\ length (hex_digits n v) = n /\
  fold_left (fun acc d => acc * 16 + hex_val d) (hex_digits n v) 0 = v mod 16 ^ Z.of_nat n.
Proof.
  induction n as [|n IH]; intros v Hv.
  - cbn. repeat split; [constructor | symmetry; apply Z.mod_1_r].
  - cbn [hex_digits]. destruct (IH (v / 16) ltac:(apply Z.div_pos; lia)) as (H1 & H2 & H3).
    assert (Hm : 0 <= v mod 16 < 16) by (apply Z.mod_pos_bound; lia).
    destruct (hex_char_ok _ Hm) as [Hh Hv']. repeat split.
    + apply Forall_app. split; [exact H1 | constructor; [exact Hh | constructor]].
    + rewrite app_length, H2. cbn. lia.
    + rewrite fold_left_app. cbn [fold_left]. rewrite H3, Hv'.
      rewrite Nat2Z.inj_succ, Z.pow_succ_r by lia.
      rewrite (Z.rem_mul_r v 16 (16 ^ Z.of_nat n)) by lia. lia.
Qed.

(* every Unicode scalar value (indeed every value below 2^31) can be written as `U+h` *)
Theorem unescape_uplus_value : forall v R, 0 <= v <= 0x10FFFF ->
  unescape (tl (esc_uplus v) ++ R) = ([v], 11, R).
Proof.
  intros v R Hv. destruct (hex_digits_ok 8 v ltac:(lia)) as (H1 & H2 & H3).
  unfold esc_uplus. cbn [tl app]. rewrite <- app_assoc. cbn [app].
  rewrite (unescape_uplus _ R H1) by (rewrite H2; lia). rewrite H2. f_equal. f_equal.
  unfold parse_hex32. rewrite H3. change (16 ^ Z.of_nat 8) with 4294967296.
  rewrite Z.mod_small by lia. rewrite Z.min_l by lia. reflexivity.
Qed.

(* ------------------------------------------------------------------ the machine never takes a line break (repair 7640347) *)
Definition nbrk (x : Z) : Prop := (x =? CR) || (x =? LF) = false.

Lemma is_quote_nbrk q : is_quote q = true -> nbrk q.
Proof.
  intros H. destruct (is_quote_not_special q H) as (_ & H1 & H2 & _). unfold nbrk.
  apply Z.eqb_neq in H1, H2. rewrite H1, H2. reflexivity.
Qed.

Lemma esc_loop_no_break : forall rest cur s hc buf n out n' R2,
  esc_loop cur s hc buf n rest = (out, n', R2) ->
  exists used, rest = used ++ R2 /\ n' = n + Z.of_nat (length used) /\ Forall nbrk used.
Proof.
  induction rest as [|cch rest' IH]; intros cur s hc buf n out n' R2 E.
  - cbn in E. inversion E; subst. exists []; split; [reflexivity|split; [cbn; lia|constructor]].
  - cbn [esc_loop peek hd] in E. destruct (is_quote cch) eqn:Eq.
    + destruct ((cur =? BT) && (peek2 (cch :: rest') =? BT)) eqn:Eb.
      * apply andb_true_iff in Eb. destruct Eb as [_ E2]. apply Z.eqb_eq in E2.
        destruct rest' as [|b R']; [cbn in E2; discriminate|]. cbn in E2. subst b. cbn [tl] in E. inversion E; subst.
        exists [cch; BT]. split; [reflexivity|split; [cbn; lia|]].
        constructor; [apply is_quote_nbrk; exact Eq|constructor; [reflexivity|constructor]].
      * inversion E; subst. exists []; split; [reflexivity|split; [cbn; lia|constructor]].
    + destruct ((cch =? CR) || (cch =? LF)) eqn:Ebrk.
      { inversion E; subst. exists []; split; [reflexivity|split; [cbn; lia|constructor]]. }
      assert (REC : forall cur' s' hc', esc_loop cur' s' hc' (buf ++ [cch]) (n + 1) rest' = (out, n', R2) ->
                    exists used, cch :: rest' = used ++ R2 /\ n' = n + Z.of_nat (length used) /\ Forall nbrk used).
      { intros cur' s' hc' E'. apply IH in E'. destruct E' as (used & -> & -> & F). exists (cch :: used).
        split; [reflexivity|split; [cbn [length]; lia|constructor; [exact Ebrk|exact F]]]. }
      assert (ONE : exists used, cch :: rest' = used ++ rest' /\ n + 1 = n + Z.of_nat (length used) /\ Forall nbrk used).
      { exists [cch]. split; [reflexivity|split; [reflexivity|constructor; [exact Ebrk|constructor]]]. }
      destruct (is_hex cch && est_eqb s smP); [eapply REC; exact E|].
      destruct (is_hex cch && est_eqb s sHexNum); [eapply REC; exact E|].
      destruct (esc_trans s cch) as [s'|]; [eapply REC; exact E|].
      destruct (cch =? BT).
      * destruct (esc_close s hc (buf ++ [cch])); inversion E; subst; exact ONE.
      * inversion E; subst; exact ONE.
Qed.

(* what the escape machine consumes is a prefix of its input that contains no CR / LF *)
Theorem unescape_no_break : forall R out n R2, unescape R = (out, n, R2) ->
  exists used, R = used ++ R2 /\ n = Z.of_nat (length used) /\ Forall nbrk used.
Proof. intros R out n R2 E. apply esc_loop_no_break in E. exact E. Qed.
