(* ModulesDfsProofs.v — the three-colour DFS of checkCircularDepedencyDFS answers "true" exactly when the recorded
   graph has a cycle: for ALL finite edge lists, for every iteration order of the adjacency map, with the fuel
   the model supplies proved sufficient. *)
From Coq Require Import List ZArith Bool Arith Lia.
Import ListNotations.
From Zn.model Require Import Modules.

Definition edge := (nat * nat)%type.

(* non-empty path u ->+ v in the edge list *)
Inductive pathp (es : list edge) : nat -> nat -> Prop :=
| pathp_one : forall u v, In (u, v) es -> pathp es u v
| pathp_step : forall u v w, In (u, v) es -> pathp es v w -> pathp es u w.

Definition has_cycle (es : list edge) : Prop := exists v, pathp es v v.

Lemma pathp_snoc : forall es u v w, pathp es u v -> In (v, w) es -> pathp es u w.
Proof.
  intros es u v w H. induction H; intros Hw.
  - eapply pathp_step; eauto. apply pathp_one; auto.
  - eapply pathp_step; eauto.
Qed.

Lemma pathp_trans : forall es u v w, pathp es u v -> pathp es v w -> pathp es u w.
Proof.
  intros es u v w H. induction H; intros Hw.
  - eapply pathp_step; eauto.
  - eapply pathp_step; eauto.
Qed.

Lemma pathp_incl : forall es es' u v, incl es es' -> pathp es u v -> pathp es' u v.
Proof.
  intros es es' u v Hi H. induction H.
  - apply pathp_one. auto.
  - eapply pathp_step; eauto.
Qed.

Lemma succs_spec : forall es u v, In v (succs es u) <-> In (u, v) es.
Proof.
  intros es u v. unfold succs. rewrite in_map_iff. split.
  - intros [[a b] [Hb Hin]]. simpl in Hb. subst. apply filter_In in Hin. destruct Hin as [Hin He].
    simpl in He. apply Nat.eqb_eq in He. subst. auto.
  - intros H. exists (u, v). split; auto. apply filter_In. split; auto. simpl. apply Nat.eqb_refl.
Qed.

(* ---- a list of nodes in reverse finishing order: every successor of an element occurs later in the list *)
Inductive topo (es : list edge) : list nat -> Prop :=
| topo_nil : topo es []
| topo_cons : forall u l, topo es l -> ~ In u l -> (forall v, In (u, v) es -> In v l) -> topo es (u :: l).

Lemma topo_closed : forall es l, topo es l -> forall x y, In x l -> In (x, y) es -> In y l.
Proof.
  intros es l H. induction H; intros x y Hx Hxy.
  - inversion Hx.
  - destruct Hx as [Hx | Hx].
    + subst. right. auto.
    + right. eapply IHtopo; eauto.
Qed.

Lemma topo_path_closed : forall es l, topo es l -> forall x y, pathp es x y -> In x l -> In y l.
Proof.
  intros es l Ht x y Hp. induction Hp; intros Hx.
  - eapply topo_closed; eauto.
  - apply IHHp. eapply topo_closed; eauto.
Qed.

Lemma topo_acyclic : forall es l, topo es l -> forall x, In x l -> ~ pathp es x x.
Proof.
  intros es l H. induction H; intros x Hx Hp.
  - inversion Hx.
  - destruct Hx as [Hx | Hx].
    + subst x.
      (* first edge leaves u into l, and from l one never comes back to u *)
      assert (Hin : In u l).
      { inversion Hp; subst.
        - auto.
        - eapply topo_path_closed; eauto. }
      contradiction.
    + eapply IHtopo; eauto.
Qed.

(* ---- colour invariant *)
Record inv (es : list edge) (c : colors) (done : list nat) : Prop := {
  inv_topo : topo es done;
  inv_black : forall x, c x = 2 <-> In x done;
  inv_range : forall x, c x = 0 \/ c x = 1 \/ c x = 2
}.

Definition whites (c : colors) (U : list nat) : nat := length (filter (fun x => Nat.eqb (c x) 0) U).

Lemma whites_le : forall (c c' : colors) U, (forall x, c' x = 0 -> c x = 0) -> whites c' U <= whites c U.
Proof.
  intros c c' U H. unfold whites. induction U; simpl; auto.
  destruct (Nat.eqb (c' a) 0) eqn:E1.
  - apply Nat.eqb_eq in E1. apply H in E1. rewrite E1. simpl. lia.
  - destruct (Nat.eqb (c a) 0); simpl; lia.
Qed.

Lemma whites_lt : forall (c c' : colors) U u, (forall x, c' x = 0 -> c x = 0) -> In u U -> c u = 0 -> c' u <> 0 ->
  whites c' U < whites c U.
Proof.
  intros c c' U u H. unfold whites. induction U; intros Hin Hu Hu'.
  - inversion Hin.
  - simpl. destruct Hin as [Hin | Hin].
    + subst a. rewrite Hu. simpl. destruct (Nat.eqb (c' u) 0) eqn:E.
      * apply Nat.eqb_eq in E. contradiction.
      * pose proof (whites_le c c' U H) as Hle. unfold whites in Hle. lia.
    + specialize (IHU Hin Hu Hu').
      destruct (Nat.eqb (c' a) 0) eqn:E1.
      * apply Nat.eqb_eq in E1. apply H in E1. rewrite E1. simpl. lia.
      * destruct (Nat.eqb (c a) 0); simpl; lia.
Qed.

Lemma whites_length : forall (c : colors) U, whites c U <= length U.
Proof.
  intros c U. unfold whites. induction U; simpl; auto. destruct (Nat.eqb (c a) 0); simpl; lia.
Qed.

Section Dfs.
  Variable es : list edge.
  Variable U : list nat.                                   (* universe: every endpoint of an edge *)
  Hypothesis U_edges : forall u v, In (u, v) es -> In v U.

  (* outcome of dfs from a white node *)
  Definition dfs_post (c : colors) (u : nat) (out : option (bool * colors)) : Prop :=
    match out with
    | None => False
    | Some (true, _) => has_cycle es
    | Some (false, c') =>
        (exists done', inv es c' done') /\
        (forall x, c' x = 1 <-> c x = 1) /\
        c' u = 2 /\
        (forall x, c x = 2 -> c' x = 2) /\
        (forall x, c' x = 0 -> c x = 0)
    end.

  (* the loop over the successors of [u], with u grey *)
  Definition loop_of (f : nat) (u : nat) :=
    fix loop (vs : list nat) (c : colors) : option (bool * colors) :=
      match vs with
      | [] => Some (false, set_color c u 2)
      | v :: r =>
          if Nat.eqb (c v) 1 then Some (true, c)
          else if Nat.eqb (c v) 0 then
            match dfs f es c v with
            | None => None
            | Some (true, c') => Some (true, c')
            | Some (false, c') => loop r c'
            end
          else loop r c
      end.

  Lemma dfs_unfold : forall f c u, dfs (S f) es c u = loop_of f u (succs es u) (set_color c u 1).
  Proof. reflexivity. Qed.

  Lemma dfs_spec : forall fuel c u done,
    inv es c done -> c u = 0 -> In u U ->
    (forall g, c g = 1 -> pathp es g u) ->
    whites c U < fuel ->
    dfs_post c u (dfs fuel es c u).
  Proof.
    induction fuel as [|f IH]; intros c u done Hinv Hu HuU Hgrey Hfuel.
    - lia.
    - rewrite dfs_unfold.
      set (c1 := set_color c u 1).
      (* loop invariant, for a suffix vs of succs es u already-processed prefix being black *)
      assert (Hloop : forall vs ci donei,
                 (forall v, In v vs -> In (u, v) es) ->
                 (forall v, In (u, v) es -> In v vs \/ ci v = 2) ->
                 inv es ci donei ->
                 ci u = 1 ->
                 (forall x, ci x = 1 <-> (c x = 1 \/ x = u)) ->
                 (forall x, c x = 2 -> ci x = 2) ->
                 (forall x, ci x = 0 -> c x = 0) ->
                 dfs_post c u (loop_of f u vs ci)).
      { induction vs as [|v r IHr]; intros ci donei Hsub Hcov Hinvi Hciu Hg1 Hb Hw.
        - simpl. split; [|split; [|split; [|split]]].
          + exists (u :: donei). destruct Hinvi as [Ht Hbl Hrg]. constructor.
            * constructor; auto.
              -- intros Hin. apply Hbl in Hin. congruence.
              -- intros v Huv. destruct (Hcov v Huv) as [[]|Hv2]. apply Hbl. auto.
            * intros x. unfold set_color. destruct (Nat.eqb x u) eqn:E.
              -- apply Nat.eqb_eq in E. subst. split; auto. intros _. left. auto.
              -- rewrite Hbl. split; [intros Hx; right; auto|]. simpl. intros [Hx|Hx]; auto.
                 subst. rewrite Nat.eqb_refl in E. discriminate.
            * intros x. unfold set_color. destruct (Nat.eqb x u); auto.
          + intros x. unfold set_color. destruct (Nat.eqb x u) eqn:E.
            * apply Nat.eqb_eq in E. subst. split; intros H; [discriminate | rewrite Hu in H; discriminate].
            * rewrite Hg1. split; auto. intros [H|H]; auto. subst. rewrite Nat.eqb_refl in E. discriminate.
          + unfold set_color. rewrite Nat.eqb_refl. auto.
          + intros x Hx. unfold set_color. destruct (Nat.eqb x u); auto.
          + intros x. unfold set_color. destruct (Nat.eqb x u) eqn:E; [discriminate|]. auto.
        - simpl. destruct (Nat.eqb (ci v) 1) eqn:Ev1.
          + (* grey successor: back edge *)
            apply Nat.eqb_eq in Ev1. simpl.
            assert (Huv : In (u, v) es) by (apply Hsub; left; auto).
            apply Hg1 in Ev1. destruct Ev1 as [Hgv | Hvu].
            * exists v. eapply pathp_snoc; [apply Hgrey; auto | auto].
            * subst v. exists u. apply pathp_one. auto.
          + destruct (Nat.eqb (ci v) 0) eqn:Ev0.
            * apply Nat.eqb_eq in Ev0.
              assert (Huv : In (u, v) es) by (apply Hsub; left; auto).
              assert (Hpost : dfs_post ci v (dfs f es ci v)).
              { eapply IH; eauto.
                - intros g Hg. apply Hg1 in Hg. destruct Hg as [Hg | Hg].
                  + eapply pathp_snoc; [apply Hgrey; auto | auto].
                  + subst g. apply pathp_one. auto.
                - assert (whites ci U < whites c U).
                  { eapply whites_lt with (u := u); eauto. congruence. }
                  lia. }
              destruct (dfs f es ci v) as [[[|] c']|]; simpl in Hpost.
              -- simpl. auto.
              -- destruct Hpost as [[done' Hinv'] [Hg' [Hv2 [Hb' Hw']]]].
                 eapply IHr with (donei := done'); eauto.
                 ++ intros x Hx. apply Hsub. right. auto.
                 ++ intros x Hx. destruct (Hcov x Hx) as [[Hxv | Hxr] | Hx2]; auto.
                    subst. auto.
                 ++ apply Hg'. auto.
                 ++ intros x. rewrite Hg'. apply Hg1.
              -- contradiction.
            * (* black successor *)
              eapply IHr; eauto.
              -- intros x Hx. apply Hsub. right. auto.
              -- intros x Hx. destruct (Hcov x Hx) as [[Hxv | Hxr] | Hx2]; auto.
                 rewrite <- Hxv. right. destruct Hinvi as [_ _ Hrg]. destruct (Hrg v) as [H0 | [H1 | H2]]; auto.
                 ++ rewrite H0 in Ev0. discriminate.
                 ++ rewrite H1 in Ev1. discriminate. }
      eapply Hloop with (donei := done).
      + intros v Hv. apply succs_spec. auto.
      + intros v Hv. left. apply succs_spec. auto.
      + destruct Hinv as [Ht Hbl Hrg]. constructor; auto.
        * intros x. unfold c1, set_color. destruct (Nat.eqb x u) eqn:E.
          -- apply Nat.eqb_eq in E. subst. split; [discriminate|]. intros Hin. apply Hbl in Hin. congruence.
          -- apply Hbl.
        * intros x. unfold c1, set_color. destruct (Nat.eqb x u); auto.
      + unfold c1, set_color. rewrite Nat.eqb_refl. auto.
      + intros x. unfold c1, set_color. destruct (Nat.eqb x u) eqn:E.
        * apply Nat.eqb_eq in E. subst. split; auto.
        * split; auto. intros [H|H]; auto. subst. rewrite Nat.eqb_refl in E. discriminate.
      + intros x Hx. unfold c1, set_color. destruct (Nat.eqb x u) eqn:E; auto.
        apply Nat.eqb_eq in E. subst. congruence.
      + intros x. unfold c1, set_color. destruct (Nat.eqb x u); [discriminate | auto].
  Qed.

  (* the outer loop `for node := range adj` *)
  Lemma dfs_all_spec : forall nodes fuel c done,
    inv es c done -> (forall x, c x <> 1) -> incl nodes U -> length U < fuel ->
    match dfs_all fuel es c nodes with
    | None => False
    | Some true => has_cycle es
    | Some false => exists c' done', inv es c' done' /\ (forall x, In x nodes -> c' x = 2) /\ (forall x, c x = 2 -> c' x = 2)
    end.
  Proof.
    induction nodes as [|n r IHn]; intros fuel c done Hinv Hng Hincl Hfuel.
    - simpl. exists c, done. split; auto. split; auto. intros x [].
    - simpl. destruct (Nat.eqb (c n) 0) eqn:E0.
      + apply Nat.eqb_eq in E0.
        assert (Hpost : dfs_post c n (dfs fuel es c n)).
        { eapply dfs_spec; eauto.
          - apply Hincl. left. auto.
          - intros g Hg. exfalso. eapply Hng; eauto.
          - pose proof (whites_length c U). lia. }
        destruct (dfs fuel es c n) as [[[|] c']|]; simpl in Hpost; auto.
        destruct Hpost as [[done' Hinv'] [Hg' [Hn2 [Hb' Hw']]]].
        specialize (IHn fuel c' done' Hinv').
        assert (Hng' : forall x, c' x <> 1). { intros x Hx. apply Hg' in Hx. eapply Hng; eauto. }
        specialize (IHn Hng' (fun x Hx => Hincl x (or_intror Hx)) Hfuel).
        destruct (dfs_all fuel es c' r) as [[|]|]; auto.
        destruct IHn as [c2 [done2 [Hinv2 [Hall Hmono]]]].
        exists c2, done2. split; auto. split.
        * intros x [Hx | Hx]; auto. subst. auto.
        * intros x Hx. auto.
      + specialize (IHn fuel c done Hinv Hng (fun x Hx => Hincl x (or_intror Hx)) Hfuel).
        destruct (dfs_all fuel es c r) as [[|]|]; auto.
        destruct IHn as [c2 [done2 [Hinv2 [Hall Hmono]]]].
        exists c2, done2. split; auto. split; auto.
        intros x [Hx | Hx]; auto. subst. apply Hmono.
        destruct Hinv as [_ _ Hrg]. destruct (Hrg x) as [H0 | [H1 | H2]]; auto.
        * rewrite H0 in E0. discriminate.
        * exfalso. eapply Hng; eauto.
  Qed.
End Dfs.

(* ---- the key set of the adjacency map *)

Lemma nat_mem_In : forall x l, nat_mem x l = true <-> In x l.
Proof.
  induction l; simpl; split; intros H; try discriminate; try contradiction.
  - apply orb_true_iff in H. destruct H as [H | H].
    + apply Nat.eqb_eq in H. auto.
    + right. apply IHl. auto.
  - apply orb_true_iff. destruct H as [H | H].
    + subst. left. apply Nat.eqb_refl.
    + right. apply IHl. auto.
Qed.

Lemma dedup_In : forall l acc x, In x (dedup l acc) <-> In x l \/ In x acc.
Proof.
  induction l; intros acc x; simpl.
  - rewrite <- in_rev. tauto.
  - destruct (nat_mem a acc) eqn:E.
    + rewrite IHl. apply nat_mem_In in E. split; intros H; [tauto|].
      destruct H as [[H | H] | H]; auto. subst. auto.
    + rewrite IHl. simpl. tauto.
Qed.

Lemma dedup_length : forall l acc, length (dedup l acc) <= length l + length acc.
Proof.
  induction l; intros acc; simpl.
  - rewrite rev_length. lia.
  - destruct (nat_mem a acc).
    + specialize (IHl acc). lia.
    + specialize (IHl (a :: acc)). simpl in IHl. lia.
Qed.

Lemma adj_keys_spec : forall es x, In x (adj_keys es) <-> exists e, In e es /\ (x = fst e \/ x = snd e).
Proof.
  intros es x. unfold adj_keys. rewrite dedup_In. rewrite in_flat_map. split.
  - intros [[e [He Hx]] | []]. exists e. split; auto. simpl in Hx. destruct Hx as [Hx | [Hx | []]]; auto.
  - intros [e [He Hx]]. left. exists e. split; auto. simpl. destruct Hx; subst; auto.
Qed.

(* ---- main theorem: for every finite digraph and every iteration order that visits all keys *)
Lemma check_circular_cases : forall (ord : list nat -> list nat) es,
  (forall l x, In x (ord l) <-> In x l) ->
  match check_circular ord es with
  | Some true => has_cycle es
  | Some false => ~ has_cycle es
  | None => False
  end.
Proof.
  intros ord es Hord. unfold check_circular.
  set (U := adj_keys es).
  assert (HU : forall u v, In (u, v) es -> In v U).
  { intros u v H. apply adj_keys_spec. exists (u, v). auto. }
  assert (Hinv0 : inv es (fun _ => 0) []).
  { constructor; [constructor | |auto]. intros x. split; [discriminate | intros []]. }
  pose proof (dfs_all_spec es U HU (ord U) (S (length U)) (fun _ => 0) [] Hinv0) as H.
  assert (H1 : forall x : nat, (fun _ : nat => 0) x <> 1) by (intros x; discriminate).
  assert (H2 : incl (ord U) U) by (intros x Hx; apply Hord; auto).
  specialize (H H1 H2 (Nat.lt_succ_diag_r _)).
  destruct (dfs_all (S (length U)) es (fun _ => 0) (ord U)) as [[|]|]; auto.
  destruct H as [c' [done' [Hinv' [Hall _]]]].
  intros [v Hp]. destruct Hinv' as [Ht Hbl _].
  assert (Hv : In v U).
  { apply adj_keys_spec. inversion Hp as [a b Hab | a b w Hab Hbw]; subst.
    - exists (v, v); auto.
    - exists (v, b); auto. }
  eapply topo_acyclic; eauto. apply Hbl. apply Hall. apply Hord. auto.
Qed.

Theorem check_circular_iff_cycle : forall (ord : list nat -> list nat) es,
  (forall l x, In x (ord l) <-> In x l) ->
  (check_circular ord es = Some true <-> has_cycle es).
Proof.
  intros ord es Hord. pose proof (check_circular_cases ord es Hord) as H.
  destruct (check_circular ord es) as [[|]|]; split; intros; auto; try discriminate; contradiction.
Qed.

Theorem check_circular_false_iff : forall (ord : list nat -> list nat) es,
  (forall l x, In x (ord l) <-> In x l) ->
  (check_circular ord es = Some false <-> ~ has_cycle es).
Proof.
  intros ord es Hord. pose proof (check_circular_cases ord es Hord) as H.
  destruct (check_circular ord es) as [[|]|]; split; intros; auto; try discriminate; contradiction.
Qed.

Corollary check_circular_total : forall ord es, (forall l x, In x (ord l) <-> In x l) -> check_circular ord es <> None.
Proof.
  intros ord es Hord E. pose proof (check_circular_cases ord es Hord) as H. rewrite E in H. auto.
Qed.

(* independence of the iteration order *)
Corollary check_circular_order_independent : forall ord1 ord2 es,
  (forall l x, In x (ord1 l) <-> In x l) -> (forall l x, In x (ord2 l) <-> In x l) ->
  check_circular ord1 es = check_circular ord2 es.
Proof.
  intros ord1 ord2 es H1 H2.
  pose proof (check_circular_cases ord1 es H1) as A.
  pose proof (check_circular_cases ord2 es H2) as B.
  destruct (check_circular ord1 es) as [[|]|]; destruct (check_circular ord2 es) as [[|]|]; auto; contradiction.
Qed.
