(* Float64Proofs.v — the number operations of the model are the IEEE-754 binary64 operations: their results are the
   round-to-nearest-even images of the real results (Flocq's correctness theorems instantiated), floor is the real floor. *)
From Coq Require Import ZArith Reals Lia Lra Bool.
From Flocq Require Import Core IEEE754.BinarySingleNaN IEEE754.Binary IEEE754.Bits.
From Zn.lib Require Import Float64.
Open Scope R_scope.

Definition fexp64 := SpecFloat.fexp 53 1024.                  (* = FLT_exp (-1074) 53 *)
Definition rnd (x : R) : R := round radix2 fexp64 ZnearestE x.
Definition real_of (a : Z) : R := B2R 53 1024 (b2f a).
Definition finiteb (a : Z) : bool := Binary.is_finite 53 1024 (b2f a).
Definition no_overflow (x : R) : Prop := Rabs (rnd x) < bpow radix2 1024.

Lemma fexp64_is_FLT : forall e, fexp64 e = FLT_exp (-1074) 53 e.
Proof. intros e. reflexivity. Qed.

Lemma b2f_f2b (x : binary64) : Binary.is_nan 53 1024 x = false -> b2f (f2b x) = x.
Proof.
  intros H. unfold b2f, f2b. destruct x; try discriminate;
  unfold b64_of_bits, bits_of_b64;
  exact (binary_float_of_bits_of_binary_float 52 11 (eq_refl _) (eq_refl _) (eq_refl _) _).
Qed.

Lemma finite_not_nan (x : binary64) : Binary.is_finite 53 1024 x = true -> Binary.is_nan 53 1024 x = false.
Proof. destruct x; cbn; congruence. Qed.

Theorem fadd_ieee a b :
  finiteb a = true -> finiteb b = true -> no_overflow (real_of a + real_of b) ->
  real_of (fadd a b) = rnd (real_of a + real_of b) /\ finiteb (fadd a b) = true.
Proof.
  intros Ha Hb Ho. unfold finiteb, real_of, fadd in *.
  pose proof (Bplus_correct 53 1024 (eq_refl _) (eq_refl _) binop_nan_pl64 mode_NE (b2f a) (b2f b) Ha Hb) as H.
  unfold no_overflow, rnd, fexp64 in Ho. cbn [round_mode] in H. rewrite (Rlt_bool_true _ _ Ho) in H.
  destruct H as (H1 & H2 & _). unfold b64_plus. rewrite b2f_f2b by (apply finite_not_nan; exact H2).
  split; [exact H1|exact H2].
Qed.

Theorem fsub_ieee a b :
  finiteb a = true -> finiteb b = true -> no_overflow (real_of a - real_of b) ->
  real_of (fsub a b) = rnd (real_of a - real_of b) /\ finiteb (fsub a b) = true.
Proof.
  intros Ha Hb Ho. unfold finiteb, real_of, fsub in *.
  pose proof (Bminus_correct 53 1024 (eq_refl _) (eq_refl _) binop_nan_pl64 mode_NE (b2f a) (b2f b) Ha Hb) as H.
  unfold no_overflow, rnd, fexp64 in Ho. cbn [round_mode] in H. rewrite (Rlt_bool_true _ _ Ho) in H.
  destruct H as (H1 & H2 & _). unfold b64_minus. rewrite b2f_f2b by (apply finite_not_nan; exact H2).
  split; [exact H1|exact H2].
Qed.

Theorem fmul_ieee a b :
  finiteb a = true -> finiteb b = true -> no_overflow (real_of a * real_of b) ->
  real_of (fmul a b) = rnd (real_of a * real_of b) /\ finiteb (fmul a b) = true.
Proof.
  intros Ha Hb Ho. unfold finiteb, real_of, fmul in *.
  pose proof (Bmult_correct 53 1024 (eq_refl _) (eq_refl _) binop_nan_pl64 mode_NE (b2f a) (b2f b)) as H.
  unfold no_overflow, rnd, fexp64 in Ho. cbn [round_mode] in H. rewrite (Rlt_bool_true _ _ Ho) in H.
  destruct H as (H1 & H2 & _). rewrite Ha, Hb in H2. cbn [andb] in H2.
  unfold b64_mult. rewrite b2f_f2b by (apply finite_not_nan; exact H2).
  split; [exact H1|exact H2].
Qed.

Theorem fdiv_ieee a b :
  finiteb a = true -> real_of b <> 0 -> no_overflow (real_of a / real_of b) ->
  real_of (fdiv a b) = rnd (real_of a / real_of b) /\ finiteb (fdiv a b) = true.
Proof.
  intros Ha Hb Ho. unfold finiteb, real_of, fdiv in *.
  pose proof (Bdiv_correct 53 1024 (eq_refl _) (eq_refl _) binop_nan_pl64 mode_NE (b2f a) (b2f b) Hb) as H.
  unfold no_overflow, rnd, fexp64 in Ho. cbn [round_mode] in H. rewrite (Rlt_bool_true _ _ Ho) in H.
  destruct H as (H1 & H2 & _). rewrite Ha in H2.
  unfold b64_div. rewrite b2f_f2b by (apply finite_not_nan; exact H2).
  split; [exact H1|exact H2].
Qed.

(* math.Floor is the real floor *)
Theorem ffloor_real a : finiteb a = true ->
  real_of (ffloor a) = IZR (Zfloor (real_of a)) /\ finiteb (ffloor a) = true.
Proof.
  intros Ha. unfold finiteb, real_of, ffloor in *.
  pose proof (Bnearbyint_correct 53 1024 (eq_refl _) unop_nan_pl64 mode_DN (b2f a)) as (H1 & H2 & _).
  rewrite Ha in H2. rewrite b2f_f2b by (apply finite_not_nan; exact H2).
  rewrite H1, round_FIX_IZR. split; [reflexivity|exact H2].
Qed.

(* the zero test of / | % : a finite divisor is "zero" exactly when its real value is 0 (both +0 and -0) *)
Theorem fis_zero_real b : finiteb b = true -> (fis_zero b = true <-> real_of b = 0).
Proof.
  intros Hb. unfold fis_zero, feq, fcmp, fzero, finiteb, real_of in *.
  assert (Hz : Binary.is_finite 53 1024 (b2f 0) = true) by reflexivity.
  unfold b64_compare. rewrite (Bcompare_correct 53 1024 (b2f b) (b2f 0) Hb Hz).
  assert (B0 : B2R 53 1024 (b2f 0) = 0) by reflexivity. rewrite B0.
  destruct (Rcompare_spec (B2R 53 1024 (b2f b)) 0) as [H|H|H]; split; intros E; try discriminate; try reflexivity; try exact H; lra.
Qed.

(* floor division and remainder, as the evaluator computes them *)
Theorem floor_div_real a b :
  finiteb a = true -> real_of b <> 0 -> no_overflow (real_of a / real_of b) ->
  real_of (ffloor (fdiv a b)) = IZR (Zfloor (rnd (real_of a / real_of b))).
Proof.
  intros Ha Hb Ho. destruct (fdiv_ieee a b Ha Hb Ho) as [H1 H2].
  destruct (ffloor_real (fdiv a b) H2) as [H3 _]. rewrite H3, H1. reflexivity.
Qed.
