(* C03 - "program sections (导入, 输入, statements, 拦截)" and further statement kinds, CHARACTER LEVEL.
   The canonical printing of a program of proofs/SectionsTokProofs.v (one line per header / simple statement, LF between lines,
   4 spaces per nesting level, single spaces between tokens) compiles to exactly the prescribed tree, with the line table
   and the indentation type. *)
From Coq Require Import List ZArith Bool Lia Arith.
Import ListNotations.
From Zn.gen Require Import GenFrontTokens.
From Zn.model Require Import LexerTok Lexer Ast Parser.
From Zn.model Require StringLit.
From Zn.proofs Require Import FrontLexProofs FrontCompleteProofs FrontTotalProofs ExprPrecProofs ChainPrecProofs StmtNestProofs.
From Zn.proofs Require Import SectionsTokProofs.
Open Scope Z_scope.

(* ================================================================== spellings of the new tokens *)
(* 导入 输入 拦截 如何 ？ 遍历 以 抛出 ！ 继续循环 结束循环 ; a library name is 《...》 *)
Definition spellings4 : list (Z * list Z) :=
  [(g_TypeImportW, [23548; 20837]); (g_TypeInputW, [36755; 20837]); (g_TypeCatchErrorW, [25318; 25130]);
   (g_TypeFuncW, [22914; 20309]); (g_TypeFuncDeclare, [65311]); (g_TypeIteratorW, [36941; 21382]);
   (g_TypeVarOneW, [20197]); (g_TypeThrowErrorW, [25243; 20986]); (g_TypeExceptionT, [65281]);
   (g_TypeContinueW, [32487; 32493; 24490; 29615]); (g_TypeBreakW, [32467; 26463; 24490; 29615])].
Definition in4 (t : atok) : bool := mem (fst t) (map fst spellings4).
Definition isLib (t : atok) : bool := fst t =? g_TypeLibString.
Definition spell4 (t : atok) : list Z :=
  if isLib t then 12298 :: snd t ++ [12299] else if in4 t then spell_ty (fst t) spellings4 else spell3 t.
Definition tok_ok4 (t : atok) : bool :=
  if isLib t then forallb strc (snd t)
  else if in4 t then (match snd t with [] => true | _ => false end) else tok_ok3 t.
Definition endable4 (t : atok) : bool := if isLib t then true else if in4 t then true else endable3 t.

Fixpoint joinc4 (ts : list atok) : list Z :=
  match ts with
  | [] => []
  | t :: ts' => match ts' with [] => spell4 t | _ => spell4 t ++ 32 :: joinc4 ts' end
  end.
Definition after4 (ts : list atok) : list Z := match ts with [] => [] | _ => 32 :: joinc4 ts end.
Lemma joinc4_cons : forall t ts, joinc4 (t :: ts) = spell4 t ++ after4 ts.
Proof. intros t ts. destruct ts as [|t2 ts]; cbn [joinc4 after4]; [rewrite app_nil_r|]; reflexivity. Qed.

(* the last token of a nonempty line *)
Fixpoint lastt (t : atok) (ts : list atok) : atok := match ts with [] => t | t2 :: r => lastt t2 r end.

(* first tokens of lines *)
Definition lheads4 : list Z :=
  lheads ++ [g_TypeFuncW; g_TypeVarOneW; g_TypeIteratorW; g_TypeThrowErrorW; g_TypeBreakW; g_TypeContinueW;
             g_TypeCatchErrorW; g_TypeImportW; g_TypeInputW].

Lemma lex_fixed_any4 : forall ty cs, In (ty, cs) spellings4 -> forall l tail, rest l = cs ++ tail ->
  nt_body l = LOk (mkTok ty [] (pos l) (pos l + Z.of_nat (length cs)))
                  (set_pos_rest l (pos l + Z.of_nat (length cs)) tail).
Proof.
  intros ty cs HI l tail E. destruct l as [p r it ls sl]. cbn [rest pos] in *. subst r.
  unfold spellings4 in HI.
  repeat (destruct HI as [HI|HI]; [inversion HI; subst ty cs; reflexivity|]).
  destruct HI.
Qed.

Lemma ps_plain_lib : forall cs fuel lit p tail, forallb strc cs = true -> (length cs < fuel)%nat ->
  StringLit.ps_loop fuel 12298 1 lit [] p (cs ++ 12299 :: tail)
  = StringLit.LexOk g_TypeLibString (lit ++ cs) (p + Z.of_nat (length cs) + 2) [].
Proof.
  induction cs as [|c cs IH]; intros fuel lit p tail HC LF.
  - destruct fuel as [|fuel]; [cbn in LF; lia|]. cbn [app length Z.of_nat]. cbn.
    rewrite app_nil_r. f_equal. lia.
  - destruct fuel as [|fuel]; [cbn in LF; lia|]. cbn [length] in LF.
    cbn [forallb] in HC. apply andb_true_iff in HC. destruct HC as [Hc HC].
    unfold strc in Hc.
    repeat match type of Hc with (_ && _) = true => let H2 := fresh "A" in apply andb_true_iff in Hc; destruct Hc as [Hc H2] end.
    repeat match goal with X : negb _ = true |- _ => apply negb_true_iff in X end.
    cbn [app StringLit.ps_loop]. cbv zeta. cbn [StringLit.peek hd tl].
    rewrite Hc, A4, A3, A2, A1, A0. cbn [orb].
    rewrite IH by (try assumption; lia). rewrite <- app_assoc. cbn [app length]. f_equal. lia.
Qed.

Lemma lex_lib : forall l cs tail, forallb strc cs = true -> rest l = 12298 :: cs ++ 12299 :: tail ->
  nt_body l = LOk (mkTok g_TypeLibString cs (pos l) (pos l + Z.of_nat (length (12298 :: cs ++ [12299]))))
                  (set_pos_rest l (pos l + Z.of_nat (length (12298 :: cs ++ [12299]))) tail).
Proof.
  intros l cs tail HC E. unfold nt_body. rewrite E. cbn [curc hd].
  change (12298 =? EOFc) with false. change ((12298 =? g_CharZHU) || (12298 =? g_SlashOp)) with false.
  change (mem 12298 left_quotes) with true. cbv iota.
  unfold parse_string. rewrite E. cbn [curc hd tl].
  rewrite ps_plain_lib by (try assumption; cbn [length]; rewrite app_length; lia).
  cbn [app map]. rewrite app_nil_r.
  assert (EL : Z.of_nat (length (12298 :: cs ++ [12299])) = Z.of_nat (length cs) + 2).
  { cbn [length]. rewrite app_length. cbn [length]. lia. }
  rewrite EL.
  replace (pos l + Z.of_nat (length cs) + 2 - pos l) with (Z.of_nat (S (S (length cs)))) by lia.
  rewrite Nat2Z.id.
  change (skipn (S (S (length cs))) (12298 :: cs ++ 12299 :: tail)) with (skipn (S (length cs)) (cs ++ 12299 :: tail)).
  rewrite skipn_app_S.
  replace (pos l + (Z.of_nat (length cs) + 2)) with (pos l + Z.of_nat (length cs) + 2) by lia.
  reflexivity.
Qed.

Lemma lheads4_old : forall t, mem (fst t) lheads4 = true -> in4 t = false -> mem (fst t) lheads = true.
Proof.
  intros t MH I4. unfold lheads4, mem in MH. rewrite existsb_app in MH. apply orb_true_iff in MH.
  destruct MH as [MH|MH]; [exact MH|]. exfalso. fold (mem (fst t) [g_TypeFuncW; g_TypeVarOneW; g_TypeIteratorW; g_TypeThrowErrorW; g_TypeBreakW; g_TypeContinueW;
             g_TypeCatchErrorW; g_TypeImportW; g_TypeInputW]) in MH.
  apply mem_in in MH. unfold in4 in I4.
  repeat (destruct MH as [MH|MH]; [rewrite <- MH in I4; discriminate|]). destruct MH.
Qed.

Lemma lex_atok4 : forall t l tail, tok_ok4 t = true -> rest l = spell4 t ++ tail ->
  (exists t', tail = 32 :: t') \/ (endable4 t = true /\ tail_ok tail) ->
  exists tk, nt_body l = LOk tk (set_pos_rest l (pos l + Z.of_nat (length (spell4 t))) tail)
             /\ t_ty tk = fst t /\ text_of tk = snd t /\
             (mem (fst t) lheads4 = true -> pos l <= t_s tk /\ pos l <= t_e tk).
Proof.
  intros t l tail H E HT. unfold tok_ok4 in H. unfold spell4, endable4 in *. destruct (isLib t) eqn:IL.
  - unfold isLib in IL. apply Z.eqb_eq in IL. cbn [app] in E. rewrite <- app_assoc in E. cbn [app] in E.
    eexists. split; [apply lex_lib; eauto|]. cbn [t_ty t_s t_e]. split; [auto|]. split.
    + unfold text_of. cbn [t_lit]. apply to_text_strc. exact H.
    + intros _. lia.
  - destruct (in4 t) eqn:I4.
    + unfold in4 in I4. pose proof (spell_ty_in _ _ I4) as HI.
      assert (S0 : snd t = []) by (destruct (snd t); [reflexivity|discriminate]).
      eexists. split; [apply (lex_fixed_any4 _ _ HI); exact E|]. cbn [t_ty t_s t_e]. split; [reflexivity|].
      split; [unfold text_of; cbn [t_lit]; rewrite S0; reflexivity|intros _; lia].
    + destruct (lex_atok3 t l tail H E HT) as (tk & LX & Ty & Tx). exists tk.
      split; [exact LX|]. split; [exact Ty|]. split; [exact Tx|].
      intro MH. apply (lex_head_pos t l tail tk _ H (lheads4_old t MH I4) E HT LX).
Qed.

Lemma spellings4_heads : forallb (fun e : Z * list Z => head_plain (snd e)) spellings4 = true.
Proof. vm_compute. reflexivity. Qed.
Lemma spell_head4 : forall t, tok_ok4 t = true -> head_plain (spell4 t) = true.
Proof.
  intros t H. unfold tok_ok4 in H. unfold spell4. destruct (isLib t); [reflexivity|].
  destruct (in4 t) eqn:I4; [|apply spell_head3; exact H].
  unfold in4 in I4. apply spell_ty_in in I4. pose proof spellings4_heads as A. rewrite forallb_forall in A. apply (A _ I4).
Qed.
Lemma spellings4_types : forallb (fun ty => negb (ty =? g_TypeEOF) && negb (ty =? g_TypeComment)) (map fst spellings4) = true.
Proof. vm_compute. reflexivity. Qed.
Lemma tok_ty_ok4 : forall t, tok_ok4 t = true -> (fst t =? g_TypeEOF) = false /\ (fst t =? g_TypeComment) = false.
Proof.
  intros t H. unfold tok_ok4 in H. destruct (isLib t) eqn:IL.
  - unfold isLib in IL. apply Z.eqb_eq in IL. rewrite IL. split; reflexivity.
  - destruct (in4 t) eqn:I4; [|apply tok_ty_ok3; exact H].
    unfold in4 in I4. apply mem_in in I4. pose proof spellings4_types as A. rewrite forallb_forall in A. specialize (A _ I4).
    apply andb_true_iff in A. destruct A as [A B]. apply negb_true_iff in A. apply negb_true_iff in B. auto.
Qed.
(* up to the state whose peek token is the last token of the line; tail = the text after the line *)
Lemma run_line4 : forall tail, tail_ok tail -> forall ts t st, geoM st -> headok t st -> (fst t =? g_TypeEOF) = false ->
  rest (lx st) = after4 ts ++ tail -> forallb tok_ok4 ts = true -> endable4 (lastt t ts) = true ->
  exists stl, (forall st', p_next stl = Ok tt st' -> feeds (t :: ts) st st') /\ geoM stl /\ flag stl = false /\
    (exists tkl, p2 stl = Some tkl /\ (t_ty tkl =? g_TypeEOF) = false /\
                 t_ty tkl = fst (lastt t ts)) /\
    rest (lx stl) = tail /\ lines (lx stl) = lines (lx st) /\ itype (lx stl) = itype (lx st) /\ bind_ stl = bind_ st /\
    pos (lx stl) = pos (lx st) + Z.of_nat (length (after4 ts)).
Proof.
  intros tail TT. induction ts as [|t2 ts IH]; intros t st G HO NE ER TO LO.
  - exists st. split; [intros st' PN; apply feeds_one; split; assumption|].
    split; [exact G|]. destruct HO as (Hf & tk0 & P2 & Ty & Tx).
    split; [exact Hf|]. split.
    { exists tk0. split; [exact P2|]. rewrite Ty. split; [exact NE|reflexivity]. }
    split; [exact ER|]. cbn [after4 length]. repeat split; try reflexivity. cbn [Z.of_nat]. lia.
  - cbn [forallb] in TO. apply andb_true_iff in TO. destruct TO as [T2 TO].
    pose proof HO as HO0. destruct HO as (Hf & tk0 & P2 & Ty & Tx).
    destruct (head_plain_inv _ (spell_head4 _ T2)) as (c & r & SP & CW & CB & CI & CE).
    assert (ER2 : rest (lx st) = 32 :: c :: (r ++ after4 ts ++ tail)).
    { rewrite ER. cbn [after4]. rewrite joinc4_cons, SP. cbn [app]. rewrite <- app_assoc. reflexivity. }
    pose proof (next_token_space _ _ _ ER2 CW CB) as NT.
    set (l1 := set_pos_rest (lx st) (pos (lx st) + 1) (c :: r ++ after4 ts ++ tail)) in *.
    assert (TL : (exists t', after4 ts ++ tail = 32 :: t') \/ (endable4 t2 = true /\ tail_ok (after4 ts ++ tail))).
    { destruct ts as [|t3 ts'].
      - cbn [after4 app]. right. split; [exact LO|exact TT].
      - left. cbn [after4 app]. eauto. }
    destruct (lex_atok4 t2 l1 (after4 ts ++ tail) T2 ltac:(rewrite SP; reflexivity) TL) as (tk2 & LX & Ty2 & Tx2 & _).
    rewrite LX in NT.
    destruct (tok_ty_ok4 _ T2) as [NE2 NC2].
    pose proof (p_next_inline st _ _ tk0 G NT ltac:(rewrite Ty2; exact NC2) eq_refl P2
                  ltac:(rewrite Ty; exact NE) ltac:(rewrite Ty2; exact NE2)) as PN.
    match type of PN with p_next st = Ok tt ?s => set (st1 := s) in * end.
    assert (G' : geoM st1).
    { destruct G as [A1 A2 A3 A4 A5 A6 A7 A8 A9 A10].
      constructor; unfold st1, l1; cbn [lx sl2 el2 set_pos_rest lines itype pos slen rest]; try assumption; try lia.
      rewrite A5, ER2, SP. cbn [length]. repeat rewrite app_length. cbn [length]. lia. }
    assert (HO1 : headok t2 st1).
    { split; [exact Hf|]. exists tk2. split; [reflexivity|]. auto. }
    destruct (IH t2 st1 G' HO1 NE2 eq_refl TO LO) as (stl & FE & GF & FF & (tkl & PL & NL & ML) & RF & LF & IF & BF & PP).
    exists stl. split; [intros st' PL'; econstructor; eauto|].
    split; [exact GF|]. split; [exact FF|].
    split; [exists tkl; split; [exact PL|split; [exact NL|exact ML]]|].
    split; [exact RF|]. split; [exact LF|]. split; [exact IF|]. split; [exact BF|].
    rewrite PP. unfold st1, l1. cbn [lx set_pos_rest pos]. cbn [after4]. rewrite joinc4_cons, SP.
    cbn [length]. repeat rewrite app_length. cbn [length]. lia.
Qed.

(* over a line break: the first token of the next line *)
Lemma nl_step4 : forall stl tkl n t2 rest2, geoM stl -> p2 stl = Some tkl -> (t_ty tkl =? g_TypeEOF) = false ->
  rest (lx stl) = 10 :: repeat 32 (4 * n) ++ spell4 t2 ++ rest2 -> tok_ok4 t2 = true -> mem (fst t2) lheads4 = true ->
  (exists t', rest2 = 32 :: t') \/ (endable4 t2 = true /\ tail_ok rest2) ->
  exists st1 tk2, p_next stl = Ok tt st1 /\ geoM st1 /\ p2 st1 = Some tk2 /\ t_ty tk2 = fst t2 /\ text_of tk2 = snd t2 /\
    rest (lx st1) = rest2 /\ peek_indent st1 = Z.of_nat n /\
    lines (lx st1) = lines (lx stl) ++ [mkLine (Z.of_nat n) (pos (lx stl) + 1)] /\
    itype (lx st1) = (if (n =? 0)%nat then itype (lx stl) else g_IndentSpace) /\
    pos (lx st1) = pos (lx stl) + 1 + Z.of_nat (4 * n) + Z.of_nat (length (spell4 t2)) /\
    flag st1 = (flag stl || (mlb_ok (t_ty tkl) && negb (mem (fst t2) [g_TypeArrayQuoteR; g_TypeStmtQuoteR]))) /\
    bind_ st1 = bind_ stl.
Proof.
  intros st tkl n t2 rest2 G P NE ER T2 MH HT.
  destruct (head_plain_inv _ (spell_head4 _ T2)) as (c & r & SP & CW & CB & CI & CE).
  assert (ER2 : rest (lx st) = 10 :: repeat 32 (4 * n) ++ c :: (r ++ rest2)).
  { rewrite ER, SP. reflexivity. }
  pose proof (next_token_nl _ n c _ ER2 CW CB CI (lto_geo st G) (gm_it st G)) as NT.
  set (l1 := nl_state (lx st) n (c :: r ++ rest2)) in *.
  assert (R1 : rest l1 = spell4 t2 ++ rest2) by (rewrite SP; reflexivity).
  destruct (lex_atok4 t2 l1 rest2 T2 R1 HT) as (tk2 & LX & Ty2 & Tx2 & POS).
  destruct (POS MH) as (PS & PE).
  rewrite LX in NT. destruct (tok_ty_ok4 _ T2) as [NE2 NC2].
  destruct G as [A1 A2 A3 A4 A5 A6 A7 A8 A9 A10].
  set (nn := Z.of_nat (length (lines (lx st)))).
  assert (F1 : find_line_idx (lines (set_pos_rest l1 (pos l1 + Z.of_nat (length (spell4 t2))) rest2)) (t_s tk2) (sl2 st) = nn).
  { cbn [set_pos_rest lines l1 nl_state]. rewrite A2. apply find_new; [exact A1|]. cbn [l_start]. cbn [l1 nl_state pos] in PS. lia. }
  assert (F2 : find_line_idx (lines (set_pos_rest l1 (pos l1 + Z.of_nat (length (spell4 t2))) rest2)) (t_e tk2) (el2 st) = nn).
  { cbn [set_pos_rest lines l1 nl_state]. rewrite A3, A2. apply find_new; [exact A1|]. cbn [l_start]. cbn [l1 nl_state pos] in PE. lia. }
  pose proof (p_next_gen st tk2 _ nn nn NT ltac:(rewrite Ty2; exact NC2) F1 F2) as PN.
  unfold meet_line_break in PN. cbn [p1 p2 el1 sl2] in PN. rewrite P, NE, Ty2, NE2 in PN. cbn [orb] in PN.
  assert (LTn : (el2 st <? nn) = true) by (apply Z.ltb_lt; unfold nn; lia). rewrite LTn in PN.
  assert (GN : forall fl, geoM (mkP (set_pos_rest l1 (pos l1 + Z.of_nat (length (spell4 t2))) rest2) (Some tkl) (Some tk2)
                                   (sl2 st) (el2 st) nn nn fl (bind_ st))).
  { intro fl. constructor; cbn [lx sl2 el2 set_pos_rest lines itype pos slen rest l1 nl_state].
    - intro X. apply app_eq_nil in X. destruct X; discriminate.
    - rewrite app_length. cbn [length]. unfold nn. lia.
    - reflexivity.
    - lia.
    - rewrite A5, ER. cbn [length]. repeat rewrite app_length. rewrite repeat_length. cbn [length]. lia.
    - rewrite last_app1. cbn [l_start]. lia.
    - rewrite last_app1. cbn [l_indents]. lia.
    - rewrite last_app1. cbn [l_start l_indents]. lia.
    - rewrite last_app1. cbn [l_indents]. intro X. destruct n; [lia|reflexivity].
    - destruct n; [exact A10|right; reflexivity]. }
  assert (PIn : forall fl, peek_indent (mkP (set_pos_rest l1 (pos l1 + Z.of_nat (length (spell4 t2))) rest2) (Some tkl) (Some tk2)
                                   (sl2 st) (el2 st) nn nn fl (bind_ st)) = Z.of_nat n).
  { intro fl. unfold peek_indent. cbn [lx sl2 set_pos_rest lines l1 nl_state]. unfold nn. rewrite line_indent_new. reflexivity. }
  unfold mlb_ok.
  destruct (mem (t_ty tkl) [g_TypeCommaSep; g_TypePauseCommaSep; g_TypeStmtQuoteL; g_TypeArrayQuoteL; g_TypeFuncCall; g_TypeFuncDeclare]) eqn:MM.
  - cbv iota in PN. eexists _, tk2. split; [exact PN|]. split; [apply GN|]. cbn [p2 lx flag bind_ set_pos_rest rest lines itype pos].
    split; [reflexivity|]. split; [exact Ty2|]. split; [exact Tx2|]. split; [reflexivity|]. split; [apply PIn|].
    split; [reflexivity|]. split; [reflexivity|]. split; [cbn [l1 nl_state pos]; reflexivity|].
    split; [cbn [andb negb]; rewrite orb_false_r; reflexivity|reflexivity].
  - destruct (mem (fst t2) [g_TypeArrayQuoteR; g_TypeStmtQuoteR]) eqn:MR; cbv iota in PN.
    + eexists _, tk2. split; [exact PN|]. split; [apply GN|]. cbn [p2 lx flag bind_ set_pos_rest rest lines itype pos].
      split; [reflexivity|]. split; [exact Ty2|]. split; [exact Tx2|]. split; [reflexivity|]. split; [apply PIn|].
      split; [reflexivity|]. split; [reflexivity|]. split; [cbn [l1 nl_state pos]; reflexivity|].
      split; [cbn [andb negb]; rewrite orb_false_r; reflexivity|reflexivity].
    + eexists _, tk2. split; [exact PN|]. cbn [set_flag]. split; [apply GN|]. cbn [p2 lx flag bind_ set_pos_rest rest lines itype pos].
      split; [reflexivity|]. split; [exact Ty2|]. split; [exact Tx2|]. split; [reflexivity|]. split; [apply PIn|].
      split; [reflexivity|]. split; [reflexivity|]. split; [cbn [l1 nl_state pos]; reflexivity|].
      split; [cbn [andb negb]; rewrite orb_true_r; reflexivity|reflexivity].
Qed.

(* ------------------------------------------------------------------ the text of a list of lines *)
Definition ltext4 (l : pline) : list Z := repeat 32 (4 * fst (fst l)) ++ joinc4 (snd (fst l)).
Fixpoint ptext4 (L : list pline) : list Z :=
  match L with
  | [] => []
  | l :: r => ltext4 l ++ match r with [] => [] | _ => 10 :: ptext4 r end
  end.
Definition aftl4 (r : list pline) : list Z := match r with [] => [] | _ => 10 :: ptext4 r end.
Lemma ptext4_cons : forall l r, ptext4 (l :: r) = ltext4 l ++ aftl4 r. Proof. reflexivity. Qed.

(* the line table: indentation level and offset of the first character of every line; the indentation type *)
Fixpoint ltab4 (p : Z) (L : list pline) : list line :=
  match L with
  | [] => []
  | l :: r => mkLine (Z.of_nat (fst (fst l))) p :: ltab4 (p + Z.of_nat (length (ltext4 l)) + 1) r
  end.

Definition lineok4 (l : pline) : bool :=
  match snd (fst l) with
  | [] => false
  | t :: ts => tok_ok4 t && forallb tok_ok4 ts && endable4 (lastt t ts)
              && (if snd l then mlb_ok (fst (lastt t ts)) else true) && mem (fst t) lheads4
  end.

Lemma lheads4_open : forallb (fun ty => negb (mem ty [g_TypeArrayQuoteR; g_TypeStmtQuoteR]) && negb (ty =? g_TypeEOF)) lheads4 = true.
Proof. vm_compute. reflexivity. Qed.
Lemma lheads4_facts : forall ty, mem ty lheads4 = true ->
  mem ty [g_TypeArrayQuoteR; g_TypeStmtQuoteR] = false /\ (ty =? g_TypeEOF) = false.
Proof.
  intros ty H. apply mem_in in H. pose proof lheads4_open as A. rewrite forallb_forall in A. specialize (A _ H).
  apply andb_true_iff in A. destruct A as [A B]. apply negb_true_iff in A. apply negb_true_iff in B. auto.
Qed.

Lemma tail_ok_aftl4 : forall r, tail_ok (aftl4 r).
Proof. intros [|l r]; [apply tail_ok_nil|apply tail_ok_lf]. Qed.

Lemma run_lines4 : forall r d t ts sm st tk, forallb lineok4 ((d, t :: ts, sm) :: r) = true -> geoM st ->
  p2 st = Some tk -> t_ty tk = fst t -> text_of tk = snd t -> peek_indent st = Z.of_nat d ->
  rest (lx st) = after4 ts ++ aftl4 r ->
  exists st', lfeeds ((d, t :: ts, sm) :: r) st st' /\ ateof st' /\
    lines (lx st') = lines (lx st) ++ ltab4 (pos (lx st) + Z.of_nat (length (after4 ts)) + 1) r /\
    itype (lx st') = ityp (itype (lx st)) r.
Proof.
  induction r as [|l2 r2 IH]; intros d t ts sm st tk OK G P Ty Tx PI ER.
  - cbn [forallb] in OK. rewrite andb_true_r in OK. unfold lineok4 in OK. cbn [fst snd] in OK.
    apply andb_true_iff in OK. destruct OK as [OK MH]. apply andb_true_iff in OK. destruct OK as [OK LS].
    apply andb_true_iff in OK. destruct OK as [OK LO]. apply andb_true_iff in OK. destruct OK as [T1 TO].
    destruct (lheads4_facts _ MH) as [_ NE].
    assert (HO : headok t (reb st false (bind_ st))).
    { split; [reflexivity|]. exists tk. split; [exact P|]. auto. }
    destruct (run_line4 (aftl4 []) (tail_ok_aftl4 []) ts t _ (geoM_reb st false (bind_ st) G) HO NE ER TO LO)
      as (stl & FE & GL & FL & (tkl & PL & NL & ML) & RL & LL & IL & BL & PP).
    cbn [aftl4] in RL.
    destruct (eof_step stl tkl GL PL RL) as (st' & PN & FF & EO & LX).
    exists st'. split.
    { econstructor; [exact PI|apply FE; exact PN|intros _; exact FF|constructor]. }
    split; [exact EO|]. rewrite LX, LL, IL. cbn [ltab4 ityp reb lx]. rewrite app_nil_r. auto.
  - cbn [forallb] in OK. apply andb_true_iff in OK. destruct OK as [OK1 OK2].
    pose proof OK2 as OK2'. cbn [forallb] in OK2. apply andb_true_iff in OK2. destruct OK2 as [OKl2 _].
    destruct l2 as [[d2 tss2] sm2]. unfold lineok4 in OKl2. cbn [fst snd] in OKl2.
    destruct tss2 as [|t2 ts2]; [discriminate|].
    unfold lineok4 in OK1. cbn [fst snd] in OK1.
    apply andb_true_iff in OK1. destruct OK1 as [OK MH]. apply andb_true_iff in OK. destruct OK as [OK LS].
    apply andb_true_iff in OK. destruct OK as [OK LO]. apply andb_true_iff in OK. destruct OK as [T1 TO].
    apply andb_true_iff in OKl2. destruct OKl2 as [OK MH2]. apply andb_true_iff in OK. destruct OK as [OK LS2].
    apply andb_true_iff in OK. destruct OK as [OK LO2]. apply andb_true_iff in OK. destruct OK as [T2 TO2].
    destruct (lheads4_facts _ MH) as [_ NE]. destruct (lheads4_facts _ MH2) as [NC2 NE2].
    assert (HO : headok t (reb st false (bind_ st))).
    { split; [reflexivity|]. exists tk. split; [exact P|]. auto. }
    destruct (run_line4 (aftl4 ((d2, t2 :: ts2, sm2) :: r2)) (tail_ok_aftl4 _) ts t _ (geoM_reb st false (bind_ st) G) HO NE ER TO LO)
      as (stl & FE & GL & FL & (tkl & PL & NL & ML) & RL & LL & IL & BL & PP).
    assert (RL2 : rest (lx stl) = 10 :: repeat 32 (4 * d2) ++ spell4 t2 ++ (after4 ts2 ++ aftl4 r2)).
    { rewrite RL. cbn [aftl4]. rewrite ptext4_cons. unfold ltext4. cbn [fst snd]. rewrite joinc4_cons.
      rewrite <- !app_assoc. reflexivity. }
    assert (HT : (exists t', after4 ts2 ++ aftl4 r2 = 32 :: t') \/ (endable4 t2 = true /\ tail_ok (after4 ts2 ++ aftl4 r2))).
    { destruct ts2 as [|t3 ts3].
      - right. cbn [after4 app]. split; [exact LO2|apply tail_ok_aftl4].
      - left. cbn [after4 app]. eauto. }
    destruct (nl_step4 stl tkl d2 t2 _ GL PL NL RL2 T2 MH2 HT)
      as (st1 & tk2 & PN & G1 & P21 & Ty2 & Tx2 & R1 & PI1 & L1 & I1 & PP1 & F1 & B1).
    destruct (IH d2 t2 ts2 sm2 st1 tk2 OK2' G1 P21 Ty2 Tx2 PI1 R1) as (st' & LFD & EO & LT & IT).
    exists st'. split.
    { econstructor; [exact PI|apply FE; exact PN| |exact LFD].
      intro SM. subst sm. cbv iota in LS. rewrite F1, FL, ML, LS, NC2. reflexivity. }
    split; [exact EO|]. split.
    + rewrite LT, L1, LL. cbn [reb lx]. rewrite <- app_assoc. cbn [app ltab4 fst snd]. f_equal. f_equal.
      * f_equal. rewrite PP. cbn [reb lx]. lia.
      * f_equal. rewrite PP1, PP. cbn [reb lx]. unfold ltext4. cbn [fst snd]. rewrite joinc4_cons.
        repeat rewrite app_length. rewrite repeat_length. lia.
    + rewrite IT, I1, IL. cbn [ityp fst snd reb lx]. reflexivity.
Qed.

(* ------------------------------------------------------------------ from the first character *)
Lemma init_lines4 : forall t ts sm r, forallb lineok4 ((0%nat, t :: ts, sm) :: r) = true ->
  exists l0 st0 tk, lex_init (ptext4 ((0%nat, t :: ts, sm) :: r)) = LOk tt l0 /\ p_next (init_pstate l0) = Ok tt st0 /\
    geoM st0 /\ p2 st0 = Some tk /\ t_ty tk = fst t /\ text_of tk = snd t /\ peek_indent st0 = 0 /\
    rest (lx st0) = after4 ts ++ aftl4 r /\ lines (lx st0) = [mkLine 0 0] /\ itype (lx st0) = g_IndentUnknown /\
    pos (lx st0) = Z.of_nat (length (spell4 t)).
Proof.
  intros t ts sm r OK. cbn [forallb] in OK. apply andb_true_iff in OK. destruct OK as [OK1 _].
  unfold lineok4 in OK1. cbn [fst snd] in OK1.
  apply andb_true_iff in OK1. destruct OK1 as [OK MH]. apply andb_true_iff in OK. destruct OK as [OK LS].
  apply andb_true_iff in OK. destruct OK as [OK LO]. apply andb_true_iff in OK. destruct OK as [T1 TO].
  destruct (head_plain_inv _ (spell_head4 _ T1)) as (c & r0 & SP & CW & CB & CI & CE).
  set (src := ptext4 ((0%nat, t :: ts, sm) :: r)).
  assert (ES : src = c :: r0 ++ after4 ts ++ aftl4 r).
  { unfold src. rewrite ptext4_cons. unfold ltext4. cbn [fst snd]. change (4 * 0)%nat with 0%nat. cbn [repeat app].
    rewrite joinc4_cons, SP. cbn [app]. rewrite <- app_assoc. reflexivity. }
  set (l0 := mkL 0 src g_IndentUnknown [mkLine 0 0] (Z.of_nat (length src))).
  assert (LI : lex_init src = LOk tt l0).
  { unfold lex_init, parse_begin_lex. cbn [rest]. rewrite ES at 1. rewrite CE, CI. reflexivity. }
  assert (TL : (exists t', after4 ts ++ aftl4 r = 32 :: t') \/ (endable4 t = true /\ tail_ok (after4 ts ++ aftl4 r))).
  { destruct ts as [|t3 ts'].
    - cbn [after4 app]. right. split; [exact LO|apply tail_ok_aftl4].
    - left. cbn [after4 app]. eauto. }
  assert (R0 : rest l0 = spell4 t ++ after4 ts ++ aftl4 r) by (cbn [l0 rest]; rewrite ES, SP; reflexivity).
  destruct (lex_atok4 t l0 _ T1 R0 TL) as (tk & LX & Ty & Tx & _).
  assert (NT : next_token l0 = nt_body l0).
  { apply (next_token_plain l0 c (r0 ++ after4 ts ++ aftl4 r)); [exact ES|exact CW|exact CB]. }
  rewrite LX in NT. destruct (tok_ty_ok4 _ T1) as [NE NC].
  pose proof (p_next_gen (init_pstate l0) tk _ 0 0 NT ltac:(rewrite Ty; exact NC) eq_refl eq_refl) as PN.
  unfold meet_line_break in PN. cbn [init_pstate p1 p2] in PN.
  eexists l0, _, tk. split; [exact LI|]. split; [exact PN|].
  split.
  { constructor; cbn [lx sl2 el2 set_pos_rest lines itype pos slen rest l0 length last l_start l_indents Z.of_nat];
      try lia; try discriminate; try (left; reflexivity).
    rewrite ES, SP. cbn [length]. repeat rewrite app_length. cbn [length]. lia. }
  cbn [p2 lx set_pos_rest rest lines itype pos l0].
  split; [reflexivity|]. split; [exact Ty|]. split; [exact Tx|]. split; [reflexivity|].
  split; [reflexivity|]. split; [reflexivity|]. split; [reflexivity|]. lia.
Qed.

(* the front end on the text of a list of well-formed lines, given the token-level theorem for these lines *)
Theorem compile_lines_text4 : forall t ts sm r fuel pg, forallb lineok4 ((0%nat, t :: ts, sm) :: r) = true ->
  (forall st st', bind_ st = 0 -> lfeeds ((0%nat, t :: ts, sm) :: r) st st' -> ateof st' ->
     exists b', parse fuel (NProgram 0 1 [] None) st = Ok pg (setb st' b')) ->
  compile fuel (ptext4 ((0%nat, t :: ts, sm) :: r))
  = OTree pg (ltab4 0 ((0%nat, t :: ts, sm) :: r)) (ityp g_IndentUnknown ((0%nat, t :: ts, sm) :: r)).
Proof.
  intros t ts sm r fuel pg OK HP.
  destruct (init_lines4 t ts sm r OK) as (l0 & st0 & tk & LI & PN & G & P & Ty & Tx & PI & ER & LL & IL & PP).
  destruct (run_lines4 r 0%nat t ts sm st0 tk OK G P Ty Tx PI ER) as (st' & LFD & EO & LT & IT).
  pose proof (p_next_bind _ _ PN) as B0. cbn [init_pstate bind_] in B0.
  destruct (HP st0 st' B0 LFD EO) as (b' & PP').
  unfold compile. rewrite LI. unfold bind. rewrite PN, PI, PP'.
  destruct EO as (tke & PE & TE). unfold peek_ty. cbn [setb reb p2 lx]. rewrite PE. cbn [tok_ty]. rewrite TE.
  change (g_TypeEOF =? g_TypeEOF) with true. cbn [negb]. cbv iota.
  rewrite LT, IT, LL, IL. cbn [ltab4 ityp fst snd app Nat.eqb]. f_equal. f_equal. f_equal.
  rewrite PP. unfold ltext4. cbn [fst snd]. change (4 * 0)%nat with 0%nat. cbn [repeat app]. rewrite joinc4_cons, app_length. lia.
Qed.

(* ================================================================== the printing of a program is made of such lines *)
Definition dt : atok := (0, []).
Lemma lastt_last : forall ts t, lastt t ts = last (t :: ts) dt.
Proof. induction ts as [|t2 r IH]; intro t; [reflexivity|]. cbn [lastt]. rewrite IH. reflexivity. Qed.

Lemma last_app_ne : forall (a b : list atok) d, b <> [] -> last (a ++ b) d = last b d.
Proof.
  induction a as [|x a IH]; intros b d N; [reflexivity|]. cbn [app]. destruct (a ++ b) as [|a0 l] eqn:E.
  - destruct a; cbn in E; [congruence|discriminate].
  - change (last (x :: a0 :: l) d) with (last (a0 :: l) d). rewrite <- E. apply IH. exact N.
Qed.

Lemma last_In : forall (l : list atok) d, l <> [] -> In (last l d) l.
Proof.
  induction l as [|x l IH]; intros d N; [congruence|]. destruct l as [|y l'].
  - left. reflexivity.
  - right. change (last (x :: y :: l') d) with (last (y :: l') d). apply IH. discriminate.
Qed.

Lemma lineok4_app : forall d a b sm, b <> [] -> forallb tok_ok4 (a ++ b) = true -> endable4 (last b dt) = true ->
  (sm = true -> mlb_ok (fst (last b dt)) = true) -> mem (fst (hd dt (a ++ b))) lheads4 = true ->
  lineok4 (d, a ++ b, sm) = true.
Proof.
  intros d a b sm N OK EN ML MH. rewrite <- (last_app_ne a b dt N) in EN, ML.
  destruct (a ++ b) as [|t ts] eqn:E.
  - destruct a; cbn in E; [congruence|discriminate].
  - unfold lineok4. cbn [fst snd]. cbn [forallb] in OK. cbn [hd] in MH. rewrite lastt_last, OK, EN, MH.
    destruct sm; [rewrite (ML eq_refl)|]; reflexivity.
Qed.

Definition oldtypes : list Z := g_TypeString :: g_TypeIdentifier :: map fst spellings3 ++ map fst spellings2 ++ map fst spellings.
Lemma types4_disjoint :
  forallb (fun ty => negb (mem ty (map fst spellings4)) && negb (ty =? g_TypeLibString)) oldtypes = true.
Proof. vm_compute. reflexivity. Qed.

Lemma tok_ok3_types : forall t, tok_ok3 t = true -> In (fst t) oldtypes.
Proof.
  intros t H. unfold oldtypes. unfold tok_ok3 in H. destruct (in3 t) eqn:I3.
  - right. right. apply in_or_app. left. apply mem_in. exact I3.
  - unfold tok_ok2 in H. destruct (fst t =? g_TypeString) eqn:E1; [apply Z.eqb_eq in E1; left; auto|].
    destruct (mem (fst t) (map fst spellings2)) eqn:E2.
    + right. right. apply in_or_app. right. apply in_or_app. left. apply mem_in. exact E2.
    + unfold tok_ok in H. destruct (fst t =? g_TypeIdentifier) eqn:E3; [apply Z.eqb_eq in E3; right; left; auto|].
      apply andb_true_iff in H. destruct H as [_ H]. right. right. apply in_or_app. right. apply in_or_app. right.
      apply mem_in. exact H.
Qed.

Lemma tok_ok3_not4 : forall t, tok_ok3 t = true -> in4 t = false /\ isLib t = false.
Proof.
  intros t H. pose proof (tok_ok3_types t H) as I. pose proof types4_disjoint as A. rewrite forallb_forall in A.
  specialize (A _ I). apply andb_true_iff in A. destruct A as [A B]. apply negb_true_iff in A. apply negb_true_iff in B.
  split; [exact A|exact B].
Qed.

Lemma tok_ok34 : forall t, tok_ok3 t = true -> tok_ok4 t = true.
Proof. intros t H. destruct (tok_ok3_not4 t H) as [A B]. unfold tok_ok4. rewrite A, B. exact H. Qed.
Lemma endable34 : forall t, tok_ok3 t = true -> endable4 t = endable3 t.
Proof. intros t H. destruct (tok_ok3_not4 t H) as [A B]. unfold endable4. rewrite A, B. reflexivity. Qed.
Lemma forallb_tok34 : forall ts, forallb tok_ok3 ts = true -> forallb tok_ok4 ts = true.
Proof.
  induction ts as [|t ts IH]; intro H; [reflexivity|]. cbn [forallb] in *. apply andb_true_iff in H. destruct H as [A B].
  rewrite (tok_ok34 t A), (IH B). reflexivity.
Qed.

Lemma lastok2_last : forall ts, ts <> [] -> lastok2 ts = true -> endable2 (last ts dt) = true.
Proof.
  induction ts as [|t ts IH]; intros N L; [congruence|]. destruct ts as [|t2 r]; [exact L|].
  change (last (t :: t2 :: r) dt) with (last (t2 :: r) dt). apply IH; [discriminate|exact L].
Qed.

Lemma cshow_line_facts : forall e, cwf e = true -> cleaves_ok e = true ->
  forallb tok_ok4 (cshow e) = true /\ endable4 (last (cshow e) dt) = true /\ mlb_ok (fst (last (cshow e) dt)) = true.
Proof.
  intros e W LO. pose proof (cshow_tok_ok2 e W LO) as T2. pose proof (cshow_lastok2 e) as L2.
  pose proof (cshow_nonempty e) as N.
  split; [apply forallb_tok34; apply forallb_tok23; exact T2|].
  pose proof (lastok2_last _ N L2) as E2. pose proof (last_In (cshow e) dt N) as IL.
  rewrite forallb_forall in T2. specialize (T2 _ IL).
  split; [|apply endable2_mlb; exact E2].
  rewrite (endable34 _ (tok_ok23 _ T2)). unfold endable3. rewrite (tok_ok2_in3 _ T2), E2. reflexivity.
Qed.

Lemma idlist_ok : forall xs, forallb leaf_ok xs = true -> forallb tok_ok4 (idlist xs) = true.
Proof.
  induction xs as [|x r IH]; intro H; [reflexivity|]. cbn [forallb] in H. apply andb_true_iff in H. destruct H as [A B].
  destruct r as [|y r'].
  - cbn [idlist forallb]. change (tok_ok4 (idt x)) with (leaf_ok x). rewrite A. reflexivity.
  - rewrite idlist_cons2. cbn [forallb]. change (tok_ok4 (idt x)) with (leaf_ok x). rewrite A.
    change (tok_ok4 tPause) with true. rewrite (IH B). reflexivity.
Qed.

Lemma idlist_last : forall xs, xs <> [] -> exists x, last (idlist xs) dt = idt x /\ idlist xs <> [].
Proof.
  induction xs as [|x r IH]; intro N; [congruence|]. destruct r as [|y r'].
  - exists x. split; [reflexivity|discriminate].
  - destruct (IH ltac:(discriminate)) as (z & E & _). exists z. split; [|discriminate]. rewrite idlist_cons2.
    change (last (idt x :: tPause :: idlist (y :: r')) dt) with (last (tPause :: idlist (y :: r')) dt).
    destruct (idlist (y :: r')) as [|a l] eqn:EI; [destruct r'; discriminate|].
    change (last (tPause :: a :: l) dt) with (last (a :: l) dt). exact E.
Qed.

Lemma sepcat_ok : forall l, Forall (fun e => forallb tok_ok4 (cshow e) = true) l ->
  forallb tok_ok4 (sepcat tPause (map cshow l)) = true.
Proof.
  intros l H. induction H as [|x r Hx Hr IH]; [reflexivity|]. destruct r as [|y r'].
  - cbn [map sepcat]. exact Hx.
  - cbn [map]. rewrite sepcat_cons2. rewrite forallb_app. cbn [forallb]. rewrite Hx. change (tok_ok4 tPause) with true.
    cbn [map] in IH. rewrite IH. reflexivity.
Qed.

(* leaves: identifiers and text literals the lexer reads back verbatim *)
Fixpoint yleaves (s : ystmt) : bool :=
  match s with
  | YExpr e | YOut e => cleaves_ok e
  | YLet xs e => forallb leaf_ok xs && cleaves_ok e
  | YWhile e b => cleaves_ok e && forallb yleaves b
  | YIf e b os el =>
      cleaves_ok e && forallb yleaves b && forallb (fun p => cleaves_ok (fst p) && forallb yleaves (snd p)) os
      && match el with Some x => forallb yleaves x | None => true end
  | YIter ids e b => forallb leaf_ok ids && cleaves_ok e && forallb yleaves b
  | YThrow c args => leaf_ok c && forallb cleaves_ok args
  | YBreak | YContinue => true
  | YFunc n ins b cs =>
      leaf_ok n && forallb leaf_ok ins && forallb yleaves b
      && forallb (fun c => leaf_ok (fst c) && forallb yleaves (snd c)) cs
  end.

Section LineShapes4.
Variables (d : nat) (e : cx).
Hypothesis W : cwf e = true.
Hypothesis LO : cleaves_ok e = true.

Lemma yline_expr : lineok4 (d, cshow e, true) = true.
Proof.
  destruct (cshow_line_facts e W LO) as (T4 & EN & ML).
  apply (lineok4_app d [] (cshow e) true (cshow_nonempty e) T4 EN (fun _ => ML)).
  cbn [app]. destruct (cshow_head e) as (t & ts & E & ST). rewrite E. cbn [hd].
  unfold lheads4, mem. rewrite existsb_app. fold (mem (fst t) lheads). rewrite (mem_lheads _ (starter2_shead t ST)). reflexivity.
Qed.

(* prefix ++ cshow e, simple *)
Lemma yline_pre_expr : forall pre, pre <> [] -> forallb tok_ok4 pre = true -> mem (fst (hd dt pre)) lheads4 = true ->
  lineok4 (d, pre ++ cshow e, true) = true.
Proof.
  intros pre N OK MH. destruct (cshow_line_facts e W LO) as (T4 & EN & ML).
  apply (lineok4_app d pre (cshow e) true (cshow_nonempty e)); [rewrite forallb_app, OK, T4; reflexivity|exact EN|intros _; exact ML|].
  destruct pre as [|p pre']; [congruence|exact MH].
Qed.

(* prefix ++ cshow e ++ [：], header *)
Lemma yline_hdr : forall pre, pre <> [] -> forallb tok_ok4 pre = true -> mem (fst (hd dt pre)) lheads4 = true ->
  lineok4 (d, (pre ++ cshow e) ++ [tColon], false) = true.
Proof.
  intros pre N OK MH. destruct (cshow_line_facts e W LO) as (T4 & EN & ML).
  apply (lineok4_app d (pre ++ cshow e) [tColon] false ltac:(discriminate)); [|reflexivity|discriminate|].
  - rewrite !forallb_app, OK, T4. reflexivity.
  - destruct pre as [|p pre']; [congruence|exact MH].
Qed.
End LineShapes4.

Lemma yline_simple : forall d ts, ts <> [] -> forallb tok_ok4 ts = true -> endable4 (last ts dt) = true ->
  mlb_ok (fst (last ts dt)) = true -> mem (fst (hd dt ts)) lheads4 = true -> lineok4 (d, ts, true) = true.
Proof. intros d ts N OK EN ML MH. apply (lineok4_app d [] ts true N OK EN (fun _ => ML) MH). Qed.

Lemma yline_ids : forall d k xs, xs <> [] -> forallb leaf_ok xs = true -> tok_ok4 (kwt k) = true -> mem k lheads4 = true ->
  lineok4 (d, kwt k :: idlist xs, true) = true.
Proof.
  intros d k xs N LX OK MH. destruct (idlist_last xs N) as (z & EL & NI).
  apply (lineok4_app d [kwt k] (idlist xs) true NI).
  - cbn [app forallb]. rewrite OK, (idlist_ok xs LX). reflexivity.
  - rewrite EL. reflexivity.
  - intros _. rewrite EL. reflexivity.
  - exact MH.
Qed.

Lemma YForall_lines : forall (l : list ystmt) (d : nat),
  Forall (fun s => ywf s = true -> yleaves s = true -> forall d, forallb lineok4 (ylines d s) = true) l ->
  forallb ywf l = true -> forallb yleaves l = true -> forallb lineok4 (yblines d l) = true.
Proof.
  intros l d H W LO. apply forallb_flat_map. induction H as [|x r Hx Hr IH]; [constructor|].
  cbn [forallb] in W, LO. apply andb_true_iff in W. destruct W as [Wx Wr]. apply andb_true_iff in LO. destruct LO as [Lx Lr].
  constructor; [apply Hx; assumption|apply IH; assumption].
Qed.

Lemma yclines_ok : forall d cs,
  Forall (fun p : lit * list ystmt => Forall (fun s => ywf s = true -> yleaves s = true -> forall d, forallb lineok4 (ylines d s) = true) (snd p)) cs ->
  ycwf cs = true -> forallb (fun c : lit * list ystmt => leaf_ok (fst c) && forallb yleaves (snd c)) cs = true ->
  forallb lineok4 (yclines d cs) = true.
Proof.
  intros d cs H W LO. unfold yclines. apply forallb_flat_map. unfold ycwf in W.
  induction H as [|c r Hc Hr IH]; [constructor|].
  cbn [forallb] in W, LO. apply andb_true_iff in W. destruct W as [Wc Wr]. apply andb_true_iff in LO. destruct LO as [Lc Lr].
  apply andb_true_iff in Wc. destruct Wc as [_ Wc]. apply andb_true_iff in Lc. destruct Lc as [Ln Lc].
  constructor; [|apply IH; assumption].
  cbv beta. cbn [forallb]. apply andb_true_iff. split; [|exact (YForall_lines (snd c) (S d) Hc Wc Lc)].
  apply (lineok4_app d [kwt g_TypeCatchErrorW; idt (fst c)] [tColon] false ltac:(discriminate)); [|reflexivity|discriminate|reflexivity].
  cbn [app forallb]. change (tok_ok4 (idt (fst c))) with (leaf_ok (fst c)). rewrite Ln. reflexivity.
Qed.

Lemma inlines_ok : forall d ins, forallb leaf_ok ins = true -> forallb lineok4 (inlines d ins) = true.
Proof.
  intros d ins L. destruct ins as [|x xs]; [reflexivity|]. cbn [inlines forallb].
  rewrite (yline_ids d g_TypeInputW (x :: xs) ltac:(discriminate) L eq_refl eq_refl). reflexivity.
Qed.

Lemma ylines_ok : forall s, ywf s = true -> yleaves s = true -> forall d, forallb lineok4 (ylines d s) = true.
Proof.
  induction s as [e|e|xs e|e b IHb|e b os el IHb IHos IHel|ids e b IHb|c args| | |n ins b cs IHb IHcs] using ystmt_ind2;
    intros W LO d; cbn [ywf yleaves] in W, LO.
  - cbn [ylines forallb]. rewrite (yline_expr d e W LO). reflexivity.
  - cbn [ylines forallb]. change (kwt g_TypeReturnW :: cshow e) with ([kwt g_TypeReturnW] ++ cshow e).
    rewrite (yline_pre_expr d e W LO [kwt g_TypeReturnW] ltac:(discriminate) eq_refl eq_refl). reflexivity.
  - apply andb_true_iff in W. destruct W as [_ We]. apply andb_true_iff in LO. destruct LO as [LX Le].
    cbn [ylines forallb].
    assert (E : kwt g_TypeDeclareW :: idlist xs ++ kwt g_TypeAssignMark :: cshow e
                = (kwt g_TypeDeclareW :: idlist xs ++ [kwt g_TypeAssignMark]) ++ cshow e)
      by (cbn [app]; rewrite <- app_assoc; reflexivity).
    rewrite E. rewrite (yline_pre_expr d e We Le (kwt g_TypeDeclareW :: idlist xs ++ [kwt g_TypeAssignMark]) ltac:(discriminate));
      [reflexivity| |reflexivity].
    cbn [forallb]. rewrite forallb_app, (idlist_ok xs LX). reflexivity.
  - apply andb_true_iff in W. destruct W as [W Wb]. apply andb_true_iff in W. destruct W as [We _].
    apply andb_true_iff in LO. destruct LO as [Le Lb].
    rewrite ylines_while. cbn [forallb].
    change (kwt g_TypeWhileLoopW :: cshow e ++ [tColon]) with (([kwt g_TypeWhileLoopW] ++ cshow e) ++ [tColon]).
    rewrite (yline_hdr d e We Le [kwt g_TypeWhileLoopW] ltac:(discriminate) eq_refl eq_refl).
    apply (YForall_lines b (S d) IHb Wb Lb).
  - apply andb_true_iff in W. destruct W as [W Wel]. apply andb_true_iff in W. destruct W as [W Wos].
    apply andb_true_iff in W. destruct W as [W Wb]. apply andb_true_iff in W. destruct W as [We _].
    apply andb_true_iff in LO. destruct LO as [LO Lel]. apply andb_true_iff in LO. destruct LO as [LO Los].
    apply andb_true_iff in LO. destruct LO as [Le Lb].
    rewrite ylines_if. cbn [forallb].
    change (kwt g_TypeCondW :: cshow e ++ [tColon]) with (([kwt g_TypeCondW] ++ cshow e) ++ [tColon]).
    rewrite (yline_hdr d e We Le [kwt g_TypeCondW] ltac:(discriminate) eq_refl eq_refl). cbn [andb].
    rewrite !forallb_app. rewrite (YForall_lines b (S d) IHb Wb Lb). cbn [andb].
    apply andb_true_iff. split.
    + unfold yolines. apply forallb_flat_map. clear - IHos Wos Los.
      induction IHos as [|p os Hp Hos IH]; [constructor|].
      cbn [forallb] in Wos, Los. apply andb_true_iff in Wos. destruct Wos as [Wp Wos].
      apply andb_true_iff in Los. destruct Los as [Lp Los].
      apply andb_true_iff in Wp. destruct Wp as [Wp Wpb]. apply andb_true_iff in Wp. destruct Wp as [Wpe _].
      apply andb_true_iff in Lp. destruct Lp as [Lpe Lpb].
      constructor; [|apply IH; assumption].
      cbv beta. cbn [forallb].
      change (kwt g_TypeCondOtherW :: cshow (fst p) ++ [tColon]) with (([kwt g_TypeCondOtherW] ++ cshow (fst p)) ++ [tColon]).
      rewrite (yline_hdr d (fst p) Wpe Lpe [kwt g_TypeCondOtherW] ltac:(discriminate) eq_refl eq_refl).
      apply (YForall_lines (snd p) (S d) Hp Wpb Lpb).
    + destruct el as [x|]; [|reflexivity]. cbn [yelines forallb]. apply andb_true_iff in Wel. destruct Wel as [_ Wx].
      change (lineok4 (d, [kwt g_TypeCondElseW; tColon], false)) with true. apply (YForall_lines x (S d) IHel Wx Lel).
  - apply andb_true_iff in W. destruct W as [W Wb]. apply andb_true_iff in W. destruct W as [W _].
    apply andb_true_iff in W. destruct W as [_ We].
    apply andb_true_iff in LO. destruct LO as [LO Lb]. apply andb_true_iff in LO. destruct LO as [LI Le].
    rewrite ylines_iter. cbn [forallb].
    assert (E : iter_hdr ids ++ kwt g_TypeIteratorW :: cshow e ++ [tColon]
                = ((iter_hdr ids ++ [kwt g_TypeIteratorW]) ++ cshow e) ++ [tColon])
      by (rewrite <- !app_assoc; reflexivity).
    rewrite E. rewrite (yline_hdr d e We Le (iter_hdr ids ++ [kwt g_TypeIteratorW])).
    + apply (YForall_lines b (S d) IHb Wb Lb).
    + destruct (iter_hdr ids); discriminate.
    + destruct ids as [|k ids']; [reflexivity|]. cbn [iter_hdr app forallb]. rewrite forallb_app, (idlist_ok _ LI). reflexivity.
    + destruct ids as [|k ids']; reflexivity.
  - apply andb_true_iff in W. destruct W as [_ Wa]. apply andb_true_iff in LO. destruct LO as [Lc La].
    cbn [ylines forallb]. rewrite andb_true_r.
    assert (E : kwt g_TypeThrowErrorW :: idt c :: tColon :: sepcat tPause (map cshow args) ++ [kwt g_TypeExceptionT]
                = (kwt g_TypeThrowErrorW :: idt c :: tColon :: sepcat tPause (map cshow args)) ++ [kwt g_TypeExceptionT])
      by reflexivity.
    rewrite E. apply lineok4_app; [discriminate| |reflexivity|reflexivity|reflexivity].
    rewrite forallb_app. cbn [forallb]. change (tok_ok4 (idt c)) with (leaf_ok c). rewrite Lc.
    change (tok_ok4 (kwt g_TypeThrowErrorW)) with true. change (tok_ok4 tColon) with true.
    change (tok_ok4 (kwt g_TypeExceptionT)) with true. cbn [andb]. rewrite andb_true_r.
    apply sepcat_ok. clear - Wa La. induction args as [|a r IH]; [constructor|].
    cbn [forallb] in Wa, La. apply andb_true_iff in Wa. destruct Wa as [W1 W2]. apply andb_true_iff in La. destruct La as [L1 L2].
    constructor; [exact (proj1 (cshow_line_facts a W1 L1))|apply IH; assumption].
  - reflexivity.
  - reflexivity.
  - apply andb_true_iff in W. destruct W as [W Wcs]. apply andb_true_iff in W. destruct W as [_ Wb].
    apply andb_true_iff in LO. destruct LO as [LO Lcs]. apply andb_true_iff in LO. destruct LO as [LO Lb].
    apply andb_true_iff in LO. destruct LO as [Ln Li].
    rewrite ylines_func. cbn [forallb]. apply andb_true_iff. split.
    + apply (lineok4_app d [kwt g_TypeFuncW; idt n] [kwt g_TypeFuncDeclare] false ltac:(discriminate));
        [|reflexivity|discriminate|reflexivity].
      cbn [app forallb]. change (tok_ok4 (idt n)) with (leaf_ok n). rewrite Ln. reflexivity.
    + unfold yxlines. rewrite !forallb_app. rewrite (inlines_ok (S d) ins Li), (YForall_lines b (S d) IHb Wb Lb).
      rewrite (yclines_ok (S d) cs IHcs Wcs Lcs). reflexivity.
Qed.

Lemma yblines_ok : forall d p, forallb ywf p = true -> forallb yleaves p = true -> forallb lineok4 (yblines d p) = true.
Proof. intros d p W LO. apply YForall_lines; [|exact W|exact LO]. apply YForall_all. intros s Ws Ls d0. apply ylines_ok; assumption. Qed.

(* ------------------------------------------------------------------ programs *)
Definition imp_leaves (i : yimport) : bool := forallb strc (i_name i) && forallb leaf_ok (i_ids i).
Definition cleaves (cs : list (lit * list ystmt)) : bool := forallb (fun c => leaf_ok (fst c) && forallb yleaves (snd c)) cs.
Definition qleaves (q : yprog) : bool :=
  forallb imp_leaves (q_imports q) && forallb leaf_ok (q_inputs q) && forallb yleaves (q_body q) && cleaves (q_catches q).

Lemma imp_line_ok : forall i, imp_leaves i = true -> lineok4 (imp_line i) = true.
Proof.
  intros [lib name w ids] H. unfold imp_leaves in H. cbn [i_name i_ids] in H. apply andb_true_iff in H. destruct H as [Hn Hi].
  unfold imp_line, imp_toks. cbn [i_lib i_name i_w i_ids].
  assert (TN : tok_ok4 ((if lib then g_TypeLibString else g_TypeString), name) = true).
  { destruct lib; [change (tok_ok4 (g_TypeLibString, name)) with (forallb strc name)
                  |change (tok_ok4 (g_TypeString, name)) with (forallb strc name)]; exact Hn. }
  destruct ids as [|y ys].
  - apply yline_simple; [discriminate| | | |reflexivity].
    + cbn [forallb]. rewrite TN. reflexivity.
    + destruct lib; reflexivity.
    + destruct lib; reflexivity.
  - destruct (idlist_last (y :: ys) ltac:(discriminate)) as (z & EL & NI).
    apply (lineok4_app 0 [kwt g_TypeImportW; ((if lib then g_TypeLibString else g_TypeString), name); tDot w]
             (idlist (y :: ys)) true NI).
    + cbn [app forallb]. rewrite TN, (idlist_ok _ Hi). destruct w; reflexivity.
    + rewrite EL. reflexivity.
    + intros _. rewrite EL. reflexivity.
    + reflexivity.
Qed.

Lemma qlines_ok : forall q, qwf q = true -> qleaves q = true -> forallb lineok4 (qlines q) = true.
Proof.
  intros [is ins b cs] W LO. unfold qwf, qleaves, qlines in *. cbn [q_imports q_inputs q_body q_catches] in *.
  apply andb_true_iff in W. destruct W as [W _]. apply andb_true_iff in W. destruct W as [Wb Wc].
  apply andb_true_iff in LO. destruct LO as [LO Lc]. apply andb_true_iff in LO. destruct LO as [LO Lb].
  apply andb_true_iff in LO. destruct LO as [Li Ln].
  rewrite forallb_app. apply andb_true_iff. split.
  - clear - Li. induction is as [|i r IH]; [reflexivity|]. cbn [forallb] in Li. apply andb_true_iff in Li. destruct Li as [A B].
    cbn [map forallb]. rewrite (imp_line_ok i A), (IH B). reflexivity.
  - unfold yxlines. rewrite !forallb_app. rewrite (inlines_ok 0 ins Ln), (yblines_ok 0 b Wb Lb).
    rewrite (yclines_ok 0 cs); [reflexivity| |exact Wc|exact Lc].
    apply Forall_forall. intros c _. apply YForall_all. intros s Ws Ls d0. apply ylines_ok; assumption.
Qed.

Lemma qlines_head : forall q, qwf q = true -> exists t ts sm r, qlines q = (0%nat, t :: ts, sm) :: r.
Proof.
  intros [is ins b cs] W. unfold qwf, qlines, qhas_exec in *. cbn [q_imports q_inputs q_body q_catches] in *.
  apply andb_true_iff in W. destruct W as [_ W].
  destruct is as [|i r].
  - cbn [map app]. destruct (nonnil b || nonnil cs) eqn:Nn.
    + assert (N : b <> [] \/ cs <> []).
      { apply orb_true_iff in Nn. destruct Nn as [Nn'|Nn']; apply nonnil_ne in Nn'; auto. }
      destruct (yx_head 0 ins b cs N) as (t & ts & sm & rr & E & _). rewrite E. eauto.
    + cbn [orb nonnil] in W. rewrite andb_false_r in W. discriminate.
  - cbn [map app]. unfold imp_line at 1, imp_toks. eauto.
Qed.

(* ================================================================== MAIN THEOREMS *)
(* the printing: import lines, input line, statements, catch sections; one line per header / simple statement, LF between
   lines, 4 spaces per nesting level, single spaces between tokens *)
Definition qprint (q : yprog) : list Z := ptext4 (qlines q).
Definition qline_table (q : yprog) : list line := ltab4 0 (qlines q).
Definition qindent_type (q : yprog) : Z := ityp g_IndentUnknown (qlines q).
Definition qprog_ok (q : yprog) : bool := qwf q && qleaves q.

Theorem compile_sections : forall q fuel, qprog_ok q = true -> (qfuel q <= fuel)%nat ->
  compile fuel (qprint q) = OTree (qprescribed q) (qline_table q) (qindent_type q).
Proof.
  intros q fuel OK LF. unfold qprog_ok in OK. apply andb_true_iff in OK. destruct OK as [W LO].
  destruct (qlines_head q W) as (t & ts & sm & r & E).
  unfold qprint, qline_table, qindent_type. rewrite E. apply compile_lines_text4.
  - rewrite <- E. apply qlines_ok; assumption.
  - intros st st' B L EO. rewrite <- E in L. apply (parse_sections_tokens q fuel st st' W LF B L EO).
Qed.

Theorem compile_sections_default : forall q, qprog_ok q = true ->
  compile (default_fuel (qprint q)) (qprint q) = OTree (qprescribed q) (qline_table q) (qindent_type q).
Proof.
  intros q OK.
  set (F := Nat.max (default_fuel (qprint q)) (qfuel q)).
  pose proof (compile_sections q F OK ltac:(unfold F; lia)) as HF.
  destruct (compile_mono (default_fuel (qprint q)) F (qprint q) ltac:(unfold F; lia)) as [H|H].
  - exfalso. exact (compile_total _ H).
  - rewrite H. exact HF.
Qed.

Theorem compile_sections_any_fuel : forall q fuel, qprog_ok q = true ->
  compile fuel (qprint q) = OFuel \/ compile fuel (qprint q) = OTree (qprescribed q) (qline_table q) (qindent_type q).
Proof.
  intros q fuel OK.
  set (F := Nat.max fuel (qfuel q)).
  pose proof (compile_sections q F OK ltac:(unfold F; lia)) as HF.
  destruct (compile_mono fuel F (qprint q) ltac:(unfold F; lia)) as [H|H]; [left; exact H|right].
  rewrite H. exact HF.
Qed.

(* ================================================================== example *)
(* 导入 “M” 之 a 、 b
   导入 《@L》
   输入 x 、 y
   如何 F ？
       输入 p
       输出 p
       拦截 E ：
           输出 p
   以 K 、 V 遍历 x ：
       继续循环
       结束循环
   以 V 遍历 x ：
       x
   遍历 x ：
       抛出 E ： x 、 y ！
   令 a 、 b = x
   拦截 E ：
       输出 x
   拦截 G ：
       x                                      *)
Definition ex_q : yprog := mkYP
  [mkImp false [77] true [[97]; [98]]; mkImp true [64; 76] true []]
  [[120]; [121]]
  [YFunc [70] [[112]] [YOut (XId [112])] [([69], [YOut (XId [112])])];
   YIter [[75]; [86]] (XId [120]) [YContinue; YBreak];
   YIter [[86]] (XId [120]) [YExpr (XId [120])];
   YIter [] (XId [120]) [YThrow [69] [XId [120]; XId [121]]];
   YLet [[97]; [98]] (XId [120])]
  [([69], [YOut (XId [120])]); ([71], [YExpr (XId [120])])].
Definition ex_src : list Z := [23548; 20837; 32; 8220; 77; 8221; 32; 20043; 32; 97; 32; 12289; 32; 98; 10; 23548; 20837; 32; 12298; 64; 76; 12299; 10; 36755; 20837; 32; 120; 32; 12289; 32; 121; 10; 22914; 20309; 32; 70; 32; 65311; 10; 32; 32; 32; 32; 36755; 20837; 32; 112; 10; 32; 32; 32; 32; 36755; 20986; 32; 112; 10; 32; 32; 32; 32; 25318; 25130; 32; 69; 32; 65306; 10; 32; 32; 32; 32; 32; 32; 32; 32; 36755; 20986; 32; 112; 10; 20197; 32; 75; 32; 12289; 32; 86; 32; 36941; 21382; 32; 120; 32; 65306; 10; 32; 32; 32; 32; 32487; 32493; 24490; 29615; 10; 32; 32; 32; 32; 32467; 26463; 24490; 29615; 10; 20197; 32; 86; 32; 36941; 21382; 32; 120; 32; 65306; 10; 32; 32; 32; 32; 120; 10; 36941; 21382; 32; 120; 32; 65306; 10; 32; 32; 32; 32; 25243; 20986; 32; 69; 32; 65306; 32; 120; 32; 12289; 32; 121; 32; 65281; 10; 20196; 32; 97; 32; 12289; 32; 98; 32; 61; 32; 120; 10; 25318; 25130; 32; 69; 32; 65306; 10; 32; 32; 32; 32; 36755; 20986; 32; 120; 10; 25318; 25130; 32; 71; 32; 65306; 10; 32; 32; 32; 32; 120].
Definition ex_tree : program :=
  mkProgram [(2, [77], [[97]; [98]]); (1, [64; 76], [])]
    (Some (XBlock [[120]; [121]]
       [SFuncDecl [70] 1 (XBlock [[112]] [SReturn (EId [112])] [([69], [SReturn (EId [112])])]);
        SIterate (EId [120]) [[75]; [86]] [SContinue; SBreak];
        SIterate (EId [120]) [[86]] [SExpr (EId [120])];
        SIterate (EId [120]) [] [SThrow [69] [EId [120]; EId [121]]];
        SVarDecl [(1, [[97]; [98]], EId [120])]]
       [([69], [SReturn (EId [120])]); ([71], [SExpr (EId [120])])])).
Example ex_print : qprint ex_q = ex_src. Proof. vm_compute. reflexivity. Qed.
Example ex_prescribed : qprescribed ex_q = ex_tree. Proof. reflexivity. Qed.
Example ex_by_theorem : compile (default_fuel ex_src) ex_src = OTree ex_tree (qline_table ex_q) (qindent_type ex_q).
Proof. rewrite <- ex_print, <- ex_prescribed. apply compile_sections_default. vm_compute. reflexivity. Qed.
Example ex_compute : exists ls, compile (default_fuel ex_src) ex_src = OTree ex_tree ls g_IndentSpace.
Proof. eexists. vm_compute. reflexivity. Qed.

(* imports only: no exec block *)
Example ex_imports_only : compile_encode (qprint (mkYP [mkImp true [64; 76] true []] [] [] []))
  = [[1; 0; 0; 0]; [0; 0]; enc_program (mkProgram [(1, [64; 76], [])] None)].
Proof. unfold compile_encode. rewrite (compile_sections_default (mkYP [mkImp true [64; 76] true []] [] [] []) eq_refl). reflexivity. Qed.

(* ================================================================== assumptions *)
Print Assumptions compile_sections.
Print Assumptions compile_sections_default.
Print Assumptions compile_sections_any_fuel.
