(* SemProps.v — property-level corollaries about the evaluator model, instantiating the section lemmas of
   SemStmt / SemCalls / SemRefine with [eval_expr]. *)
From Coq Require Import List ZArith Bool Lia.
From Zn.lib Require Import Float64.
From Zn.model Require Import SemDefs Sem.
From Zn.spec Require Import StmtSpec.
From Zn.proofs Require Import SemBase SemStmt SemCalls SemRefine.
Import ListNotations.
Open Scope Z_scope.

(* ------------------------------------------------------------------------------------------ *)
(* C02: the mechanism implements the outcome semantics, for the real expression evaluator       *)

Theorem block_refines_outcomes n k st b :
  wf st -> top_ret st = None ->
  rel_b (exec_block (eval_expr n) k st b) (o_block (eval_expr n) k st b).
Proof. intros. apply (exec_refines_outcomes (eval_expr n) (eval_expr_balanced n)); assumption. Qed.

Theorem stmt_refines_outcomes n k st s :
  wf st -> top_ret st = None ->
  rel (exec_stmt (eval_expr n) k st s) (o_stmt (eval_expr n) k st s).
Proof. intros. apply (exec_refines_outcomes (eval_expr n) (eval_expr_balanced n)); assumption. Qed.

(* -- facts about the outcome semantics itself (what the manual says) -- *)
Section SpecFacts.
  Variable ev : state -> expr -> res val.

  (* 输出 (or any non-Normal outcome) of a statement ends the block: the rest has no effect *)
  Lemma o_block_go_stops exec pre line s post st last o s2 :
    (forall v, o <> ONormal v) ->
    is_def s = false ->
    forall s1 last1,
      o_block_go exec pre st last = OR (ONormal last1) s1 ->
      exec (set_line s1 line) s = OR o s2 ->
      o_block_go exec (pre ++ (line, s) :: post) st last = OR o s2.
  Proof.
    intros Hn Hd. revert st last. induction pre as [|[l0 s0] pre IH]; intros st last s1 last1 Hpre Hex.
    - cbn in Hpre. inversion Hpre; subst. cbn [app o_block_go]. rewrite Hd, Hex.
      destruct o; try reflexivity. exfalso. eapply Hn. reflexivity.
    - cbn [app o_block_go] in *. destruct (is_def s0); [eapply IH; eassumption|].
      destruct (exec (set_line st l0) s0) as [[v|v| | |e] sx| |w]; cbn [oseq] in *; try discriminate.
      eapply IH; eassumption.
  Qed.

  (* a loop never ends with Break or Continue: they act on the innermost loop only *)
  Lemma o_while_consumes_signals body c l : forall j st s,
    o_while ev body c l j st <> OR OBreak s /\ o_while ev body c l j st <> OR OContinue s.
  Proof.
    induction j as [|j IH]; intros st s; cbn [o_while]; [split; discriminate|].
    destruct (ev (set_line st l) c) as [cv s1|e s1| |w]; cbn [ebind]; try (split; discriminate).
    destruct cv; try (split; discriminate). destruct b; [|split; discriminate].
    destruct (body s1) as [[v|v| | |e] s2| |w]; try (split; discriminate); apply IH.
  Qed.

  Lemma o_iter_consumes_signals body names : forall items st s,
    o_iter body names items st <> OR OBreak s /\ o_iter body names items st <> OR OContinue s.
  Proof.
    induction items as [|[key item] tl IH]; intros st s; cbn [o_iter]; [split; discriminate|].
    destruct (ebind _ _) as [[v|v| | |e] s2| |w]; try (split; discriminate); apply IH.
  Qed.

  (* 每当 re-tests its condition before every pass *)
  Lemma o_while_unfold body c l j st :
    o_while ev body c l (S j) st =
    ebind (ev (set_line st l) c) (fun cv s1 =>
      match cv with
      | VBool true =>
        match body s1 with
        | OR (ONormal _) s2 | OR OContinue s2 => o_while ev body c l j s2
        | OR OBreak s2 => OR (ONormal VNull) s2
        | o => o
        end
      | VBool false => OR (ONormal VNull) s1
      | _ => OR (ORaise (ERun E_EXPRTYPE)) s1
      end).
  Proof. reflexivity. Qed.

  (* a Return inside the body ends the loop with that Return, whatever the remaining passes would do *)
  Lemma o_while_return body c l j st s1 v s2 :
    ev (set_line st l) c = Ok (VBool true) s1 -> body s1 = OR (OReturn v) s2 ->
    o_while ev body c l (S j) st = OR (OReturn v) s2.
  Proof. intros H1 H2. cbn [o_while]. rewrite H1. cbn [ebind]. rewrite H2. reflexivity. Qed.

  (* a pass that ends normally or with 继续循环 is followed by the pass over the NEXT pair of the list computed when the loop
     started: index and element stay paired whatever the earlier passes did *)
  Lemma o_iter_next_pair body names key item tl st s2 :
    (exists v, ebind (bind_loop_vars names key item st) (fun _ sa => body sa) = OR (ONormal v) s2) \/
    ebind (bind_loop_vars names key item st) (fun _ sa => body sa) = OR OContinue s2 ->
    o_iter body names ((key, item) :: tl) st = o_iter body names tl s2.
  Proof. intros [[v H]|H]; cbn [o_iter]; rewrite H; reflexivity. Qed.

  Lemma o_iter_return body names key item tl st v s2 :
    ebind (bind_loop_vars names key item st) (fun _ sa => body sa) = OR (OReturn v) s2 ->
    o_iter body names ((key, item) :: tl) st = OR (OReturn v) s2.
  Proof. intros H. cbn [o_iter]. rewrite H. reflexivity. Qed.

  (* the first branch whose condition is 真 runs, and only that one *)
  Lemma o_others_first_true blk ce b tl els st s1 :
    ev st ce = Ok (VBool true) s1 ->
    o_others ev blk ((ce, b) :: tl) els st = oseq (blk b s1) (fun _ s => OR (ONormal VNull) s).
  Proof. intros H. cbn [o_others]. rewrite H. reflexivity. Qed.

  Lemma o_others_skip_false blk ce b tl els st s1 :
    ev st ce = Ok (VBool false) s1 ->
    o_others ev blk ((ce, b) :: tl) els st = o_others ev blk tl els s1.
  Proof. intros H. cbn [o_others]. rewrite H. reflexivity. Qed.

  Lemma o_others_non_bool blk ce b tl els st s1 v :
    ev st ce = Ok v s1 -> (forall x, v <> VBool x) ->
    o_others ev blk ((ce, b) :: tl) els st = OR (ORaise (ERun E_EXPRTYPE)) s1.
  Proof.
    intros H Hn. cbn [o_others]. rewrite H. cbn [ebind]. destruct v; try reflexivity. exfalso. eapply Hn; reflexivity.
  Qed.
End SpecFacts.

(* 遍历 visits list elements in order with indices 1..n, dictionary entries in key order *)
Lemma iter_pairs_list st l items :
  hget st l = Some (CList items) ->
  iter_pairs st (VList l) = Some (combine (map (fun i => VNum (of_int (Z.of_nat i))) (seq 1 (length items))) items).
Proof. intros H. unfold iter_pairs. rewrite H. reflexivity. Qed.

Lemma iter_pairs_dict st l kvs :
  hget st l = Some (CDict kvs) ->
  iter_pairs st (VDict l) = Some (map (fun kv => (VStr (fst kv), snd kv)) kvs).
Proof. intros H. unfold iter_pairs. rewrite H. reflexivity. Qed.

Lemma map_snd_combine {A B} : forall (l1 : list A) (l2 : list B), length l1 = length l2 -> map snd (combine l1 l2) = l2.
Proof. induction l1; destruct l2; cbn; intros H; try discriminate; [reflexivity|]. f_equal. apply IHl1. congruence. Qed.
Lemma map_fst_combine {A B} : forall (l1 : list A) (l2 : list B), length l1 = length l2 -> map fst (combine l1 l2) = l1.
Proof. induction l1; destruct l2; cbn; intros H; try discriminate; [reflexivity|]. f_equal. apply IHl1. congruence. Qed.

Lemma iter_pairs_list_indices st l items pairs :
  hget st l = Some (CList items) -> iter_pairs st (VList l) = Some pairs ->
  map snd pairs = items /\ map fst pairs = map (fun i => VNum (of_int (Z.of_nat i))) (seq 1 (length items)).
Proof.
  intros H H2. rewrite (iter_pairs_list _ _ _ H) in H2. inversion H2; subst.
  assert (L : length (map (fun i => VNum (of_int (Z.of_nat i))) (seq 1 (length items))) = length items)
    by (rewrite map_length, seq_length; reflexivity).
  split; [apply map_snd_combine|apply map_fst_combine]; exact L.
Qed.

(* ------------------------------------------------------------------------------------------ *)
(* C06 / C08 / C09: what a finished block, call or handled exception leaves behind               *)

(* a block (branch, loop body, handler) that ends — normally, by 输出, by a loop signal or with an error —
   leaves none of its declarations: the symbol stack has the shape it had before *)
Theorem block_restores_scope n k st b :
  wf st ->
  match exec_block (eval_expr n) k st b with
  | Ok _ s1 | Er _ s1 => shape s1 = shape st /\ depth s1 = depth st
  | _ => True
  end.
Proof.
  intros W. pose proof (bal_exec_block (eval_expr n) (eval_expr_balanced n) k st b W) as H.
  destruct (exec_block (eval_expr n) k st b) as [v s1|e s1| |w]; try exact I.
  - destruct H as (_ & Hd & Hs & _). tauto.
  - destruct H as [(_ & Hd & Hs & _) _]. tauto.
Qed.

(* a method / program body (evalExecBlock): on success — including a handled exception — the call stack is
   the one at entry (only the body's own frame changed its slot and line), scopes are restored;
   on failure the frames of the calls in progress are left above it; loop signals never leave a body *)
Theorem body_balanced n k st fd args :
  wf st ->
  match exec_exec_block (eval_expr n) k st fd args with
  | Ok _ s1 => R_ok_b st s1
  | Er e s1 => R_er_b st s1 /\ no_sig e
  | _ => True
  end.
Proof. intros W. exact (bal_exec_exec_block (eval_expr n) (eval_expr_balanced n) k st fd args W). Qed.

(* any expression — in particular any call — returns to exactly the caller's stack, depth and 其 *)
Theorem expr_restores_caller n st e v s1 :
  wf st -> eval_expr n st e = Ok v s1 ->
  stack s1 = stack st /\ depth s1 = depth st /\ top_this s1 = top_this st /\ ext_shape st s1.
Proof.
  intros W H. pose proof (eval_expr_balanced n st e W) as B. rewrite H in B.
  destruct B as (Hs & Hd & He & _). repeat split; try assumption. unfold top_this. rewrite Hs. reflexivity.
Qed.

Theorem expr_error_keeps_callers n st e er s1 :
  wf st -> eval_expr n st e = Er er s1 ->
  (exists extra, stack s1 = extra ++ stack st) /\
  depth s1 = depth st /\ no_sig er.
Proof.
  intros W H. pose proof (eval_expr_balanced n st e W) as B. rewrite H in B.
  destruct B as [(Hs & Hd & _) Hn]. repeat split; assumption.
Qed.

(* ------------------------------------------------------------------------------------------ *)
(* C08: argument binding, arity, objects                                                        *)

Lemma evs_cons ev e es st :
  evs ev (e :: es) st = let! (v, s1) := ev st e in let! (vs, s2) := evs ev es s1 in Ok (v :: vs) s2.
Proof. reflexivity. Qed.

(* a count mismatch is an error and runs nothing of the body: no output, no heap change *)
Theorem arity_mismatch_runs_nothing ev k st fd args :
  length args <> length (fd_params fd) ->
  exists s1, exec_exec_block ev k st fd args = Er (ERun E_PARAMLEN) s1 /\
             out s1 = out st /\ heap s1 = heap st /\ funs s1 = funs st /\ classes s1 = classes st.
Proof.
  intros H. unfold exec_exec_block.
  assert (E : negb (length args =? length (fd_params fd))%nat = true)
    by (apply negb_true_iff, Nat.eqb_neq; exact H).
  rewrite E. cbn [scoped]. eexists. split; [reflexivity|].
  unfold declare_this.
  destruct (top_kind (begin_scope st)) as [|[p|p|]|p]; try (repeat split; reflexivity);
    try (destruct p; repeat split; reflexivity).
  destruct p as [p|p|]; try (repeat split; reflexivity).
  destruct (top_this (begin_scope st)); [|repeat split; reflexivity].
  unfold vm_declare. destruct (is_global ID_THIS); [repeat split; reflexivity|].
  destruct (redeclared ID_THIS (depth (begin_scope st)) (syms (begin_scope st))); repeat split; reflexivity.
Qed.

(* property writes touch one object only *)
Lemma hget_hset_other st l c l' : l' <> l -> hget (hset st l c) l' = hget st l'.
Proof.
  unfold hget, hset. cbn [heap set_heap]. intros H. revert l l' H.
  induction (heap st) as [|x tl IH]; intros l l' H; destruct l, l'; cbn; try reflexivity; try congruence.
  apply IH. congruence.
Qed.

Theorem property_write_local st l m v s1 l' :
  set_property st (VObj l) m v = Ok tt s1 -> l' <> l -> hget s1 l' = hget st l'.
Proof.
  unfold set_property. destruct (hget st l) as [[?|?|c props]|]; try discriminate.
  destruct (assoc_name m props); [|discriminate]. intros H Hn. inversion H; subst.
  apply hget_hset_other. exact Hn.
Qed.

Theorem unknown_property_is_error st l c props m :
  hget st l = Some (CObj c props) -> m <> M_SELF -> assoc_name m props = None ->
  get_property st (VObj l) m = Er (ERun E_NOPROP) st /\ forall v, set_property st (VObj l) m v = Er (ERun E_NOPROP) st.
Proof.
  intros H Hm Ha. unfold get_property, set_property. rewrite H, Ha.
  destruct (m =? M_SELF) eqn:E; [apply Z.eqb_eq in E; congruence|]. split; reflexivity.
Qed.

Theorem unknown_method_is_error ev k st l c props cd m args s1 v :
  hget st l = Some (CObj c props) -> nth_error (classes st) c = Some cd ->
  vm_find st (c_name cd) = Ok v s1 -> assoc_nat m (c_methods cd) = None ->
  exists s2, exec_method ev k st (VObj l) m args = Er (ERun E_NOMETHOD) s2.
Proof.
  intros H Hc Hf Hm. unfold exec_method. rewrite H, Hc, Hf. cbn [bind]. rewrite Hm. eexists. reflexivity.
Qed.

(* ------------------------------------------------------------------------------------------ *)
(* C09: handlers                                                                                *)

(* runtime faults are exceptions of the default class *)
Lemma runtime_fault_is_exception c st : exc_of_err (ERun c) = Some (VExc (MRun c)) /\
                                        exc_class st (VExc (MRun c)) = Some ID_EXC.
Proof. split; reflexivity. Qed.

(* the handler chosen is the first one of the body whose class name equals the exception's class *)
Lemma find_handler_first cn : forall hs hb,
  find_handler cn hs = Some hb ->
  exists pre post, hs = pre ++ (cn, hb) :: post /\ Forall (fun h => fst h <> cn) pre.
Proof.
  induction hs as [|[hn b0] tl IH]; intros hb H; cbn in H; [discriminate|].
  destruct (hn =? cn) eqn:E.
  - apply Z.eqb_eq in E. inversion H; subst. exists [], tl. split; [reflexivity|constructor].
  - destruct (IH hb H) as (pre & post & -> & F). exists ((hn, b0) :: pre), post. split; [reflexivity|].
    constructor; [cbn; apply Z.eqb_neq; exact E|exact F].
Qed.

Lemma find_handler_none cn : forall hs, find_handler cn hs = None <-> Forall (fun h => fst h <> cn) hs.
Proof.
  induction hs as [|[hn b0] tl IH]; cbn; [split; [constructor|reflexivity]|].
  destruct (hn =? cn) eqn:E.
  - apply Z.eqb_eq in E. split; [discriminate|]. intros F. inversion F; subst. cbn in *. congruence.
  - rewrite IH. split; [intros F; constructor; [cbn; apply Z.eqb_neq; exact E|exact F]|intros F; inversion F; assumption].
Qed.

(* no matching handler: the error propagates unchanged, in the same state *)
Theorem unmatched_propagates_unchanged ev k d hs e s4 :
  (forall xv cn, exc_of_err e = Some xv -> exc_class s4 xv = Some cn -> find_handler cn hs = None) ->
  handle_exception ev k d hs e s4 = Er e s4.
Proof.
  intros H. unfold handle_exception. destruct (exc_of_err e) as [xv|] eqn:E1; [|reflexivity].
  destruct (exc_class s4 xv) as [cn|] eqn:E2; [|reflexivity]. rewrite (H xv cn eq_refl E2). reflexivity.
Qed.

(* the handler's 输出 value, or 空, is the value of the body; the exception is 其 inside the handler *)
Theorem handler_value_or_null ev k s4 d xv hb v s :
  run_handler ev k s4 d xv hb = Ok v s ->
  exists v0 s6, exec_block ev k (push_frame (unwind s4 d) 3 (Some xv)) hb = Ok v0 s6 /\
                s = pop_frame s6 /\ v = match top_ret s6 with Some r => r | None => VNull end /\
                top_this (push_frame (unwind s4 d) 3 (Some xv)) = Some xv.
Proof.
  unfold run_handler. destruct (exec_block ev k _ hb) as [v0 s6|e s6| |w] eqn:E; cbn [bind]; try discriminate.
  intros H. inversion H; subst. exists v0, s6. repeat split; reflexivity.
Qed.
