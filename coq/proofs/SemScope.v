(* SemScope.v — C06 at program level: what the *evaluator* (not just the symbol table) guarantees about names.
   Corollaries of the control-state balance theorem (SemCalls.eval_expr_balanced) with the symbol shape that
   records, for every symbol, its name, depth, constness and — for constants — its value (SemBase.sym_shape). *)
From Coq Require Import List ZArith Bool Lia.
Import ListNotations.
From Zn.model Require Import SemDefs Sem.
From Zn.proofs Require Import SemBase SemStmt SemCalls SemProps.
Open Scope Z_scope.

(* resolution of a name depends on the shape only *)
Lemma find_sym_shape x : forall ss ss', map sym_shape ss' = map sym_shape ss ->
  option_map sym_shape (find_sym x ss') = option_map sym_shape (find_sym x ss).
Proof.
  induction ss as [|s tl IH]; intros ss' H; destruct ss' as [|s' tl']; cbn in H; try discriminate; [reflexivity|].
  assert (Hs : sym_shape s' = sym_shape s) by (cbn [map] in H; congruence).
  assert (Ht : map sym_shape tl' = map sym_shape tl) by (cbn [map] in H; congruence).
  cbn [find_sym].
  assert (Hn : s_name s' = s_name s) by (unfold sym_shape in Hs; congruence).
  rewrite Hn. destruct (s_name s =? x); [cbn [option_map]; f_equal; exact Hs|apply IH; exact Ht].
Qed.

(* the same for a stack that only grew: names the new symbols do not use resolve as before *)
Lemma find_sym_app_skip x : forall new old, Forall (fun s => s_name s <> x) new -> find_sym x (new ++ old) = find_sym x old.
Proof.
  induction new as [|s tl IH]; intros old F; [reflexivity|]. inversion F; subst. cbn [app find_sym].
  destruct (s_name s =? x) eqn:E; [apply Z.eqb_eq in E; contradiction|apply IH; assumption].
Qed.

Definition resolves_as (st : state) (x : name) : option (name * nat * bool * option val) :=
  option_map sym_shape (find_sym x (syms st)).

(* A finished block — a branch, a loop body, a handler; ended normally, by 输出, by a loop signal or by an error —
   leaves every name resolving to the symbol it resolved to before: names declared inside are gone, shadowed
   outer names are visible again, nothing became (or stopped being) a constant, and every constant still has
   the value it had. *)
Theorem block_scoping n k st b x :
  wf st ->
  match exec_block (eval_expr n) k st b with
  | Ok _ s1 | Er _ s1 => resolves_as s1 x = resolves_as st x /\ depth s1 = depth st
  | _ => True
  end.
Proof.
  intros W. pose proof (block_restores_scope n k st b W) as H.
  destruct (exec_block (eval_expr n) k st b) as [v s1|e s1| |w]; try exact I;
    destruct H as [Hs Hd]; (split; [|exact Hd]); unfold resolves_as; apply find_sym_shape; exact Hs.
Qed.

(* Any expression — in particular any call of a method, constructor or built-in, however deep — leaves the
   caller's names alone: every symbol that existed is still there, at its depth, with its constness, and every
   constant (恒为, inputs, 得到 results, definitions, 此) kept its value; what was added sits on top at the
   caller's current depth (得到 bindings). *)
Theorem call_keeps_callers_names n st e v s1 :
  wf st -> eval_expr n st e = Ok v s1 ->
  exists new, shape s1 = new ++ shape st /\ Forall (fun t => sh_depth t = depth st) new.
Proof.
  intros W H. pose proof (expr_restores_caller n st e v s1 W H) as (_ & _ & _ & E). exact E.
Qed.

(* constants never change: if x resolves to a constant before a statement block, it resolves to the same constant
   with the same value afterwards *)
Corollary block_keeps_constants n k st b x d v :
  wf st -> resolves_as st x = Some (x, d, true, Some v) ->
  match exec_block (eval_expr n) k st b with
  | Ok _ s1 | Er _ s1 => resolves_as s1 x = Some (x, d, true, Some v)
  | _ => True
  end.
Proof.
  intros W R. pose proof (block_scoping n k st b x W) as H.
  destruct (exec_block (eval_expr n) k st b) as [? s1|? s1| |]; try exact I; destruct H as [H _]; congruence.
Qed.

(* assignment to a constant is refused and changes nothing at all *)
Theorem assign_const_refused st x v s :
  find_sym x (syms st) = Some s -> s_const s = true ->
  vm_set st x v = Er (ERun E_CONST) st.
Proof.
  intros F C. unfold vm_set.
  assert (H : set_sym x v (syms st) = Some None).
  { revert F. induction (syms st) as [|a tl IH]; cbn [find_sym set_sym]; [discriminate|].
    destruct (s_name a =? x); [intros E; inversion E; subst; rewrite C; reflexivity|].
    intros F. rewrite (IH F). reflexivity. }
  rewrite H. reflexivity.
Qed.

