(* JsonGrammarProofs.v — the renderer of model/Json.v emits the RFC 8259 grammar (property C19). *)
From Coq Require Import List ZArith Bool Lia.
Import ListNotations.
From Zn.model Require Import Json JsonGrammar.
From Zn.proofs Require Import JsonProofs.
Open Scope Z_scope.

Lemma is_hex_hexd : forall n, 0 <= n < 16 -> is_hex (hexd n) = true.
Proof. intros n H. unfold is_hex. rewrite hexval_hexd by assumption. reflexivity. Qed.

Lemma g_char_esc_u : forall c, 0 <= c < 65536 -> g_char (esc_u c).
Proof.
  intros c H. unfold esc_u. apply g_uescape.
  rewrite !is_hex_hexd; [reflexivity | | | |].
  - apply Z.mod_pos_bound; lia.
  - apply Z.mod_pos_bound; lia.
  - apply Z.mod_pos_bound; lia.
  - split; [apply Z.div_pos; lia | apply Z.div_lt_upper_bound; lia].
Qed.

Lemma g_char_esc_char : forall c, scalarb c = true -> g_char (esc_char c).
Proof.
  intros c Hs. pose proof (scalarb_range c Hs) as Hr. unfold esc_char.
  destruct (c =? 34) eqn:E1. { apply g_escape. reflexivity. }
  destruct (c =? 92) eqn:E2. { apply g_escape. reflexivity. }
  destruct (c =? 8) eqn:E3. { apply g_escape. reflexivity. }
  destruct (c =? 12) eqn:E4. { apply g_escape. reflexivity. }
  destruct (c =? 10) eqn:E5. { apply g_escape. reflexivity. }
  destruct (c =? 13) eqn:E6. { apply g_escape. reflexivity. }
  destruct (c =? 9) eqn:E7. { apply g_escape. reflexivity. }
  destruct (c <? 32) eqn:E8. { zb. apply g_char_esc_u. lia. }
  destruct ((c =? 60) || (c =? 62) || (c =? 38)) eqn:E9.
  { apply g_char_esc_u. apply orb_prop in E9. destruct E9 as [E9 | E9]; [apply orb_prop in E9; destruct E9 as [E9 | E9] |]; zb; lia. }
  destruct ((c =? 8232) || (c =? 8233)) eqn:E10.
  { apply g_char_esc_u. apply orb_prop in E10. destruct E10 as [E10 | E10]; zb; lia. }
  apply g_unescaped. zb. unfold unescaped.
  assert (32 <= c <= 33 \/ 35 <= c <= 91 \/ 93 <= c <= 1114111) as [D | [D | D]] by lia.
  - apply orb_true_intro. left. apply orb_true_intro. left. apply andb_true_intro. split; apply Z.leb_le; lia.
  - apply orb_true_intro. left. apply orb_true_intro. right. apply andb_true_intro. split; apply Z.leb_le; lia.
  - apply orb_true_intro. right. apply andb_true_intro. split; apply Z.leb_le; lia.
Qed.

Lemma g_string_render : forall s, forallb scalarb s = true -> g_string (render_str s).
Proof.
  intros s H. unfold render_str. apply g_str.
  induction s as [| c s IH]; [constructor |].
  cbn [forallb] in H. apply andb_prop in H. destruct H as [Hc Hs].
  cbn [flat_map]. apply g_chars_app; [apply g_char_esc_char; assumption | apply IH; assumption].
Qed.

Lemma g_elems_join : forall l, l <> [] -> Forall (fun v => g_value (render v)) l -> g_elems (join (map render l)).
Proof.
  induction l as [| x l IH]; intros Hne HF; [contradiction |].
  inversion HF as [| ? ? Hx Hl]; subst.
  destruct l as [| y l].
  - cbn [map join]. replace (render x) with ([] ++ render x ++ []) by (cbn [app]; apply app_nil_r).
    apply g_elems_one; [constructor | assumption | constructor].
  - cbn [map]. rewrite join_cons2.
    change (render x ++ 44 :: join (render y :: map render l))
      with ([] ++ render x ++ [] ++ 44 :: join (map render (y :: l))).
    apply g_elems_more; [constructor | assumption | constructor | apply IH; [discriminate | assumption]].
Qed.

Lemma g_members_join : forall m, m <> [] ->
  Forall (fun kv => forallb scalarb (fst kv) = true /\ g_value (render (snd kv))) m ->
  g_members (join (map render_member m)).
Proof.
  induction m as [| [k v] m IH]; intros Hne HF; [contradiction |].
  inversion HF as [| ? ? [Hk Hv] Hm]; subst. cbn [fst snd] in *.
  destruct m as [| kv2 m].
  - cbn [map join]. unfold render_member. cbn [fst snd].
    replace (render_str k ++ 58 :: render v) with ([] ++ render_str k ++ [] ++ 58 :: [] ++ render v ++ [])
      by (cbn [app]; rewrite app_nil_r; reflexivity).
    apply g_members_one; [constructor | apply g_string_render; assumption | constructor | constructor | assumption | constructor].
  - cbn [map]. rewrite join_cons2. unfold render_member at 1. cbn [fst snd].
    replace ((render_str k ++ 58 :: render v) ++ 44 :: join (render_member kv2 :: map render_member m))
      with ([] ++ render_str k ++ [] ++ 58 :: [] ++ render v ++ [] ++ 44 :: join (map render_member (kv2 :: m)))
      by (cbn [app map]; rewrite <- app_assoc; reflexivity).
    apply g_members_more; [constructor | apply g_string_render; assumption | constructor | constructor | assumption | constructor |].
    apply IH; [discriminate | assumption].
Qed.

Theorem render_wellformed : forall v, wf v = true -> g_value (render v).
Proof.
  induction v as [| b | t | s | l IH | m IH] using jv_ind'; intros Hwf; cbn [wf] in Hwf.
  - apply g_null.
  - destruct b; [apply g_true | apply g_false].
  - apply g_val_num. cbn [render]. apply g_num. assumption.
  - apply g_val_str. cbn [render]. apply g_string_render. assumption.
  - cbn [render]. destruct l as [| x l].
    + apply (g_arr_empty []). constructor.
    + apply g_arr. apply g_elems_join; [discriminate |].
      rewrite Forall_forall in *. rewrite forallb_forall in Hwf. intros v Hin. apply IH; auto.
  - cbn [render]. change (fun kv : list Z * jv => render_str (fst kv) ++ 58 :: render (snd kv)) with render_member.
    destruct m as [| kv m].
    + apply (g_obj_empty []). constructor.
    + apply g_obj. apply g_members_join; [discriminate |].
      rewrite Forall_forall in *. rewrite forallb_forall in Hwf. intros kv' Hin.
      specialize (Hwf kv' Hin). apply andb_prop in Hwf. destruct Hwf as [Hk Hv]. split; [assumption | apply IH; assumption].
Qed.

Theorem render_is_json_text : forall v, wf v = true -> g_json (render v).
Proof.
  intros v H. exists [], (render v), [].
  split; [constructor |]. split; [apply render_wellformed; assumption |]. split; [constructor |].
  cbn [app]. rewrite app_nil_r. reflexivity.
Qed.
