(* C04 - the binary search of IdInRange equals linear membership, for every well-formed table and every code point. *)
From Coq Require Import List ZArith Bool Lia.
Import ListNotations.
From Zn.model Require Import IdRange.
From Zn.gen Require Import GenC04IdRange.
Open Scope Z_scope.
Ltac Zify.zify_post_hook ::= Z.div_mod_to_equations.

Lemma sorted_all_above : forall tbl prev, sorted_tbl prev tbl = true ->
  forall j a, nth_error tbl j = Some a -> prev < fst a /\ fst a <= snd a.
Proof.
  induction tbl as [|[lo hi] r IH]; intros prev Hs j a Hn.
  - destruct j; discriminate.
  - simpl in Hs. apply andb_true_iff in Hs. destruct Hs as [Hs Hr]. apply andb_true_iff in Hs. destruct Hs as [H1 H2].
    apply Z.ltb_lt in H1. apply Z.leb_le in H2.
    destruct j as [|j]; simpl in Hn.
    + inversion Hn; subst. simpl. lia.
    + destruct (IH hi Hr j a Hn). lia.
Qed.

Lemma sorted_pairwise : forall tbl prev, sorted_tbl prev tbl = true ->
  forall i j a b, nth_error tbl i = Some a -> nth_error tbl j = Some b -> (i < j)%nat -> snd a < fst b.
Proof.
  induction tbl as [|[lo hi] r IH]; intros prev Hs i j a b Hi Hj Hlt.
  - destruct i; discriminate.
  - simpl in Hs. apply andb_true_iff in Hs. destruct Hs as [Hs Hr].
    destruct j as [|j]; [lia|]. simpl in Hj.
    destruct i as [|i]; simpl in Hi.
    + inversion Hi; subst. simpl. destruct (sorted_all_above r hi Hr j b Hj). lia.
    + apply (IH hi Hr i j a b Hi Hj). lia.
Qed.

Lemma linear_spec : forall tbl c, linear tbl c = true <->
  exists j a, nth_error tbl j = Some a /\ fst a <= c <= snd a.
Proof.
  intros tbl c. unfold linear. rewrite existsb_exists. split.
  - intros [a [Hin Hp]]. apply In_nth_error in Hin. destruct Hin as [j Hj]. exists j, a. split; [exact Hj|].
    unfold in_pair in Hp. apply andb_true_iff in Hp. destruct Hp as [H1 H2]. apply Z.leb_le in H1. apply Z.leb_le in H2. lia.
  - intros [j [a [Hj Hp]]]. exists a. split; [eapply nth_error_In; eauto|].
    unfold in_pair. apply andb_true_iff. split; apply Z.leb_le; lia.
Qed.

Lemma pair_at_some : forall tbl i, 0 <= i < Z.of_nat (length tbl) -> exists a, pair_at tbl i = Some a /\ nth_error tbl (Z.to_nat i) = Some a.
Proof.
  intros tbl i Hi. unfold pair_at. destruct (Z.ltb_spec i 0); [lia|].
  destruct (nth_error tbl (Z.to_nat i)) eqn:E; [eauto|].
  apply nth_error_None in E. lia.
Qed.

Section Search.
  Variable tbl : list (Z * Z).
  Hypothesis Hsorted : sorted_tbl (-1) tbl = true.
  Let len := Z.of_nat (length tbl).

  (* every range left of s lies below c, every range from e on lies above c *)
  Definition inv (c s e : Z) : Prop :=
    0 <= s /\ s <= e /\ e <= len /\ s < len /\
    (forall j a, nth_error tbl j = Some a -> Z.of_nat j < s -> snd a < c) /\
    (forall j a, nth_error tbl j = Some a -> e <= Z.of_nat j -> c < fst a).

  Lemma bsearch_correct : forall fuel c s e, inv c s e -> e - s < Z.of_nat fuel ->
    bsearch fuel tbl c s e = if linear tbl c then BTrue else BFalse.
  Proof.
    induction fuel as [|f IH]; intros c s e Hinv Hfuel.
    - destruct Hinv as (H0 & H1 & _). lia.
    - destruct Hinv as (H0 & H1 & H2 & H3 & Hlo & Hhi).
      cbn [bsearch].
      assert (Hi : s <= (e + s) / 2 <= e /\ (e + s) / 2 < len).
      { lia. }
      set (i := (e + s) / 2) in *.
      destruct (pair_at_some tbl i ltac:(fold len; lia)) as [[lo hi] [Hp Hn]]. rewrite Hp.
      destruct (Z.ltb_spec c lo) as [Hclo|Hclo].
      + (* c < lo[i]: every range from i on is above c *)
        assert (Hhi' : forall j a, nth_error tbl j = Some a -> i <= Z.of_nat j -> c < fst a).
        { intros j a Hj Hij. destruct (Z.eq_dec (Z.of_nat j) i) as [Heq|Hne].
          - assert (j = Z.to_nat i) by lia. subst j. rewrite Hn in Hj. inversion Hj; subst. simpl. lia.
          - pose proof (sorted_pairwise tbl (-1) Hsorted (Z.to_nat i) j (lo, hi) a Hn Hj ltac:(lia)) as Hpw.
            destruct (sorted_all_above tbl (-1) Hsorted _ _ Hn). simpl in *. lia. }
        destruct (Z.eqb_spec i e) as [Hie|Hie].
        * (* s = e: nothing left *)
          assert (s = e) by (unfold i in Hie; lia).
          destruct (linear tbl c) eqn:L; [|reflexivity].
          apply linear_spec in L. destruct L as [j [a [Hj Ha]]]. exfalso.
          destruct (Z.lt_ge_cases (Z.of_nat j) s) as [Hjs|Hjs].
          -- specialize (Hlo j a Hj Hjs). lia.
          -- specialize (Hhi j a Hj ltac:(lia)). lia.
        * apply IH; [|lia]. unfold inv. repeat split; try lia; assumption.
      + destruct (Z.ltb_spec hi c) as [Hchi|Hchi].
        * (* hi[i] < c: every range up to i is below c *)
          assert (Hlo' : forall j a, nth_error tbl j = Some a -> Z.of_nat j <= i -> snd a < c).
          { intros j a Hj Hij. destruct (Z.eq_dec (Z.of_nat j) i) as [Heq|Hne].
            - assert (j = Z.to_nat i) by lia. subst j. rewrite Hn in Hj. inversion Hj; subst. simpl. lia.
            - pose proof (sorted_pairwise tbl (-1) Hsorted j (Z.to_nat i) a (lo, hi) Hj Hn ltac:(lia)) as Hpw.
              destruct (sorted_all_above tbl (-1) Hsorted _ _ Hj). simpl in *. lia. }
          destruct (Z.eqb_spec i s) as [His|His].
          -- assert (e <= s + 1).
             { unfold i in His. lia. }
             destruct (linear tbl c) eqn:L; [|reflexivity].
             apply linear_spec in L. destruct L as [j [a [Hj Ha]]]. exfalso.
             destruct (Z.lt_ge_cases i (Z.of_nat j)) as [Hjs|Hjs].
             ++ specialize (Hhi j a Hj ltac:(lia)). lia.
             ++ specialize (Hlo' j a Hj ltac:(lia)). lia.
          -- apply IH; [|lia]. unfold inv. repeat split; try lia; try assumption.
        * (* found *)
          assert (L : linear tbl c = true) by (apply linear_spec; exists (Z.to_nat i), (lo, hi); split; [exact Hn | simpl; lia]).
          rewrite L. reflexivity.
  Qed.
End Search.

Theorem id_in_range_is_linear : forall guard tbl, table_ok guard tbl = true ->
  forall c, id_in_range guard tbl c = if linear tbl c then BTrue else BFalse.
Proof.
  intros guard tbl Hok c. unfold table_ok in Hok.
  apply andb_true_iff in Hok. destruct Hok as [Hok Hg]. apply andb_true_iff in Hok. destruct Hok as [Hs Hne].
  assert (Hlen : 0 < Z.of_nat (length tbl)).
  { destruct tbl; [discriminate | simpl length; lia]. }
  unfold id_in_range.
  destruct ((guard <? c) || (c <? 0)) eqn:G.
  - (* outside the guard no range can contain c *)
    destruct (linear tbl c) eqn:L; [|reflexivity]. exfalso.
    apply linear_spec in L. destruct L as [j [a [Hj Ha]]].
    rewrite forallb_forall in Hg. pose proof (Hg a (nth_error_In _ _ Hj)) as Hga. apply Z.leb_le in Hga.
    destruct (sorted_all_above tbl (-1) Hs j a Hj).
    apply orb_true_iff in G. destruct G as [G|G]; [apply Z.ltb_lt in G | apply Z.ltb_lt in G]; lia.
  - apply bsearch_correct; [exact Hs| |rewrite Nat2Z.inj_succ; lia].
    unfold inv. repeat split; try lia.
    intros j a Hj Hge. assert (j < length tbl)%nat by (apply nth_error_Some; congruence). lia.
Qed.

(* the regenerated table *)
Lemma gen_idrange_translated : gen_idrange_ok = true.
Proof. vm_compute. reflexivity. Qed.

Lemma gen_table_ok : table_ok gen_id_guard_max gen_id_range = true.
Proof. vm_compute. reflexivity. Qed.

Theorem gen_id_in_range : forall c,
  id_in_range gen_id_guard_max gen_id_range c = if linear gen_id_range c then BTrue else BFalse.
Proof. exact (id_in_range_is_linear _ _ gen_table_ok). Qed.

Corollary gen_id_in_range_no_crash : forall c,
  id_in_range gen_id_guard_max gen_id_range c <> BCrash /\ id_in_range gen_id_guard_max gen_id_range c <> BOutOfFuel.
Proof. intro c. rewrite gen_id_in_range. destruct (linear gen_id_range c); split; discriminate. Qed.
