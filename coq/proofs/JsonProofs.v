(* JsonProofs.v — proofs about the codec of model/Json.v (property C19). *)
From Coq Require Import List ZArith Bool Lia Arith.
Import ListNotations.
From Zn.model Require Import Json.
Open Scope Z_scope.

Ltac zb := repeat match goal with
  | H : (_ =? _) = true |- _ => apply Z.eqb_eq in H
  | H : (_ =? _) = false |- _ => apply Z.eqb_neq in H
  | H : (_ <? _) = true |- _ => apply Z.ltb_lt in H
  | H : (_ <? _) = false |- _ => apply Z.ltb_ge in H
  | H : (_ <=? _) = true |- _ => apply Z.leb_le in H
  | H : (_ <=? _) = false |- _ => apply Z.leb_gt in H
  | H : (_ && _) = true |- _ => apply andb_prop in H; destruct H
  | H : (_ || _) = false |- _ => apply orb_false_elim in H; destruct H
  end.

Ltac eqb_false c k := replace (c =? k) with false by (symmetry; apply Z.eqb_neq; lia).

(* ---------------------------------------------------------------- hex *)
Lemma hexval_hexd : forall n, 0 <= n < 16 -> hexval (hexd n) = Some n.
Proof.
  intros n H.
  assert (n = 0 \/ n = 1 \/ n = 2 \/ n = 3 \/ n = 4 \/ n = 5 \/ n = 6 \/ n = 7 \/ n = 8 \/ n = 9 \/
          n = 10 \/ n = 11 \/ n = 12 \/ n = 13 \/ n = 14 \/ n = 15) as D by lia.
  repeat (destruct D as [D | D]; [subst; reflexivity |]). subst; reflexivity.
Qed.

Lemma hex4_esc : forall c, 0 <= c < 65536 ->
  hex4 (hexd (c / 4096)) (hexd ((c / 256) mod 16)) (hexd ((c / 16) mod 16)) (hexd (c mod 16)) = Some c.
Proof.
  intros c H. unfold hex4.
  rewrite !hexval_hexd.
  - f_equal. 
    Ltac Zify.zify_post_hook ::= Z.div_mod_to_equations. lia.
  - apply Z.mod_pos_bound; lia.
  - apply Z.mod_pos_bound; lia.
  - apply Z.mod_pos_bound; lia.
  - split; [apply Z.div_pos; lia | apply Z.div_lt_upper_bound; lia].
Qed.

(* ---------------------------------------------------------------- strings *)
Lemma parse_str_u : forall h1 h2 h3 h4 u tl,
  hex4 h1 h2 h3 h4 = Some u -> is_high u = false -> is_low u = false ->
  parse_str (92 :: 117 :: h1 :: h2 :: h3 :: h4 :: tl) = ocons u (parse_str tl).
Proof.
  intros h1 h2 h3 h4 u tl H Hh Hl.
  cbn [parse_str]. change (92 =? 34) with false. change (92 =? 92) with true.
  change (117 =? 117) with true. cbn iota. rewrite H, Hh, Hl. reflexivity.
Qed.

Lemma parse_str_esc_u : forall c tl, 0 <= c < 0xD800 ->
  parse_str (esc_u c ++ tl) = ocons c (parse_str tl).
Proof.
  intros c tl H. unfold esc_u. cbn [app].
  apply parse_str_u.
  - apply hex4_esc. lia.
  - unfold is_high. apply andb_false_intro1. apply Z.leb_gt. lia.
  - unfold is_low. apply andb_false_intro1. apply Z.leb_gt. lia.
Qed.

Lemma parse_str_simple : forall e ch tl, simple_escape e = Some ch -> (e =? 117) = false ->
  parse_str (92 :: e :: tl) = ocons ch (parse_str tl).
Proof.
  intros e ch tl H Hu. cbn [parse_str]. change (92 =? 34) with false. change (92 =? 92) with true.
  cbn iota. rewrite Hu, H. reflexivity.
Qed.

Lemma parse_str_raw : forall c tl, (c =? 34) = false -> (c =? 92) = false -> (c <? 32) = false ->
  parse_str (c :: tl) = ocons c (parse_str tl).
Proof. intros c tl H1 H2 H3. cbn [parse_str]. rewrite H1, H2, H3. reflexivity. Qed.

Lemma scalarb_range : forall c, scalarb c = true -> 0 <= c < 0x110000.
Proof.
  intros c H. unfold scalarb in H. apply orb_prop in H. destruct H as [H | H]; zb; lia.
Qed.

Lemma parse_str_esc_char : forall c tl, scalarb c = true ->
  parse_str (esc_char c ++ tl) = ocons c (parse_str tl).
Proof.
  intros c tl Hs. pose proof (scalarb_range c Hs) as Hr. unfold esc_char.
  destruct (c =? 34) eqn:E1. { zb; subst. apply (parse_str_simple 34 34); reflexivity. }
  destruct (c =? 92) eqn:E2. { zb; subst. apply (parse_str_simple 92 92); reflexivity. }
  destruct (c =? 8) eqn:E3. { zb; subst. apply (parse_str_simple 98 8); reflexivity. }
  destruct (c =? 12) eqn:E4. { zb; subst. apply (parse_str_simple 102 12); reflexivity. }
  destruct (c =? 10) eqn:E5. { zb; subst. apply (parse_str_simple 110 10); reflexivity. }
  destruct (c =? 13) eqn:E6. { zb; subst. apply (parse_str_simple 114 13); reflexivity. }
  destruct (c =? 9) eqn:E7. { zb; subst. apply (parse_str_simple 116 9); reflexivity. }
  destruct (c <? 32) eqn:E8. { zb. apply parse_str_esc_u. lia. }
  destruct ((c =? 60) || (c =? 62) || (c =? 38)) eqn:E9.
  { apply parse_str_esc_u. apply orb_prop in E9. destruct E9 as [E9 | E9]; [apply orb_prop in E9; destruct E9 as [E9 | E9] |]; zb; lia. }
  destruct ((c =? 8232) || (c =? 8233)) eqn:E10.
  { apply parse_str_esc_u. apply orb_prop in E10. destruct E10 as [E10 | E10]; zb; lia. }
  cbn [app]. apply parse_str_raw; assumption.
Qed.

Lemma parse_str_body : forall s rest, forallb scalarb s = true ->
  parse_str (flat_map esc_char s ++ 34 :: rest) = Some (s, rest).
Proof.
  induction s as [| c s IH]; intros rest H.
  - reflexivity.
  - cbn [forallb] in H. apply andb_prop in H. destruct H as [Hc Hs].
    cbn [flat_map]. rewrite <- app_assoc. rewrite parse_str_esc_char by assumption.
    rewrite IH by assumption. reflexivity.
Qed.

(* ---------------------------------------------------------------- numbers *)
Definition head_not (P : Z -> bool) (s : list Z) : Prop :=
  match s with [] => True | c :: _ => P c = false end.

(* what may follow a value: nothing, ',', ']', '}', white space *)
Definition followb (s : list Z) : bool :=
  match s with [] => true | c :: _ => (c =? 44) || (c =? 93) || (c =? 125) || is_ws c end.

Lemma span_digits_app : forall ds rest, all_digits ds = true -> head_not is_digit rest ->
  span_digits (ds ++ rest) = (ds, rest).
Proof.
  induction ds as [| d ds IH]; intros rest H Hr.
  - cbn [app]. destruct rest as [| c r]; [reflexivity |]. cbn [span_digits]. cbn in Hr. rewrite Hr. reflexivity.
  - cbn [all_digits forallb] in H. apply andb_prop in H. destruct H as [Hd Hds].
    cbn [app span_digits]. rewrite Hd. rewrite (IH rest Hds Hr). reflexivity.
Qed.

Lemma follow_head : forall rest, followb rest = true ->
  head_not is_digit rest /\ head_not (fun c => c =? 46) rest /\ head_not (fun c => (c =? 101) || (c =? 69)) rest.
Proof.
  intros [| c r] H; cbn; [auto |].
  cbn in H. unfold is_ws in H. unfold is_digit.
  repeat (apply orb_prop in H; destruct H as [H | H]); zb; subst; cbn; auto.
Qed.

Lemma parse_exp_render : forall ex rest, wf_exp ex = true -> followb rest = true ->
  parse_exp (render_exp ex ++ rest) = Some (ex, rest).
Proof.
  intros ex rest H Hf. destruct (follow_head rest Hf) as (Hd & _ & He).
  destruct ex as [[[ec sg] ds] |].
  - cbn [wf_exp] in H. apply andb_prop in H. destruct H as [H Hds]. apply andb_prop in H. destruct H as [Hec Hsg].
    assert (ds <> [] /\ all_digits ds = true) as [Hne Hall] by (destruct ds; [discriminate | split; [discriminate | assumption]]).
    cbn [render_exp app parse_exp]. rewrite Hec.
    destruct sg as [| c [| c2 sg]]; try discriminate.
    + cbn [app]. destruct ds as [| d ds]; [contradiction |].
      assert (is_digit d = true) as Hdd by (cbn in Hall; apply andb_prop in Hall; tauto).
      cbn [app].
      replace ((d =? 43) || (d =? 45)) with false
        by (symmetry; unfold is_digit in Hdd; zb; apply orb_false_intro; apply Z.eqb_neq; lia).
      change (d :: ds ++ rest) with ((d :: ds) ++ rest). rewrite span_digits_app by assumption. reflexivity.
    + cbn [app]. rewrite Hsg. rewrite span_digits_app by assumption.
      destruct ds; [contradiction | reflexivity].
  - cbn [render_exp app]. destruct rest as [| c r]; [reflexivity |]. cbn in He. cbn [parse_exp]. rewrite He. reflexivity.
Qed.

Lemma parse_frac_render : forall fp rest, all_digits fp = true ->
  head_not is_digit rest -> head_not (fun c => c =? 46) rest ->
  parse_frac (render_frac fp ++ rest) = Some (fp, rest).
Proof.
  intros fp rest H Hd Hp. destruct fp as [| d fp].
  - cbn [render_frac app]. destruct rest as [| c r]; [reflexivity |]. cbn in Hp. cbn [parse_frac]. rewrite Hp. reflexivity.
  - cbn [render_frac app parse_frac]. change (46 =? 46) with true. cbn iota.
    change (d :: fp ++ rest) with ((d :: fp) ++ rest). rewrite span_digits_app by assumption. reflexivity.
Qed.

Lemma render_exp_head : forall ex rest, wf_exp ex = true -> followb rest = true ->
  head_not is_digit (render_exp ex ++ rest) /\ head_not (fun c => c =? 46) (render_exp ex ++ rest).
Proof.
  intros ex rest H Hf. destruct ex as [[[ec sg] ds] |].
  - cbn [wf_exp] in H. apply andb_prop in H. destruct H as [H _]. apply andb_prop in H. destruct H as [Hec _].
    cbn [render_exp app head_not]. unfold is_digit.
    apply orb_prop in Hec. destruct Hec; zb; subst; split; reflexivity.
  - cbn [render_exp app]. destruct (follow_head rest Hf) as (A & B & _). auto.
Qed.

Lemma render_frac_head : forall fp rest, head_not is_digit rest -> head_not is_digit (render_frac fp ++ rest).
Proof. intros [| d fp] rest H; [exact H | reflexivity]. Qed.

Lemma parse_num_render : forall t rest, wf_num t = true -> followb rest = true ->
  parse_num (render_num t ++ rest) = Some (t, rest).
Proof.
  intros [neg ip fp ex] rest H Hf. unfold wf_num in H. cbn [n_int n_frac n_exp] in H.
  apply andb_prop in H. destruct H as [H Hex]. apply andb_prop in H. destruct H as [Hip Hfp].
  destruct (render_exp_head ex rest Hex Hf) as [Hed Hep].
  pose proof (render_frac_head fp _ Hed) as Hfd.
  unfold render_num. cbn [n_neg n_int n_frac n_exp].
  assert (forall tl, tl = ip ++ render_frac fp ++ render_exp ex ++ rest ->
          match tl with
          | [] => None
          | c :: r =>
            match (if c =? 48 then Some ([c], r)
                   else if is_digit19 c then (let (ds, r') := span_digits r in Some (c :: ds, r')) else None) with
            | None => None
            | Some (ds, r1) =>
              match parse_frac r1 with
              | None => None
              | Some (fs, r2) => match parse_exp r2 with
                                 | None => None
                                 | Some (ex', r3) => Some (NumTok neg ds fs ex', r3)
                                 end
              end
            end
          end = Some (NumTok neg ip fp ex, rest)) as Core.
  { intros tl ->. destruct ip as [| c ds]; [discriminate |]. cbn [wf_int] in Hip. cbn [app].
    apply orb_prop in Hip. destruct Hip as [Hz | Hnz].
    - apply andb_prop in Hz. destruct Hz as [Hc Hds]. destruct ds; [| discriminate]. rewrite Hc. cbn [app].
      rewrite parse_frac_render by assumption. rewrite parse_exp_render by assumption. reflexivity.
    - apply andb_prop in Hnz. destruct Hnz as [Hc Hds].
      assert ((c =? 48) = false) as Hc0 by (unfold is_digit19 in Hc; zb; apply Z.eqb_neq; lia).
      rewrite Hc0, Hc. rewrite span_digits_app by assumption.
      rewrite parse_frac_render by assumption. rewrite parse_exp_render by assumption. reflexivity. }
  unfold parse_num. destruct neg.
  - cbn [app]. change (45 =? 45) with true. cbn iota. rewrite <- !app_assoc. apply Core. reflexivity.
  - cbn [app]. rewrite <- !app_assoc.
    destruct ip as [| c ds]; [discriminate |]. cbn [app].
    assert ((c =? 45) = false) as Hm.
    { cbn [wf_int] in Hip. unfold is_digit19 in Hip. apply orb_prop in Hip. destruct Hip; zb; apply Z.eqb_neq; lia. }
    rewrite Hm. apply (Core (c :: ds ++ render_frac fp ++ render_exp ex ++ rest)). reflexivity.
Qed.

(* first character of a rendered number *)
Lemma render_num_head : forall t rest, wf_num t = true ->
  exists c tl, render_num t ++ rest = c :: tl /\ ((c =? 45) || is_digit c) = true.
Proof.
  intros [neg ip fp ex] rest H. unfold wf_num in H. cbn [n_int n_frac n_exp] in H.
  apply andb_prop in H. destruct H as [H _]. apply andb_prop in H. destruct H as [Hip _].
  unfold render_num. cbn [n_neg n_int n_frac n_exp]. destruct neg.
  - eexists; eexists; split; [reflexivity | reflexivity].
  - destruct ip as [| c ds]; [discriminate |]. cbn [app]. eexists; eexists; split; [reflexivity |].
    cbn [wf_int] in Hip. unfold is_digit19 in Hip. unfold is_digit.
    apply orb_prop in Hip. destruct Hip; zb; apply orb_true_intro; right; apply andb_true_intro; split; apply Z.leb_le; lia.
Qed.

(* ---------------------------------------------------------------- values *)
Section JvInd.
  Variable P : jv -> Prop.
  Hypothesis Hnull : P JNull.
  Hypothesis Hbool : forall b, P (JBool b).
  Hypothesis Hnum : forall t, P (JNum t).
  Hypothesis Hstr : forall s, P (JStr s).
  Hypothesis Harr : forall l, Forall P l -> P (JArr l).
  Hypothesis Hobj : forall m, Forall (fun kv => P (snd kv)) m -> P (JObj m).
  Fixpoint jv_ind' (v : jv) : P v :=
    match v with
    | JNull => Hnull
    | JBool b => Hbool b
    | JNum t => Hnum t
    | JStr s => Hstr s
    | JArr l => Harr l ((fix go (l : list jv) : Forall P l :=
                           match l with [] => Forall_nil _ | x :: r => Forall_cons _ (jv_ind' x) (go r) end) l)
    | JObj m => Hobj m ((fix go (m : list (list Z * jv)) : Forall (fun kv => P (snd kv)) m :=
                           match m with [] => Forall_nil _ | kv :: r => Forall_cons _ (jv_ind' (snd kv)) (go r) end) m)
    end.
End JvInd.

Lemma skip_ws_nows : forall c r, is_ws c = false -> skip_ws (c :: r) = c :: r.
Proof. intros c r H. cbn [skip_ws]. rewrite H. reflexivity. Qed.

Lemma parse_value_num_dispatch : forall f c tl, ((c =? 45) || is_digit c) = true ->
  parse_value (S f) (c :: tl) = pmap JNum (of_opt (parse_num (c :: tl))).
Proof.
  intros f c tl H.
  assert (c = 45 \/ 48 <= c <= 57) as Hc.
  { apply orb_prop in H. unfold is_digit in H. destruct H; zb; lia. }
  cbn [parse_value].
  assert (is_ws c = false) as Hw.
  { unfold is_ws. repeat apply orb_false_intro; apply Z.eqb_neq; lia. }
  rewrite skip_ws_nows by assumption.
  eqb_false c 123. eqb_false c 91. eqb_false c 34. eqb_false c 116. eqb_false c 102. eqb_false c 110.
  reflexivity.
Qed.

Lemma render_str_app : forall s rest, render_str s ++ rest = 34 :: flat_map esc_char s ++ 34 :: rest.
Proof. intros. unfold render_str. cbn [app]. rewrite <- app_assoc. reflexivity. Qed.

(* first character of a rendered value: never white space, ']' , '}' or ',' *)
Definition value_start (c : Z) : bool :=
  negb (is_ws c) && negb (c =? 93) && negb (c =? 125) && negb (c =? 44).

Lemma render_head : forall v rest, wf v = true ->
  exists c tl, render v ++ rest = c :: tl /\ value_start c = true.
Proof.
  intros v rest H. destruct v as [| [|] | t | s | l | m]; cbn [render];
    try (eexists; eexists; split; [reflexivity | reflexivity]).
  - cbn [wf] in H. destruct (render_num_head t rest H) as (c & tl & E & Hc). exists c, tl. split; [exact E |].
    unfold value_start, is_ws. apply orb_prop in Hc. unfold is_digit in Hc.
    assert (c = 45 \/ 48 <= c <= 57) as Hr by (destruct Hc; zb; lia).
    repeat (apply andb_true_intro; split); apply negb_true_iff;
      repeat apply orb_false_intro; apply Z.eqb_neq; lia.
Qed.

Lemma join_cons2 : forall x y l, join (x :: y :: l) = x ++ 44 :: join (y :: l).
Proof. reflexivity. Qed.

Lemma parse_elems_render : forall (pv : list Z -> pres jv) l,
  Forall (fun v => wf v = true /\ forall rest, followb rest = true -> pv (render v ++ rest) = POk v rest) l ->
  l <> [] -> forall n rest, (length l <= n)%nat ->
  parse_elems pv n (join (map render l) ++ 93 :: rest) = POk l rest.
Proof.
  intros pv l HF. induction HF as [| x l [Hwx Hx] HF IH]; intros Hne n rest Hn; [contradiction |].
  destruct n as [| n]; [cbn in Hn; lia |]. cbn [length] in Hn.
  destruct l as [| y l].
  - cbn [map join parse_elems]. rewrite Hx by reflexivity. cbn [skip_ws]. change (is_ws 93) with false.
    cbn iota. reflexivity.
  - cbn [map]. rewrite join_cons2. rewrite <- app_assoc. cbn [app parse_elems]. rewrite Hx by reflexivity.
    cbn [skip_ws]. change (is_ws 44) with false. cbn iota. change (44 =? 44) with true. cbn iota.
    change (render y :: map render l) with (map render (y :: l)).
    rewrite IH; [reflexivity | discriminate | cbn [length] in *; lia].
Qed.

Definition render_member (kv : list Z * jv) : list Z := render_str (fst kv) ++ 58 :: render (snd kv).

Lemma parse_members_render : forall (pv : list Z -> pres jv) m,
  Forall (fun kv => forallb scalarb (fst kv) = true /\
                    forall rest, followb rest = true -> pv (render (snd kv) ++ rest) = POk (snd kv) rest) m ->
  m <> [] -> forall n rest, (length m <= n)%nat ->
  parse_members pv n (join (map render_member m) ++ 125 :: rest) = POk m rest.
Proof.
  intros pv m HF. induction HF as [| [k v] m [Hk Hv] HF IH]; intros Hne n rest Hn; [contradiction |].
  destruct n as [| n]; [cbn in Hn; lia |]. cbn [length] in Hn. cbn [fst snd] in *.
  destruct m as [| kv2 m].
  - cbn [map join]. unfold render_member at 1. cbn [fst snd]. rewrite <- app_assoc. rewrite render_str_app.
    cbn [parse_members skip_ws]. change (is_ws 34) with false. cbn iota. change (34 =? 34) with true. cbn iota.
    rewrite parse_str_body by assumption. cbn [app skip_ws]. change (is_ws 58) with false. cbn iota.
    change (58 =? 58) with true. cbn iota. rewrite Hv by reflexivity.
    cbn [skip_ws]. change (is_ws 125) with false. cbn iota. reflexivity.
  - cbn [map]. rewrite join_cons2. unfold render_member at 1. cbn [fst snd]. rewrite <- !app_assoc. rewrite render_str_app.
    cbn [parse_members skip_ws]. change (is_ws 34) with false. cbn iota. change (34 =? 34) with true. cbn iota.
    rewrite parse_str_body by assumption. cbn [app skip_ws]. change (is_ws 58) with false. cbn iota.
    change (58 =? 58) with true. cbn iota. rewrite Hv by reflexivity.
    cbn [app skip_ws]. change (is_ws 44) with false. cbn iota. change (44 =? 44) with true. cbn iota.
    change (render_member kv2 :: map render_member m) with (map render_member (kv2 :: m)).
    rewrite IH; [reflexivity | discriminate | cbn [length] in *; lia].
Qed.

Lemma join_length : forall L : list (list Z), Forall (fun x => x <> []) L -> (length L <= length (join L))%nat.
Proof.
  induction L as [| x L IH]; intros H; [cbn; lia |].
  inversion H as [| ? ? Hx HL]; subst. specialize (IH HL).
  destruct L as [| y L].
  - cbn [join length]. destruct x; [contradiction | cbn [length]; lia].
  - rewrite join_cons2. rewrite app_length. cbn [length] in *. lia.
Qed.

Lemma render_nonempty : forall v, wf v = true -> render v <> [].
Proof.
  intros v H E. destruct (render_head v [] H) as (c & tl & E2 & _). rewrite app_nil_r in E2. congruence.
Qed.

Lemma fold_max_lt : forall (A : Type) (g : A -> nat) (l : list A) f,
  (fold_right (fun x a => Nat.max (g x) a) O l < f)%nat -> Forall (fun x => (g x < f)%nat) l.
Proof.
  induction l as [| x l IH]; intros f H; [constructor |].
  cbn [fold_right] in H. constructor; [lia | apply IH; lia].
Qed.

Lemma render_arr_app : forall l rest, render (JArr l) ++ rest = 91 :: join (map render l) ++ 93 :: rest.
Proof. intros. cbn [render app]. rewrite <- app_assoc. reflexivity. Qed.

Lemma render_obj_app : forall m rest, render (JObj m) ++ rest = 123 :: join (map render_member m) ++ 125 :: rest.
Proof. intros. cbn [render app]. rewrite <- app_assoc. reflexivity. Qed.

Lemma value_start_props : forall c, value_start c = true ->
  is_ws c = false /\ (c =? 93) = false /\ (c =? 125) = false.
Proof.
  intros c H. unfold value_start in H. apply andb_prop in H. destruct H as [H _].
  apply andb_prop in H. destruct H as [H H3]. apply andb_prop in H. destruct H as [H1 H2].
  apply negb_true_iff in H1, H2, H3. auto.
Qed.

Theorem parse_value_render : forall v, wf v = true ->
  forall fuel rest, (depth v < fuel)%nat -> followb rest = true ->
  parse_value fuel (render v ++ rest) = POk v rest.
Proof.
  induction v as [| b | t | s | l IH | m IH] using jv_ind'; intros Hwf fuel rest Hd Hf;
    (destruct fuel as [| f]; [lia |]).
  - reflexivity.
  - destruct b; reflexivity.
  - cbn [wf] in Hwf. cbn [render].
    destruct (render_num_head t rest Hwf) as (c & tl & E & Hc).
    rewrite E. rewrite parse_value_num_dispatch by assumption. rewrite <- E.
    rewrite parse_num_render by assumption. reflexivity.
  - cbn [wf] in Hwf. cbn [render]. rewrite render_str_app.
    cbn [parse_value skip_ws]. change (is_ws 34) with false. cbn iota.
    change (34 =? 123) with false. change (34 =? 91) with false. change (34 =? 34) with true. cbn iota.
    rewrite parse_str_body by assumption. reflexivity.
  - (* array *)
    rewrite render_arr_app. cbn [wf] in Hwf. cbn [depth] in Hd.
    destruct l as [| x l].
    + reflexivity.
    + assert (Hall : Forall (fun v => wf v = true /\
                forall rest, followb rest = true -> parse_value f (render v ++ rest) = POk v rest) (x :: l)).
      { apply Forall_forall. intros v Hin.
        rewrite Forall_forall in IH. rewrite forallb_forall in Hwf.
        assert (Hdf : Forall (fun x => (depth x < f)%nat) (x :: l)) by (apply fold_max_lt; lia).
        rewrite Forall_forall in Hdf.
        split; [apply Hwf; assumption |]. intros rest' Hf'. apply IH; auto. }
      remember (x :: l) as l' eqn:El'.
      assert (Hne : l' <> []) by (subst; discriminate).
      assert (exists c tl, join (map render l') ++ 93 :: rest = c :: tl /\ value_start c = true) as (c & tl & E & Hc).
      { subst l'. cbn [map]. destruct l as [| y l].
        - cbn [map join]. apply render_head. apply andb_prop in Hwf. tauto.
        - cbn [map]. rewrite join_cons2. rewrite <- app_assoc. apply render_head. apply andb_prop in Hwf. tauto. }
      destruct (value_start_props c Hc) as (Hw & H93 & _).
      cbn [parse_value skip_ws]. change (is_ws 91) with false. cbn iota.
      change (91 =? 123) with false. change (91 =? 91) with true. cbn iota.
      rewrite E. rewrite skip_ws_nows by assumption. rewrite H93. rewrite <- E.
      rewrite parse_elems_render; [reflexivity | assumption | assumption |].
      rewrite app_length.
      assert (length l' <= length (join (map render l')))%nat.
      { rewrite <- (map_length render l'). apply join_length. apply Forall_forall. intros r Hin.
        apply in_map_iff in Hin. destruct Hin as (v & <- & Hin). apply render_nonempty.
        rewrite forallb_forall in Hwf. auto. }
      lia.
  - (* object *)
    rewrite render_obj_app. cbn [wf] in Hwf. cbn [depth] in Hd.
    destruct m as [| kv m].
    + reflexivity.
    + assert (Hall : Forall (fun kv => forallb scalarb (fst kv) = true /\
                forall rest, followb rest = true -> parse_value f (render (snd kv) ++ rest) = POk (snd kv) rest) (kv :: m)).
      { apply Forall_forall. intros kv' Hin.
        rewrite Forall_forall in IH. rewrite forallb_forall in Hwf.
        assert (Hdf : Forall (fun kv => (depth (snd kv) < f)%nat) (kv :: m)) by (apply fold_max_lt; lia).
        rewrite Forall_forall in Hdf.
        specialize (Hwf kv' Hin). apply andb_prop in Hwf. destruct Hwf as [Hk Hv].
        split; [assumption |]. intros rest' Hf'. apply IH; auto. }
      remember (kv :: m) as m' eqn:Em'.
      assert (Hne : m' <> []) by (subst; discriminate).
      assert (exists tl, join (map render_member m') ++ 125 :: rest = 34 :: tl) as (tl & E).
      { subst m'. cbn [map]. destruct m as [| kv2 m].
        - cbn [map join]. unfold render_member. rewrite <- app_assoc. rewrite render_str_app. eexists; reflexivity.
        - cbn [map]. rewrite join_cons2. unfold render_member at 1. rewrite <- !app_assoc. rewrite render_str_app. eexists; reflexivity. }
      cbn [parse_value skip_ws]. change (is_ws 123) with false. cbn iota.
      change (123 =? 123) with true. cbn iota.
      rewrite E. cbn [skip_ws]. change (is_ws 34) with false. cbn iota. change (34 =? 125) with false. cbn iota.
      rewrite <- E.
      change (fun kv0 : list Z * jv => render_str (fst kv0) ++ 58 :: render (snd kv0)) with render_member.
      rewrite parse_members_render; [reflexivity | assumption | assumption |].
      rewrite app_length.
      assert (length m' <= length (join (map render_member m')))%nat.
      { rewrite <- (map_length render_member m'). apply join_length. apply Forall_forall. intros r Hin.
        apply in_map_iff in Hin. destruct Hin as (kv' & <- & Hin). unfold render_member, render_str. discriminate. }
      lia.
Qed.

Lemma join_ge : forall (L : list (list Z)) x, In x L -> (length x <= length (join L))%nat.
Proof.
  induction L as [| y L IH]; intros x Hin; [contradiction |].
  destruct L as [| z L].
  - destruct Hin as [-> | []]. cbn [join]. lia.
  - rewrite join_cons2. rewrite app_length. cbn [length].
    destruct Hin as [-> | Hin]; [lia |]. specialize (IH x Hin). lia.
Qed.

Lemma fold_max_le : forall (A : Type) (g : A -> nat) (l : list A) b,
  Forall (fun x => (g x <= b)%nat) l -> (fold_right (fun x a => Nat.max (g x) a) O l <= b)%nat.
Proof. induction 1; cbn [fold_right]; lia. Qed.

Lemma depth_le_length : forall v, (depth v <= length (render v))%nat.
Proof.
  induction v as [| b | t | s | l IH | m IH] using jv_ind'; try (cbn [depth]; lia).
  - cbn [depth render length]. rewrite app_length. cbn [length].
    assert (fold_right (fun x a => Nat.max (depth x) a) O l <= length (join (map render l)))%nat; [| lia].
    apply fold_max_le. rewrite Forall_forall in *. intros x Hin.
    specialize (IH x Hin). pose proof (join_ge (map render l) (render x) (in_map render l x Hin)). lia.
  - cbn [depth render length]. rewrite app_length. cbn [length].
    assert (fold_right (fun kv a => Nat.max (depth (snd kv)) a) O m
            <= length (join (map render_member m)))%nat; [| unfold render_member in *; lia].
    apply (fold_max_le _ (fun kv => depth (snd kv))). rewrite Forall_forall in *. intros kv Hin.
    specialize (IH kv Hin). pose proof (join_ge (map render_member m) (render_member kv) (in_map render_member m kv Hin)) as Hj.
    unfold render_member at 1 in Hj. rewrite app_length in Hj. cbn [length] in Hj. lia.
Qed.

Theorem parse_text_render : forall v, wf v = true -> parse_text (render v) = POk v [].
Proof.
  intros v H. unfold parse_text.
  pose proof (parse_value_render v H (S (length (render v))) []) as P.
  rewrite app_nil_r in P. rewrite P; [reflexivity | | reflexivity].
  pose proof (depth_le_length v). lia.
Qed.

Theorem parse_render : forall v, wf v = true -> parse (render v) = Some v.
Proof. intros v H. unfold parse. rewrite parse_text_render by assumption. reflexivity. Qed.

(* ---------------------------------------------------------------- the parser never runs out of fuel *)
Ltac break_match_hyp H :=
  match type of H with
  | context [match ?x with _ => _ end] => destruct x eqn:?
  | context [if ?x then _ else _] => destruct x eqn:?
  end.

Lemma skip_ws_length : forall s, (length (skip_ws s) <= length s)%nat.
Proof. induction s as [| c s IH]; cbn [skip_ws length]; [lia |]. destruct (is_ws c); cbn [length]; lia. Qed.

Lemma ocons_some : forall c o k r, ocons c o = Some (k, r) -> exists k', o = Some (k', r).
Proof. intros c [[l r0] |] k r H; cbn in H; [inversion H; subst; eauto | discriminate]. Qed.

Lemma parse_str_length_aux : forall n s, (length s <= n)%nat ->
  forall k r, parse_str s = Some (k, r) -> (length r < length s)%nat.
Proof.
  induction n as [| n IH]; intros s Hn k r H.
  - destruct s; [discriminate | cbn in Hn; lia].
  - destruct s as [| c s0]; [discriminate |]. cbn [parse_str] in H.
    repeat break_match_hyp H; try discriminate;
      try (inversion H; subst; cbn [length]; lia);
      (apply ocons_some in H; destruct H as [k' H]; apply IH in H; cbn [length] in *; lia).
Qed.

Lemma parse_str_length : forall s k r, parse_str s = Some (k, r) -> (length r < length s)%nat.
Proof. intros s k r H. exact (parse_str_length_aux (length s) s (le_n _) k r H). Qed.

Lemma span_digits_length : forall s ds r, span_digits s = (ds, r) -> (length r <= length s)%nat.
Proof.
  induction s as [| c s IH]; intros ds r H; cbn [span_digits] in H.
  - inversion H; subst; cbn; lia.
  - destruct (is_digit c).
    + destruct (span_digits s) as [ds' r'] eqn:E. inversion H; subst. specialize (IH _ _ eq_refl). cbn [length]. lia.
    + inversion H; subst. lia.
Qed.

Lemma parse_frac_length : forall s fs r, parse_frac s = Some (fs, r) -> (length r <= length s)%nat.
Proof.
  intros s fs r H. unfold parse_frac in H. destruct s as [| c s0]; [inversion H; subst; lia |].
  destruct (c =? 46).
  - destruct (span_digits s0) as [ds r'] eqn:E. apply span_digits_length in E.
    destruct ds; [discriminate |]. inversion H; subst. cbn [length]. lia.
  - inversion H; subst. lia.
Qed.

Lemma parse_exp_length : forall s ex r, parse_exp s = Some (ex, r) -> (length r <= length s)%nat.
Proof.
  intros s ex r H. unfold parse_exp in H. destruct s as [| c s0]; [inversion H; subst; lia |].
  destruct ((c =? 101) || (c =? 69)).
  - destruct (match s0 with
              | [] => ([], s0)
              | x :: r0 => if (x =? 43) || (x =? 45) then ([x], r0) else ([], s0)
              end) as [sg r1] eqn:E1.
    assert (length r1 <= length s0)%nat as L1.
    { destruct s0 as [| x r0]; [inversion E1; subst; lia |].
      destruct ((x =? 43) || (x =? 45)); inversion E1; subst; cbn [length]; lia. }
    destruct (span_digits r1) as [es r2] eqn:E2. apply span_digits_length in E2.
    destruct es; [discriminate |]. inversion H; subst. cbn [length]. lia.
  - inversion H; subst. lia.
Qed.

Lemma parse_num_length : forall s t r, parse_num s = Some (t, r) -> (length r <= length s)%nat.
Proof.
  intros s t r H. unfold parse_num in H.
  destruct (match s with
            | [] => (false, s)
            | c :: r0 => if c =? 45 then (true, r0) else (false, s)
            end) as [neg s1] eqn:E0.
  assert (length s1 <= length s)%nat as L0.
  { destruct s as [| c r0]; [inversion E0; subst; lia |]. destruct (c =? 45); inversion E0; subst; cbn [length]; lia. }
  destruct s1 as [| c r0]; [discriminate |].
  destruct (if c =? 48 then Some ([c], r0)
            else if is_digit19 c then (let (ds, r') := span_digits r0 in Some (c :: ds, r')) else None)
    as [[ds r1] |] eqn:E1; [| discriminate].
  assert (length r1 <= length r0)%nat as L1.
  { destruct (c =? 48); [inversion E1; subst; lia |]. destruct (is_digit19 c); [| discriminate].
    destruct (span_digits r0) as [ds' r'] eqn:E. apply span_digits_length in E. inversion E1; subst. lia. }
  destruct (parse_frac r1) as [[fs r2] |] eqn:E2; [| discriminate]. apply parse_frac_length in E2.
  destruct (parse_exp r2) as [[ex r3] |] eqn:E3; [| discriminate]. apply parse_exp_length in E3.
  inversion H; subst. cbn [length] in *. lia.
Qed.

Lemma strip_prefix_length : forall p s r, strip_prefix p s = Some r -> (length r <= length s)%nat.
Proof.
  induction p as [| a p IH]; intros s r H; cbn [strip_prefix] in H.
  - inversion H; subst; lia.
  - destruct s as [| b s0]; [discriminate |]. destruct (a =? b); [| discriminate].
    apply IH in H. cbn [length]. lia.
Qed.

Lemma pmap_fuel : forall (A B : Type) (f : A -> B) p, pmap f p = PFuel -> p = PFuel.
Proof. intros A B f [a r | |] H; cbn in H; [discriminate | discriminate | reflexivity]. Qed.

Lemma pmap_ok : forall (A B : Type) (f : A -> B) p b r, pmap f p = POk b r -> exists a, p = POk a r.
Proof. intros A B f [a r0 | |] b r H; cbn in H; [inversion H; subst; eauto | discriminate | discriminate]. Qed.

Lemma of_opt_fuel : forall (A : Type) (o : option (A * list Z)), of_opt o <> PFuel.
Proof. intros A [[a r] |]; cbn; discriminate. Qed.

Definition pv_ok (pv : list Z -> pres jv) (bound : nat) : Prop :=
  forall s, (length s <= bound)%nat ->
    pv s <> PFuel /\ forall v r, pv s = POk v r -> (length r <= length s)%nat.

Lemma parse_elems_fuel : forall pv n s, pv_ok pv (length s) -> (length s < n)%nat ->
  parse_elems pv n s <> PFuel /\ forall l r, parse_elems pv n s = POk l r -> (length r <= length s)%nat.
Proof.
  intros pv n. induction n as [| n IH]; intros s Hpv Hn; [lia |].
  cbn [parse_elems]. destruct (Hpv s (le_n _)) as [Hnf Hsh].
  destruct (pv s) as [v r | |] eqn:E; [| split; [discriminate | intros; discriminate] | contradiction].
  specialize (Hsh v r eq_refl). pose proof (skip_ws_length r) as Hws.
  destruct (skip_ws r) as [| c r'] eqn:Es; [split; [discriminate | intros; discriminate] |].
  cbn [length] in Hws.
  destruct (c =? 44).
  - assert (pv_ok pv (length r')) as Hpv' by (intros s' Hs'; apply Hpv; lia).
    destruct (IH r' Hpv' ltac:(lia)) as [Hf Hl]. split.
    + intros H. apply pmap_fuel in H. contradiction.
    + intros l r0 H. apply pmap_ok in H. destruct H as [a H]. apply Hl in H. lia.
  - destruct (c =? 93); split; try discriminate; intros l r0 H; inversion H; subst; lia.
Qed.

Lemma parse_members_fuel : forall pv n s, pv_ok pv (length s) -> (length s < n)%nat ->
  parse_members pv n s <> PFuel /\ forall l r, parse_members pv n s = POk l r -> (length r <= length s)%nat.
Proof.
  intros pv n. induction n as [| n IH]; intros s Hpv Hn; [lia |].
  cbn [parse_members]. pose proof (skip_ws_length s) as Hws0.
  destruct (skip_ws s) as [| c r] eqn:Es0; [split; [discriminate | intros; discriminate] |]. cbn [length] in Hws0.
  destruct (c =? 34); [| split; [discriminate | intros; discriminate]].
  destruct (parse_str r) as [[k r1] |] eqn:Ek; [| split; [discriminate | intros; discriminate]].
  apply parse_str_length in Ek. pose proof (skip_ws_length r1) as Hws1.
  destruct (skip_ws r1) as [| c2 r2] eqn:Es1; [split; [discriminate | intros; discriminate] |]. cbn [length] in Hws1.
  destruct (c2 =? 58); [| split; [discriminate | intros; discriminate]].
  destruct (Hpv r2 ltac:(lia)) as [Hnf Hsh].
  destruct (pv r2) as [v r3 | |] eqn:E; [| split; [discriminate | intros; discriminate] | contradiction].
  specialize (Hsh v r3 eq_refl). pose proof (skip_ws_length r3) as Hws3.
  destruct (skip_ws r3) as [| c3 r4] eqn:Es3; [split; [discriminate | intros; discriminate] |]. cbn [length] in Hws3.
  destruct (c3 =? 44).
  - assert (pv_ok pv (length r4)) as Hpv' by (intros s' Hs'; apply Hpv; lia).
    destruct (IH r4 Hpv' ltac:(lia)) as [Hf Hl]. split.
    + intros H. apply pmap_fuel in H. contradiction.
    + intros l r0 H. apply pmap_ok in H. destruct H as [a H]. apply Hl in H. lia.
  - destruct (c3 =? 125); split; try discriminate; intros l r0 H; inversion H; subst; lia.
Qed.

Lemma parse_value_fuel : forall f s, (length s < f)%nat ->
  parse_value f s <> PFuel /\ forall v r, parse_value f s = POk v r -> (length r <= length s)%nat.
Proof.
  induction f as [| f IH]; intros s Hs; [lia |].
  cbn [parse_value]. pose proof (skip_ws_length s) as Hws.
  destruct (skip_ws s) as [| c r] eqn:Es; [split; [discriminate | intros; discriminate] |]. cbn [length] in Hws.
  assert (pv_ok (parse_value f) (length r)) as Hpv by (intros s' Hs'; apply IH; lia).
  destruct (c =? 123).
  { pose proof (skip_ws_length r) as Hws1.
    destruct (skip_ws r) as [| c' r'] eqn:Es1; [split; [discriminate | intros; discriminate] |]. cbn [length] in Hws1.
    destruct (c' =? 125); [split; [discriminate | intros v r0 H; inversion H; subst; lia] |].
    destruct (parse_members_fuel (parse_value f) (S (length r)) r Hpv ltac:(lia)) as [Hf Hl]. split.
    - intros H. apply pmap_fuel in H. contradiction.
    - intros v r0 H. apply pmap_ok in H. destruct H as [a H]. apply Hl in H. lia. }
  destruct (c =? 91).
  { pose proof (skip_ws_length r) as Hws1.
    destruct (skip_ws r) as [| c' r'] eqn:Es1; [split; [discriminate | intros; discriminate] |]. cbn [length] in Hws1.
    destruct (c' =? 93); [split; [discriminate | intros v r0 H; inversion H; subst; lia] |].
    destruct (parse_elems_fuel (parse_value f) (S (length r)) r Hpv ltac:(lia)) as [Hf Hl]. split.
    - intros H. apply pmap_fuel in H. contradiction.
    - intros v r0 H. apply pmap_ok in H. destruct H as [a H]. apply Hl in H. lia. }
  destruct (c =? 34).
  { split; [intros H; apply pmap_fuel in H; exact (of_opt_fuel _ _ H) |].
    intros v r0 H. apply pmap_ok in H. destruct H as [a H].
    destruct (parse_str r) as [[k r1] |] eqn:E; [| discriminate]. apply parse_str_length in E. inversion H; subst. lia. }
  assert (forall (lit : list Z) (b : jv), 
     pmap (fun _ : unit => b) (of_opt (option_map (fun r1 => (tt, r1)) (strip_prefix lit (c :: r)))) <> PFuel /\
     forall v r0, pmap (fun _ : unit => b) (of_opt (option_map (fun r1 => (tt, r1)) (strip_prefix lit (c :: r)))) = POk v r0 ->
       (length r0 <= length s)%nat) as Hlit.
  { intros lit b. split; [intros H; apply pmap_fuel in H; exact (of_opt_fuel _ _ H) |].
    intros v r0 H. apply pmap_ok in H. destruct H as [a H].
    destruct (strip_prefix lit (c :: r)) as [r1 |] eqn:E; [| discriminate]. apply strip_prefix_length in E.
    cbn in H. inversion H; subst. cbn [length] in E. lia. }
  destruct (c =? 116); [apply Hlit |].
  destruct (c =? 102); [apply Hlit |].
  destruct (c =? 110); [apply Hlit |].
  split; [intros H; apply pmap_fuel in H; exact (of_opt_fuel _ _ H) |].
  intros v r0 H. apply pmap_ok in H. destruct H as [a H].
  destruct (parse_num (c :: r)) as [[t r1] |] eqn:E; [| discriminate]. apply parse_num_length in E.
  cbn in H. inversion H; subst. cbn [length] in E. lia.
Qed.

Theorem parse_text_never_out_of_fuel : forall s, parse_text s <> PFuel.
Proof.
  intros s. unfold parse_text.
  destruct (parse_value_fuel (S (length s)) s ltac:(lia)) as [H _].
  destruct (parse_value (S (length s)) s) as [v r | |]; [| discriminate | contradiction].
  destruct (skip_ws r); discriminate.
Qed.
