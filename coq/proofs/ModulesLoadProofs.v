(* ModulesLoadProofs.v — invariants of the import algorithm (repaired code):
   every module is entered at most once, an importer's own statements start only after all its imports have finished,
   and a run whose import relation has a cycle reachable from the main file never ends normally. *)
From Coq Require Import List ZArith Bool Arith Lia.
Import ListNotations.
From Zn.model Require Import Modules.
From Zn.proofs Require Import ModulesProofs ModulesDfsProofs.

(* ------------------------------------------------------------------ projections of the VM state *)

Fixpoint fin_of (tr : list ev) : list nat :=
  match tr with
  | [] => []
  | EDone id :: r => id :: fin_of r
  | _ :: r => fin_of r
  end.
Definition fin (st : vm) : list nat := fin_of (v_trace st).
Definition names (st : vm) : list name := map m_name (v_mods st).
Definition srcs (st : vm) : list (option source) := map m_src (v_mods st).
Definition nmods (st : vm) : nat := length (v_mods st).

Fixpoint find_name (l : list name) (n : name) (k : nat) : option nat :=
  match l with
  | [] => None
  | m :: r => if name_eqb m n then Some k else find_name r n (S k)
  end.

Lemma find_mod_from_names : forall ms n k, find_mod_from ms n k = find_name (map m_name ms) n k.
Proof. induction ms; intros; simpl; auto. destruct (name_eqb (m_name a) n); auto. Qed.

Lemma find_module_names : forall st n, find_module st n = find_name (names st) n 0.
Proof. intros. apply find_mod_from_names. Qed.

Lemma find_name_spec : forall l n k i, find_name l n k = Some i -> k <= i /\ i - k < length l /\ nth (i - k) l [] = n.
Proof.
  induction l as [|m r IH]; intros n k i H; simpl in H; [discriminate|].
  destruct (name_eqb m n) eqn:E.
  - inversion H; subst. apply name_eqb_eq in E. replace (i - i) with 0 by lia. simpl. repeat split; auto; lia.
  - apply IH in H. destruct H as (A & B & C). replace (i - k) with (S (i - S k)) by lia. simpl. repeat split; auto; lia.
Qed.

Lemma find_name_app : forall l l' n k,
  find_name (l ++ l') n k = match find_name l n k with Some i => Some i | None => find_name l' n (k + length l) end.
Proof.
  induction l as [|m r IH]; intros l' n k; simpl.
  - f_equal. lia.
  - destruct (name_eqb m n); auto. rewrite IH. destruct (find_name r n (S k)); auto. f_equal. lia.
Qed.

Lemma names_length : forall st, length (names st) = nmods st.
Proof. intros. unfold names, nmods. apply map_length. Qed.
Lemma srcs_length : forall st, length (srcs st) = nmods st.
Proof. intros. unfold srcs, nmods. apply map_length. Qed.

Lemma find_module_lt : forall st n b, find_module st n = Some b -> b < nmods st /\ nth b (names st) [] = n.
Proof.
  intros st n b H. rewrite find_module_names in H. apply find_name_spec in H.
  rewrite names_length in H. replace (b - 0) with b in H by lia. tauto.
Qed.

Definition is_custom (n : name) : bool := match fst (parse_lib_name n) with LibCustom => true | LibStd => false end.
Definition imports_of (s : source) : list name := filter is_custom (map i_name (s_imports s)).
Definition imports_of_id (ss : list (option source)) (u : nat) : list name :=
  match nth u ss None with Some s => imports_of s | None => [] end.

(* every EStart u in the trace is preceded (earlier = deeper in the list) by the EDone of each import of u *)
Fixpoint starts_ok (P : nat -> list ev -> Prop) (tr : list ev) : Prop :=
  match tr with
  | [] => True
  | e :: r => match e with EStart u => P u r | _ => True end /\ starts_ok P r
  end.

Lemma starts_ok_mono : forall (P Q : nat -> list ev -> Prop) tr,
  (forall u r, P u r -> Q u r) -> starts_ok P tr -> starts_ok Q tr.
Proof.
  intros P Q tr H. induction tr as [|e r IH]; simpl; auto. intros [A B]. split; auto. destruct e; auto.
Qed.

Definition start_pre (ns : list name) (ss : list (option source)) (u : nat) (r : list ev) : Prop :=
  u < length ss /\
  forall n, In n (imports_of_id ss u) -> exists b, find_name ns n 0 = Some b /\ In b (fin_of r).

Fixpoint chain (es : list (nat * nat)) (l : list nat) : Prop :=
  match l with
  | a :: r => match r with b :: _ => In (b, a) es | [] => True end /\ chain es r
  | [] => True
  end.

Definition top_of (l : list nat) : option nat := match l with [] => None | a :: _ => Some a end.

Lemma chain_path : forall es l top b, chain es (top :: l) -> In b l -> pathp es b top.
Proof.
  intros es l. induction l as [|c l IH]; intros top b Hc Hb; [contradiction|].
  simpl in Hc. destruct Hc as [Hct Hc]. destruct Hb as [Hb | Hb].
  - subst. apply pathp_one. auto.
  - eapply pathp_snoc; [apply IH; eauto | auto].
Qed.

Lemma chain_cons2 : forall es x y r, chain es (x :: y :: r) <-> In (y, x) es /\ chain es (y :: r).
Proof. intros. simpl. tauto. Qed.

Lemma chain_incl : forall es es' l, incl es es' -> chain es l -> chain es' l.
Proof.
  intros es es' l Hi. induction l as [|a r IH]; simpl; auto. intros [A B]. split; auto. destruct r; auto.
Qed.

Lemma topo_add_edge : forall es l a b, topo es l -> ~ In a l -> topo (es ++ [(a, b)]) l.
Proof.
  intros es l a b H. induction H; intros Ha.
  - constructor.
  - constructor; auto.
    + apply IHtopo. intros Hin. apply Ha. right. auto.
    + intros v Hv. apply in_app_or in Hv. destruct Hv as [Hv | [Hv | []]]; auto.
      inversion Hv; subst. exfalso. apply Ha. left. auto.
Qed.

Lemma topo_NoDup : forall es l, topo es l -> NoDup l.
Proof. intros es l H. induction H; constructor; auto. Qed.

Section Load.
  Variable fs : filesys.
  Variable libs : libraries.
  Variable ord_exports : list (name * value) -> list (name * value).
  Variable ord_nodes : list nat -> list nat.
  Hypothesis ord_nodes_perm : forall l x, In x (ord_nodes l) <-> In x l.
  Variable mainfile : path.

  (* the source behind a module name *)
  Definition src_of (n : name) : option source :=
    if name_eqb n main_module_name then fs_find fs mainfile
    else if is_custom n then fs_find fs (path_of_name n) else None.

  Record WFc (ns : list name) (ss : list (option source)) (es : list (nat * nat)) (cs : option nat)
             (fr : list nat) (tr : list ev) : Prop := {
    wf_len : length ss = length ns;
    wf_cs : cs = top_of fr;
    wf_topo : topo es (fin_of tr);
    wf_bound : forall u v, In (u, v) es -> u < length ns /\ v < length ns;
    wf_fin_lt : forall u, In u (fin_of tr) -> u < length ns;
    wf_part : forall u, u < length ns -> In u (fin_of tr) \/ In u fr;
    wf_chain : chain es fr;
    wf_src : forall u, u < length ns -> nth u ss None = src_of (nth u ns []);
    wf_imports : forall u, In u (fin_of tr) -> forall n, In n (imports_of_id ss u) ->
                   exists b, find_name ns n 0 = Some b /\ In (u, b) es;
    wf_starts : starts_ok (start_pre ns ss) tr;
    wf_main : find_name ns main_module_name 0 = Some 0
  }.

  Definition WF (st : vm) : Prop := WFc (names st) (srcs st) (v_edges st) (v_cs st) (v_frames st) (v_trace st).

  (* monotone growth of the state *)
  Record ext (st st' : vm) : Prop := {
    ext_names : exists more, names st' = names st ++ more;
    ext_srcs : exists more, srcs st' = srcs st ++ more;
    ext_edges : incl (v_edges st) (v_edges st');
    ext_fin : incl (fin st) (fin st')
  }.

  Lemma ext_refl : forall st, ext st st.
  Proof.
    intros st. constructor; try (exists []; rewrite app_nil_r; auto); try apply incl_refl.
  Qed.

  Lemma ext_nmods : forall st st', ext st st' -> nmods st <= nmods st'.
  Proof.
    intros st st' [[more H] _ _ _]. rewrite <- !names_length. rewrite H. rewrite app_length. lia.
  Qed.

  Lemma ext_trans : forall a b c, ext a b -> ext b c -> ext a c.
  Proof.
    intros a b c Hab Hbc.
    destruct Hab as [[m1 A1] [m2 A2] A3 A4]. destruct Hbc as [[n1 B1] [n2 B2] B3 B4].
    constructor.
    - exists (m1 ++ n1). rewrite B1, A1. rewrite app_assoc. auto.
    - exists (m2 ++ n2). rewrite B2, A2. rewrite app_assoc. auto.
    - eapply incl_tran; eauto.
    - eapply incl_tran; eauto.
  Qed.

  Lemma ext_find : forall st st' n b, ext st st' -> find_module st n = Some b -> find_module st' n = Some b.
  Proof.
    intros st st' n b [[more H] _ _ _] Hf. rewrite find_module_names in *. rewrite H. rewrite find_name_app. rewrite Hf. auto.
  Qed.

  Lemma ext_src : forall st st' u, ext st st' -> u < nmods st -> nth u (srcs st') None = nth u (srcs st) None.
  Proof.
    intros st st' u [_ [more H] _ _] Hu. rewrite H. apply app_nth1. rewrite srcs_length. auto.
  Qed.

  (* states that agree on everything the invariant mentions *)
  Definition same_sig (st st' : vm) : Prop :=
    names st' = names st /\ srcs st' = srcs st /\ v_edges st' = v_edges st /\ v_cs st' = v_cs st /\
    v_frames st' = v_frames st /\ v_trace st' = v_trace st.

  Lemma same_sig_refl : forall st, same_sig st st.
  Proof. intros. repeat split. Qed.

  Lemma same_sig_trans : forall a b c, same_sig a b -> same_sig b c -> same_sig a c.
  Proof. unfold same_sig. intros a b c (A1&A2&A3&A4&A5&A6) (B1&B2&B3&B4&B5&B6). repeat split; congruence. Qed.

  Lemma same_core_sig : forall st st', same_core st st' -> same_sig st st'.
  Proof. unfold same_core, same_sig, names, srcs. intros st st' (A1&A2&A3&A4&A5). rewrite A1. repeat split; auto. Qed.

  Lemma same_sig_WF : forall st st', same_sig st st' -> WF st -> WF st'.
  Proof. unfold same_sig, WF. intros st st' (A1&A2&A3&A4&A5&A6) H. rewrite A1, A2, A3, A4, A5, A6. auto. Qed.

  Lemma same_sig_ext : forall st st', same_sig st st' -> ext st st'.
  Proof.
    unfold same_sig. intros st st' (A1&A2&A3&A4&A5&A6). constructor.
    - exists []. rewrite app_nil_r. auto.
    - exists []. rewrite app_nil_r. auto.
    - rewrite A3. apply incl_refl.
    - unfold fin. rewrite A6. apply incl_refl.
  Qed.

  Lemma same_sig_nmods : forall st st', same_sig st st' -> nmods st' = nmods st.
  Proof. intros st st' (A1&_). rewrite <- !names_length. rewrite A1. auto. Qed.

  (* ---------------------------------------------------------------- statements never touch the module graph *)

  Definition marks_only (ms : list ev) : Prop := Forall (fun e => exists z, e = EMark z) ms.
  Definition cs_top (st : vm) : Prop := v_cs st = top_of (v_frames st).

  Definition body_rel (st st' : vm) : Prop :=
    v_mods st' = v_mods st /\ v_edges st' = v_edges st /\ v_cs st' = v_cs st /\ v_frames st' = v_frames st /\
    exists ms, v_trace st' = ms ++ v_trace st /\ marks_only ms.

  Lemma body_rel_refl : forall st, body_rel st st.
  Proof. intros. repeat split. exists []. split; auto. constructor. Qed.

  Lemma body_rel_trans : forall a b c, body_rel a b -> body_rel b c -> body_rel a c.
  Proof.
    unfold body_rel. intros a b c (A1&A2&A3&A4&m1&A5&A6) (B1&B2&B3&B4&m2&B5&B6).
    repeat split; try congruence. exists (m2 ++ m1). split.
    - rewrite B5, A5. rewrite app_assoc. auto.
    - apply Forall_app. auto.
  Qed.

  Lemma same_core_body : forall st st', same_core st st' -> body_rel st st'.
  Proof. unfold same_core, body_rel. intros st st' (A1&A2&A3&A4&A5). repeat split; auto. exists []. split; auto. constructor. Qed.

  Lemma push_frame_fields : forall st m,
    v_mods (push_frame st m) = v_mods st /\ v_edges (push_frame st m) = v_edges st /\
    v_trace (push_frame st m) = v_trace st /\ v_frames (push_frame st m) = m :: v_frames st /\
    v_cs (push_frame st m) = Some m.
  Proof. intros st m. unfold push_frame. destruct (has_scope_in _ m); simpl; repeat split. Qed.

  Lemma in_exec_block_inv : forall st this run r st',
    in_exec_block st this run = (r, st') ->
    exists sa sb, same_core st sa /\ run sa = (r, sb) /\ same_core sb st'.
  Proof.
    intros st this run r st' H. unfold in_exec_block in H.
    set (st1 := set_cur_scope st (begin_scope (cur_scope st))) in *.
    set (st2 := match this with
                | Some v => match declare st1 [27492%Z] v true None with Some s => s | None => st1 end
                | None => st1 end) in *.
    assert (C2 : same_core st st2).
    { unfold st2. destruct this as [v|]; [|apply set_cur_scope_core].
      destruct (declare st1 [27492%Z] v true None) eqn:E; [|apply set_cur_scope_core].
      apply declare_ok in E. destruct E as (C & _). eapply same_core_trans; [apply set_cur_scope_core | exact C]. }
    set (st3 := set_cur_scope st2 (begin_scope (cur_scope st2))) in *.
    destruct (run st3) as [r4 st4] eqn:E. inversion H; subst.
    exists st3, st4. split; [|split; auto].
    - eapply same_core_trans; [exact C2 | apply set_cur_scope_core].
    - apply set_cur_scope_core.
  Qed.

  Lemma call_frame_ok : forall (callee : vm -> list stmt -> res * vm) st m this body st2,
    (forall s ss s', cs_top s -> callee s ss = (Ok, s') -> body_rel s s') ->
    cs_top st ->
    in_exec_block (push_frame st m) this (fun s => callee s body) = (Ok, st2) ->
    body_rel st (pop_frame st2).
  Proof.
    intros callee st m this body st2 Hc Hcs H.
    apply in_exec_block_inv in H. destruct H as (sa & sb & C1 & Hrun & C2).
    destruct (push_frame_fields st m) as (P1 & P2 & P3 & P4 & P5).
    destruct C1 as (A1&A2&A3&A4&A5). destruct C2 as (B1&B2&B3&B4&B5).
    assert (Hcsa : cs_top sa). { unfold cs_top. rewrite A3, A4, P5, P4. reflexivity. }
    apply Hc in Hrun; auto. destruct Hrun as (R1&R2&R3&R4&ms&R5&R6).
    unfold body_rel, pop_frame. simpl.
    rewrite B4, R4, A4, P4. simpl.
    repeat split; try congruence.
    - unfold cs_top in Hcs. rewrite Hcs. destruct (v_frames st); reflexivity.
    - exists ms. split; auto. congruence.
  Qed.

  Lemma exec_stmt_ok : forall (callee : vm -> list stmt -> res * vm),
    (forall s ss s', cs_top s -> callee s ss = (Ok, s') -> body_rel s s') ->
    forall st s st', cs_top st -> exec_stmt_with callee st s = (Ok, st') -> body_rel st st'.
  Proof.
    intros callee Hc st s st' Hcs H. destruct s as [z | f | x | x | x | x c m | x f]; simpl in H.
    - inversion H; subst. unfold body_rel, emit. simpl. repeat split. exists [EMark z]. split; auto.
      constructor; [eexists; eauto | constructor].
    - destruct (find_with_module st f) as [[v m]|]; [|discriminate].
      destruct v as [h body | ? ? | ? ? | | ]; try discriminate.
      destruct (in_exec_block (push_frame st h) None (fun s => callee s body)) as [r st2] eqn:E.
      destruct r; inversion H; subst. eapply call_frame_ok; eauto.
    - destruct (find_element st x); inversion H; subst. apply body_rel_refl.
    - destruct (scope_set (sc_syms (cur_scope st)) x VNum); inversion H; subst.
      apply same_core_body. apply set_cur_scope_core.
    - destruct (declare st x VNum false None) eqn:E; inversion H; subst.
      apply declare_ok in E. apply same_core_body. tauto.
    - destruct (find_element st c) as [v|]; [|discriminate].
      destruct v; try discriminate.
      (* the constructor, if the type has one *)
      match type of H with (let '(_, _) := ?X in _) = _ => destruct X as [rc stc] eqn:Ec end.
      destruct rc; try (inversion H; fail).
      assert (Bc : body_rel st stc).
      { destruct (assoc_find methods CTOR) as [cbody|]; [|inversion Ec; subst; apply body_rel_refl].
        destruct (find_with_module st cn) as [[v0 hm0]|]; [|discriminate].
        destruct (in_exec_block (push_frame st hm0) (Some (VObj cn methods)) (fun s => callee s cbody)) as [r0 st20] eqn:E0.
        destruct r0; inversion Ec; subst. eapply call_frame_ok; eauto. }
      assert (Hcsc : cs_top stc).
      { unfold cs_top in *. destruct Bc as (_&_&C3&C4&_). rewrite C3, C4. auto. }
      destruct (declare stc x (VObj cn methods) false None) as [st0|] eqn:Ed; [|discriminate].
      apply declare_ok in Ed. destruct Ed as (C0 & _).
      destruct (find_with_module st0 cn) as [[v hm]|]; [|discriminate].
      destruct (assoc_find methods m) as [body|]; [|discriminate].
      destruct (in_exec_block (push_frame st0 hm) (Some (VObj cn methods)) (fun s => callee s body)) as [r st2] eqn:E.
      destruct r; inversion H; subst.
      eapply body_rel_trans; [exact Bc|].
      eapply body_rel_trans; [apply same_core_body; exact C0|].
      eapply call_frame_ok; eauto.
      unfold cs_top in *. destruct C0 as (_&_&C3&C4&_). rewrite C3, C4. auto.
    - destruct (find_element st f) as [v|]; [|discriminate].
      destruct (declare st x v false None) eqn:E; inversion H; subst.
      apply declare_ok in E. apply same_core_body. tauto.
  Qed.

  Lemma exec_stmts_ok : forall fuel st ss st', cs_top st -> exec_stmts fuel st ss = (Ok, st') -> body_rel st st'.
  Proof.
    induction fuel as [|f IH]; intros st ss st' Hcs H; simpl in H; [discriminate|].
    revert st Hcs H. induction ss as [|s r IHr]; intros st Hcs H.
    - inversion H; subst. apply body_rel_refl.
    - destruct (exec_stmt_with (exec_stmts f) st s) as [rs st1] eqn:E.
      destruct rs; try (inversion H; fail).
      assert (B1 : body_rel st st1) by (eapply exec_stmt_ok; eauto).
      eapply body_rel_trans; [exact B1|]. apply IHr; auto.
      unfold cs_top in *. destruct B1 as (_&_&C3&C4&_). rewrite C3, C4. auto.
  Qed.

  (* ---------------------------------------------------------------- the four steps of the import algorithm *)

  Lemma fin_of_marks : forall ms r, marks_only ms -> fin_of (ms ++ r) = fin_of r.
  Proof.
    intros ms r H. induction H as [|e ms [z He] _ IH]; simpl; auto. subst. simpl. auto.
  Qed.

  Lemma starts_ok_marks : forall P ms r, marks_only ms -> starts_ok P r -> starts_ok P (ms ++ r).
  Proof.
    intros P ms r H Hr. induction H as [|e ms [z He] _ IH]; simpl; auto. subst. split; auto.
  Qed.

  Lemma imports_of_id_app : forall ss more u, u < length ss -> imports_of_id (ss ++ more) u = imports_of_id ss u.
  Proof. intros. unfold imports_of_id. rewrite app_nth1; auto. Qed.

  Lemma start_pre_mono : forall ns ss n s u r, length ss = length ns ->
    start_pre ns ss u r -> start_pre (ns ++ [n]) (ss ++ [s]) u r.
  Proof.
    intros ns ss n s u r Hl [Hu H]. split.
    - rewrite app_length. simpl. lia.
    - intros m Hm. rewrite imports_of_id_app in Hm by auto. destruct (H m Hm) as (b & Hb & Hin).
      exists b. split; auto. rewrite find_name_app. rewrite Hb. auto.
  Qed.

  (* importing a module that has already finished: record the edge *)
  Lemma WFc_add_edge_fin : forall ns ss es cs a rest tr b,
    WFc ns ss es cs (a :: rest) tr -> ~ In a (fin_of tr) -> In b (fin_of tr) -> a < length ns ->
    WFc ns ss (es ++ [(a, b)]) cs (a :: rest) tr.
  Proof.
    intros ns ss es cs a rest tr b W Ha Hb Hlt. destruct W. constructor; auto.
    - apply topo_add_edge; auto.
    - intros u v H. apply in_app_or in H. destruct H as [H | [H | []]]; auto. inversion H; subst. split; auto.
    - eapply chain_incl; [|eauto]. apply incl_appl. apply incl_refl.
    - intros u Hu n Hn. destruct (wf_imports0 u Hu n Hn) as (c & Hc & Hin). exists c. split; auto. apply in_or_app. auto.
  Qed.

  (* a new module is registered and its frame pushed *)
  Lemma WFc_push_new : forall ns ss es cs a rest tr n s,
    WFc ns ss es cs (a :: rest) tr -> ~ In a (fin_of tr) -> a < length ns ->
    src_of n = s ->
    WFc (ns ++ [n]) (ss ++ [s]) (es ++ [(a, length ns)]) (Some (length ns)) (length ns :: a :: rest) tr.
  Proof.
    intros ns ss es cs a rest tr n s W Ha Hlt Hs. destruct W. constructor.
    - rewrite !app_length. simpl. lia.
    - reflexivity.
    - apply topo_add_edge; auto.
    - intros u v H. rewrite app_length. simpl. apply in_app_or in H. destruct H as [H | [H | []]].
      + apply wf_bound0 in H. lia.
      + inversion H; subst. lia.
    - intros u Hu. rewrite app_length. simpl. apply wf_fin_lt0 in Hu. lia.
    - intros u Hu. rewrite app_length in Hu. simpl in Hu.
      destruct (Nat.eq_dec u (length ns)) as [E | E].
      + subst. right. left. auto.
      + destruct (wf_part0 u) as [H | H]; [lia | auto |]. right. right. auto.
    - apply chain_cons2. split; [apply in_or_app; right; left; auto|].
      eapply chain_incl; [|exact wf_chain0]. apply incl_appl. apply incl_refl.
    - intros u Hu. rewrite app_length in Hu. simpl in Hu.
      destruct (Nat.eq_dec u (length ns)) as [E | E].
      + subst u. rewrite app_nth2 by lia. rewrite app_nth2 by lia. rewrite wf_len0. rewrite Nat.sub_diag. simpl. auto.
      + rewrite app_nth1 by lia. rewrite app_nth1 by lia. apply wf_src0. lia.
    - intros u Hu m Hm. pose proof (wf_fin_lt0 u Hu) as Hul.
      rewrite imports_of_id_app in Hm by lia. destruct (wf_imports0 u Hu m Hm) as (c & Hc & Hin).
      exists c. split; [rewrite find_name_app; rewrite Hc; auto | apply in_or_app; auto].
    - eapply starts_ok_mono; [|exact wf_starts0]. intros u r Hp. apply start_pre_mono; auto.
    - rewrite find_name_app. rewrite wf_main0. auto.
  Qed.

  (* the top module finishes: EStart, marker lines, EDone, and its frame is popped *)
  Lemma WFc_done_pop : forall ns ss es cs id rest tr ms,
    WFc ns ss es cs (id :: rest) tr -> ~ In id (fin_of tr) -> id < length ns ->
    (forall v, In (id, v) es -> In v (fin_of tr)) ->
    (forall n, In n (imports_of_id ss id) -> exists b, find_name ns n 0 = Some b /\ In (id, b) es /\ In b (fin_of tr)) ->
    marks_only ms ->
    WFc ns ss es (top_of rest) rest (EDone id :: ms ++ EStart id :: tr).
  Proof.
    intros ns ss es cs id rest tr ms W Hid Hlt Hout Himp Hms. destruct W.
    assert (Hfin : fin_of (EDone id :: ms ++ EStart id :: tr) = id :: fin_of tr).
    { simpl. rewrite fin_of_marks by auto. reflexivity. }
    constructor; auto; try rewrite Hfin.
    - constructor; auto.
    - intros u [Hu | Hu]; [subst; auto | auto].
    - intros u Hu. destruct (wf_part0 u Hu) as [H | [H | H]].
      + left. right. auto.
      + left. left. auto.
      + right. auto.
    - simpl in wf_chain0. tauto.
    - intros u [Hu | Hu] n Hn.
      + subst u. destruct (Himp n Hn) as (b & A & B & _). eauto.
      + eauto.
    - simpl. split; auto. apply starts_ok_marks; auto. simpl. split; auto.
      split; [rewrite wf_len0; auto|]. intros n Hn. destruct (Himp n Hn) as (b & A & _ & C). eauto.
  Qed.

  (* a library is registered for the first time (its exports are copied; no program runs) *)
  Lemma WFc_lib_new : forall ns ss es cs a rest tr n,
    WFc ns ss es cs (a :: rest) tr -> ~ In a (fin_of tr) -> a < length ns ->
    src_of n = None ->
    WFc (ns ++ [n]) (ss ++ [None]) (es ++ [(a, length ns)]) cs (a :: rest) (EDone (length ns) :: tr).
  Proof.
    intros ns ss es cs a rest tr n W Ha Hlt Hs. destruct W.
    assert (HN : ~ In (length ns) (fin_of tr)). { intros H. apply wf_fin_lt0 in H. lia. }
    constructor.
    - rewrite !app_length. simpl. lia.
    - auto.
    - simpl. constructor; auto.
      + apply topo_add_edge; auto.
      + intros v H. apply in_app_or in H. destruct H as [H | [H | []]].
        * apply wf_bound0 in H. lia.
        * inversion H; subst. lia.
    - intros u v H. rewrite app_length. simpl. apply in_app_or in H. destruct H as [H | [H | []]].
      + apply wf_bound0 in H. lia.
      + inversion H; subst. lia.
    - simpl. intros u [Hu | Hu]; rewrite app_length; simpl; [lia|]. apply wf_fin_lt0 in Hu. lia.
    - simpl. intros u Hu. rewrite app_length in Hu. simpl in Hu.
      destruct (Nat.eq_dec u (length ns)) as [E | E]; [left; left; auto|].
      destruct (wf_part0 u) as [H | H]; [lia | left; right; auto | right; auto].
    - eapply chain_incl; [|exact wf_chain0]. apply incl_appl. apply incl_refl.
    - intros u Hu. rewrite app_length in Hu. simpl in Hu.
      destruct (Nat.eq_dec u (length ns)) as [E | E].
      + subst u. rewrite app_nth2 by lia. rewrite app_nth2 by lia. rewrite wf_len0. rewrite Nat.sub_diag. simpl. auto.
      + rewrite app_nth1 by lia. rewrite app_nth1 by lia. apply wf_src0. lia.
    - simpl. intros u [Hu | Hu] m Hm.
      + subst u. unfold imports_of_id in Hm. rewrite app_nth2 in Hm by lia. rewrite wf_len0 in Hm.
        rewrite Nat.sub_diag in Hm. simpl in Hm. contradiction.
      + pose proof (wf_fin_lt0 u Hu) as Hul.
        rewrite imports_of_id_app in Hm by lia. destruct (wf_imports0 u Hu m Hm) as (c & Hc & Hin).
        exists c. split; [rewrite find_name_app; rewrite Hc; auto | apply in_or_app; auto].
    - simpl. split; auto. eapply starts_ok_mono; [|exact wf_starts0]. intros u r Hp. apply start_pre_mono; auto.
    - rewrite find_name_app. rewrite wf_main0. auto.
  Qed.

  (* ---------------------------------------------------------------- VM operations and the state signature *)

  Lemma upd_nth_map : forall A B (g : A -> B) (f : A -> A) l k,
    (forall a, g (f a) = g a) -> map g (upd_nth l k f) = map g l.
  Proof.
    intros A B g f l. induction l as [|a r IH]; intros k H; simpl; auto.
    destruct k; simpl; [rewrite H; auto | rewrite IH; auto].
  Qed.

  Lemma add_export_sig : forall st id x v st', add_export st id x v = Some st' -> same_sig st st'.
  Proof.
    intros st id x v st' H. unfold add_export in H.
    destruct (assoc_find (m_exports (get_mod st id)) x); [discriminate|]. inversion H; subst.
    unfold same_sig, names, srcs. simpl. rewrite !upd_nth_map by auto. repeat split.
  Qed.

  Lemma declare_defs_sig : forall ds st id r st', declare_defs st id ds = (r, st') -> same_sig st st'.
  Proof.
    induction ds as [|d ds IH]; intros st id r st' H; simpl in H.
    - inversion H; subst. apply same_sig_refl.
    - destruct (match d with DFun n body => (n, VFun id body) | DClass n ms => (n, VClass n ms) end) as [x v].
      destruct (declare st x v true None) as [st1|] eqn:E1; [|inversion H; subst; apply same_sig_refl].
      apply declare_ok in E1. destruct E1 as (C1 & _). apply same_core_sig in C1.
      destruct (add_export st1 id x v) as [st2|] eqn:E2; [|inversion H; subst; auto].
      apply add_export_sig in E2. apply IH in H.
      eapply same_sig_trans; [exact C1|]. eapply same_sig_trans; eauto.
  Qed.

  Lemma add_lib_exports_sig : forall l st id, same_sig st (add_lib_exports st id l).
  Proof.
    induction l as [|x l IH]; intros st id; simpl; [apply same_sig_refl|].
    destruct (add_export st id x VNative) as [s1|] eqn:E.
    - apply add_export_sig in E. eapply same_sig_trans; [exact E | apply IH].
    - apply IH.
  Qed.

  Lemma pop_frame_fields : forall st,
    v_mods (pop_frame st) = v_mods st /\ v_edges (pop_frame st) = v_edges st /\ v_trace (pop_frame st) = v_trace st /\
    v_frames (pop_frame st) = tl (v_frames st) /\ v_cs (pop_frame st) = top_of (tl (v_frames st)).
  Proof. intros st. unfold pop_frame. simpl. repeat split. Qed.

  Lemma allocate_new_fields : forall st n prog a,
    find_module st n = None -> v_cs st = Some a ->
    let st1 := fst (allocate_module st n prog) in
    snd (allocate_module st n prog) = nmods st /\
    names st1 = names st ++ [n] /\ srcs st1 = srcs st ++ [prog] /\
    v_edges st1 = v_edges st ++ [(a, nmods st)] /\ v_frames st1 = v_frames st /\ v_trace st1 = v_trace st.
  Proof.
    intros st n prog a Hf Hcs. unfold allocate_module. rewrite Hf. unfold add_module. rewrite Hcs. simpl.
    unfold names, srcs, nmods. simpl. rewrite !map_app. simpl. repeat split.
  Qed.

  Lemma main_is_custom : is_custom main_module_name = true.
  Proof. reflexivity. Qed.

  Lemma check_dependency_cycle : forall st n b,
    find_module st n = Some b -> has_cycle (v_edges st) ->
    check_dependency ord_nodes st n = Err E_CircularDependency.
  Proof.
    intros st n b Hf Hc. unfold check_dependency. rewrite Hf.
    apply (check_circular_iff_cycle ord_nodes (v_edges st) ord_nodes_perm) in Hc. rewrite Hc. auto.
  Qed.

  Lemma find_name_fresh : forall ns n, find_name ns n 0 = None -> find_name (ns ++ [n]) n 0 = Some (length ns).
  Proof.
    intros ns n H. rewrite find_name_app. rewrite H. simpl. rewrite name_eqb_refl. auto.
  Qed.

  (* ---------------------------------------------------------------- the main induction *)

  Definition outs_fin (a : nat) (st : vm) : Prop := forall v, In (a, v) (v_edges st) -> In v (fin st).
  Definition new_src (a : nat) (st st' : vm) : Prop :=
    forall u v, In (u, v) (v_edges st') -> In (u, v) (v_edges st) \/ u = a \/ nmods st <= u.
  Definition fin_new (st st' : vm) : Prop := forall u, In u (fin st') -> In u (fin st) \/ nmods st <= u.

  Definition prog_post (id : nat) (rest : list nat) (st st' : vm) : Prop :=
    WF (pop_frame st') /\ v_frames st' = id :: rest /\ ext st st' /\ In id (fin st') /\ new_src id st st' /\
    (forall u, In u (fin st') -> In u (fin st) \/ nmods st <= u \/ u = id).

  Definition P_prog (ld : nat -> source -> vm -> res * vm) : Prop :=
    forall id src st st' rest,
      WF st -> v_frames st = id :: rest -> ~ In id (fin st) -> id < nmods st ->
      nth id (srcs st) None = Some src -> outs_fin id st ->
      ld id src st = (Ok, st') -> prog_post id rest st st'.

  Definition imp_fact (a : nat) (st : vm) (n : name) : Prop :=
    exists b, find_module st n = Some b /\ In (a, b) (v_edges st) /\ In b (fin st).

  Definition imp_post (a : nat) (rest : list nat) (st st' : vm) : Prop :=
    WF st' /\ v_frames st' = a :: rest /\ ext st st' /\ outs_fin a st' /\ new_src a st st' /\ fin_new st st'.

  Lemma imp_fact_ext : forall a st st' n, ext st st' -> imp_fact a st n -> imp_fact a st' n.
  Proof.
    intros a st st' n E (b & A & B & C). exists b. split; [eapply ext_find; eauto|].
    split; [apply (ext_edges _ _ E); auto | apply (ext_fin _ _ E); auto].
  Qed.

  Lemma same_sig_imp_post : forall a rest st st1 st',
    imp_post a rest st st1 -> same_sig st1 st' -> imp_post a rest st st'.
  Proof.
    intros a rest st st1 st' (W & F & E & O & N & FN) S.
    pose proof S as (A1&A2&A3&A4&A5&A6).
    split; [eapply same_sig_WF; eauto|]. split; [congruence|].
    split; [eapply ext_trans; [exact E | apply same_sig_ext; auto]|].
    unfold outs_fin, new_src, fin_new, fin in *. rewrite A3, A6. auto.
  Qed.

  Lemma import_step : forall ld, P_prog ld -> forall a rest st imp st',
    WF st -> v_frames st = a :: rest -> ~ In a (fin st) -> a < nmods st -> outs_fin a st ->
    eval_import_with fs libs ord_exports ord_nodes ld st imp = (Ok, st') ->
    imp_post a rest st st' /\ (is_custom (i_name imp) = true -> imp_fact a st' (i_name imp)).
  Proof.
    intros ld HP a rest st imp st' W Hfr Ha Hlt Hout H.
    assert (Hcs : v_cs st = Some a). { destruct W. rewrite wf_cs0, Hfr. reflexivity. }
    unfold eval_import_with in H. set (n := i_name imp) in *.
    unfold is_custom. destruct (fst (parse_lib_name n)) eqn:Elt.
    - (* library *)
      split; [|discriminate].
      destruct (find_module st n) as [lid|] eqn:Ef.
      + unfold allocate_module in H. rewrite Ef in H.
        destruct (lib_find libs n) as [exps|]; [|discriminate].
        cbv beta iota zeta in H.
        match type of H with import_symbols _ ?s _ _ = _ => set (st4 := s) in * end.
        assert (S4 : same_sig st st4).
        { unfold st4. destruct (push_frame_fields st lid) as (P1&P2&P3&P4&P5).
          pose proof (add_lib_exports_sig exps (push_frame st lid) lid) as (B1&B2&B3&B4&B5&B6).
          destruct (pop_frame_fields (add_lib_exports (push_frame st lid) lid exps)) as (Q1&Q2&Q3&Q4&Q5).
          unfold same_sig, names, srcs in *.
          repeat split; try congruence.
          - rewrite Q5, B5, P4. simpl. rewrite Hfr, Hcs. reflexivity.
          - rewrite Q4, B5, P4. reflexivity. }
        assert (S5 : same_sig st4 st').
        { apply same_core_sig. eapply import_symbols_exact with (ord_exports := ord_exports); eauto. }
        apply same_sig_imp_post with (st1 := st); [|eapply same_sig_trans; [exact S4 | exact S5]].
        split; auto. split; auto. split; [apply ext_refl|]. split; auto.
        split; [intros u v Hu; auto | intros u Hu; auto].
      + destruct (allocate_module st n None) as [st1 id] eqn:Ea.
        pose proof (allocate_new_fields st n None a Ef Hcs) as Hal. rewrite Ea in Hal. simpl in Hal.
        destruct Hal as (Hid & N1 & N2 & N3 & N4 & N5). subst id.
        destruct (lib_find libs n) as [exps|]; [|discriminate].
        match type of H with import_symbols _ ?s _ _ = _ => set (st5 := s) in * end.
        assert (S5 : same_sig st5 st').
        { apply same_core_sig. eapply import_symbols_exact with (ord_exports := ord_exports); eauto. }
        assert (Hsrc : src_of n = None).
        { unfold src_of. destruct (name_eqb n main_module_name) eqn:En.
          - apply name_eqb_eq in En. rewrite En in Elt. discriminate.
          - unfold is_custom. rewrite Elt. auto. }
        destruct (push_frame_fields st1 (nmods st)) as (P1&P2&P3&P4&P5).
        pose proof (add_lib_exports_sig exps (push_frame st1 (nmods st)) (nmods st)) as (B1&B2&B3&B4&B5&B6).
        destruct (pop_frame_fields (add_lib_exports (push_frame st1 (nmods st)) (nmods st) exps)) as (Q1&Q2&Q3&Q4&Q5).
        assert (F5 : names st5 = names st ++ [n] /\ srcs st5 = srcs st ++ [None] /\
                     v_edges st5 = v_edges st ++ [(a, nmods st)] /\ v_cs st5 = v_cs st /\
                     v_frames st5 = a :: rest /\ v_trace st5 = EDone (nmods st) :: v_trace st).
        { unfold st5, emit, names, srcs in *. simpl. repeat split; try congruence.
          - rewrite B5, P4. simpl. rewrite N4, Hfr, Hcs. reflexivity.
          - rewrite B5, P4. simpl. rewrite N4, Hfr. reflexivity. }
        destruct F5 as (G1&G2&G3&G4&G5&G6).
        eapply same_sig_imp_post; [|exact S5].
        split.
        { unfold WF. rewrite G1, G2, G3, G4, G5, G6. rewrite <- names_length.
          apply WFc_lib_new; auto. - rewrite <- Hfr. exact W. - rewrite names_length. auto. }
        split; auto.
        split.
        { constructor.
          - exists [n]. auto.
          - exists [None]. auto.
          - rewrite G3. apply incl_appl. apply incl_refl.
          - unfold fin. rewrite G6. simpl. apply incl_tl. apply incl_refl. }
        split.
        { intros v Hv. unfold fin. rewrite G6. simpl. rewrite G3 in Hv. apply in_app_or in Hv.
          destruct Hv as [Hv | [Hv | []]]; [right; apply Hout; auto | inversion Hv; left; auto]. }
        split.
        { intros u v Hv. rewrite G3 in Hv. apply in_app_or in Hv.
          destruct Hv as [Hv | [Hv | []]]; [left; auto | inversion Hv; right; left; auto]. }
        { intros u Hu. unfold fin in Hu. rewrite G6 in Hu. simpl in Hu. destruct Hu as [Hu | Hu]; [right; lia | left; auto]. }
    - (* custom module *)
      destruct (find_module st n) as [b|] eqn:Ef.
      + (* already registered *)
        destruct (check_dependency ord_nodes (add_dependency st b) n) eqn:Ec; try discriminate.
        set (st1 := add_dependency st b) in *.
        assert (F1 : names st1 = names st /\ srcs st1 = srcs st /\ v_edges st1 = v_edges st ++ [(a, b)] /\
                     v_cs st1 = v_cs st /\ v_frames st1 = v_frames st /\ v_trace st1 = v_trace st).
        { unfold st1, add_dependency. rewrite Hcs. simpl. repeat split; auto. }
        destruct F1 as (G1&G2&G3&G4&G5&G6).
        pose proof (find_module_lt _ _ _ Ef) as [Hb _].
        assert (Hbfin : In b (fin st)).
        { destruct W. destruct (wf_part0 b) as [Hb1 | Hb1]; [rewrite names_length; auto | auto |].
          exfalso. rewrite Hfr in Hb1.
          assert (Hcyc : has_cycle (v_edges st1)).
          { rewrite G3. exists b. destruct Hb1 as [Hb1 | Hb1].
            - subst. apply pathp_one. apply in_or_app. right. left. auto.
            - eapply pathp_snoc.
              + eapply pathp_incl; [|eapply chain_path; [rewrite Hfr in wf_chain0; exact wf_chain0 | exact Hb1]].
                apply incl_appl. apply incl_refl.
              + apply in_or_app. right. left. auto. }
          assert (Hf1 : find_module st1 n = Some b). { rewrite find_module_names in *. rewrite G1. auto. }
          rewrite (check_dependency_cycle st1 n b Hf1 Hcyc) in Ec. discriminate. }
        assert (S5 : same_sig st1 st').
        { apply same_core_sig. eapply import_symbols_exact with (ord_exports := ord_exports); eauto. }
        assert (P1 : imp_post a rest st st1).
        { split.
          { unfold WF. rewrite G1, G2, G3, G4, G5, G6. rewrite Hfr. apply WFc_add_edge_fin; auto.
            - rewrite <- Hfr. exact W. - rewrite names_length. auto. }
          split; [congruence|].
          split.
          { constructor.
            - exists []. rewrite app_nil_r. auto.
            - exists []. rewrite app_nil_r. auto.
            - rewrite G3. apply incl_appl. apply incl_refl.
            - unfold fin. rewrite G6. apply incl_refl. }
          split.
          { intros v Hv. unfold fin. rewrite G6. rewrite G3 in Hv. apply in_app_or in Hv.
            destruct Hv as [Hv | [Hv | []]]; [apply Hout; auto | inversion Hv; subst; auto]. }
          split.
          { intros u v Hv. rewrite G3 in Hv. apply in_app_or in Hv.
            destruct Hv as [Hv | [Hv | []]]; [left; auto | inversion Hv; right; left; auto]. }
          { intros u Hu. unfold fin in *. rewrite G6 in Hu. left. auto. } }
        split; [eapply same_sig_imp_post; eauto|].
        intros _. apply imp_fact_ext with (st := st1); [apply same_sig_ext; auto|].
        exists b. split; [rewrite find_module_names in *; rewrite G1; auto|].
        split; [rewrite G3; apply in_or_app; right; left; auto | unfold fin; rewrite G6; auto].
      + (* first import: load the file *)
        destruct (fs_find fs (path_of_name n)) as [src|] eqn:Efs; [|discriminate].
        destruct (allocate_module st n (Some src)) as [st1 id] eqn:Ea.
        pose proof (allocate_new_fields st n (Some src) a Ef Hcs) as Hal. rewrite Ea in Hal. simpl in Hal.
        destruct Hal as (Hid & N1 & N2 & N3 & N4 & N5). subst id.
        set (N := nmods st) in *.
        destruct (ld N src (push_frame st1 N)) as [r st3] eqn:El.
        destruct r; try discriminate.
        destruct (check_dependency ord_nodes (pop_frame st3) n) eqn:Ec; try discriminate.
        set (st2 := push_frame st1 N) in *.
        destruct (push_frame_fields st1 N) as (P1&P2&P3&P4&P5). fold st2 in P1, P2, P3, P4, P5.
        assert (F2 : names st2 = names st ++ [n] /\ srcs st2 = srcs st ++ [Some src] /\
                     v_edges st2 = v_edges st ++ [(a, N)] /\ v_cs st2 = Some N /\
                     v_frames st2 = N :: a :: rest /\ v_trace st2 = v_trace st).
        { unfold names, srcs in *. rewrite P1, P2, P3, P4, P5. rewrite N4, Hfr. repeat split; auto. }
        destruct F2 as (G1&G2&G3&G4&G5&G6).
        assert (Hsrc : src_of n = Some src).
        { unfold src_of. destruct (name_eqb n main_module_name) eqn:En.
          - apply name_eqb_eq in En. destruct W. rewrite find_module_names in Ef. rewrite En in Ef. congruence.
          - unfold is_custom. rewrite Elt. auto. }
        assert (W2 : WF st2).
        { unfold WF. rewrite G1, G2, G3, G4, G5, G6. unfold N. rewrite <- names_length.
          apply WFc_push_new with (cs := v_cs st); auto. - rewrite <- Hfr. exact W. - rewrite names_length. auto. }
        assert (HN2 : nmods st2 = S N).
        { rewrite <- names_length. rewrite G1. rewrite app_length. rewrite names_length. simpl. unfold N. lia. }
        assert (HNfin : ~ In N (fin st2)).
        { unfold fin. rewrite G6. intros Hin. destruct W. apply wf_fin_lt0 in Hin. rewrite names_length in Hin. unfold N in Hin. lia. }
        assert (Hout2 : outs_fin N st2).
        { intros v Hv. exfalso. rewrite G3 in Hv. apply in_app_or in Hv. destruct Hv as [Hv | [Hv | []]].
          - destruct W. apply wf_bound0 in Hv. rewrite names_length in Hv. unfold N in Hv. lia.
          - inversion Hv. unfold N in *. lia. }
        assert (Hnth : nth N (srcs st2) None = Some src).
        { rewrite G2. rewrite app_nth2 by (rewrite srcs_length; unfold N; lia). rewrite srcs_length.
          unfold N. rewrite Nat.sub_diag. auto. }
        destruct (HP N src st2 st3 (a :: rest) W2 G5 HNfin ltac:(lia) Hnth Hout2 El) as (W4 & F3 & E23 & HNin & NS & FN).
        set (st4 := pop_frame st3) in *.
        destruct (pop_frame_fields st3) as (Q1&Q2&Q3&Q4&Q5). fold st4 in Q1, Q2, Q3, Q4, Q5.
        assert (S5 : same_sig st4 st').
        { apply same_core_sig. eapply import_symbols_exact with (ord_exports := ord_exports); eauto. }
        assert (E02 : ext st st2).
        { constructor.
          - exists [n]. auto.
          - exists [Some src]. auto.
          - rewrite G3. apply incl_appl. apply incl_refl.
          - unfold fin. rewrite G6. apply incl_refl. }
        assert (E34 : ext st3 st4).
        { constructor.
          - exists []. rewrite app_nil_r. unfold names. rewrite Q1. auto.
          - exists []. rewrite app_nil_r. unfold srcs. rewrite Q1. auto.
          - rewrite Q2. apply incl_refl.
          - unfold fin. rewrite Q3. apply incl_refl. }
        assert (E04 : ext st st4) by (eapply ext_trans; [exact E02 | eapply ext_trans; eauto]).
        assert (IP4 : imp_post a rest st st4).
        { split; auto.
          split; [rewrite Q4, F3; auto|].
          split; auto.
          split.
          { intros v Hv. unfold fin. rewrite Q3. rewrite Q2 in Hv. destruct (NS _ _ Hv) as [Hv2 | [Hv2 | Hv2]].
            - rewrite G3 in Hv2. apply in_app_or in Hv2. destruct Hv2 as [Hv2 | [Hv2 | []]].
              + apply (ext_fin _ _ E23). unfold fin at 1. rewrite G6. apply Hout. auto.
              + inversion Hv2; subst. auto.
            - unfold N in *. lia.
            - lia. }
          split.
          { intros u v Hv. rewrite Q2 in Hv. destruct (NS _ _ Hv) as [Hv2 | [Hv2 | Hv2]].
            - rewrite G3 in Hv2. apply in_app_or in Hv2. destruct Hv2 as [Hv2 | [Hv2 | []]]; [left; auto|].
              inversion Hv2; subst. right. left. auto.
            - right. right. unfold N in *. lia.
            - right. right. lia. }
          { intros u Hu. unfold fin in Hu. rewrite Q3 in Hu. destruct (FN u Hu) as [Hu2 | [Hu2 | Hu2]].
            - left. unfold fin in *. rewrite G6 in Hu2. auto.
            - right. lia.
            - right. unfold N in *. lia. } }
        split; [eapply same_sig_imp_post; eauto|].
        intros _. apply imp_fact_ext with (st := st4); [apply same_sig_ext; auto|].
        exists N. split.
        { eapply ext_find; [eapply ext_trans; [exact E23 | exact E34]|].
          rewrite find_module_names. rewrite G1. unfold N. rewrite <- names_length. apply find_name_fresh.
          rewrite <- find_module_names. auto. }
        split.
        { apply (ext_edges _ _ (ext_trans _ _ _ E23 E34)). rewrite G3. apply in_or_app. right. left. auto. }
        { unfold fin. rewrite Q3. auto. }
  Qed.

  (* ---------------------------------------------------------------- the import loop and the whole program of a module *)

  Lemma run_program_unfold : forall f id src st,
    run_program fs libs ord_exports ord_nodes (S f) id src st =
    let '(r, st1) := imports_loop fs libs ord_exports ord_nodes (run_program fs libs ord_exports ord_nodes f) st (s_imports src) in
    match r with
    | Ok => program_tail f id src st1
    | other => (other, st1)
    end.
  Proof. reflexivity. Qed.

  Lemma imp_post_refl : forall a rest st, WF st -> v_frames st = a :: rest -> outs_fin a st -> imp_post a rest st st.
  Proof.
    intros a rest st W F O. split; auto. split; auto. split; [apply ext_refl|]. split; auto.
    split; [intros u v H; auto | intros u H; auto].
  Qed.

  Lemma imp_post_trans : forall a rest st st1 st2,
    imp_post a rest st st1 -> imp_post a rest st1 st2 -> imp_post a rest st st2.
  Proof.
    intros a rest st st1 st2 (W1&F1&E1&O1&N1&FN1) (W2&F2&E2&O2&N2&FN2).
    pose proof (ext_nmods _ _ E1) as Hn.
    split; auto. split; auto. split; [eapply ext_trans; eauto|]. split; auto. split.
    - intros u v H. destruct (N2 u v H) as [H1 | [H1 | H1]]; [apply N1 in H1; tauto | auto | right; right; lia].
    - intros u H. destruct (FN2 u H) as [H1 | H1]; [apply FN1 in H1; tauto | right; lia].
  Qed.

  Lemma imports_loop_ok : forall ld, P_prog ld -> forall a rest l st st',
    WF st -> v_frames st = a :: rest -> ~ In a (fin st) -> a < nmods st -> outs_fin a st ->
    imports_loop fs libs ord_exports ord_nodes ld st l = (Ok, st') ->
    imp_post a rest st st' /\ (forall n, In n (filter is_custom (map i_name l)) -> imp_fact a st' n).
  Proof.
    intros ld HP a rest l. induction l as [|imp l IH]; intros st st' W F Ha Hlt O H; simpl in H.
    - inversion H; subst. split; [apply imp_post_refl; auto | intros n []].
    - destruct (eval_import_with fs libs ord_exports ord_nodes ld st imp) as [r st1] eqn:E.
      destruct r; try discriminate.
      destruct (import_step ld HP a rest st imp st1 W F Ha Hlt O E) as (P1 & Fact1).
      pose proof P1 as (W1&F1&E1&O1&N1&FN1).
      assert (Ha1 : ~ In a (fin st1)). { intros Hin. destruct (FN1 a Hin); [contradiction | lia]. }
      assert (Hlt1 : a < nmods st1). { pose proof (ext_nmods _ _ E1). lia. }
      destruct (IH st1 st' W1 F1 Ha1 Hlt1 O1 H) as (P2 & Fact2).
      split; [eapply imp_post_trans; eauto|].
      intros n Hn. simpl in Hn. destruct (is_custom (i_name imp)) eqn:Ec; [|auto].
      destruct Hn as [Hn | Hn]; [|auto]. subst n.
      destruct P2 as (_&_&E2&_). eapply imp_fact_ext; eauto.
  Qed.

  Lemma run_program_P : forall f, P_prog (run_program fs libs ord_exports ord_nodes f).
  Proof.
    induction f as [|f IHf]; intros id src st st' rest W F Hid Hlt Hsrc O H.
    - simpl in H. discriminate.
    - rewrite run_program_unfold in H.
      destruct (imports_loop fs libs ord_exports ord_nodes (run_program fs libs ord_exports ord_nodes f) st (s_imports src)) as [r st1] eqn:El.
      destruct r; try discriminate.
      destruct (imports_loop_ok _ IHf id rest _ _ _ W F Hid Hlt O El) as (P1 & Facts).
      destruct P1 as (W1&F1&E1&O1&N1&FN1).
      unfold program_tail in H.
      match type of H with context [declare_defs ?x ?y ?z] => destruct (declare_defs x y z) as [r2 st3] eqn:Ed end.
      destruct r2; try discriminate.
      match type of H with context [exec_stmts ?x ?y ?z] => destruct (exec_stmts x y z) as [r3 st5] eqn:Ee end.
      destruct r3; try discriminate.
      inversion H; subst st'; clear H.
      apply declare_defs_sig in Ed. destruct Ed as (D1&D2&D3&D4&D5&D6).
      assert (Hcs4 : cs_top (set_cur_scope st3 (begin_scope (cur_scope st3)))).
      { unfold cs_top. simpl. rewrite D4, D5. simpl. destruct W1. rewrite wf_cs0. reflexivity. }
      apply exec_stmts_ok in Ee; auto. destruct Ee as (B1&B2&B3&B4&ms&B5&B6).
      simpl in B1, B2, B3, B4, B5.
      assert (K1 : names st5 = names st1) by (unfold names in *; rewrite B1; simpl in D1; exact D1).
      assert (K2 : srcs st5 = srcs st1) by (unfold srcs in *; rewrite B1; simpl in D2; exact D2).
      assert (K3 : v_edges st5 = v_edges st1) by (rewrite B2; simpl in D3; exact D3).
      assert (K4 : v_frames st5 = id :: rest) by (rewrite B4; simpl in D5; rewrite D5; exact F1).
      assert (K5 : v_trace st5 = ms ++ EStart id :: v_trace st1) by (rewrite B5; simpl in D6; rewrite D6; reflexivity).
      assert (Hid1 : ~ In id (fin st1)). { intros Hin. destruct (FN1 id Hin); [contradiction | lia]. }
      pose proof (ext_nmods _ _ E1) as Hn1.
      assert (Hsrc1 : nth id (srcs st1) None = Some src). { rewrite (ext_src _ _ _ E1) by auto. auto. }
      set (st' := emit (set_cur_scope st5 (end_scope (end_scope (cur_scope st5)))) (EDone id)).
      assert (T1 : names st' = names st1) by (unfold st'; exact K1).
      assert (T2 : srcs st' = srcs st1) by (unfold st'; exact K2).
      assert (T3 : v_edges st' = v_edges st1) by (unfold st'; exact K3).
      assert (T4 : v_frames st' = id :: rest) by (unfold st'; exact K4).
      assert (T5 : v_trace st' = EDone id :: ms ++ EStart id :: v_trace st1) by (unfold st'; simpl; rewrite K5; reflexivity).
      assert (Tfin : fin st' = id :: fin st1).
      { unfold fin. rewrite T5. simpl. rewrite fin_of_marks by auto. reflexivity. }
      split.
      { destruct (pop_frame_fields st') as (Q1&Q2&Q3&Q4&Q5).
        unfold WF, names, srcs. rewrite Q1, Q2, Q3, Q4, Q5. fold (names st'). fold (srcs st').
        rewrite T1, T2, T3, T4, T5. simpl tl.
        apply WFc_done_pop with (cs := v_cs st1); auto.
        - rewrite <- F1. exact W1.
        - rewrite names_length. lia.
        - intros n Hn. unfold imports_of_id in Hn. rewrite Hsrc1 in Hn. unfold imports_of in Hn.
          destruct (Facts n Hn) as (b & A & B & C). exists b. rewrite <- find_module_names. auto. }
      split; auto.
      split.
      { destruct E1 as [[m1 A1] [m2 A2] A3 A4]. constructor.
        - exists m1. rewrite T1. auto.
        - exists m2. rewrite T2. auto.
        - rewrite T3. auto.
        - rewrite Tfin. apply incl_tl. auto. }
      split; [rewrite Tfin; left; auto|].
      split.
      { intros u v Hv. rewrite T3 in Hv. auto. }
      { intros u Hu. rewrite Tfin in Hu. destruct Hu as [Hu | Hu]; [auto|].
        destruct (FN1 u Hu); auto. }
  Qed.

  (* ---------------------------------------------------------------- whole runs *)

  Definition run := run_main fs libs ord_exports ord_nodes.

  Lemma run_ok_WF : forall fuel st', run fuel mainfile = (Ok, st') ->
    WF st' /\ v_frames st' = [] /\ In 0 (fin st').
  Proof.
    intros fuel st' H. unfold run, run_main in H.
    destruct (fs_find fs mainfile) as [src|] eqn:Efs; [|discriminate].
    change (allocate_module init_vm main_module_name (Some src))
      with (mkVM [mkMod main_module_name (Some src) []] [] (Some 0) [] [] [], 0) in H.
    cbv beta iota zeta in H.
    match type of H with context [run_program _ _ _ _ _ _ _ ?s] => set (st2 := s) in * end.
    destruct (run_program fs libs ord_exports ord_nodes fuel 0 src st2) as [r st3] eqn:Er.
    destruct r; try discriminate. inversion H; subst st'; clear H.
    destruct (push_frame_fields (mkVM [mkMod main_module_name (Some src) []] [] (Some 0) [] [] []) 0) as (P1&P2&P3&P4&P5).
    fold st2 in P1, P2, P3, P4, P5.
    assert (W2 : WF st2).
    { unfold WF, names, srcs. rewrite P1, P2, P3, P4, P5. simpl. constructor; simpl; auto.
      - constructor.
      - intros u v [].
      - intros u [].
      - intros u Hu. right. left. lia.
      - intros u Hu. assert (u = 0) by lia. subst. simpl. unfold src_of.
        rewrite name_eqb_refl. auto.
      - intros u []. }
    assert (Hpost : prog_post 0 [] st2 st3).
    { assert (A1 : ~ In 0 (fin st2)) by (unfold fin; rewrite P3; simpl; auto).
      assert (A2 : 0 < nmods st2) by (unfold nmods; rewrite P1; simpl; lia).
      assert (A3 : nth 0 (srcs st2) None = Some src) by (unfold srcs; rewrite P1; reflexivity).
      assert (A4 : outs_fin 0 st2) by (intros v Hv; rewrite P2 in Hv; contradiction).
      exact (run_program_P fuel 0 src st2 st3 [] W2 P4 A1 A2 A3 A4 Er). }
    destruct Hpost as (W3 & F3 & E3 & Hin & _).
    split; auto. destruct (pop_frame_fields st3) as (Q1&Q2&Q3&Q4&Q5).
    split; [rewrite Q4, F3; reflexivity | unfold fin; rewrite Q3; exact Hin].
  Qed.

  (* each module's program ends at most once, and no recorded edge ever closes a cycle among finished modules *)
  Theorem run_ok_nodup : forall fuel st', run fuel mainfile = (Ok, st') -> NoDup (fin st').
  Proof.
    intros fuel st' H. apply run_ok_WF in H. destruct H as (W & _). destruct W. eapply topo_NoDup; eauto.
  Qed.

  Lemma starts_ok_split : forall P l1 u l2, starts_ok P (l1 ++ EStart u :: l2) -> P u l2.
  Proof.
    intros P l1 u l2. induction l1 as [|e l1 IH]; simpl; intros [A B]; auto.
  Qed.

  Lemma fin_of_In : forall tr b, In b (fin_of tr) <-> In (EDone b) tr.
  Proof.
    induction tr as [|e tr IH]; intros b; simpl; [tauto|].
    destruct e; simpl; rewrite IH; split; intros H; auto;
      try (destruct H as [H | H]; [discriminate | auto]).
    - destruct H as [H | H]; [subst; auto | auto].
    - destruct H as [H | H]; [inversion H; auto | auto].
  Qed.

  Lemma srcs_nth : forall st u, nth u (srcs st) None = m_src (get_mod st u).
  Proof. intros st u. unfold srcs, get_mod. apply (map_nth m_src (v_mods st) (mkMod [] None []) u). Qed.

  (* a module's own definitions and statements start only after every module it imports has finished *)
  Theorem run_ok_imports_before_body : forall fuel st' l1 u l2 s n,
    run fuel mainfile = (Ok, st') ->
    v_trace st' = l1 ++ EStart u :: l2 ->
    m_src (get_mod st' u) = Some s -> In n (imports_of s) ->
    exists b, find_module st' n = Some b /\ In (EDone b) l2.
  Proof.
    intros fuel st' l1 u l2 s n H Htr Hs Hn. apply run_ok_WF in H. destruct H as (W & _). destruct W.
    rewrite Htr in wf_starts0. apply starts_ok_split in wf_starts0. destruct wf_starts0 as [_ Hp].
    destruct (Hp n) as (b & A & B).
    - unfold imports_of_id. rewrite srcs_nth, Hs. auto.
    - exists b. rewrite find_module_names. split; auto. apply fin_of_In. auto.
  Qed.

  (* ---- the import relation of the files *)
  Definition file_step (n m : name) : Prop := exists s, src_of n = Some s /\ In m (imports_of s).

  Inductive reach : name -> name -> Prop :=
  | reach_refl : forall n, reach n n
  | reach_step : forall n m k, reach n m -> file_step m k -> reach n k.

  Inductive fpath : name -> name -> Prop :=
  | fpath_one : forall n m, file_step n m -> fpath n m
  | fpath_step : forall n m k, file_step n m -> fpath m k -> fpath n k.

  Section Final.
    Variable st : vm.
    Hypothesis W : WF st.

    Lemma step_recorded : forall n b m, find_name (names st) n 0 = Some b -> In b (fin st) -> file_step n m ->
      exists b', find_name (names st) m 0 = Some b' /\ In (b, b') (v_edges st) /\ In b' (fin st).
    Proof.
      intros n b m Hf Hb (s & Hs & Hm). destruct W.
      apply find_name_spec in Hf as Hsp. destruct Hsp as (_ & Hlt & Hnth). replace (b - 0) with b in * by lia.
      assert (Hsrc : nth b (srcs st) None = Some s). { rewrite wf_src0 by auto. rewrite Hnth. auto. }
      destruct (wf_imports0 b Hb m) as (b' & A & B).
      - unfold imports_of_id. rewrite Hsrc. auto.
      - exists b'. split; auto. split; auto. eapply topo_closed; eauto.
    Qed.

    Lemma reach_registered : forall n, In 0 (fin st) -> reach main_module_name n ->
      exists b, find_name (names st) n 0 = Some b /\ In b (fin st).
    Proof.
      intros n H0 Hr. remember main_module_name as m0 eqn:Em. induction Hr.
      - subst. exists 0. split; auto. destruct W. auto.
      - destruct IHHr as (b & A & B); auto. destruct (step_recorded _ _ _ A B H) as (b' & A' & _ & B'). eauto.
    Qed.

    Lemma fpath_recorded : forall n m, fpath n m -> forall b, find_name (names st) n 0 = Some b -> In b (fin st) ->
      exists b', find_name (names st) m 0 = Some b' /\ In b' (fin st) /\ pathp (v_edges st) b b'.
    Proof.
      intros n m Hp. induction Hp; intros b Hf Hb.
      - destruct (step_recorded _ _ _ Hf Hb H) as (b' & A & B & C). exists b'. split; auto. split; auto. apply pathp_one. auto.
      - destruct (step_recorded _ _ _ Hf Hb H) as (b1 & A & B & C).
        destruct (IHHp b1 A C) as (b' & A' & C' & P'). exists b'. split; auto. split; auto. eapply pathp_step; eauto.
    Qed.
  End Final.

  (* a cycle of the import relation that is reachable from the main file is never accepted *)
  Theorem cycle_never_ok : forall fuel n,
    reach main_module_name n -> fpath n n -> fst (run fuel mainfile) <> Ok.
  Proof.
    intros fuel n Hr Hc Hok. destruct (run fuel mainfile) as [r st'] eqn:E. simpl in Hok. subst r.
    apply run_ok_WF in E. destruct E as (W & _ & H0).
    destruct (reach_registered st' W n H0 Hr) as (b & A & B).
    destruct (fpath_recorded st' W n n Hc b A B) as (b' & A' & _ & P).
    rewrite A in A'. inversion A'; subst b'.
    destruct W. eapply topo_acyclic; eauto.
  Qed.

  (* ---------------------------------------------------------------- facts that hold for every outcome (also failing runs) *)

  (* once a module name is registered, importing it never executes a program again *)
  Theorem registered_never_reloaded : forall ld1 ld2 st imp,
    find_module st (i_name imp) <> None ->
    eval_import_with fs libs ord_exports ord_nodes ld1 st imp = eval_import_with fs libs ord_exports ord_nodes ld2 st imp.
  Proof.
    intros ld1 ld2 st imp H. unfold eval_import_with.
    destruct (fst (parse_lib_name (i_name imp))); [reflexivity|].
    destruct (find_module st (i_name imp)); [reflexivity | contradiction].
  Qed.

  (* a failing import aborts the importer: no later import, definition or statement of it is executed *)
  Theorem failing_import_aborts : forall f id src st pre imp post st1 r st2,
    s_imports src = pre ++ imp :: post ->
    imports_loop fs libs ord_exports ord_nodes (run_program fs libs ord_exports ord_nodes f) st pre = (Ok, st1) ->
    eval_import_with fs libs ord_exports ord_nodes (run_program fs libs ord_exports ord_nodes f) st1 imp = (r, st2) ->
    r <> Ok ->
    run_program fs libs ord_exports ord_nodes (S f) id src st = (r, st2).
  Proof.
    intros f id src st pre imp post st1 r st2 Hs Hpre Himp Hr.
    rewrite run_program_unfold. rewrite Hs.
    assert (L : imports_loop fs libs ord_exports ord_nodes (run_program fs libs ord_exports ord_nodes f) st (pre ++ imp :: post) = (r, st2)).
    { clear Hs. revert st Hpre. induction pre as [|p pre IH]; intros st Hpre; simpl in *.
      - inversion Hpre; subst. rewrite Himp. destruct r; auto. contradiction.
      - destruct (eval_import_with fs libs ord_exports ord_nodes (run_program fs libs ord_exports ord_nodes f) st p) as [r0 s0].
        destruct r0; try discriminate. apply IH. auto. }
    rewrite L. destruct r; auto. contradiction.
  Qed.

  (* a failing module program makes the importing statement fail with the same result *)
  Theorem failing_module_aborts_importer : forall ld st imp src r st3,
    fst (parse_lib_name (i_name imp)) = LibCustom ->
    find_module st (i_name imp) = None ->
    fs_find fs (path_of_name (i_name imp)) = Some src ->
    ld (snd (allocate_module st (i_name imp) (Some src))) src
       (push_frame (fst (allocate_module st (i_name imp) (Some src))) (snd (allocate_module st (i_name imp) (Some src)))) = (r, st3) ->
    r <> Ok ->
    eval_import_with fs libs ord_exports ord_nodes ld st imp = (r, st3).
  Proof.
    intros ld st imp src r st3 H1 H2 H3 H4 Hr. unfold eval_import_with. rewrite H1, H2, H3.
    destruct (allocate_module st (i_name imp) (Some src)) as [s1 id]. simpl in H4. rewrite H4.
    destruct r; auto. contradiction.
  Qed.

  (* ---------------------------------------------------------------- an imported method runs in its home module *)

  Theorem home_lookup : forall st h x v,
    v_cs st = Some h ->
    assoc_find (m_exports (get_mod st h)) x = Some v ->
    (forall y, scope_lookup (sc_syms (cur_scope st)) x = Some y -> y_depth y = 0) ->
    find_with_module st x = Some (v, h).
  Proof.
    intros st h x v Hcs Hx Hloc. unfold find_with_module, cur_id. rewrite Hcs. rewrite Hx.
    destruct (scope_lookup (sc_syms (cur_scope st)) x) as [y|] eqn:E; auto.
    rewrite (Hloc y eq_refl). reflexivity.
  Qed.

  (* a method found under a name of the current scope (imported or a local variable: whatever [y_ext] is) runs on a
     frame of the module recorded in the method value itself *)
  Theorem method_call_frame : forall (callee : vm -> list stmt -> res * vm) st x y h body r st',
    scope_lookup (sc_syms (cur_scope st)) x = Some y ->
    y_val y = VFun h body ->
    assoc_find (m_exports (get_mod st (cur_id st))) x = None ->
    exec_stmt_with callee st (SCall x) = (r, st') ->
    exists sa sb r0, v_cs sa = Some h /\ v_mods sa = v_mods st /\ v_trace sa = v_trace st /\
                     callee sa body = (r0, sb) /\
                     r = match r0 with Ok => Ok | other => wrap_exc other end.
  Proof.
    intros callee st x y h body r st' Hl Hv Hown H. simpl in H. unfold find_with_module in H.
    rewrite Hl, Hown, Hv in H. destruct (Nat.eqb (y_depth y) 0); simpl in H;
    destruct (in_exec_block (push_frame st h) None (fun s => callee s body)) as [r0 st2] eqn:E;
    apply in_exec_block_inv in E; destruct E as (sa & sb & C1 & Hrun & C2);
    destruct (push_frame_fields st h) as (P1&P2&P3&P4&P5); destruct C1 as (A1&A2&A3&A4&A5);
    exists sa, sb, r0; (split; [congruence|]); (split; [congruence|]); (split; [congruence|]); (split; [auto|]);
    destruct r0; inversion H; auto.
  Qed.

  Theorem imported_call_frame : forall (callee : vm -> list stmt -> res * vm) st f y h body r st',
    scope_lookup (sc_syms (cur_scope st)) f = Some y ->
    y_ext y = Some h -> y_val y = VFun h body ->
    assoc_find (m_exports (get_mod st (cur_id st))) f = None ->
    exec_stmt_with callee st (SCall f) = (r, st') ->
    exists sa sb r0, v_cs sa = Some h /\ v_mods sa = v_mods st /\ v_trace sa = v_trace st /\
                     callee sa body = (r0, sb) /\
                     r = match r0 with Ok => Ok | other => wrap_exc other end.
  Proof.
    intros callee st f y h body r st' Hl He Hv Hown H.
    exact (method_call_frame callee st f y h body r st' Hl Hv Hown H).
  Qed.

  (* 令x = f binds x, as a plain local variable, to the very value the name f denotes; the module graph, the current
     module and the trace are untouched *)
  Theorem alias_binds : forall (callee : vm -> list stmt -> res * vm) st x f st',
    exec_stmt_with callee st (SAlias x f) = (Ok, st') ->
    exists v y, find_element st f = Some v /\
                scope_lookup (sc_syms (cur_scope st')) x = Some y /\
                y_val y = v /\ y_ext y = None /\ y_const y = false /\
                v_mods st' = v_mods st /\ v_cs st' = v_cs st /\ v_trace st' = v_trace st.
  Proof.
    intros callee st x f st' H. simpl in H.
    destruct (find_element st f) as [v|] eqn:Ef; [|discriminate].
    destruct (declare st x v false None) as [s1|] eqn:Ed; [|discriminate].
    inversion H; subst s1; clear H.
    apply declare_ok in Ed. destruct Ed as ((A1&A2&A3&A4&A5) & Hsc & _).
    exists v, (mkSym x (sc_depth (cur_scope st)) false v None).
    split; [reflexivity|]. split.
    - rewrite Hsc. simpl. rewrite name_eqb_refl. reflexivity.
    - repeat split; auto.
  Qed.

  (* 令x = f ; （x） where f denotes a method of module h (for instance an imported one): the body runs in h *)
  Theorem alias_call_frame : forall (callee : vm -> list stmt -> res * vm) st x f h body st1 r st',
    find_element st f = Some (VFun h body) ->
    assoc_find (m_exports (get_mod st (cur_id st))) x = None ->
    exec_stmt_with callee st (SAlias x f) = (Ok, st1) ->
    exec_stmt_with callee st1 (SCall x) = (r, st') ->
    exists sa sb r0, v_cs sa = Some h /\ v_mods sa = v_mods st /\ v_trace sa = v_trace st /\
                     callee sa body = (r0, sb) /\
                     r = match r0 with Ok => Ok | other => wrap_exc other end.
  Proof.
    intros callee st x f h body st1 r st' Hf Hown Ha Hc.
    destruct (alias_binds callee st x f st1 Ha) as (v & y & Hv & Hl & Hy & _ & _ & Hm & Hcs & Htr).
    rewrite Hf in Hv. injection Hv as Hv. rewrite <- Hv in Hy.
    assert (Hown1 : assoc_find (m_exports (get_mod st1 (cur_id st1))) x = None).
    { unfold get_mod, cur_id. rewrite Hm, Hcs. exact Hown. }
    destruct (method_call_frame callee st1 x y h body r st' Hl Hy Hown1 Hc) as (sa & sb & r0 & B1 & B2 & B3 & B4 & B5).
    exists sa, sb, r0. repeat split; congruence.
  Qed.
End Load.
