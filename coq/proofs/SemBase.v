(* SemBase.v — control-state relations and lemmas about the primitive operations of the evaluator model.
   "Control state" = call stack, block depth and the shape (name, depth, const) of the symbol stack. *)
From Coq Require Import List ZArith Bool Lia.
From Zn.lib Require Import Float64.
From Zn.model Require Import SemDefs Sem.
Import ListNotations.
Open Scope Z_scope.

(* ------------------------------------------------------------------ *)
(* what a finished block, call or handler may not change of a symbol: its name, depth, constness and — for a
   constant — its value (C06: constants and inputs are never reassigned) *)
Definition sym_shape (s : sym) : name * nat * bool * option val :=
  (s_name s, s_depth s, s_const s, if s_const s then Some (s_val s) else None).
Definition shape (st : state) : list (name * nat * bool * option val) := map sym_shape (syms st).
Definition sh_depth (t : name * nat * bool * option val) : nat := snd (fst (fst t)).

Definition frame_sim (f g : frame) : Prop := f_kind f = f_kind g /\ f_this f = f_this g.

(* well-formed control state: some frame is running; no symbol is deeper than the current block *)
Definition wf (st : state) : Prop :=
  stack st <> [] /\ Forall (fun s => (s_depth s <= depth st)%nat) (syms st).

(* symbols declared since [st] all belong to the block that was current in [st] *)
Definition ext_shape (st s1 : state) : Prop :=
  exists new, shape s1 = new ++ shape st /\ Forall (fun t => sh_depth t = depth st) new.

(* outcome relations *)
Definition R_ok_e (st s1 : state) : Prop :=      (* expression finished *)
  stack s1 = stack st /\ depth s1 = depth st /\ ext_shape st s1 /\ wf s1.

Definition R_ok_s (st s1 : state) : Prop :=      (* statement finished: top frame's ret/line may have changed *)
  (exists f f' tl, stack st = f :: tl /\ stack s1 = f' :: tl /\ frame_sim f' f) /\
  depth s1 = depth st /\ ext_shape st s1 /\ wf s1.

Definition R_er (st s1 : state) : Prop :=        (* error: frames of the failed calls stay above the caller's *)
  (exists extra f f' tl, stack st = f :: tl /\ stack s1 = extra ++ f' :: tl /\ frame_sim f' f) /\
  depth s1 = depth st /\ ext_shape st s1 /\ wf s1.

(* expressions never end with a loop signal (结束循环 / 继续循环 do not cross a call);
   a statement that ends with one has left no frame behind *)
Definition no_sig (e : err) : Prop := is_loop_signal e = None.
(* an expression that fails leaves the frames of the failed calls ON TOP of the caller's stack, which is otherwise
   untouched: in particular the frame that evaluated the expression keeps its line (C18) *)
Definition R_er_e (st s1 : state) : Prop :=
  (exists extra, stack s1 = extra ++ stack st) /\
  depth s1 = depth st /\ ext_shape st s1 /\ wf s1.

Definition bal_e {A} (st : state) (r : res A) : Prop :=
  wf st -> match r with Ok _ s1 => R_ok_e st s1 | Er e s1 => R_er_e st s1 /\ no_sig e | _ => True end.
Definition bal_s {A} (st : state) (r : res A) : Prop :=
  wf st -> match r with
           | Ok _ s1 => R_ok_s st s1
           | Er e s1 => R_er st s1 /\ (~ no_sig e -> R_ok_s st s1)
           | _ => True end.

(* ------------------------------------------------------------------ *)
(* basic facts *)

Lemma frame_sim_refl f : frame_sim f f.
Proof. split; reflexivity. Qed.
Lemma frame_sim_trans f g h : frame_sim f g -> frame_sim g h -> frame_sim f h.
Proof. intros [a b] [c d]; split; congruence. Qed.

Lemma ext_shape_refl st : ext_shape st st.
Proof. exists []. split; [reflexivity|constructor]. Qed.

Lemma ext_shape_trans a b c : depth b = depth a -> ext_shape a b -> ext_shape b c -> ext_shape a c.
Proof.
  intros Hd [n1 [H1 F1]] [n2 [H2 F2]]. exists (n2 ++ n1). split.
  - rewrite H2, H1, app_assoc. reflexivity.
  - apply Forall_app. split; [|exact F1]. rewrite Hd in F2. exact F2.
Qed.

Lemma R_ok_e_refl st : wf st -> R_ok_e st st.
Proof. intros H. repeat split; try reflexivity; try apply H. apply ext_shape_refl. Qed.

Lemma R_ok_e_s st s1 : wf st -> R_ok_e st s1 -> R_ok_s st s1.
Proof.
  intros [Hne _] (Hs & Hd & He & Hw). split; [|tauto].
  destruct (stack st) as [|f tl] eqn:E; [congruence|].
  exists f, f, tl. rewrite Hs. repeat split; reflexivity.
Qed.

Lemma R_ok_e_trans a b c : R_ok_e a b -> R_ok_e b c -> R_ok_e a c.
Proof.
  intros (S1 & D1 & E1 & W1) (S2 & D2 & E2 & W2). repeat split; try congruence; try apply W2.
  eapply ext_shape_trans; eauto.
Qed.

Lemma R_ok_s_trans a b c : R_ok_s a b -> R_ok_s b c -> R_ok_s a c.
Proof.
  intros ((f & f' & tl & Sa & Sb & F1) & D1 & E1 & W1) ((g & g' & tl2 & Sb2 & Sc & F2) & D2 & E2 & W2).
  rewrite Sb in Sb2. inversion Sb2; subst. split; [|repeat split; try congruence; try apply W2; eapply ext_shape_trans; eauto].
  exists f, g', tl2. repeat split; try assumption; try (eapply frame_sim_trans; [apply F2|apply F1]).
  all: destruct F1, F2; congruence.
Qed.

Lemma R_er_e_er a b : wf a -> R_er_e a b -> R_er a b.
Proof.
  intros [Hne _] ([ex Hs] & Hd & He & Hw). split; [|tauto].
  destruct (stack a) as [|f tl] eqn:E; [congruence|].
  exists ex, f, f, tl. repeat split; try reflexivity. exact Hs.
Qed.

Lemma R_ok_e_er_e a b c : R_ok_e a b -> R_er_e b c -> R_er_e a c.
Proof.
  intros (S1 & D1 & E1 & W1) ([ex S2] & D2 & E2 & W2).
  split; [exists ex; rewrite S2, S1; reflexivity|].
  repeat split; try congruence; try apply W2. eapply ext_shape_trans; eauto.
Qed.

Lemma R_wf_er_e a b : R_er_e a b -> wf b. Proof. intros (_ & _ & _ & W); exact W. Qed.

Lemma R_ok_s_er a b c : R_ok_s a b -> R_er b c -> R_er a c.
Proof.
  intros ((f & f' & tl & Sa & Sb & F1) & D1 & E1 & W1) ((ex & g & g' & tl2 & Sb2 & Sc & F2) & D2 & E2 & W2).
  rewrite Sb in Sb2. inversion Sb2; subst. split; [|repeat split; try congruence; try apply W2; eapply ext_shape_trans; eauto].
  exists ex, f, g', tl2. repeat split; try assumption; destruct F1, F2; congruence.
Qed.

Lemma R_ok_e_er a b c : wf a -> R_ok_e a b -> R_er b c -> R_er a c.
Proof. intros W H1 H2. eapply R_ok_s_er; [apply R_ok_e_s; eassumption|exact H2]. Qed.

Lemma R_ok_e_s_trans a b c : wf a -> R_ok_e a b -> R_ok_s b c -> R_ok_s a c.
Proof. intros W H1 H2. eapply R_ok_s_trans; [apply R_ok_e_s; eassumption|exact H2]. Qed.

Lemma R_ok_s_e_trans a b c : R_ok_s a b -> R_ok_e b c -> R_ok_s a c.
Proof.
  intros H1 H2. eapply R_ok_s_trans; [exact H1|]. apply R_ok_e_s; [|exact H2].
  destruct H1 as (_ & _ & _ & W). exact W.
Qed.

Lemma R_wf_ok_e a b : R_ok_e a b -> wf b. Proof. intros (_ & _ & _ & W); exact W. Qed.
Lemma R_wf_ok_s a b : R_ok_s a b -> wf b. Proof. intros (_ & _ & _ & W); exact W. Qed.
Lemma R_wf_er a b : R_er a b -> wf b. Proof. intros (_ & _ & _ & W); exact W. Qed.

(* bind rules *)
Lemma bal_e_bind {A B} st (r : res A) (f : A -> state -> res B) :
  bal_e st r -> (forall a s, R_ok_e st s -> bal_e s (f a s)) -> bal_e st (bind r f).
Proof.
  intros Hr Hf W. specialize (Hr W). destruct r as [a s|e s| |w]; simpl; try exact I; try exact Hr.
  specialize (Hf a s Hr (R_wf_ok_e _ _ Hr)).
  destruct (f a s) as [b s2|e s2| |w]; try exact I.
  - eapply R_ok_e_trans; eassumption.
  - destruct Hf as [Hf1 Hf2]. split; [eapply R_ok_e_er_e; eassumption|exact Hf2].
Qed.

Lemma bal_s_bind_e {A B} st (r : res A) (f : A -> state -> res B) :
  bal_e st r -> (forall a s, R_ok_e st s -> bal_s s (f a s)) -> bal_s st (bind r f).
Proof.
  intros Hr Hf W. specialize (Hr W). destruct r as [a s|e s| |w]; simpl; try exact I.
  2:{ destruct Hr as [Hr1 Hr2]. split; [apply R_er_e_er; assumption|]. intros Hn. exfalso. apply Hn. exact Hr2. }
  specialize (Hf a s Hr (R_wf_ok_e _ _ Hr)).
  destruct (f a s) as [b s2|e s2| |w]; try exact I.
  - eapply R_ok_e_s_trans; eassumption.
  - destruct Hf as [Hf1 Hf2]. split; [eapply R_ok_e_er; eassumption|].
    intros Hn. eapply R_ok_e_s_trans; [exact W|exact Hr|apply Hf2; exact Hn].
Qed.

Lemma bal_s_bind {A B} st (r : res A) (f : A -> state -> res B) :
  bal_s st r -> (forall a s, R_ok_s st s -> bal_s s (f a s)) -> bal_s st (bind r f).
Proof.
  intros Hr Hf W. specialize (Hr W). destruct r as [a s|e s| |w]; simpl; try exact I; try exact Hr.
  specialize (Hf a s Hr (R_wf_ok_s _ _ Hr)).
  destruct (f a s) as [b s2|e s2| |w]; try exact I.
  - eapply R_ok_s_trans; eassumption.
  - destruct Hf as [Hf1 Hf2]. split; [eapply R_ok_s_er; eassumption|].
    intros Hn. eapply R_ok_s_trans; [exact Hr|apply Hf2; exact Hn].
Qed.

Lemma bal_e_s {A} st (r : res A) : bal_e st r -> bal_s st r.
Proof.
  intros H W. specialize (H W). destruct r; try exact H.
  - apply R_ok_e_s; assumption.
  - destruct H as [H1 H2]. split; [apply R_er_e_er; assumption|]. intros Hn; exfalso; apply Hn; exact H2.
Qed.

(* ------------------------------------------------------------------ *)
(* operations that leave the control state alone *)

Definition ctl (st : state) := (stack st, depth st, syms st).

Lemma ctl_R_ok_e st s1 : wf st -> ctl s1 = ctl st -> R_ok_e st s1.
Proof.
  intros W H. unfold ctl in H. inversion H as [[Hs Hd Hy]].
  repeat split; try assumption.
  - exists []. unfold shape. rewrite Hy. split; [reflexivity|constructor].
  - rewrite Hs. apply W.
  - rewrite Hy, Hd. apply W.
Qed.

(* a result whose state has the control state of [st] *)
Definition pres {A} (st : state) (r : res A) : Prop :=
  match r with Ok _ s => ctl s = ctl st | Er e s => ctl s = ctl st /\ no_sig e | _ => True end.

Lemma R_er_of_ctl st s1 : wf st -> ctl s1 = ctl st -> R_er st s1.
Proof.
  intros W H. pose proof (ctl_R_ok_e st s1 W H) as (Hs & Hd & He & Hw).
  split; [|tauto]. destruct W as [Hne _]. destruct (stack st) as [|f tl] eqn:E; [congruence|].
  exists [], f, f, tl. rewrite Hs. repeat split; reflexivity.
Qed.

Lemma R_er_e_of_ctl st s1 : wf st -> ctl s1 = ctl st -> R_er_e st s1.
Proof.
  intros W H. pose proof (ctl_R_ok_e st s1 W H) as (Hs & Hd & He & Hw).
  split; [|tauto]. exists []. rewrite Hs. reflexivity.
Qed.

Lemma pres_bal_e {A} st (r : res A) : pres st r -> bal_e st r.
Proof.
  intros H W. destruct r; try exact I; simpl in H.
  - apply ctl_R_ok_e; assumption.
  - destruct H as [H1 H2]. split; [apply R_er_e_of_ctl; assumption|exact H2].
Qed.

Lemma pres_bind {A B} st (r : res A) (f : A -> state -> res B) :
  pres st r -> (forall a s, ctl s = ctl st -> pres s (f a s)) -> pres st (bind r f).
Proof.
  intros Hr Hf. destruct r as [a s|e s| |w]; simpl in *; try exact I; try exact Hr.
  specialize (Hf a s Hr). destruct (f a s) as [b s2|e2 s2| |w2]; simpl in *; try exact I.
  - congruence.
  - destruct Hf as [Hf1 Hf2]. split; [congruence|exact Hf2].
Qed.

Lemma ctl_set_heap st h : ctl (set_heap st h) = ctl st. Proof. reflexivity. Qed.
Lemma ctl_hset st l c : ctl (hset st l c) = ctl st. Proof. reflexivity. Qed.
Lemma ctl_alloc st c : ctl (snd (alloc st c)) = ctl st. Proof. reflexivity. Qed.
Lemma ctl_set_out st o : ctl (set_out st o) = ctl st. Proof. reflexivity. Qed.
Lemma ctl_set_funs st o : ctl (set_funs st o) = ctl st. Proof. reflexivity. Qed.
Lemma ctl_set_classes st o : ctl (set_classes st o) = ctl st. Proof. reflexivity. Qed.

Lemma pres_refl_ok {A} st (a : A) : pres st (Ok a st). Proof. reflexivity. Qed.
Lemma pres_refl_er {A} st c : pres st (@Er A (ERun c) st). Proof. split; reflexivity. Qed.

(* tactic: push [pres] through matches by case analysis *)
Ltac pres_crush :=
  repeat first
    [ progress (cbn [pres])
    | match goal with
      | |- pres _ (bind _ _) => apply pres_bind; [|intros ? ? ?]
      | |- pres _ (match ?x with _ => _ end) => destruct x eqn:?
      | |- pres _ (if ?x then _ else _) => destruct x eqn:?
      | |- pres _ (let (_, _) := ?x in _) => destruct x eqn:?
      | |- ctl _ = ctl _ /\ no_sig _ => split
      | |- no_sig _ => reflexivity
      | |- ctl _ = ctl _ => reflexivity
      | |- ctl _ = ctl _ => congruence
      | |- True => exact I
      end ].

(* ------------------------------------------------------------------ *)
(* duplication and comparison *)

Lemma map_state_inv {A B} (f : state -> A -> option (B * state)) (I : state -> state -> Prop) :
  (forall s, I s s) -> (forall a b c, I a b -> I b c -> I a c) ->
  (forall s x y s1, f s x = Some (y, s1) -> I s s1) ->
  forall l s ys s', map_state f s l = Some (ys, s') -> I s s'.
Proof.
  intros Hr Ht Hf. induction l as [|x tl IH]; intros s ys s' H; cbn in H.
  - inversion H; subst. apply Hr.
  - destruct (f s x) as [[y s1]|] eqn:E; [|discriminate].
    destruct (map_state f s1 tl) as [[ys' s2]|] eqn:E2; [|discriminate]. inversion H; subst.
    eapply Ht; [eapply Hf; exact E|eapply IH; exact E2].
Qed.

Lemma dup_ctl fuel : forall st v v' st', dup fuel st v = DOk v' st' -> ctl st' = ctl st.
Proof.
  induction fuel as [|k IH]; intros st v v' st' H; [discriminate|].
  cbn [dup] in H. destruct v; try (inversion H; subst; reflexivity).
  - destruct (hget st l) as [[items|?|? ?]|] eqn:Hg; try (inversion H; subst; reflexivity).
    destruct (map_state _ st items) as [[items' s1]|] eqn:Hm; [|discriminate].
    unfold alloc in H. inversion H; subst. rewrite ctl_set_heap.
    apply (map_state_inv _ (fun a b => ctl b = ctl a)) in Hm; [exact Hm|reflexivity|intros; congruence|].
    intros s x y sx Hf. destruct (dup k s x) eqn:Hd; [|discriminate]. inversion Hf; subst. eapply IH; eassumption.
  - destruct (hget st l) as [[?|kvs|? ?]|] eqn:Hg; try (inversion H; subst; reflexivity).
    destruct (map_state _ st kvs) as [[kvs' s1]|] eqn:Hm; [|discriminate].
    unfold alloc in H. inversion H; subst. rewrite ctl_set_heap.
    apply (map_state_inv _ (fun a b => ctl b = ctl a)) in Hm; [exact Hm|reflexivity|intros; congruence|].
    intros s x y sx Hf. destruct (dup k s (snd x)) eqn:Hd; [|discriminate]. inversion Hf; subst. eapply IH; eassumption.
Qed.

Lemma pres_dup_res fuel st v : pres st (dup_res fuel st v).
Proof.
  unfold dup_res. destruct (dup fuel st v) eqn:H; [|exact I]. simpl. eapply dup_ctl; eassumption.
Qed.

Lemma pres_xeq_res fuel st a b : pres st (xeq_res fuel st a b).
Proof. unfold xeq_res. pres_crush. Qed.

Ltac pd := first [exact I | reflexivity | split; reflexivity | assumption].

Lemma pres_find_eq fuel st : forall items v i, pres st (find_eq fuel st items v i).
Proof.
  induction items as [|x tl IH]; intros v i; simpl; [reflexivity|].
  destruct (xeq fuel (heap st) x v) as [| |c|]; try pd; try apply IH.
  destruct (c =? UNMODELLED); pd.
Qed.

(* ------------------------------------------------------------------ *)
(* built-in members *)

Lemma pres_detach fuel st c v : pres st (detach fuel st c v).
Proof. unfold detach. destruct (reaches fuel (heap st) v c); [apply pres_dup_res|reflexivity]. Qed.

Lemma pres_detach_all fuel c : forall items st, pres st (detach_all fuel st c items).
Proof.
  induction items as [|x tl IH]; intros st; cbn [detach_all]; [reflexivity|].
  apply pres_bind; [apply pres_detach|]. intros x' s1 H1.
  apply pres_bind; [apply IH|]. intros tl' s2 H2. reflexivity.
Qed.

Lemma pres_num_method st b m args : pres st (num_method st b m args).
Proof.
  unfold num_method. destruct ((m =? M_INC) || (m =? M_DEC)); [|cbn [pres]; pd].
  destruct args as [|v [|? ?]]; try (destruct v); cbn [pres]; pd.
Qed.

Lemma pres_list_method fuel st l items m args : pres st (list_method fuel st l items m args).
Proof.
  unfold list_method.
  repeat match goal with
         | |- pres _ (if (m =? ?c) then _ else _) => destruct (m =? c) eqn:?
         | |- pres _ (if ((m =? ?c) || (m =? ?d)) then _ else _) => destruct ((m =? c) || (m =? d)) eqn:?
         end.
  - destruct args as [|v [|? ?]]; try pd. apply pres_bind; [apply pres_detach|]. intros; reflexivity.
  - destruct args as [|v [|? ?]]; try pd. apply pres_bind; [apply pres_detach|]. intros; reflexivity.
  - destruct args as [|v [|i [|? ?]]]; try pd. destruct (negb (is_num i)); [pd|].
    apply pres_bind; [apply pres_detach|]. intros v' s1 H1.
    destruct (insert_array items (to_int (num_bits i)) v'); [reflexivity|exact I].
  - destruct items; cbn [pres]; reflexivity.
  - destruct (rev items); cbn [pres]; reflexivity.
  - destruct (negb (forallb _ args)); [pd|].
    match goal with |- context [?g args []] => destruct (g args []) as [extra|] end; [|exact I].
    apply pres_bind; [apply pres_detach_all|]. intros extra' s0 H0. unfold alloc. reflexivity.
  - destruct args as [|a [|b [|? ?]]]; try pd.
    destruct (negb (is_num a) || negb (is_num b)); [pd|].
    match goal with |- pres _ (if ?c then _ else _) => destruct c end; [pd|].
    destruct (nth_val items _); [|exact I]. destruct (nth_val items _); [|exact I]. cbn [pres]. reflexivity.
  - destruct args as [|v [|? ?]]; try pd.
    apply pres_bind; [apply pres_find_eq|]. intros; reflexivity.
  - destruct args as [|v [|? ?]]; try pd.
    apply pres_bind; [apply pres_find_eq|]. intros; reflexivity.
  - pd.
Qed.

Lemma pres_dict_method fuel st l kvs m args : pres st (dict_method fuel st l kvs m args).
Proof.
  unfold dict_method.
  repeat match goal with
         | |- pres _ (if (m =? ?c) then _ else _) => destruct (m =? c) eqn:?
         end.
  - destruct args as [|a [|b [|? ?]]]; try pd; destruct a; try pd.
    apply pres_bind; [apply pres_detach|]. intros; reflexivity.
  - destruct args as [|a [|? ?]]; try pd; destruct a; try pd.
    destruct (assoc_str s kvs); cbn [pres]; reflexivity.
  - destruct (negb (forallb _ args)); [pd|].
    match goal with |- pres _ (?g args (VDict l)) => set (go := g) end.
    assert (H : forall a cur, pres st (go a cur)).
    { induction a as [|x tl IH]; intros cur; simpl; [reflexivity|].
      destruct x; try exact I. destruct cur; try pd.
      destruct (hget st l0) as [[?|ckvs|? ?]|]; try exact I.
      destruct (assoc_str s ckvs); [apply IH|pd]. }
    apply H.
  - pd.
Qed.

Lemma pres_get_property st root m : pres st (get_property st root m).
Proof. unfold get_property, alloc. pres_crush. Qed.

Lemma pres_set_property st root m v : pres st (set_property st root m v).
Proof. unfold set_property. pres_crush. Qed.

Lemma pres_index_get st root idx : pres st (index_get st root idx).
Proof. unfold index_get. pres_crush. Qed.

Lemma pres_index_set st root idx v : pres st (index_set st root idx v).
Proof. unfold index_set. pres_crush. Qed.

Lemma pres_arith_op st op a b : pres st (arith_op st op a b).
Proof. unfold arith_op. pres_crush. Qed.

Lemma pres_order_op st op a b : pres st (order_op st op a b).
Proof. unfold order_op. pres_crush. Qed.

Lemma pres_compare_op fuel st op a b : pres st (compare_op fuel st op a b).
Proof.
  unfold compare_op. destruct op; try apply pres_order_op;
  (apply pres_bind; [apply pres_xeq_res|intros; reflexivity]).
Qed.

Lemma pres_vm_find st x : pres st (vm_find st x).
Proof. unfold vm_find. pres_crush. Qed.

(* ------------------------------------------------------------------ *)
(* symbol-stack operations *)

Lemma set_sym_shape x v : forall ss ss', set_sym x v ss = Some (Some ss') -> map sym_shape ss' = map sym_shape ss.
Proof.
  induction ss as [|s tl IH]; intros ss' H; simpl in H; [discriminate|].
  destruct (s_name s =? x) eqn:E.
  - destruct (s_const s) eqn:C; [discriminate|]. inversion H; subst. simpl. unfold sym_shape at 1 3. simpl.
    rewrite C. f_equal. f_equal. f_equal. f_equal. lia.
  - destruct (set_sym x v tl) as [[tl'|]|] eqn:R; try discriminate. inversion H; subst.
    simpl. f_equal. apply IH. reflexivity.
Qed.

Lemma set_sym_depths x v (P : nat -> Prop) : forall ss ss', set_sym x v ss = Some (Some ss') ->
  Forall (fun s => P (s_depth s)) ss -> Forall (fun s => P (s_depth s)) ss'.
Proof.
  induction ss as [|s tl IH]; intros ss' H F; simpl in H; [discriminate|].
  inversion F; subst.
  destruct (s_name s =? x).
  - destruct (s_const s); [discriminate|]. inversion H; subst. constructor; assumption.
  - destruct (set_sym x v tl) as [[tl'|]|] eqn:R; try discriminate. inversion H; subst.
    constructor; [assumption|]. apply IH; [reflexivity|assumption].
Qed.

Lemma bal_e_vm_set st x v : bal_e st (vm_set st x v).
Proof.
  intros W. unfold vm_set. destruct (set_sym x v (syms st)) as [[ss|]|] eqn:H.
  - repeat split; try reflexivity.
    + exists []. unfold shape. simpl. split; [apply (set_sym_shape _ _ _ _ H)|constructor].
    + apply W.
    + cbn [syms depth set_syms].
      apply (set_sym_depths x v (fun d => (d <= depth st)%nat) _ _ H). apply W.
  - split; [apply R_er_e_of_ctl; [assumption|reflexivity]|reflexivity].
  - split; [apply R_er_e_of_ctl; [assumption|reflexivity]|reflexivity].
Qed.

Lemma bal_e_vm_declare st x v c : bal_e st (vm_declare st x v c).
Proof.
  intros W. unfold vm_declare.
  destruct (is_global x); [split; [apply R_er_e_of_ctl; [assumption|reflexivity]|reflexivity]|].
  destruct (redeclared x (depth st) (syms st)); [split; [apply R_er_e_of_ctl; [assumption|reflexivity]|reflexivity]|].
  repeat split; try reflexivity.
  - exists [(x, depth st, c, if c then Some v else None)]. split; [reflexivity|]. constructor; [reflexivity|constructor].
  - apply W.
  - cbn [syms depth set_syms]. constructor; [cbn [s_depth]; lia|apply W].
Qed.

Lemma pop_deeper_spec d : forall (new old : list sym),
  Forall (fun s => (d < s_depth s)%nat) new -> Forall (fun s => (s_depth s <= d)%nat) old ->
  pop_deeper d (new ++ old) = old.
Proof.
  induction new as [|s tl IH]; intros old Fn Fo; simpl.
  - destruct old as [|o ot]; [reflexivity|]. inversion Fo; subst. simpl.
    destruct (d <? s_depth o)%nat eqn:E; [apply Nat.ltb_lt in E; lia|reflexivity].
  - inversion Fn; subst. destruct (d <? s_depth s)%nat eqn:E; [apply IH; assumption|].
    apply Nat.ltb_ge in E. lia.
Qed.

(* a block: begin_scope, then anything that only adds symbols of the inner depth, then end_scope *)
Lemma end_scope_restores st s1 :
  wf st ->
  depth s1 = S (depth st) ->
  (exists new, shape s1 = new ++ shape st /\ Forall (fun t => sh_depth t = S (depth st)) new) ->
  shape (end_scope s1) = shape st /\ depth (end_scope s1) = depth st /\
  Forall (fun s => (s_depth s <= depth st)%nat) (syms (end_scope s1)).
Proof.
  intros [_ W] Hd [new [Hs Fn]].
  unfold end_scope. cbn [depth syms set_syms set_depth]. rewrite Hd. cbn [Nat.pred].
  unfold shape in Hs.
  (* split syms s1 according to the shape equation *)
  assert (Hsplit : exists sn so, syms s1 = sn ++ so /\ map sym_shape sn = new /\ map sym_shape so = map sym_shape (syms st)).
  { exists (firstn (length new) (syms s1)), (skipn (length new) (syms s1)).
    split; [symmetry; apply firstn_skipn|].
    rewrite <- firstn_map, <- skipn_map, Hs.
    rewrite firstn_app, Nat.sub_diag, firstn_all, skipn_app, Nat.sub_diag, skipn_all. simpl.
    rewrite app_nil_r. split; reflexivity. }
  destruct Hsplit as (sn & so & Hy & Hn & Ho).
  assert (Fso : Forall (fun s => (s_depth s <= depth st)%nat) so).
  { clear - Ho W. revert so Ho. induction (syms st) as [|a tl IH]; intros so Ho; destruct so; simpl in Ho; try discriminate; [constructor|].
    inversion Ho. inversion W; subst. constructor.
    - unfold sym_shape in H0. inversion H0. lia.
    - apply IH; assumption. }
  assert (Fsn : Forall (fun s => (depth st < s_depth s)%nat) sn).
  { subst new. clear - Fn. induction sn; [constructor|]. inversion Fn; subst. constructor; [|apply IHsn; assumption].
    unfold sh_depth, sym_shape in H1. simpl in H1. lia. }
  rewrite Hy, pop_deeper_spec by assumption.
  unfold shape. cbn [syms set_syms set_depth]. repeat split; assumption.
Qed.

(* ------------------------------------------------------------------ *)
(* frames *)

Lemma stack_push st k t : stack (push_frame st k t) = {| f_kind := k; f_this := t; f_ret := None; f_line := 0 |} :: stack st.
Proof. reflexivity. Qed.

Lemma unwind_exact st extra base : stack st = extra ++ base -> stack (unwind st (length base)) = base.
Proof.
  intros H. unfold unwind. cbn [stack set_stack]. rewrite H, app_length.
  replace (length extra + length base - length base)%nat with (length extra) by lia.
  rewrite skipn_app, skipn_all, Nat.sub_diag. reflexivity.
Qed.
