(* JsonApiProofs.v — the two library functions 解析JSON / 生成JSON with the number conversions filled in (property C19). *)
From Coq Require Import List ZArith Bool Lia Arith.
Import ListNotations.
From Zn.model Require Import Json JsonNum.
From Zn.proofs Require Import JsonProofs JsonMapProofs JsonNumProofs.
Open Scope Z_scope.

(* 解析JSON(生成JSON(d)) = d for every JSON-representable dictionary: no function/object values, every number a finite
   double (num_ok64), texts and keys sequences of Unicode scalar values, keys pairwise different *)
Theorem roundtrip_all : forall m, representable num_ok64 (EDict m) = true ->
  exists t, generate_json [EDict m] = Value (EStr t) /\ parse_json [EStr t] = Value (EDict m).
Proof. intros m H. exact (generate_then_parse fmt64 num_val num_ok64 fmt64_bridge m H). Qed.

Theorem mapping_inverse_all : forall e, representable num_ok64 e = true ->
  exists j, to_json fmt64 e = Some j /\ wf j = true /\ of_json num_val j = Some e.
Proof. exact (mapping_inverse fmt64 num_val num_ok64 fmt64_bridge). Qed.

Theorem nonfinite_is_exception : forall m, has_bad_num num_ok64 (EDict m) = true ->
  generate_json [EDict m] = Exception.
Proof. intros m H. exact (generate_nonfinite_exception fmt64 num_ok64 fmt64_reject m H). Qed.

Theorem generate_json_outcomes : forall args,
  (exists t, generate_json args = Value (EStr t)) \/ generate_json args = Exception \/ generate_json args = ParamError.
Proof. exact (generate_outcomes fmt64). Qed.

Theorem malformed_is_exception : forall t, parse t = None -> parse_json [EStr t] = Exception.
Proof.
  intros t H. unfold parse in H. unfold parse_json, fn_parse_json, json_string_to_element.
  pose proof (parse_text_never_out_of_fuel t) as Hf.
  destruct (parse_text t) as [v r | |]; [discriminate | reflexivity | contradiction].
Qed.

(* 解析JSON on a text never crashes, never runs out of fuel, never returns anything but a dictionary *)
Theorem parse_json_outcomes : forall t,
  parse_json [EStr t] = Exception \/ exists m, parse_json [EStr t] = Value (EDict m).
Proof.
  intros t. unfold parse_json, fn_parse_json, json_string_to_element.
  pose proof (parse_text_never_out_of_fuel t) as Hf.
  destruct (parse_text t) as [v r | |]; [| auto | contradiction].
  destruct (decode_element num_val v) as [[| | | | | m |] |]; eauto.
Qed.

(* top level must be an object (null is read as the empty dictionary, as encoding/json does for a map) *)
Theorem top_level_not_object_is_exception : forall t v, parse t = Some v ->
  match v with JObj _ | JNull => False | _ => True end -> parse_json [EStr t] = Exception.
Proof.
  intros t v H Hv. unfold parse in H. unfold parse_json, fn_parse_json, json_string_to_element.
  destruct (parse_text t) as [v' r | |]; try discriminate. inversion H; subst v'.
  destruct v as [| b | n | s | l | m]; try contradiction; cbn [decode_element build_scalar build_elem option_map].
  - reflexivity.
  - destruct (num_val n); reflexivity.
  - reflexivity.
  - destruct (sequence _); reflexivity.
Qed.

(* a number outside the double range is an exception, not a wrong value *)
Theorem number_out_of_range_is_exception : forall t v, parse t = Some v ->
  decode_element num_val v = None -> parse_json [EStr t] = Exception.
Proof.
  intros t v H Hd. unfold parse in H. unfold parse_json, fn_parse_json, json_string_to_element.
  destruct (parse_text t) as [v' r | |]; try discriminate. inversion H; subst v'. rewrite Hd. reflexivity.
Qed.

(* keys come out in document order *)
Lemma sequence_keys : forall (f : jv -> option elem) (kvs : list (list Z * jv)) kvs',
  sequence (map (fun kv => option_map (pair (fst kv)) (f (snd kv))) kvs) = Some kvs' -> map fst kvs' = map fst kvs.
Proof.
  induction kvs as [| [k v] kvs IH]; intros kvs' H; cbn [map sequence] in H.
  - inversion H; reflexivity.
  - cbn [fst snd] in H. destruct (f v) as [e |]; [| discriminate]. cbn [option_map] in H.
    destruct (sequence _) as [r |] eqn:E; [| discriminate]. inversion H; subst. cbn [map fst]. f_equal. apply IH. reflexivity.
Qed.

Theorem parse_json_document_order : forall t kvs m, parse t = Some (JObj kvs) -> nodupb (map fst kvs) = true ->
  parse_json [EStr t] = Value (EDict m) -> map fst m = map fst kvs.
Proof.
  intros t kvs m H Hnd Hp. unfold parse in H. unfold parse_json, fn_parse_json, json_string_to_element in Hp.
  destruct (parse_text t) as [v' r | |]; try discriminate. inversion H; subst v'.
  cbn [decode_element] in Hp.
  destruct (sequence _) as [kvs' |] eqn:E; [| discriminate]. cbn [option_map] in Hp.
  pose proof (sequence_keys _ _ _ E) as Hk.
  rewrite hm_of_pairs_nodup in Hp by (rewrite Hk; assumption).
  inversion Hp; subst. exact Hk.
Qed.

(* wrong parameters are reported as the parameter error, not a crash *)
Theorem param_validation : forall args,
  (forall t, args <> [EStr t]) -> parse_json args = ParamError.
Proof.
  intros args H. unfold parse_json, fn_parse_json.
  destruct args as [| [| | | s | | |] [| ? ?]]; try reflexivity. exfalso. apply (H s). reflexivity.
Qed.
