(* TextOpsProofs.v — the text operations of TextOps.v against the character (code point) view. *)
From Coq Require Import List ZArith Bool Lia.
Import ListNotations.
From Zn.model Require Import Decode FormatNum TextOps.
From Zn.proofs Require Import DecodeProofs.
Open Scope Z_scope.

(* ------------------------------------------------------------------ *)
(* string <-> []rune on valid texts                                     *)

Lemma encode_all_cons c cps : encode_all (c :: cps) = encode_cp c ++ encode_all cps.
Proof. reflexivity. Qed.

Lemma encode_all_app a b : encode_all (a ++ b) = encode_all a ++ encode_all b.
Proof. unfold encode_all. rewrite map_app, concat_app. reflexivity. Qed.

Lemma encode_cp_nonempty c rest : scalar c -> encode_cp c ++ rest <> [].
Proof.
  intros Hc. pose proof (encode_cp_len c Hc) as H. destruct (encode_cp c); [simpl in H; lia | simpl; congruence].
Qed.

Lemma encode_rune_scalar c : scalar c -> encode_rune c = encode_cp c.
Proof. intros H. unfold encode_rune. apply scalarb_iff in H. rewrite H. reflexivity. Qed.

Lemma string_of_runes_scalar cps : Forall scalar cps -> string_of_runes cps = encode_all cps.
Proof.
  induction 1 as [|c cps Hc _ IH]; [reflexivity|].
  unfold string_of_runes, encode_all in *. cbn [map concat]. rewrite IH, encode_rune_scalar by exact Hc. reflexivity.
Qed.

Lemma runes_loop_step k bs : bs <> [] ->
  runes_loop (S k) bs = let '(ru, size) := decode_rune bs in ru :: runes_loop k (skipn size bs).
Proof. destruct bs; [congruence | reflexivity]. Qed.

Lemma runes_loop_encode_all cps : forall fuel, Forall scalar cps -> (length (encode_all cps) <= fuel)%nat ->
  runes_loop fuel (encode_all cps) = cps.
Proof.
  induction cps as [|c cps IH]; intros fuel HF Hlen.
  - destruct fuel; reflexivity.
  - inversion HF as [|? ? Hc HF']; subst. rewrite encode_all_cons in *.
    pose proof (encode_cp_len c Hc) as Hl. rewrite app_length in Hlen.
    destruct fuel as [|k]; [lia|].
    rewrite runes_loop_step by (apply encode_cp_nonempty; exact Hc).
    rewrite decode_encode_cp by exact Hc. rewrite skipn_app_exact. f_equal. apply IH; [exact HF' | lia].
Qed.

Lemma runes_of_string_encode_all cps : Forall scalar cps -> runes_of_string (encode_all cps) = cps.
Proof. intros H. apply runes_loop_encode_all; [exact H | lia]. Qed.

Lemma char_array_loop_step k bs : bs <> [] ->
  char_array_loop (S k) bs = let '(ru, size) := decode_rune bs in encode_rune ru :: char_array_loop k (skipn size bs).
Proof. destruct bs; [congruence | reflexivity]. Qed.

Lemma char_array_loop_encode_all cps : forall fuel, Forall scalar cps -> (length (encode_all cps) <= fuel)%nat ->
  char_array_loop fuel (encode_all cps) = map encode_cp cps.
Proof.
  induction cps as [|c cps IH]; intros fuel HF Hlen.
  - destruct fuel; reflexivity.
  - inversion HF as [|? ? Hc HF']; subst. rewrite encode_all_cons in *.
    pose proof (encode_cp_len c Hc) as Hl. rewrite app_length in Hlen.
    destruct fuel as [|k]; [lia|].
    rewrite char_array_loop_step by (apply encode_cp_nonempty; exact Hc).
    rewrite decode_encode_cp by exact Hc. rewrite skipn_app_exact, encode_rune_scalar by exact Hc.
    cbn [map]. f_equal. apply IH; [exact HF' | lia].
Qed.

(* 字符组 of a text is the list of its characters, each as a one-character text *)
Theorem char_array_is_chars cps : Forall scalar cps ->
  str_get_char_array (encode_all cps) = map (fun c => encode_all [c]) cps.
Proof.
  intros H. unfold str_get_char_array. rewrite char_array_loop_encode_all by (auto; lia).
  apply map_ext. intros c. unfold encode_all. cbn [map concat]. rewrite app_nil_r. reflexivity.
Qed.

(* C14_length_chars_consistent *)
Theorem length_chars_consistent cps : Forall scalar cps ->
  str_get_length (encode_all cps) = Z.of_nat (length cps) /\
  Z.of_nat (length (str_get_char_array (encode_all cps))) = str_get_length (encode_all cps) /\
  str_get_char_array (encode_all cps) = map (fun c => encode_all [c]) cps /\
  concat (str_get_char_array (encode_all cps)) = encode_all cps.
Proof.
  intros H. unfold str_get_length, rune_count. rewrite runes_of_string_encode_all by exact H.
  rewrite char_array_is_chars by exact H. rewrite map_length. repeat split.
  unfold encode_all. f_equal. apply map_ext. intros c. cbn [map concat]. rewrite app_nil_r. reflexivity.
Qed.

(* ------------------------------------------------------------------ *)
(* 取样                                                                 *)

Lemma Forall_firstn {A} (P : A -> Prop) n l : Forall P l -> Forall P (firstn n l).
Proof. revert l; induction n; intros l H; [constructor|]. destruct l; [constructor|]. inversion H; subst. constructor; auto. Qed.

Definition norm_index (n i : Z) : Z := if i <? 0 then n + i + 1 else i.

(* complete description of the repaired 取样 on a text of n characters *)
Theorem slice_total cps i j : Forall scalar cps ->
  let n := Z.of_nat (length cps) in
  let i' := norm_index n i in
  let j' := norm_index n j in
  str_exec_slice (encode_all cps) i j =
    if (i' <? 1) || (j >? n) then SExc else SOk (encode_all (sublist cps i' j')).
Proof.
  intros HF n i' j'. unfold str_exec_slice. rewrite runes_of_string_encode_all by exact HF.
  fold n. unfold slice_indices. fold (norm_index n i). fold i'.
  destruct (i' <? 1) eqn:E1; [reflexivity|]. cbn [orb].
  destruct (j >? n) eqn:E2; [reflexivity|].
  fold (norm_index n j). fold j'.
  assert (Hj' : j' <= n). { unfold j', norm_index. destruct (j <? 0) eqn:E; lia. }
  destruct (i' >? j') eqn:E3.
  - unfold sublist. replace (Z.to_nat (j' - i' + 1)) with 0%nat by lia. reflexivity.
  - unfold go_slice. fold n.
    replace ((0 <=? i' - 1) && (i' - 1 <=? j') && (j' <=? n)) with true by lia.
    rewrite string_of_runes_scalar by (apply Forall_firstn, Forall_skipn; exact HF).
    unfold sublist. do 3 f_equal. lia.
Qed.

Lemma slice_ok_inv cps i j r : Forall scalar cps -> str_exec_slice (encode_all cps) i j = SOk r ->
  let n := Z.of_nat (length cps) in
  1 <= norm_index n i /\ j <= n /\ r = encode_all (sublist cps (norm_index n i) (norm_index n j)).
Proof.
  intros HF H. pose proof (slice_total cps i j HF) as T. cbv zeta in T. rewrite T in H. cbv zeta.
  destruct (norm_index (Z.of_nat (length cps)) i <? 1) eqn:E1; [discriminate|].
  destruct (j >? Z.of_nat (length cps)) eqn:E2; [discriminate|]. cbn [orb] in H. inversion H. repeat split; lia.
Qed.

(* C14_slice_is_sublist *)
Theorem slice_is_sublist cps i j r : Forall scalar cps -> str_exec_slice (encode_all cps) i j = SOk r ->
  let n := Z.of_nat (length cps) in
  r = encode_all (sublist cps (norm_index n i) (norm_index n j)) /\
  r = concat (sublist (str_get_char_array (encode_all cps)) (norm_index n i) (norm_index n j)).
Proof.
  intros HF H. destruct (slice_ok_inv cps i j r HF H) as (_ & _ & Hr). cbv zeta in *. split; [exact Hr|].
  rewrite Hr, char_array_is_chars by exact HF. unfold sublist.
  rewrite skipn_map, firstn_map. unfold encode_all. f_equal. apply map_ext.
  intros c. cbn [map concat]. rewrite app_nil_r. reflexivity.
Qed.

Lemma In_firstn' {A} n : forall (l : list A) x, In x (firstn n l) -> In x l.
Proof. induction n; intros l x H; [destruct H|]. destruct l; [destruct H|]. destruct H; [left; auto | right; auto]. Qed.
Lemma In_skipn' {A} n : forall (l : list A) x, In x (skipn n l) -> In x l.
Proof. induction n; intros l x H; [exact H|]. destruct l; [destruct H|]. right. auto. Qed.

Lemma Forall_sublist {A} (P : A -> Prop) l i j : Forall P l -> Forall P (sublist l i j).
Proof. intros H. unfold sublist. apply Forall_firstn, Forall_skipn, H. Qed.

(* C14_slice_never_splits: the result is itself a text (a sequence of whole characters), it is never a
   Go panic and never runs out of fuel, and its characters are characters of the source *)
Theorem slice_never_splits cps i j : Forall scalar cps ->
  (exists sub, Forall scalar sub /\ str_exec_slice (encode_all cps) i j = SOk (encode_all sub) /\
               str_get_char_array (encode_all sub) = map (fun c => encode_all [c]) sub /\
               incl sub cps)
  \/ str_exec_slice (encode_all cps) i j = SExc.
Proof.
  intros HF. pose proof (slice_total cps i j HF) as T. cbv zeta in T. rewrite T.
  destruct (_ || _); [right; reflexivity|]. left.
  eexists. split; [apply Forall_sublist; exact HF|]. split; [reflexivity|]. split.
  - apply char_array_is_chars, Forall_sublist, HF.
  - unfold sublist. intros x Hx. apply In_firstn' in Hx. eapply In_skipn'; eauto.
Qed.

(* the pinned, byte-indexed code does split characters *)
Lemma slice_pinned_splits : str_exec_slice_pinned (encode_all [0x4F60; 0x597D]) 1 1 = SOk [0xE4].
Proof. vm_compute. reflexivity. Qed.

(* ------------------------------------------------------------------ *)
(* strings.HasPrefix / cut / Split                                      *)

Lemma has_prefix_spec : forall p s, has_prefix s p = true <-> exists r, s = p ++ r.
Proof.
  induction p as [|x p IH]; intros s.
  - destruct s; simpl; split; eauto.
  - destruct s as [|y s]; cbn [has_prefix].
    + split; [discriminate|]. intros [r Hr]. discriminate.
    + rewrite andb_true_iff, Z.eqb_eq, IH. split.
      * intros [-> [r ->]]. exists r. reflexivity.
      * intros [r Hr]. inversion Hr; subst. split; [reflexivity | eauto].
Qed.

Lemma has_prefix_false_nil p : p <> [] -> has_prefix [] p = false.
Proof. destruct p; [congruence | reflexivity]. Qed.

Lemma cut_unfold s sep : cut s sep =
  if has_prefix s sep then Some ([], skipn (length sep) s)
  else match s with
       | [] => None
       | b :: tl => match cut tl sep with Some (pre, post) => Some (b :: pre, post) | None => None end
       end.
Proof. destruct s; reflexivity. Qed.

Lemma prefix_skipn s sep : has_prefix s sep = true -> s = sep ++ skipn (length sep) s.
Proof. intros E. apply has_prefix_spec in E. destruct E as [r Hr]. subst s. rewrite skipn_app_exact. reflexivity. Qed.

Lemma cut_spec : forall s sep pre post, cut s sep = Some (pre, post) -> s = pre ++ sep ++ post.
Proof.
  induction s as [|b tl IH]; intros sep pre post H; rewrite cut_unfold in H.
  - destruct (has_prefix [] sep) eqn:E; [|discriminate]. inversion H; subst. cbn [app]. apply prefix_skipn. exact E.
  - destruct (has_prefix (b :: tl) sep) eqn:E.
    + inversion H; subst. cbn [app]. apply prefix_skipn. exact E.
    + destruct (cut tl sep) as [[pre' post']|] eqn:C; [|discriminate]. inversion H; subst.
      rewrite (IH _ _ _ C) at 1. reflexivity.
Qed.

Lemma has_prefix_app l p x : has_prefix l p = true -> has_prefix (l ++ x) p = true.
Proof. rewrite !has_prefix_spec. intros [r ->]. exists (r ++ x). rewrite app_assoc. reflexivity. Qed.

(* the cut is at the FIRST occurrence: the part before it contains no occurrence *)
Lemma cut_pre_none : forall s sep pre post, sep <> [] -> cut s sep = Some (pre, post) -> cut pre sep = None.
Proof.
  induction s as [|b tl IH]; intros sep pre post Hne H; rewrite cut_unfold in H.
  - rewrite has_prefix_false_nil in H by exact Hne. discriminate.
  - destruct (has_prefix (b :: tl) sep) eqn:E.
    + inversion H; subst. rewrite cut_unfold, has_prefix_false_nil by exact Hne. reflexivity.
    + destruct (cut tl sep) as [[pre' post']|] eqn:C; [|discriminate]. inversion H; subst.
      rewrite cut_unfold.
      destruct (has_prefix (b :: pre') sep) eqn:E2.
      * apply (has_prefix_app _ _ (sep ++ post)) in E2. rewrite <- app_comm_cons, <- (cut_spec _ _ _ _ C) in E2. congruence.
      * rewrite (IH _ _ _ Hne C). reflexivity.
Qed.

Lemma cut_post_shorter s sep pre post : sep <> [] -> cut s sep = Some (pre, post) -> (length post < length s)%nat.
Proof.
  intros Hne H. apply cut_spec in H. subst. rewrite !app_length. destruct sep; [congruence|]. simpl. lia.
Qed.

Lemma gen_split_enough : forall f s sep, sep <> [] -> (length s < f)%nat -> exists ps, gen_split f s sep = Some ps.
Proof.
  induction f as [|k IH]; intros s sep Hne Hl; [lia|]. cbn [gen_split].
  destruct (cut s sep) as [[pre post]|] eqn:C; [|eauto].
  pose proof (cut_post_shorter _ _ _ _ Hne C). destruct (IH post sep Hne ltac:(lia)) as [ps ->]. eauto.
Qed.

Lemma gen_split_fuel : forall f1 f2 s sep, sep <> [] -> (length s < f1)%nat -> (length s < f2)%nat ->
  gen_split f1 s sep = gen_split f2 s sep.
Proof.
  induction f1 as [|k IH]; intros f2 s sep Hne H1 H2; [lia|]. destruct f2 as [|k2]; [lia|]. cbn [gen_split].
  destruct (cut s sep) as [[pre post]|] eqn:C; [|reflexivity].
  pose proof (cut_post_shorter _ _ _ _ Hne C). rewrite (IH k2 post sep Hne) by lia. reflexivity.
Qed.

Lemma join_sep_cons sep p ps : ps <> [] -> join_sep sep (p :: ps) = p ++ sep ++ join_sep sep ps.
Proof. destruct ps; [congruence | reflexivity]. Qed.

(* what genSplit returns: the pieces, joined by the separator, are the text; no piece contains the separator;
   (with cut_pre_none: every cut is at the first occurrence, so the pieces are the maximal ones, left to right) *)
Lemma gen_split_spec : forall f s sep ps, sep <> [] -> gen_split f s sep = Some ps ->
  ps <> [] /\ join_sep sep ps = s /\ Forall (fun p => contains p sep = false) ps.
Proof.
  induction f as [|k IH]; intros s sep ps Hne H; [discriminate|]. cbn [gen_split] in H.
  destruct (cut s sep) as [[pre post]|] eqn:C.
  - destruct (gen_split k post sep) as [ps'|] eqn:G; [|discriminate]. inversion H; subst.
    destruct (IH _ _ _ Hne G) as (Hn & Hj & Hf). split; [congruence|]. split.
    + rewrite join_sep_cons by exact Hn. rewrite Hj. symmetry. apply cut_spec. exact C.
    + constructor; [|exact Hf]. unfold contains. rewrite (cut_pre_none _ _ _ _ Hne C). reflexivity.
  - inversion H; subst. split; [congruence|]. split; [reflexivity|]. constructor; [|constructor].
    unfold contains. rewrite C. reflexivity.
Qed.

(* ------------------------------------------------------------------ *)
(* UTF-8 is self-synchronising: byte-level search = character-level search *)

Definition is_cont (b : Z) : bool := (0x80 <=? b) && (b <=? 0xBF).

Lemma encode_cp_shape c : scalar c ->
  exists b0 tl, encode_cp c = b0 :: tl /\ is_cont b0 = false /\ Forall (fun b => is_cont b = true) tl.
Proof.
  intros Hs. unfold scalar in Hs. unfold encode_cp.
  destruct (c <? 0x80) eqn:H1; [|destruct (c <? 0x800) eqn:H2; [|destruct (c <? 0x10000) eqn:H3]];
    eexists; eexists; (split; [reflexivity|]); unfold is_cont; (split; [|repeat constructor]); lia.
Qed.

Lemma encode_cp_inj_prefix a b x y : scalar a -> scalar b -> encode_cp a ++ x = encode_cp b ++ y -> a = b /\ x = y.
Proof.
  intros Ha Hb H. pose proof (decode_encode_cp a x Ha) as Da. rewrite H, decode_encode_cp in Da by exact Hb.
  inversion Da; subst. split; [reflexivity|]. eapply app_inv_head; eauto.
Qed.

Lemma has_prefix_lift : forall p s, Forall scalar p -> Forall scalar s ->
  has_prefix (encode_all s) (encode_all p) = has_prefix s p.
Proof.
  induction p as [|b p IH]; intros s Hp Hs.
  - destruct (encode_all s); destruct s; reflexivity.
  - inversion Hp as [|? ? Hb Hp']; subst.
    destruct s as [|a s].
    + cbn [has_prefix]. apply has_prefix_false_nil. rewrite encode_all_cons. apply encode_cp_nonempty. exact Hb.
    + inversion Hs as [|? ? Ha Hs']; subst. cbn [has_prefix].
      destruct (has_prefix (encode_all (a :: s)) (encode_all (b :: p))) eqn:E.
      * apply has_prefix_spec in E. destruct E as [r Hr]. rewrite !encode_all_cons, <- app_assoc in Hr.
        apply encode_cp_inj_prefix in Hr; [|exact Ha|exact Hb]. destruct Hr as [-> Hr].
        rewrite Z.eqb_refl. cbn [andb]. rewrite <- IH by assumption. symmetry. apply has_prefix_spec. eauto.
      * symmetry. apply not_true_is_false. intros T. apply andb_true_iff in T. destruct T as [T1 T2].
        apply Z.eqb_eq in T1. subst b. rewrite <- IH in T2 by assumption. apply has_prefix_spec in T2. destruct T2 as [r Hr].
        assert (has_prefix (encode_all (a :: s)) (encode_all (a :: p)) = true); [|congruence].
        apply has_prefix_spec. exists r. rewrite !encode_all_cons, Hr, app_assoc. reflexivity.
Qed.

(* a separator (non-empty text) cannot start at a continuation byte *)
Lemma has_prefix_cont_false b rest sep : Forall scalar sep -> sep <> [] -> is_cont b = true ->
  has_prefix (b :: rest) (encode_all sep) = false.
Proof.
  intros Hs Hne Hb. destruct sep as [|c sep]; [congruence|]. inversion Hs as [|? ? Hc _]; subst.
  rewrite encode_all_cons. destruct (encode_cp_shape c Hc) as (b0 & tl & -> & Hb0 & _).
  cbn [app has_prefix]. destruct (b0 =? b) eqn:E; [|reflexivity]. apply Z.eqb_eq in E. subst. congruence.
Qed.

Lemma cut_skip_conts : forall conts rest sep, Forall scalar sep -> sep <> [] ->
  Forall (fun b => is_cont b = true) conts ->
  cut (conts ++ rest) (encode_all sep) =
  match cut rest (encode_all sep) with Some (pre, post) => Some (conts ++ pre, post) | None => None end.
Proof.
  induction conts as [|b conts IH]; intros rest sep Hs Hne HF.
  - cbn [app]. destruct (cut rest (encode_all sep)) as [[? ?]|]; reflexivity.
  - inversion HF as [|? ? Hb HF']; subst. cbn [app]. rewrite cut_unfold.
    rewrite has_prefix_cont_false by assumption. rewrite IH by assumption.
    destruct (cut rest (encode_all sep)) as [[? ?]|]; reflexivity.
Qed.

Lemma skipn_encode_all p r : skipn (length (encode_all p)) (encode_all (p ++ r)) = encode_all r.
Proof. rewrite encode_all_app. apply skipn_app_exact. Qed.

Lemma cut_lift : forall s sep, Forall scalar s -> Forall scalar sep -> sep <> [] ->
  cut (encode_all s) (encode_all sep) =
  match cut s sep with Some (pre, post) => Some (encode_all pre, encode_all post) | None => None end.
Proof.
  induction s as [|c s IH]; intros sep Hs Hsep Hne.
  - rewrite (cut_unfold []), (cut_unfold (encode_all [])). change (encode_all []) with (@nil Z) at 1.
    rewrite !has_prefix_false_nil; [reflexivity | exact Hne |].
    destruct sep as [|x sep]; [congruence|]. inversion Hsep; subst. rewrite encode_all_cons. apply encode_cp_nonempty. assumption.
  - inversion Hs as [|? ? Hc Hs']; subst.
    rewrite (cut_unfold (c :: s)), (cut_unfold (encode_all (c :: s))).
    rewrite has_prefix_lift by assumption.
    destruct (has_prefix (c :: s) sep) eqn:E.
    + apply has_prefix_spec in E. destruct E as [r Hr]. rewrite Hr, skipn_encode_all, skipn_app_exact. reflexivity.
    + rewrite encode_all_cons. destruct (encode_cp_shape c Hc) as (b0 & tl & Heq & Hb0 & Htl). rewrite Heq.
      cbn [app]. rewrite cut_skip_conts by assumption. rewrite IH by assumption.
      destruct (cut s sep) as [[pre post]|]; [|reflexivity].
      rewrite encode_all_cons, Heq. reflexivity.
Qed.

Lemma encode_all_length_le cps : Forall scalar cps -> (length cps <= length (encode_all cps))%nat.
Proof.
  induction 1 as [|c cps Hc _ IH]; [simpl; lia|]. rewrite encode_all_cons, app_length. pose proof (encode_cp_len c Hc). simpl. lia.
Qed.

Lemma cut_scalar s sep pre post : Forall scalar s -> cut s sep = Some (pre, post) -> Forall scalar pre /\ Forall scalar post.
Proof.
  intros Hs H. apply cut_spec in H. subst. apply Forall_app in Hs. destruct Hs as [H1 H2]. apply Forall_app in H2. tauto.
Qed.

Lemma gen_split_lift : forall f s sep, Forall scalar s -> Forall scalar sep -> sep <> [] ->
  gen_split f (encode_all s) (encode_all sep) =
  match gen_split f s sep with Some ps => Some (map encode_all ps) | None => None end.
Proof.
  induction f as [|k IH]; intros s sep Hs Hsep Hne; [reflexivity|]. cbn [gen_split].
  rewrite cut_lift by assumption.
  destruct (cut s sep) as [[pre post]|] eqn:C; [|reflexivity].
  destruct (cut_scalar _ _ _ _ Hs C) as [_ Hpost]. rewrite IH by assumption.
  destruct (gen_split k post sep); reflexivity.
Qed.

Lemma explode_loop_encode_all cps : forall fuel, Forall scalar cps -> (length (encode_all cps) <= fuel)%nat ->
  explode_loop fuel (encode_all cps) = map (fun c => encode_all [c]) cps.
Proof.
  induction cps as [|c cps IH]; intros fuel HF Hlen.
  - destruct fuel; reflexivity.
  - inversion HF as [|? ? Hc HF']; subst. rewrite encode_all_cons in *.
    pose proof (encode_cp_len c Hc) as Hl. rewrite app_length in Hlen.
    destruct fuel as [|k]; [lia|]. cbn [explode_loop].
    destruct (encode_cp c ++ encode_all cps) eqn:Enil; [exfalso; eapply encode_cp_nonempty; eauto|]. rewrite <- Enil. clear Enil.
    rewrite decode_encode_cp by exact Hc. rewrite skipn_app_exact, firstn_app, Nat.sub_diag, firstn_all. cbn [firstn map].
    rewrite IH by (auto; lia). unfold encode_all at 2. cbn [map concat]. rewrite !app_nil_r. reflexivity.
Qed.

(* 分隔 never splits a character: splitting the bytes = splitting the characters *)
Theorem split_bytes_is_split_chars s sep : Forall scalar s -> Forall scalar sep ->
  str_exec_split (encode_all s) (encode_all sep) =
  match split_cps s sep with
  | SOk ps => SOk (map encode_all ps)
  | SExc => SExc | SCrash => SCrash | SOutOfFuel => SOutOfFuel
  end.
Proof.
  intros Hs Hsep. destruct sep as [|x sep].
  - change (encode_all []) with (@nil Z). cbn [str_exec_split split_cps].
    rewrite explode_loop_encode_all by (auto; lia). rewrite map_map. reflexivity.
  - assert (Hne : x :: sep <> []) by congruence.
    unfold str_exec_split, split_cps.
    destruct (encode_all (x :: sep)) eqn:En.
    { inversion Hsep; subst. rewrite encode_all_cons in En. exfalso. eapply encode_cp_nonempty; eauto. }
    rewrite <- En. clear En.
    rewrite gen_split_lift by assumption.
    pose proof (encode_all_length_le s Hs) as Hl.
    rewrite (gen_split_fuel (S (length (encode_all s))) (S (length s)) s (x :: sep) Hne) by lia.
    destruct (gen_split (S (length s)) s (x :: sep)); reflexivity.
Qed.

(* C14_split_spec *)
Theorem split_spec s sep : Forall scalar s -> Forall scalar sep -> sep <> [] ->
  exists ps, str_exec_split (encode_all s) (encode_all sep) = SOk (map encode_all ps) /\
             split_cps s sep = SOk ps /\
             ps <> [] /\ join_sep sep ps = s /\ Forall (fun p => contains p sep = false) ps.
Proof.
  intros Hs Hsep Hne. rewrite split_bytes_is_split_chars by assumption.
  unfold split_cps. destruct sep as [|x sep]; [congruence|].
  destruct (gen_split_enough (S (length s)) s (x :: sep) Hne ltac:(lia)) as [ps Hps]. rewrite Hps.
  exists ps. split; [reflexivity|]. split; [reflexivity|]. eapply gen_split_spec; eauto.
Qed.

(* an empty separator yields the character array *)
Theorem split_empty_is_chars s : Forall scalar s ->
  str_exec_split (encode_all s) [] = SOk (str_get_char_array (encode_all s)).
Proof.
  intros Hs. cbn [str_exec_split]. rewrite explode_loop_encode_all by (auto; lia).
  rewrite char_array_is_chars by exact Hs. reflexivity.
Qed.
