(* C03 - "... operator precedence and associativity, call / index / member chains ...": the prescribed-tree theorem of
   proofs/ExprPrecProofs.v extended from operator trees with identifier leaves to trees whose leaves are
   member / index chains, array literals and plain function calls.

   Surface trees [cx]:
     XId n, XStr s                    identifier (numbers are identifier tokens), text literal
     XBin op l r                      binary operator given by its token type (as in ExprPrecProofs.sx)
     XIdxId root n   root # n         index by identifier / number
     XIdxStr root s  root # "s"       index by text literal
     XIdxE root i    root # { i }     index by ANY expression i
     XProp w root n  root 之 n (w = true) / root 的 n (w = false)
     XArr items      【 e1 ， e2 ... 】  (items: any expressions; 【 】 when empty)
     XCall f args    （ f ： e1 、 e2 ... ）  (（ f ） when there are no arguments)
   The root of a postfix step is ANY tree; it is printed at binding level 0, i.e. in braces when it is an operator
   expression ({ A + B } # 1).  [cast s] is the tree the grammar prescribes (model/Parser.v: NMember / NMemberTail build
   EMember (Some root) RootTypeExpr MemberIndex None (Some idx) and EMember (Some root) RootTypeExpr MemberID (Some id)
   None; NArray / NArrayItems build EArray; NFuncCall builds ECall (Call f args None)).

   Part 1 (tokens): [parse_cshow_tokens], [parse_cshow_tokens_gen], [parse_coperand_tokens], [chain_loop_tokens] - on ANY
     parser state that presents the tokens [cshow s] followed by a token that cannot continue an expression (or by one
     comma - which tryConsume skips - and then such a token), ParseExpression and ParseExpressionMAP ([mp = true], the
     mode of array items) return exactly [cast s].  Proved by one induction over all trees ([ctree_all]); reuses feeds /
     stops / tc_* / pk / tailk / la / lvl_facts / basic_id / basic_brace ... of proofs/ExprPrecProofs.v.
   Part 2 (characters): [parse_cshow_chars], [parse_cshow_chars_rest], [compile_cshow_chars] (+ _default, _any_fuel) -
     the code points of the printing with single spaces ([cshowc]), lexed and parsed from the first character, give the
     program that consists of exactly that tree.  Leaves: identifiers of [idc] characters, text literals “...” of [strc]
     characters (anything but quotes, backtick, line breaks).
   Part 3 (trees of model/Ast.v): [cx_of] (the surface tree of an Ast tree), [chain_expr] (the fragment),
     [C03_chains_all_trees], [C03_chains_every_tree]; corollaries for arbitrary leaves (a # i + b 之 c * d # j is
     (a # i) + ((b 之 c) * (d # j)); a # i # j is (a # i) # j; a # { any expression }; { a + b } # i; array items and call
     arguments are full expressions) and examples on concrete code points (A # 1 + B 之 C * D # 2 ...).
   Not covered: roots 其 X (ObjThisW), method calls / 得到 / 对于, assignment expressions, hash-map literals, other
     spacings than single spaces (A#1 is checked by computation only). *)
From Coq Require Import List ZArith Bool Lia Arith.
Import ListNotations.
From Zn.gen Require Import GenFrontTokens.
From Zn.model Require Import LexerTok Lexer Ast Parser.
From Zn.model Require StringLit.
From Zn.proofs Require Import FrontLexProofs FrontCompleteProofs FrontTotalProofs ExprPrecProofs.
Open Scope Z_scope.

(* ================================================================== surface syntax *)
Inductive cx :=
| XId (n : lit)
| XStr (s : lit)
| XBin (op : Z) (l r : cx)
| XIdxId (root : cx) (n : lit)
| XIdxStr (root : cx) (s : lit)
| XIdxE (root : cx) (i : cx)
| XProp (w : bool) (root : cx) (n : lit)
| XArr (items : list cx)
| XCall (f : lit) (args : list cx).

Section CxInd.
Variable P : cx -> Prop.
Hypothesis HId : forall n, P (XId n).
Hypothesis HStr : forall s, P (XStr s).
Hypothesis HBin : forall op l r, P l -> P r -> P (XBin op l r).
Hypothesis HIdxId : forall root n, P root -> P (XIdxId root n).
Hypothesis HIdxStr : forall root s, P root -> P (XIdxStr root s).
Hypothesis HIdxE : forall root i, P root -> P i -> P (XIdxE root i).
Hypothesis HProp : forall w root n, P root -> P (XProp w root n).
Hypothesis HArr : forall l, Forall P l -> P (XArr l).
Hypothesis HCall : forall f l, Forall P l -> P (XCall f l).
Fixpoint cx_ind2 (s : cx) : P s :=
  match s with
  | XId n => HId n
  | XStr s => HStr s
  | XBin op l r => HBin op l r (cx_ind2 l) (cx_ind2 r)
  | XIdxId root n => HIdxId root n (cx_ind2 root)
  | XIdxStr root s => HIdxStr root s (cx_ind2 root)
  | XIdxE root i => HIdxE root i (cx_ind2 root) (cx_ind2 i)
  | XProp w root n => HProp w root n (cx_ind2 root)
  | XArr l => HArr l ((fix go (l : list cx) : Forall P l :=
                         match l with [] => Forall_nil P | x :: r => Forall_cons x (cx_ind2 x) (go r) end) l)
  | XCall f l => HCall f l ((fix go (l : list cx) : Forall P l :=
                         match l with [] => Forall_nil P | x :: r => Forall_cons x (cx_ind2 x) (go r) end) l)
  end.
End CxInd.

(* the trees the parser builds for the postfix steps *)
Definition midx (root i : expr) : expr := EMember (Some root) RootTypeExpr MemberIndex None (Some i).
Definition mprop (root : expr) (n : lit) : expr := EMember (Some root) RootTypeExpr MemberID (Some n) None.

(* the tree the grammar prescribes *)
Fixpoint cast (s : cx) : expr :=
  match s with
  | XId n => EId n
  | XStr s => EStr s
  | XBin op l r => nodek (lvl op) op (cast l) (cast r)
  | XIdxId root n => midx (cast root) (EId n)
  | XIdxStr root s => midx (cast root) (EStr s)
  | XIdxE root i => midx (cast root) (cast i)
  | XProp _ root n => mprop (cast root) n
  | XArr l => EArray (map cast l)
  | XCall f l => ECall (Call f (map cast l) None)
  end.

(* binding level: postfix chains, literals, arrays and calls are operands of every operator (level 0) *)
Definition cprec (s : cx) : nat := match s with XBin op _ _ => lvl op | _ => 0%nat end.

Fixpoint cwf (s : cx) : bool :=
  match s with
  | XId _ | XStr _ => true
  | XBin op l r => negb (lvl op =? 0)%nat && cwf l && cwf r
  | XIdxId root _ | XIdxStr root _ | XProp _ root _ => cwf root
  | XIdxE root i => cwf root && cwf i
  | XArr l | XCall _ l => forallb cwf l
  end.

Definition tHash : atok := (g_TypeMapHash, []).
Definition tDot (w : bool) : atok := ((if w then g_TypeObjDotW else g_TypeObjDotIIW), []).
Definition tAL : atok := (g_TypeArrayQuoteL, []).
Definition tAR : atok := (g_TypeArrayQuoteR, []).
Definition tFL : atok := (g_TypeFuncQuoteL, []).
Definition tFR : atok := (g_TypeFuncQuoteR, []).
Definition tColon : atok := (g_TypeFuncCall, []).
Definition tPause : atok := (g_TypePauseCommaSep, []).
Definition tCom : atok := (g_TypeCommaSep, []).

Fixpoint sepcat (sep : atok) (ls : list (list atok)) : list atok :=
  match ls with
  | [] => []
  | x :: r => match r with [] => x | _ => x ++ sep :: sepcat sep r end
  end.

(* the minimal-brace printing *)
Fixpoint cshow (s : cx) : list atok :=
  match s with
  | XId n => [(g_TypeIdentifier, n)]
  | XStr s => [(g_TypeString, s)]
  | XBin op l r => brace (lvl op) (cprec l) (cshow l) ++ (op, []) :: brace (lvl op - 1) (cprec r) (cshow r)
  | XIdxId root n => brace 0 (cprec root) (cshow root) ++ [tHash; (g_TypeIdentifier, n)]
  | XIdxStr root s => brace 0 (cprec root) (cshow root) ++ [tHash; (g_TypeString, s)]
  | XIdxE root i => brace 0 (cprec root) (cshow root) ++ tHash :: tL :: cshow i ++ [tR]
  | XProp w root n => brace 0 (cprec root) (cshow root) ++ [tDot w; (g_TypeIdentifier, n)]
  | XArr l => tAL :: sepcat tCom (map cshow l) ++ [tAR]
  | XCall f l => tFL :: (g_TypeIdentifier, f) ::
                 match l with [] => [] | _ => tColon :: sepcat tPause (map cshow l) end ++ [tFR]
  end.
Definition copnd (k : nat) (s : cx) : list atok := brace k (cprec s) (cshow s).

(* ================================================================== what may follow an expression *)
(* as ExprPrecProofs.stops, and the token is not 得到 (which would continue a function call) *)
Definition stopbS (k : nat) (t : Z) : bool := stopb k t && negb (t =? g_TypeGetResultW).

Definition stopsS (k : nat) (st : pstate) : Prop :=
  exists tk, p2 st = Some tk /\ (t_ty tk =? g_TypeCommaSep) = false /\ (flag st = true \/ stopbS k (t_ty tk) = true).

(* ... or one comma, which tryConsume skips, and then such a token: st' is the state the parser is left in *)
Definition stopsG (k : nat) (st st' : pstate) : Prop :=
  (stopsS k st /\ st' = st) \/
  (exists tk, p2 st = Some tk /\ (t_ty tk =? g_TypeCommaSep) = true /\ p_next st = Ok tt st' /\ stopsS k st').

Lemma stopbS_inv : forall k t, stopbS k t = true -> stopb k t = true /\ (t =? g_TypeGetResultW) = false.
Proof. intros k t H. unfold stopbS in H. apply andb_true_iff in H. destruct H as [A B]. apply negb_true_iff in B. auto. Qed.

Lemma stopbS_le : forall k k' t, stopbS k t = true -> (k' <= k)%nat -> stopbS k' t = true.
Proof.
  intros k k' t H L. apply stopbS_inv in H. destruct H as [A B]. unfold stopbS. rewrite (stopb_le _ _ _ A L), B. reflexivity.
Qed.

Lemma stopsS_stops : forall k st, stopsS k st -> stops k st.
Proof.
  intros k st (tk & P & C & D). exists tk. split; [exact P|]. split; [exact C|].
  destruct D as [D|D]; [left; exact D|right; apply stopbS_inv in D; tauto].
Qed.

Lemma stopsS_le : forall k k' st, stopsS k st -> (k' <= k)%nat -> stopsS k' st.
Proof.
  intros k k' st (tk & P & C & D) L. exists tk. split; [exact P|]. split; [exact C|].
  destruct D as [D|D]; [left; exact D|right; eapply stopbS_le; eauto].
Qed.

Lemma stopsG_le : forall k k' st st', stopsG k st st' -> (k' <= k)%nat -> stopsG k' st st'.
Proof.
  intros k k' st st' [[H E]|(tk & P & C & PN & H)] L.
  - left. split; [eapply stopsS_le; eauto|exact E].
  - right. exists tk. split; [exact P|]. split; [exact C|]. split; [exact PN|eapply stopsS_le; eauto].
Qed.

Lemma stopsG_end : forall k st st', stopsG k st st' -> stopsS k st'.
Proof. intros k st st' [[H E]|(tk & P & C & PN & H)]; [subst; exact H|exact H]. Qed.

Lemma stopsG_refl : forall k st, stopsS k st -> stopsG k st st.
Proof. intros k st H. left. split; [exact H|reflexivity]. Qed.

Lemma headok_stopsS : forall k ty l st, headok (ty, l) st -> stopbS k ty = true -> stopsS k st.
Proof.
  intros k ty l st [Hf (tk & P & T & X)] HS. cbn [fst snd] in *. exists tk. subst ty.
  split; [exact P|]. split; [|right; exact HS].
  apply stopbS_inv in HS. destruct HS as [HS _]. eapply stopb_comma; eauto.
Qed.

(* tryConsume of any token list that contains no such token *)
Lemma tc_list_stopS : forall k valid st, stopsS k st -> (forall t, stopbS k t = true -> mem t valid = false) ->
  tc valid st = Ok None st.
Proof.
  intros k valid st (tk & P & C & D) HV. unfold tc. rewrite P, C. unfold try_tail. rewrite P.
  destruct (flag st) eqn:Hf; [reflexivity|].
  destruct D as [D|D]; [discriminate|]. rewrite (HV _ D). reflexivity.
Qed.

Lemma tc_list_stopG : forall k valid st st', stopsG k st st' -> (forall t, stopbS k t = true -> mem t valid = false) ->
  tc valid st = Ok None st'.
Proof.
  intros k valid st st' [[H E]|(tk & P & C & PN & (tk' & P' & C' & D'))] HV.
  - subst st'. eapply tc_list_stopS; eauto.
  - unfold tc. rewrite P, C. unfold bind. rewrite PN. unfold try_tail. rewrite P'.
    destruct (flag st') eqn:Hf; [reflexivity|].
    destruct D' as [D'|D']; [discriminate|]. rewrite (HV _ D'). reflexivity.
Qed.

Lemma stopbS_ops : forall k j t, (j <= k)%nat -> stopbS k t = true -> mem t (ops j) = false.
Proof. intros k j t L H. apply stopbS_inv in H. destruct H as [H _]. eapply stopb_mem; eauto. Qed.

Lemma stopbS_gr : forall k t, stopbS k t = true -> mem t [g_TypeGetResultW] = false.
Proof. intros k t H. apply stopbS_inv in H. destruct H as [_ H]. cbn [mem existsb]. rewrite H. reflexivity. Qed.

Lemma tc_stopG : forall k j st st', stopsG k st st' -> (j <= k)%nat -> tc (ops j) st = Ok None st'.
Proof. intros k j st st' H L. eapply tc_list_stopG; [exact H|]. intros t HT. eapply stopbS_ops; eauto. Qed.

(* ================================================================== the productions by level, both expression modes *)
(* mp = EqMarkConfig.AsMapSign: ParseExpressionMAP (array items) does not take = as the assignment mark *)
Definition opsm (mp : bool) (k : nat) : list Z :=
  match k with
  | 3%nat => g_TypeAssignW :: (if mp then [] else [g_TypeAssignMark])
  | _ => ops k
  end.

Definition pkm (mp : bool) (k : nat) (f : nat) : M expr :=
  match k with
  | 0%nat => parse f NMember
  | 1%nat => parse f NMulDiv
  | 2%nat => parse f NArith
  | 3%nat => parse f (NLv4 mp)
  | 4%nat => parse f (NLv3 mp)
  | 5%nat => parse f (NLv2 mp)
  | _ => parse f (NExpr mp)
  end.

Definition tailkm (mp : bool) (k : nat) (f : nat) (el : expr) : M expr :=
  match k with
  | 0%nat => parse f (NMemberTail el)
  | 1%nat => parse f (NMulDivTail el)
  | 2%nat => parse f (NArithTail el)
  | 4%nat => parse f (NLv3Tail mp el)
  | 5%nat => parse f (NLv2Tail mp el)
  | 6%nat => parse f (NLv1Tail mp el)
  | _ => ret el
  end.

Lemma pkm_false : forall k f, pkm false k f = pk k f.
Proof. intros k f. do 7 (destruct k as [|k]; [reflexivity|]). reflexivity. Qed.

Lemma pkm_low : forall mp k f, (k <= 2)%nat -> pkm mp k f = pk k f.
Proof. intros mp k f L. do 3 (destruct k as [|k]; [reflexivity|]). lia. Qed.

Lemma pkm_unf : forall mp k f st, la k = true ->
  pkm mp k (S f) st = bind (pkm mp (k - 1) f) (fun el => tailkm mp k f el) st.
Proof. intros mp k f st H. apply la_cases in H. destruct H as [H|[H|[H|[H|H]]]]; subst k; reflexivity. Qed.

Lemma tailkm_unf : forall mp k f el st, la k = true ->
  tailkm mp k (S f) el st =
  bind (tc (ops k)) (fun o => match o with
                              | Some tk => bind (pkm mp (k - 1) f) (fun r => tailkm mp k f (nodek k (t_ty tk) el r))
                              | None => ret el
                              end) st.
Proof. intros mp k f el st H. apply la_cases in H. destruct H as [H|[H|[H|[H|H]]]]; subst k; reflexivity. Qed.

Lemma tailm_stopG : forall mp k f el st st', la k = true \/ k = 0%nat -> stopsG k st st' ->
  tailkm mp k (S f) el st = Ok el st'.
Proof.
  intros mp k f el st st' H HS.
  assert (T : tc (ops k) st = Ok None st') by (eapply tc_stopG; eauto).
  destruct H as [H|H].
  - rewrite tailkm_unf by exact H. unfold bind. rewrite T. reflexivity.
  - subst k. cbn [tailkm parse]. unfold bind. cbn [ops] in T. rewrite T. reflexivity.
Qed.

Lemma pkm_zero : forall mp k st, pkm mp k 0 st = Fuel.
Proof. intros mp k st. do 7 (destruct k as [|k]; [reflexivity|]). reflexivity. Qed.

Lemma lv4m_unf : forall mp f st,
  parse (S f) (NLv4 mp) st =
  bind (parse f NArith) (fun l => bind (tc (opsm mp 3)) (fun o =>
    match o with
    | Some _ => if assignable l then bind (parse f NArith) (fun r => ret (EAssign l r)) else fail_peek ErrMustTypeID
    | None => ret l
    end)) st.
Proof. reflexivity. Qed.

Lemma stopbS_opsm3 : forall mp k t, (3 <= k)%nat -> stopbS k t = true -> mem t (opsm mp 3) = false.
Proof.
  intros mp k t L H. pose proof (stopbS_ops k 3 t L H) as A. destruct mp; [|exact A].
  cbn [ops opsm mem existsb] in *. apply orb_false_iff in A. destruct A as [A _]. rewrite A. reflexivity.
Qed.

Lemma climb1m : forall mp k f st st' e, (k < 6)%nat -> pkm mp k f st = Ok e st' -> stopsS (S k) st' ->
  pkm mp (S k) (S f) st = Ok e st'.
Proof.
  intros mp k f st st' e L H HS.
  destruct f as [|f]; [rewrite pkm_zero in H; discriminate|].
  pose proof (stopsG_refl _ _ HS) as HG.
  assert (K : (k = 0 \/ k = 1 \/ k = 2 \/ k = 3 \/ k = 4 \/ k = 5)%nat) by lia.
  destruct K as [K|[K|[K|[K|[K|K]]]]]; subst k.
  - rewrite pkm_unf by reflexivity. unfold bind. cbn [Nat.sub]. rewrite H. apply tailm_stopG; auto.
  - rewrite pkm_unf by reflexivity. unfold bind. cbn [Nat.sub]. rewrite H. apply tailm_stopG; auto.
  - cbn [pkm] in *. rewrite lv4m_unf. unfold bind at 1. rewrite H.
    assert (T : tc (opsm mp 3) st' = Ok None st').
    { eapply tc_list_stopS; [exact HS|]. intros t HT. eapply stopbS_opsm3; [|exact HT]. lia. }
    unfold bind. rewrite T. reflexivity.
  - rewrite pkm_unf by reflexivity. unfold bind. cbn [Nat.sub]. rewrite H. apply tailm_stopG; auto.
  - rewrite pkm_unf by reflexivity. unfold bind. cbn [Nat.sub]. rewrite H. apply tailm_stopG; auto.
  - rewrite pkm_unf by reflexivity. unfold bind. cbn [Nat.sub]. rewrite H. apply tailm_stopG; auto.
Qed.

Lemma climbm : forall mp d k f st st' e, (k + d <= 6)%nat -> pkm mp k f st = Ok e st' -> stopsS (k + d) st' ->
  pkm mp (k + d) (f + d) st = Ok e st'.
Proof.
  induction d as [|d IH]; intros k f st st' e L H HS.
  - rewrite !Nat.add_0_r in *. exact H.
  - replace (k + S d)%nat with (S (k + d)) in * by lia. replace (f + S d)%nat with (S (f + d)) by lia.
    apply climb1m; [lia| |exact HS]. apply IH; [lia|exact H|]. eapply stopsS_le; eauto.
Qed.

(* ================================================================== first tokens of an expression *)
Definition starters : list Z := [g_TypeIdentifier; g_TypeString; g_TypeStmtQuoteL; g_TypeArrayQuoteL; g_TypeFuncQuoteL].
Definition starter2 (t : atok) : Prop := mem (fst t) starters = true.

Record starter_spec (ty : Z) : Prop := mk_starter {
  ss_comma : (ty =? g_TypeCommaSep) = false;
  ss_this : mem ty [g_TypeObjThisW] = false;
  ss_arr1 : mem ty [g_TypeArrayQuoteR; g_TypeAssignMark] = false;
  ss_arr2 : mem ty [g_TypeAssignMark; g_TypeArrayQuoteR] = false;
  ss_arr3 : mem ty [g_TypeArrayQuoteR] = false;
  ss_stop : stopbS 6 ty = true;
  ss_stmt : mem ty stmt_types = false;
  ss_imp : mem ty [g_TypeImportW] = false;
  ss_inp : mem ty [g_TypeInputW] = false;
  ss_catch : mem ty [g_TypeCatchErrorW] = false;
  ss_eof : (ty =? g_TypeEOF) = false;
  ss_basic : mem ty basic_types = true }.

Lemma starter2_facts : forall t, starter2 t -> starter_spec (fst t).
Proof.
  intros [ty l] H. unfold starter2 in H. cbn [fst] in *. apply mem_in in H. unfold starters in H.
  repeat (destruct H as [H|H]; [subst ty; constructor; reflexivity|]). destruct H.
Qed.

Lemma cshow_head : forall s, exists t ts, cshow s = t :: ts /\ starter2 t.
Proof.
  assert (B : forall k p ts, (exists t ts', ts = t :: ts' /\ starter2 t) -> forall X,
              exists t ts', brace k p ts ++ X = t :: ts' /\ starter2 t).
  { intros k p ts (t & ts' & E & ST) X. unfold brace. destruct (p <=? k)%nat.
    - subst ts. eexists _, _. split; [reflexivity|exact ST].
    - eexists _, _. split; [reflexivity|reflexivity]. }
  induction s; cbn [cshow]; try (eexists _, _; split; [reflexivity|reflexivity]); apply B; assumption.
Qed.

Lemma copnd_head : forall k s, exists t ts, copnd k s = t :: ts /\ starter2 t.
Proof.
  intros k s. destruct (cshow_head s) as (t & ts & E & ST). unfold copnd, brace. destruct (cprec s <=? k)%nat.
  - eauto.
  - eexists _, _. split; [reflexivity|reflexivity].
Qed.

Lemma feeds_head : forall t ts st st', feeds (t :: ts) st st' -> headok t st.
Proof. intros t ts st st' H. apply feeds_cons in H. tauto. Qed.

Lemma sepcat_cons2 : forall sep a b r, sepcat sep (a :: b :: r) = a ++ sep :: sepcat sep (b :: r).
Proof. reflexivity. Qed.

Lemma sepcat_head : forall sep x r X, exists t ts, sepcat sep (map cshow (x :: r)) ++ X = t :: ts /\ starter2 t.
Proof.
  intros sep x r X. destruct (cshow_head x) as (t & ts & E & ST). destruct r as [|y r].
  - cbn [map sepcat]. rewrite E. eexists _, _. split; [reflexivity|exact ST].
  - cbn [map]. rewrite sepcat_cons2, E. eexists _, _. split; [reflexivity|exact ST].
Qed.

(* ================================================================== the statements proved by induction *)
Fixpoint cdk (k : nat) (s : cx) : nat :=
  match s with
  | XBin op l _ => if (lvl op =? k)%nat then S (cdk k l) else 1%nat
  | _ => 1%nat
  end.

Fixpoint d0 (s : cx) : nat :=
  match s with
  | XIdxId r _ | XIdxStr r _ | XIdxE r _ | XProp _ r _ => S (d0 r)
  | _ => 1%nat
  end.

Definition OKm (mp : bool) (k : nat) (s : cx) (b : nat) : Prop :=
  forall F st st1 st2, (b <= F)%nat -> feeds (copnd k s) st st1 -> stopsG k st1 st2 -> pkm mp k F st = Ok (cast s) st2.

Definition QKm (mp : bool) (k : nat) (s : cx) (b : nat) : Prop :=
  forall f st st1 st2 R, (b <= f)%nat -> feeds (copnd k s) st st1 -> stopsG (k - 1) st1 st2 ->
    tailkm mp k f (cast s) st2 = R -> pkm mp k (f + cdk k s) st = R.

(* what follows a chain: the end of the expression, or a further postfix step *)
Definition fol (st : pstate) : Prop :=
  (exists st2, stopsG 0 st st2) \/ (exists ty l, headok (ty, l) st /\ mem ty (ops 0) = true).

Definition Q0 (s : cx) (b : nat) : Prop :=
  forall f st st1 R, (b <= f)%nat -> feeds (copnd 0 s) st st1 -> fol st1 ->
    tailk 0 f (cast s) st1 = R -> pk 0 (f + d0 s) st = R.

(* basic expressions: st2 differs from st1 only when 得到 was looked for after a function call and a comma skipped *)
Definition BA (s : cx) (b : nat) : Prop :=
  forall f st st1, (b <= f)%nat -> feeds (copnd 0 s) st st1 -> fol st1 ->
    exists st2, parse f NBasic st = Ok (cast s) st2 /\ forall f' e, tailk 0 (S f') e st2 = tailk 0 (S f') e st1.

Lemma OKm_mono : forall mp k s b b', OKm mp k s b -> (b <= b')%nat -> OKm mp k s b'.
Proof. intros mp k s b b' H L F st st1 st2 LF. apply H. lia. Qed.
Lemma QKm_mono : forall mp k s b b', QKm mp k s b -> (b <= b')%nat -> QKm mp k s b'.
Proof. intros mp k s b b' H L f st st1 st2 R LF. apply H. lia. Qed.
Lemma Q0_mono : forall s b b', Q0 s b -> (b <= b')%nat -> Q0 s b'.
Proof. intros s b b' H L f st st1 R LF. apply H. lia. Qed.

Lemma cprec_le6 : forall s, (cprec s <= 6)%nat.
Proof. destruct s; cbn [cprec]; try lia. apply lvl_le6. Qed.

Lemma copnd_show : forall k s, (cprec s <= k)%nat -> copnd k s = cshow s.
Proof. intros k s H. unfold copnd, brace. apply Nat.leb_le in H. rewrite H. reflexivity. Qed.
Lemma copnd_braced : forall k s, (k < cprec s)%nat -> copnd k s = tL :: cshow s ++ [tR].
Proof. intros k s H. unfold copnd, brace. apply Nat.leb_gt in H. rewrite H. reflexivity. Qed.

Lemma copnd_pred : forall k s, cprec s <> k -> copnd k s = copnd (k - 1) s.
Proof.
  intros k s N. unfold copnd, brace.
  destruct (cprec s <=? k)%nat eqn:A; destruct (cprec s <=? k - 1)%nat eqn:B; try reflexivity.
  - apply Nat.leb_le in A. apply Nat.leb_gt in B. lia.
  - apply Nat.leb_gt in A. apply Nat.leb_le in B. lia.
Qed.

Lemma cdk_other : forall k s, cprec s <> k -> cdk k s = 1%nat.
Proof.
  intros k s N. destruct s; try reflexivity. cbn [cdk cprec] in *.
  apply Nat.eqb_neq in N. rewrite N. reflexivity.
Qed.

(* ------------------------------------------------------------------ level 0: NMember = NBasic, then the chain loop *)
Lemma member_unf : forall F st ty l, headok (ty, l) st -> (ty =? g_TypeCommaSep) = false ->
  mem ty [g_TypeObjThisW] = false ->
  parse (S F) NMember st = bind (parse F NBasic) (fun root => parse F (NMemberTail root)) st.
Proof.
  intros F st ty l HO C MV. pose proof (tc_none_head [g_TypeObjThisW] _ _ _ HO C MV) as T.
  cbn [parse]. stepb T. reflexivity.
Qed.

Lemma tail0_stopG : forall f el st st', stopsG 0 st st' -> tailk 0 (S f) el st = Ok el st'.
Proof. intros f el st st' H. exact (tailm_stopG false 0 f el st st' (or_intror eq_refl) H). Qed.

Lemma ops0_facts : forall ty, mem ty (ops 0) = true -> (ty =? g_TypeCommaSep) = false /\ mem ty [g_TypeGetResultW] = false.
Proof.
  intros ty H. apply mem_in in H. cbn [ops] in H.
  repeat (destruct H as [H|H]; [subst ty; split; reflexivity|]). destruct H.
Qed.

Lemma fol_gr : forall st, fol st ->
  exists st2, tc [g_TypeGetResultW] st = Ok None st2 /\ forall f e, tailk 0 (S f) e st2 = tailk 0 (S f) e st.
Proof.
  intros st [(st2 & HG)|(ty & l & HO & MO)].
  - exists st2. split.
    + eapply tc_list_stopG; [exact HG|]. intros t HT. eapply stopbS_gr; eauto.
    + intros f e. rewrite (tail0_stopG f e st st2 HG).
      apply tail0_stopG. apply stopsG_refl. eapply stopsG_end; eauto.
  - destruct (ops0_facts ty MO) as [C G]. exists st. split; [|reflexivity].
    apply (tc_none_head _ ty l); assumption.
Qed.

Lemma Q0_of_BA : forall s b, BA s b -> d0 s = 1%nat -> Q0 s (S b).
Proof.
  intros s b HB D f st st1 R LF FE FO HT. rewrite D. replace (f + 1)%nat with (S f) by lia. cbn [pk].
  destruct (copnd_head 0 s) as ([ty l] & ts & E & ST). pose proof FE as FE0. rewrite E in FE0.
  apply feeds_head in FE0. destruct (starter2_facts _ ST) as [c0 th a1 a2 a3 sp sm im ip ca eo ba]. cbn [fst] in *.
  rewrite (member_unf f st ty l FE0 c0 th).
  destruct (HB f st st1 ltac:(lia) FE FO) as (st2 & PB & TE).
  unfold bind. rewrite PB. destruct f as [|f']; [lia|].
  change (parse (S f') (NMemberTail (cast s)) st2) with (tailk 0 (S f') (cast s) st2). rewrite TE. exact HT.
Qed.

Lemma basic_str : forall f st st' n, headok (g_TypeString, n) st -> p_next st = Ok tt st' ->
  parse (S f) NBasic st = Ok (EStr n) st'.
Proof.
  intros f st st' n HO PN.
  destruct (tc_take basic_types _ _ _ _ HO PN eq_refl eq_refl) as (tk & T & Ty & X).
  cbn [parse]. unfold bind. rewrite T. cbv zeta. rewrite Ty.
  change (g_TypeString =? g_TypeIdentifier) with false.
  change (g_TypeString =? g_TypeString) with true. cbv iota. unfold ret. rewrite X. reflexivity.
Qed.

Lemma BA_id : forall n, BA (XId n) 1.
Proof.
  intros n f st st1 LF FE _. exists st1. split; [|reflexivity].
  change (copnd 0 (XId n)) with [(g_TypeIdentifier, n)] in FE. apply feeds_one in FE. destruct FE as [HO PN].
  destruct f as [|f]; [lia|]. apply basic_id; assumption.
Qed.

Lemma BA_str : forall n, BA (XStr n) 1.
Proof.
  intros n f st st1 LF FE _. exists st1. split; [|reflexivity].
  change (copnd 0 (XStr n)) with [(g_TypeString, n)] in FE. apply feeds_one in FE. destruct FE as [HO PN].
  destruct f as [|f]; [lia|]. apply basic_str; assumption.
Qed.

Lemma stopbS_closers : stopbS 6 g_TypeStmtQuoteR = true /\ stopbS 6 g_TypeArrayQuoteR = true /\
  stopbS 6 g_TypeFuncQuoteR = true /\ stopbS 6 g_TypePauseCommaSep = true.
Proof. repeat split; vm_compute; reflexivity. Qed.

Lemma BA_brace : forall s b, OKm false 6 s b -> (0 < cprec s)%nat -> BA s (S b).
Proof.
  intros s b H6 P f st st1 LF FE _. exists st1. split; [|reflexivity].
  rewrite copnd_braced in FE by exact P.
  apply feeds_cons in FE. destruct FE as (HO & sta & PN & FE).
  apply feeds_app in FE. destruct FE as (stb & FS & FR).
  apply feeds_one in FR. destruct FR as [HR PR].
  destruct f as [|f]; [lia|].
  apply (basic_brace f st sta stb st1); auto.
  apply (H6 f sta stb stb); [lia| |].
  - rewrite copnd_show by apply cprec_le6. exact FS.
  - apply stopsG_refl. eapply headok_stopsS; [exact HR|apply stopbS_closers].
Qed.

(* ------------------------------------------------------------------ the postfix steps *)
Lemma chain_root : forall root X st st1, feeds (brace 0 (cprec root) (cshow root) ++ X) st st1 ->
  exists stm, feeds (copnd 0 root) st stm /\ feeds X stm st1.
Proof. intros root X st st1 H. apply feeds_app in H. exact H. Qed.

Lemma Q0_idxid : forall root n b, Q0 root b -> Q0 (XIdxId root n) b.
Proof.
  intros root n b HQ f st st1 R LF FE FO HT.
  change (copnd 0 (XIdxId root n)) with (brace 0 (cprec root) (cshow root) ++ [tHash; (g_TypeIdentifier, n)]) in FE.
  apply chain_root in FE. destruct FE as (stm & FR & FS).
  apply feeds_cons in FS. destruct FS as (HOh & sta & PNh & FS). apply feeds_one in FS. destruct FS as [HOi PNi].
  cbn [d0]. replace (f + S (d0 root))%nat with (S f + d0 root)%nat by lia.
  apply (HQ (S f) st stm R); [lia|exact FR|right; exists g_TypeMapHash, []; split; [exact HOh|reflexivity]|].
  cbn [tailk parse].
  destruct (tc_take (ops 0) _ _ _ _ HOh PNh eq_refl eq_refl) as (tk & T & Ty & _). cbn [ops] in T.
  stepb T. rewrite Ty. change (g_TypeMapHash =? g_TypeMapHash) with true. cbv iota.
  destruct (tc_take [g_TypeIdentifier; g_TypeString; g_TypeStmtQuoteL] _ _ _ _ HOi PNi eq_refl eq_refl) as (tk2 & T2 & Ty2 & X2).
  stepb T2. rewrite Ty2. change (g_TypeIdentifier =? g_TypeIdentifier) with true. cbv iota. rewrite X2. exact HT.
Qed.

Lemma Q0_idxstr : forall root n b, Q0 root b -> Q0 (XIdxStr root n) b.
Proof.
  intros root n b HQ f st st1 R LF FE FO HT.
  change (copnd 0 (XIdxStr root n)) with (brace 0 (cprec root) (cshow root) ++ [tHash; (g_TypeString, n)]) in FE.
  apply chain_root in FE. destruct FE as (stm & FR & FS).
  apply feeds_cons in FS. destruct FS as (HOh & sta & PNh & FS). apply feeds_one in FS. destruct FS as [HOi PNi].
  cbn [d0]. replace (f + S (d0 root))%nat with (S f + d0 root)%nat by lia.
  apply (HQ (S f) st stm R); [lia|exact FR|right; exists g_TypeMapHash, []; split; [exact HOh|reflexivity]|].
  cbn [tailk parse].
  destruct (tc_take (ops 0) _ _ _ _ HOh PNh eq_refl eq_refl) as (tk & T & Ty & _). cbn [ops] in T.
  stepb T. rewrite Ty. change (g_TypeMapHash =? g_TypeMapHash) with true. cbv iota.
  destruct (tc_take [g_TypeIdentifier; g_TypeString; g_TypeStmtQuoteL] _ _ _ _ HOi PNi eq_refl eq_refl) as (tk2 & T2 & Ty2 & X2).
  stepb T2. rewrite Ty2. change (g_TypeString =? g_TypeIdentifier) with false.
  change (g_TypeString =? g_TypeString) with true. cbv iota. rewrite X2. exact HT.
Qed.

Lemma Q0_prop : forall w root n b, Q0 root b -> Q0 (XProp w root n) b.
Proof.
  intros w root n b HQ f st st1 R LF FE FO HT.
  change (copnd 0 (XProp w root n)) with (brace 0 (cprec root) (cshow root) ++ [tDot w; (g_TypeIdentifier, n)]) in FE.
  apply chain_root in FE. destruct FE as (stm & FR & FS).
  apply feeds_cons in FS. destruct FS as (HOh & sta & PNh & FS). apply feeds_one in FS. destruct FS as [HOi PNi].
  cbn [d0]. replace (f + S (d0 root))%nat with (S f + d0 root)%nat by lia.
  assert (MO : mem (fst (tDot w)) (ops 0) = true) by (destruct w; reflexivity).
  assert (CO : (fst (tDot w) =? g_TypeCommaSep) = false) by (destruct w; reflexivity).
  assert (NH : (fst (tDot w) =? g_TypeMapHash) = false) by (destruct w; reflexivity).
  apply (HQ (S f) st stm R); [lia|exact FR|right; exists (fst (tDot w)), []; split; [exact HOh|exact MO]|].
  cbn [tailk parse].
  destruct (tc_take (ops 0) (fst (tDot w)) [] _ _ HOh PNh CO MO) as (tk & T & Ty & _). cbn [ops] in T.
  stepb T. rewrite Ty, NH.
  destruct (tc_take [g_TypeIdentifier] _ _ _ _ HOi PNi eq_refl eq_refl) as (tk2 & T2 & Ty2 & X2).
  stepb T2. rewrite X2. exact HT.
Qed.

Lemma Q0_idxe : forall root i b bi, Q0 root b -> OKm false 6 i bi -> Q0 (XIdxE root i) (Nat.max b bi).
Proof.
  intros root i b bi HQ HI f st st1 R LF FE FO HT.
  change (copnd 0 (XIdxE root i)) with (brace 0 (cprec root) (cshow root) ++ tHash :: tL :: cshow i ++ [tR]) in FE.
  apply chain_root in FE. destruct FE as (stm & FR & FS).
  apply feeds_cons in FS. destruct FS as (HOh & sta & PNh & FS).
  apply feeds_cons in FS. destruct FS as (HOl & stb & PNl & FS).
  apply feeds_app in FS. destruct FS as (stc & FI & FS). apply feeds_one in FS. destruct FS as [HOr PNr].
  cbn [d0]. replace (f + S (d0 root))%nat with (S f + d0 root)%nat by lia.
  apply (HQ (S f) st stm R); [lia|exact FR|right; exists g_TypeMapHash, []; split; [exact HOh|reflexivity]|].
  cbn [tailk parse].
  destruct (tc_take (ops 0) _ _ _ _ HOh PNh eq_refl eq_refl) as (tk & T & Ty & _). cbn [ops] in T.
  stepb T. rewrite Ty. change (g_TypeMapHash =? g_TypeMapHash) with true. cbv iota.
  destruct (tc_take [g_TypeIdentifier; g_TypeString; g_TypeStmtQuoteL] _ _ _ _ HOl PNl eq_refl eq_refl) as (tk2 & T2 & Ty2 & X2).
  stepb T2. rewrite Ty2. change (g_TypeStmtQuoteL =? g_TypeIdentifier) with false.
  change (g_TypeStmtQuoteL =? g_TypeString) with false. cbv iota.
  assert (PI : parse f (NExpr false) stb = Ok (cast i) stc).
  { apply (HI f stb stc stc); [lia| |].
    - rewrite copnd_show by apply cprec_le6. exact FI.
    - apply stopsG_refl. eapply headok_stopsS; [exact HOr|apply stopbS_closers]. }
  stepb PI. stepb (consume_take _ _ _ _ HOr PNr eq_refl). exact HT.
Qed.

Lemma Q0_OK : forall mp s b, Q0 s b -> OKm mp 0 s (b + 1 + d0 s).
Proof.
  intros mp s b HQ F st st1 st2 LF FE HS. rewrite pkm_low by lia.
  replace F with ((F - d0 s) + d0 s)%nat by lia.
  apply (HQ (F - d0 s)%nat st st1); [lia|exact FE|left; exists st2; exact HS|].
  destruct (F - d0 s)%nat as [|f] eqn:EF; [lia|].
  apply tail0_stopG. exact HS.
Qed.

(* ------------------------------------------------------------------ from the level of the top operator to every level *)
Lemma OKm_up : forall mp s b j, OKm mp (cprec s) s b -> (cprec s <= j <= 6)%nat -> OKm mp j s (b + 6).
Proof.
  intros mp s b j H L F st st1 st2 LF FE HS.
  rewrite copnd_show in FE by lia.
  replace j with (cprec s + (j - cprec s))%nat in * by lia.
  replace F with ((F - (j - cprec s)) + (j - cprec s))%nat by lia.
  apply climbm; [lia| |eapply stopsG_end; eauto].
  apply (H _ st st1 st2); [lia| |eapply stopsG_le; eauto; lia].
  rewrite copnd_show by lia. exact FE.
Qed.

Lemma OKm_all : forall mp s b j, (forall mp', OKm mp' (cprec s) s b) -> (j <= 6)%nat -> OKm mp j s (b + 20).
Proof.
  intros mp s b j H L.
  destruct (le_lt_dec (cprec s) j) as [D|D].
  - eapply OKm_mono; [apply OKm_up; eauto|lia].
  - assert (H6 : OKm false 6 s (b + 6)) by (apply OKm_up; [apply H|pose proof (cprec_le6 s); lia]).
    assert (HB : BA s (S (b + 6))) by (apply BA_brace; [exact H6|lia]).
    assert (HQ : Q0 s (S (S (b + 6)))).
    { apply Q0_of_BA; [exact HB|]. destruct s; try reflexivity; cbn [cprec] in D; lia. }
    assert (H0 : OKm mp 0 s (b + 10)).
    { eapply OKm_mono; [apply Q0_OK; exact HQ|]. destruct s; cbn [d0]; cbn [cprec] in D; lia. }
    intros F st st1 st2 LF FE HS.
    rewrite copnd_braced in FE by exact D.
    replace F with ((F - j) + j)%nat by lia.
    apply (climbm mp j 0); [lia| |eapply stopsG_end; eauto].
    apply (H0 _ st st1 st2); [lia| |eapply stopsG_le; eauto; lia].
    rewrite copnd_braced by lia. exact FE.
Qed.

(* ------------------------------------------------------------------ the loops of the left-associative levels *)
Lemma allops_gr : forallb (fun op => negb (op =? g_TypeGetResultW)) allops = true.
Proof. vm_compute. reflexivity. Qed.

Lemma lvl_factsS : forall op k, lvl op = k -> k <> 0%nat ->
  stopbS (k - 1) op = true /\ mem op (ops k) = true /\ (op =? g_TypeCommaSep) = false.
Proof.
  intros op k E N. destruct (lvl_facts op k E N) as (A & B & C). split; [|auto].
  unfold stopbS. rewrite A. pose proof allops_gr as G. rewrite forallb_forall in G.
  rewrite (G op); [reflexivity|]. apply lvl_allops. congruence.
Qed.

Lemma QKm_base : forall mp k s b, la k = true -> OKm mp (k - 1) s b -> cprec s <> k -> QKm mp k s b.
Proof.
  intros mp k s b LA HO N f st st1 st2 R LF FE HS HT.
  rewrite (cdk_other k s N). replace (f + 1)%nat with (S f) by lia.
  rewrite pkm_unf by exact LA. unfold bind.
  rewrite copnd_pred in FE by exact N.
  rewrite (HO f st st1 st2 LF FE HS). exact HT.
Qed.

Lemma QKm_step : forall mp k op l r b1 b2, la k = true -> lvl op = k ->
  QKm mp k l b1 -> OKm mp (k - 1) r b2 -> QKm mp k (XBin op l r) (Nat.max b1 b2).
Proof.
  intros mp k op l r b1 b2 LA E HQ HO f st st1 st2 R LF FE HS HT.
  assert (K0 : k <> 0%nat) by (intro Z0; subst k; rewrite Z0 in LA; discriminate).
  destruct (lvl_factsS op k E K0) as (SB & MO & CO).
  rewrite copnd_show in FE by (cbn [cprec]; lia).
  cbn [cshow] in FE. rewrite E in FE. fold (copnd k l) in FE. fold (copnd (k - 1) r) in FE.
  apply feeds_app in FE. destruct FE as (stl & FL & FE).
  apply feeds_cons in FE. destruct FE as (HOp & stm & PN & FR).
  cbn [cdk]. rewrite E, Nat.eqb_refl. replace (f + S (cdk k l))%nat with (S f + cdk k l)%nat by lia.
  apply (HQ (S f) st stl stl R); [lia|exact FL|apply stopsG_refl; eapply headok_stopsS; eauto|].
  rewrite tailkm_unf by exact LA.
  destruct (tc_take (ops k) _ _ _ _ HOp PN CO MO) as (tk & T & Ty & _).
  unfold bind at 1. rewrite T. unfold bind.
  rewrite (HO f stm st1 st2 ltac:(lia) FR HS). rewrite Ty.
  cbn [cast] in HT. rewrite E in HT. exact HT.
Qed.

Lemma QKm_OK : forall mp k s b, la k = true -> QKm mp k s b -> OKm mp k s (b + 1 + cdk k s).
Proof.
  intros mp k s b LA HQ F st st1 st2 LF FE HS.
  replace F with ((F - cdk k s) + cdk k s)%nat by lia.
  apply (HQ (F - cdk k s)%nat st st1 st2); [lia|exact FE|eapply stopsG_le; eauto; lia|].
  destruct (F - cdk k s)%nat as [|f] eqn:EF; [lia|].
  apply tailm_stopG; [auto|]. apply stopsG_refl. eapply stopsG_end; eauto.
Qed.

(* ------------------------------------------------------------------ array literals: 【 e1 ， e2 ... 】 *)
Fixpoint cspine (s : cx) : nat :=
  match s with
  | XBin _ l _ => S (cspine l)
  | XIdxId r _ | XIdxStr r _ | XIdxE r _ | XProp _ r _ => S (cspine r)
  | _ => 1%nat
  end.

Fixpoint ccfuel (s : cx) : nat :=
  match s with
  | XId _ | XStr _ => 30%nat
  | XBin op l r => (Nat.max (ccfuel l) (ccfuel r) + S (cspine l) + 30)%nat
  | XIdxId r _ | XIdxStr r _ | XProp _ r _ => (ccfuel r + S (cspine r) + 30)%nat
  | XIdxE r i => (Nat.max (ccfuel r) (ccfuel i) + S (cspine r) + 30)%nat
  | XArr l | XCall _ l => (list_max (map ccfuel l) + length l + 40)%nat
  end.

(* one item and the comma / closing bracket after it *)
Lemma arr_item : forall x r f st st', OKm true 6 x (ccfuel x) -> (ccfuel x <= f)%nat ->
  feeds (sepcat tCom (map cshow (x :: r)) ++ [tAR]) st st' ->
  exists stx, parse f (NExpr true) st = Ok (cast x) stx /\
    ((r = [] /\ headok tAR stx /\ p_next stx = Ok tt st') \/
     (r <> [] /\ (exists t, headok t stx /\ starter2 t) /\ feeds (sepcat tCom (map cshow r) ++ [tAR]) stx st')).
Proof.
  intros x r f st st' HX LF FE. destruct r as [|y r'].
  - cbn [map sepcat] in FE. apply feeds_app in FE. destruct FE as (stx & FX & FA).
    apply feeds_one in FA. destruct FA as [HOA PNA]. exists stx. split; [|left; auto].
    apply (HX f st stx stx LF); [rewrite copnd_show by apply cprec_le6; exact FX|].
    apply stopsG_refl. eapply headok_stopsS; [exact HOA|apply stopbS_closers].
  - cbn [map] in FE. rewrite sepcat_cons2 in FE. rewrite <- app_assoc in FE. cbn [app] in FE.
    apply feeds_app in FE. destruct FE as (stx & FX & FE).
    apply feeds_cons in FE. destruct FE as (HOC & stc & PNC & FE).
    change (cshow y :: map cshow r') with (map cshow (y :: r')) in FE.
    destruct (sepcat_head tCom y r' [tAR]) as (t & ts & E & ST). pose proof FE as FE0. rewrite E in FE0.
    apply feeds_head in FE0. exists stc. split; [|right; split; [discriminate|split; [eauto|exact FE]]].
    apply (HX f st stx stc LF); [rewrite copnd_show by apply cprec_le6; exact FX|].
    right. destruct HOC as (Hf & tk & P2 & Ty & _). cbn [tCom fst] in Ty. exists tk.
    split; [exact P2|]. split; [rewrite Ty; reflexivity|]. split; [exact PNC|].
    destruct t as [ty l]. eapply headok_stopsS; [exact FE0|]. destruct (starter2_facts _ ST) as [c0 th a1 a2 a3 sp sm im ip ca eo ba]. exact sp.
Qed.

Lemma list_max_cons : forall a l, list_max (a :: l) = Nat.max a (list_max l).
Proof. reflexivity. Qed.

Lemma arr_items : forall l, l <> [] -> Forall (fun s => OKm true 6 s (ccfuel s)) l ->
  forall F acc st st', (list_max (map ccfuel l) + length l <= F)%nat ->
    feeds (sepcat tCom (map cshow l) ++ [tAR]) st st' ->
    parse F (NArrayItems acc) st = Ok (EArray (acc ++ map cast l)) st'.
Proof.
  induction l as [|x r IH]; [congruence|]. intros _ HF F acc st st' LF FE.
  inversion HF as [|? ? Hx Hr]; subst.
  cbn [map length] in LF. rewrite list_max_cons in LF.
  destruct F as [|f]; [lia|].
  destruct (arr_item x r f st st' Hx ltac:(lia) FE) as (stx & PX & [(ER & HOA & PNA)|(NR & (t & HOt & ST) & FE2)]).
  - subst r. cbn [parse]. stepb PX.
    destruct (tc_take [g_TypeArrayQuoteR] _ _ _ _ HOA PNA eq_refl eq_refl) as (tk & T & _).
    stepb T. reflexivity.
  - cbn [parse]. stepb PX. destruct t as [ty l]. destruct (starter2_facts _ ST) as [c0 th a1 a2 a3 sp sm im ip ca eo ba]. cbn [fst] in *.
    stepb (tc_none_head [g_TypeArrayQuoteR] ty l stx HOt c0 a3).
    assert (LF' : (list_max (map ccfuel r) + length r <= f)%nat) by lia.
    pose proof (IH NR Hr f (acc ++ [cast x]) stx st' LF' FE2) as PI.
    rewrite <- app_assoc in PI. exact PI.
Qed.

Lemma BA_arr : forall l, Forall (fun s => OKm true 6 s (ccfuel s)) l ->
  BA (XArr l) (list_max (map ccfuel l) + length l + 3).
Proof.
  intros l HF f st st1 LF FE _. exists st1. split; [|reflexivity].
  change (copnd 0 (XArr l)) with (tAL :: sepcat tCom (map cshow l) ++ [tAR]) in FE.
  apply feeds_cons in FE. destruct FE as (HOL & sta & PNL & FE).
  destruct f as [|f]; [lia|].
  destruct (tc_take basic_types _ _ _ _ HOL PNL eq_refl eq_refl) as (tk & T & Ty & _).
  cbn [parse]. stepb T. cbv zeta. rewrite Ty.
  change (g_TypeArrayQuoteL =? g_TypeIdentifier) with false.
  change (g_TypeArrayQuoteL =? g_TypeString) with false.
  change (g_TypeArrayQuoteL =? g_TypeArrayQuoteL) with true. cbv iota.
  destruct f as [|f]; [lia|]. cbn [parse].
  destruct l as [|x r].
  - cbn [map sepcat app] in FE. apply feeds_one in FE. destruct FE as [HOR PNR].
    destruct (tc_take [g_TypeArrayQuoteR; g_TypeAssignMark] _ _ _ _ HOR PNR eq_refl eq_refl) as (tk1 & T1 & Ty1 & _).
    stepb T1. rewrite Ty1. reflexivity.
  - destruct (sepcat_head tCom x r [tAR]) as ([ty0 l0] & ts0 & E0 & ST0). pose proof FE as FE0. rewrite E0 in FE0.
    apply feeds_head in FE0. destruct (starter2_facts _ ST0) as [c0 _ a1 _ _ _ _ _ _ _ _ _]. cbn [fst] in *. rename c0 into c00, a1 into a10.
    stepb (tc_none_head [g_TypeArrayQuoteR; g_TypeAssignMark] ty0 l0 sta FE0 c00 a10).
    inversion HF as [|? ? Hx Hr]; subst.
    cbn [map length] in LF. rewrite list_max_cons in LF.
    destruct (arr_item x r f sta st1 Hx ltac:(lia) FE) as (stx & PX & [(ER & HOA & PNA)|(NR & (t & HOt & ST) & FE2)]).
    + subst r. stepb PX.
      destruct (tc_take [g_TypeAssignMark; g_TypeArrayQuoteR] _ _ _ _ HOA PNA eq_refl eq_refl) as (tk1 & T1 & Ty1 & _).
      stepb T1. rewrite Ty1. reflexivity.
    + stepb PX. destruct t as [ty l]. destruct (starter2_facts _ ST) as [c0 th a1 a2 a3 sp sm im ip ca eo ba]. cbn [fst] in *.
      stepb (tc_none_head [g_TypeAssignMark; g_TypeArrayQuoteR] ty l stx HOt c0 a2).
      assert (LF' : (list_max (map ccfuel r) + length r <= f)%nat) by lia.
      exact (arr_items r NR Hr f [cast x] stx st1 LF' FE2).
Qed.

(* ------------------------------------------------------------------ function calls: （ f ： e1 、 e2 ... ） *)
Lemma arg_item : forall x r f st st1, OKm false 6 x (ccfuel x) -> (ccfuel x <= f)%nat ->
  feeds (sepcat tPause (map cshow (x :: r))) st st1 -> headok tFR st1 ->
  exists stx, parse f (NExpr false) st = Ok (cast x) stx /\
    ((r = [] /\ stx = st1) \/
     (r <> [] /\ exists stc, headok tPause stx /\ p_next stx = Ok tt stc /\ feeds (sepcat tPause (map cshow r)) stc st1)).
Proof.
  intros x r f st st1 HX LF FE HOF. destruct r as [|y r'].
  - cbn [map sepcat] in FE. exists st1. split; [|left; auto].
    apply (HX f st st1 st1 LF); [rewrite copnd_show by apply cprec_le6; exact FE|].
    apply stopsG_refl. eapply headok_stopsS; [exact HOF|apply stopbS_closers].
  - cbn [map] in FE. rewrite sepcat_cons2 in FE.
    apply feeds_app in FE. destruct FE as (stx & FX & FE).
    apply feeds_cons in FE. destruct FE as (HOC & stc & PNC & FE).
    exists stx. split; [|right; split; [discriminate|exists stc; auto]].
    apply (HX f st stx stx LF); [rewrite copnd_show by apply cprec_le6; exact FX|].
    apply stopsG_refl. eapply headok_stopsS; [exact HOC|apply stopbS_closers].
Qed.

Lemma args_items : forall l, l <> [] -> Forall (fun s => OKm false 6 s (ccfuel s)) l ->
  forall F acc st st1, (list_max (map ccfuel l) + length l <= F)%nat ->
    feeds (sepcat tPause (map cshow l)) st st1 -> headok tFR st1 ->
    parse F (NExprList acc) st = Ok (acc ++ map cast l) st1.
Proof.
  induction l as [|x r IH]; [congruence|]. intros _ HF F acc st st1 LF FE HOF.
  inversion HF as [|? ? Hx Hr]; subst.
  cbn [map length] in LF. rewrite list_max_cons in LF.
  destruct F as [|f]; [lia|].
  destruct (arg_item x r f st st1 Hx ltac:(lia) FE HOF) as (stx & PX & [(ER & ES)|(NR & stc & HOP & PNP & FE2)]).
  - subst r stx. cbn [parse]. stepb PX.
    stepb (tc_none_head [g_TypePauseCommaSep] _ _ st1 HOF eq_refl eq_refl). reflexivity.
  - cbn [parse]. stepb PX.
    destruct (tc_take [g_TypePauseCommaSep] _ _ _ _ HOP PNP eq_refl eq_refl) as (tk & T & _).
    stepb T.
    assert (LF' : (list_max (map ccfuel r) + length r <= f)%nat) by lia.
    pose proof (IH NR Hr f (acc ++ [cast x]) stc st1 LF' FE2 HOF) as PI.
    rewrite <- app_assoc in PI. exact PI.
Qed.

Lemma parse_id_take : forall st st' n, headok (g_TypeIdentifier, n) st -> p_next st = Ok tt st' -> parse_id st = Ok n st'.
Proof.
  intros st st' n HO PN. destruct (tc_take [g_TypeIdentifier] _ _ _ _ HO PN eq_refl eq_refl) as (tk & T & _ & X).
  unfold parse_id. stepb T. unfold ret. rewrite X. reflexivity.
Qed.

Lemma funcall_true : forall g l f sta st1 st2, Forall (fun s => OKm false 6 s (ccfuel s)) l ->
  (list_max (map ccfuel l) + length l + 1 <= f)%nat ->
  feeds ((g_TypeIdentifier, g) :: match l with [] => [] | _ => tColon :: sepcat tPause (map cshow l) end ++ [tFR]) sta st1 ->
  tc [g_TypeGetResultW] st1 = Ok None st2 ->
  parse f (NFuncCall true) sta = Ok (Call g (map cast l) None) st2.
Proof.
  intros g l f sta st1 st2 HF LF FE TG.
  apply feeds_cons in FE. destruct FE as (HOg & stb & PNg & FE).
  destruct f as [|f]; [lia|]. cbn [parse].
  stepb (parse_id_take _ _ _ HOg PNg).
  destruct l as [|x r].
  - cbn [app] in FE. apply feeds_one in FE. destruct FE as [HOR PNR].
    stepb (tc_none_head [g_TypeFuncCall] _ _ stb HOR eq_refl eq_refl).
    unfold bind at 1. unfold ret at 1. cbv beta iota.
    stepb (consume_take _ _ _ _ HOR PNR eq_refl).
    stepb TG. reflexivity.
  - cbn [app] in FE. apply feeds_cons in FE. destruct FE as (HOc & stc & PNc & FE).
    apply feeds_app in FE. destruct FE as (std & FA & FE). apply feeds_one in FE. destruct FE as [HOR PNR].
    destruct (tc_take [g_TypeFuncCall] _ _ _ _ HOc PNc eq_refl eq_refl) as (tk & T & _).
    stepb T.
    stepb (args_items (x :: r) ltac:(discriminate) HF f [] stc std ltac:(lia) FA HOR).
    stepb (consume_take _ _ _ _ HOR PNR eq_refl).
    stepb TG. reflexivity.
Qed.

Lemma BA_call : forall g l, Forall (fun s => OKm false 6 s (ccfuel s)) l ->
  BA (XCall g l) (list_max (map ccfuel l) + length l + 3).
Proof.
  intros g l HF f st st1 LF FE FO.
  destruct (fol_gr st1 FO) as (st2 & TG & TE). exists st2. split; [|exact TE].
  change (copnd 0 (XCall g l)) with
    (tFL :: (g_TypeIdentifier, g) :: match l with [] => [] | _ => tColon :: sepcat tPause (map cshow l) end ++ [tFR]) in FE.
  apply feeds_cons in FE. destruct FE as (HOL & sta & PNL & FE).
  destruct f as [|f]; [lia|].
  destruct (tc_take basic_types _ _ _ _ HOL PNL eq_refl eq_refl) as (tk & T & Ty & _).
  cbn [parse]. stepb T. cbv zeta. rewrite Ty.
  change (g_TypeFuncQuoteL =? g_TypeIdentifier) with false.
  change (g_TypeFuncQuoteL =? g_TypeString) with false.
  change (g_TypeFuncQuoteL =? g_TypeArrayQuoteL) with false.
  change (g_TypeFuncQuoteL =? g_TypeStmtQuoteL) with false.
  change (g_TypeFuncQuoteL =? g_TypeFuncQuoteL) with true. cbv iota.
  pose proof (feeds_head _ _ _ _ FE) as HOg.
  stepb (tc_none_head [g_TypeObjNewW] _ _ sta HOg eq_refl eq_refl).
  stepb (funcall_true g l f sta st1 st2 HF ltac:(lia) FE TG). reflexivity.
Qed.

(* ------------------------------------------------------------------ the induction over trees *)
Lemma d0_spine : forall s, (d0 s <= cspine s)%nat.
Proof. induction s; cbn [d0 cspine]; lia. Qed.

Lemma cdk_spine : forall k s, (cdk k s <= cspine s)%nat.
Proof.
  induction s; cbn [cdk cspine]; try lia.
  destruct (lvl op =? k)%nat; lia.
Qed.

Definition ALL (s : cx) (c : nat) : Prop :=
  (forall mp j, (j <= 6)%nat -> OKm mp j s c) /\ (forall mp k, la k = true -> QKm mp k s c) /\ Q0 s c.

Lemma from_Q0 : forall s b c, cprec s = 0%nat -> Q0 s b -> (b + 21 + d0 s <= c)%nat -> ALL s c.
Proof.
  intros s b c P0 HQ L.
  assert (A : forall mp j, (j <= 6)%nat -> OKm mp j s c).
  { intros mp j Lj. eapply OKm_mono; [apply OKm_all; [|exact Lj]|].
    - intro mp'. rewrite P0. apply Q0_OK. exact HQ.
    - lia. }
  split; [exact A|]. split; [|eapply Q0_mono; [exact HQ|lia]].
  intros mp k LA. destruct (la_not0 k LA) as (K0 & K4 & K6).
  apply QKm_base; [exact LA|apply A; lia|lia].
Qed.

Lemma from_OKp : forall s b c, (0 < cprec s)%nat -> (forall mp, OKm mp (cprec s) s b) -> (b + 20 <= c)%nat ->
  (forall mp j, (j <= 6)%nat -> OKm mp j s c) /\ Q0 s c /\
  (forall mp k, la k = true -> cprec s <> k -> QKm mp k s c).
Proof.
  intros s b c P0 HO L.
  assert (A : forall mp j, (j <= 6)%nat -> OKm mp j s c).
  { intros mp j Lj. eapply OKm_mono; [apply OKm_all; [exact HO|exact Lj]|lia]. }
  split; [exact A|]. split.
  - assert (H6 : OKm false 6 s (b + 6)) by (apply OKm_up; [apply HO|pose proof (cprec_le6 s); lia]).
    eapply Q0_mono; [apply Q0_of_BA; [apply BA_brace; [exact H6|exact P0]|]|lia].
    destruct s; try reflexivity; cbn [cprec] in P0; lia.
  - intros mp k LA N. destruct (la_not0 k LA) as (K0 & K4 & K6).
    apply QKm_base; [exact LA|apply A; lia|exact N].
Qed.

Lemma Forall_wf : forall (P : cx -> Prop) l, Forall (fun s => cwf s = true -> P s) l -> forallb cwf l = true -> Forall P l.
Proof.
  intros P l H. induction H as [|x r Hx Hr IH]; intro W; [constructor|].
  cbn [forallb] in W. apply andb_true_iff in W. destruct W as [Wx Wr]. constructor; auto.
Qed.

Theorem ctree_all : forall s, cwf s = true -> ALL s (ccfuel s).
Proof.
  induction s as [n|n|op l r IHl IHr|root n IH|root n IH|root i IH IHi|w root n IH|l IHl|g l IHl] using cx_ind2; intro W.
  - apply (from_Q0 _ 2); [reflexivity|apply Q0_of_BA; [apply BA_id|reflexivity]|cbn; lia].
  - apply (from_Q0 _ 2); [reflexivity|apply Q0_of_BA; [apply BA_str|reflexivity]|cbn; lia].
  - cbn [cwf] in W. apply andb_true_iff in W. destruct W as [W Wr].
    apply andb_true_iff in W. destruct W as [W0 Wl]. apply negb_true_iff in W0. apply Nat.eqb_neq in W0.
    destruct (IHl Wl) as (OL & QL & _). destruct (IHr Wr) as (OR & _ & _). clear IHl IHr.
    set (s := XBin op l r).
    destruct (lvl_cases op) as [C|C]; [contradiction|].
    destruct (la_not0 _ C) as (K0 & K4 & K6).
    pose proof (cdk_spine (lvl op) s) as DS.
    assert (HS : forall mp, QKm mp (lvl op) s (Nat.max (ccfuel l) (ccfuel r))).
    { intro mp. apply QKm_step; [exact C|reflexivity|apply QL; exact C|apply OR; lia]. }
    assert (HO : forall mp, OKm mp (cprec s) s (Nat.max (ccfuel l) (ccfuel r) + 1 + cdk (lvl op) s)).
    { intro mp. cbn [cprec s]. apply QKm_OK; [exact C|apply HS]. }
    destruct (from_OKp s _ (ccfuel s) ltac:(cbn [cprec s]; lia) HO ltac:(cbn [ccfuel cspine s] in *; lia)) as (A & B & D).
    split; [exact A|]. split; [|exact B].
    intros mp k LA. destruct (Nat.eq_dec (cprec s) k) as [E|N]; [|apply D; assumption].
    cbn [cprec s] in E. subst k. eapply QKm_mono; [apply HS|cbn [ccfuel s]; lia].
  - cbn [cwf] in W. destruct (IH W) as (_ & _ & Q). pose proof (d0_spine root).
    apply (from_Q0 _ (ccfuel root)); [reflexivity|apply Q0_idxid; exact Q|cbn [ccfuel d0]; lia].
  - cbn [cwf] in W. destruct (IH W) as (_ & _ & Q). pose proof (d0_spine root).
    apply (from_Q0 _ (ccfuel root)); [reflexivity|apply Q0_idxstr; exact Q|cbn [ccfuel d0]; lia].
  - cbn [cwf] in W. apply andb_true_iff in W. destruct W as [Wr Wi].
    destruct (IH Wr) as (_ & _ & Q). destruct (IHi Wi) as (OI & _ & _). pose proof (d0_spine root).
    apply (from_Q0 _ (Nat.max (ccfuel root) (ccfuel i))); [reflexivity|apply Q0_idxe; [exact Q|apply OI; lia]|cbn [ccfuel d0]; lia].
  - cbn [cwf] in W. destruct (IH W) as (_ & _ & Q). pose proof (d0_spine root).
    apply (from_Q0 _ (ccfuel root)); [reflexivity|apply Q0_prop; exact Q|cbn [ccfuel d0]; lia].
  - cbn [cwf] in W. pose proof (Forall_wf _ l IHl W) as HA.
    apply (from_Q0 _ (S (list_max (map ccfuel l) + length l + 3))); [reflexivity| |cbn [ccfuel d0]; lia].
    apply Q0_of_BA; [|reflexivity]. apply BA_arr.
    eapply Forall_impl; [|exact HA]. intros a (OA & _ & _). apply OA. lia.
  - cbn [cwf] in W. pose proof (Forall_wf _ l IHl W) as HA.
    apply (from_Q0 _ (S (list_max (map ccfuel l) + length l + 3))); [reflexivity| |cbn [ccfuel d0]; lia].
    apply Q0_of_BA; [|reflexivity]. apply BA_call.
    eapply Forall_impl; [|exact HA]. intros a (OA & _ & _). apply OA. lia.
Qed.

(* ================================================================== Part 1: the token-level theorems *)
(* On any parser state that presents the tokens of the printing of s, followed by a token that cannot continue an
   expression (or by one comma and then such a token, or with the statement already complete), ParseExpression
   ([mp = false]) and ParseExpressionMAP ([mp = true]) return exactly the prescribed tree; st2 is the state in front of
   that token (after the comma, if there is one). *)
Theorem parse_cshow_tokens_gen : forall s mp fuel st st1 st2,
  cwf s = true -> (ccfuel s <= fuel)%nat -> feeds (cshow s) st st1 -> stopsG 6 st1 st2 ->
  parse fuel (NExpr mp) st = Ok (cast s) st2.
Proof.
  intros s mp fuel st st1 st2 W LF FE HS.
  destruct (ctree_all s W) as (A & _ & _).
  apply (A mp 6%nat (le_n _) fuel st st1 st2 LF); [|exact HS].
  rewrite copnd_show by apply cprec_le6. exact FE.
Qed.

Theorem parse_cshow_tokens : forall s fuel st st',
  cwf s = true -> (ccfuel s <= fuel)%nat -> feeds (cshow s) st st' -> stopsS 6 st' ->
  parse_expression fuel st = Ok (cast s) st'.
Proof.
  intros s fuel st st' W LF FE HS. unfold parse_expression.
  apply (parse_cshow_tokens_gen s false fuel st st' st' W LF FE). apply stopsG_refl. exact HS.
Qed.

(* the same for every level of the grammar and operands that need braces there *)
Theorem parse_coperand_tokens : forall s mp k fuel st st1 st2,
  cwf s = true -> (k <= 6)%nat -> (ccfuel s <= fuel)%nat -> feeds (copnd k s) st st1 -> stopsG k st1 st2 ->
  pkm mp k fuel st = Ok (cast s) st2.
Proof.
  intros s mp k fuel st st1 st2 W LK LF FE HS.
  destruct (ctree_all s W) as (A & _ & _). apply (A mp k LK fuel st st1 st2 LF FE HS).
Qed.

(* the chain loop itself: with the tokens of s consumed and ANY further postfix steps or an end in front, the parser
   is in the loop of ParseMemberExpr with exactly [cast s] as the root built so far (left associativity of chains) *)
Theorem chain_loop_tokens : forall s f st st1 R,
  cwf s = true -> (ccfuel s <= f)%nat -> feeds (copnd 0 s) st st1 -> fol st1 ->
  parse f (NMemberTail (cast s)) st1 = R -> parse (f + d0 s) NMember st = R.
Proof.
  intros s f st st1 R W LF FE FO HT. destruct (ctree_all s W) as (_ & _ & Q). exact (Q f st st1 R LF FE FO HT).
Qed.

(* ================================================================== Part 2: characters *)
(* spellings of the new tokens: # 之 的 【 】 （ ） ： 、 ， ; a text literal is “...” *)
Definition spellings2 : list (Z * list Z) :=
  [(g_TypeMapHash, [35]); (g_TypeObjDotW, [20043]); (g_TypeObjDotIIW, [30340]);
   (g_TypeArrayQuoteL, [12304]); (g_TypeArrayQuoteR, [12305]); (g_TypeFuncQuoteL, [65288]); (g_TypeFuncQuoteR, [65289]);
   (g_TypeFuncCall, [65306]); (g_TypePauseCommaSep, [12289]); (g_TypeCommaSep, [65292])].

(* characters of a text literal written verbatim between “ and ” *)
Definition strc (c : Z) : bool :=
  negb (c =? StringLit.EOFc) && negb (c =? StringLit.CR) && negb (c =? StringLit.LF) &&
  negb (StringLit.is_left_quote c) && negb (StringLit.is_right_quote c) && negb (c =? StringLit.BT) && StringLit.scalar c.

Definition spell2 (t : atok) : list Z :=
  if fst t =? g_TypeString then 8220 :: snd t ++ [8221]
  else if mem (fst t) (map fst spellings2) then spell_ty (fst t) spellings2
  else spell t.

Definition tok_ok2 (t : atok) : bool :=
  if fst t =? g_TypeString then forallb strc (snd t)
  else if mem (fst t) (map fst spellings2) then (match snd t with [] => true | _ => false end)
  else tok_ok t.

Definition endable2 (t : atok) : bool :=
  endable t || (fst t =? g_TypeString) || (fst t =? g_TypeArrayQuoteR) || (fst t =? g_TypeFuncQuoteR).

Fixpoint joinc2 (ts : list atok) : list Z :=
  match ts with
  | [] => []
  | t :: ts' => match ts' with [] => spell2 t | _ => spell2 t ++ 32 :: joinc2 ts' end
  end.

Definition cshowc (s : cx) : list Z := joinc2 (cshow s).

Fixpoint cleaves_ok (s : cx) : bool :=
  match s with
  | XId n => leaf_ok n
  | XStr s => forallb strc s
  | XBin _ l r => cleaves_ok l && cleaves_ok r
  | XIdxId root n => cleaves_ok root && leaf_ok n
  | XIdxStr root s => cleaves_ok root && forallb strc s
  | XIdxE root i => cleaves_ok root && cleaves_ok i
  | XProp _ root n => cleaves_ok root && leaf_ok n
  | XArr l => forallb cleaves_ok l
  | XCall f l => leaf_ok f && forallb cleaves_ok l
  end.

(* ------------------------------------------------------------------ the lexer on the new tokens *)
Lemma ps_plain : forall cs fuel lit p tail, forallb strc cs = true -> (length cs < fuel)%nat ->
  StringLit.ps_loop fuel 8220 1 lit [] p (cs ++ 8221 :: tail)
  = StringLit.LexOk g_TypeString (lit ++ cs) (p + Z.of_nat (length cs) + 2) [].
Proof.
  induction cs as [|c cs IH]; intros fuel lit p tail HC LF.
  - destruct fuel as [|fuel]; [cbn in LF; lia|]. cbn [app length Z.of_nat]. cbn.
    rewrite app_nil_r. f_equal. lia.
  - destruct fuel as [|fuel]; [cbn in LF; lia|]. cbn [length] in LF.
    cbn [forallb] in HC. apply andb_true_iff in HC. destruct HC as [Hc HC].
    unfold strc in Hc.
    repeat match type of Hc with (_ && _) = true => let H2 := fresh "A" in apply andb_true_iff in Hc; destruct Hc as [Hc H2] end.
    repeat match goal with X : negb _ = true |- _ => apply negb_true_iff in X end.
    cbn [app StringLit.ps_loop]. cbv zeta. cbn [StringLit.peek hd tl].
    rewrite Hc, A4, A3, A2, A1, A0. cbn [orb].
    rewrite IH by (try assumption; lia). rewrite <- app_assoc. cbn [app length]. f_equal. lia.
Qed.

Lemma skipn_app_S : forall (cs : list Z) a tail, skipn (S (length cs)) (cs ++ a :: tail) = tail.
Proof. induction cs as [|c cs IH]; intros a tail; [reflexivity|]. cbn [length app]. rewrite <- (IH a tail) at 2. reflexivity. Qed.

Lemma lex_str : forall l cs tail, forallb strc cs = true -> rest l = 8220 :: cs ++ 8221 :: tail ->
  nt_body l = LOk (mkTok g_TypeString cs (pos l) (pos l + Z.of_nat (length (8220 :: cs ++ [8221]))))
                  (set_pos_rest l (pos l + Z.of_nat (length (8220 :: cs ++ [8221]))) tail).
Proof.
  intros l cs tail HC E. unfold nt_body. rewrite E. cbn [curc hd].
  change (8220 =? EOFc) with false. change ((8220 =? g_CharZHU) || (8220 =? g_SlashOp)) with false.
  change (mem 8220 left_quotes) with true. cbv iota.
  unfold parse_string. rewrite E. cbn [curc hd tl].
  rewrite ps_plain by (try assumption; cbn [length]; rewrite app_length; lia).
  cbn [app map]. rewrite app_nil_r.
  assert (EL : Z.of_nat (length (8220 :: cs ++ [8221])) = Z.of_nat (length cs) + 2).
  { cbn [length]. rewrite app_length. cbn [length]. lia. }
  rewrite EL.
  replace (pos l + Z.of_nat (length cs) + 2 - pos l) with (Z.of_nat (S (S (length cs)))) by lia.
  rewrite Nat2Z.id.
  change (skipn (S (S (length cs))) (8220 :: cs ++ 8221 :: tail)) with (skipn (S (length cs)) (cs ++ 8221 :: tail)).
  rewrite skipn_app_S.
  replace (pos l + (Z.of_nat (length cs) + 2)) with (pos l + Z.of_nat (length cs) + 2) by lia.
  reflexivity.
Qed.

Lemma lex_fixed_sp2 : forall ty cs, In (ty, cs) spellings2 -> forall l t', rest l = cs ++ 32 :: t' ->
  nt_body l = LOk (mkTok ty [] (pos l) (pos l + Z.of_nat (length cs)))
                  (set_pos_rest l (pos l + Z.of_nat (length cs)) (32 :: t')).
Proof.
  intros ty cs HI l t' E. destruct l as [p r it ls sl]. cbn [rest pos] in *. subst r.
  unfold spellings2 in HI.
  repeat (destruct HI as [HI|HI]; [inversion HI; subst ty cs; reflexivity|]).
  destruct HI.
Qed.

Lemma lex_closer_any : forall ty c, In (ty, [c]) [(g_TypeArrayQuoteR, [12305]); (g_TypeFuncQuoteR, [65289])] ->
  forall l tail, rest l = c :: tail ->
  nt_body l = LOk (mkTok ty [] (pos l) (pos l + 1)) (set_pos_rest l (pos l + 1) tail).
Proof.
  intros ty c HI l tail E. destruct l as [p r it ls sl]. cbn [rest pos] in *. subst r.
  repeat (destruct HI as [HI|HI]; [inversion HI; subst ty c; reflexivity|]). destruct HI.
Qed.

Lemma to_text_strc : forall n, forallb strc n = true -> StringLit.to_text n = n.
Proof.
  induction n as [|c n IH]; intro H; [reflexivity|].
  cbn [forallb] in H. apply andb_true_iff in H. destruct H as [Hc H].
  unfold StringLit.to_text in *. cbn [map]. rewrite IH by exact H.
  unfold strc in Hc. apply andb_true_iff in Hc. destruct Hc as [_ Hc]. rewrite Hc. reflexivity.
Qed.

Lemma lex_atok2 : forall t l tail, tok_ok2 t = true -> rest l = spell2 t ++ tail ->
  (exists t', tail = 32 :: t') \/ (endable2 t = true /\ tail_ok tail) ->
  exists tk, nt_body l = LOk tk (set_pos_rest l (pos l + Z.of_nat (length (spell2 t))) tail)
             /\ t_ty tk = fst t /\ text_of tk = snd t.
Proof.
  intros t l tail H E HT. unfold tok_ok2 in H. unfold spell2 in *.
  destruct (fst t =? g_TypeString) eqn:IS.
  - apply Z.eqb_eq in IS. cbn [app] in E. rewrite <- app_assoc in E. cbn [app] in E.
    eexists. split; [apply lex_str; eauto|]. cbn [t_ty]. split; [auto|].
    unfold text_of. cbn [t_lit]. apply to_text_strc. exact H.
  - destruct (mem (fst t) (map fst spellings2)) eqn:M2.
    + pose proof (spell_ty_in _ _ M2) as HI.
      assert (S0 : snd t = []) by (destruct (snd t); [reflexivity|discriminate]).
      destruct HT as [(t' & A)|[EN A]].
      * subst tail. eexists. split; [apply (lex_fixed_sp2 _ _ HI); exact E|]. cbn [t_ty]. split; [reflexivity|].
        unfold text_of. cbn [t_lit]. rewrite S0. reflexivity.
      * unfold endable2, endable in EN. rewrite IS in EN.
        assert (NI : (fst t =? g_TypeIdentifier) = false /\ (fst t =? g_TypeStmtQuoteR) = false).
        { apply mem_in in M2. unfold spellings2 in M2. cbn [map fst] in M2.
          repeat (destruct M2 as [M2|M2]; [rewrite <- M2; split; reflexivity|]). destruct M2. }
        destruct NI as [NI NR]. rewrite NI, NR in EN. cbn [orb] in EN.
        apply orb_true_iff in EN. destruct EN as [EN|EN]; apply Z.eqb_eq in EN; rewrite EN in *.
        -- change (spell_ty g_TypeArrayQuoteR spellings2) with [12305] in *. cbn [app] in E.
           eexists. split; [apply (lex_closer_any g_TypeArrayQuoteR 12305); [left; reflexivity|exact E]|].
           cbn [t_ty]. split; [reflexivity|]. unfold text_of. cbn [t_lit]. rewrite S0. reflexivity.
        -- change (spell_ty g_TypeFuncQuoteR spellings2) with [65289] in *. cbn [app] in E.
           eexists. split; [apply (lex_closer_any g_TypeFuncQuoteR 65289); [right; left; reflexivity|exact E]|].
           cbn [t_ty]. split; [reflexivity|]. unfold text_of. cbn [t_lit]. rewrite S0. reflexivity.
    + apply lex_atok; [exact H|exact E|].
      destruct HT as [A|[EN A]]; [left; exact A|right; split; [|exact A]].
      unfold endable2 in EN. rewrite IS in EN.
      assert (N1 : (fst t =? g_TypeArrayQuoteR) = false).
      { destruct (fst t =? g_TypeArrayQuoteR) eqn:X; [|reflexivity]. apply Z.eqb_eq in X. rewrite X in M2. discriminate. }
      assert (N2 : (fst t =? g_TypeFuncQuoteR) = false).
      { destruct (fst t =? g_TypeFuncQuoteR) eqn:X; [|reflexivity]. apply Z.eqb_eq in X. rewrite X in M2. discriminate. }
      rewrite N1, N2 in EN. rewrite !orb_false_r in EN. exact EN.
Qed.

Lemma spellings2_heads : forallb (fun e : Z * list Z => head_plain (snd e)) spellings2 = true.
Proof. vm_compute. reflexivity. Qed.

Lemma spell_head2 : forall t, tok_ok2 t = true -> head_plain (spell2 t) = true.
Proof.
  intros t H. unfold tok_ok2 in H. unfold spell2. destruct (fst t =? g_TypeString); [reflexivity|].
  destruct (mem (fst t) (map fst spellings2)) eqn:M2; [|apply spell_head; exact H].
  apply spell_ty_in in M2. pose proof spellings2_heads as A. rewrite forallb_forall in A. apply (A _ M2).
Qed.

Lemma spellings2_types : forallb (fun ty => negb (ty =? g_TypeEOF) && negb (ty =? g_TypeComment)) (map fst spellings2) = true.
Proof. vm_compute. reflexivity. Qed.

Lemma tok_ty_ok2 : forall t, tok_ok2 t = true -> (fst t =? g_TypeEOF) = false /\ (fst t =? g_TypeComment) = false.
Proof.
  intros t H. unfold tok_ok2 in H. destruct (fst t =? g_TypeString) eqn:IS.
  - apply Z.eqb_eq in IS. rewrite IS. split; reflexivity.
  - destruct (mem (fst t) (map fst spellings2)) eqn:M2; [|apply tok_ty_ok; exact H].
    apply mem_in in M2. pose proof spellings2_types as A. rewrite forallb_forall in A. specialize (A _ M2).
    apply andb_true_iff in A. destruct A as [A B]. apply negb_true_iff in A. apply negb_true_iff in B. auto.
Qed.

(* ------------------------------------------------------------------ the parser's token buffer along the text *)
Definition after2 (ts : list atok) : list Z := match ts with [] => [] | _ => 32 :: joinc2 ts end.

Lemma joinc2_cons : forall t ts, joinc2 (t :: ts) = spell2 t ++ after2 ts.
Proof. intros t ts. destruct ts as [|t2 ts]; cbn [joinc2 after2]; [rewrite app_nil_r|]; reflexivity. Qed.

Fixpoint lastok2 (ts : list atok) : bool :=
  match ts with
  | [] => true
  | t :: r => match r with [] => endable2 t | _ => lastok2 r end
  end.

Lemma run_to_last2 : forall tail, tail_ok tail -> forall ts t st, geo st -> headok t st -> (fst t =? g_TypeEOF) = false ->
  rest (lx st) = after2 ts ++ tail -> forallb tok_ok2 ts = true -> lastok2 (t :: ts) = true ->
  exists stl, (forall st', p_next stl = Ok tt st' -> feeds (t :: ts) st st') /\ geo stl /\ flag stl = false /\
              (exists tkl, p2 stl = Some tkl /\ (t_ty tkl =? g_TypeEOF) = false) /\
              rest (lx stl) = tail /\ pos (lx stl) = pos (lx st) + Z.of_nat (length (after2 ts)) /\
              bind_ stl = bind_ st.
Proof.
  intros tail TT. induction ts as [|t2 ts IH]; intros t st G HO NE ER TO LO.
  - exists st. split; [intros st' PN; apply feeds_one; split; assumption|].
    split; [exact G|]. destruct HO as (Hf & tk0 & P2 & Ty & Tx).
    split; [exact Hf|]. split; [exists tk0; split; [exact P2|rewrite Ty; exact NE]|].
    split; [exact ER|]. split; [cbn [after2 length Z.of_nat]; lia|reflexivity].
  - cbn [forallb] in TO. apply andb_true_iff in TO. destruct TO as [T2 TO].
    destruct G as (GL & GI & G1 & G2 & GP & GS).
    pose proof HO as HO0. destruct HO as (Hf & tk0 & P2 & Ty & Tx).
    destruct (head_plain_inv _ (spell_head2 _ T2)) as (c & r & SP & CW & CB & CI & CE).
    assert (ER2 : rest (lx st) = 32 :: c :: (r ++ after2 ts ++ tail)).
    { rewrite ER. cbn [after2]. rewrite joinc2_cons, SP. cbn [app]. rewrite <- app_assoc. reflexivity. }
    pose proof (next_token_space _ _ _ ER2 CW CB) as NT.
    set (l1 := set_pos_rest (lx st) (pos (lx st) + 1) (c :: r ++ after2 ts ++ tail)) in *.
    assert (TL : (exists t', after2 ts ++ tail = 32 :: t') \/ (endable2 t2 = true /\ tail_ok (after2 ts ++ tail))).
    { destruct ts as [|t3 ts'].
      - cbn [after2 app]. right. split; [exact LO|exact TT].
      - left. cbn [after2 app]. eauto. }
    destruct (lex_atok2 t2 l1 (after2 ts ++ tail) T2 ltac:(rewrite SP; reflexivity) TL) as (tk2 & LX & Ty2 & Tx2).
    rewrite LX in NT.
    destruct (tok_ty_ok2 _ T2) as [NE2 NC2].
    pose proof (p_next_step st _ _ NT ltac:(rewrite Ty2; exact NC2) GL G1 G2) as PN.
    rewrite P2, Hf, Ty, NE, Ty2, NE2 in PN. cbn [orb] in PN.
    match type of PN with p_next st = Ok tt ?s => set (st1 := s) in * end.
    assert (G' : geo st1).
    { unfold geo, st1, l1. cbn [lx sl2 el2 set_pos_rest lines itype pos slen rest].
      split; [exact GL|]. split; [exact GI|]. split; [reflexivity|]. split; [reflexivity|].
      split; [lia|]. rewrite GS, ER2, SP. cbn [length]. rewrite app_length. cbn [length]. lia. }
    assert (HO1 : headok t2 st1).
    { split; [reflexivity|]. exists tk2. split; [reflexivity|]. auto. }
    assert (LO1 : lastok2 (t2 :: ts) = true) by exact LO.
    destruct (IH t2 st1 G' HO1 NE2 eq_refl TO LO1) as (stl & FE & GF & FF & PF & RF & PP & BF).
    exists stl. split; [intros st' PL; econstructor; eauto|].
    split; [exact GF|]. split; [exact FF|]. split; [exact PF|]. split; [exact RF|].
    split; [|exact BF].
    rewrite PP. unfold st1, l1. cbn [lx set_pos_rest pos]. cbn [after2]. rewrite joinc2_cons, SP.
    cbn [length]. rewrite !app_length. cbn [length]. lia.
Qed.

Lemma end_eofS : forall stl tkl, geo stl -> flag stl = false -> p2 stl = Some tkl -> (t_ty tkl =? g_TypeEOF) = false ->
  rest (lx stl) = [] ->
  exists st', p_next stl = Ok tt st' /\ geo st' /\ flag st' = true /\ peek_ty st' = g_TypeEOF /\
              rest (lx st') = [] /\ bind_ st' = bind_ stl /\ stopsS 6 st'.
Proof.
  intros stl tkl G Hf P2 NE ER.
  destruct (end_eof stl tkl G Hf P2 NE ER) as (st' & PN & GF & FF & PF & RF & BF & (tk & P & C & _)).
  exists st'. repeat (split; [assumption|]). exists tk. split; [exact P|]. split; [exact C|left; exact FF].
Qed.

Lemma run_tokens2 : forall ts t st, geo st -> headok t st -> (fst t =? g_TypeEOF) = false ->
  rest (lx st) = after2 ts -> forallb tok_ok2 ts = true -> lastok2 (t :: ts) = true ->
  exists st', feeds (t :: ts) st st' /\ geo st' /\ flag st' = true /\ peek_ty st' = g_TypeEOF /\
              rest (lx st') = [] /\ bind_ st' = bind_ st /\ stopsS 6 st'.
Proof.
  intros ts t st G HO NE ER TO LO.
  destruct (run_to_last2 [] tail_ok_nil ts t st G HO NE ltac:(rewrite app_nil_r; exact ER) TO LO)
    as (stl & FE & GL & FL & (tkl & PL & NL) & RL & PP & BL).
  destruct (end_eofS stl tkl GL FL PL NL RL) as (st' & PN & GF & FF & PF & RF & BF & SF).
  exists st'. split; [apply FE; exact PN|]. rewrite BF, BL. auto 10.
Qed.

Lemma init_state_gen2 : forall tail, tail_ok tail -> forall t ts,
  tok_ok2 t = true -> forallb tok_ok2 ts = true -> lastok2 (t :: ts) = true ->
  exists l0 st0, lex_init (joinc2 (t :: ts) ++ tail) = LOk tt l0 /\ p_next (init_pstate l0) = Ok tt st0 /\
                 geo st0 /\ headok t st0 /\ rest (lx st0) = after2 ts ++ tail /\ bind_ st0 = 0 /\
                 pos (lx st0) = Z.of_nat (length (spell2 t)).
Proof.
  intros tail TT t ts T1 TO LO.
  destruct (head_plain_inv _ (spell_head2 _ T1)) as (c & r & SP & CW & CB & CI & CE).
  set (src := joinc2 (t :: ts) ++ tail).
  assert (ES : src = c :: r ++ after2 ts ++ tail).
  { unfold src. rewrite joinc2_cons, SP. cbn [app]. rewrite <- app_assoc. reflexivity. }
  set (l0 := mkL 0 src g_IndentUnknown [mkLine 0 0] (Z.of_nat (length src))).
  assert (LI : lex_init src = LOk tt l0).
  { unfold lex_init, parse_begin_lex. cbn [rest]. rewrite ES at 1. rewrite CE, CI. reflexivity. }
  assert (TL : (exists t', after2 ts ++ tail = 32 :: t') \/ (endable2 t = true /\ tail_ok (after2 ts ++ tail))).
  { destruct ts as [|t3 ts'].
    - cbn [after2 app]. right. split; [exact LO|exact TT].
    - left. cbn [after2 app]. eauto. }
  assert (R0 : rest l0 = spell2 t ++ after2 ts ++ tail) by (cbn [l0 rest]; rewrite ES, SP; reflexivity).
  destruct (lex_atok2 t l0 (after2 ts ++ tail) T1 R0 TL) as (tk & LX & Ty & Tx).
  assert (NT : next_token l0 = nt_body l0).
  { apply (next_token_plain l0 c (r ++ after2 ts ++ tail)); [exact ES|exact CW|exact CB]. }
  rewrite LX in NT.
  destruct (tok_ty_ok2 _ T1) as [NE NC].
  pose proof (p_next_step (init_pstate l0) _ _ NT ltac:(rewrite Ty; exact NC) eq_refl eq_refl eq_refl) as PN.
  cbn [init_pstate p2 flag bind_ orb] in PN.
  eexists l0, _. split; [exact LI|]. split; [exact PN|].
  split.
  { unfold geo. cbn [lx sl2 el2 set_pos_rest lines itype pos slen rest l0].
    split; [reflexivity|]. split; [reflexivity|]. split; [reflexivity|]. split; [reflexivity|].
    split; [lia|]. rewrite ES, SP. cbn [length]. rewrite app_length. cbn [length]. lia. }
  split.
  { split; [reflexivity|]. exists tk. split; [reflexivity|]. auto. }
  split; [reflexivity|]. split; [reflexivity|].
  cbn [lx set_pos_rest pos l0]. lia.
Qed.

Lemma init_state2 : forall t ts, tok_ok2 t = true -> forallb tok_ok2 ts = true -> lastok2 (t :: ts) = true ->
  exists l0 st0, lex_init (joinc2 (t :: ts)) = LOk tt l0 /\ p_next (init_pstate l0) = Ok tt st0 /\
                 geo st0 /\ headok t st0 /\ rest (lx st0) = after2 ts /\ bind_ st0 = 0.
Proof.
  intros t ts T1 TO LO.
  destruct (init_state_gen2 [] tail_ok_nil t ts T1 TO LO) as (l0 & st0 & LI & PN & G & HO & ER & B0 & _).
  rewrite app_nil_r in LI, ER. exists l0, st0. auto 10.
Qed.

(* ------------------------------------------------------------------ the printing is made of such tokens *)
Lemma allops_spelled2 : forallb (fun op => tok_ok2 (op, [])) allops = true.
Proof. vm_compute. reflexivity. Qed.

Lemma tok_ok2_id : forall n, tok_ok2 (g_TypeIdentifier, n) = leaf_ok n.
Proof. reflexivity. Qed.
Lemma tok_ok2_str : forall n, tok_ok2 (g_TypeString, n) = forallb strc n.
Proof. reflexivity. Qed.

Lemma forallb_brace2 : forall k p ts, forallb tok_ok2 ts = true -> forallb tok_ok2 (brace k p ts) = true.
Proof.
  intros k p ts H. unfold brace. destruct (p <=? k)%nat; [exact H|].
  cbn [forallb]. rewrite forallb_app, H. reflexivity.
Qed.

Lemma sepcat_tok_ok : forall sep l, tok_ok2 sep = true ->
  Forall (fun s => cwf s = true -> cleaves_ok s = true -> forallb tok_ok2 (cshow s) = true) l ->
  forallb cwf l = true -> forallb cleaves_ok l = true -> forallb tok_ok2 (sepcat sep (map cshow l)) = true.
Proof.
  intros sep l HS H. induction H as [|x r Hx Hr IH]; intros W LO; [reflexivity|].
  cbn [forallb] in W, LO. apply andb_true_iff in W. destruct W as [Wx Wr].
  apply andb_true_iff in LO. destruct LO as [Lx Lr].
  destruct r as [|y r'].
  - cbn [map sepcat]. auto.
  - cbn [map]. rewrite sepcat_cons2. rewrite forallb_app. cbn [forallb]. rewrite (Hx Wx Lx), HS.
    change (cshow y :: map cshow r') with (map cshow (y :: r')). rewrite (IH Wr Lr). reflexivity.
Qed.

Lemma cshow_tok_ok2 : forall s, cwf s = true -> cleaves_ok s = true -> forallb tok_ok2 (cshow s) = true.
Proof.
  induction s as [n|n|op l r IHl IHr|root n IH|root n IH|root i IH IHi|w root n IH|l IHl|g l IHl] using cx_ind2;
    intros W LO; cbn [cwf cleaves_ok] in W, LO.
  - cbn [cshow forallb]. rewrite tok_ok2_id, LO. reflexivity.
  - cbn [cshow forallb]. rewrite tok_ok2_str, LO. reflexivity.
  - apply andb_true_iff in W. destruct W as [W Wr]. apply andb_true_iff in W. destruct W as [W0 Wl].
    apply negb_true_iff in W0. apply Nat.eqb_neq in W0.
    apply andb_true_iff in LO. destruct LO as [LOl LOr].
    cbn [cshow]. rewrite forallb_app. cbn [forallb].
    rewrite (forallb_brace2 _ _ _ (IHl Wl LOl)), (forallb_brace2 _ _ _ (IHr Wr LOr)).
    pose proof allops_spelled2 as A. rewrite forallb_forall in A. rewrite (A op (lvl_allops op W0)). reflexivity.
  - apply andb_true_iff in LO. destruct LO as [LOr LOn].
    cbn [cshow]. rewrite forallb_app. cbn [forallb]. rewrite (forallb_brace2 _ _ _ (IH W LOr)), tok_ok2_id, LOn. reflexivity.
  - apply andb_true_iff in LO. destruct LO as [LOr LOn].
    cbn [cshow]. rewrite forallb_app. cbn [forallb]. rewrite (forallb_brace2 _ _ _ (IH W LOr)), tok_ok2_str, LOn. reflexivity.
  - apply andb_true_iff in W. destruct W as [Wr Wi]. apply andb_true_iff in LO. destruct LO as [LOr LOi].
    cbn [cshow]. rewrite forallb_app. cbn [forallb]. rewrite forallb_app. cbn [forallb].
    rewrite (forallb_brace2 _ _ _ (IH Wr LOr)), (IHi Wi LOi). reflexivity.
  - apply andb_true_iff in LO. destruct LO as [LOr LOn].
    cbn [cshow]. rewrite forallb_app. cbn [forallb]. rewrite (forallb_brace2 _ _ _ (IH W LOr)), tok_ok2_id, LOn.
    destruct w; reflexivity.
  - cbn [cshow forallb]. rewrite forallb_app. cbn [forallb].
    rewrite (sepcat_tok_ok tCom l eq_refl IHl W LO). reflexivity.
  - apply andb_true_iff in LO. destruct LO as [LOg LOl].
    cbn [cshow forallb]. rewrite tok_ok2_id, LOg. rewrite forallb_app. cbn [forallb].
    destruct l as [|x r]; [reflexivity|]. cbn [forallb andb].
    rewrite (sepcat_tok_ok tPause (x :: r) eq_refl IHl W LOl). reflexivity.
Qed.

Lemma lastok2_app : forall a b, b <> [] -> lastok2 (a ++ b) = lastok2 b.
Proof.
  induction a as [|t a IH]; intros b N; [reflexivity|].
  cbn [app]. cbn [lastok2]. destruct (a ++ b) eqn:E.
  - destruct a; cbn in E; [congruence|discriminate].
  - rewrite <- E. apply IH. exact N.
Qed.

Lemma cshow_nonempty : forall s, cshow s <> [].
Proof. intro s. destruct (cshow_head s) as (t & ts & E & _). rewrite E. discriminate. Qed.

Lemma lastok2_brace : forall k p ts, ts <> [] -> lastok2 ts = true -> lastok2 (brace k p ts) = true.
Proof.
  intros k p ts N H. unfold brace. destruct (p <=? k)%nat; [exact H|].
  change (tL :: ts ++ [tR]) with ([tL] ++ ts ++ [tR]).
  rewrite (lastok2_app [tL]) by (intro X; apply app_eq_nil in X; destruct X; discriminate).
  rewrite lastok2_app by discriminate. reflexivity.
Qed.

Lemma cshow_lastok2 : forall s, lastok2 (cshow s) = true.
Proof.
  induction s; cbn [cshow]; try reflexivity; try (rewrite lastok2_app by discriminate; reflexivity).
  - rewrite lastok2_app by discriminate.
    change ((op, []) :: brace (lvl op - 1) (cprec s2) (cshow s2)) with ([(op, @nil Z)] ++ brace (lvl op - 1) (cprec s2) (cshow s2)).
    assert (N : brace (lvl op - 1) (cprec s2) (cshow s2) <> []).
    { unfold brace. destruct (cprec s2 <=? lvl op - 1)%nat; [apply cshow_nonempty|discriminate]. }
    rewrite lastok2_app by exact N. apply lastok2_brace; [apply cshow_nonempty|exact IHs2].
  - rewrite lastok2_app by discriminate.
    change (tHash :: tL :: cshow s2 ++ [tR]) with ([tHash; tL] ++ cshow s2 ++ [tR]).
    rewrite lastok2_app by (intro X; apply app_eq_nil in X; destruct X; discriminate).
    rewrite lastok2_app by discriminate. reflexivity.
  - change (tAL :: sepcat tCom (map cshow items) ++ [tAR]) with ((tAL :: sepcat tCom (map cshow items)) ++ [tAR]).
    rewrite lastok2_app by discriminate. reflexivity.
  - match goal with |- lastok2 (tFL :: ?a :: ?m ++ [tFR]) = true => change (tFL :: a :: m ++ [tFR]) with ((tFL :: a :: m) ++ [tFR]) end.
    rewrite lastok2_app by discriminate. reflexivity.
Qed.

(* ------------------------------------------------------------------ the whole front end: a program that is one expression *)
Section OneExpression2.
Variables (t : atok) (st0 st' : pstate) (e : expr).
Hypothesis ST : starter2 t.
Hypothesis HO : headok t st0.
Hypothesis G0 : geo st0.
Hypothesis B0 : bind_ st0 = 0.
Hypothesis FF : flag st' = true.
Hypothesis PF : peek_ty st' = g_TypeEOF.

Lemma bgo0' : block_goes_on 0 st0 = true.
Proof.
  destruct G0 as (GL & GI & G1 & G2 & GP & GS). destruct HO as (Hf & tk & P2 & Ty & Tx).
  destruct (starter2_facts t ST) as [_ _ _ _ _ _ _ _ _ _ NE _].
  unfold block_goes_on, peek_ty, peek_indent, line_indent. rewrite P2, GL, G1. cbn [tok_ty]. rewrite Ty, NE. reflexivity.
Qed.

Lemma bgo'' : block_goes_on 0 st' = false.
Proof. unfold block_goes_on. rewrite PF. reflexivity. Qed.

Lemma stmt_one2 : forall f, parse f (NExpr false) st0 = Ok e st' -> parse (S f) NStmt st0 = Ok (SExpr e) st'.
Proof.
  intros f PE. destruct (starter2_facts t ST) as [C _ _ _ _ _ MS _ _ _ _ _].
  assert (Hf : flag st0 = false) by (destruct HO; assumption).
  cbn [parse]. stepb (set_flag_same st0 Hf).
  destruct t as [ty l]. stepb (tc_none_head stmt_types ty l st0 HO C MS).
  stepb PE. unfold bind, require_stmt_done, stmt_done. rewrite FF. reflexivity.
Qed.

Lemma exec2_one2 : forall f X, parse f NStmt st0 = Ok (SExpr e) st' ->
  parse f (NExec 0 2 [] [SExpr e] []) st' = Ok X st' ->
  parse (S f) (NExec 0 2 [] [] []) st0 = Ok X st'.
Proof.
  intros f X PS PX. destruct (starter2_facts t ST) as [C _ _ _ _ _ _ _ _ MC _ _].
  assert (Hf : flag st0 = false) by (destruct HO; assumption).
  cbn [parse]. rewrite bgo0'.
  stepb (set_bind_same st0 0 B0). change (2 =? 1) with false. change (2 =? 2) with true. cbv iota.
  stepb (set_flag_same st0 Hf).
  destruct t as [ty l]. stepb (tc_none_head [g_TypeCatchErrorW] ty l st0 HO C MC).
  stepb PS. cbn [app]. exact PX.
Qed.

Lemma exec1_one2 : forall f R, parse f (NExec 0 2 [] [] []) st0 = R -> parse (S f) (NExec 0 1 [] [] []) st0 = R.
Proof.
  intros f R PX. destruct (starter2_facts t ST) as [C _ _ _ _ _ _ _ MI _ _ _].
  cbn [parse]. rewrite bgo0'.
  stepb (set_bind_same st0 0 B0). change (1 =? 1) with true. cbv iota.
  destruct t as [ty l]. stepb (tc_none_head [g_TypeInputW] ty l st0 HO C MI).
  exact PX.
Qed.

Lemma prog2_one2 : forall f x P, parse f (NExec 0 1 [] [] []) st0 = Ok x st' ->
  parse f (NProgram 0 2 [] (Some x)) st' = Ok P st' ->
  parse (S f) (NProgram 0 2 [] None) st0 = Ok P st'.
Proof.
  intros f x P PX PP.
  assert (Hf : flag st0 = false) by (destruct HO; assumption).
  cbn [parse]. rewrite bgo0'.
  stepb (set_bind_same st0 0 B0). stepb (set_flag_same st0 Hf).
  change (2 =? 1) with false. cbv iota. stepb PX. exact PP.
Qed.

Lemma prog1_one2 : forall f R, parse f (NProgram 0 2 [] None) st0 = R -> parse (S f) (NProgram 0 1 [] None) st0 = R.
Proof.
  intros f R PP. destruct (starter2_facts t ST) as [C _ _ _ _ _ _ MI _ _ _ _].
  assert (Hf : flag st0 = false) by (destruct HO; assumption).
  cbn [parse]. rewrite bgo0'.
  stepb (set_bind_same st0 0 B0). stepb (set_flag_same st0 Hf).
  change (1 =? 1) with true. cbv iota.
  destruct t as [ty l]. stepb (tc_none_head [g_TypeImportW] ty l st0 HO C MI).
  exact PP.
Qed.

Lemma program_one2 : forall f, parse f (NExpr false) st0 = Ok e st' ->
  parse (S (S (S (S (S f))))) (NProgram 0 1 [] None) st0 = Ok (mkProgram [] (Some (XBlock [] [SExpr e] []))) st'.
Proof.
  intros f PE. apply prog1_one2.
  apply (prog2_one2 _ (XBlock [] [SExpr e] [])); [|apply prog_end; exact bgo''].
  apply exec1_one2. apply exec2_one2; [apply stmt_one2; exact PE|].
  exact (exec_end f 0 [] [SExpr e] [] st' bgo'').
Qed.
End OneExpression2.

(* ------------------------------------------------------------------ Part 2, main theorems *)
(* the code points of the printing, lexed and parsed from the first character, give exactly the prescribed tree, and
   the whole text is consumed *)
Theorem parse_cshow_chars : forall s fuel, cwf s = true -> cleaves_ok s = true -> (ccfuel s <= fuel)%nat ->
  exists l0 st', lex_init (cshowc s) = LOk tt l0 /\
                 (p_next ;;; parse_expression fuel) (init_pstate l0) = Ok (cast s) st' /\
                 peek_ty st' = g_TypeEOF /\ rest (lx st') = [].
Proof.
  intros s fuel W LO LF.
  destruct (cshow_head s) as (t & ts & E & ST).
  pose proof (cshow_tok_ok2 s W LO) as TO. pose proof (cshow_lastok2 s) as LA. rewrite E in TO, LA.
  cbn [forallb] in TO. apply andb_true_iff in TO. destruct TO as [T1 TO].
  destruct (init_state2 t ts T1 TO LA) as (l0 & st0 & LI & PN & G & HO & ER & B0).
  destruct (tok_ty_ok2 _ T1) as [NE NC].
  destruct (run_tokens2 ts t st0 G HO NE ER TO LA) as (st' & FE & GF & FF & PF & RF & BF & SF).
  exists l0, st'. unfold cshowc. rewrite E. split; [exact LI|].
  split; [|auto]. unfold bind. rewrite PN.
  apply parse_cshow_tokens; auto. rewrite E. exact FE.
Qed.

(* the whole front end: the program is exactly that one expression *)
Theorem compile_cshow_chars : forall s fuel, cwf s = true -> cleaves_ok s = true -> (ccfuel s + 5 <= fuel)%nat ->
  compile fuel (cshowc s) = OTree (one_expression (cast s)) [mkLine 0 0] g_IndentUnknown.
Proof.
  intros s fuel W LO LF.
  destruct (cshow_head s) as (t & ts & E & ST).
  pose proof (cshow_tok_ok2 s W LO) as TO. pose proof (cshow_lastok2 s) as LA. rewrite E in TO, LA.
  cbn [forallb] in TO. apply andb_true_iff in TO. destruct TO as [T1 TO].
  destruct (init_state2 t ts T1 TO LA) as (l0 & st0 & LI & PN & G & HO & ER & B0).
  destruct (tok_ty_ok2 _ T1) as [NE NC].
  destruct (run_tokens2 ts t st0 G HO NE ER TO LA) as (st' & FE & GF & FF & PF & RF & BF & SF).
  assert (PE : parse (fuel - 5) (NExpr false) st0 = Ok (cast s) st').
  { apply parse_cshow_tokens; auto; [lia|]. rewrite E. exact FE. }
  unfold compile, cshowc. rewrite E, LI. unfold bind. rewrite PN.
  assert (PI : peek_indent st0 = 0).
  { destruct G as (GL & GI & G1 & _). unfold peek_indent, line_indent. rewrite GL, G1. reflexivity. }
  rewrite PI. pose proof (program_one2 t st0 st' (cast s) ST HO G B0 FF PF _ PE) as PP.
  replace (S (S (S (S (S (fuel - 5))))))%nat with fuel in PP by lia. rewrite PP.
  rewrite PF. change (g_TypeEOF =? g_TypeEOF) with true. cbn [negb].
  destruct GF as (GL & GI & _). rewrite GL, GI. reflexivity.
Qed.

(* The same in front of any further text [tail] (empty, or starting with a space, or with a mark that ends an identifier):
   the hypothesis says what the lexer makes of the text after the printing (the first token tk after it, not a comment,
   cannot continue an expression); the parser returns the prescribed tree with tk as its peek token. *)
Lemma end_tokenS : forall stl tk l', next_token (lx stl) = LOk tk l' -> (t_ty tk =? g_TypeComment) = false ->
  stopbS 6 (t_ty tk) = true ->
  exists st', p_next stl = Ok tt st' /\ p2 st' = Some tk /\ lx st' = l' /\ stopsS 6 st'.
Proof.
  intros st tk l' NT NC SB. pose proof (stopbS_inv _ _ SB) as [SB0 _]. unfold p_next. cbn [lex_skip_comments]. rewrite NT, NC.
  match goal with |- context [if meet_line_break ?x then _ else _] => destruct (meet_line_break x) end.
  - eexists. split; [reflexivity|]. cbn [set_flag p2 lx]. split; [reflexivity|]. split; [reflexivity|].
    exists tk. split; [reflexivity|]. split; [eapply stopb_comma; eauto|left; reflexivity].
  - eexists. split; [reflexivity|]. cbn [p2 lx]. split; [reflexivity|]. split; [reflexivity|].
    exists tk. split; [reflexivity|]. split; [eapply stopb_comma; eauto|right; exact SB].
Qed.

Theorem parse_cshow_chars_rest : forall s tail fuel tk l',
  cwf s = true -> cleaves_ok s = true -> (ccfuel s <= fuel)%nat -> tail_ok tail ->
  next_token (mkL (Z.of_nat (length (cshowc s))) tail g_IndentUnknown [mkLine 0 0]
                  (Z.of_nat (length (cshowc s)) + Z.of_nat (length tail))) = LOk tk l' ->
  (t_ty tk =? g_TypeComment) = false -> stopbS 6 (t_ty tk) = true ->
  exists l0 st', lex_init (cshowc s ++ tail) = LOk tt l0 /\
                 (p_next ;;; parse_expression fuel) (init_pstate l0) = Ok (cast s) st' /\
                 p2 st' = Some tk /\ lx st' = l'.
Proof.
  intros s tail fuel tk l' W LO LF TT NT NC SB.
  destruct (cshow_head s) as (t & ts & E & ST).
  pose proof (cshow_tok_ok2 s W LO) as TO. pose proof (cshow_lastok2 s) as LA. rewrite E in TO, LA.
  cbn [forallb] in TO. apply andb_true_iff in TO. destruct TO as [T1 TO].
  destruct (init_state_gen2 tail TT t ts T1 TO LA) as (l0 & st0 & LI & PN & G & HO & ER & B0 & P0).
  destruct (tok_ty_ok2 _ T1) as [NE _].
  destruct (run_to_last2 tail TT ts t st0 G HO NE ER TO LA) as (stl & FE & GL & FL & _ & RL & PP & _).
  assert (EL : lx stl = mkL (Z.of_nat (length (cshowc s))) tail g_IndentUnknown [mkLine 0 0]
                           (Z.of_nat (length (cshowc s)) + Z.of_nat (length tail))).
  { destruct GL as (L1 & L2 & _ & _ & _ & L6).
    assert (PS : pos (lx stl) = Z.of_nat (length (cshowc s))).
    { rewrite PP, P0. unfold cshowc. rewrite E, joinc2_cons, app_length. lia. }
    clear PP P0 FE ER G HO. destruct (lx stl) as [p r it ls sl]. cbn [lines itype pos slen rest] in *. subst. reflexivity. }
  rewrite <- EL in NT.
  destruct (end_tokenS stl tk l' NT NC SB) as (st' & PL & P2' & LX' & SF).
  exists l0, st'. unfold cshowc. rewrite E. split; [exact LI|].
  split; [|auto]. unfold bind. rewrite PN.
  apply parse_cshow_tokens; auto. rewrite E. apply FE. exact PL.
Qed.

(* with the fuel the front end gives itself, and for every fuel *)
Theorem compile_cshow_chars_default : forall s, cwf s = true -> cleaves_ok s = true ->
  compile (default_fuel (cshowc s)) (cshowc s) = OTree (one_expression (cast s)) [mkLine 0 0] g_IndentUnknown.
Proof.
  intros s W LO.
  set (F := Nat.max (default_fuel (cshowc s)) (ccfuel s + 5)).
  pose proof (compile_cshow_chars s F W LO ltac:(unfold F; lia)) as HF.
  destruct (compile_mono (default_fuel (cshowc s)) F (cshowc s) ltac:(unfold F; lia)) as [H|H].
  - exfalso. exact (compile_total _ H).
  - rewrite H. exact HF.
Qed.

Theorem compile_cshow_chars_any_fuel : forall s fuel, cwf s = true -> cleaves_ok s = true ->
  compile fuel (cshowc s) = OFuel \/
  compile fuel (cshowc s) = OTree (one_expression (cast s)) [mkLine 0 0] g_IndentUnknown.
Proof.
  intros s fuel W LO.
  set (F := Nat.max fuel (ccfuel s + 5)).
  pose proof (compile_cshow_chars s F W LO ltac:(unfold F; lia)) as HF.
  destruct (compile_mono fuel F (cshowc s) ltac:(unfold F; lia)) as [H|H]; [left; exact H|right].
  rewrite H. exact HF.
Qed.

(* ================================================================== Part 3: the trees of model/Ast.v *)
(* operator trees are the special case without postfix steps: the printing and the prescribed tree are those of
   proofs/ExprPrecProofs.v *)
Fixpoint cx_of_sx (s : sx) : cx :=
  match s with
  | SId n => XId n
  | SBin op l r => XBin op (cx_of_sx l) (cx_of_sx r)
  end.

Lemma cx_of_sx_same : forall s, cast (cx_of_sx s) = ast s /\ cprec (cx_of_sx s) = prec s /\ cshow (cx_of_sx s) = show s /\
  cwf (cx_of_sx s) = wf s /\ cleaves_ok (cx_of_sx s) = leaves_ok s.
Proof.
  induction s as [n|op l IHl r IHr]; [repeat split|].
  destruct IHl as (A1 & A2 & A3 & A4 & A5). destruct IHr as (B1 & B2 & B3 & B4 & B5).
  cbn [cx_of_sx cast ast cprec prec cshow show cwf wf cleaves_ok leaves_ok].
  rewrite A1, A2, A3, A4, A5, B1, B2, B3, B4, B5. repeat split.
Qed.

Section ExprInd.
Variable P : expr -> Prop.
Definition optP (o : option expr) : Prop := match o with Some x => P x | None => True end.
Hypothesis HId : forall l, P (EId l).
Hypothesis HStr : forall l, P (EStr l).
Hypothesis HArray : forall items, Forall P items -> P (EArray items).
Hypothesis HHash : forall kv, P (EHashMap kv).
Hypothesis HAssign : forall t v, P (EAssign t v).
Hypothesis HNew : forall c ps, P (ENew c ps).
Hypothesis HCall : forall n ps y, Forall P ps -> P (ECall (Call n ps y)).
Hypothesis HMember : forall root rt mt mid midx, optP root -> optP midx -> P (EMember root rt mt mid midx).
Hypothesis HMethod : forall root chain y, P (EMethod root chain y).
Hypothesis HLogic : forall ty l r, P l -> P r -> P (ELogic ty l r).
Hypothesis HArith : forall ty l r, P l -> P r -> P (EArith ty l r).
Fixpoint expr_ind2 (e : expr) : P e :=
  match e with
  | EId l => HId l
  | EStr l => HStr l
  | EArray items => HArray items ((fix go (l : list expr) : Forall P l :=
                       match l with [] => Forall_nil P | x :: r => Forall_cons x (expr_ind2 x) (go r) end) items)
  | EHashMap kv => HHash kv
  | EAssign t v => HAssign t v
  | ENew c ps => HNew c ps
  | ECall (Call n ps y) => HCall n ps y ((fix go (l : list expr) : Forall P l :=
                       match l with [] => Forall_nil P | x :: r => Forall_cons x (expr_ind2 x) (go r) end) ps)
  | EMember root rt mt mid midx =>
      HMember root rt mt mid midx
        (match root as o return optP o with Some r => expr_ind2 r | None => I end)
        (match midx as o return optP o with Some r => expr_ind2 r | None => I end)
  | EMethod root chain y => HMethod root chain y
  | ELogic ty l r => HLogic ty l r (expr_ind2 l) (expr_ind2 r)
  | EArith ty l r => HArith ty l r (expr_ind2 l) (expr_ind2 r)
  end.
End ExprInd.

Definition optlist {A B : Type} (f : A -> option B) : list A -> option (list B) :=
  fix go (l : list A) : option (list B) :=
    match l with
    | [] => Some []
    | x :: r => match f x, go r with Some a, Some b => Some (a :: b) | _, _ => None end
    end.

(* the surface tree of an Ast tree (w: the keyword spelling of comparisons and 之 for property access; otherwise the
   marks and 的); an index that is an identifier or a text literal is written without braces *)
Fixpoint cx_of (w : bool) (e : expr) : option cx :=
  match e with
  | EId n => Some (XId n)
  | EStr s => Some (XStr s)
  | EArith ty l r =>
      match arith_op ty, cx_of w l, cx_of w r with
      | Some op, Some a, Some b => Some (XBin op a b)
      | _, _, _ => None
      end
  | ELogic ty l r =>
      match logic_op w ty, cx_of w l, cx_of w r with
      | Some op, Some a, Some b => Some (XBin op a b)
      | _, _, _ => None
      end
  | EMember (Some root) rt mt mid midx =>
      if rt =? RootTypeExpr then
        match cx_of w root with
        | Some r' =>
            if mt =? MemberIndex then
              match mid, midx with
              | None, Some i =>
                  match i with
                  | EId n => Some (XIdxId r' n)
                  | EStr s => Some (XIdxStr r' s)
                  | _ => match cx_of w i with Some i' => Some (XIdxE r' i') | None => None end
                  end
              | _, _ => None
              end
            else if mt =? MemberID then
              match mid, midx with
              | Some n, None => Some (XProp w r' n)
              | _, _ => None
              end
            else None
        | None => None
        end
      else None
  | EArray l => match optlist (cx_of w) l with Some l' => Some (XArr l') | None => None end
  | ECall (Call f l None) => match optlist (cx_of w) l with Some l' => Some (XCall f l') | None => None end
  | _ => None
  end.

Lemma optlist_cast : forall w l, Forall (fun e => forall s, cx_of w e = Some s -> cast s = e /\ cwf s = true) l ->
  forall l', optlist (cx_of w) l = Some l' -> map cast l' = l /\ forallb cwf l' = true.
Proof.
  intros w l H. induction H as [|x r Hx Hr IH]; intros l' E; cbn [optlist] in E.
  - inversion E; subst. split; reflexivity.
  - destruct (cx_of w x) as [a|] eqn:EA; [|discriminate].
    fold (optlist (cx_of w)) in E. destruct (optlist (cx_of w) r) as [b|] eqn:EB; [|discriminate].
    inversion E; subst. destruct (Hx a eq_refl) as [A1 A2]. destruct (IH b eq_refl) as [B1 B2].
    cbn [map forallb]. rewrite A1, A2, B1, B2. split; reflexivity.
Qed.

Lemma cx_of_cast : forall w e s, cx_of w e = Some s -> cast s = e /\ cwf s = true.
Proof.
  intros w e. induction e as [n|n|items IH|kv|t v|c ps|n ps y IH|root rt mt mid midx IHr IHi|root chain y|ty l r IHl IHr|ty l r IHl IHr]
    using expr_ind2; intros s H; cbn [cx_of] in H; try discriminate.
  - inversion H; subst. split; reflexivity.
  - inversion H; subst. split; reflexivity.
  - destruct (optlist (cx_of w) items) as [l'|] eqn:EL; [|discriminate]. inversion H; subst.
    destruct (optlist_cast w items IH l' EL) as [A B]. cbn [cast cwf]. rewrite A, B. split; reflexivity.
  - destruct y; [discriminate|].
    destruct (optlist (cx_of w) ps) as [l'|] eqn:EL; [|discriminate]. inversion H; subst.
    destruct (optlist_cast w ps IH l' EL) as [A B]. cbn [cast cwf]. rewrite A, B. split; reflexivity.
  - destruct root as [root|]; [|discriminate]. cbn [optP] in IHr.
    destruct (rt =? RootTypeExpr) eqn:ER; [|discriminate]. apply Z.eqb_eq in ER. subst rt.
    destruct (cx_of w root) as [r'|] eqn:EC; [|discriminate]. destruct (IHr r' eq_refl) as [A1 A2].
    destruct (mt =? MemberIndex) eqn:EM.
    + apply Z.eqb_eq in EM. subst mt. destruct mid; [discriminate|]. destruct midx as [i|]; [|discriminate].
      unfold optP in IHi.
      destruct i;
        try (match type of H with match ?c with _ => _ end = _ => destruct c as [i'|] eqn:EI; [|discriminate] end;
             injection H as <-; destruct (IHi i' eq_refl) as [B1 B2]; cbn [cast cwf]; rewrite A1, A2, B1, B2; split; reflexivity).
      * injection H as <-. cbn [cast cwf]. rewrite A1, A2. split; reflexivity.
      * injection H as <-. cbn [cast cwf]. rewrite A1, A2. split; reflexivity.
    + destruct (mt =? MemberID) eqn:EM2; [|discriminate]. apply Z.eqb_eq in EM2. subst mt.
      destruct mid as [n|]; [|discriminate]. destruct midx; [discriminate|].
      injection H as <-. cbn [cast cwf]. rewrite A1, A2. split; reflexivity.
  - destruct (logic_op w ty) as [op|] eqn:O; [|discriminate].
    destruct (cx_of w l) as [a|]; [|discriminate]. destruct (cx_of w r) as [b|]; [|discriminate].
    inversion H; subst. destruct (IHl _ eq_refl) as [A1 W1]. destruct (IHr _ eq_refl) as [A2 W2].
    destruct (logic_op_ok _ _ _ O) as [L N]. cbn [cast cwf]. rewrite A1, A2, W1, W2, N.
    apply Nat.eqb_neq in L. rewrite L. split; reflexivity.
  - destruct (arith_op ty) as [op|] eqn:O; [|discriminate].
    destruct (cx_of w l) as [a|]; [|discriminate]. destruct (cx_of w r) as [b|]; [|discriminate].
    inversion H; subst. destruct (IHl _ eq_refl) as [A1 W1]. destruct (IHr _ eq_refl) as [A2 W2].
    destruct (arith_op_ok _ _ O) as [L N]. cbn [cast cwf]. rewrite A1, A2, W1, W2, N.
    apply Nat.eqb_neq in L. rewrite L. split; reflexivity.
Qed.

(* the text of an Ast tree and the trees that have one with identifier / literal characters the lexer takes verbatim *)
Definition print_chain (w : bool) (e : expr) : option (list Z) :=
  match cx_of w e with Some s => if cleaves_ok s then Some (cshowc s) else None | None => None end.
Definition fuel_chain (w : bool) (e : expr) : nat :=
  match cx_of w e with Some s => (ccfuel s + 5)%nat | None => 0%nat end.

(* MAIN THEOREM for the trees of model/Ast.v: whenever an Ast tree (operators, member / index chains, array literals,
   function calls, in any nesting) has a printing, compiling the printing gives the program that consists of exactly
   that tree. *)
Theorem C03_chains_all_trees : forall w e src, print_chain w e = Some src ->
  (forall fuel, (fuel_chain w e <= fuel)%nat -> compile fuel src = OTree (one_expression e) [mkLine 0 0] g_IndentUnknown) /\
  compile (default_fuel src) src = OTree (one_expression e) [mkLine 0 0] g_IndentUnknown /\
  compile_encode src = [[1; 0; 0; 0]; enc_lines [mkLine 0 0]; enc_program (one_expression e)].
Proof.
  intros w e src H. unfold print_chain, fuel_chain in *.
  destruct (cx_of w e) as [s|] eqn:SX; [|discriminate].
  destruct (cleaves_ok s) eqn:LO; [|discriminate]. inversion H; subst src.
  destruct (cx_of_cast w e s SX) as [A W].
  pose proof (compile_cshow_chars_default s W LO) as HD. rewrite A in HD.
  split; [|split; [exact HD|unfold compile_encode; rewrite HD; reflexivity]].
  intros fuel LF. rewrite <- A. apply compile_cshow_chars; auto.
Qed.

(* ------------------------------------------------------------------ which Ast trees have a printing: all of the fragment *)
(* identifiers / numbers (characters [idc]), text literals (characters [strc]), EArith 12..17, ELogic 1, 2, 4..11,
   index and property steps on any such tree, array literals and plain calls (no 得到) of such trees *)
Fixpoint chain_expr (e : expr) : bool :=
  match e with
  | EId n => leaf_ok n
  | EStr s => forallb strc s
  | EArith ty l r => (12 <=? ty) && (ty <=? 17) && chain_expr l && chain_expr r
  | ELogic ty l r => (((1 <=? ty) && (ty <=? 2)) || ((4 <=? ty) && (ty <=? 11))) && chain_expr l && chain_expr r
  | EMember (Some root) rt mt mid midx =>
      (rt =? RootTypeExpr) && chain_expr root &&
      (if mt =? MemberIndex then match mid, midx with None, Some i => chain_expr i | _, _ => false end
       else if mt =? MemberID then match mid, midx with Some n, None => leaf_ok n | _, _ => false end
       else false)
  | EArray l => forallb chain_expr l
  | ECall (Call f l None) => leaf_ok f && forallb chain_expr l
  | _ => false
  end.

Lemma optlist_chain : forall w l,
  Forall (fun e => chain_expr e = true -> exists s, cx_of w e = Some s /\ cleaves_ok s = true) l ->
  forallb chain_expr l = true -> exists l', optlist (cx_of w) l = Some l' /\ forallb cleaves_ok l' = true.
Proof.
  intros w l H. induction H as [|x r Hx Hr IH]; intro C.
  - exists []. split; reflexivity.
  - cbn [forallb] in C. apply andb_true_iff in C. destruct C as [Cx Cr].
    destruct (Hx Cx) as (a & EA & LA). destruct (IH Cr) as (b & EB & LB).
    exists (a :: b). cbn [optlist]. rewrite EA. fold (optlist (cx_of w)). rewrite EB.
    cbn [forallb]. rewrite LA, LB. split; reflexivity.
Qed.

Lemma cx_of_idx : forall w root i r', cx_of w root = Some r' ->
  cx_of w (midx root i) =
  match i with
  | EId n => Some (XIdxId r' n)
  | EStr s => Some (XIdxStr r' s)
  | _ => match cx_of w i with Some i' => Some (XIdxE r' i') | None => None end
  end.
Proof. intros w root i r' H. unfold midx. cbn [cx_of]. rewrite H. reflexivity. Qed.

Lemma cx_of_prop : forall w root n r', cx_of w root = Some r' -> cx_of w (mprop root n) = Some (XProp w r' n).
Proof. intros w root n r' H. unfold mprop. cbn [cx_of]. rewrite H. reflexivity. Qed.

Lemma chain_expr_cx : forall w e, chain_expr e = true -> exists s, cx_of w e = Some s /\ cleaves_ok s = true.
Proof.
  intros w e. induction e as [n|n|items IH|kv|t v|c ps|n ps y IH|root rt mt mid midx IHr IHi|root chain y|ty l r IHl IHr|ty l r IHl IHr]
    using expr_ind2; intro H; cbn [chain_expr] in H; try discriminate.
  - exists (XId n). split; [reflexivity|exact H].
  - exists (XStr n). split; [reflexivity|exact H].
  - destruct (optlist_chain w items IH H) as (l' & EL & LL). exists (XArr l'). cbn [cx_of]. rewrite EL. split; [reflexivity|exact LL].
  - destruct y; [discriminate|]. apply andb_true_iff in H. destruct H as [Hn Hl].
    destruct (optlist_chain w ps IH Hl) as (l' & EL & LL). exists (XCall n l'). cbn [cx_of]. rewrite EL.
    split; [reflexivity|]. cbn [cleaves_ok]. rewrite Hn, LL. reflexivity.
  - destruct root as [root|]; [|discriminate]. unfold optP in IHr, IHi.
    apply andb_true_iff in H. destruct H as [H H3]. apply andb_true_iff in H. destruct H as [H1 H2].
    apply Z.eqb_eq in H1. subst rt. destruct (IHr H2) as (r' & ER & LR).
    destruct (mt =? MemberIndex) eqn:EM.
    + apply Z.eqb_eq in EM. subst mt. destruct mid; [discriminate|]. destruct midx as [i|]; [|discriminate].
      change (EMember (Some root) RootTypeExpr MemberIndex None (Some i)) with (midx root i).
      rewrite (cx_of_idx w root i r' ER).
      destruct i; try (destruct (IHi H3) as (i' & EI & LI); cbv iota; rewrite EI; exists (XIdxE r' i');
                       split; [reflexivity|cbn [cleaves_ok]; rewrite LR, LI; reflexivity]).
      * eexists. split; [reflexivity|]. cbn [cleaves_ok]. cbn [chain_expr] in H3. rewrite LR, H3. reflexivity.
      * eexists. split; [reflexivity|]. cbn [cleaves_ok]. cbn [chain_expr] in H3. rewrite LR, H3. reflexivity.
    + destruct (mt =? MemberID) eqn:EM2; [|discriminate]. apply Z.eqb_eq in EM2. subst mt.
      destruct mid as [n|]; [|discriminate]. destruct midx; [discriminate|].
      change (EMember (Some root) RootTypeExpr MemberID (Some n) None) with (mprop root n).
      rewrite (cx_of_prop w root n r' ER). eexists. split; [reflexivity|]. cbn [cleaves_ok]. rewrite LR, H3. reflexivity.
  - apply andb_true_iff in H. destruct H as [H H2]. apply andb_true_iff in H. destruct H as [H0 H1].
    destruct (IHl H1) as (a & A1 & A2). destruct (IHr H2) as (b & B1 & B2).
    destruct (logic_op_some w ty H0) as (op & O).
    exists (XBin op a b). cbn [cx_of cleaves_ok]. rewrite O, A1, B1, A2, B2. split; reflexivity.
  - apply andb_true_iff in H. destruct H as [H H2]. apply andb_true_iff in H. destruct H as [H0 H1].
    destruct (IHl H1) as (a & A1 & A2). destruct (IHr H2) as (b & B1 & B2).
    destruct (arith_op_some ty H0) as (op & O).
    exists (XBin op a b). cbn [cx_of cleaves_ok]. rewrite O, A1, B1, A2, B2. split; reflexivity.
Qed.

(* MAIN THEOREM, closed form: EVERY tree of the fragment has a minimal-brace text (in either spelling), and compiling
   that text gives the program that consists of exactly that tree *)
Theorem C03_chains_every_tree : forall w e, chain_expr e = true ->
  exists src, print_chain w e = Some src /\
    (forall fuel, (fuel_chain w e <= fuel)%nat -> compile fuel src = OTree (one_expression e) [mkLine 0 0] g_IndentUnknown) /\
    compile (default_fuel src) src = OTree (one_expression e) [mkLine 0 0] g_IndentUnknown /\
    compile_encode src = [[1; 0; 0; 0]; enc_lines [mkLine 0 0]; enc_program (one_expression e)].
Proof.
  intros w e H. destruct (chain_expr_cx w e H) as (s & SX & LO).
  exists (cshowc s).
  assert (P : print_chain w e = Some (cshowc s)) by (unfold print_chain; rewrite SX, LO; reflexivity).
  split; [exact P|]. exact (C03_chains_all_trees w e _ P).
Qed.

(* every operator tree of proofs/ExprPrecProofs.v is in the fragment *)
Lemma op_expr_chain : forall e, op_expr e = true -> chain_expr e = true.
Proof.
  induction e; intro H; cbn [op_expr] in H; try discriminate; cbn [chain_expr].
  - exact H.
  - apply andb_true_iff in H. destruct H as [H H2]. apply andb_true_iff in H. destruct H as [H0 H1].
    rewrite H0, (IHe1 H1), (IHe2 H2). reflexivity.
  - apply andb_true_iff in H. destruct H as [H H2]. apply andb_true_iff in H. destruct H as [H0 H1].
    rewrite H0, (IHe1 H1), (IHe2 H2). reflexivity.
Qed.

(* the operator-tree theorem of proofs/ExprPrecProofs.v is the special case *)
Corollary compile_show_chars_again : forall s fuel, wf s = true -> leaves_ok s = true -> (ccfuel (cx_of_sx s) + 5 <= fuel)%nat ->
  compile fuel (joinc2 (show s)) = OTree (one_expression (ast s)) [mkLine 0 0] g_IndentUnknown.
Proof.
  intros s fuel W LO LF. destruct (cx_of_sx_same s) as (A1 & A2 & A3 & A4 & A5).
  rewrite <- A1, <- A3. apply compile_cshow_chars; [rewrite A4; exact W|rewrite A5; exact LO|exact LF].
Qed.

(* ------------------------------------------------------------------ corollaries: chains against operators *)
Section ChainCorollaries.
Variables a b c d i j : lit.
Hypothesis La : leaf_ok a = true.
Hypothesis Lb : leaf_ok b = true.
Hypothesis Lc : leaf_ok c = true.
Hypothesis Ld : leaf_ok d = true.
Hypothesis Li : leaf_ok i = true.
Hypothesis Lj : leaf_ok j = true.

Ltac by_ctree s :=
  match goal with
  | |- compile ?fuel ?src = _ =>
      change src with (cshowc s);
      rewrite (compile_cshow_chars s fuel eq_refl);
      [reflexivity | cbn [cleaves_ok forallb]; rewrite ?La, ?Lb, ?Lc, ?Ld, ?Li, ?Lj; reflexivity | cbn; lia]
  end.

(* a # i + b 之 c * d # j  is  (a # i) + ((b 之 c) * (d # j)): a postfix chain binds tighter than every operator *)
Corollary chain_binds_tighter : forall fuel, (400 <= fuel)%nat ->
  compile fuel (a ++ [32; 35; 32] ++ i ++ [32; 43; 32] ++ b ++ [32; 20043; 32] ++ c ++ [32; 42; 32] ++ d ++ [32; 35; 32] ++ j)
  = OTree (one_expression (EArith 12 (midx (EId a) (EId i)) (EArith 14 (mprop (EId b) c) (midx (EId d) (EId j)))))
          [mkLine 0 0] g_IndentUnknown.
Proof.
  intros. by_ctree (XBin g_TypePlus (XIdxId (XId a) i) (XBin g_TypeMultiply (XProp true (XId b) c) (XIdxId (XId d) j))).
Qed.

(* a 或 b # i 等于 c 的 d  is  a 或 ((b # i) 等于 (c 的 d)) *)
Corollary chain_binds_tighter_logic : forall fuel, (400 <= fuel)%nat ->
  compile fuel (a ++ [32; 25110; 32] ++ b ++ [32; 35; 32] ++ i ++ [32; 31561; 20110; 32] ++ c ++ [32; 30340; 32] ++ d)
  = OTree (one_expression (ELogic 1 (EId a) (ELogic 4 (midx (EId b) (EId i)) (mprop (EId c) d))))
          [mkLine 0 0] g_IndentUnknown.
Proof.
  intros. by_ctree (XBin g_TypeLogicOrW (XId a) (XBin g_TypeLogicEqualW (XIdxId (XId b) i) (XProp false (XId c) d))).
Qed.

(* a # i # j  is  (a # i) # j, and  a # i 之 b # j  is  ((a # i) 之 b) # j: chains associate to the left *)
Corollary chain_left_assoc : forall fuel, (400 <= fuel)%nat ->
  compile fuel (a ++ [32; 35; 32] ++ i ++ [32; 35; 32] ++ j)
  = OTree (one_expression (midx (midx (EId a) (EId i)) (EId j))) [mkLine 0 0] g_IndentUnknown.
Proof. intros. by_ctree (XIdxId (XIdxId (XId a) i) j). Qed.

Corollary chain_left_assoc_mixed : forall fuel, (400 <= fuel)%nat ->
  compile fuel (a ++ [32; 35; 32] ++ i ++ [32; 20043; 32] ++ b ++ [32; 35; 32] ++ j)
  = OTree (one_expression (midx (mprop (midx (EId a) (EId i)) b) (EId j))) [mkLine 0 0] g_IndentUnknown.
Proof. intros. by_ctree (XIdxId (XProp true (XIdxId (XId a) i) b) j). Qed.

(* a # { b + c * d }: an index in braces holds any operator expression, with its own precedence *)
Corollary index_any_expression : forall fuel, (400 <= fuel)%nat ->
  compile fuel (a ++ [32; 35; 32; 123; 32] ++ b ++ [32; 43; 32] ++ c ++ [32; 42; 32] ++ d ++ [32; 125])
  = OTree (one_expression (midx (EId a) (EArith 12 (EId b) (EArith 14 (EId c) (EId d))))) [mkLine 0 0] g_IndentUnknown.
Proof. intros. by_ctree (XIdxE (XId a) (XBin g_TypePlus (XId b) (XBin g_TypeMultiply (XId c) (XId d)))). Qed.

(* a # { b # i } # j: an index that is itself a chain, then a further step on the outer chain *)
Corollary index_nested_chain : forall fuel, (400 <= fuel)%nat ->
  compile fuel (a ++ [32; 35; 32; 123; 32] ++ b ++ [32; 35; 32] ++ i ++ [32; 125; 32; 35; 32] ++ j)
  = OTree (one_expression (midx (midx (EId a) (midx (EId b) (EId i))) (EId j))) [mkLine 0 0] g_IndentUnknown.
Proof. intros. by_ctree (XIdxId (XIdxE (XId a) (XIdxId (XId b) i)) j). Qed.

(* { a + b } # i  is the index of the sum;  a + b # i  is  a + (b # i) *)
Corollary braces_chain_root : forall fuel, (400 <= fuel)%nat ->
  compile fuel ([123; 32] ++ a ++ [32; 43; 32] ++ b ++ [32; 125; 32; 35; 32] ++ i)
  = OTree (one_expression (midx (EArith 12 (EId a) (EId b)) (EId i))) [mkLine 0 0] g_IndentUnknown.
Proof. intros. by_ctree (XIdxId (XBin g_TypePlus (XId a) (XId b)) i). Qed.

Corollary no_braces_chain_operand : forall fuel, (400 <= fuel)%nat ->
  compile fuel (a ++ [32; 43; 32] ++ b ++ [32; 35; 32] ++ i)
  = OTree (one_expression (EArith 12 (EId a) (midx (EId b) (EId i)))) [mkLine 0 0] g_IndentUnknown.
Proof. intros. by_ctree (XBin g_TypePlus (XId a) (XIdxId (XId b) i)). Qed.

(* 【 a + b ， c # i 】 # j  : items are full expressions, the literal is the root of a chain *)
Corollary array_items_and_chain : forall fuel, (400 <= fuel)%nat ->
  compile fuel ([12304; 32] ++ a ++ [32; 43; 32] ++ b ++ [32; 65292; 32] ++ c ++ [32; 35; 32] ++ i ++ [32; 12305; 32; 35; 32] ++ j)
  = OTree (one_expression (midx (EArray [EArith 12 (EId a) (EId b); midx (EId c) (EId i)]) (EId j))) [mkLine 0 0] g_IndentUnknown.
Proof. intros. by_ctree (XIdxId (XArr [XBin g_TypePlus (XId a) (XId b); XIdxId (XId c) i]) j). Qed.

(* （ a ： b + c 、 d # i ） * j  : arguments are full expressions, the call is an operand *)
Corollary call_arguments_and_operand : forall fuel, (400 <= fuel)%nat ->
  compile fuel ([65288; 32] ++ a ++ [32; 65306; 32] ++ b ++ [32; 43; 32] ++ c ++ [32; 12289; 32] ++ d ++ [32; 35; 32] ++ i ++ [32; 65289; 32; 42; 32] ++ j)
  = OTree (one_expression (EArith 14 (ECall (Call a [EArith 12 (EId b) (EId c); midx (EId d) (EId i)] None)) (EId j)))
          [mkLine 0 0] g_IndentUnknown.
Proof. intros. by_ctree (XBin g_TypeMultiply (XCall a [XBin g_TypePlus (XId b) (XId c); XIdxId (XId d) i]) (XId j)). Qed.
End ChainCorollaries.

(* ------------------------------------------------------------------ examples on concrete code points *)
Definition xA := XId [65]. Definition xB := XId [66]. Definition xC := XId [67]. Definition xD := XId [68].

(* A # 1 + B 之 C * D # 2 *)
Definition ex1 : cx := XBin g_TypePlus (XIdxId xA [49]) (XBin g_TypeMultiply (XProp true xB [67]) (XIdxId xD [50])).
Example ex1_text : cshowc ex1 = [65; 32; 35; 32; 49; 32; 43; 32; 66; 32; 20043; 32; 67; 32; 42; 32; 68; 32; 35; 32; 50].
Proof. vm_compute. reflexivity. Qed.
Example ex1_prescribed : cast ex1 = EArith 12 (midx eA (EId [49])) (EArith 14 (mprop eB [67]) (midx eD (EId [50]))).
Proof. reflexivity. Qed.
Example ex1_compile : compile 400 [65; 32; 35; 32; 49; 32; 43; 32; 66; 32; 20043; 32; 67; 32; 42; 32; 68; 32; 35; 32; 50]
  = OTree (one_expression (EArith 12 (midx eA (EId [49])) (EArith 14 (mprop eB [67]) (midx eD (EId [50]))))) [mkLine 0 0] 0.
Proof. vm_compute. reflexivity. Qed.
(* the same without the optional spaces (not covered by the theorem, by computation): A#1 + B之C * D#2 *)
Example ex1_compile_tight : compile 400 [65; 35; 49; 32; 43; 32; 66; 20043; 67; 32; 42; 32; 68; 35; 50]
  = OTree (one_expression (cast ex1)) [mkLine 0 0] 0.
Proof. vm_compute. reflexivity. Qed.
(* by the general theorem (no computation of the parser) *)
Example ex1_by_theorem : compile (default_fuel (cshowc ex1)) (cshowc ex1) = OTree (one_expression (cast ex1)) [mkLine 0 0] g_IndentUnknown.
Proof. apply compile_cshow_chars_default; vm_compute; reflexivity. Qed.

(* A # 1 # 2  =  (A # 1) # 2 *)
Example ex2_compile : compile 400 [65; 32; 35; 32; 49; 32; 35; 32; 50]
  = OTree (one_expression (midx (midx eA (EId [49])) (EId [50]))) [mkLine 0 0] 0.
Proof. vm_compute. reflexivity. Qed.

(* A # “k” 的 B # { C + D } *)
Definition ex3 : cx := XIdxE (XProp false (XIdxStr xA [107]) [66]) (XBin g_TypePlus xC xD).
Example ex3_text : cshowc ex3 = [65; 32; 35; 32; 8220; 107; 8221; 32; 30340; 32; 66; 32; 35; 32; 123; 32; 67; 32; 43; 32; 68; 32; 125].
Proof. vm_compute. reflexivity. Qed.
Example ex3_compile : compile 400 (cshowc ex3)
  = OTree (one_expression (midx (mprop (midx eA (EStr [107])) [66]) (EArith 12 eC eD))) [mkLine 0 0] 0.
Proof. vm_compute. reflexivity. Qed.
Example ex3_by_theorem : compile (default_fuel (cshowc ex3)) (cshowc ex3) = OTree (one_expression (cast ex3)) [mkLine 0 0] g_IndentUnknown.
Proof. apply compile_cshow_chars_default; vm_compute; reflexivity. Qed.

(* 【 A ， （ F ： B # 1 、 C ） ， 【 】 】 # 0 - 【 D 】 # 0 *)
Definition ex4 : cx :=
  XBin g_TypeMinus (XIdxId (XArr [xA; XCall [70] [XIdxId xB [49]; xC]; XArr []]) [48]) (XIdxId (XArr [xD]) [48]).
Example ex4_text : cshowc ex4 =
  [12304; 32; 65; 32; 65292; 32; 65288; 32; 70; 32; 65306; 32; 66; 32; 35; 32; 49; 32; 12289; 32; 67; 32; 65289; 32; 65292; 32;
   12304; 32; 12305; 32; 12305; 32; 35; 32; 48; 32; 45; 32; 12304; 32; 68; 32; 12305; 32; 35; 32; 48].
Proof. vm_compute. reflexivity. Qed.
Example ex4_compile : compile 800 (cshowc ex4)
  = OTree (one_expression (EArith 13
             (midx (EArray [eA; ECall (Call [70] [midx eB (EId [49]); eC] None); EArray []]) (EId [48]))
             (midx (EArray [eD]) (EId [48])))) [mkLine 0 0] 0.
Proof. vm_compute. reflexivity. Qed.
Example ex4_by_theorem : compile (default_fuel (cshowc ex4)) (cshowc ex4) = OTree (one_expression (cast ex4)) [mkLine 0 0] g_IndentUnknown.
Proof. apply compile_cshow_chars_default; vm_compute; reflexivity. Qed.

(* from the Ast tree: the printing function and the main theorem *)
Example ex1_print : print_chain true (EArith 12 (midx eA (EId [49])) (EArith 14 (mprop eB [67]) (midx eD (EId [50]))))
  = Some [65; 32; 35; 32; 49; 32; 43; 32; 66; 32; 20043; 32; 67; 32; 42; 32; 68; 32; 35; 32; 50].
Proof. vm_compute. reflexivity. Qed.
Example ex1_all_trees :
  compile_encode [65; 32; 35; 32; 49; 32; 43; 32; 66; 32; 20043; 32; 67; 32; 42; 32; 68; 32; 35; 32; 50]
  = [[1; 0; 0; 0]; enc_lines [mkLine 0 0];
     enc_program (one_expression (EArith 12 (midx eA (EId [49])) (EArith 14 (mprop eB [67]) (midx eD (EId [50])))))].
Proof. apply (C03_chains_all_trees true). vm_compute. reflexivity. Qed.

Example ex4_every_tree : exists src, print_chain false (cast ex4) = Some src /\
  compile (default_fuel src) src = OTree (one_expression (cast ex4)) [mkLine 0 0] g_IndentUnknown.
Proof.
  destruct (C03_chains_every_tree false (cast ex4)) as (src & P & _ & D & _); [vm_compute; reflexivity|].
  exists src. split; assumption.
Qed.

(* A # 1 + B directly followed by ： (as in 如果 A # 1 + B：): the tree is the same, the mark is the peek token *)
Example ex_rest_colon2 : exists l0 st',
  lex_init ([65; 32; 35; 32; 49; 32; 43; 32; 66] ++ [65306]) = LOk tt l0 /\
  (p_next ;;; parse_expression 200) (init_pstate l0) = Ok (EArith 12 (midx eA (EId [49])) eB) st' /\
  peek_ty st' = g_TypeFuncCall.
Proof.
  edestruct (parse_cshow_chars_rest (XBin g_TypePlus (XIdxId xA [49]) xB) [65306] 200)
    as (l0 & st' & A1 & A2 & A3 & A4);
    [reflexivity | reflexivity | cbn; lia | reflexivity | vm_compute; reflexivity | reflexivity | reflexivity |].
  exists l0, st'. split; [exact A1|]. split; [exact A2|]. unfold peek_ty. rewrite A3. reflexivity.
Qed.

(* ParseExpressionMAP at the token level is what array items go through: 【 A == B 】 keeps == a comparison *)
Example ex_array_eq : compile 400 [12304; 32; 65; 32; 61; 61; 32; 66; 32; 12305]
  = OTree (one_expression (EArray [ELogic 4 eA eB])) [mkLine 0 0] 0.
Proof. vm_compute. reflexivity. Qed.

(* ================================================================== assumptions *)
Print Assumptions ctree_all.
Print Assumptions parse_cshow_tokens_gen.
Print Assumptions parse_cshow_tokens.
Print Assumptions parse_coperand_tokens.
Print Assumptions chain_loop_tokens.
Print Assumptions parse_cshow_chars.
Print Assumptions parse_cshow_chars_rest.
Print Assumptions compile_cshow_chars.
Print Assumptions compile_cshow_chars_default.
Print Assumptions compile_cshow_chars_any_fuel.
Print Assumptions cx_of_cast.
Print Assumptions C03_chains_all_trees.
Print Assumptions chain_expr_cx.
Print Assumptions C03_chains_every_tree.
Print Assumptions chain_binds_tighter.
Print Assumptions array_items_and_chain.
Print Assumptions call_arguments_and_operand.
