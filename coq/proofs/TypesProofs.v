(* C03 - type definitions, constructors, method-call statements, 其 P: CHARACTER LEVEL.
   The canonical printing of a program of proofs/TypesTokProofs.v (one line per header / simple statement, LF between lines, 4 spaces
   per nesting level, single spaces between tokens) compiles to exactly the prescribed tree, with the line table and the
   indentation type.  The character-level layer of proofs/SectionsProofs.v is extended by the spellings of
   定义 何为 新建 其 得到 (layer 5: spell5 / tok_ok5 / lineok5 / compile_lines_text5, same proofs as layer 4). *)
From Coq Require Import List ZArith Bool Lia Arith.
Import ListNotations.
From Zn.gen Require Import GenFrontTokens.
From Zn.model Require Import LexerTok Lexer Ast Parser.
From Zn.model Require StringLit.
From Zn.proofs Require Import FrontLexProofs FrontCompleteProofs FrontTotalProofs ExprPrecProofs ChainPrecProofs StmtNestProofs.
From Zn.proofs Require Import SectionsTokProofs SectionsProofs.
From Zn.proofs Require Import TypesTokProofs.
Open Scope Z_scope.

(* ================================================================== spellings of the new tokens: 定义 何为 新建 其 得到 *)
Definition spellings5 : list (Z * list Z) :=
  [(g_TypeObjDefineW, [23450; 20041]); (g_TypeGetterW, [20309; 20026]); (g_TypeObjNewW, [26032; 24314]);
   (g_TypeObjThisW, [20854]); (g_TypeGetResultW, [24471; 21040])].
Definition in5 (t : atok) : bool := mem (fst t) (map fst spellings5).
Definition spell5 (t : atok) : list Z := if in5 t then spell_ty (fst t) spellings5 else spell4 t.
Definition tok_ok5 (t : atok) : bool :=
  if in5 t then (match snd t with [] => true | _ => false end) else tok_ok4 t.
Definition endable5 (t : atok) : bool := if in5 t then true else endable4 t.

Fixpoint joinc5 (ts : list atok) : list Z :=
  match ts with
  | [] => []
  | t :: ts' => match ts' with [] => spell5 t | _ => spell5 t ++ 32 :: joinc5 ts' end
  end.
Definition after5 (ts : list atok) : list Z := match ts with [] => [] | _ => 32 :: joinc5 ts end.
Lemma joinc5_cons : forall t ts, joinc5 (t :: ts) = spell5 t ++ after5 ts.
Proof. intros t ts. destruct ts as [|t2 ts]; cbn [joinc5 after5]; [rewrite app_nil_r|]; reflexivity. Qed.

Definition lheads5 : list Z := lheads4 ++ [g_TypeObjDefineW; g_TypeGetterW; g_TypeObjThisW].

Lemma lex_fixed_any5 : forall ty cs, In (ty, cs) spellings5 -> forall l tail, rest l = cs ++ tail ->
  nt_body l = LOk (mkTok ty [] (pos l) (pos l + Z.of_nat (length cs)))
                  (set_pos_rest l (pos l + Z.of_nat (length cs)) tail).
Proof.
  intros ty cs HI l tail E. destruct l as [p r it ls sl]. cbn [rest pos] in *. subst r.
  unfold spellings5 in HI.
  repeat (destruct HI as [HI|HI]; [inversion HI; subst ty cs; reflexivity|]).
  destruct HI.
Qed.

Lemma lheads5_old : forall t, mem (fst t) lheads5 = true -> in5 t = false -> mem (fst t) lheads4 = true.
Proof.
  intros t MH I5. unfold lheads5, mem in MH. rewrite existsb_app in MH. apply orb_true_iff in MH.
  destruct MH as [MH|MH]; [exact MH|]. exfalso. fold (mem (fst t) [g_TypeObjDefineW; g_TypeGetterW; g_TypeObjThisW]) in MH.
  apply mem_in in MH. unfold in5 in I5.
  repeat (destruct MH as [MH|MH]; [rewrite <- MH in I5; discriminate|]). destruct MH.
Qed.

Lemma lex_atok5 : forall t l tail, tok_ok5 t = true -> rest l = spell5 t ++ tail ->
  (exists t', tail = 32 :: t') \/ (endable5 t = true /\ tail_ok tail) ->
  exists tk, nt_body l = LOk tk (set_pos_rest l (pos l + Z.of_nat (length (spell5 t))) tail)
             /\ t_ty tk = fst t /\ text_of tk = snd t /\
             (mem (fst t) lheads5 = true -> pos l <= t_s tk /\ pos l <= t_e tk).
Proof.
  intros t l tail H E HT. unfold tok_ok5 in H. unfold spell5, endable5 in *. destruct (in5 t) eqn:I5.
  - unfold in5 in I5. pose proof (spell_ty_in _ _ I5) as HI.
    assert (S0 : snd t = []) by (destruct (snd t); [reflexivity|discriminate]).
    eexists. split; [apply (lex_fixed_any5 _ _ HI); exact E|]. cbn [t_ty t_s t_e]. split; [reflexivity|].
    split; [unfold text_of; cbn [t_lit]; rewrite S0; reflexivity|intros _; lia].
  - destruct (lex_atok4 t l tail H E HT) as (tk & LX & Ty & Tx & POS). exists tk.
    split; [exact LX|]. split; [exact Ty|]. split; [exact Tx|].
    intro MH. apply POS. apply lheads5_old; assumption.
Qed.

Lemma spellings5_heads : forallb (fun e : Z * list Z => head_plain (snd e)) spellings5 = true.
Proof. vm_compute. reflexivity. Qed.
Lemma spell_head5 : forall t, tok_ok5 t = true -> head_plain (spell5 t) = true.
Proof.
  intros t H. unfold tok_ok5 in H. unfold spell5.
  destruct (in5 t) eqn:I5; [|apply spell_head4; exact H].
  unfold in5 in I5. apply spell_ty_in in I5. pose proof spellings5_heads as A. rewrite forallb_forall in A. apply (A _ I5).
Qed.
Lemma spellings5_types : forallb (fun ty => negb (ty =? g_TypeEOF) && negb (ty =? g_TypeComment)) (map fst spellings5) = true.
Proof. vm_compute. reflexivity. Qed.
Lemma tok_ty_ok5 : forall t, tok_ok5 t = true -> (fst t =? g_TypeEOF) = false /\ (fst t =? g_TypeComment) = false.
Proof.
  intros t H. unfold tok_ok5 in H.
  destruct (in5 t) eqn:I5; [|apply tok_ty_ok4; exact H].
  unfold in5 in I5. apply mem_in in I5. pose proof spellings5_types as A. rewrite forallb_forall in A. specialize (A _ I5).
  apply andb_true_iff in A. destruct A as [A B]. apply negb_true_iff in A. apply negb_true_iff in B. auto.
Qed.

(* up to the state whose peek token is the last token of the line; tail = the text after the line *)
Lemma run_line5 : forall tail, tail_ok tail -> forall ts t st, geoM st -> headok t st -> (fst t =? g_TypeEOF) = false ->
  rest (lx st) = after5 ts ++ tail -> forallb tok_ok5 ts = true -> endable5 (lastt t ts) = true ->
  exists stl, (forall st', p_next stl = Ok tt st' -> feeds (t :: ts) st st') /\ geoM stl /\ flag stl = false /\
    (exists tkl, p2 stl = Some tkl /\ (t_ty tkl =? g_TypeEOF) = false /\
                 t_ty tkl = fst (lastt t ts)) /\
    rest (lx stl) = tail /\ lines (lx stl) = lines (lx st) /\ itype (lx stl) = itype (lx st) /\ bind_ stl = bind_ st /\
    pos (lx stl) = pos (lx st) + Z.of_nat (length (after5 ts)).
Proof.
  intros tail TT. induction ts as [|t2 ts IH]; intros t st G HO NE ER TO LO.
  - exists st. split; [intros st' PN; apply feeds_one; split; assumption|].
    split; [exact G|]. destruct HO as (Hf & tk0 & P2 & Ty & Tx).
    split; [exact Hf|]. split.
    { exists tk0. split; [exact P2|]. rewrite Ty. split; [exact NE|reflexivity]. }
    split; [exact ER|]. cbn [after5 length]. repeat split; try reflexivity. cbn [Z.of_nat]. lia.
  - cbn [forallb] in TO. apply andb_true_iff in TO. destruct TO as [T2 TO].
    pose proof HO as HO0. destruct HO as (Hf & tk0 & P2 & Ty & Tx).
    destruct (head_plain_inv _ (spell_head5 _ T2)) as (c & r & SP & CW & CB & CI & CE).
    assert (ER2 : rest (lx st) = 32 :: c :: (r ++ after5 ts ++ tail)).
    { rewrite ER. cbn [after5]. rewrite joinc5_cons, SP. cbn [app]. rewrite <- app_assoc. reflexivity. }
    pose proof (next_token_space _ _ _ ER2 CW CB) as NT.
    set (l1 := set_pos_rest (lx st) (pos (lx st) + 1) (c :: r ++ after5 ts ++ tail)) in *.
    assert (TL : (exists t', after5 ts ++ tail = 32 :: t') \/ (endable5 t2 = true /\ tail_ok (after5 ts ++ tail))).
    { destruct ts as [|t3 ts'].
      - cbn [after5 app]. right. split; [exact LO|exact TT].
      - left. cbn [after5 app]. eauto. }
    destruct (lex_atok5 t2 l1 (after5 ts ++ tail) T2 ltac:(rewrite SP; reflexivity) TL) as (tk2 & LX & Ty2 & Tx2 & _).
    rewrite LX in NT.
    destruct (tok_ty_ok5 _ T2) as [NE2 NC2].
    pose proof (p_next_inline st _ _ tk0 G NT ltac:(rewrite Ty2; exact NC2) eq_refl P2
                  ltac:(rewrite Ty; exact NE) ltac:(rewrite Ty2; exact NE2)) as PN.
    match type of PN with p_next st = Ok tt ?s => set (st1 := s) in * end.
    assert (G' : geoM st1).
    { destruct G as [A1 A2 A3 A4 A5 A6 A7 A8 A9 A10].
      constructor; unfold st1, l1; cbn [lx sl2 el2 set_pos_rest lines itype pos slen rest]; try assumption; try lia.
      rewrite A5, ER2, SP. cbn [length]. repeat rewrite app_length. cbn [length]. lia. }
    assert (HO1 : headok t2 st1).
    { split; [exact Hf|]. exists tk2. split; [reflexivity|]. auto. }
    destruct (IH t2 st1 G' HO1 NE2 eq_refl TO LO) as (stl & FE & GF & FF & (tkl & PL & NL & ML) & RF & LF & IF & BF & PP).
    exists stl. split; [intros st' PL'; econstructor; eauto|].
    split; [exact GF|]. split; [exact FF|].
    split; [exists tkl; split; [exact PL|split; [exact NL|exact ML]]|].
    split; [exact RF|]. split; [exact LF|]. split; [exact IF|]. split; [exact BF|].
    rewrite PP. unfold st1, l1. cbn [lx set_pos_rest pos]. cbn [after5]. rewrite joinc5_cons, SP.
    cbn [length]. repeat rewrite app_length. cbn [length]. lia.
Qed.

(* over a line break: the first token of the next line *)
Lemma nl_step5 : forall stl tkl n t2 rest2, geoM stl -> p2 stl = Some tkl -> (t_ty tkl =? g_TypeEOF) = false ->
  rest (lx stl) = 10 :: repeat 32 (4 * n) ++ spell5 t2 ++ rest2 -> tok_ok5 t2 = true -> mem (fst t2) lheads5 = true ->
  (exists t', rest2 = 32 :: t') \/ (endable5 t2 = true /\ tail_ok rest2) ->
  exists st1 tk2, p_next stl = Ok tt st1 /\ geoM st1 /\ p2 st1 = Some tk2 /\ t_ty tk2 = fst t2 /\ text_of tk2 = snd t2 /\
    rest (lx st1) = rest2 /\ peek_indent st1 = Z.of_nat n /\
    lines (lx st1) = lines (lx stl) ++ [mkLine (Z.of_nat n) (pos (lx stl) + 1)] /\
    itype (lx st1) = (if (n =? 0)%nat then itype (lx stl) else g_IndentSpace) /\
    pos (lx st1) = pos (lx stl) + 1 + Z.of_nat (4 * n) + Z.of_nat (length (spell5 t2)) /\
    flag st1 = (flag stl || (mlb_ok (t_ty tkl) && negb (mem (fst t2) [g_TypeArrayQuoteR; g_TypeStmtQuoteR]))) /\
    bind_ st1 = bind_ stl.
Proof.
  intros st tkl n t2 rest2 G P NE ER T2 MH HT.
  destruct (head_plain_inv _ (spell_head5 _ T2)) as (c & r & SP & CW & CB & CI & CE).
  assert (ER2 : rest (lx st) = 10 :: repeat 32 (4 * n) ++ c :: (r ++ rest2)).
  { rewrite ER, SP. reflexivity. }
  pose proof (next_token_nl _ n c _ ER2 CW CB CI (lto_geo st G) (gm_it st G)) as NT.
  set (l1 := nl_state (lx st) n (c :: r ++ rest2)) in *.
  assert (R1 : rest l1 = spell5 t2 ++ rest2) by (rewrite SP; reflexivity).
  destruct (lex_atok5 t2 l1 rest2 T2 R1 HT) as (tk2 & LX & Ty2 & Tx2 & POS).
  destruct (POS MH) as (PS & PE).
  rewrite LX in NT. destruct (tok_ty_ok5 _ T2) as [NE2 NC2].
  destruct G as [A1 A2 A3 A4 A5 A6 A7 A8 A9 A10].
  set (nn := Z.of_nat (length (lines (lx st)))).
  assert (F1 : find_line_idx (lines (set_pos_rest l1 (pos l1 + Z.of_nat (length (spell5 t2))) rest2)) (t_s tk2) (sl2 st) = nn).
  { cbn [set_pos_rest lines l1 nl_state]. rewrite A2. apply find_new; [exact A1|]. cbn [l_start]. cbn [l1 nl_state pos] in PS. lia. }
  assert (F2 : find_line_idx (lines (set_pos_rest l1 (pos l1 + Z.of_nat (length (spell5 t2))) rest2)) (t_e tk2) (el2 st) = nn).
  { cbn [set_pos_rest lines l1 nl_state]. rewrite A3, A2. apply find_new; [exact A1|]. cbn [l_start]. cbn [l1 nl_state pos] in PE. lia. }
  pose proof (p_next_gen st tk2 _ nn nn NT ltac:(rewrite Ty2; exact NC2) F1 F2) as PN.
  unfold meet_line_break in PN. cbn [p1 p2 el1 sl2] in PN. rewrite P, NE, Ty2, NE2 in PN. cbn [orb] in PN.
  assert (LTn : (el2 st <? nn) = true) by (apply Z.ltb_lt; unfold nn; lia). rewrite LTn in PN.
  assert (GN : forall fl, geoM (mkP (set_pos_rest l1 (pos l1 + Z.of_nat (length (spell5 t2))) rest2) (Some tkl) (Some tk2)
                                   (sl2 st) (el2 st) nn nn fl (bind_ st))).
  { intro fl. constructor; cbn [lx sl2 el2 set_pos_rest lines itype pos slen rest l1 nl_state].
    - intro X. apply app_eq_nil in X. destruct X; discriminate.
    - rewrite app_length. cbn [length]. unfold nn. lia.
    - reflexivity.
    - lia.
    - rewrite A5, ER. cbn [length]. repeat rewrite app_length. rewrite repeat_length. cbn [length]. lia.
    - rewrite last_app1. cbn [l_start]. lia.
    - rewrite last_app1. cbn [l_indents]. lia.
    - rewrite last_app1. cbn [l_start l_indents]. lia.
    - rewrite last_app1. cbn [l_indents]. intro X. destruct n; [lia|reflexivity].
    - destruct n; [exact A10|right; reflexivity]. }
  assert (PIn : forall fl, peek_indent (mkP (set_pos_rest l1 (pos l1 + Z.of_nat (length (spell5 t2))) rest2) (Some tkl) (Some tk2)
                                   (sl2 st) (el2 st) nn nn fl (bind_ st)) = Z.of_nat n).
  { intro fl. unfold peek_indent. cbn [lx sl2 set_pos_rest lines l1 nl_state]. unfold nn. rewrite line_indent_new. reflexivity. }
  unfold mlb_ok.
  destruct (mem (t_ty tkl) [g_TypeCommaSep; g_TypePauseCommaSep; g_TypeStmtQuoteL; g_TypeArrayQuoteL; g_TypeFuncCall; g_TypeFuncDeclare]) eqn:MM.
  - cbv iota in PN. eexists _, tk2. split; [exact PN|]. split; [apply GN|]. cbn [p2 lx flag bind_ set_pos_rest rest lines itype pos].
    split; [reflexivity|]. split; [exact Ty2|]. split; [exact Tx2|]. split; [reflexivity|]. split; [apply PIn|].
    split; [reflexivity|]. split; [reflexivity|]. split; [cbn [l1 nl_state pos]; reflexivity|].
    split; [cbn [andb negb]; rewrite orb_false_r; reflexivity|reflexivity].
  - destruct (mem (fst t2) [g_TypeArrayQuoteR; g_TypeStmtQuoteR]) eqn:MR; cbv iota in PN.
    + eexists _, tk2. split; [exact PN|]. split; [apply GN|]. cbn [p2 lx flag bind_ set_pos_rest rest lines itype pos].
      split; [reflexivity|]. split; [exact Ty2|]. split; [exact Tx2|]. split; [reflexivity|]. split; [apply PIn|].
      split; [reflexivity|]. split; [reflexivity|]. split; [cbn [l1 nl_state pos]; reflexivity|].
      split; [cbn [andb negb]; rewrite orb_false_r; reflexivity|reflexivity].
    + eexists _, tk2. split; [exact PN|]. cbn [set_flag]. split; [apply GN|]. cbn [p2 lx flag bind_ set_pos_rest rest lines itype pos].
      split; [reflexivity|]. split; [exact Ty2|]. split; [exact Tx2|]. split; [reflexivity|]. split; [apply PIn|].
      split; [reflexivity|]. split; [reflexivity|]. split; [cbn [l1 nl_state pos]; reflexivity|].
      split; [cbn [andb negb]; rewrite orb_true_r; reflexivity|reflexivity].
Qed.

(* ------------------------------------------------------------------ the text of a list of lines *)
Definition ltext5 (l : pline) : list Z := repeat 32 (4 * fst (fst l)) ++ joinc5 (snd (fst l)).
Fixpoint ptext5 (L : list pline) : list Z :=
  match L with
  | [] => []
  | l :: r => ltext5 l ++ match r with [] => [] | _ => 10 :: ptext5 r end
  end.
Definition aftl5 (r : list pline) : list Z := match r with [] => [] | _ => 10 :: ptext5 r end.
Lemma ptext5_cons : forall l r, ptext5 (l :: r) = ltext5 l ++ aftl5 r. Proof. reflexivity. Qed.

(* the line table: indentation level and offset of the first character of every line; the indentation type *)
Fixpoint ltab5 (p : Z) (L : list pline) : list line :=
  match L with
  | [] => []
  | l :: r => mkLine (Z.of_nat (fst (fst l))) p :: ltab5 (p + Z.of_nat (length (ltext5 l)) + 1) r
  end.

Definition lineok5 (l : pline) : bool :=
  match snd (fst l) with
  | [] => false
  | t :: ts => tok_ok5 t && forallb tok_ok5 ts && endable5 (lastt t ts)
              && (if snd l then mlb_ok (fst (lastt t ts)) else true) && mem (fst t) lheads5
  end.

Lemma lheads5_open : forallb (fun ty => negb (mem ty [g_TypeArrayQuoteR; g_TypeStmtQuoteR]) && negb (ty =? g_TypeEOF)) lheads5 = true.
Proof. vm_compute. reflexivity. Qed.
Lemma lheads5_facts : forall ty, mem ty lheads5 = true ->
  mem ty [g_TypeArrayQuoteR; g_TypeStmtQuoteR] = false /\ (ty =? g_TypeEOF) = false.
Proof.
  intros ty H. apply mem_in in H. pose proof lheads5_open as A. rewrite forallb_forall in A. specialize (A _ H).
  apply andb_true_iff in A. destruct A as [A B]. apply negb_true_iff in A. apply negb_true_iff in B. auto.
Qed.

Lemma tail_ok_aftl5 : forall r, tail_ok (aftl5 r).
Proof. intros [|l r]; [apply tail_ok_nil|apply tail_ok_lf]. Qed.

Lemma run_lines5 : forall r d t ts sm st tk, forallb lineok5 ((d, t :: ts, sm) :: r) = true -> geoM st ->
  p2 st = Some tk -> t_ty tk = fst t -> text_of tk = snd t -> peek_indent st = Z.of_nat d ->
  rest (lx st) = after5 ts ++ aftl5 r ->
  exists st', lfeeds ((d, t :: ts, sm) :: r) st st' /\ ateof st' /\
    lines (lx st') = lines (lx st) ++ ltab5 (pos (lx st) + Z.of_nat (length (after5 ts)) + 1) r /\
    itype (lx st') = ityp (itype (lx st)) r.
Proof.
  induction r as [|l2 r2 IH]; intros d t ts sm st tk OK G P Ty Tx PI ER.
  - cbn [forallb] in OK. rewrite andb_true_r in OK. unfold lineok5 in OK. cbn [fst snd] in OK.
    apply andb_true_iff in OK. destruct OK as [OK MH]. apply andb_true_iff in OK. destruct OK as [OK LS].
    apply andb_true_iff in OK. destruct OK as [OK LO]. apply andb_true_iff in OK. destruct OK as [T1 TO].
    destruct (lheads5_facts _ MH) as [_ NE].
    assert (HO : headok t (reb st false (bind_ st))).
    { split; [reflexivity|]. exists tk. split; [exact P|]. auto. }
    destruct (run_line5 (aftl5 []) (tail_ok_aftl5 []) ts t _ (geoM_reb st false (bind_ st) G) HO NE ER TO LO)
      as (stl & FE & GL & FL & (tkl & PL & NL & ML) & RL & LL & IL & BL & PP).
    cbn [aftl5] in RL.
    destruct (eof_step stl tkl GL PL RL) as (st' & PN & FF & EO & LX).
    exists st'. split.
    { econstructor; [exact PI|apply FE; exact PN|intros _; exact FF|constructor]. }
    split; [exact EO|]. rewrite LX, LL, IL. cbn [ltab5 ityp reb lx]. rewrite app_nil_r. auto.
  - cbn [forallb] in OK. apply andb_true_iff in OK. destruct OK as [OK1 OK2].
    pose proof OK2 as OK2'. cbn [forallb] in OK2. apply andb_true_iff in OK2. destruct OK2 as [OKl2 _].
    destruct l2 as [[d2 tss2] sm2]. unfold lineok5 in OKl2. cbn [fst snd] in OKl2.
    destruct tss2 as [|t2 ts2]; [discriminate|].
    unfold lineok5 in OK1. cbn [fst snd] in OK1.
    apply andb_true_iff in OK1. destruct OK1 as [OK MH]. apply andb_true_iff in OK. destruct OK as [OK LS].
    apply andb_true_iff in OK. destruct OK as [OK LO]. apply andb_true_iff in OK. destruct OK as [T1 TO].
    apply andb_true_iff in OKl2. destruct OKl2 as [OK MH2]. apply andb_true_iff in OK. destruct OK as [OK LS2].
    apply andb_true_iff in OK. destruct OK as [OK LO2]. apply andb_true_iff in OK. destruct OK as [T2 TO2].
    destruct (lheads5_facts _ MH) as [_ NE]. destruct (lheads5_facts _ MH2) as [NC2 NE2].
    assert (HO : headok t (reb st false (bind_ st))).
    { split; [reflexivity|]. exists tk. split; [exact P|]. auto. }
    destruct (run_line5 (aftl5 ((d2, t2 :: ts2, sm2) :: r2)) (tail_ok_aftl5 _) ts t _ (geoM_reb st false (bind_ st) G) HO NE ER TO LO)
      as (stl & FE & GL & FL & (tkl & PL & NL & ML) & RL & LL & IL & BL & PP).
    assert (RL2 : rest (lx stl) = 10 :: repeat 32 (4 * d2) ++ spell5 t2 ++ (after5 ts2 ++ aftl5 r2)).
    { rewrite RL. cbn [aftl5]. rewrite ptext5_cons. unfold ltext5. cbn [fst snd]. rewrite joinc5_cons.
      rewrite <- !app_assoc. reflexivity. }
    assert (HT : (exists t', after5 ts2 ++ aftl5 r2 = 32 :: t') \/ (endable5 t2 = true /\ tail_ok (after5 ts2 ++ aftl5 r2))).
    { destruct ts2 as [|t3 ts3].
      - right. cbn [after5 app]. split; [exact LO2|apply tail_ok_aftl5].
      - left. cbn [after5 app]. eauto. }
    destruct (nl_step5 stl tkl d2 t2 _ GL PL NL RL2 T2 MH2 HT)
      as (st1 & tk2 & PN & G1 & P21 & Ty2 & Tx2 & R1 & PI1 & L1 & I1 & PP1 & F1 & B1).
    destruct (IH d2 t2 ts2 sm2 st1 tk2 OK2' G1 P21 Ty2 Tx2 PI1 R1) as (st' & LFD & EO & LT & IT).
    exists st'. split.
    { econstructor; [exact PI|apply FE; exact PN| |exact LFD].
      intro SM. subst sm. cbv iota in LS. rewrite F1, FL, ML, LS, NC2. reflexivity. }
    split; [exact EO|]. split.
    + rewrite LT, L1, LL. cbn [reb lx]. rewrite <- app_assoc. cbn [app ltab5 fst snd]. f_equal. f_equal.
      * f_equal. rewrite PP. cbn [reb lx]. lia.
      * f_equal. rewrite PP1, PP. cbn [reb lx]. unfold ltext5. cbn [fst snd]. rewrite joinc5_cons.
        repeat rewrite app_length. rewrite repeat_length. lia.
    + rewrite IT, I1, IL. cbn [ityp fst snd reb lx]. reflexivity.
Qed.

(* ------------------------------------------------------------------ from the first character *)
Lemma init_lines5 : forall t ts sm r, forallb lineok5 ((0%nat, t :: ts, sm) :: r) = true ->
  exists l0 st0 tk, lex_init (ptext5 ((0%nat, t :: ts, sm) :: r)) = LOk tt l0 /\ p_next (init_pstate l0) = Ok tt st0 /\
    geoM st0 /\ p2 st0 = Some tk /\ t_ty tk = fst t /\ text_of tk = snd t /\ peek_indent st0 = 0 /\
    rest (lx st0) = after5 ts ++ aftl5 r /\ lines (lx st0) = [mkLine 0 0] /\ itype (lx st0) = g_IndentUnknown /\
    pos (lx st0) = Z.of_nat (length (spell5 t)).
Proof.
  intros t ts sm r OK. cbn [forallb] in OK. apply andb_true_iff in OK. destruct OK as [OK1 _].
  unfold lineok5 in OK1. cbn [fst snd] in OK1.
  apply andb_true_iff in OK1. destruct OK1 as [OK MH]. apply andb_true_iff in OK. destruct OK as [OK LS].
  apply andb_true_iff in OK. destruct OK as [OK LO]. apply andb_true_iff in OK. destruct OK as [T1 TO].
  destruct (head_plain_inv _ (spell_head5 _ T1)) as (c & r0 & SP & CW & CB & CI & CE).
  set (src := ptext5 ((0%nat, t :: ts, sm) :: r)).
  assert (ES : src = c :: r0 ++ after5 ts ++ aftl5 r).
  { unfold src. rewrite ptext5_cons. unfold ltext5. cbn [fst snd]. change (4 * 0)%nat with 0%nat. cbn [repeat app].
    rewrite joinc5_cons, SP. cbn [app]. rewrite <- app_assoc. reflexivity. }
  set (l0 := mkL 0 src g_IndentUnknown [mkLine 0 0] (Z.of_nat (length src))).
  assert (LI : lex_init src = LOk tt l0).
  { unfold lex_init, parse_begin_lex. cbn [rest]. rewrite ES at 1. rewrite CE, CI. reflexivity. }
  assert (TL : (exists t', after5 ts ++ aftl5 r = 32 :: t') \/ (endable5 t = true /\ tail_ok (after5 ts ++ aftl5 r))).
  { destruct ts as [|t3 ts'].
    - cbn [after5 app]. right. split; [exact LO|apply tail_ok_aftl5].
    - left. cbn [after5 app]. eauto. }
  assert (R0 : rest l0 = spell5 t ++ after5 ts ++ aftl5 r) by (cbn [l0 rest]; rewrite ES, SP; reflexivity).
  destruct (lex_atok5 t l0 _ T1 R0 TL) as (tk & LX & Ty & Tx & _).
  assert (NT : next_token l0 = nt_body l0).
  { apply (next_token_plain l0 c (r0 ++ after5 ts ++ aftl5 r)); [exact ES|exact CW|exact CB]. }
  rewrite LX in NT. destruct (tok_ty_ok5 _ T1) as [NE NC].
  pose proof (p_next_gen (init_pstate l0) tk _ 0 0 NT ltac:(rewrite Ty; exact NC) eq_refl eq_refl) as PN.
  unfold meet_line_break in PN. cbn [init_pstate p1 p2] in PN.
  eexists l0, _, tk. split; [exact LI|]. split; [exact PN|].
  split.
  { constructor; cbn [lx sl2 el2 set_pos_rest lines itype pos slen rest l0 length last l_start l_indents Z.of_nat];
      try lia; try discriminate; try (left; reflexivity).
    rewrite ES, SP. cbn [length]. repeat rewrite app_length. cbn [length]. lia. }
  cbn [p2 lx set_pos_rest rest lines itype pos l0].
  split; [reflexivity|]. split; [exact Ty|]. split; [exact Tx|]. split; [reflexivity|].
  split; [reflexivity|]. split; [reflexivity|]. split; [reflexivity|]. lia.
Qed.

(* the front end on the text of a list of well-formed lines, given the token-level theorem for these lines *)
Theorem compile_lines_text5 : forall t ts sm r fuel pg, forallb lineok5 ((0%nat, t :: ts, sm) :: r) = true ->
  (forall st st', bind_ st = 0 -> lfeeds ((0%nat, t :: ts, sm) :: r) st st' -> ateof st' ->
     exists b', parse fuel (NProgram 0 1 [] None) st = Ok pg (setb st' b')) ->
  compile fuel (ptext5 ((0%nat, t :: ts, sm) :: r))
  = OTree pg (ltab5 0 ((0%nat, t :: ts, sm) :: r)) (ityp g_IndentUnknown ((0%nat, t :: ts, sm) :: r)).
Proof.
  intros t ts sm r fuel pg OK HP.
  destruct (init_lines5 t ts sm r OK) as (l0 & st0 & tk & LI & PN & G & P & Ty & Tx & PI & ER & LL & IL & PP).
  destruct (run_lines5 r 0%nat t ts sm st0 tk OK G P Ty Tx PI ER) as (st' & LFD & EO & LT & IT).
  pose proof (p_next_bind _ _ PN) as B0. cbn [init_pstate bind_] in B0.
  destruct (HP st0 st' B0 LFD EO) as (b' & PP').
  unfold compile. rewrite LI. unfold bind. rewrite PN, PI, PP'.
  destruct EO as (tke & PE & TE). unfold peek_ty. cbn [setb reb p2 lx]. rewrite PE. cbn [tok_ty]. rewrite TE.
  change (g_TypeEOF =? g_TypeEOF) with true. cbn [negb]. cbv iota.
  rewrite LT, IT, LL, IL. cbn [ltab5 ityp fst snd app Nat.eqb]. f_equal. f_equal. f_equal.
  rewrite PP. unfold ltext5. cbn [fst snd]. change (4 * 0)%nat with 0%nat. cbn [repeat app]. rewrite joinc5_cons, app_length. lia.
Qed.

Lemma lineok5_app : forall d a b sm, b <> [] -> forallb tok_ok5 (a ++ b) = true -> endable5 (last b dt) = true ->
  (sm = true -> mlb_ok (fst (last b dt)) = true) -> mem (fst (hd dt (a ++ b))) lheads5 = true ->
  lineok5 (d, a ++ b, sm) = true.
Proof.
  intros d a b sm N OK EN ML MH. rewrite <- (last_app_ne a b dt N) in EN, ML.
  destruct (a ++ b) as [|t ts] eqn:E.
  - destruct a; cbn in E; [congruence|discriminate].
  - unfold lineok5. cbn [fst snd]. cbn [forallb] in OK. cbn [hd] in MH. rewrite lastt_last, OK, EN, MH.
    destruct sm; [rewrite (ML eq_refl)|]; reflexivity.
Qed.

(* ================================================================== lines of layer 4 are lines of layer 5 *)
Definition types4 : list Z := g_TypeLibString :: map fst spellings4 ++ oldtypes.
Lemma types5_disjoint : forallb (fun ty => negb (mem ty (map fst spellings5))) types4 = true.
Proof. vm_compute. reflexivity. Qed.
Lemma tok_ok4_types : forall t, tok_ok4 t = true -> In (fst t) types4.
Proof.
  intros t H. unfold types4. unfold tok_ok4 in H. destruct (isLib t) eqn:IL.
  - left. unfold isLib in IL. apply Z.eqb_eq in IL. auto.
  - right. destruct (in4 t) eqn:I4.
    + apply in_or_app. left. apply mem_in. exact I4.
    + apply in_or_app. right. apply tok_ok3_types. exact H.
Qed.
Lemma tok_ok4_not5 : forall t, tok_ok4 t = true -> in5 t = false.
Proof.
  intros t H. pose proof (tok_ok4_types t H) as I. pose proof types5_disjoint as A. rewrite forallb_forall in A.
  specialize (A _ I). apply negb_true_iff in A. exact A.
Qed.
Lemma tok_ok45 : forall t, tok_ok4 t = true -> tok_ok5 t = true.
Proof. intros t H. unfold tok_ok5. rewrite (tok_ok4_not5 t H). exact H. Qed.
Lemma endable45 : forall t, tok_ok4 t = true -> endable5 t = endable4 t.
Proof. intros t H. unfold endable5. rewrite (tok_ok4_not5 t H). reflexivity. Qed.
Lemma forallb_tok45 : forall ts, forallb tok_ok4 ts = true -> forallb tok_ok5 ts = true.
Proof.
  induction ts as [|t ts IH]; intro H; [reflexivity|]. cbn [forallb] in *. apply andb_true_iff in H. destruct H as [A B].
  rewrite (tok_ok45 t A), (IH B). reflexivity.
Qed.
Lemma mem_lheads45 : forall ty, mem ty lheads4 = true -> mem ty lheads5 = true.
Proof. intros ty H. unfold lheads5, mem. rewrite existsb_app. unfold mem in H. rewrite H. reflexivity. Qed.
Lemma lastt_ok : forall ts t, tok_ok4 t = true -> forallb tok_ok4 ts = true -> tok_ok4 (lastt t ts) = true.
Proof.
  induction ts as [|t2 r IH]; intros t A B; [exact A|]. cbn [forallb] in B. apply andb_true_iff in B. destruct B as [B1 B2].
  cbn [lastt]. apply IH; assumption.
Qed.
Lemma lineok45 : forall l, lineok4 l = true -> lineok5 l = true.
Proof.
  intros [[d ts] sm] H. unfold lineok4 in H. unfold lineok5. cbn [fst snd] in *. destruct ts as [|t ts]; [discriminate|].
  apply andb_true_iff in H. destruct H as [H MH]. apply andb_true_iff in H. destruct H as [H LS].
  apply andb_true_iff in H. destruct H as [H LO]. apply andb_true_iff in H. destruct H as [T1 TO].
  rewrite (tok_ok45 _ T1), (forallb_tok45 _ TO), (endable45 _ (lastt_ok ts t T1 TO)), LO, LS, (mem_lheads45 _ MH). reflexivity.
Qed.
Lemma lines45 : forall L, forallb lineok4 L = true -> forallb lineok5 L = true.
Proof.
  induction L as [|l r IH]; intro H; [reflexivity|]. cbn [forallb] in *. apply andb_true_iff in H. destruct H as [A B].
  rewrite (lineok45 l A), (IH B). reflexivity.
Qed.

(* ================================================================== the lines of the new constructs *)
(* token lists whose tokens are of layer 2 (expressions): validity, last token *)
Lemma toks2_line_facts : forall ts, ts <> [] -> forallb tok_ok2 ts = true -> lastok2 ts = true ->
  forallb tok_ok5 ts = true /\ endable5 (last ts dt) = true /\ mlb_ok (fst (last ts dt)) = true.
Proof.
  intros ts N T2 L2.
  split; [apply forallb_tok45; apply forallb_tok34; apply forallb_tok23; exact T2|].
  pose proof (lastok2_last _ N L2) as E2. pose proof (last_In ts dt N) as IL.
  rewrite forallb_forall in T2. specialize (T2 _ IL).
  split; [|apply endable2_mlb; exact E2].
  rewrite (endable45 _ (tok_ok34 _ (tok_ok23 _ T2))).
  rewrite (endable34 _ (tok_ok23 _ T2)). unfold endable3. rewrite (tok_ok2_in3 _ T2), E2. reflexivity.
Qed.

Lemma cshow_facts5 : forall e, cwf e = true -> cleaves_ok e = true ->
  forallb tok_ok5 (cshow e) = true /\ endable5 (last (cshow e) dt) = true /\ mlb_ok (fst (last (cshow e) dt)) = true.
Proof.
  intros e W LO. apply toks2_line_facts; [apply cshow_nonempty|apply cshow_tok_ok2; assumption|apply cshow_lastok2].
Qed.

Lemma copnd_facts5 : forall k e, cwf e = true -> cleaves_ok e = true ->
  copnd k e <> [] /\
  forallb tok_ok5 (copnd k e) = true /\ endable5 (last (copnd k e) dt) = true /\ mlb_ok (fst (last (copnd k e) dt)) = true.
Proof.
  intros k e W LO. unfold copnd.
  assert (N : brace k (cprec e) (cshow e) <> []).
  { unfold brace. destruct (cprec e <=? k)%nat; [apply cshow_nonempty|discriminate]. }
  split; [exact N|].
  apply toks2_line_facts; [exact N|apply forallb_brace2; apply cshow_tok_ok2; assumption|].
  apply lastok2_brace; [apply cshow_nonempty|apply cshow_lastok2].
Qed.

Lemma idt_ok5 : forall x, tok_ok5 (idt x) = leaf_ok x. Proof. reflexivity. Qed.

Definition callleaves (c : mcall) : bool := leaf_ok (fst c) && forallb cleaves_ok (snd c).

Lemma args_ok5 : forall l, forallb cwf l = true -> forallb cleaves_ok l = true ->
  forallb tok_ok5 (sepcat tPause (map cshow l)) = true.
Proof.
  intros l W LO. apply forallb_tok45. apply sepcat_ok.
  revert W LO. induction l as [|a r IH]; intros W LO; [constructor|].
  cbn [forallb] in W, LO. apply andb_true_iff in W. destruct W as [W1 W2]. apply andb_true_iff in LO. destruct LO as [L1 L2].
  constructor; [exact (proj1 (cshow_line_facts a W1 L1))|apply IH; assumption].
Qed.

Lemma callin_ok5 : forall c, callwf c = true -> callleaves c = true ->
  forallb tok_ok5 (callin c) = true /\ exists pre, callin c = pre ++ [tFR].
Proof.
  intros [m args] W LO. unfold callwf in W. unfold callleaves in LO. cbn [fst snd] in *.
  apply andb_true_iff in LO. destruct LO as [Lm La]. unfold callin. cbn [fst snd]. split.
  - cbn [forallb]. rewrite idt_ok5, Lm. cbn [andb]. rewrite forallb_app. cbn [forallb]. change (tok_ok5 tFR) with true.
    rewrite andb_true_r. destruct args as [|a r]; [reflexivity|]. cbn [forallb]. change (tok_ok5 tColon) with true.
    cbn [andb]. apply args_ok5; assumption.
  - exists (idt m :: match args with [] => [] | _ => tColon :: sepcat tPause (map cshow args) end). reflexivity.
Qed.

Lemma calls_ok5 : forall cs c, forallb callwf (c :: cs) = true -> forallb callleaves (c :: cs) = true ->
  forallb tok_ok5 (calltoks c ++ chaintoks cs) = true /\ last (calltoks c ++ chaintoks cs) dt = tFR.
Proof.
  induction cs as [|c2 r IH]; intros c W LO; cbn [forallb] in W, LO;
    apply andb_true_iff in W; destruct W as [Wc Wr]; apply andb_true_iff in LO; destruct LO as [Lc Lr].
  - cbn [chaintoks flat_map]. rewrite app_nil_r. destruct (callin_ok5 c Wc Lc) as (OK & pre & E).
    unfold calltoks. split; [cbn [forallb]; rewrite OK; reflexivity|].
    rewrite E. change (tFL :: pre ++ [tFR]) with ((tFL :: pre) ++ [tFR]). apply last_app_ne. discriminate.
  - destruct (IH c2 Wr Lr) as (OK2 & LA2). destruct (callin_ok5 c Wc Lc) as (OK & _).
    assert (E : calltoks c ++ chaintoks (c2 :: r) = (calltoks c ++ [tPause]) ++ (calltoks c2 ++ chaintoks r)).
    { rewrite <- app_assoc. reflexivity. }
    rewrite E. split.
    + rewrite forallb_app, OK2, andb_true_r. rewrite forallb_app. unfold calltoks. cbn [forallb]. rewrite OK. reflexivity.
    + rewrite last_app_ne; [exact LA2|]. unfold calltoks. discriminate.
Qed.

Definition mleaves (s : mstmt) : bool :=
  match s with
  | MY y => yleaves y
  | MCall root c cs res =>
      cleaves_ok root && forallb callleaves (c :: cs) && match res with Some r => leaf_ok r | None => true end
  | MSet p e => leaf_ok p && cleaves_ok e
  | MOutProp p => leaf_ok p
  end.

Lemma mem_lheads5_starter : forall t, starter2 t -> mem (fst t) lheads5 = true.
Proof.
  intros t ST. apply mem_lheads45. unfold lheads4, mem. rewrite existsb_app. fold (mem (fst t) lheads).
  rewrite (mem_lheads _ (starter2_shead t ST)). reflexivity.
Qed.

Lemma mlines_ok : forall s, mwf s = true -> mleaves s = true -> forall d, forallb lineok5 (mlines d s) = true.
Proof.
  intros [y|root c cs res|p e|p] W LO d; cbn [mwf mleaves] in W, LO; cbn [mlines].
  - apply lines45. apply ylines_ok; assumption.
  - apply andb_true_iff in W. destruct W as [Wr Wc]. apply andb_true_iff in LO. destruct LO as [LO Lres].
    apply andb_true_iff in LO. destruct LO as [Lr Lc].
    destruct (cshow_facts5 root Wr Lr) as (TR & _ & _). destruct (calls_ok5 cs c Wc Lc) as (TC & LA).
    cbn [forallb]. rewrite andb_true_r.
    destruct res as [r|]; cbn [restoks].
    + assert (E : kwt g_TypeVarOneW :: cshow root ++ calltoks c ++ chaintoks cs ++ [kwt g_TypeGetResultW; idt r]
                  = (kwt g_TypeVarOneW :: cshow root ++ calltoks c ++ chaintoks cs ++ [kwt g_TypeGetResultW]) ++ [idt r]).
      { cbn [app]. rewrite <- !app_assoc. reflexivity. }
      rewrite E. apply lineok5_app; [discriminate| |reflexivity|reflexivity|reflexivity].
      rewrite <- E. cbn [forallb]. change (tok_ok5 (kwt g_TypeVarOneW)) with true. cbn [andb].
      rewrite forallb_app, TR. cbn [andb]. rewrite app_assoc, forallb_app, TC. cbn [andb forallb].
      rewrite idt_ok5, Lres. reflexivity.
    + rewrite app_nil_r.
      assert (N : calltoks c ++ chaintoks cs <> []) by (unfold calltoks; discriminate).
      change (kwt g_TypeVarOneW :: cshow root ++ calltoks c ++ chaintoks cs)
        with ((kwt g_TypeVarOneW :: cshow root) ++ (calltoks c ++ chaintoks cs)).
      apply lineok5_app; [exact N| |rewrite LA; reflexivity|intros _; rewrite LA; reflexivity|reflexivity].
      rewrite forallb_app. cbn [forallb]. change (tok_ok5 (kwt g_TypeVarOneW)) with true. rewrite TR, TC. reflexivity.
  - apply andb_true_iff in LO. destruct LO as [Lp Le].
    destruct (copnd_facts5 2 e W Le) as (N & TE & EN & ML).
    cbn [forallb]. rewrite andb_true_r.
    change (kwt g_TypeObjThisW :: idt p :: kwt g_TypeAssignMark :: copnd 2 e)
      with ([kwt g_TypeObjThisW; idt p; kwt g_TypeAssignMark] ++ copnd 2 e).
    apply lineok5_app; [exact N| |exact EN|intros _; exact ML|reflexivity].
    rewrite forallb_app. cbn [forallb]. rewrite idt_ok5, Lp, TE. reflexivity.
  - cbn [forallb]. rewrite andb_true_r.
    change [kwt g_TypeReturnW; kwt g_TypeObjThisW; idt p] with ([kwt g_TypeReturnW; kwt g_TypeObjThisW] ++ [idt p]).
    apply lineok5_app; [discriminate| |reflexivity|reflexivity|reflexivity].
    cbn [app forallb]. rewrite idt_ok5, LO. reflexivity.
Qed.

Lemma Forall_wl : forall (A : Type) (w l : A -> bool) (P : A -> Prop) (xs : list A),
  (forall x, w x = true -> l x = true -> P x) -> forallb w xs = true -> forallb l xs = true -> Forall P xs.
Proof.
  intros A w l P xs H. induction xs as [|x r IH]; intros W L; [constructor|].
  cbn [forallb] in W, L. apply andb_true_iff in W. destruct W as [W1 W2]. apply andb_true_iff in L. destruct L as [L1 L2].
  constructor; [apply H; assumption|apply IH; assumption].
Qed.

Lemma mblines_ok : forall d b, forallb mwf b = true -> forallb mleaves b = true -> forallb lineok5 (mblines d b) = true.
Proof.
  intros d b W L. unfold mblines, ablines. apply forallb_flat_map.
  apply (Forall_wl mstmt mwf mleaves _ b); [|exact W|exact L]. intros x Wx Lx. apply mlines_ok; assumption.
Qed.

Lemma yclines_ok5 : forall d cs, ycwf cs = true -> cleaves cs = true -> forallb lineok5 (yclines d cs) = true.
Proof.
  intros d cs Wc Lc. apply lines45. apply (yclines_ok d cs); [|exact Wc|exact Lc].
  apply Forall_forall. intros c _. apply YForall_all. intros s Ws Ls d0. apply ylines_ok; assumption.
Qed.

Definition mxleaves (ins : list lit) (b : list mstmt) (cs : list (lit * list ystmt)) : bool :=
  forallb leaf_ok ins && forallb mleaves b && cleaves cs.

Lemma mxlines_ok : forall d ins b cs, mxwf b cs = true -> mxleaves ins b cs = true ->
  forallb lineok5 (mxlines d ins b cs) = true.
Proof.
  intros d ins b cs W L. destruct (mxwf_inv b cs W) as (_ & Wb & Wc).
  unfold mxleaves in L. apply andb_true_iff in L. destruct L as [L Lc]. apply andb_true_iff in L. destruct L as [Li Lb].
  unfold mxlines, axlines. rewrite !forallb_app. rewrite (lines45 _ (inlines_ok d ins Li)).
  fold (mblines d b). rewrite (mblines_ok d b Wb Lb), (yclines_ok5 d cs Wc Lc). reflexivity.
Qed.

Definition kleaves (i : kitem) : bool :=
  match i with
  | KProp p e => leaf_ok p && cleaves_ok e
  | KMethod n ins b cs | KGetter n ins b cs => leaf_ok n && mxleaves ins b cs
  end.

Lemma hdr3_ok : forall d k n last, tok_ok5 (kwt k) = true -> mem k lheads5 = true -> leaf_ok n = true ->
  tok_ok5 last = true -> endable5 last = true -> lineok5 (d, [kwt k; idt n; last], false) = true.
Proof.
  intros d k n la TK MH Ln TL EL.
  change [kwt k; idt n; la] with ([kwt k; idt n] ++ [la]).
  apply lineok5_app; [discriminate| |exact EL|discriminate|exact MH].
  cbn [app forallb]. rewrite TK, idt_ok5, Ln, TL. reflexivity.
Qed.

Lemma klines_ok : forall i, kwf i = true -> kleaves i = true -> forall d, forallb lineok5 (klines d i) = true.
Proof.
  intros [p e|n ins b cs|n ins b cs] W L d; cbn [kwf kleaves] in W, L; cbn [klines].
  - apply andb_true_iff in L. destruct L as [Lp Le]. destruct (cshow_facts5 e W Le) as (TE & EN & ML).
    cbn [forallb]. rewrite andb_true_r.
    change (kwt g_TypeObjThisW :: idt p :: kwt g_TypeAssignMark :: cshow e)
      with ([kwt g_TypeObjThisW; idt p; kwt g_TypeAssignMark] ++ cshow e).
    apply lineok5_app; [apply cshow_nonempty| |exact EN|intros _; exact ML|reflexivity].
    rewrite forallb_app. cbn [forallb]. rewrite idt_ok5, Lp, TE. reflexivity.
  - apply andb_true_iff in L. destruct L as [Ln Lx]. cbn [forallb].
    rewrite (hdr3_ok d g_TypeFuncW n (kwt g_TypeFuncDeclare) eq_refl eq_refl Ln eq_refl eq_refl).
    apply mxlines_ok; assumption.
  - apply andb_true_iff in L. destruct L as [Ln Lx]. cbn [forallb].
    rewrite (hdr3_ok d g_TypeGetterW n (kwt g_TypeFuncDeclare) eq_refl eq_refl Ln eq_refl eq_refl).
    apply mxlines_ok; assumption.
Qed.

Definition zleaves (s : zstmt) : bool :=
  match s with
  | ZM m => mleaves m
  | ZFunc ctor n ins b cs => leaf_ok n && mxleaves ins b cs
  | ZClass n items => leaf_ok n && forallb kleaves items
  end.

Lemma zlines_ok : forall s, zwf s = true -> zleaves s = true -> forall d, forallb lineok5 (zlines d s) = true.
Proof.
  intros [m|ctor n ins b cs|n items] W L d; cbn [zwf zleaves] in W, L; cbn [zlines].
  - apply mlines_ok; assumption.
  - apply andb_true_iff in L. destruct L as [Ln Lx]. cbn [forallb]. apply andb_true_iff. split; [|apply mxlines_ok; assumption].
    destruct ctor; cbn [app].
    + change [kwt g_TypeFuncW; kwt g_TypeObjNewW; idt n; kwt g_TypeFuncDeclare]
        with ([kwt g_TypeFuncW; kwt g_TypeObjNewW; idt n] ++ [kwt g_TypeFuncDeclare]).
      apply lineok5_app; [discriminate| |reflexivity|discriminate|reflexivity].
      cbn [app forallb]. rewrite idt_ok5, Ln. reflexivity.
    + apply (hdr3_ok d g_TypeFuncW n (kwt g_TypeFuncDeclare) eq_refl eq_refl Ln eq_refl eq_refl).
  - apply andb_true_iff in L. destruct L as [Ln Li]. apply andb_true_iff in W. destruct W as [_ Wi]. cbn [forallb].
    rewrite (hdr3_ok d g_TypeObjDefineW n tColon eq_refl eq_refl Ln eq_refl eq_refl). cbn [andb].
    unfold kslines. apply forallb_flat_map.
    apply (Forall_wl kitem kwf kleaves _ items); [|exact Wi|exact Li]. intros x Wx Lx. apply klines_ok; assumption.
Qed.

(* ------------------------------------------------------------------ programs *)
Definition zpleaves (q : zprog) : bool :=
  forallb imp_leaves (z_imports q) && forallb leaf_ok (z_inputs q) && forallb zleaves (z_body q) && cleaves (z_catches q).

Lemma zplines_ok : forall q, zpwf q = true -> zpleaves q = true -> forallb lineok5 (zplines q) = true.
Proof.
  intros [is ins b cs] W LO. unfold zpwf, zpleaves, zplines in *. cbn [z_imports z_inputs z_body z_catches] in *.
  apply andb_true_iff in W. destruct W as [W _]. apply andb_true_iff in W. destruct W as [Wb Wc].
  apply andb_true_iff in LO. destruct LO as [LO Lc]. apply andb_true_iff in LO. destruct LO as [LO Lb].
  apply andb_true_iff in LO. destruct LO as [Li Ln].
  rewrite forallb_app. apply andb_true_iff. split.
  - apply lines45. clear - Li. induction is as [|i r IH]; [reflexivity|]. cbn [forallb] in Li. apply andb_true_iff in Li.
    destruct Li as [A B]. cbn [map forallb]. rewrite (imp_line_ok i A), (IH B). reflexivity.
  - unfold zxlines, axlines. rewrite !forallb_app. rewrite (lines45 _ (inlines_ok 0 ins Ln)), (yclines_ok5 0 cs Wc Lc).
    rewrite andb_true_r. cbn [andb]. unfold ablines. apply forallb_flat_map.
    apply (Forall_wl zstmt zwf zleaves _ b); [|exact Wb|exact Lb]. intros x Wx Lx. apply zlines_ok; assumption.
Qed.

Lemma zplines_head : forall q, zpwf q = true -> exists t ts sm r, zplines q = (0%nat, t :: ts, sm) :: r.
Proof.
  intros [is ins b cs] W. unfold zpwf, zplines, zhas_exec in *. cbn [z_imports z_inputs z_body z_catches] in *.
  apply andb_true_iff in W. destruct W as [_ W].
  destruct is as [|i r].
  - cbn [map app]. destruct (nonnil b || nonnil cs) eqn:Nn.
    + assert (N : b <> [] \/ cs <> []).
      { apply orb_true_iff in Nn. destruct Nn as [Nn'|Nn']; apply nonnil_ne in Nn'; auto. }
      destruct (a_yx_head zstmt zlines zlines_head 0 ins b cs N) as (t & ts & sm & rr & E & _).
      unfold zxlines. rewrite E. eauto.
    + cbn [orb nonnil] in W. rewrite andb_false_r in W. discriminate.
  - cbn [map app]. unfold imp_line at 1, imp_toks. eauto.
Qed.

(* ================================================================== MAIN THEOREMS *)
Definition zprint (q : zprog) : list Z := ptext5 (zplines q).
Definition zline_table (q : zprog) : list line := ltab5 0 (zplines q).
Definition zindent_type (q : zprog) : Z := ityp g_IndentUnknown (zplines q).
Definition zprog_ok (q : zprog) : bool := zpwf q && zpleaves q.

Theorem compile_types : forall q fuel, zprog_ok q = true -> (zpfuel q <= fuel)%nat ->
  compile fuel (zprint q) = OTree (zprescribed q) (zline_table q) (zindent_type q).
Proof.
  intros q fuel OK LF. unfold zprog_ok in OK. apply andb_true_iff in OK. destruct OK as [W LO].
  destruct (zplines_head q W) as (t & ts & sm & r & E).
  unfold zprint, zline_table, zindent_type. rewrite E. apply compile_lines_text5.
  - rewrite <- E. apply zplines_ok; assumption.
  - intros st st' B L EO. rewrite <- E in L. apply (parse_types_tokens q fuel st st' W LF B L EO).
Qed.

Theorem compile_types_default : forall q, zprog_ok q = true ->
  compile (default_fuel (zprint q)) (zprint q) = OTree (zprescribed q) (zline_table q) (zindent_type q).
Proof.
  intros q OK.
  set (F := Nat.max (default_fuel (zprint q)) (zpfuel q)).
  pose proof (compile_types q F OK ltac:(unfold F; lia)) as HF.
  destruct (compile_mono (default_fuel (zprint q)) F (zprint q) ltac:(unfold F; lia)) as [H|H].
  - exfalso. exact (compile_total _ H).
  - rewrite H. exact HF.
Qed.

Theorem compile_types_any_fuel : forall q fuel, zprog_ok q = true ->
  compile fuel (zprint q) = OFuel \/ compile fuel (zprint q) = OTree (zprescribed q) (zline_table q) (zindent_type q).
Proof.
  intros q fuel OK.
  set (F := Nat.max fuel (zpfuel q)).
  pose proof (compile_types q F OK ltac:(unfold F; lia)) as HF.
  destruct (compile_mono fuel F (zprint q) ltac:(unfold F; lia)) as [H|H]; [left; exact H|right].
  rewrite H. exact HF.
Qed.

(* ================================================================== example *)
(* 定义 C ：
       其 P = 1
       如何 M ？
           输入 a
           输出 其 P
           其 P = a + 1
       何为 G ？
           输出 1
   如何 新建 C ？
       其 P = 2
   以 X （ M ： a 、 b ） 、 （ N ） 得到 R
   以 X # 1 （ M ）
   令 x = 1                                                                   *)
Definition ex_z : zprog := mkZP [] []
  [ZClass [67]
     [KProp [80] (XId [49]);
      KMethod [77] [[97]] [MOutProp [80]; MSet [80] (XBin g_TypePlus (XId [97]) (XId [49]))] [];
      KGetter [71] [] [MY (YOut (XId [49]))] []];
   ZFunc true [67] [] [MSet [80] (XId [50])] [];
   ZM (MCall (XId [88]) ([77], [XId [97]; XId [98]]) [([78], [])] (Some [82]));
   ZM (MCall (XIdxId (XId [88]) [49]) ([77], []) [] None);
   ZM (MY (YLet [[120]] (XId [49])))]
  [].
Definition ex_z_tree : program :=
  mkProgram []
    (Some (XBlock []
       [SClass [67] [([80], EId [49])]
          [([77], 1, XBlock [[97]] [SReturn (EMember None 2 1 (Some [80]) None);
                                   SExpr (EAssign (EMember None 2 1 (Some [80]) None) (EArith 12 (EId [97]) (EId [49])))] [])]
          [([71], 2, XBlock [] [SReturn (EId [49])] [])];
        SFuncDecl [67] 3 (XBlock [] [SExpr (EAssign (EMember None 2 1 (Some [80]) None) (EId [50]))] []);
        SExpr (EMethod (EId [88]) [Call [77] [EId [97]; EId [98]] None; Call [78] [] None] (Some [82]));
        SExpr (EMethod (EMember (Some (EId [88])) 1 2 None (Some (EId [49]))) [Call [77] [] None] None);
        SVarDecl [(1, [[120]], EId [49])]] [])).
Example ex_z_prescribed : zprescribed ex_z = ex_z_tree. Proof. reflexivity. Qed.
Example ex_z_ok : zprog_ok ex_z = true. Proof. vm_compute. reflexivity. Qed.
Example ex_z_by_theorem :
  compile (default_fuel (zprint ex_z)) (zprint ex_z) = OTree ex_z_tree (zline_table ex_z) (zindent_type ex_z).
Proof. rewrite <- ex_z_prescribed. apply compile_types_default. exact ex_z_ok. Qed.
Example ex_z_compute : exists ls, compile (default_fuel (zprint ex_z)) (zprint ex_z) = OTree ex_z_tree ls g_IndentSpace.
Proof. eexists. vm_compute. reflexivity. Qed.
Eval vm_compute in (zline_table ex_z, zindent_type ex_z).


(* FINDING (model and Go parser agree): in a statement, the right-hand side of  其 P = ...  is an ADDITIVE expression
   (ParseExpressionLv4 takes parseArithExpr on both sides), so an unbraced comparison on the right is NOT part of the
   assigned value:   其 P = a 等于 b   is   (其 P = a) 等于 b.   [MSet] therefore prints its right-hand side in braces when
   it is above + - ([copnd 2]).  In a property line of a type definition the right-hand side is a full expression. *)
Definition ex_assign_cmp_src : list Z :=
  [22914; 20309; 32; 70; 32; 65311; 10; 32; 32; 32; 32; 20854; 32; 80; 32; 61; 32; 97; 32; 31561; 20110; 32; 98].
Example ex_assign_cmp : exists ls it, compile (default_fuel ex_assign_cmp_src) ex_assign_cmp_src =
  OTree (mkProgram [] (Some (XBlock []
     [SFuncDecl [70] 1 (XBlock [] [SExpr (ELogic 4 (EAssign (thisprop [80]) (EId [97])) (EId [98]))] [])] []))) ls it.
Proof. eexists. eexists. vm_compute. reflexivity. Qed.
(* with braces: the prescribed tree *)
Example ex_assign_braced :
  zprescribed (mkZP [] [] [ZFunc false [70] [] [MSet [80] (XBin g_TypeLogicEqualW (XId [97]) (XId [98]))] []] [])
  = mkProgram [] (Some (XBlock []
     [SFuncDecl [70] 1 (XBlock [] [SExpr (EAssign (thisprop [80]) (ELogic 4 (EId [97]) (EId [98])))] [])] [])).
Proof. reflexivity. Qed.
(* rejected (model; the Go parser rejects them too): a type definition without items; 如何 新建 inside a type block *)
Example ex_empty_class : exists c k, compile 200 [23450; 20041; 32; 67; 32; 65306] = OErr c k.
Proof. eexists. eexists. vm_compute. reflexivity. Qed.
Example ex_ctor_in_class : exists c k, compile 400 [23450; 20041; 32; 67; 32; 65306; 10; 32; 32; 32; 32; 22914; 20309; 32;
  26032; 24314; 32; 67; 32; 65311; 10; 32; 32; 32; 32; 32; 32; 32; 32; 36755; 20986; 32; 49] = OErr c k.
Proof. eexists. eexists. vm_compute. reflexivity. Qed.

(* ================================================================== assumptions *)
Print Assumptions compile_types.
Print Assumptions compile_types_default.
Print Assumptions compile_types_any_fuel.
