(* DecodeProofs.v — lemmas about model/Decode.v (property C17). *)
From Coq Require Import List ZArith Bool Lia.
Import ListNotations.
From Zn.model Require Import Decode.
Open Scope Z_scope.

Ltac Zify.zify_post_hook ::= Z.div_mod_to_equations.

Definition byteP (b : Z) : Prop := 0 <= b < 256.
Definition scalar (c : Z) : Prop := (0 <= c < 0xD800) \/ (0xE000 <= c < 0x110000).

Lemma scalarb_iff c : scalarb c = true <-> scalar c.
Proof. unfold scalarb, scalar. lia. Qed.

(* ------------------------------------------------------------------ *)
(* lead_info returns lengths 1..4 only                                  *)

Lemma lead_info_len b n lo hi : lead_info b = Some (n, lo, hi) -> (1 <= n <= 4)%nat.
Proof.
  unfold lead_info.
  repeat match goal with |- context [if ?c then _ else _] => destruct c end;
    intros H; inversion H; lia.
Qed.

Ltac li_cases b :=
  let H := fresh "Hli" in
  destruct (lead_info b) as [[[?n ?lo] ?hi]|] eqn:H;
  [ let Hn := fresh "Hlen" in pose proof (lead_info_len _ _ _ _ H) as Hn;
    match type of Hn with (1 <= ?n <= 4)%nat =>
      destruct n as [|[|[|[|[|?]]]]]; try lia end
  | ].


Ltac case_bools :=
  repeat match goal with
         | H : context [inr ?a ?b ?c] |- _ =>
           lazymatch type of H with
           | inr a b c = _ => fail
           | _ => destruct (inr a b c) eqn:?
           end
         | |- context [inr ?a ?b ?c] => destruct (inr a b c) eqn:?
         | H : context [cont ?c] |- _ =>
           lazymatch type of H with
           | cont c = _ => fail
           | _ => destruct (cont c) eqn:?
           end
         | |- context [cont ?c] => destruct (cont c) eqn:?
         end.
Ltac fin := simpl in *; try reflexivity; try congruence; try lia.

(* ------------------------------------------------------------------ *)
(* decode_rune basics                                                   *)

Definition bad (p : Z * nat) : bool := (fst p =? RuneError) && (snd p <=? 1)%nat.

Lemma decode_rune_size_le bs ru n : decode_rune bs = (ru, n) -> (n <= length bs)%nat /\ (n <= 4)%nat.
Proof.
  destruct bs as [|b0 r]; simpl.
  - intros H; inversion H; simpl; lia.
  - li_cases b0;
      destruct r as [|b1 [|b2 [|b3 r]]]; simpl;
      repeat match goal with |- context [if ?c then _ else _] => destruct c end;
      intros H; inversion H; simpl; lia.
Qed.

Lemma decode_rune_nonempty_size bs ru n : bs <> [] -> decode_rune bs = (ru, n) -> (1 <= n)%nat.
Proof.
  destruct bs as [|b0 r]; [congruence|]; intros _. simpl.
  li_cases b0;
    destruct r as [|b1 [|b2 [|b3 r]]]; simpl;
    repeat match goal with |- context [if ?c then _ else _] => destruct c end;
    intros H; inversion H; simpl; lia.
Qed.

(* L1: a good decode is determined by the bytes it consumed *)
Lemma decode_rune_good_app bs more :
  bad (decode_rune bs) = false -> bs <> [] ->
  decode_rune (bs ++ more) = decode_rune bs.
Proof.
  destruct bs as [|b0 r]; [congruence|]; intros Hb _.
  unfold bad in Hb. simpl in *.
  li_cases b0; try reflexivity;
    destruct r as [|b1 [|b2 [|b3 r]]]; simpl in *; try reflexivity;
    try (exfalso; unfold RuneError in Hb; simpl in Hb; lia).
Qed.

(* L2: a full-but-invalid prefix stays invalid under extension *)
Lemma decode_rune_bad_full_app bs more :
  bad (decode_rune bs) = true -> full_rune bs = true ->
  bad (decode_rune (bs ++ more)) = true.
Proof.
  destruct bs as [|b0 r]; [simpl; congruence|]. intros Hb Hf.
  unfold bad in *. simpl in *.
  li_cases b0; try exact Hb;
    destruct r as [|b1 [|b2 [|b3 r]]]; destruct more as [|m0 [|m1 [|m2 more]]];
    simpl in *; try exact Hb; try congruence; case_bools; fin.
Qed.

(* L3: an incomplete sequence decodes as bad *)
Lemma not_full_bad bs : bs <> [] -> full_rune bs = false -> bad (decode_rune bs) = true.
Proof.
  destruct bs as [|b0 r]; [congruence|]. intros _ Hf. unfold bad. simpl in *.
  li_cases b0; try congruence;
    destruct r as [|b1 [|b2 [|b3 r]]]; simpl in *; try reflexivity; try congruence;
    case_bools; fin.
Qed.

(* a full-but-invalid prefix stays full under extension *)
Lemma full_rune_bad_app bs more :
  bad (decode_rune bs) = true -> full_rune bs = true -> full_rune (bs ++ more) = true.
Proof.
  destruct bs as [|b0 r]; [simpl; congruence|]. intros Hb Hf.
  unfold bad in *. simpl in *.
  li_cases b0; try reflexivity;
    destruct r as [|b1 [|b2 [|b3 r]]]; destruct more as [|m0 [|m1 [|m2 more]]];
    simpl in *; try reflexivity; try congruence; case_bools; fin.
Qed.

(* ------------------------------------------------------------------ *)
(* rr_loop: fuel independence                                           *)

Lemma skipn_length_lt {A} n (l : list A) : (1 <= n)%nat -> l <> [] -> (length (skipn n l) < length l)%nat.
Proof. intros Hn Hl. rewrite skipn_length. destruct l; [congruence|]. cbn [length]. lia. Qed.

Lemma rr_loop_fuel f1 : forall f2 buf eof acc,
  (length buf <= f1)%nat -> (length buf <= f2)%nat ->
  rr_loop f1 buf eof acc = rr_loop f2 buf eof acc.
Proof.
  induction f1 as [|f1 IH]; intros f2 buf eof acc H1 H2.
  - destruct buf; [|simpl in H1; lia]. destruct f2; reflexivity.
  - destruct f2 as [|f2].
    + destruct buf; [reflexivity|simpl in H2; lia].
    + cbn [rr_loop]. destruct buf as [|b0 r]; [reflexivity|].
      destruct (decode_rune (b0 :: r)) as [ru size] eqn:Hd.
      destruct ((ru =? RuneError) && (size <=? 1)%nat); [reflexivity|].
      assert (1 <= size)%nat by (eapply decode_rune_nonempty_size; [|exact Hd]; congruence).
      assert (length (skipn size (b0 :: r)) < length (b0 :: r))%nat
        by (apply skipn_length_lt; [assumption|congruence]).
      apply IH; lia.
Qed.

(* canonical loop with exactly enough fuel *)
Definition loop (buf : list Z) (eof : bool) (acc : list Z) : rr := rr_loop (length buf) buf eof acc.

Lemma loop_nil eof acc : loop [] eof acc = RROk (rev acc) [].
Proof. reflexivity. Qed.

Lemma loop_step buf eof acc : buf <> [] ->
  loop buf eof acc =
    if bad (decode_rune buf) then
      if negb (full_rune buf) && negb eof then RROk (rev acc) buf else RRInvalid
    else loop (skipn (snd (decode_rune buf)) buf) eof (fst (decode_rune buf) :: acc).
Proof.
  intros Hne. unfold loop. destruct buf as [|b0 r]; [congruence|].
  cbn [length rr_loop]. unfold bad.
  destruct (decode_rune (b0 :: r)) as [ru size] eqn:Hd. cbn [fst snd].
  destruct ((ru =? RuneError) && (size <=? 1)%nat) eqn:Hb; [reflexivity|].
  assert (1 <= size)%nat by (eapply decode_rune_nonempty_size; [|exact Hd]; congruence).
  assert (length (skipn size (b0 :: r)) < length (b0 :: r))%nat
    by (apply skipn_length_lt; [assumption|congruence]).
  apply rr_loop_fuel; simpl in *; lia.
Qed.

(* ------------------------------------------------------------------ *)
(* Splitting lemma: what a non-final read leaves behind is exactly what
   is needed to continue on the concatenation.                          *)

Lemma skipn_app_le {A} n (l m : list A) : (n <= length l)%nat -> skipn n (l ++ m) = skipn n l ++ m.
Proof. intros H. rewrite skipn_app. replace (n - length l)%nat with O by lia. reflexivity. Qed.

Lemma loop_split n : forall buf acc, (length buf <= n)%nat ->
  forall more eof2,
  match loop buf false acc with
  | RROk runes rem => loop (buf ++ more) eof2 acc = loop (rem ++ more) eof2 (rev runes)
  | RRInvalid => loop (buf ++ more) eof2 acc = RRInvalid
  end.
Proof.
  induction n as [|n IH]; intros buf acc Hlen more eof2.
  - destruct buf; [|simpl in Hlen; lia]. rewrite loop_nil. rewrite rev_involutive. reflexivity.
  - destruct buf as [|b0 r]; [rewrite loop_nil, rev_involutive; reflexivity|].
    set (buf := b0 :: r) in *.
    assert (Hne : buf <> []) by (unfold buf; congruence).
    rewrite (loop_step buf false acc Hne).
    destruct (bad (decode_rune buf)) eqn:Hb.
    + destruct (full_rune buf) eqn:Hf; cbn [negb andb].
      * (* invalid for ever *)
        assert (Hne2 : buf ++ more <> []) by (unfold buf; simpl; congruence).
        rewrite (loop_step _ eof2 acc Hne2).
        rewrite (decode_rune_bad_full_app _ more Hb Hf).
        rewrite (full_rune_bad_app _ more Hb Hf).
        reflexivity.
      * rewrite rev_involutive. reflexivity.
    + destruct (decode_rune buf) as [ru size] eqn:Hd. cbn [fst snd].
      assert (1 <= size)%nat by (eapply decode_rune_nonempty_size; [|exact Hd]; assumption).
      destruct (decode_rune_size_le _ _ _ Hd) as [Hsz _].
      assert (Hlt : (length (skipn size buf) <= n)%nat).
      { pose proof (skipn_length_lt size buf ltac:(lia) Hne). unfold buf in *. simpl in *. lia. }
      specialize (IH (skipn size buf) (ru :: acc) Hlt more eof2).
      assert (Hne2 : buf ++ more <> []) by (unfold buf; simpl; congruence).
      rewrite (loop_step _ eof2 acc Hne2).
      assert (Hd2 : decode_rune (buf ++ more) = (ru, size)).
      { rewrite decode_rune_good_app; [exact Hd| rewrite Hd; exact Hb | exact Hne]. }
      rewrite Hd2. cbn [fst snd].
      assert (bad (ru, size) = false) as -> by exact Hb.
      rewrite skipn_app_le by exact Hsz. exact IH.
Qed.

(* with eof = true nothing can remain *)
Lemma loop_eof_no_remains n : forall buf acc runes rem, (length buf <= n)%nat ->
  loop buf true acc = RROk runes rem -> rem = [].
Proof.
  induction n as [|n IH]; intros buf acc runes rem Hlen.
  - destruct buf; [|simpl in Hlen; lia]. rewrite loop_nil. intros H; inversion H; reflexivity.
  - destruct buf as [|b0 r]; [rewrite loop_nil; intros H; inversion H; reflexivity|].
    set (buf := b0 :: r) in *.
    assert (Hne : buf <> []) by (unfold buf; congruence).
    rewrite (loop_step buf true acc Hne).
    destruct (bad (decode_rune buf)) eqn:Hb.
    + rewrite andb_false_r. congruence.
    + destruct (decode_rune buf) as [ru size] eqn:Hd. cbn [fst snd].
      assert (1 <= size)%nat by (eapply decode_rune_nonempty_size; [|exact Hd]; assumption).
      apply IH.
      pose proof (skipn_length_lt size buf ltac:(lia) Hne). unfold buf in *. simpl in *. lia.
Qed.

(* ------------------------------------------------------------------ *)
(* spec_decode: fuel independence and relation to the loop at eof       *)

Definition sdec (bs : list Z) : option (list Z) := spec_decode (length bs) bs.

Lemma spec_decode_fuel f1 : forall f2 bs,
  (length bs <= f1)%nat -> (length bs <= f2)%nat -> spec_decode f1 bs = spec_decode f2 bs.
Proof.
  induction f1 as [|f1 IH]; intros f2 bs H1 H2.
  - destruct bs; [|simpl in H1; lia]. destruct f2; reflexivity.
  - destruct f2 as [|f2].
    + destruct bs; [reflexivity|simpl in H2; lia].
    + cbn [spec_decode]. destruct bs as [|b0 r]; [reflexivity|].
      destruct (decode_rune (b0 :: r)) as [ru size] eqn:Hd.
      destruct ((ru =? RuneError) && (size <=? 1)%nat); [reflexivity|].
      assert (1 <= size)%nat by (eapply decode_rune_nonempty_size; [|exact Hd]; congruence).
      assert (length (skipn size (b0 :: r)) < length (b0 :: r))%nat
        by (apply skipn_length_lt; [assumption|congruence]).
      rewrite (IH f2); [reflexivity| lia | lia].
Qed.

Lemma sdec_nil : sdec [] = Some [].
Proof. reflexivity. Qed.

Lemma sdec_step bs : bs <> [] ->
  sdec bs = if bad (decode_rune bs) then None
            else match sdec (skipn (snd (decode_rune bs)) bs) with
                 | Some cps => Some (fst (decode_rune bs) :: cps)
                 | None => None
                 end.
Proof.
  intros Hne. unfold sdec. destruct bs as [|b0 r]; [congruence|].
  cbn [length spec_decode]. unfold bad.
  destruct (decode_rune (b0 :: r)) as [ru size] eqn:Hd. cbn [fst snd].
  destruct ((ru =? RuneError) && (size <=? 1)%nat) eqn:Hb; [reflexivity|].
  assert (1 <= size)%nat by (eapply decode_rune_nonempty_size; [|exact Hd]; congruence).
  assert (length (skipn size (b0 :: r)) < length (b0 :: r))%nat
    by (apply skipn_length_lt; [assumption|congruence]).
  rewrite (spec_decode_fuel _ (length (skipn size (b0 :: r)))); [reflexivity| simpl in *; lia | lia].
Qed.

Lemma loop_eof_is_sdec n : forall buf acc, (length buf <= n)%nat ->
  loop buf true acc =
    match sdec buf with
    | Some cps => RROk (rev acc ++ cps) []
    | None => RRInvalid
    end.
Proof.
  induction n as [|n IH]; intros buf acc Hlen.
  - destruct buf; [|simpl in Hlen; lia]. rewrite loop_nil, sdec_nil, app_nil_r. reflexivity.
  - destruct buf as [|b0 r]; [rewrite loop_nil, sdec_nil, app_nil_r; reflexivity|].
    set (buf := b0 :: r) in *.
    assert (Hne : buf <> []) by (unfold buf; congruence).
    rewrite (loop_step buf true acc Hne), (sdec_step buf Hne).
    destruct (bad (decode_rune buf)) eqn:Hb.
    + rewrite andb_false_r. reflexivity.
    + destruct (decode_rune buf) as [ru size] eqn:Hd. cbn [fst snd].
      assert (1 <= size)%nat by (eapply decode_rune_nonempty_size; [|exact Hd]; assumption).
      rewrite IH.
      * destruct (sdec (skipn size buf)); [|reflexivity].
        simpl. rewrite <- app_assoc. reflexivity.
      * pose proof (skipn_length_lt size buf ltac:(lia) Hne). unfold buf in *. simpl in *. lia.
Qed.

(* the loop at eof=false agrees with eof=true whenever the latter succeeds *)
Lemma loop_noeof_of_sdec n : forall buf acc cps, (length buf <= n)%nat ->
  sdec buf = Some cps -> loop buf false acc = RROk (rev acc ++ cps) [].
Proof.
  induction n as [|n IH]; intros buf acc cps Hlen.
  - destruct buf; [|simpl in Hlen; lia]. rewrite loop_nil, sdec_nil. intros H; inversion H. rewrite app_nil_r. reflexivity.
  - destruct buf as [|b0 r]; [rewrite loop_nil, sdec_nil; intros H; inversion H; rewrite app_nil_r; reflexivity|].
    set (buf := b0 :: r) in *.
    assert (Hne : buf <> []) by (unfold buf; congruence).
    rewrite (loop_step buf false acc Hne), (sdec_step buf Hne).
    destruct (bad (decode_rune buf)) eqn:Hb; [congruence|].
    destruct (decode_rune buf) as [ru size] eqn:Hd. cbn [fst snd].
    assert (1 <= size)%nat by (eapply decode_rune_nonempty_size; [|exact Hd]; assumption).
    destruct (sdec (skipn size buf)) as [cps'|] eqn:Hs; [|congruence].
    intros Heq; inversion Heq; subst cps.
    rewrite (IH _ _ cps'); [simpl; rewrite <- app_assoc; reflexivity | | exact Hs].
    pose proof (skipn_length_lt size buf ltac:(lia) Hne). unfold buf in *. simpl in *. lia.
Qed.

(* ------------------------------------------------------------------ *)
(* The reader: bytes delivered up to and including the first EOF read   *)

Fixpoint delivered (reads : list (list Z * bool)) : list Z :=
  match reads with
  | [] => []
  | (chunk, eof) :: rest => if eof then chunk else chunk ++ delivered rest
  end.

(* generalised streaming invariant.  State: remains rem, runes so far acc (after
   BOM stripping when has_read), and the claim is about the final result. *)

Definition finish (hr : bool) (acc : list Z) (r : rr) : res (list Z) :=
  match r with
  | RRInvalid => Err
  | RROk data _ =>
    if negb hr && negb (length data =? 0)%nat then Ok (acc ++ strip_bom data) else Ok (acc ++ data)
  end.

Lemma strip_bom_eq data :
  match data with d0 :: tl => if d0 =? BOM then tl else data | [] => data end = strip_bom data.
Proof. destruct data; reflexivity. Qed.

Lemma fs_read_all_eof_step f acc chunk :
  match fs_read f chunk true with
  | Err => Err
  | Ok (data, _) => Ok (acc ++ data)
  end = finish (has_read f) acc (read_rune (enc_buffer f) chunk true).
Proof.
  unfold fs_read, finish. destruct (read_rune (enc_buffer f) chunk true) as [data rem|]; [|reflexivity].
  destruct (negb (has_read f) && negb (length data =? 0)%nat); [rewrite strip_bom_eq|]; reflexivity.
Qed.

Lemma read_rune_loop remains chunk eof : read_rune remains chunk eof = loop (remains ++ chunk) eof [].
Proof. reflexivity. Qed.

(* Main streaming lemma.  Invariant: no rune has been produced yet iff has_read = false
   (so acc = [] in that case). *)
Lemma fs_read_all_spec : forall reads f acc,
  (has_read f = false -> acc = []) ->
  fs_read_all reads f acc =
    finish (has_read f) acc (loop (enc_buffer f ++ delivered reads) true []).
Proof.
  induction reads as [|[chunk eof] rest IH]; intros f acc Hinv.
  - cbn [fs_read_all delivered]. rewrite fs_read_all_eof_step, read_rune_loop. reflexivity.
  - cbn [fs_read_all delivered]. destruct eof.
    + rewrite fs_read_all_eof_step, read_rune_loop. reflexivity.
    + unfold fs_read. rewrite read_rune_loop.
      pose proof (loop_split (length (enc_buffer f ++ chunk)) (enc_buffer f ++ chunk) [] (le_n _)
                    (delivered rest) true) as Hsp.
      destruct (loop (enc_buffer f ++ chunk) false []) as [data rem|] eqn:Hl.
      * rewrite <- app_assoc in Hsp. rewrite Hsp. simpl rev in Hsp |- *.
        destruct (has_read f) eqn:Hhr; simpl negb; cbn [andb].
        -- rewrite IH by (simpl; congruence). cbn [enc_buffer has_read].
           (* loop (rem ++ d) true (rev data) vs loop (rem ++ d) true [] *)
           rewrite (loop_eof_is_sdec _ _ (rev data) (le_n _)).
           rewrite (loop_eof_is_sdec _ _ [] (le_n _)).
           destruct (sdec (rem ++ delivered rest)); simpl; [|reflexivity].
           rewrite rev_involutive, app_assoc. reflexivity.
        -- rewrite (Hinv eq_refl). simpl app.
           destruct (length data =? 0)%nat eqn:Hz; simpl negb.
           ++ assert (data = []) by (destruct data; [reflexivity|simpl in Hz; discriminate]). subst data.
              rewrite IH by reflexivity. cbn [enc_buffer has_read]. reflexivity.
           ++ rewrite strip_bom_eq. rewrite IH by (simpl; congruence). cbn [enc_buffer has_read].
              rewrite (loop_eof_is_sdec _ _ (rev data) (le_n _)).
              rewrite (loop_eof_is_sdec _ _ [] (le_n _)).
              destruct (sdec (rem ++ delivered rest)) as [cps|]; simpl; [|reflexivity].
              rewrite rev_involutive.
              assert (length (data ++ cps) =? 0 = false)%nat as ->.
              { rewrite app_length. destruct data; [simpl in Hz; discriminate|reflexivity]. }
              simpl. destruct data as [|d0 tl]; [simpl in Hz; discriminate|].
              simpl. destruct (d0 =? BOM); reflexivity.
      * rewrite <- app_assoc in Hsp. rewrite Hsp. reflexivity.
Qed.

Theorem file_read_all_is_decode_file reads :
  file_read_all reads = decode_file (delivered reads).
Proof.
  unfold file_read_all. rewrite fs_read_all_spec by reflexivity.
  cbn [fs_init enc_buffer has_read app]. unfold decode_file. fold (sdec (delivered reads)).
  rewrite (loop_eof_is_sdec _ _ [] (le_n _)).
  destruct (sdec (delivered reads)) as [cps|]; [|reflexivity].
  simpl. destruct cps; reflexivity.
Qed.

Theorem bytes_read_all_is_decode_bytes bs : bytes_read_all bs = decode_bytes bs.
Proof.
  unfold bytes_read_all, decode_bytes. rewrite read_rune_loop. simpl app. fold (sdec bs).
  rewrite (loop_eof_is_sdec _ _ [] (le_n _)). destruct (sdec bs); reflexivity.
Qed.

(* ------------------------------------------------------------------ *)
(* The decoder against the RFC 3629 encoder                             *)

Lemma encode_cp_len c : scalar c -> (1 <= length (encode_cp c) <= 4)%nat.
Proof. unfold encode_cp. repeat match goal with |- context [if ?c then _ else _] => destruct c end; simpl; lia. Qed.

Lemma decode_encode_cp c rest : scalar c ->
  decode_rune (encode_cp c ++ rest) = (c, length (encode_cp c)).
Proof.
  intros Hs. unfold scalar in Hs. unfold encode_cp.
  destruct (c <? 0x80) eqn:H1; [|destruct (c <? 0x800) eqn:H2; [|destruct (c <? 0x10000) eqn:H3]].
  - simpl. unfold lead_info. replace (c <? 128) with true by lia. reflexivity.
  - cbn [app length decode_rune].
    assert (Hl : lead_info (0xC0 + c / 64) = Some (2%nat, 0x80, 0xBF)).
    { unfold lead_info.
      repeat match goal with |- context [if ?c then _ else _] => destruct c eqn:? end; try reflexivity; lia. }
    rewrite Hl. unfold inr.
    replace ((128 <=? 128 + c mod 64) && (128 + c mod 64 <=? 191)) with true by lia.
    f_equal. lia.
  - cbn [app length decode_rune].
    destruct (lead_info (0xE0 + c / 4096)) as [[[n lo] hi]|] eqn:Hl.
    2:{ exfalso. unfold lead_info in Hl.
        repeat match goal with H : context [if ?c then _ else _] |- _ => destruct c eqn:? end; try discriminate; lia. }
    assert (n = 3%nat /\ inr lo hi (0x80 + (c / 64) mod 64) = true) as [-> Hin].
    { unfold lead_info in Hl. unfold inr.
      repeat match goal with H : context [if ?c then _ else _] |- _ => destruct c eqn:? end;
        inversion Hl; subst; split; try reflexivity; lia. }
    rewrite Hin. unfold cont, inr.
    replace ((128 <=? 128 + c mod 64) && (128 + c mod 64 <=? 191)) with true by lia.
    cbn [andb]. f_equal. lia.
  - cbn [app length decode_rune].
    destruct (lead_info (0xF0 + c / 262144)) as [[[n lo] hi]|] eqn:Hl.
    2:{ exfalso. unfold lead_info in Hl.
        repeat match goal with H : context [if ?c then _ else _] |- _ => destruct c eqn:? end; try discriminate; lia. }
    assert (n = 4%nat /\ inr lo hi (0x80 + (c / 4096) mod 64) = true) as [-> Hin].
    { unfold lead_info in Hl. unfold inr.
      repeat match goal with H : context [if ?c then _ else _] |- _ => destruct c eqn:? end;
        inversion Hl; subst; split; try reflexivity; lia. }
    rewrite Hin. unfold cont, inr.
    replace ((128 <=? 128 + (c / 64) mod 64) && (128 + (c / 64) mod 64 <=? 191)) with true by lia.
    replace ((128 <=? 128 + c mod 64) && (128 + c mod 64 <=? 191)) with true by lia.
    cbn [andb]. f_equal. lia.
Qed.

Lemma scalar_not_bad c : scalar c -> bad (c, length (encode_cp c)) = false.
Proof.
  intros Hs. unfold bad. cbn [fst snd]. pose proof (encode_cp_len c Hs).
  unfold encode_cp in *. unfold scalar in Hs. unfold RuneError.
  repeat match goal with |- context [if ?c then _ else _] => destruct c eqn:? end; simpl in *; try lia.
Qed.

Lemma skipn_app_exact {A} (l m : list A) : skipn (length l) (l ++ m) = m.
Proof. rewrite skipn_app, skipn_all, Nat.sub_diag. reflexivity. Qed.

(* C17_utf8_roundtrip *)
Theorem sdec_encode_all cps : Forall scalar cps -> sdec (encode_all cps) = Some cps.
Proof.
  induction cps as [|c cps IH]; intros HF; [reflexivity|].
  inversion HF as [|? ? Hc HF']; subst. unfold encode_all in *. cbn [map concat].
  pose proof (encode_cp_len c Hc) as Hlen.
  assert (Hne : encode_cp c ++ concat (map encode_cp cps) <> []).
  { destruct (encode_cp c); [simpl in Hlen; lia| simpl; congruence]. }
  rewrite (sdec_step _ Hne), decode_encode_cp by exact Hc.
  rewrite scalar_not_bad by exact Hc. cbn [fst snd].
  rewrite skipn_app_exact, IH by exact HF'. reflexivity.
Qed.

(* inversion: a good decode of bytes yields a scalar whose encoding was consumed *)
Lemma decode_rune_good_inv bs : Forall byteP bs -> bs <> [] ->
  bad (decode_rune bs) = false ->
  scalar (fst (decode_rune bs)) /\
  firstn (snd (decode_rune bs)) bs = encode_cp (fst (decode_rune bs)).
Proof.
  intros HB Hne Hb. destruct bs as [|b0 r]; [congruence|].
  inversion HB as [|? ? Hb0 HB1]; subst. unfold byteP in Hb0.
  unfold bad in Hb. cbn [decode_rune] in *.
  destruct (lead_info b0) as [[[n lo] hi]|] eqn:Hl;
    [|exfalso; cbn in Hb; unfold RuneError in Hb; simpl in Hb; lia].
  pose proof (lead_info_len _ _ _ _ Hl) as Hn.
  destruct n as [|[|[|[|[|?]]]]]; try lia.
  - (* 1 byte *)
    cbn [fst snd firstn]. unfold lead_info in Hl.
    destruct (b0 <? 0x80) eqn:H1.
    + split; [unfold scalar; lia|]. unfold encode_cp. rewrite H1. reflexivity.
    + exfalso. repeat match goal with H : context [if ?c then _ else _] |- _ => destruct c eqn:? end; discriminate.
  - (* 2 bytes *)
    destruct r as [|b1 r]; [exfalso; cbn in Hb; unfold RuneError in Hb; simpl in Hb; lia|].
    inversion HB1 as [|? ? Hb1 _]; subst. unfold byteP in Hb1.
    destruct (inr lo hi b1) eqn:Hin; [|exfalso; cbn in Hb; unfold RuneError in Hb; simpl in Hb; lia].
    cbn [fst snd firstn]. unfold inr in Hin. unfold lead_info in Hl.
    repeat match goal with H : context [if ?c then _ else _] |- _ => destruct c eqn:? end;
      inversion Hl; subst.
    split; [unfold scalar; lia|]. unfold encode_cp.
    replace ((b0 mod 32) * 64 + b1 mod 64 <? 0x80) with false by lia.
    replace ((b0 mod 32) * 64 + b1 mod 64 <? 0x800) with true by lia.
    f_equal; [lia|f_equal; lia].
  - (* 3 bytes *)
    destruct r as [|b1 [|b2 r]]; try (exfalso; cbn in Hb; unfold RuneError in Hb; simpl in Hb; lia).
    inversion HB1 as [|? ? Hb1 HB2]; subst. inversion HB2 as [|? ? Hb2 _]; subst.
    unfold byteP in Hb1, Hb2.
    destruct (inr lo hi b1 && cont b2) eqn:Hin; [|exfalso; cbn in Hb; unfold RuneError in Hb; simpl in Hb; lia].
    cbn [fst snd firstn]. unfold cont, inr in Hin. unfold lead_info in Hl.
    repeat match goal with H : context [if ?c then _ else _] |- _ => destruct c eqn:? end;
      inversion Hl; subst;
    (split; [unfold scalar; lia|]; unfold encode_cp;
     match goal with |- context [?x <? 0x80] => replace (x <? 0x80) with false by lia end;
     match goal with |- context [?x <? 0x800] => replace (x <? 0x800) with false by lia end;
     match goal with |- context [?x <? 0x10000] => replace (x <? 0x10000) with true by lia end;
     f_equal; [lia|f_equal; [lia|f_equal; lia]]).
  - (* 4 bytes *)
    destruct r as [|b1 [|b2 [|b3 r]]]; try (exfalso; cbn in Hb; unfold RuneError in Hb; simpl in Hb; lia).
    inversion HB1 as [|? ? Hb1 HB2]; subst. inversion HB2 as [|? ? Hb2 HB3]; subst.
    inversion HB3 as [|? ? Hb3 _]; subst.
    unfold byteP in Hb1, Hb2, Hb3.
    destruct (inr lo hi b1 && cont b2 && cont b3) eqn:Hin; [|exfalso; cbn in Hb; unfold RuneError in Hb; simpl in Hb; lia].
    cbn [fst snd firstn]. unfold cont, inr in Hin. unfold lead_info in Hl.
    repeat match goal with H : context [if ?c then _ else _] |- _ => destruct c eqn:? end;
      inversion Hl; subst;
    (split; [unfold scalar; lia|]; unfold encode_cp;
     match goal with |- context [?x <? 0x80] => replace (x <? 0x80) with false by lia end;
     match goal with |- context [?x <? 0x800] => replace (x <? 0x800) with false by lia end;
     match goal with |- context [?x <? 0x10000] => replace (x <? 0x10000) with false by lia end;
     f_equal; [lia|f_equal; [lia|f_equal; [lia|f_equal; lia]]]).
Qed.

Lemma Forall_skipn {A} (P : A -> Prop) n l : Forall P l -> Forall P (skipn n l).
Proof. revert l; induction n as [|n IHn]; intros l H; [exact H|]. destruct l as [|a l]; [constructor|]. inversion H; subst. simpl. apply IHn. assumption. Qed.

(* C17_decode_only_valid *)
Theorem sdec_sound n : forall bs cps, (length bs <= n)%nat -> Forall byteP bs ->
  sdec bs = Some cps -> Forall scalar cps /\ bs = encode_all cps.
Proof.
  induction n as [|n IH]; intros bs cps Hlen HB.
  - destruct bs; [|simpl in Hlen; lia]. rewrite sdec_nil. intros H; inversion H. split; [constructor|reflexivity].
  - destruct bs as [|b0 r]; [rewrite sdec_nil; intros H; inversion H; split; [constructor|reflexivity]|].
    set (bs := b0 :: r) in *.
    assert (Hne : bs <> []) by (unfold bs; congruence).
    rewrite (sdec_step bs Hne).
    destruct (bad (decode_rune bs)) eqn:Hb; [congruence|].
    destruct (decode_rune_good_inv bs HB Hne Hb) as [Hsc Hfn].
    destruct (decode_rune bs) as [ru size] eqn:Hd. cbn [fst snd] in *.
    assert (1 <= size)%nat by (eapply decode_rune_nonempty_size; [|exact Hd]; assumption).
    destruct (sdec (skipn size bs)) as [cps'|] eqn:Hs; [|congruence].
    intros H1; inversion H1; subst cps.
    destruct (IH (skipn size bs) cps') as [HF Heq]; [| apply Forall_skipn; exact HB | exact Hs |].
    + pose proof (skipn_length_lt size bs ltac:(lia) Hne). unfold bs in *. simpl in *. lia.
    + split; [constructor; assumption|].
      unfold encode_all in *. cbn [map concat]. rewrite <- Hfn, <- Heq. symmetry. apply firstn_skipn.
Qed.

(* ------------------------------------------------------------------ *)
(* Property-level corollaries                                           *)

Lemma decode_bytes_encode_all cps : Forall scalar cps -> decode_bytes (encode_all cps) = Ok cps.
Proof. intros H. unfold decode_bytes. fold (sdec (encode_all cps)). rewrite sdec_encode_all by exact H. reflexivity. Qed.

Lemma decode_bytes_sound bs cps : Forall byteP bs -> decode_bytes bs = Ok cps ->
  Forall scalar cps /\ bs = encode_all cps.
Proof.
  intros HB. unfold decode_bytes. fold (sdec bs). destruct (sdec bs) as [c|] eqn:Hs; [|discriminate].
  intros H; inversion H; subst. exact (sdec_sound _ _ _ (le_n _) HB Hs).
Qed.

Lemma decode_file_bom cps : Forall scalar cps -> decode_file (encode_all (BOM :: cps)) = Ok cps.
Proof.
  intros H. unfold decode_file. fold (sdec (encode_all (BOM :: cps))).
  rewrite sdec_encode_all; [reflexivity|]. constructor; [|exact H]. unfold scalar, BOM. lia.
Qed.

Lemma decode_file_nobom cps : Forall scalar cps -> hd 0 cps <> BOM -> decode_file (encode_all cps) = Ok cps.
Proof.
  intros H Hh. unfold decode_file. fold (sdec (encode_all cps)). rewrite sdec_encode_all by exact H.
  destruct cps as [|c tl]; [reflexivity|]. simpl in *. destruct (c =? BOM) eqn:E; [lia|reflexivity].
Qed.

Lemma file_read_all_invalid reads : Forall byteP (delivered reads) ->
  (~ exists cps, Forall scalar cps /\ delivered reads = encode_all cps) -> file_read_all reads = Err.
Proof.
  intros HB Hn. rewrite file_read_all_is_decode_file. unfold decode_file. fold (sdec (delivered reads)).
  destruct (sdec (delivered reads)) as [cps|] eqn:Hs; [|reflexivity].
  exfalso. apply Hn. exists cps. exact (sdec_sound _ _ _ (le_n _) HB Hs).
Qed.

Lemma file_read_all_lossless reads cps : Forall byteP (delivered reads) ->
  file_read_all reads = Ok cps ->
  delivered reads = encode_all cps \/ delivered reads = encode_all (BOM :: cps).
Proof.
  intros HB. rewrite file_read_all_is_decode_file. unfold decode_file. fold (sdec (delivered reads)).
  destruct (sdec (delivered reads)) as [c0|] eqn:Hs; [|discriminate].
  destruct (sdec_sound _ _ _ (le_n _) HB Hs) as [_ Heq]. intros H; inversion H; subst.
  destruct c0 as [|c tl]; [left; exact Heq|]. simpl. destruct (c =? BOM) eqn:E.
  - right. replace BOM with c by lia. exact Heq.
  - left. exact Heq.
Qed.
