(* ModulesProofs.v — proofs about the module-system model (property C15). *)
From Coq Require Import List ZArith Bool Arith Lia.
Import ListNotations.
From Zn.model Require Import Modules.

Lemma name_eqb_refl : forall a, name_eqb a a = true.
Proof. induction a; simpl; auto. rewrite Z.eqb_refl. auto. Qed.

Lemma name_eqb_eq : forall a b, name_eqb a b = true <-> a = b.
Proof.
  induction a; destruct b; simpl; split; intros H; try discriminate; auto.
  - apply andb_true_iff in H. destruct H as [H1 H2]. apply Z.eqb_eq in H1. apply IHa in H2. subst. auto.
  - inversion H. subst. rewrite Z.eqb_refl. simpl. apply IHa. auto.
Qed.
