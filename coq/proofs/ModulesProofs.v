(* ModulesProofs.v — proofs about the module-system model (property C15). *)
From Coq Require Import List ZArith Bool Arith Lia.
Import ListNotations.
From Zn.model Require Import Modules.

Lemma name_eqb_refl : forall a, name_eqb a a = true.
Proof. induction a; simpl; auto. rewrite Z.eqb_refl. auto. Qed.

Lemma name_eqb_eq : forall a b, name_eqb a b = true <-> a = b.
Proof.
  induction a; destruct b; simpl; split; intros H; try discriminate; auto.
  - apply andb_true_iff in H. destruct H as [H1 H2]. apply Z.eqb_eq in H1. apply IHa in H2. subst. auto.
  - inversion H. subst. rewrite Z.eqb_refl. simpl. apply IHa. auto.
Qed.

(* ------------------------------------------------------------------ name -> path *)

Lemma split_on_nonempty : forall sep s, split_on sep s <> [].
Proof.
  intros sep s. destruct s; simpl; [discriminate|].
  destruct (Z.eqb z sep); [discriminate|]. destruct (split_on sep s); discriminate.
Qed.

Lemma split_on_app : forall sep s t, ~ In sep s ->
  split_on sep (s ++ t) = (s ++ hd [] (split_on sep t)) :: tl (split_on sep t).
Proof.
  intros sep s t. induction s as [|c s IH]; intros Hn.
  - simpl. pose proof (split_on_nonempty sep t). destruct (split_on sep t); [contradiction | reflexivity].
  - simpl. destruct (Z.eqb c sep) eqn:E.
    + apply Z.eqb_eq in E. exfalso. apply Hn. left. auto.
    + rewrite IH by (intros H; apply Hn; right; auto). reflexivity.
Qed.

Lemma split_on_single : forall sep s, ~ In sep s -> split_on sep s = [s].
Proof.
  intros sep s H. rewrite <- (app_nil_r s) at 1. rewrite split_on_app by auto. simpl. rewrite app_nil_r. auto.
Qed.

Lemma split_join : forall sep segs, segs <> [] -> Forall (fun s => ~ In sep s) segs ->
  split_on sep (join_with sep segs) = segs.
Proof.
  intros sep segs. induction segs as [|s r IH]; intros Hne Hall; [contradiction|].
  inversion Hall as [|? ? Hs Hr]; subst.
  destruct r as [|s2 r2].
  - simpl. apply split_on_single. auto.
  - change (join_with sep (s :: s2 :: r2)) with (s ++ sep :: join_with sep (s2 :: r2)).
    rewrite split_on_app by auto.
    simpl. rewrite Z.eqb_refl. simpl. rewrite app_nil_r. f_equal. apply IH; [discriminate | auto].
Qed.

(* 导入“A-B-C” resolves to A/B/C.zn below the main file's directory *)
Theorem path_mapping : forall segs, segs <> [] -> Forall (fun s => ~ In c_dash s) segs ->
  hd 0%Z (join_with c_dash segs) <> c_at ->
  parse_lib_name (join_with c_dash segs) = (LibCustom, segs) /\
  path_of_name (join_with c_dash segs) = add_zn segs.
Proof.
  intros segs Hne Hall Hat.
  assert (H : parse_lib_name (join_with c_dash segs) = (LibCustom, segs)).
  { unfold parse_lib_name. destruct (join_with c_dash segs) as [|c r] eqn:E.
    - rewrite <- E. rewrite split_join; auto.
    - simpl in Hat. destruct (Z.eqb c c_at) eqn:E2; [apply Z.eqb_eq in E2; contradiction|].
      rewrite <- E. rewrite split_join; auto. }
  split; auto. unfold path_of_name. rewrite H. reflexivity.
Qed.

Lemma add_zn_shape : forall pre last, add_zn (pre ++ [last]) = pre ++ [last ++ dot_zn].
Proof.
  induction pre as [|a pre IH]; intros last; simpl; auto.
  rewrite IH. destruct (pre ++ [last]) eqn:E; auto. destruct pre; discriminate.
Qed.

(* 导入《@库》 is a library import under the library's registered name *)
Lemma lib_name_parse : forall n, fst (parse_lib_name (c_at :: n)) = LibStd.
Proof. intros n. unfold parse_lib_name. rewrite Z.eqb_refl. reflexivity. Qed.

(* ------------------------------------------------------------------ scopes *)

Lemma get_put_scope : forall l id s, get_scope_in (put_scope_in l id s) id = s.
Proof.
  induction l as [|[k s0] l IH]; intros id s; simpl.
  - rewrite Nat.eqb_refl. auto.
  - destruct (Nat.eqb k id) eqn:E; simpl; rewrite E; auto.
Qed.

Lemma cur_scope_set : forall st s, cur_scope (set_cur_scope st s) = s.
Proof. intros st s. unfold cur_scope, set_cur_scope, cur_id. simpl. apply get_put_scope. Qed.

Lemma scope_lookup_app : forall l1 l2 x,
  scope_lookup (l1 ++ l2) x = match scope_lookup l1 x with Some y => Some y | None => scope_lookup l2 x end.
Proof.
  induction l1 as [|y l1 IH]; intros l2 x; simpl; auto. destruct (name_eqb (y_name y) x); auto.
Qed.

Lemma scope_set_const : forall l x y v, scope_lookup l x = Some y -> y_const y = true -> scope_set l x v = SetConst.
Proof.
  induction l as [|a l IH]; intros x y v Hl Hc; simpl in *; [discriminate|].
  destruct (name_eqb (y_name a) x).
  - inversion Hl; subst. rewrite Hc. auto.
  - erewrite IH; eauto.
Qed.

(* state components that declarations in the current scope never touch *)
Definition same_core (st st' : vm) : Prop :=
  v_mods st' = v_mods st /\ v_edges st' = v_edges st /\ v_cs st' = v_cs st /\ v_frames st' = v_frames st /\
  v_trace st' = v_trace st.

Lemma same_core_refl : forall st, same_core st st.
Proof. intros st. repeat split. Qed.

Lemma same_core_trans : forall a b c, same_core a b -> same_core b c -> same_core a c.
Proof. unfold same_core. intros a b c (A1&A2&A3&A4&A5) (B1&B2&B3&B4&B5). repeat split; congruence. Qed.

Lemma set_cur_scope_core : forall st s, same_core st (set_cur_scope st s).
Proof. intros st s. repeat split. Qed.

Lemma declare_ok : forall st x v k e st', declare st x v k e = Some st' ->
  same_core st st' /\
  cur_scope st' = mkScope (mkSym x (sc_depth (cur_scope st)) k v e :: sc_syms (cur_scope st)) (sc_depth (cur_scope st)) /\
  redeclared (sc_syms (cur_scope st)) (sc_depth (cur_scope st)) x = false.
Proof.
  intros st x v k e st' H. unfold declare, scope_declare in H.
  destruct (redeclared (sc_syms (cur_scope st)) (sc_depth (cur_scope st)) x) eqn:E; [discriminate|].
  inversion H; subst. split; [apply set_cur_scope_core|]. split; auto. apply cur_scope_set.
Qed.

Definition ext_sym (d ext : nat) (xv : name * value) : sym := mkSym (fst xv) d true (snd xv) (Some ext).

Lemma declare_externals_ok : forall ext L st st',
  declare_externals st ext L = (Ok, st') ->
  same_core st st' /\
  sc_depth (cur_scope st') = sc_depth (cur_scope st) /\
  sc_syms (cur_scope st') = rev (map (ext_sym (sc_depth (cur_scope st)) ext) L) ++ sc_syms (cur_scope st).
Proof.
  intros ext L. induction L as [|[x v] L IH]; intros st st' H; simpl in H.
  - inversion H; subst. split; [apply same_core_refl|]. split; auto.
  - destruct (declare st x v true (Some ext)) as [st1|] eqn:E; [|discriminate].
    apply declare_ok in E. destruct E as (C1 & S1 & _).
    apply IH in H. destruct H as (C2 & D2 & S2).
    split; [eapply same_core_trans; eauto|].
    rewrite D2, S2, S1. simpl. split; auto.
    rewrite <- app_assoc. reflexivity.
Qed.

Lemma declare_externals_res : forall ext L st r st',
  declare_externals st ext L = (r, st') -> r = Ok \/ r = Err E_NameRedeclared.
Proof.
  intros ext L. induction L as [|[x v] L IH]; intros st r st' H; simpl in H.
  - inversion H; auto.
  - destruct (declare st x v true (Some ext)); [eauto | inversion H; auto].
Qed.

Lemma lookup_ext_syms : forall d ext L x,
  match scope_lookup (rev (map (ext_sym d ext) L)) x with
  | Some y => y_const y = true /\ y_ext y = Some ext /\ y_depth y = d /\ In (x, y_val y) L
  | None => ~ In x (map fst L)
  end.
Proof.
  intros d ext L x. induction L as [|[a v] L IH]; simpl; auto.
  rewrite scope_lookup_app. destruct (scope_lookup (rev (map (ext_sym d ext) L)) x) as [y|] eqn:E.
  - destruct IH as (A & B & C & D). repeat split; auto.
  - simpl. destruct (name_eqb a x) eqn:E2.
    + apply name_eqb_eq in E2. subst. simpl. repeat split; auto.
    + intros [H | H]; [|contradiction]. subst. rewrite name_eqb_refl in E2. discriminate.
Qed.

Lemma assoc_find_In : forall A (l : list (name * A)) x v, assoc_find l x = Some v -> In (x, v) l.
Proof.
  induction l as [|[k w] l IH]; intros x v H; simpl in H; [discriminate|].
  destruct (name_eqb k x) eqn:E.
  - apply name_eqb_eq in E. inversion H; subst. left; auto.
  - right. auto.
Qed.

Lemma select_exports_In : forall exps items x v,
  In (x, v) (select_exports exps items) -> In x items /\ assoc_find exps x = Some v.
Proof.
  induction items as [|a items IH]; intros x v H; simpl in H; [contradiction|].
  destruct (assoc_find exps a) as [w|] eqn:E.
  - destruct H as [H | H].
    + inversion H; subst. split; [left; auto | auto].
    + apply IH in H. destruct H. split; [right; auto | auto].
  - apply IH in H. destruct H. split; [right; auto | auto].
Qed.

Lemma select_exports_complete : forall exps items x v,
  In x items -> assoc_find exps x = Some v -> In x (map fst (select_exports exps items)).
Proof.
  induction items as [|a items IH]; intros x v Hin Hf; [contradiction|].
  simpl. destruct Hin as [Hin | Hin].
  - subst. rewrite Hf. left. auto.
  - destruct (assoc_find exps a); [right|]; eauto.
Qed.

Section Imports.
  Variable fs : filesys.
  Variable libs : libraries.
  Variable ord_exports : list (name * value) -> list (name * value).
  Variable ord_nodes : list nat -> list nat.
  Hypothesis ord_exports_perm : forall l xv, In xv (ord_exports l) <-> In xv l.

  (* the list of (name, value) an import statement declares *)
  Definition imported_list (st : vm) (ext : nat) (items : list name) : list (name * value) :=
    match items with
    | [] => ord_exports (m_exports (get_mod st ext))
    | _ => select_exports (m_exports (get_mod st ext)) items
    end.

  Lemma import_symbols_unfold : forall st ext items,
    import_symbols ord_exports st ext items = declare_externals st ext (imported_list st ext items).
  Proof. intros st ext items. unfold import_symbols, imported_list. destruct items; reflexivity. Qed.

  (* an import either succeeds or fails with "redeclared" *)
  Lemma import_symbols_res : forall st ext items r st',
    import_symbols ord_exports st ext items = (r, st') -> r = Ok \/ r = Err E_NameRedeclared.
  Proof. intros. rewrite import_symbols_unfold in H. eapply declare_externals_res; eauto. Qed.

  (* exactly the imported list becomes visible, as constants that remember their home module; nothing else changes *)
  Theorem import_symbols_exact : forall st ext items st',
    import_symbols ord_exports st ext items = (Ok, st') ->
    let L := imported_list st ext items in
    same_core st st' /\
    (forall x, In x (map fst L) ->
       exists y, scope_lookup (sc_syms (cur_scope st')) x = Some y /\ y_const y = true /\ y_ext y = Some ext /\
                 In (x, y_val y) L) /\
    (forall x, ~ In x (map fst L) ->
       scope_lookup (sc_syms (cur_scope st')) x = scope_lookup (sc_syms (cur_scope st)) x).
  Proof.
    intros st ext items st' H L. rewrite import_symbols_unfold in H. fold L in H.
    apply declare_externals_ok in H. destruct H as (C & D & S).
    split; auto. rewrite S. split; intros x Hx; rewrite scope_lookup_app;
      pose proof (lookup_ext_syms (sc_depth (cur_scope st)) ext L x) as HL;
      destruct (scope_lookup (rev (map (ext_sym (sc_depth (cur_scope st)) ext) L)) x) as [y|].
    - destruct HL as (A & B & _ & E). exists y. auto.
    - contradiction.
    - destruct HL as (_ & _ & _ & E). exfalso. apply Hx. apply in_map_iff. exists (x, y_val y). auto.
    - auto.
  Qed.

  (* "all": the declared names are exactly the export table's names *)
  Lemma imported_all : forall st ext xv, In xv (imported_list st ext []) <-> In xv (m_exports (get_mod st ext)).
  Proof. intros. simpl. apply ord_exports_perm. Qed.

  (* "listed": exactly the listed names that the module exports *)
  Lemma imported_listed : forall st ext items x, items <> [] ->
    (In x (map fst (imported_list st ext items)) <->
     In x items /\ exists v, assoc_find (m_exports (get_mod st ext)) x = Some v).
  Proof.
    intros st ext items x Hne. unfold imported_list. destruct items as [|a items]; [contradiction|].
    split.
    - intros H. apply in_map_iff in H. destruct H as [[x' v] [Hx Hin]]. simpl in Hx. subst.
      apply select_exports_In in Hin. destruct Hin. split; eauto.
    - intros [Hin [v Hv]]. eapply select_exports_complete; eauto.
  Qed.

  (* read-only: assigning to a name that an import just declared is error 44, whatever the callee *)
  Theorem imported_name_is_const : forall st ext items st' x callee,
    import_symbols ord_exports st ext items = (Ok, st') ->
    In x (map fst (imported_list st ext items)) ->
    exec_stmt_with callee st' (SAssign x) = (Err E_AssignToConstant, st').
  Proof.
    intros st ext items st' x callee H Hx.
    apply import_symbols_exact in H. destruct H as (_ & Hvis & _).
    destruct (Hvis x Hx) as (y & Hl & Hc & _).
    simpl. erewrite scope_set_const; eauto.
  Qed.

  (* ---- missing module / library *)
  Theorem import_missing_module : forall loader st imp,
    fst (parse_lib_name (i_name imp)) = LibCustom ->
    find_module st (i_name imp) = None ->
    fs_find fs (path_of_name (i_name imp)) = None ->
    eval_import_with fs libs ord_exports ord_nodes loader st imp = (Err E_ModuleNotFound, st).
  Proof.
    intros loader st imp H1 H2 H3. unfold eval_import_with. rewrite H1, H2, H3. reflexivity.
  Qed.

  Theorem import_missing_library : forall loader st imp,
    fst (parse_lib_name (i_name imp)) = LibStd ->
    lib_find libs (i_name imp) = None ->
    fst (eval_import_with fs libs ord_exports ord_nodes loader st imp) = Err E_LibraryNotFound.
  Proof.
    intros loader st imp H1 H2. unfold eval_import_with. rewrite H1.
    destruct (allocate_module st (i_name imp) None). rewrite H2. reflexivity.
  Qed.
End Imports.
