(* SemEq.v — structural equality (compareLogicXEQ / value.CompareValues, repaired) on dictionaries is a function of
   their contents only (properties C01, C11). *)
From Coq Require Import List ZArith Bool Lia Permutation.
From Zn.lib Require Import Float64.
From Zn.model Require Import SemDefs Sem.
Import ListNotations.
Open Scope Z_scope.

Definition keys (kvs : list (str * val)) : list str := map fst kvs.

(* one level of the dictionary comparison, as the model (and the repaired Go loop) runs it *)
Fixpoint dict_go (cmp : val -> val -> cres) (ys : list (str * val)) (xs : list (str * val)) : cres :=
  match xs with
  | (key, x) :: xt =>
    match assoc_str key ys with
    | None => CFalse
    | Some y => match cmp x y with
                | CTrue => dict_go cmp ys xt
                | r => r
                end
    end
  | [] => CTrue
  end.

Lemma xeq_dict_unfold k h la lb xs ys :
  nth_error h la = Some (CDict xs) -> nth_error h lb = Some (CDict ys) ->
  xeq (S k) h (VDict la) (VDict lb) =
    if negb (length xs =? length ys)%nat then CFalse else dict_go (xeq k h) ys xs.
Proof.
  intros Ha Hb. cbn [xeq]. rewrite Ha, Hb. destruct (negb (length xs =? length ys)%nat); [reflexivity|].
  clear Ha. generalize xs. intros xs0. induction xs0 as [|[key x] xt IH]; [reflexivity|].
  cbn [dict_go]. destruct (assoc_str key ys) as [y|]; [|reflexivity].
  destruct (xeq k h x y); try reflexivity. exact IH.
Qed.

(* the loop answers "equal" iff EVERY key of the left operand has an equal value on the right *)
Lemma dict_go_true cmp ys : forall xs,
  dict_go cmp ys xs = CTrue <->
  Forall (fun kx => exists y, assoc_str (fst kx) ys = Some y /\ cmp (snd kx) y = CTrue) xs.
Proof.
  induction xs as [|[key x] xt IH]; cbn [dict_go].
  - split; [constructor|reflexivity].
  - destruct (assoc_str key ys) as [y|] eqn:E.
    + destruct (cmp x y) eqn:C.
      * rewrite IH. split; [intros F; constructor; [exists y; split; assumption|exact F]|intros F; inversion F; assumption].
      * split; [discriminate|]. intros F. inversion F as [|? ? [y' [E' C']] _]; subst. cbn in *. congruence.
      * split; [discriminate|]. intros F. inversion F as [|? ? [y' [E' C']] _]; subst. cbn in *. congruence.
      * split; [discriminate|]. intros F. inversion F as [|? ? [y' [E' C']] _]; subst. cbn in *. congruence.
    + split; [discriminate|]. intros F. inversion F as [|? ? [y' [E' C']] _]; subst. cbn in *. congruence.
Qed.

(* lookup in a dictionary with distinct keys does not depend on the order of its entries *)
Lemma assoc_str_in key v : forall ys, NoDup (keys ys) -> In (key, v) ys -> assoc_str key ys = Some v.
Proof.
  induction ys as [|[k0 v0] tl IH]; intros Hn Hin; [contradiction|]. cbn [assoc_str].
  inversion Hn as [|? ? Hnot Hn']; subst. destruct Hin as [Heq|Hin].
  - inversion Heq; subst. unfold str_eqb. destruct (list_eq_dec Z.eq_dec key key); [reflexivity|congruence].
  - unfold str_eqb. destruct (list_eq_dec Z.eq_dec k0 key) as [->|Hne].
    + exfalso. apply Hnot. unfold keys. apply in_map_iff. exists (key, v). split; [reflexivity|exact Hin].
    + apply IH; assumption.
Qed.

Lemma assoc_str_some_in key v : forall ys, assoc_str key ys = Some v -> In (key, v) ys.
Proof.
  induction ys as [|[k0 v0] tl IH]; cbn [assoc_str]; [discriminate|].
  unfold str_eqb. destruct (list_eq_dec Z.eq_dec k0 key) as [->|Hne].
  - intros H; inversion H; subst. left; reflexivity.
  - intros H. right. apply IH. exact H.
Qed.

Lemma assoc_str_perm key ys ys' : NoDup (keys ys) -> Permutation ys ys' -> assoc_str key ys = assoc_str key ys'.
Proof.
  intros Hn Hp. assert (Hn' : NoDup (keys ys')) by (eapply Permutation_NoDup; [apply Permutation_map; exact Hp|exact Hn]).
  destruct (assoc_str key ys) as [v|] eqn:E.
  - symmetry. apply assoc_str_in; [exact Hn'|]. eapply Permutation_in; [exact Hp|]. apply assoc_str_some_in. exact E.
  - destruct (assoc_str key ys') as [v'|] eqn:E'; [|reflexivity].
    apply assoc_str_some_in in E'. apply (Permutation_in _ (Permutation_sym Hp)) in E'.
    rewrite (assoc_str_in key v' ys Hn E') in E. discriminate.
Qed.

(* "equal" is invariant under any reordering of either operand's entries *)
Theorem dict_go_true_perm cmp xs xs' ys ys' :
  NoDup (keys ys) -> Permutation xs xs' -> Permutation ys ys' ->
  (dict_go cmp ys xs = CTrue <-> dict_go cmp ys' xs' = CTrue).
Proof.
  intros Hn Hx Hy. rewrite !dict_go_true. split; intros F.
  - apply (Permutation_Forall Hx) in F. eapply Forall_impl; [|exact F].
    intros [key x] [y [E C]]. exists y. cbn in *. rewrite <- (assoc_str_perm key ys ys' Hn Hy). tauto.
  - apply (Permutation_Forall (Permutation_sym Hx)). eapply Forall_impl; [|exact F].
    intros [key x] [y [E C]]. exists y. cbn in *. rewrite (assoc_str_perm key ys ys' Hn Hy). tauto.
Qed.

(* at heap level: two dictionaries whose cells are permutations of the same entries compare alike *)
Theorem xeq_dict_contents_only k h la la' lb lb' xs xs' ys ys' :
  nth_error h la = Some (CDict xs) -> nth_error h la' = Some (CDict xs') ->
  nth_error h lb = Some (CDict ys) -> nth_error h lb' = Some (CDict ys') ->
  NoDup (keys ys) -> Permutation xs xs' -> Permutation ys ys' ->
  (xeq (S k) h (VDict la) (VDict lb) = CTrue <-> xeq (S k) h (VDict la') (VDict lb') = CTrue).
Proof.
  intros Ha Ha' Hb Hb' Hn Hx Hy.
  rewrite (xeq_dict_unfold k h la lb xs ys Ha Hb), (xeq_dict_unfold k h la' lb' xs' ys' Ha' Hb').
  rewrite <- (Permutation_length Hx), <- (Permutation_length Hy).
  destruct (negb (length xs =? length ys)%nat); [tauto|].
  apply dict_go_true_perm; assumption.
Qed.

(* the model is a function: same program, inputs and fuel give the same outcome *)
Theorem run_program_deterministic n p inputs r1 r2 :
  run_program n p inputs = r1 -> run_program n p inputs = r2 -> r1 = r2.
Proof. congruence. Qed.
