(* C05 - every syntax error the front-end model reports carries a cursor inside the text (0 <= cursor <= length).
   Position invariant of the lexer model: cursor + characters not yet read = length of the source, through the
   C04 (punctuation / operator / keyword / identifier) and C13 (string literal) recognisers, the comment scanner and
   the line / indentation bookkeeping; then through every production of the parser model. *)
From Coq Require Import List ZArith Bool Lia.
Import ListNotations.
From Zn.gen Require Import GenFrontTokens.
From Zn.model Require Import LexerTok Lexer Ast Parser.
From Zn.model Require StringLit.
From Zn.proofs Require StringLitProofs.
From Zn.proofs Require Import FrontLexProofs.
Open Scope Z_scope.

Notation zlen r := (Z.of_nat (length r)).

Definition inr (N k : Z) : Prop := 0 <= k <= N.
(* the position invariant *)
(* written with N on the right-hand side of a subtraction so that [subst] never eliminates N *)
Definition linv (N : Z) (st : lstate) : Prop := 0 <= pos st /\ pos st = N - zlen (rest st).

Definition lres_ok {A} (N : Z) (Q : A -> lstate -> Prop) (r : lres A) : Prop :=
  match r with
  | LOk a st => linv N st /\ Q a st
  | LErr _ k => inr N k
  | _ => True
  end.

Lemma linv_inr : forall N st, linv N st -> inr N (pos st).
Proof. intros N st [H1 H2]. unfold inr. lia. Qed.

Lemma linv_set_lines : forall N st ls, linv N st -> linv N (set_lines st ls).
Proof. intros N st ls H. exact H. Qed.
Lemma linv_set_itype : forall N st t, linv N st -> linv N (set_itype st t).
Proof. intros N st t H. exact H. Qed.

Lemma break_not_eof : forall c, is_break c = true -> c <> EOFc.
Proof. intros c H E. subst c. rewrite eof_not_break in H. discriminate. Qed.

Lemma break_nonempty : forall r, is_break (curc r) = true -> r <> [].
Proof. intros r H. eapply curc_nonempty; [reflexivity|]. apply break_not_eof. exact H. Qed.

Lemma is_pair_break2 : forall a b, is_pair a b = true -> is_break b = true.
Proof.
  intros a b H. unfold is_pair in H. unfold is_break.
  destruct (b =? g_RuneCR), (b =? g_RuneLF); cbn in *; try reflexivity.
  rewrite !andb_false_r in H. discriminate.
Qed.

Lemma linv_nextc : forall N st, linv N st -> rest st <> [] -> linv N (nextc st).
Proof.
  intros N st [H1 H2] Hne. unfold linv, nextc. cbn [set_pos_rest pos rest].
  destruct (rest st) as [|x r]; [congruence|]. cbn [tl length] in *. lia.
Qed.

(* ------------------------------------------------------------------ white space, indentation, lines *)
Lemma skip_ws_pos : forall r p r' p', skip_ws r p = (r', p') -> p' + zlen r' = p + zlen r /\ p <= p'.
Proof.
  induction r as [|c r IH]; intros p r' p' H; cbn [skip_ws] in H.
  - inversion H; subst. cbn. lia.
  - destruct (is_ws c).
    + apply IH in H. cbn [length]. lia.
    + inversion H; subst. lia.
Qed.

Lemma run_same_pos : forall ch r p c r' p' c', run_same ch r p c = (r', p', c') ->
  p' + zlen r' = p + 1 + zlen r /\ p + 1 <= p'.
Proof.
  induction r as [|x r IH]; intros p c r' p' c' H; cbn [run_same] in H.
  - inversion H; subst. cbn. lia.
  - destruct (x =? ch).
    + apply IH in H. cbn [length]. lia.
    + inversion H; subst. lia.
Qed.

Lemma count_indent_inv : forall N st st' c, linv N st -> count_indent st = (st', c) -> linv N st'.
Proof.
  intros N st st' c [H1 H2] H. unfold count_indent in H. destruct (rest st) as [|x r] eqn:E.
  - inversion H; subst. split; [exact H1|]. rewrite E. exact H2.
  - destruct (is_indent_char (curc (x :: r))).
    + destruct (run_same (curc (x :: r)) r (pos st) 1) as [[r' p'] c'] eqn:R.
      inversion H; subst. apply run_same_pos in R. unfold linv. cbn [set_pos_rest pos rest]. cbn [length] in H2. lia.
    + inversion H; subst. split; [exact H1|]. rewrite E. exact H2.
Qed.

Lemma set_indent_type_inv : forall N count ch st, linv N st -> lres_ok N (fun _ _ => True) (set_indent_type count ch st).
Proof.
  intros N count ch st H. pose proof (linv_inr _ _ H) as HR. unfold set_indent_type.
  repeat match goal with |- lres_ok _ _ (if ?b then _ else _) => destruct b end; cbn [lres_ok]; auto.
Qed.

Lemma parse_begin_lex_inv : forall N st, linv N st -> lres_ok N (fun _ _ => True) (parse_begin_lex st).
Proof.
  intros N st H. unfold parse_begin_lex.
  destruct (rest st) as [|ch r] eqn:E; [cbn; auto|].
  destruct (ch =? EOFc); [cbn; auto|].
  destruct (is_indent_char ch).
  - destruct (count_indent (set_lines st (lines st ++ [mkLine 0 0]))) as [st2 count] eqn:CI.
    apply (count_indent_inv N) in CI; [|apply linv_set_lines; exact H].
    pose proof (set_indent_type_inv N count ch st2 CI) as SI.
    destruct (set_indent_type count ch st2) as [n st3| | |]; cbn [lres_ok] in *; auto.
  - cbn. auto.
Qed.

Lemma parse_line_inv : forall N fuel st, linv N st -> is_break (curc (rest st)) = true ->
  lres_ok N (fun _ _ => True) (parse_line fuel st).
Proof.
  intros N. induction fuel as [|f IH]; intros st H Hb; [exact I|].
  cbn [parse_line].
  pose proof (break_nonempty _ Hb) as Hne.
  set (st1 := nextc st).
  assert (H1 : linv N st1) by (apply linv_nextc; assumption).
  set (st2 := if is_pair (curc (rest st)) (curc (rest st1)) then nextc st1 else st1).
  assert (H2 : linv N st2).
  { subst st2. destruct (is_pair (curc (rest st)) (curc (rest st1))) eqn:P; [|exact H1].
    apply linv_nextc; [exact H1|]. apply break_nonempty. eapply is_pair_break2; eauto. }
  destruct (negb (line_text_ok st (pos st))); [exact I|].
  set (st3 := set_lines st2 (lines st2 ++ [mkLine 0 (pos st2)])).
  assert (H3 : linv N st3) by exact H2.
  destruct (count_indent st3) as [st4 count] eqn:CI.
  apply (count_indent_inv N) in CI; [|exact H3].
  pose proof (set_indent_type_inv N count (curc (rest st2)) st4 CI) as SI.
  destruct (set_indent_type count (curc (rest st2)) st4) as [n st5| | |]; cbn [lres_ok] in SI; try exact I; [|exact SI].
  destruct SI as [SI _].
  set (st6 := set_lines st5 (set_last_indent n (lines st5))).
  assert (H6 : linv N st6) by exact SI.
  destruct (is_break (curc (rest st6))) eqn:B6.
  - apply IH; assumption.
  - cbn. auto.
Qed.

Lemma pre_next_token_inv : forall N fuel st, linv N st -> lres_ok N (fun _ _ => True) (pre_next_token fuel st).
Proof.
  intros N. induction fuel as [|f IH]; intros st H; [exact I|].
  cbn [pre_next_token]. destruct (rest st) as [|x r] eqn:E.
  - cbn. auto.
  - rewrite <- E. destruct (is_ws (curc (rest st))).
    + destruct (skip_ws (rest st) (pos st)) as [r' p'] eqn:S. apply skip_ws_pos in S.
      apply IH. destruct H as [A B]. unfold linv. cbn [set_pos_rest pos rest]. lia.
    + destruct (is_break (curc (rest st))) eqn:B.
      * pose proof (parse_line_inv N (S (len st)) st H B) as PL.
        destruct (parse_line (S (len st)) st) as [u st1| | |]; cbn [lres_ok] in PL; try exact I; [|exact PL].
        apply IH. apply PL.
      * cbn. auto.
Qed.

(* ------------------------------------------------------------------ comments *)
Lemma scan_comment_pos_aux : forall n r p cty q ls e r' ls', (length r <= n)%nat ->
  scan_comment r p cty q ls = (e, r', ls') -> e + zlen r' = p + zlen r /\ p <= e.
Proof.
  induction n as [|n IH]; intros r p cty q ls e r' ls' Hn H.
  - destruct r; [|cbn in Hn; lia]. cbn in H. inversion H; subst. lia.
  - destruct r as [|c r]; cbn [scan_comment] in H; [inversion H; subst; lia|].
    cbn [length] in Hn.
    destruct (c =? EOFc); [inversion H; subst; lia|].
    destruct (is_break c).
    { destruct (cty =? g_commentTypeSingle); [inversion H; subst; lia|].
      destruct r as [|c2 r2].
      - apply IH in H; [cbn [length] in *; lia|cbn; lia].
      - destruct (is_pair c c2).
        + apply IH in H; [cbn [length] in *; lia|cbn [length] in *; lia].
        + apply IH in H; [cbn [length] in *; lia|cbn [length] in *; lia]. }
    destruct (c =? g_LeftDoubleQuoteI); [apply IH in H; [cbn [length]; lia|lia]|].
    destruct (c =? g_LeftDoubleQuoteII); [apply IH in H; [cbn [length]; lia|lia]|].
    destruct ((c =? g_RightDoubleQuoteI) && (cty =? g_commentTypeQuoteI)).
    { destruct (q - 1 =? 0); [inversion H; subst; cbn [length]; lia|apply IH in H; [cbn [length]; lia|lia]]. }
    destruct ((c =? g_RightDoubleQuoteII) && (cty =? g_commentTypeQuoteII)).
    { destruct (q - 1 =? 0); [inversion H; subst; cbn [length]; lia|apply IH in H; [cbn [length]; lia|lia]]. }
    destruct ((c =? g_MultiplyOp) && (cty =? g_commentTypeSlash) && (curc r =? g_SlashOp)) eqn:SL.
    { inversion H; subst. apply andb_true_iff in SL. destruct SL as [_ SL]. apply Z.eqb_eq in SL.
      destruct r as [|y r]; [cbn in SL; discriminate|]. cbn [tl length]. lia. }
    apply IH in H; [cbn [length]; lia|lia].
Qed.

Lemma scan_comment_pos : forall r p cty q ls e r' ls',
  scan_comment r p cty q ls = (e, r', ls') -> e + zlen r' = p + zlen r /\ p <= e.
Proof. intros. eapply scan_comment_pos_aux; eauto. Qed.

Lemma skip_digits_p_pos : forall r p r' p', skip_digits_p r p = (r', p') -> p' + zlen r' = p + zlen r /\ p <= p'.
Proof.
  induction r as [|c r IH]; intros p r' p' H; cbn [skip_digits_p] in H.
  - inversion H; subst. lia.
  - destruct (is_pure_number c); [apply IH in H; cbn [length]; lia|inversion H; subst; lia].
Qed.

Lemma eqb_curc_nonempty : forall r c, (curc r =? c) = true -> c <> EOFc -> r <> [].
Proof. intros r c H N. apply Z.eqb_eq in H. eapply curc_nonempty; eauto. Qed.

Lemma peekc1_nonempty : forall r c, (peekc 1 r =? c) = true -> c <> EOFc -> (2 <= length r)%nat.
Proof.
  intros r c H N. apply Z.eqb_eq in H. destruct r as [|x [|y r]]; cbn in H; try congruence. cbn. lia.
Qed.

Lemma parse_comment_inv : forall N st tk st', linv N st -> parse_comment st = Some (tk, st') ->
  linv N st' /\ t_s tk = pos st.
Proof.
  intros N st tk st' [H1 H2] H. unfold parse_comment in H.
  destruct (curc (rest st) =? g_CharZHU) eqn:Z.
  - pose proof (eqb_curc_nonempty _ _ Z ltac:(discriminate)) as Hne.
    destruct (rest st) as [|x r] eqn:E; [congruence|]. cbn [tl] in H.
    destruct (skip_digits_p r (pos st + 1)) as [r1 p1] eqn:SD. apply skip_digits_p_pos in SD.
    destruct (curc r1 =? g_Colon) eqn:C; [|discriminate].
    pose proof (eqb_curc_nonempty _ _ C ltac:(discriminate)) as Hne1.
    destruct r1 as [|y r1']; [congruence|]. cbn [tl length] in *.
    destruct (peekc 1 (y :: r1') =? g_LeftDoubleQuoteI) eqn:Q1.
    { pose proof (peekc1_nonempty _ _ Q1 ltac:(discriminate)) as L2.
      destruct (scan_comment (tl r1') (p1 + 2) g_commentTypeQuoteI 1 []) as [[e0 r0] l0] eqn:SC.
      apply scan_comment_pos in SC. inversion H; subst. unfold linv. cbn [pos rest t_s].
      destruct r1' as [|z r1'']; [cbn in L2; lia|]. cbn [tl length] in *. lia. }
    destruct (peekc 1 (y :: r1') =? g_LeftDoubleQuoteII) eqn:Q2.
    { pose proof (peekc1_nonempty _ _ Q2 ltac:(discriminate)) as L2.
      destruct (scan_comment (tl r1') (p1 + 2) g_commentTypeQuoteII 1 []) as [[e0 r0] l0] eqn:SC.
      apply scan_comment_pos in SC. inversion H; subst. unfold linv. cbn [pos rest t_s].
      destruct r1' as [|z r1'']; [cbn in L2; lia|]. cbn [tl length] in *. lia. }
    destruct (scan_comment r1' (p1 + 1) g_commentTypeSingle 0 []) as [[e0 r0] l0] eqn:SC.
    apply scan_comment_pos in SC. inversion H; subst. unfold linv. cbn [pos rest t_s]. lia.
  - destruct (curc (rest st) =? g_SlashOp) eqn:S; [|discriminate].
    destruct (peekc 1 (rest st) =? g_SlashOp) eqn:Q1.
    { pose proof (peekc1_nonempty _ _ Q1 ltac:(discriminate)) as L2.
      destruct (scan_comment (tl (tl (rest st))) (pos st + 2) g_commentTypeSingle 0 []) as [[e0 r0] l0] eqn:SC.
      apply scan_comment_pos in SC. inversion H; subst. unfold linv. cbn [pos rest t_s].
      destruct (rest st) as [|x [|y r]]; cbn [length] in L2; try lia. cbn [tl length] in *. lia. }
    destruct (peekc 1 (rest st) =? g_MultiplyOp) eqn:Q2; [|discriminate].
    pose proof (peekc1_nonempty _ _ Q2 ltac:(discriminate)) as L2.
    destruct (scan_comment (tl (tl (rest st))) (pos st + 2) g_commentTypeSlash 0 []) as [[e0 r0] l0] eqn:SC.
    apply scan_comment_pos in SC. inversion H; subst. unfold linv. cbn [pos rest t_s].
    destruct (rest st) as [|x [|y r]]; cbn [length] in L2; try lia. cbn [tl length] in *. lia.
Qed.

(* ------------------------------------------------------------------ the C04 recognisers *)
Definition tres_in (N : Z) (t : tres) : Prop :=
  match t with
  | TTok _ s e _ r' => inr N s /\ 0 <= e /\ e = N - zlen r'
  | TErr c => inr N c
  | _ => True
  end.

(* keywords: the word recognised lies inside the text (its last glyph was compared with a character that is not the
   end-of-text mark) *)
Definition br_fit (b : list (Z * Z) * Z * Z) : bool :=
  let wl := snd (fst b) in
  (1 <=? wl) && ((wl =? 1) || existsb (fun kc : Z * Z => (fst kc =? wl - 1) && negb (snd kc =? g_RuneEOF)) (fst (fst b))).
Definition els_fit (els : option (Z * Z)) : bool := match els with Some (wl, _) => wl =? 1 | None => true end.
Definition tree_fit (tree : kwtree) : bool :=
  forallb (fun e : Z * list (list (Z * Z) * Z * Z) * option (Z * Z) =>
             negb (fst (fst e) =? g_RuneEOF) && forallb br_fit (snd (fst e)) && els_fit (snd e)) tree.

Lemma gkw_tree_fit : tree_fit g_kw_tree = true. Proof. vm_compute. reflexivity. Qed.

Lemma peekn_fit : forall k r c, 0 <= k -> (peekn k r =? c) = true -> c <> g_RuneEOF -> k < zlen r.
Proof.
  intros k r c Hk H N. apply Z.eqb_eq in H. unfold peekn in H.
  destruct (Nat.lt_ge_cases (Z.to_nat k) (length r)) as [L|L]; [lia|].
  rewrite nth_overflow in H by exact L. congruence.
Qed.

Lemma peekn1_fit : forall r c, (peekn 1 r =? c) = true -> c <> g_RuneEOF -> (2 <= length r)%nat.
Proof. intros r c H N. pose proof (peekn_fit 1 r c ltac:(lia) H N). lia. Qed.

Lemma cur_nonempty : forall r c, (cur r =? c) = true -> c <> g_RuneEOF -> r <> [].
Proof. intros r c H N E. subst r. apply Z.eqb_eq in H. cbn in H. congruence. Qed.

Lemma br_fit_spec : forall conds wl ty r, br_fit (conds, wl, ty) = true -> r <> [] -> conds_hold conds r = true ->
  1 <= wl <= zlen r.
Proof.
  intros conds wl ty r F Hne CH. unfold br_fit in F. cbn [fst snd] in F.
  apply andb_true_iff in F. destruct F as [F1 F2]. apply Z.leb_le in F1.
  apply orb_true_iff in F2. destruct F2 as [F2|F2].
  - apply Z.eqb_eq in F2. subst wl. destruct r; [congruence|]. cbn [length]. lia.
  - apply existsb_exists in F2. destruct F2 as [[k c] [IN F2]]. cbn [fst snd] in F2.
    apply andb_true_iff in F2. destruct F2 as [K C]. apply Z.eqb_eq in K. apply negb_true_iff in C. apply Z.eqb_neq in C.
    unfold conds_hold in CH. rewrite forallb_forall in CH. specialize (CH _ IN). cbn [fst snd] in CH.
    pose proof (peekn_fit k r c ltac:(lia) CH C). lia.
Qed.

Lemma eval_chain_fit : forall brs els r wl ty, forallb br_fit brs = true -> els_fit els = true -> r <> [] ->
  eval_chain brs els r = Some (wl, ty) -> 1 <= wl <= zlen r.
Proof.
  induction brs as [|[[conds w] t] brs IH]; intros els r wl ty Hb He Hne H; cbn [eval_chain] in H.
  - subst els. cbn in He. apply Z.eqb_eq in He. subst wl. destruct r; [congruence|]. cbn [length]. lia.
  - cbn [forallb] in Hb. apply andb_true_iff in Hb. destruct Hb as [Hb1 Hb2].
    destruct (conds_hold conds r) eqn:CH.
    + inversion H; subst. eapply br_fit_spec; eauto.
    + eapply IH; eauto.
Qed.

Lemma find_lead_fit : forall tree ch brs els, tree_fit tree = true -> find_lead ch tree = Some (brs, els) ->
  forallb br_fit brs = true /\ els_fit els = true /\ ch <> g_RuneEOF.
Proof.
  induction tree as [|[[lead b] e] tree IH]; intros ch brs els Ht H; cbn [find_lead] in H; [discriminate|].
  cbn [tree_fit forallb fst snd] in Ht. apply andb_true_iff in Ht. destruct Ht as [Ht1 Ht2].
  destruct (ch =? lead) eqn:L.
  - inversion H; subst. apply andb_true_iff in Ht1. destruct Ht1 as [Ht1 Ht3].
    apply andb_true_iff in Ht1. destruct Ht1 as [Ht0 Ht1].
    apply negb_true_iff in Ht0. apply Z.eqb_neq in Ht0. apply Z.eqb_eq in L. subst ch. auto.
  - eapply IH; eauto.
Qed.

Lemma gkw_fit : forall r wl ty, gkw r = Some (wl, ty) -> 1 <= wl <= zlen r.
Proof.
  intros r wl ty H. unfold gkw, parse_keyword in H.
  destruct (find_lead (cur r) g_kw_tree) as [[brs els]|] eqn:F; [|discriminate].
  destruct (find_lead_fit _ _ _ _ gkw_tree_fit F) as (A & B & C).
  assert (Hne : r <> []) by (intro E; subst r; apply C; reflexivity).
  destruct (eval_chain brs els r) as [[w t]|] eqn:EC; [|discriminate].
  destruct (t =? 0); [discriminate|]. inversion H; subst. eapply eval_chain_fit; eauto.
Qed.

Lemma ident_loop_in : forall N r start p l, inr N start -> 1 <= p -> p = N - zlen r ->
  tres_in N (ident_loop gkw start r p l).
Proof.
  intros N. induction r as [|c r IH]; intros start p l Hs Hp E.
  - cbn [ident_loop]. destruct (ident_stop gkw []).
    + unfold ident_finish. destruct (hd 0 l =? g_SlashOp); cbn [tres_in length] in *; unfold inr in *; lia.
    + rewrite eof_not_idbody. cbn [tres_in length] in *. unfold inr. lia.
  - cbn [ident_loop]. destruct (ident_stop gkw (c :: r)).
    + unfold ident_finish. destruct (hd 0 l =? g_SlashOp); cbn [tres_in length] in *; unfold inr in *; lia.
    + destruct (is_id_body c); [|cbn [tres_in length] in *; unfold inr; lia].
      apply IH; [exact Hs|lia|cbn [length] in E; lia].
Qed.

Lemma varquote_loop_in : forall N r start p l, inr N start -> 0 <= p -> p = N - zlen r ->
  tres_in N (varquote_loop start r p l).
Proof.
  intros N. induction r as [|c r IH]; intros start p l Hs Hp E; cbn [varquote_loop].
  - rewrite eof_not_idbody. cbn [tres_in length] in *. unfold inr. lia.
  - destruct (is_id_body c).
    + apply IH; [exact Hs|lia|cbn [length] in E; lia].
    + destruct (c =? g_BackTick); cbn [tres_in length] in *; unfold inr in *; lia.
Qed.

Lemma parse_operators_in : forall N r p t, r <> [] -> 0 <= p -> p = N - zlen r ->
  parse_operators r p = Some t -> tres_in N t.
Proof.
  intros N r p t Hne Hp E H. unfold parse_operators in H. cbv zeta in H.
  assert (S1 : forall ty, tres_in N (TTok ty p (p + 1) [] (tl r))).
  { intro ty. destruct r as [|x r]; [congruence|]. cbn [tres_in tl length] in *. unfold inr. lia. }
  assert (S2 : forall ty, (peekn 1 r =? g_EqualOp) = true -> tres_in N (TTok ty p (p + 2) [] (tl (tl r)))).
  { intros ty Q. apply peekn1_fit in Q; [|discriminate].
    destruct r as [|x [|y r]]; cbn [length] in Q; try lia. cbn [tres_in tl length] in *. unfold inr. lia. }
  assert (S3 : tres_in N (TErr p)) by (cbn [tres_in]; unfold inr; lia).
  repeat match type of H with
         | (if ?b then _ else _) = _ => let Q := fresh "Q" in destruct b eqn:Q
         end; try discriminate; inversion H; subst t; auto.
  match goal with Q : _ && (peekn 1 r =? g_EqualOp) = true |- _ => apply andb_true_iff in Q; apply S2; apply Q end.
Qed.

Lemma generic_token_in : forall N r p, r <> [] -> 0 <= p -> p = N - zlen r -> tres_in N (generic_token gkw r p).
Proof.
  intros N r p Hne Hp E. unfold generic_token.
  assert (S3 : tres_in N (TErr p)) by (cbn [tres_in]; unfold inr; lia).
  destruct (mem (cur r) g_markPunctuations).
  { unfold parse_punct. destruct (assoc (cur r) g_punctuationTypeMap); [|exact S3].
    destruct r as [|x r]; [congruence|]. cbn [tres_in tl length] in *. unfold inr. lia. }
  destruct (if mem (cur r) g_markOperators then parse_operators r p else None) as [t|] eqn:OP.
  { destruct (mem (cur r) g_markOperators); [|discriminate]. eapply parse_operators_in; eauto. }
  destruct (gkw r) as [[wl ty]|] eqn:K.
  - apply gkw_fit in K. cbn [tres_in]. rewrite skipn_length. unfold inr. lia.
  - unfold parse_identifier. destruct (negb (is_id_char (cur r))); [exact S3|].
    destruct r as [|x r]; [congruence|]. cbn [tl length] in *.
    apply ident_loop_in; [unfold inr; lia|lia|lia].
Qed.

Definition tok_at (N : Z) (tk : token) (_ : lstate) : Prop := inr N (t_s tk).

Lemma parse_eof_inv : forall N st, linv N st -> lres_ok N (tok_at N) (parse_eof st).
Proof.
  intros N st H. unfold parse_eof. destruct (line_text_ok st (pos st)); [|exact I].
  cbn [lres_ok]. split; [exact H|]. unfold tok_at. cbn [t_s]. apply linv_inr. exact H.
Qed.

Lemma conv_inv : forall N t st, tres_in N t -> linv N st -> lres_ok N (tok_at N) (conv t st).
Proof.
  intros N t st Ht H. destruct t; cbn [conv tres_in] in *; try exact I.
  - destruct Ht as (A & B & C). cbn [lres_ok]. split; [|exact A]. unfold linv. cbn [set_pos_rest pos rest]. auto.
  - apply parse_eof_inv. exact H.
  - exact Ht.
Qed.

(* ------------------------------------------------------------------ the C13 recogniser *)
Definition ps_in (lo hi : Z) (r : StringLit.lex_result) : Prop :=
  match r with
  | StringLit.LexOk _ _ e _ => lo < e <= hi
  | StringLit.LexErr _ k => lo <= k <= hi
  | StringLit.OutOfFuel => True
  end.

Lemma ps_in_weaken : forall lo' hi' lo hi r, ps_in lo' hi' r -> lo <= lo' -> hi' <= hi -> ps_in lo hi r.
Proof. intros lo' hi' lo hi r H A B. destruct r; cbn [ps_in] in *; lia. Qed.

Lemma ps_loop_in : forall fuel o q lit lines pos rest,
  ps_in (pos + 1) (pos + 1 + zlen rest) (StringLit.ps_loop fuel o q lit lines pos rest).
Proof.
  induction fuel as [|f IH]; intros o q lit lines pos rest; [exact I|].
  rewrite StringLitProofs.ps_loop_S. destruct rest as [|ch rest1].
  { cbn [ps_in length]. cbn. lia. }
  cbn [StringLit.peek hd tl]. cbv zeta. cbn [length].
  destruct (ch =? StringLit.EOFc); [cbn [ps_in]; lia|].
  destruct ((ch =? StringLit.CR) || (ch =? StringLit.LF)).
  { destruct (((ch =? StringLit.CR) && (StringLit.peek rest1 =? StringLit.LF))
              || ((ch =? StringLit.LF) && (StringLit.peek rest1 =? StringLit.CR))) eqn:Ep.
    - destruct rest1 as [|p rest2].
      { cbn in Ep. rewrite !andb_false_r in Ep. discriminate. }
      cbn [StringLit.peek hd tl]. eapply ps_in_weaken; [apply IH|lia|cbn [length]; lia].
    - eapply ps_in_weaken; [apply IH|lia|lia]. }
  destruct (StringLit.is_left_quote ch).
  { eapply ps_in_weaken; [apply IH|lia|lia]. }
  destruct (StringLit.is_right_quote ch).
  { destruct (StringLit.quote_match o =? ch).
    - destruct (q - 1 =? 0).
      + cbn [ps_in]. lia.
      + eapply ps_in_weaken; [apply IH|lia|lia].
    - eapply ps_in_weaken; [apply IH|lia|lia]. }
  destruct (ch =? StringLit.BT).
  { destruct (StringLit.unescape rest1) as [[out n] rest2] eqn:Eu.
    destruct (StringLitProofs.unescape_split _ _ _ _ Eu) as (used & E1 & E2). subst rest1 n.
    eapply ps_in_weaken; [apply IH|lia|rewrite app_length; lia]. }
  eapply ps_in_weaken; [apply IH|lia|lia].
Qed.

Lemma parse_string_inv : forall N st, linv N st -> rest st <> [] -> lres_ok N (tok_at N) (parse_string st).
Proof.
  intros N st H Hne. unfold parse_string.
  pose proof (ps_loop_in (S (len st)) (curc (rest st)) 1 [] [] (pos st) (tl (rest st))) as R.
  pose proof (linv_inr _ _ H) as HR. destruct H as [H1 H2].
  destruct (rest st) as [|x r] eqn:E; [congruence|]. cbn [tl length] in *.
  destruct (StringLit.ps_loop (S (S (length r))) (curc (x :: r)) 1 [] [] (pos st) r) as [ty l e starts|c k|];
    cbn [ps_in lres_ok] in *.
  - split; [|exact HR]. unfold linv. cbn [pos rest]. rewrite skipn_length. cbn [length]. lia.
  - unfold inr. lia.
  - exact I.
Qed.

(* ------------------------------------------------------------------ NextToken *)
Theorem next_token_inv : forall N st0, linv N st0 -> lres_ok N (tok_at N) (next_token st0).
Proof.
  intros N st0 H0. unfold next_token.
  pose proof (pre_next_token_inv N (S (len st0)) st0 H0) as PN.
  destruct (pre_next_token (S (len st0)) st0) as [u st| | |]; cbn [lres_ok] in PN; try exact I; [|exact PN].
  destruct PN as [H _].
  destruct (rest st) as [|x r] eqn:E; [apply parse_eof_inv; exact H|]. rewrite <- E.
  assert (Hne : rest st <> []) by (rewrite E; discriminate).
  destruct (curc (rest st) =? EOFc); [apply parse_eof_inv; exact H|].
  assert (G : lres_ok N (tok_at N) (conv (generic_token gkw (rest st) (pos st)) st)).
  { apply conv_inv; [|exact H]. destruct H as [A B]. apply generic_token_in; auto. }
  destruct ((curc (rest st) =? g_CharZHU) || (curc (rest st) =? g_SlashOp)).
  { destruct (parse_comment st) as [[tk st1]|] eqn:PC; [|exact G].
    apply (parse_comment_inv N) in PC; [|exact H]. destruct PC as [PC1 PC2].
    cbn [lres_ok]. split; [exact PC1|]. unfold tok_at. rewrite PC2. apply linv_inr. exact H. }
  destruct (mem (curc (rest st)) left_quotes).
  { apply parse_string_inv; assumption. }
  destruct (curc (rest st) =? g_BackTick); [|exact G].
  apply conv_inv; [|exact H]. pose proof (linv_inr _ _ H) as HR. destruct H as [A B].
  apply varquote_loop_in; [exact HR|lia|].
  rewrite E in *. cbn [tl length] in *. lia.
Qed.

(* ------------------------------------------------------------------ the parser, for any invariant of NextToken *)
Section Parser.
Variable N : Z.
Hypothesis N_nonneg : 0 <= N.
Variable P : lstate -> Prop.               (* invariant of the lexer state *)
Variable T : token -> lstate -> Prop.      (* what is known of the token just read, in the state it left *)
Hypothesis T_range : forall tk l, T tk l -> inr N (t_s tk).
Hypothesis next_ok : forall l, P l ->
  match next_token l with LOk tk l' => P l' /\ T tk l' | LErr _ k => inr N k | _ => True end.

Definition tok_in (o : option token) : Prop := match o with Some t => inr N (t_s t) | None => True end.
Definition pinv (st : pstate) : Prop :=
  P (lx st) /\ tok_in (p1 st) /\ match p2 st with Some t => T t (lx st) | None => True end.
Definition rok {A} (r : res A) : Prop :=
  match r with Ok _ st => pinv st | Err _ k => inr N k | _ => True end.

Lemma pinv_p2 : forall st, pinv st -> tok_in (p2 st).
Proof. intros st (_ & _ & H). destruct (p2 st); cbn; [eapply T_range; eauto|exact I]. Qed.

Lemma peek_start_in : forall st, pinv st -> inr N (peek_start st).
Proof.
  intros st H. pose proof (pinv_p2 _ H) as H2. destruct H as (_ & H1 & _). unfold peek_start.
  destruct (p2 st); [exact H2|]. destruct (p1 st); [exact H1|]. unfold inr. lia.
Qed.
Lemma curr_start_in : forall st, pinv st -> inr N (curr_start st).
Proof.
  intros st H. pose proof (peek_start_in _ H) as H2. destruct H as (_ & H1 & _). unfold curr_start.
  destruct (p1 st); [exact H1|exact H2].
Qed.

Lemma rok_ret : forall A (a : A) st, pinv st -> rok (ret a st).
Proof. intros. exact H. Qed.
Lemma rok_bind : forall A B (m : M A) (k : A -> M B) st,
  rok (m st) -> (forall a s, pinv s -> rok (k a s)) -> rok (bind m k st).
Proof. intros A B m k st Hm Hk. unfold bind. destruct (m st); cbn [rok] in *; auto. Qed.
Lemma rok_fail_peek : forall A c st, pinv st -> rok (@fail_peek A c st).
Proof. intros. apply peek_start_in. assumption. Qed.
Lemma rok_fail_curr : forall A c st, pinv st -> rok (@fail_curr A c st).
Proof. intros. apply curr_start_in. assumption. Qed.
Lemma rok_set_flag : forall b st, pinv st -> rok (set_flag b st).
Proof. intros b st H. exact H. Qed.
Lemma rok_set_bind : forall i st, pinv st -> rok (set_bind i st).
Proof. intros i st H. exact H. Qed.
Lemma rok_get_bind : forall st, pinv st -> rok (get_bind st).
Proof. intros st H. exact H. Qed.
Lemma rok_expect : forall i st, pinv st -> rok (expect_block_indent i st).
Proof. intros i st H. unfold expect_block_indent. destruct (peek_indent st =? i + 1); exact H. Qed.
Lemma rok_require : forall st, pinv st -> rok (require_stmt_done st).
Proof.
  intros st H. unfold require_stmt_done. destruct (stmt_done st); [exact H|]. apply peek_start_in. exact H.
Qed.

Lemma lex_skip_comments_ok : forall fuel l, P l ->
  match lex_skip_comments fuel l with LOk tk l' => P l' /\ T tk l' | LErr _ k => inr N k | _ => True end.
Proof.
  induction fuel as [|f IH]; intros l H; [exact I|].
  cbn [lex_skip_comments]. pose proof (next_ok l H) as NX.
  destruct (next_token l) as [tk l1| | |]; auto.
  destruct (t_ty tk =? g_TypeComment); [apply IH; apply NX|exact NX].
Qed.

Lemma rok_p_next : forall st, pinv st -> rok (p_next st).
Proof.
  intros st H. unfold p_next.
  pose proof (lex_skip_comments_ok (S (length (rest (lx st)))) (lx st) ltac:(apply H)) as LS.
  destruct (lex_skip_comments (S (length (rest (lx st)))) (lx st)) as [tk l'| | |]; cbn [rok]; auto.
  destruct LS as [L1 L2].
  match goal with |- rok (if meet_line_break ?s then _ else _) => assert (G : pinv s) end.
  { unfold pinv. cbn [lx p1 p2]. split; [exact L1|]. split; [apply pinv_p2; exact H|exact L2]. }
  destruct (meet_line_break _); exact G.
Qed.

Lemma rok_try_tail : forall valid st, pinv st -> rok (try_tail valid st).
Proof.
  intros valid st H. unfold try_tail. destruct (p2 st); [|exact I].
  destruct (flag st); [exact H|]. destruct (mem (t_ty t) valid); [|exact H].
  apply rok_bind; [apply rok_p_next; exact H|]. intros a s Hs. exact Hs.
Qed.
Lemma rok_tc : forall valid st, pinv st -> rok (tc valid st).
Proof.
  intros valid st H. unfold tc. destruct (p2 st); [|exact I].
  destruct (t_ty t =? g_TypeCommaSep); [|apply rok_try_tail; exact H].
  apply rok_bind; [apply rok_p_next; exact H|]. intros a s Hs. apply rok_try_tail. exact Hs.
Qed.
Lemma rok_consume : forall valid st, pinv st -> rok (consume valid st).
Proof.
  intros valid st H. unfold consume. apply rok_bind; [apply rok_tc; exact H|].
  intros [tk|] s Hs; [exact Hs|apply rok_fail_peek; exact Hs].
Qed.
Lemma rok_parse_id : forall st, pinv st -> rok (parse_id st).
Proof.
  intros st H. unfold parse_id. apply rok_bind; [apply rok_tc; exact H|].
  intros [tk|] s Hs; [exact Hs|apply rok_fail_peek; exact Hs].
Qed.

Section Step.
Variable f : nat.
Hypothesis IH : forall n st, pinv st -> rok (parse f n st).

Ltac go :=
  cbv beta zeta;
  lazymatch goal with
  | |- rok (bind _ _ _) =>
      apply rok_bind; [go | let a := fresh "a" in let s := fresh "s" in let Hs := fresh "Hs" in intros a s Hs; go]
  | |- rok (ret _ _) => apply rok_ret; assumption
  | |- rok (Ok _ _) => assumption
  | |- rok (Err _ (curr_start _)) => apply curr_start_in; assumption
  | |- rok (Err _ (peek_start _)) => apply peek_start_in; assumption
  | |- rok (parse f ?n ?s) => apply (IH n s); assumption
  | |- rok (tc _ _) => apply rok_tc; assumption
  | |- rok (consume _ _) => apply rok_consume; assumption
  | |- rok (parse_id _) => apply rok_parse_id; assumption
  | |- rok (fail_peek _ _) => apply rok_fail_peek; assumption
  | |- rok (fail_curr _ _) => apply rok_fail_curr; assumption
  | |- rok (set_flag _ _) => apply rok_set_flag; assumption
  | |- rok (set_bind _ _) => apply rok_set_bind; assumption
  | |- rok (get_bind _) => apply rok_get_bind; assumption
  | |- rok (expect_block_indent _ _) => apply rok_expect; assumption
  | |- rok (require_stmt_done _) => apply rok_require; assumption
  | |- rok (match ?x with _ => _ end _) => destruct x; go
  | |- rok (match ?x with _ => _ end) => destruct x; go
  end.

Lemma parse_step : forall n st, pinv st -> rok (parse (S f) n st).
Proof.
  intros n st H. destruct n; cbn [parse]; go.
Qed.
End Step.

Theorem parse_rok : forall fuel n st, pinv st -> rok (parse fuel n st).
Proof.
  induction fuel as [|f IH]; intros n st H; [exact I|]. apply parse_step; assumption.
Qed.
End Parser.

(* ------------------------------------------------------------------ the whole front end *)
Lemma next_token_linv : forall N l, linv N l ->
  match next_token l with LOk tk l' => linv N l' /\ tok_at N tk l' | LErr _ k => inr N k | _ => True end.
Proof. intros N l H. pose proof (next_token_inv N l H) as G. destruct (next_token l); exact G. Qed.

Lemma lex_init_inv : forall src, lres_ok (zlen src) (fun _ _ => True) (lex_init src).
Proof.
  intro src. unfold lex_init. apply parse_begin_lex_inv. unfold linv. cbn [pos rest]. lia.
Qed.

(* every syntax error of the front-end model, for every source and every fuel, carries a cursor inside the text *)
Theorem compile_error_in_range : forall fuel src c k,
  compile fuel src = OErr c k -> 0 <= k <= Z.of_nat (length src).
Proof.
  intros fuel src c k H. unfold compile in H.
  pose proof (lex_init_inv src) as LI.
  destruct (lex_init src) as [u l0| | |]; cbn [lres_ok] in LI; try discriminate.
  2: { inversion H; subst. exact LI. }
  destruct LI as [L0 _].
  set (N := zlen src) in *.
  assert (N0 : 0 <= N) by (subst N; lia).
  assert (I0 : pinv N (linv N) (tok_at N) (init_pstate l0)).
  { unfold pinv, init_pstate. cbn [lx p1 p2 tok_in]. auto. }
  assert (R : rok N (linv N) (tok_at N)
                ((p_next ;;; (fun st => parse fuel (NProgram (peek_indent st) 1 [] None) st)) (init_pstate l0))).
  { apply rok_bind.
    - apply rok_p_next; [intros tk l Ht; exact Ht|apply next_token_linv|exact I0].
    - intros a s Hs. cbv beta.
      exact (parse_rok N N0 (linv N) (tok_at N) (fun tk l Ht => Ht) (next_token_linv N)
                       fuel (NProgram (peek_indent s) 1 [] None) s Hs). }
  destruct ((p_next ;;; (fun st => parse fuel (NProgram (peek_indent st) 1 [] None) st)) (init_pstate l0))
    as [pg st| | |]; cbn [rok] in R; try discriminate.
  - destruct (negb (peek_ty st =? g_TypeEOF)); [|discriminate]. inversion H; subst.
    apply (peek_start_in N N0 (linv N) (tok_at N)); [intros tk l Ht; exact Ht|exact R].
  - inversion H; subst. exact R.
Qed.

Theorem C05_single_error_in_range : forall src c k,
  compile (default_fuel src) src = OErr c k -> 0 <= k <= Z.of_nat (length src).
Proof. intros src c k. apply compile_error_in_range. Qed.

(* the lexer alone: NextToken preserves the position invariant; its token starts and its error cursor lie in the text *)
Theorem next_token_position : forall N st0, 0 <= pos st0 -> pos st0 + Z.of_nat (length (rest st0)) = N ->
  match next_token st0 with
  | LOk tk st => 0 <= pos st /\ pos st + Z.of_nat (length (rest st)) = N /\ 0 <= t_s tk <= N
  | LErr _ k => 0 <= k <= N
  | _ => True
  end.
Proof.
  intros N st0 H1 H2. pose proof (next_token_inv N st0 ltac:(unfold linv; lia)) as G.
  destruct (next_token st0) as [tk st| | |]; cbn [lres_ok] in G; auto.
  destruct G as [[A B] C]. unfold tok_at, inr in C. repeat split; lia.
Qed.

(* non-vacuity: errors whose cursor is the length of the text (unterminated literal; 如果 at the end of the text),
   an indentation error inside the text *)
Example cursor_at_length_1 : compile 200 [8220; 96] = OErr 27 2.
Proof. vm_compute. reflexivity. Qed.
Example cursor_at_length_2 : compile 200 [22914; 26524] = OErr 20 2.
Proof. vm_compute. reflexivity. Qed.
Example cursor_inside : compile 200 [65; 10; 32; 66] = OErr 24 3.
Proof. vm_compute. reflexivity. Qed.

Print Assumptions compile_error_in_range.
Print Assumptions C05_single_error_in_range.
