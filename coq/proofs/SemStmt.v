(* SemStmt.v — the statement layer keeps the control state balanced, for ANY expression evaluator that does
   (Section hypothesis [Hev]); instantiated with [eval_expr] in SemBalanced.v. *)
From Coq Require Import List ZArith Bool Lia.
From Zn.lib Require Import Float64.
From Zn.model Require Import SemDefs Sem.
From Zn.proofs Require Import SemBase.
Import ListNotations.
Open Scope Z_scope.

(* block-level outcome relations: nothing declared inside remains *)
Definition R_ok_b (st s1 : state) : Prop :=
  (exists f f' tl, stack st = f :: tl /\ stack s1 = f' :: tl /\ frame_sim f' f) /\
  depth s1 = depth st /\ shape s1 = shape st /\ wf s1.
Definition R_er_b (st s1 : state) : Prop :=
  (exists extra f f' tl, stack st = f :: tl /\ stack s1 = extra ++ f' :: tl /\ frame_sim f' f) /\
  depth s1 = depth st /\ shape s1 = shape st /\ wf s1.
Definition bal_b {A} (st : state) (r : res A) : Prop :=
  wf st -> match r with
           | Ok _ s1 => R_ok_b st s1
           | Er e s1 => R_er_b st s1 /\ (~ no_sig e -> R_ok_b st s1)
           | _ => True end.

Lemma ext_of_eq st s1 : shape s1 = shape st -> ext_shape st s1.
Proof. intros H. exists []. split; [exact H|constructor]. Qed.

Lemma R_ok_b_s st s1 : R_ok_b st s1 -> R_ok_s st s1.
Proof. intros (a & b & c & d). repeat split; try assumption; try apply d. apply ext_of_eq; exact c. Qed.
Lemma R_er_b_er st s1 : R_er_b st s1 -> R_er st s1.
Proof. intros (a & b & c & d). repeat split; try assumption; try apply d. apply ext_of_eq; exact c. Qed.
Lemma bal_b_s {A} st (r : res A) : bal_b st r -> bal_s st r.
Proof.
  intros H W. specialize (H W). destruct r; try exact H; [apply R_ok_b_s; exact H|].
  destruct H as [H1 H2]. split; [apply R_er_b_er; exact H1|]. intros Hn. apply R_ok_b_s, H2, Hn.
Qed.

(* continuing after a finished statement-level step *)
Lemma bal_s_after {A} st s0 (r : res A) : R_ok_s st s0 -> bal_s s0 r -> bal_s st r.
Proof.
  intros H0 Hr _. specialize (Hr (R_wf_ok_s _ _ H0)). destruct r as [a s|e s| |w]; try exact I.
  - eapply R_ok_s_trans; eassumption.
  - destruct Hr as [H1 H2]. split; [eapply R_ok_s_er; eassumption|].
    intros Hn. eapply R_ok_s_trans; [exact H0|apply H2, Hn].
Qed.

Lemma bal_s_ok {A} st (a : A) s1 : R_ok_s st s1 -> bal_s st (Ok a s1).
Proof. intros H _. exact H. Qed.

Lemma bal_s_ok_refl {A} st (a : A) : bal_s st (Ok a st).
Proof. intros W. apply R_ok_e_s; [exact W|apply R_ok_e_refl; exact W]. Qed.

Lemma bal_s_er_ctl {A} st c : bal_s st (@Er A (ERun c) st).
Proof.
  intros W. split; [apply R_er_of_ctl; [exact W|reflexivity]|].
  intros Hn. exfalso. apply Hn. reflexivity.
Qed.

Lemma R_ok_e_to_er st s1 : wf st -> R_ok_e st s1 -> R_er st s1.
Proof.
  intros [Hne _] (Hs & Hd & He & Hw). split; [|tauto].
  destruct (stack st) as [|f tl] eqn:E; [congruence|].
  exists [], f, f, tl. rewrite Hs. repeat split; reflexivity.
Qed.

Lemma R_ok_s_to_er st s1 : R_ok_s st s1 -> R_er st s1.
Proof.
  intros ((f & f' & tl & Ha & Hb & F) & Hd & He & Hw). split; [|tauto].
  exists [], f, f', tl. repeat split; try assumption; apply F.
Qed.

(* state tweaks that are statement-level no-ops for the control state *)
Lemma R_ok_s_set_ret st r : wf st -> R_ok_s st (set_ret st r).
Proof.
  intros [Hne Wd]. unfold set_ret. destruct (stack st) as [|f tl] eqn:E; [congruence|].
  unfold R_ok_s. rewrite E. cbn [stack depth set_stack].
  split; [exists f, {| f_kind := f_kind f; f_this := f_this f; f_ret := r; f_line := f_line f |}, tl;
          repeat split; reflexivity|].
  split; [reflexivity|]. split.
  - exists []. split; [reflexivity|constructor].
  - split; [cbn [stack set_stack]; discriminate|exact Wd].
Qed.

Lemma R_ok_s_set_line st l : wf st -> R_ok_s st (set_line st l).
Proof.
  intros [Hne Wd]. unfold set_line. destruct (stack st) as [|f tl] eqn:E; [congruence|].
  unfold R_ok_s. rewrite E. cbn [stack depth set_stack].
  split; [exists f, {| f_kind := f_kind f; f_this := f_this f; f_ret := f_ret f; f_line := l |}, tl;
          repeat split; reflexivity|].
  split; [reflexivity|]. split.
  - exists []. split; [reflexivity|constructor].
  - split; [cbn [stack set_stack]; discriminate|exact Wd].
Qed.

Lemma wf_begin_scope st : wf st -> wf (begin_scope st).
Proof.
  intros [a b]. split; [exact a|]. cbn [depth syms begin_scope set_depth].
  eapply Forall_impl; [|exact b]. simpl. intros; lia.
Qed.

(* closing a block *)
Lemma end_scope_ok_b st s1 : wf st -> R_ok_s (begin_scope st) s1 -> R_ok_b st (end_scope s1).
Proof.
  intros W ((f & f' & tl & Ha & Hb & F) & Hd & [new [Hs Fn]] & Hw).
  cbn [stack depth begin_scope set_depth] in Ha, Hd, Fn.
  destruct (end_scope_restores st s1 W Hd) as (Hsh & Hdp & Hfa).
  { exists new. split; [exact Hs|exact Fn]. }
  split; [|repeat split; try assumption].
  + exists f, f', tl. repeat split; try assumption; apply F.
  + cbn [end_scope stack set_syms set_depth]. rewrite Hb. discriminate.
  + rewrite Hdp. exact Hfa.
Qed.

Lemma end_scope_er_b st s1 : wf st -> R_er (begin_scope st) s1 -> R_er_b st (end_scope s1).
Proof.
  intros W ((ex & f & f' & tl & Ha & Hb & F) & Hd & [new [Hs Fn]] & Hw).
  cbn [stack depth begin_scope set_depth] in Ha, Hd, Fn.
  destruct (end_scope_restores st s1 W Hd) as (Hsh & Hdp & Hfa).
  { exists new. split; [exact Hs|exact Fn]. }
  split; [|repeat split; try assumption].
  + exists ex, f, f', tl. repeat split; try assumption; apply F.
  + cbn [end_scope stack set_syms set_depth]. rewrite Hb. destruct ex; discriminate.
  + rewrite Hdp. exact Hfa.
Qed.

Lemma scoped_block st (r : res val) :
  wf st -> bal_s (begin_scope st) r -> bal_b st (scoped r).
Proof.
  intros W Hr _. specialize (Hr (wf_begin_scope _ W)).
  destruct r as [v s1|e s1| |w]; simpl; try exact I.
  - apply end_scope_ok_b; assumption.
  - destruct Hr as [H1 H2]. split; [apply end_scope_er_b; assumption|].
    intros Hn. apply end_scope_ok_b; [exact W|apply H2, Hn].
Qed.

Section Stmt.
  Variable ev : state -> expr -> res val.
  Hypothesis Hev : forall st e, bal_e st (ev st e).

  Lemma bal_evs : forall es st, bal_e st (evs ev es st).
  Proof.
    induction es as [|e tl IH]; intros st; cbn [evs].
    - intros W. apply R_ok_e_refl; exact W.
    - apply bal_e_bind; [apply Hev|]. intros v s1 _.
      apply bal_e_bind; [apply IH|]. intros vs s2 _ W. apply R_ok_e_refl; exact W.
  Qed.

  Lemma bal_decl_names fuel c : forall names obj st, bal_e st (decl_names fuel c names obj st).
  Proof.
    induction names as [|x nt IH]; intros obj st; cbn [decl_names].
    - intros W. apply R_ok_e_refl; exact W.
    - apply bal_e_bind; [apply pres_bal_e, pres_dup_res|]. intros o s1 _.
      apply bal_e_bind; [apply bal_e_vm_declare|]. intros _ s2 _. apply IH.
  Qed.

  Lemma bal_decl_pairs fuel : forall pairs st, bal_e st (decl_pairs ev fuel pairs st).
  Proof.
    induction pairs as [|[[c names] e] tl IH]; intros st; cbn [decl_pairs].
    - intros W. apply R_ok_e_refl; exact W.
    - apply bal_e_bind; [apply Hev|]. intros o s1 _.
      apply bal_e_bind; [apply bal_decl_names|]. intros _ s2 _. apply IH.
  Qed.

  Lemma bal_bind_loop_vars names key item st : bal_e st (bind_loop_vars names key item st).
  Proof.
    unfold bind_loop_vars. destruct names as [|a [|b [|c tl]]].
    - intros W; apply R_ok_e_refl; exact W.
    - apply bal_e_vm_set.
    - apply bal_e_bind; [apply bal_e_vm_set|]. intros; apply bal_e_vm_set.
    - intros W; apply R_ok_e_refl; exact W.
  Qed.

  Lemma bal_declare_loop_vars names st : bal_e st (declare_loop_vars names st).
  Proof.
    unfold declare_loop_vars. destruct names as [|a [|b [|c tl]]].
    - intros W; apply R_ok_e_refl; exact W.
    - apply bal_e_vm_declare.
    - apply bal_e_bind; [apply bal_e_vm_declare|]. intros; apply bal_e_vm_declare.
    - apply pres_bal_e. split; reflexivity.
  Qed.

  (* one pass of a loop body, seen through after_pass *)
  Lemma after_pass_cases (r : res val) :
    (exists r', after_pass r = (Some r', None) /\
       ((exists v s, r = Ok v s /\ r' = Ok VNull s) \/
        (exists s, r = Er EBreak s /\ r' = Ok VNull s) \/
        (exists e s, r = Er e s /\ no_sig e /\ r' = Er e s) \/
        (r = Fuel /\ r' = Fuel) \/ (exists w, r = Crash w /\ r' = Crash w))) \/
    (exists s, after_pass r = (None, Some s) /\ ((exists v, r = Ok v s) \/ r = Er EContinue s)).
  Proof.
    destruct r as [v s|e s| |w]; cbn [after_pass].
    - destruct (top_ret s); [left|right]; eauto 10.
    - destruct e; cbn [is_loop_signal]; try (left; eexists; split; [reflexivity|]; right; right; left; do 2 eexists; repeat split; fail).
      + left. eexists; split; [reflexivity|]. right. left. eauto.
      + right. eauto.
    - left. eauto 10.
    - left. eauto 12.
  Qed.

  Lemma not_no_sig_break : ~ no_sig EBreak. Proof. discriminate. Qed.
  Lemma not_no_sig_continue : ~ no_sig EContinue. Proof. discriminate. Qed.

  (* the outcome of a pass, related to the state before the pass *)
  Lemma after_pass_bal st (r : res val) :
    wf st -> bal_s st r ->
    match after_pass r with
    | (Some r', _) => bal_s st r'
    | (None, Some s2) => R_ok_s st s2
    | (None, None) => True
    end.
  Proof.
    intros W Hr. specialize (Hr W).
    destruct (after_pass_cases r) as [[r' [E C]]|[s [E C]]]; rewrite E.
    - destruct C as [(v & s & -> & ->)|[(s & -> & ->)|[(e & s & -> & Hn & ->)|[[-> ->]|(w & -> & ->)]]]]; intros _; try exact I.
      + exact Hr.
      + apply (proj2 Hr), not_no_sig_break.
      + exact Hr.
    - destruct C as [[v ->]| ->]; [exact Hr|apply (proj2 Hr), not_no_sig_continue].
  Qed.

  Lemma bal_while_loop (body : state -> res val) c l :
    (forall s, bal_s s (body s)) -> forall j st, bal_s st (while_loop ev body c l j st).
  Proof.
    intros Hb. induction j as [|j IH]; intros st; cbn [while_loop]; [intros _; exact I|].
    intros W0. refine (bal_s_after _ _ _ (R_ok_s_set_line st l W0) _ W0).
    apply bal_s_bind_e; [apply Hev|]. intros cv s1 _.
    destruct cv; try apply bal_s_er_ctl. destruct b.
    - intros W. pose proof (after_pass_bal s1 (body s1) W (Hb s1)) as H.
      destruct (after_pass (body s1)) as [[r'|] [s2|]]; try exact I; try (apply H; exact W).
      exact (bal_s_after _ _ _ H (IH s2) W).
    - apply bal_s_ok_refl.
  Qed.

  Lemma bal_iter_items (body : state -> res val) names :
    (forall s, bal_s s (body s)) -> forall items st, bal_s st (iter_items body names items st).
  Proof.
    intros Hb. induction items as [|[key item] tl IH]; intros st; cbn [iter_items]; [apply bal_s_ok_refl|].
    intros W.
    assert (Hpass : bal_s st (let! (_, sa) := bind_loop_vars names key item st in body sa)).
    { apply bal_s_bind_e; [apply bal_bind_loop_vars|]. intros _ sa _. apply Hb. }
    pose proof (after_pass_bal st _ W Hpass) as H.
    destruct (after_pass _) as [[r'|] [s2|]]; try exact I; try (apply H; exact W).
    exact (bal_s_after _ _ _ H (IH s2) W).
  Qed.

  Lemma bal_branch_others (blk : block -> state -> res val) :
    (forall b s, bal_s s (blk b s)) -> forall others els st, bal_s st (branch_others ev blk others els st).
  Proof.
    intros Hb. induction others as [|[ce b] tl IH]; intros els st; cbn [branch_others].
    - destruct els as [b|]; [|apply bal_s_ok_refl].
      apply bal_s_bind; [apply Hb|]. intros _ s2 _. apply bal_s_ok_refl.
    - apply bal_s_bind_e; [apply Hev|]. intros cv s1 _.
      destruct cv; try apply bal_s_er_ctl. destruct b0.
      + apply bal_s_bind; [apply Hb|]. intros _ s2 _. apply bal_s_ok_refl.
      + apply IH.
  Qed.

  Lemma bal_block_go (exec : state -> stmt -> res val) :
    (forall st s, bal_s st (exec st s)) -> forall b st last, bal_s st (block_go exec b st last).
  Proof.
    intros He. induction b as [|[line s] tl IH]; intros st last; cbn [block_go]; [apply bal_s_ok_refl|].
    destruct (is_def s).
    - destruct (top_ret st); [apply bal_s_ok_refl|apply IH].
    - intros W. refine (bal_s_after _ _ _ (R_ok_s_set_line st line W) _ W).
      apply bal_s_bind; [apply He|]. intros v s1 _.
      destruct (top_ret s1); [apply bal_s_ok_refl|apply IH].
  Qed.

  (* statements and blocks, by induction on the fuel *)
  Lemma bal_stmt_block : forall k,
    (forall st s, bal_s st (exec_stmt ev k st s)) /\ (forall st b, bal_b st (exec_block ev k st b)).
  Proof.
    induction k as [|k [IHs IHb]]; [split; intros; intros _; exact I|].
    assert (Hblk : forall st b, bal_s st (exec_block ev k st b)) by (intros; apply bal_b_s, IHb).
    split.
    - intros st s. cbn [exec_stmt]. destruct s.
      + apply bal_e_s, bal_decl_pairs.
      + apply bal_while_loop. intros s1. apply Hblk.
      + apply bal_s_bind_e; [apply Hev|]. intros cv s1 _.
        destruct cv; try apply bal_s_er_ctl. destruct b.
        * apply bal_s_bind; [apply Hblk|]. intros _ s2 _. apply bal_s_ok_refl.
        * apply bal_branch_others. intros b s. apply Hblk.
      + (* 遍历 *)
        intros W. apply bal_b_s; [|exact W]. apply scoped_block; [exact W|].
        apply bal_s_bind_e; [apply Hev|]. intros target s1 _.
        apply bal_s_bind_e; [apply bal_declare_loop_vars|]. intros _ s2 _.
        destruct (is_collection target); [|apply bal_s_er_ctl].
        destruct (iter_pairs s2 target); [|intros _; exact I].
        apply bal_iter_items. intros sa. apply Hblk.
      + (* 输出 *)
        apply bal_s_bind_e; [apply Hev|]. intros v s1 _ W. apply R_ok_s_set_ret; exact W.
      + intros W. split; [apply R_er_of_ctl; [exact W|reflexivity]|]. intros _.
        apply R_ok_e_s; [exact W|apply R_ok_e_refl; exact W].
      + intros W. split; [apply R_er_of_ctl; [exact W|reflexivity]|]. intros _.
        apply R_ok_e_s; [exact W|apply R_ok_e_refl; exact W].
      + (* 抛出 *)
        apply bal_s_bind_e; [apply pres_bal_e, pres_vm_find|]. intros cv s1 _.
        destruct cv; try apply bal_s_er_ctl.
        intros W. pose proof (Hev s1 (ENew cls args) W) as H.
        destruct (ev s1 (ENew cls args)) as [obj s2|e s2| |w]; cbn [bind]; try exact I.
        * split; [apply R_ok_e_to_er; assumption|]. intros Hn. exfalso. apply Hn. reflexivity.
        * destruct H as [H1 H2]. split; [apply R_er_e_er; assumption|]. intros Hn. exfalso. apply Hn. exact H2.
      + apply bal_e_s, Hev.
      + apply bal_s_ok_refl.
      + apply bal_s_ok_refl.
      + apply bal_s_ok_refl.
      + apply bal_s_ok_refl.
    - intros st b. cbn [exec_block]. intros W. apply scoped_block; [exact W| |exact W].
      apply bal_block_go. exact IHs.
  Qed.

  Lemma bal_exec_block k st b : bal_b st (exec_block ev k st b).
  Proof. apply bal_stmt_block. Qed.

End Stmt.
