(* ScopeProofs.v — the model of pkg/runtime/scope.go + vm.go wrappers (model/Scope.v) refines the
   block-stack specification (spec/ScopeSpec.v), for every well-formed operation history. *)
From Coq Require Import List ZArith Bool Lia.
Import ListNotations.
From Zn.spec Require Import ScopeSpec.
From Zn.model Require Import Scope.
Open Scope Z_scope.

(* ------------------------------------------------------------------ the abstraction function *)

(* a live symbol, newest first: (name, depth, binding) *)
Definition entry : Type := (Z * Z * binding)%type.

Fixpoint live (ls : list sym) (vs : list Z) (refs : list (nat * Z)) (c : nat) : list entry :=
  match c with
  | O => []
  | S i =>
    match nth_error ls i, nth_error vs i with
    | Some s, Some v => (s_name s, s_depth s, mkB v (s_const s) (refs_get i refs)) :: live ls vs refs i
    | _, _ => live ls vs refs i
    end
  end.

Definition live_of (sp : scope) : list entry :=
  live (locals sp) (values sp) (externalRefs sp) (localCount sp).

Definition strip (e : entry) : Z * binding := (fst (fst e), snd e).

(* the maximal run of entries tagged with depth d, and the rest *)
Fixpoint take_depth (d : Z) (l : list entry) : block * list entry :=
  match l with
  | [] => ([], [])
  | (n, dp, b) :: r =>
    if dp =? d then let (t, rest) := take_depth d r in ((n, b) :: t, rest) else ([], l)
  end.

Fixpoint abs_aux (l : list entry) (d : nat) : env :=
  match d with
  | O => [map strip l]
  | S d' => let (t, rest) := take_depth (Z.of_nat d) l in t :: abs_aux rest d'
  end.

(* abs : scope -> list block *)
Definition abs (sp : scope) : env := abs_aux (live_of sp) (Z.to_nat (currentDepth sp)).

(* ------------------------------------------------------------------ flat view of the operations *)

Fixpoint flat_find (n : Z) (l : list entry) : option binding :=
  match l with
  | [] => None
  | (k, _, b) :: r => if k =? n then Some b else flat_find n r
  end.

Fixpoint flat_set (n v : Z) (l : list entry) : list entry :=
  match l with
  | [] => []
  | (k, d, b) :: r => if k =? n then (k, d, mkB v (b_const b) (b_ext b)) :: r else (k, d, b) :: flat_set n v r
  end.

Lemma blk_set_absent : forall n v b, blk_mem n b = false -> blk_set n v b = b.
Proof.
  unfold blk_mem. induction b as [|[k x] r IH]; cbn; intros H; [reflexivity|].
  destruct (k =? n); [discriminate|]. rewrite IH; auto.
Qed.

Lemma blk_find_strip : forall n l, blk_find n (map strip l) = flat_find n l.
Proof.
  induction l as [|[[k d] b] r IH]; cbn; [reflexivity|]. destruct (k =? n); auto.
Qed.

Lemma blk_set_strip : forall n v l, map strip (flat_set n v l) = blk_set n v (map strip l).
Proof.
  induction l as [|[[k d] b] r IH]; cbn; [reflexivity|].
  destruct (k =? n); cbn; [reflexivity|]. rewrite IH. reflexivity.
Qed.

Lemma take_depth_find : forall d n l t rest, take_depth d l = (t, rest) ->
  flat_find n l = match blk_find n t with Some x => Some x | None => flat_find n rest end.
Proof.
  induction l as [|[[k dp] b] r IH]; cbn; intros t rest H.
  - inversion H; subst. reflexivity.
  - destruct (dp =? d).
    + destruct (take_depth d r) as [t0 rest0] eqn:E. inversion H; subst. cbn.
      destruct (k =? n); [reflexivity|]. apply IH. reflexivity.
    + inversion H; subst. cbn. reflexivity.
Qed.

(* G1: lookup in the block stack = first match in the flat list *)
Lemma env_find_abs_aux : forall n d l, env_find n (abs_aux l d) = flat_find n l.
Proof.
  induction d as [|d IH]; intros l.
  - cbn [abs_aux env_find]. rewrite blk_find_strip. destruct (flat_find n l); reflexivity.
  - cbn [abs_aux]. destruct (take_depth (Z.of_nat (S d)) l) as [t rest] eqn:E.
    cbn [env_find]. rewrite IH. symmetry. apply take_depth_find with (d := Z.of_nat (S d)). exact E.
Qed.

Lemma take_depth_set : forall d n v l t rest, take_depth d l = (t, rest) ->
  take_depth d (flat_set n v l) =
  if blk_mem n t then (blk_set n v t, rest) else (t, flat_set n v rest).
Proof.
  unfold blk_mem. induction l as [|[[k dp] b] r IH]; cbn; intros t rest H.
  - inversion H; subst. reflexivity.
  - destruct (dp =? d) eqn:Ed.
    + destruct (take_depth d r) as [t0 rest0] eqn:E. inversion H; subst. cbn.
      destruct (k =? n) eqn:Ek; cbn; rewrite Ed.
      * rewrite E. reflexivity.
      * rewrite (IH _ _ eq_refl). destruct (blk_find n t0); reflexivity.
    + inversion H; subst. cbn. destruct (k =? n); cbn; rewrite Ed; reflexivity.
Qed.

(* G2: assignment in the block stack = update of the first match in the flat list *)
Lemma env_set_abs_aux : forall n v d l, abs_aux (flat_set n v l) d = env_set n v (abs_aux l d).
Proof.
  induction d as [|d IH]; intros l.
  - cbn [abs_aux env_set]. rewrite blk_set_strip.
    destruct (blk_mem n (map strip l)) eqn:E; [reflexivity|]. rewrite blk_set_absent; auto.
  - cbn [abs_aux]. destruct (take_depth (Z.of_nat (S d)) l) as [t rest] eqn:E.
    rewrite (take_depth_set _ n v _ _ _ E). cbn [env_set].
    destruct (blk_mem n t); [reflexivity|]. rewrite IH. reflexivity.
Qed.

Lemma abs_aux_length : forall d l, length (abs_aux l d) = S d.
Proof.
  induction d as [|d IH]; intros l; cbn [abs_aux]; [reflexivity|].
  destruct (take_depth (Z.of_nat (S d)) l). cbn. rewrite IH. reflexivity.
Qed.

Lemma take_depth_concat : forall d l t rest, take_depth d l = (t, rest) ->
  map strip l = t ++ map strip rest.
Proof.
  induction l as [|[[k dp] b] r IH]; cbn; intros t rest H.
  - inversion H; reflexivity.
  - destruct (dp =? d).
    + destruct (take_depth d r) as [t0 rest0] eqn:E. inversion H; subst. cbn.
      unfold strip at 1. cbn. f_equal. apply IH. reflexivity.
    + inversion H; subst. reflexivity.
Qed.

Lemma abs_aux_concat : forall d l, concat (abs_aux l d) = map strip l.
Proof.
  induction d as [|d IH]; intros l; cbn [abs_aux].
  - cbn. apply app_nil_r.
  - destruct (take_depth (Z.of_nat (S d)) l) as [t rest] eqn:E. cbn [concat].
    rewrite IH. symmetry. eapply take_depth_concat; eauto.
Qed.

(* ------------------------------------------------------------------ the invariant the code maintains *)

(* depths are sorted (deepest = newest first) and lie in 0..d *)
Fixpoint desc_from (d : Z) (l : list entry) : Prop :=
  match l with
  | [] => True
  | (_, dp, _) :: r => 0 <= dp <= d /\ desc_from dp r
  end.

Definition entry_ok (e : entry) : Prop :=
  b_val (snd e) <> 0 /\ forall m, b_ext (snd e) = Some m -> 0 <= m.

Record Inv (sp : scope) : Prop := mkInv {
  inv_len_l : (localCount sp <= length (locals sp))%nat;
  inv_len_v : (localCount sp <= length (values sp))%nat;
  inv_depth : 0 <= currentDepth sp;
  inv_desc : desc_from (currentDepth sp) (live_of sp);
  inv_ok : Forall entry_ok (live_of sp);
  inv_refs : forall k, (localCount sp <= k)%nat -> refs_get k (externalRefs sp) = None
}.

Lemma desc_from_weaken : forall l d d', d <= d' -> desc_from d l -> desc_from d' l.
Proof.
  destruct l as [|[[k dp] b] r]; cbn; intros; [exact I|]. destruct H0. split; [lia|assumption].
Qed.

Lemma desc_from_flat_set : forall n v l d, desc_from d l -> desc_from d (flat_set n v l).
Proof.
  induction l as [|[[k dp] b] r IH]; cbn; intros d H; [exact I|].
  destruct H as [H1 H2]. destruct (k =? n); cbn; split; auto.
Qed.

Lemma desc_from_take : forall d l t rest, 1 <= d -> desc_from d l -> take_depth d l = (t, rest) ->
  desc_from (d - 1) rest.
Proof.
  induction l as [|[[k dp] b] r IH]; cbn; intros t rest Hd H E.
  - inversion E; subst. exact I.
  - destruct H as [H1 H2]. destruct (dp =? d) eqn:Ed.
    + apply Z.eqb_eq in Ed. subst dp. destruct (take_depth d r) as [t0 rest0] eqn:E0.
      inversion E; subst. eapply IH; eauto.
    + apply Z.eqb_neq in Ed. inversion E; subst. cbn. split; [lia|assumption].
Qed.

Lemma take_depth_all0 : forall l, desc_from 0 l -> take_depth 0 l = (map strip l, []).
Proof.
  induction l as [|[[k dp] b] r IH]; cbn; intros H; [reflexivity|].
  destruct H as [H1 H2]. assert (dp = 0) by lia. subst dp. cbn. rewrite IH; auto.
Qed.

Lemma Forall_take_rest : forall (P : entry -> Prop) d l t rest, take_depth d l = (t, rest) ->
  Forall P l -> Forall P rest.
Proof.
  induction l as [|[[k dp] b] r IH]; cbn; intros t rest E H.
  - inversion E; subst. constructor.
  - destruct (dp =? d).
    + destruct (take_depth d r) as [t0 rest0] eqn:E0. inversion E; subst.
      inversion H; subst. eapply IH; eauto.
    + inversion E; subst. assumption.
Qed.

(* ------------------------------------------------------------------ live depends only on indices below c *)

Lemma live_ext : forall ls ls' vs vs' refs refs' c,
  (forall j, (j < c)%nat -> nth_error ls j = nth_error ls' j) ->
  (forall j, (j < c)%nat -> nth_error vs j = nth_error vs' j) ->
  (forall j, (j < c)%nat -> refs_get j refs = refs_get j refs') ->
  live ls vs refs c = live ls' vs' refs' c.
Proof.
  induction c as [|i IH]; intros Hl Hv Hr; cbn [live]; [reflexivity|].
  rewrite <- (Hl i), <- (Hv i), <- (Hr i) by lia.
  rewrite IH; [reflexivity| | |]; intros; [apply Hl|apply Hv|apply Hr]; lia.
Qed.

Lemma nth_error_in_range : forall (A : Type) (l : list A) i, (i < length l)%nat -> exists x, nth_error l i = Some x.
Proof.
  intros A l i H. destruct (nth_error l i) eqn:E; [eauto|]. apply nth_error_None in E. lia.
Qed.

Lemma refs_get_del_other : forall k j m, j <> k -> refs_get j (refs_del k m) = refs_get j m.
Proof.
  induction m as [|[k' v] r IH]; cbn; intros H; [reflexivity|].
  destruct (Nat.eqb k' k) eqn:E; cbn.
  - apply Nat.eqb_eq in E. subst k'. destruct (Nat.eqb k j) eqn:E2.
    + apply Nat.eqb_eq in E2. congruence.
    + apply IH; assumption.
  - destruct (Nat.eqb k' j); [reflexivity|]. apply IH; assumption.
Qed.

Lemma refs_get_del_same : forall k m, refs_get k (refs_del k m) = None.
Proof.
  induction m as [|[k' v] r IH]; cbn; [reflexivity|].
  destruct (Nat.eqb k' k) eqn:E; cbn; [assumption|]. rewrite E. assumption.
Qed.

Lemma list_set_nth : forall (A : Type) (l : list A) i x l', list_set l i x = Some l' ->
  nth_error l' i = Some x /\ (forall j, j <> i -> nth_error l' j = nth_error l j) /\ length l' = length l.
Proof.
  induction l as [|y r IH]; intros i x l' H; [discriminate|].
  destruct i as [|i]; cbn in H.
  - inversion H; subst. repeat split; auto. intros [|j] Hj; [congruence|reflexivity].
  - destruct (list_set r i x) as [r'|] eqn:E; [|discriminate]. inversion H; subst.
    destruct (IH _ _ _ E) as (H1 & H2 & H3). repeat split; cbn; auto.
    intros [|j] Hj; [reflexivity|]. cbn. apply H2. congruence.
Qed.

Lemma list_set_some : forall (A : Type) (l : list A) i x, (i < length l)%nat -> exists l', list_set l i x = Some l'.
Proof.
  induction l as [|y r IH]; intros i x H; cbn in H; [lia|].
  destruct i as [|i]; cbn; [eauto|]. destruct (IH i x) as [r' E]; [lia|]. rewrite E. eauto.
Qed.

(* ------------------------------------------------------------------ the loops of scope.go, against the flat view *)

Section Loops.
Variables (ls : list sym) (vs : list Z) (refs : list (nat * Z)).

Lemma live_S : forall i, (S i <= length ls)%nat -> (S i <= length vs)%nat ->
  exists s v, nth_error ls i = Some s /\ nth_error vs i = Some v /\
  live ls vs refs (S i) = (s_name s, s_depth s, mkB v (s_const s) (refs_get i refs)) :: live ls vs refs i.
Proof.
  intros i Hl Hv.
  destruct (nth_error_in_range _ ls i) as [s Es]; [lia|].
  destruct (nth_error_in_range _ vs i) as [v Ev]; [lia|].
  exists s, v. cbn [live]. rewrite Es, Ev. auto.
Qed.

(* getSymbolID + the read of values[symbolID] *)
Lemma get_symbol_id_from_spec : forall n c, (c <= length ls)%nat -> (c <= length vs)%nat ->
  match get_symbol_id_from ls c n with
  | Crash => False
  | Ok None => flat_find n (live ls vs refs c) = None
  | Ok (Some i) => (i < c)%nat /\ exists v, nth_error vs i = Some v /\
                   exists k, flat_find n (live ls vs refs c) = Some (mkB v k (refs_get i refs))
  end.
Proof.
  induction c as [|i IH]; intros Hl Hv; cbn [get_symbol_id_from]; [reflexivity|].
  destruct (live_S i Hl Hv) as (s & v & Es & Ev & EL). rewrite Es, EL. cbn [flat_find].
  destruct (s_name s =? n).
  - split; [lia|]. exists v. split; [assumption|]. eexists. reflexivity.
  - specialize (IH ltac:(lia) ltac:(lia)). destruct (get_symbol_id_from ls i n) as [[j|]|]; auto.
    destruct IH as [Hj IH]. split; [lia|assumption].
Qed.

(* the scan of SetValue *)
Lemma set_value_from_spec : forall n x c, (c <= length ls)%nat -> (c <= length vs)%nat ->
  match set_value_from ls c n with
  | Crash => False
  | Ok None => flat_find n (live ls vs refs c) = None
  | Ok (Some (i, k)) =>
    (i < c)%nat /\ (exists b, flat_find n (live ls vs refs c) = Some b /\ b_const b = k) /\
    forall vs', list_set vs i x = Some vs' -> live ls vs' refs c = flat_set n x (live ls vs refs c)
  end.
Proof.
  induction c as [|i IH]; intros Hl Hv; cbn [set_value_from]; [reflexivity|].
  destruct (live_S i Hl Hv) as (s & v & Es & Ev & EL). rewrite Es, EL. cbn [flat_find flat_set].
  destruct (s_name s =? n) eqn:En.
  - split; [lia|]. split; [eexists; split; reflexivity|].
    intros vs' H. destruct (list_set_nth _ _ _ _ _ H) as (H1 & H2 & H3).
    cbn [live]. rewrite Es, H1. cbn. f_equal.
    apply live_ext; auto. intros j Hj. apply H2. lia.
  - specialize (IH ltac:(lia) ltac:(lia)). destruct (set_value_from ls i n) as [[[j k]|]|]; auto.
    destruct IH as (Hj & Hb & Hs). split; [lia|]. split; [assumption|].
    intros vs' H. destruct (list_set_nth _ _ _ _ _ H) as (H1 & H2 & H3).
    cbn [live]. rewrite Es, (H2 i) by lia. rewrite Ev. f_equal. apply Hs. assumption.
Qed.

(* the redeclaration scan of declareValue *)
Lemma redeclared_from_spec : forall n d c, (c <= length ls)%nat -> (c <= length vs)%nat ->
  desc_from d (live ls vs refs c) ->
  redeclared_from ls c d n = Ok (blk_mem n (fst (take_depth d (live ls vs refs c)))).
Proof.
  unfold blk_mem.
  induction c as [|i IH]; intros Hl Hv Hd; cbn [redeclared_from]; [reflexivity|].
  destruct (live_S i Hl Hv) as (s & v & Es & Ev & EL). rewrite Es. rewrite EL in *. cbn [take_depth].
  cbn [desc_from] in Hd. destruct Hd as [Hb Hd].
  destruct (s_depth s <? d) eqn:E1.
  - apply Z.ltb_lt in E1. assert (E2 : (s_depth s =? d) = false) by (apply Z.eqb_neq; lia).
    rewrite E2. reflexivity.
  - apply Z.ltb_ge in E1. assert (s_depth s = d) by lia.
    assert (E2 : (s_depth s =? d) = true) by (apply Z.eqb_eq; assumption). rewrite E2.
    destruct (take_depth d (live ls vs refs i)) as [t rest] eqn:E. cbn [fst blk_find].
    destruct (s_name s =? n); [reflexivity|].
    apply IH; [lia|lia|]. rewrite <- H. assumption.
Qed.

End Loops.

(* the pop loop of EndScope (repaired code: with delete) *)
Lemma pop_deeper_spec : forall ls vs d c refs, (c <= length ls)%nat -> (c <= length vs)%nat ->
  desc_from d (live ls vs refs c) ->
  (forall k, (c <= k)%nat -> refs_get k refs = None) ->
  exists c' refs', pop_deeper true ls c (d - 1) refs = Ok (c', refs') /\ (c' <= c)%nat /\
    live ls vs refs' c' = snd (take_depth d (live ls vs refs c)) /\
    (forall k, (c' <= k)%nat -> refs_get k refs' = None).
Proof.
  induction c as [|i IH]; intros refs Hl Hv Hd Hr; cbn [pop_deeper].
  - exists O, refs. cbn. auto.
  - destruct (live_S ls vs refs i Hl Hv) as (s & v & Es & Ev & EL). rewrite Es. rewrite EL in *.
    cbn [desc_from] in Hd. destruct Hd as [Hb Hd]. cbn [take_depth].
    destruct (s_depth s >? d - 1) eqn:E1.
    + assert (s_depth s = d) by lia. assert (E2 : (s_depth s =? d) = true) by (apply Z.eqb_eq; assumption).
      rewrite E2.
      assert (EL' : live ls vs (refs_del i refs) i = live ls vs refs i).
      { apply live_ext; auto. intros j Hj. apply refs_get_del_other. lia. }
      destruct (IH (refs_del i refs)) as (c' & refs' & P1 & P2 & P3 & P4); try lia.
      * rewrite EL'. rewrite <- H. assumption.
      * intros k Hk. destruct (Nat.eq_dec k i) as [->|Hne]; [apply refs_get_del_same|].
        rewrite refs_get_del_other by auto. apply Hr. lia.
      * exists c', refs'. rewrite P1. split; [reflexivity|]. split; [lia|]. split; [|assumption].
        rewrite P3, EL'. destruct (take_depth d (live ls vs refs i)); reflexivity.
    + assert (E2 : (s_depth s =? d) = false) by (apply Z.eqb_neq; lia). rewrite E2.
      exists (S i), refs. split; [reflexivity|]. split; [lia|]. split; [|assumption].
      cbn [snd]. exact EL.
Qed.

(* ------------------------------------------------------------------ each Scope method against the specification *)

Lemma take_depth_above : forall d d' l, desc_from d l -> d < d' -> take_depth d' l = ([], l).
Proof.
  destruct l as [|[[k dp] b] r]; cbn; intros H Hlt; [reflexivity|].
  destruct H as [H1 H2]. assert (E : (dp =? d') = false) by (apply Z.eqb_neq; lia). rewrite E. reflexivity.
Qed.

Lemma abs_top : forall sp, Inv sp -> hd [] (abs sp) = fst (take_depth (currentDepth sp) (live_of sp)).
Proof.
  intros sp I. unfold abs. pose proof (inv_depth sp I) as Hd.
  destruct (Z.to_nat (currentDepth sp)) as [|d'] eqn:E.
  - assert (currentDepth sp = 0) by lia. cbn [abs_aux hd]. rewrite H.
    rewrite take_depth_all0; [reflexivity|]. rewrite <- H. apply (inv_desc sp I).
  - cbn [abs_aux]. replace (Z.of_nat (S d')) with (currentDepth sp) by lia.
    destruct (take_depth (currentDepth sp) (live_of sp)); reflexivity.
Qed.

Definition push_binding (x : Z * binding) (e : env) : env :=
  match e with t :: r => (x :: t) :: r | [] => [] end.

Lemma abs_aux_cons : forall n b l dn, abs_aux ((n, Z.of_nat dn, b) :: l) dn = push_binding (n, b) (abs_aux l dn).
Proof.
  intros n b l [|d']; cbn [abs_aux push_binding]; [reflexivity|].
  cbn [take_depth]. rewrite Z.eqb_refl.
  destruct (take_depth (Z.of_nat (S d')) l) as [t rest]. reflexivity.
Qed.

Lemma begin_refines : forall sp, Inv sp -> Inv (begin_scope sp) /\ abs (begin_scope sp) = spec_begin (abs sp).
Proof.
  intros sp I. destruct I as [I1 I2 I3 I4 I5 I6]. split.
  - constructor; cbn; auto; try lia. eapply desc_from_weaken; [|exact I4]. lia.
  - unfold abs, begin_scope, live_of, spec_begin. cbn [currentDepth locals values externalRefs localCount].
    replace (Z.to_nat (currentDepth sp + 1)) with (S (Z.to_nat (currentDepth sp))) by lia.
    cbn [abs_aux]. rewrite (take_depth_above (currentDepth sp)); [reflexivity|exact I4|lia].
Qed.

Lemma end_refines : forall sp, Inv sp -> 1 <= currentDepth sp ->
  exists sp', end_scope sp = Ok sp' /\ Inv sp' /\ abs sp' = spec_end (abs sp).
Proof.
  intros sp I Hd. destruct I as [I1 I2 I3 I4 I5 I6].
  destruct (pop_deeper_spec (locals sp) (values sp) (currentDepth sp) (localCount sp) (externalRefs sp))
    as (c' & refs' & P1 & P2 & P3 & P4); auto.
  unfold end_scope, end_scope_gen. rewrite P1. eexists. split; [reflexivity|].
  unfold live_of in *.
  destruct (take_depth (currentDepth sp) (live (locals sp) (values sp) (externalRefs sp) (localCount sp)))
    as [t rest] eqn:E. cbn [snd] in P3.
  split.
  - constructor; cbn [locals values externalRefs localCount currentDepth]; unfold live_of;
      cbn [locals values externalRefs localCount currentDepth]; try lia; auto.
    + rewrite P3. eapply desc_from_take; eauto.
    + rewrite P3. eapply Forall_take_rest; eauto.
  - unfold abs, live_of, spec_end. cbn [locals values externalRefs localCount currentDepth].
    rewrite P3.
    destruct (Z.to_nat (currentDepth sp)) as [|d'] eqn:Ed; [lia|].
    replace (Z.to_nat (currentDepth sp - 1)) with d' by lia.
    cbn [abs_aux]. replace (Z.of_nat (S d')) with (currentDepth sp) by lia. rewrite E. reflexivity.
Qed.

Lemma nth_error_firstn_lt : forall (A : Type) c (l : list A) j, (j < c)%nat ->
  nth_error (firstn c l) j = nth_error l j.
Proof.
  induction c as [|c IH]; intros l j H; [lia|].
  destruct l as [|y r]; [destruct j; reflexivity|].
  destruct j as [|j]; cbn; [reflexivity|]. apply IH. lia.
Qed.

Lemma nth_error_firstn_app : forall (A : Type) (l : list A) c x j, (c <= length l)%nat -> (j < c)%nat ->
  nth_error (firstn c l ++ [x]) j = nth_error l j.
Proof.
  intros. rewrite nth_error_app1 by (rewrite firstn_length; lia).
  apply nth_error_firstn_lt. assumption.
Qed.

Lemma nth_error_firstn_app_last : forall (A : Type) (l : list A) c x, (c <= length l)%nat ->
  nth_error (firstn c l ++ [x]) c = Some x.
Proof.
  intros. rewrite nth_error_app2 by (rewrite firstn_length; lia).
  rewrite firstn_length. replace (c - Nat.min c (length l))%nat with O by lia. reflexivity.
Qed.

(* the append of declareValue, with any update of externalRefs that leaves the older entries alone *)
Lemma push_refines : forall sp n v k refs' x,
  Inv sp -> v <> 0 -> (forall m, x = Some m -> 0 <= m) ->
  (forall j, (j < localCount sp)%nat -> refs_get j refs' = refs_get j (externalRefs sp)) ->
  (forall j, (S (localCount sp) <= j)%nat -> refs_get j refs' = None) ->
  refs_get (localCount sp) refs' = x ->
  let sp' := mkScope (firstn (localCount sp) (locals sp) ++ [mkSym n (currentDepth sp) k]) (S (localCount sp))
                     (currentDepth sp) (firstn (localCount sp) (values sp) ++ [v]) refs' in
  Inv sp' /\ abs sp' = push_binding (n, mkB v k x) (abs sp).
Proof.
  intros sp n v k refs' x I Hv Hx R1 R2 R3 sp'. destruct I as [I1 I2 I3 I4 I5 I6].
  assert (EL : live_of sp' = (n, currentDepth sp, mkB v k x) :: live_of sp).
  { unfold live_of, sp'. cbn [locals values externalRefs localCount]. cbn [live].
    rewrite !nth_error_firstn_app_last by assumption. cbn [s_name s_depth s_const]. rewrite R3. f_equal.
    apply live_ext; intros j Hj; auto using nth_error_firstn_app. }
  split.
  - constructor; try rewrite EL; unfold sp'; cbn [locals values externalRefs localCount currentDepth]; auto.
    + rewrite app_length, firstn_length. cbn. lia.
    + rewrite app_length, firstn_length. cbn. lia.
    + cbn [desc_from]. split; [lia|assumption].
    + constructor; [|assumption]. split; cbn; auto.
  - unfold abs. rewrite EL. unfold sp' at 1. cbn [currentDepth].
    rewrite <- (Z2Nat.id (currentDepth sp)) at 1 by assumption. apply abs_aux_cons.
Qed.

Lemma declare_refines : forall sp n v k, Inv sp -> v <> 0 ->
  if blk_mem n (hd [] (abs sp))
  then declare_value sp n v k = Ok (sp, E_REDECLARED)
  else exists sp', declare_value sp n v k = Ok (sp', E_OK) /\ Inv sp' /\
                   abs sp' = push_binding (n, mkB v k None) (abs sp) /\
                   localCount sp' = S (localCount sp) /\
                   (forall j, (j < localCount sp)%nat -> refs_get j (externalRefs sp') = refs_get j (externalRefs sp)) /\
                   (forall j, (localCount sp <= j)%nat -> refs_get j (externalRefs sp') = None) /\
                   currentDepth sp' = currentDepth sp.
Proof.
  intros sp n v k I Hv. rewrite (abs_top sp I). unfold declare_value.
  rewrite (redeclared_from_spec (locals sp) (values sp) (externalRefs sp));
    [|apply (inv_len_l sp I)|apply (inv_len_v sp I)|apply (inv_desc sp I)].
  fold (live_of sp).
  destruct (blk_mem n (fst (take_depth (currentDepth sp) (live_of sp)))); [reflexivity|].
  unfold slice_to. pose proof (inv_len_l sp I) as L1. pose proof (inv_len_v sp I) as L2.
  apply Nat.leb_le in L1. apply Nat.leb_le in L2. rewrite L1, L2.
  eexists. split; [reflexivity|].
  destruct (push_refines sp n v k (externalRefs sp) None) as [P1 P2]; auto.
  - discriminate.
  - intros j Hj. apply (inv_refs sp I). lia.
  - apply (inv_refs sp I). lia.
  - split; [exact P1|]. split; [exact P2|]. cbn [localCount externalRefs currentDepth].
    split; [reflexivity|]. split; [auto|]. split; [|reflexivity]. apply (inv_refs sp I).
Qed.

Lemma refs_get_put_same : forall k m r, refs_get k (refs_put k m r) = Some m.
Proof. intros. unfold refs_put. cbn. rewrite Nat.eqb_refl. reflexivity. Qed.

Lemma refs_get_put_other : forall k j m r, j <> k -> refs_get j (refs_put k m r) = refs_get j r.
Proof.
  intros. unfold refs_put. cbn. destruct (Nat.eqb k j) eqn:E.
  - apply Nat.eqb_eq in E. congruence.
  - apply refs_get_del_other. assumption.
Qed.

Lemma declare_external_refines : forall sp n v m, Inv sp -> v <> 0 -> 0 <= m ->
  if blk_mem n (hd [] (abs sp))
  then declare_external_value sp n v m = Ok (sp, E_REDECLARED)
  else exists sp', declare_external_value sp n v m = Ok (sp', E_OK) /\ Inv sp' /\
                   abs sp' = push_binding (n, mkB v true (Some m)) (abs sp).
Proof.
  intros sp n v m I Hv Hm. rewrite (abs_top sp I). unfold declare_external_value, declare_value.
  rewrite (redeclared_from_spec (locals sp) (values sp) (externalRefs sp));
    [|apply (inv_len_l sp I)|apply (inv_len_v sp I)|apply (inv_desc sp I)].
  fold (live_of sp).
  destruct (blk_mem n (fst (take_depth (currentDepth sp) (live_of sp)))); [reflexivity|].
  unfold slice_to. pose proof (inv_len_l sp I) as L1. pose proof (inv_len_v sp I) as L2.
  apply Nat.leb_le in L1. apply Nat.leb_le in L2. rewrite L1, L2.
  cbn [Z.eqb E_OK locals values externalRefs localCount currentDepth].
  replace (S (localCount sp) - 1)%nat with (localCount sp) by lia.
  eexists. split; [reflexivity|].
  apply (push_refines sp n v true (refs_put (localCount sp) m (externalRefs sp)) (Some m)); auto.
  - intros m0 H. inversion H; subst. assumption.
  - intros j Hj. apply refs_get_put_other. lia.
  - intros j Hj. rewrite refs_get_put_other by lia. apply (inv_refs sp I). lia.
  - apply refs_get_put_same.
Qed.

Lemma Forall_ok_flat_set : forall n v l, v <> 0 -> Forall entry_ok l -> Forall entry_ok (flat_set n v l).
Proof.
  induction l as [|[[k d] b] r IH]; cbn; intros Hv H; [constructor|].
  inversion H as [|? ? H1 H2]; subst. destruct (k =? n); constructor; auto.
  destruct H1 as [_ H1]. split; cbn; auto.
Qed.

Lemma set_refines : forall sp n v, Inv sp -> v <> 0 ->
  match env_find n (abs sp) with
  | None => set_value sp n v = Ok (sp, E_NOT_DEFINED)
  | Some b =>
    if b_const b then set_value sp n v = Ok (sp, E_ASSIGN_CONST)
    else exists sp', set_value sp n v = Ok (sp', E_OK) /\ Inv sp' /\ abs sp' = env_set n v (abs sp)
  end.
Proof.
  intros sp n v I Hv. unfold abs at 1. rewrite env_find_abs_aux. unfold set_value.
  pose proof (set_value_from_spec (locals sp) (values sp) (externalRefs sp) n v (localCount sp)
                (inv_len_l sp I) (inv_len_v sp I)) as S.
  fold (live_of sp) in S.
  destruct (set_value_from (locals sp) (localCount sp) n) as [[[i k]|]|]; [| |contradiction].
  - destruct S as (Hi & (b & Hb & Hk) & Hs). rewrite Hb, Hk.
    destruct k; [reflexivity|].
    destruct (list_set_some _ (values sp) i v) as [vs' E]; [pose proof (inv_len_v sp I); lia|].
    rewrite E. eexists. split; [reflexivity|].
    destruct (list_set_nth _ _ _ _ _ E) as (N1 & N2 & N3). specialize (Hs _ E).
    destruct I as [I1 I2 I3 I4 I5 I6]. split.
    + constructor; unfold live_of; cbn [locals values externalRefs localCount currentDepth]; auto.
      * lia.
      * rewrite Hs. apply desc_from_flat_set. assumption.
      * rewrite Hs. apply Forall_ok_flat_set; assumption.
    + unfold abs, live_of. cbn [locals values externalRefs localCount currentDepth].
      rewrite Hs. apply env_set_abs_aux.
  - rewrite S. reflexivity.
Qed.

Lemma get_refines : forall sp n, Inv sp ->
  get_value sp n = Ok (match env_find n (abs sp) with Some b => b_val b | None => 0 end) /\
  get_value_with_module sp n =
    Ok (match env_find n (abs sp) with
        | Some b => (b_val b, match b_ext b with Some m => m | None => -1 end)
        | None => (0, -1)
        end).
Proof.
  intros sp n I. unfold abs. rewrite env_find_abs_aux.
  unfold get_value, get_value_with_module, get_symbol_id.
  pose proof (get_symbol_id_from_spec (locals sp) (values sp) (externalRefs sp) n (localCount sp)
                (inv_len_l sp I) (inv_len_v sp I)) as S.
  fold (live_of sp) in S.
  destruct (get_symbol_id_from (locals sp) (localCount sp) n) as [[i|]|]; [| |contradiction].
  - destruct S as (Hi & v & Ev & k & Hb). rewrite Ev, Hb. cbn [b_val b_ext].
    destruct (refs_get i (externalRefs sp)); split; reflexivity.
  - rewrite S. split; reflexivity.
Qed.

(* ------------------------------------------------------------------ the VM wrappers; whole histories *)

Definition abs_vm (v : vm) : env := match vm_scope v with Some sp => abs sp | None => [] end.

(* the simulation relation: a VM whose current module [self] has a symbol table in a state the code can reach *)
Definition R (self : Z) (v : vm) (e : env) : Prop :=
  exists sp, v = mkVM (Some sp) self /\ Inv sp /\ abs sp = e.

Lemma R_abs : forall self v e, R self v e -> abs_vm v = e.
Proof. intros self v e (sp & -> & _ & H). exact H. Qed.

Lemma R_length : forall self v e, R self v e -> (1 <= length e)%nat.
Proof. intros self v e (sp & _ & _ & <-). unfold abs. rewrite abs_aux_length. lia. Qed.

Lemma live_length : forall ls vs refs c, (c <= length ls)%nat -> (c <= length vs)%nat ->
  length (live ls vs refs c) = c.
Proof.
  induction c as [|i IH]; intros Hl Hv; [reflexivity|].
  destruct (live_S ls vs refs i Hl Hv) as (s & v & _ & _ & EL). rewrite EL. cbn. rewrite IH; lia.
Qed.

Lemma obs_abs : forall sp, Inv sp -> scope_obs sp = [env_depth (abs sp); env_count (abs sp)].
Proof.
  intros sp I. unfold scope_obs, env_depth, env_count, abs.
  rewrite abs_aux_length, abs_aux_concat, map_length. unfold live_of.
  rewrite live_length by (apply I). pose proof (inv_depth sp I).
  replace (Z.of_nat (S (Z.to_nat (currentDepth sp))) - 1) with (currentDepth sp) by lia. reflexivity.
Qed.

Lemma flat_find_ok : forall n l b, Forall entry_ok l -> flat_find n l = Some b ->
  b_val b <> 0 /\ forall m, b_ext b = Some m -> 0 <= m.
Proof.
  induction l as [|[[k d] x] r IH]; cbn; intros b H E; [discriminate|].
  inversion H; subst. destruct (k =? n); [|auto]. inversion E; subst. assumption.
Qed.

Lemma env_find_ok : forall sp n b, Inv sp -> env_find n (abs sp) = Some b ->
  b_val b <> 0 /\ forall m, b_ext b = Some m -> 0 <= m.
Proof.
  intros sp n b I H. unfold abs in H. rewrite env_find_abs_aux in H.
  apply (flat_find_ok n (live_of sp) b (inv_ok sp I) H).
Qed.

Lemma abs_nonempty : forall sp, exists top r, abs sp = top :: r.
Proof.
  intros sp. destruct (abs sp) as [|top r] eqn:E; [|eauto].
  pose proof (abs_aux_length (Z.to_nat (currentDepth sp)) (live_of sp)) as H.
  unfold abs in E. rewrite E in H. discriminate.
Qed.

(* one step of the code = one step of the specification *)
Lemma vm_step_refines : forall self v e o, R self v e -> op_args_ok o = true ->
  (o = OEnd -> (2 <= length e)%nat) ->
  exists v', vm_step v o = Ok (v', snd (spec_step self e o)) /\ R self v' (fst (spec_step self e o)).
Proof.
  intros self v e o (sp & -> & I & <-) Hargs Hend.
  destruct (abs_nonempty sp) as (top & r & Eabs).
  destruct o as [| |n x|n x|n x m|n x|n|n]; cbn [op_args_ok] in Hargs.
  - (* begin *)
    destruct (begin_refines sp I) as [I' A']. eexists. split; [reflexivity|].
    exists (begin_scope sp). auto.
  - (* end *)
    assert (Hd : 1 <= currentDepth sp).
    { specialize (Hend eq_refl). unfold abs in Hend. rewrite abs_aux_length in Hend.
      pose proof (inv_depth sp I). lia. }
    destruct (end_refines sp I Hd) as (sp' & E & I' & A').
    unfold vm_step, vm_step_gen, vm_end_scope_gen. cbn [vm_scope]. fold end_scope. rewrite E.
    eexists. split; [reflexivity|]. exists sp'. auto.
  - (* declare *)
    apply negb_true_iff, Z.eqb_neq in Hargs.
    unfold vm_step, vm_step_gen, vm_declare. cbn [vm_scope spec_step]. unfold spec_declare.
    destruct (predef n) eqn:P.
    + eexists. split; [reflexivity|]. exists sp. auto.
    + pose proof (declare_refines sp n x false I Hargs) as D. rewrite Eabs in *. cbn [hd] in D.
      destruct (blk_mem n top).
      * rewrite D. eexists. split; [reflexivity|]. exists sp. auto.
      * destruct D as (sp' & D & I' & A' & _). rewrite D. eexists. split; [reflexivity|].
        exists sp'. auto.
  - (* declare const *)
    apply negb_true_iff, Z.eqb_neq in Hargs.
    unfold vm_step, vm_step_gen, vm_declare. cbn [vm_scope spec_step]. unfold spec_declare.
    destruct (predef n) eqn:P.
    + eexists. split; [reflexivity|]. exists sp. auto.
    + pose proof (declare_refines sp n x true I Hargs) as D. rewrite Eabs in *. cbn [hd] in D.
      destruct (blk_mem n top).
      * rewrite D. eexists. split; [reflexivity|]. exists sp. auto.
      * destruct D as (sp' & D & I' & A' & _). rewrite D. eexists. split; [reflexivity|].
        exists sp'. auto.
  - (* declare external *)
    apply andb_true_iff in Hargs. destruct Hargs as [Hx Hm].
    apply negb_true_iff, Z.eqb_neq in Hx. apply Z.leb_le in Hm.
    unfold vm_step, vm_step_gen, vm_declare. cbn [vm_scope spec_step]. unfold spec_declare.
    destruct (predef n) eqn:P.
    + eexists. split; [reflexivity|]. exists sp. auto.
    + pose proof (declare_external_refines sp n x m I Hx Hm) as D. rewrite Eabs in *. cbn [hd] in D.
      destruct (blk_mem n top).
      * rewrite D. eexists. split; [reflexivity|]. exists sp. auto.
      * destruct D as (sp' & D & I' & A'). rewrite D. eexists. split; [reflexivity|].
        exists sp'. auto.
  - (* assign *)
    apply negb_true_iff, Z.eqb_neq in Hargs.
    unfold vm_step, vm_step_gen, vm_set_element. cbn [vm_scope spec_step]. unfold spec_assign.
    pose proof (set_refines sp n x I Hargs) as S.
    destruct (env_find n (abs sp)) as [b|].
    + destruct (b_const b).
      * rewrite S. eexists. split; [reflexivity|]. exists sp. auto.
      * destruct S as (sp' & S & I' & A'). rewrite S. eexists. split; [reflexivity|]. exists sp'. auto.
    + rewrite S. eexists. split; [reflexivity|]. exists sp. auto.
  - (* lookup *)
    unfold vm_step, vm_step_gen, vm_find_element. cbn [vm_scope spec_step fst snd]. unfold spec_lookup.
    destruct (predef n) eqn:P.
    + eexists. split; [reflexivity|]. exists sp. auto.
    + destruct (get_refines sp n I) as [G _]. rewrite G.
      destruct (env_find n (abs sp)) as [b|] eqn:F.
      * destruct (env_find_ok sp n b I F) as [Hv _]. apply Z.eqb_neq in Hv. rewrite Hv.
        eexists. split; [reflexivity|]. exists sp. auto.
      * cbn. eexists. split; [reflexivity|]. exists sp. auto.
  - (* lookup with module *)
    unfold vm_step, vm_step_gen, vm_find_element_with_module. cbn [vm_scope cs_module spec_step fst snd].
    unfold spec_lookup_m.
    destruct (predef n) eqn:P.
    + eexists. split; [reflexivity|]. exists sp. auto.
    + destruct (get_refines sp n I) as [_ G]. rewrite G.
      destruct (env_find n (abs sp)) as [b|] eqn:F.
      * destruct (env_find_ok sp n b I F) as [Hv Hm]. apply Z.eqb_neq in Hv. rewrite Hv.
        destruct (b_ext b) as [m|].
        -- specialize (Hm m eq_refl). apply Z.leb_le in Hm. rewrite Hm.
           eexists. split; [reflexivity|]. exists sp. auto.
        -- cbn. eexists. split; [reflexivity|]. exists sp. auto.
      * cbn. eexists. split; [reflexivity|]. exists sp. auto.
Qed.

Lemma Inv_new : Inv new_scope.
Proof. constructor; cbn; auto; lia. Qed.

Lemma R_init : forall self, R self (init_vm self) empty_env.
Proof. intros. exists new_scope. split; [reflexivity|]. split; [apply Inv_new|reflexivity]. Qed.

Lemma env_set_length : forall n v e, length (env_set n v e) = length e.
Proof.
  induction e as [|b r IH]; cbn; [reflexivity|]. destruct (blk_mem n b); cbn; [reflexivity|]. rewrite IH. reflexivity.
Qed.

Lemma spec_step_length : forall self e o, (1 <= length e)%nat -> (o = OEnd -> (2 <= length e)%nat) ->
  length (fst (spec_step self e o)) =
  match o with OBegin => S (length e) | OEnd => pred (length e) | _ => length e end.
Proof.
  intros self e o H1 H2. destruct e as [|top r]; [cbn in H1; lia|].
  destruct o as [| |n x|n x|n x m|n x|n|n]; cbn [spec_step fst]; try reflexivity.
  - unfold spec_declare. destruct (predef n); [reflexivity|]. destruct (blk_mem n top); reflexivity.
  - unfold spec_declare. destruct (predef n); [reflexivity|]. destruct (blk_mem n top); reflexivity.
  - unfold spec_declare. destruct (predef n); [reflexivity|]. destruct (blk_mem n top); reflexivity.
  - unfold spec_assign. destruct (env_find n (top :: r)) as [b|]; [|reflexivity].
    destruct (b_const b); [reflexivity|]. cbn [fst]. apply env_set_length.
Qed.

Lemma balanced_step : forall d o r, balanced_from d (o :: r) = true ->
  (o = OEnd -> (1 <= d)%nat) /\
  balanced_from (match o with OBegin => S d | OEnd => pred d | _ => d end) r = true.
Proof.
  intros d o r H. destruct o; cbn in H; try (split; [discriminate|assumption]).
  destruct d; [discriminate|]. split; [lia|assumption].
Qed.

(* every history: the code's answers and states are the specification's *)
Lemma vm_run_refines : forall self ops v e, R self v e ->
  balanced_from (length e - 1) ops = true -> forallb op_args_ok ops = true ->
  exists v', vm_run v ops = Ok (v', snd (spec_run self e ops)) /\ R self v' (fst (spec_run self e ops)).
Proof.
  induction ops as [|o r IH]; intros v e HR Hb Ha.
  - cbn. exists v. auto.
  - cbn [forallb] in Ha. apply andb_true_iff in Ha. destruct Ha as [Ha1 Ha2].
    destruct (balanced_step _ _ _ Hb) as [Hend Hb'].
    pose proof (R_length _ _ _ HR) as Hlen.
    destruct (vm_step_refines self v e o HR Ha1) as (v1 & S1 & R1); [intros ->; specialize (Hend eq_refl); lia|].
    assert (Hlen1 : (length (fst (spec_step self e o)) - 1)%nat =
                    match o with OBegin => S (length e - 1) | OEnd => pred (length e - 1) | _ => (length e - 1)%nat end).
    { rewrite spec_step_length; [destruct o; lia|lia|]. intros ->. specialize (Hend eq_refl). lia. }
    destruct (IH v1 _ R1) as (v2 & S2 & R2); [rewrite Hlen1; assumption|assumption|].
    unfold vm_run in *. cbn [vm_run_gen spec_run]. fold (vm_step v o). rewrite S1.
    destruct (spec_step self e o) as [e1 a] eqn:E1. cbn [fst snd] in *.
    rewrite S2. destruct (spec_run self e1 r) as [e2 l]. cbn [fst snd] in *.
    exists v2. auto.
Qed.

Lemma vm_trace_refines : forall self ops v e, R self v e ->
  balanced_from (length e - 1) ops = true -> forallb op_args_ok ops = true ->
  vm_trace_gen true v ops = spec_trace self e ops.
Proof.
  induction ops as [|o r IH]; intros v e HR Hb Ha; [reflexivity|].
  cbn [forallb] in Ha. apply andb_true_iff in Ha. destruct Ha as [Ha1 Ha2].
  destruct (balanced_step _ _ _ Hb) as [Hend Hb'].
  pose proof (R_length _ _ _ HR) as Hlen.
  destruct (vm_step_refines self v e o HR Ha1) as (v1 & S1 & R1); [intros ->; specialize (Hend eq_refl); lia|].
  assert (Hlen1 : (length (fst (spec_step self e o)) - 1)%nat =
                  match o with OBegin => S (length e - 1) | OEnd => pred (length e - 1) | _ => (length e - 1)%nat end).
  { rewrite spec_step_length; [destruct o; lia|lia|]. intros ->. specialize (Hend eq_refl). lia. }
  cbn [vm_trace_gen spec_trace]. fold (vm_step v o). rewrite S1.
  destruct (spec_step self e o) as [e1 a] eqn:E1. cbn [fst snd] in *.
  rewrite (IH v1 e1 R1); [|rewrite Hlen1; assumption|assumption].
  f_equal. f_equal. destruct R1 as (sp1 & -> & I1 & <-). cbn [vm_obs vm_scope]. apply obs_abs. assumption.
Qed.

(* states the code can reach through a well-formed history *)
Definition reachable (self : Z) (v : vm) : Prop :=
  exists ops l, wf_history ops = true /\ vm_run (init_vm self) ops = Ok (v, l).

Lemma wf_history_split : forall ops, wf_history ops = true ->
  balanced_from 0 ops = true /\ forallb op_args_ok ops = true.
Proof. intros ops H. unfold wf_history in H. apply andb_true_iff in H. exact H. Qed.

Lemma reachable_R : forall self v, reachable self v -> R self v (abs_vm v).
Proof.
  intros self v (ops & l & W & E). destruct (wf_history_split _ W) as [Wb Wa].
  destruct (vm_run_refines self ops (init_vm self) empty_env (R_init self) Wb Wa) as (v' & E' & R').
  rewrite E in E'. inversion E'; subst. rewrite (R_abs _ _ _ R'). assumption.
Qed.

Theorem scope_refines_blocks : forall self ops, wf_history ops = true ->
  exists v, vm_run (init_vm self) ops = Ok (v, snd (spec_run self empty_env ops)) /\
            abs_vm v = fst (spec_run self empty_env ops) /\
            vm_trace_gen true (init_vm self) ops = spec_trace self empty_env ops.
Proof.
  intros self ops W. destruct (wf_history_split _ W) as [Wb Wa].
  destruct (vm_run_refines self ops (init_vm self) empty_env (R_init self) Wb Wa) as (v' & E' & R').
  exists v'. split; [assumption|]. split; [apply (R_abs _ _ _ R')|].
  apply vm_trace_refines; auto. apply R_init.
Qed.

(* ------------------------------------------------------------------ consequences *)

(* predefined names never enter a block (specification side) *)
Definition no_predef (e : env) : Prop := forall n g, predef n = Some g -> env_find n e = None.

Lemma blk_mem_blk_set : forall n n' v b, blk_mem n (blk_set n' v b) = blk_mem n b.
Proof.
  unfold blk_mem. induction b as [|[k x] r IH]; cbn; [reflexivity|].
  destruct (k =? n') eqn:E; cbn; destruct (k =? n); auto.
Qed.

Lemma env_find_env_set_none : forall n n' v e, env_find n e = None -> env_find n (env_set n' v e) = None.
Proof.
  induction e as [|b r IH]; cbn; intros H; [reflexivity|].
  destruct (blk_find n b) eqn:F; [discriminate|].
  destruct (blk_mem n' b); cbn.
  - pose proof (blk_mem_blk_set n n' v b) as M. unfold blk_mem in M. rewrite F in M.
    destruct (blk_find n (blk_set n' v b)); [discriminate|assumption].
  - rewrite F. auto.
Qed.

Lemma no_predef_step : forall self e o, no_predef e -> no_predef (fst (spec_step self e o)).
Proof.
  intros self e o H.
  assert (D : forall n bd, no_predef (fst (spec_declare n bd e))).
  { intros n bd. unfold spec_declare. destruct (predef n) eqn:P; [exact H|].
    destruct e as [|top r]; [exact H|]. destruct (blk_mem n top); [exact H|].
    intros n' g P'. cbn. destruct (n =? n') eqn:E.
    - apply Z.eqb_eq in E. subst. congruence.
    - apply (H n' g P'). }
  destruct o as [| |n x|n x|n x m|n x|n|n]; cbn [spec_step]; try exact H.
  - intros n g P. specialize (H n g P). destruct e as [|b r]; [reflexivity|]. cbn in *.
    destruct (blk_find n b); [discriminate|assumption].
  - specialize (D n (mkB x false None)). destruct (spec_declare n (mkB x false None) e). exact D.
  - specialize (D n (mkB x true None)). destruct (spec_declare n (mkB x true None) e). exact D.
  - specialize (D n (mkB x true (Some m))). destruct (spec_declare n (mkB x true (Some m)) e). exact D.
  - unfold spec_assign. destruct (env_find n e) as [b|]; [|exact H].
    destruct (b_const b); [exact H|]. intros n' g P. cbn. apply env_find_env_set_none. apply (H n' g P).
Qed.

Lemma no_predef_run : forall self ops e, no_predef e -> no_predef (fst (spec_run self e ops)).
Proof.
  induction ops as [|o r IH]; intros e H; [exact H|].
  cbn [spec_run]. pose proof (no_predef_step self e o H) as H1.
  destruct (spec_step self e o) as [e1 a]. cbn [fst] in H1.
  specialize (IH e1 H1). destruct (spec_run self e1 r) as [e2 l]. exact IH.
Qed.

Lemma reachable_no_predef : forall self v, reachable self v -> no_predef (abs_vm v).
Proof.
  intros self v (ops & l & W & E). destruct (wf_history_split _ W) as [Wb Wa].
  destruct (vm_run_refines self ops (init_vm self) empty_env (R_init self) Wb Wa) as (v' & E' & R').
  rewrite E in E'. inversion E'; subst. rewrite (R_abs _ _ _ R').
  apply no_predef_run. intros n g _. reflexivity.
Qed.

Definition is_declare (o : op) (n : Z) : Prop :=
  (exists x, x <> 0 /\ o = ODeclare n x) \/ (exists x, x <> 0 /\ o = ODeclareConst n x) \/
  (exists x m, x <> 0 /\ 0 <= m /\ o = ODeclareExt n x m).

Lemma is_declare_args : forall o n, is_declare o n -> op_args_ok o = true /\ o <> OEnd.
Proof.
  intros o n [(x & Hx & ->)|[(x & Hx & ->)|(x & m & Hx & Hm & ->)]]; cbn; (split; [|discriminate]).
  - apply negb_true_iff, Z.eqb_neq; assumption.
  - apply negb_true_iff, Z.eqb_neq; assumption.
  - apply andb_true_iff. split; [apply negb_true_iff, Z.eqb_neq; assumption|apply Z.leb_le; assumption].
Qed.

Lemma R_inj : forall self v e, R self v e -> forall v', R self v' e -> abs_vm v' = abs_vm v.
Proof. intros. rewrite (R_abs _ _ _ H), (R_abs _ _ _ H0). reflexivity. Qed.

(* a step that the specification answers without changing the environment leaves the VM itself unchanged
   in the cases below; shown case by case from the per-method lemmas *)

(* declaring a name that is already in the innermost block: error 43, nothing changes *)
Lemma redeclare_is_error : forall self v n o, reachable self v -> is_declare o n ->
  blk_mem n (hd [] (abs_vm v)) = true -> vm_step v o = Ok (v, [E_REDECLARED; 0; -1]).
Proof.
  intros self v n o HR Hd Hm. destruct (reachable_R _ _ HR) as (sp & -> & I & _).
  cbn [abs_vm vm_scope] in Hm.
  unfold vm_step, vm_step_gen, vm_declare.
  destruct Hd as [(x & Hx & ->)|[(x & Hx & ->)|(x & m & Hx & Hm' & ->)]]; cbn [vm_scope];
    destruct (predef n); try reflexivity.
  - pose proof (declare_refines sp n x false I Hx) as D. rewrite Hm in D. rewrite D. reflexivity.
  - pose proof (declare_refines sp n x true I Hx) as D. rewrite Hm in D. rewrite D. reflexivity.
  - pose proof (declare_external_refines sp n x m I Hx Hm') as D. rewrite Hm in D. rewrite D. reflexivity.
Qed.

Lemma spec_declare_ok_top : forall n bd e e', spec_declare n bd e = (e', E_OK) ->
  blk_mem n (hd [] e') = true /\ env_find n e' = Some bd.
Proof.
  unfold spec_declare. intros n bd e e' H. destruct (predef n); [inversion H|].
  destruct e as [|top r]; [inversion H|]. destruct (blk_mem n top); inversion H; subst.
  cbn. unfold blk_mem. cbn. rewrite Z.eqb_refl. auto.
Qed.

Lemma vm_run_snoc : forall ops v0 v l o v' a, vm_run v0 ops = Ok (v, l) -> vm_step v o = Ok (v', a) ->
  vm_run v0 (ops ++ [o]) = Ok (v', l ++ [a]).
Proof.
  unfold vm_run. induction ops as [|o0 r0 IH]; intros v0 v l o v' a E S; cbn [app vm_run_gen] in *.
  - inversion E; subst. fold (vm_step v o). rewrite S. reflexivity.
  - destruct (vm_step_gen true v0 o0) as [[v1 a1]|]; [|discriminate].
    destruct (vm_run_gen true v1 r0) as [[v2 l2]|] eqn:E2; [|discriminate].
    inversion E; subst. rewrite (IH _ _ _ _ _ _ E2 S). reflexivity.
Qed.

Lemma step_reachable : forall self v o v' a, reachable self v -> op_args_ok o = true ->
  (o = OEnd -> (2 <= length (abs_vm v))%nat) -> vm_step v o = Ok (v', a) -> reachable self v'.
Proof.
  intros self v o v' a (ops & l & W & E) Ha Hend S.
  destruct (wf_history_split _ W) as [Wb Wa].
  assert (R0 : R self v (fst (spec_run self empty_env ops))).
  { destruct (vm_run_refines self ops (init_vm self) empty_env (R_init self) Wb Wa) as (v0 & E0 & R0).
    rewrite E in E0. inversion E0; subst. assumption. }
  exists (ops ++ [o]), (l ++ [a]).
  assert (Hlen : length (abs_vm v) = length (fst (spec_run self empty_env ops))) by (rewrite (R_abs _ _ _ R0); reflexivity).
  split.
  - unfold wf_history. apply andb_true_iff. split.
    + (* balance: the depth after ops is length - 1 *)
      clear - Wb Hend Hlen R0.
      assert (G : forall ops d e, (1 <= length e)%nat -> d = (length e - 1)%nat -> balanced_from d ops = true ->
                  (o = OEnd -> (2 <= length (fst (spec_run self e ops)))%nat) -> balanced_from d (ops ++ [o]) = true).
      { induction ops0 as [|o0 r0 IH]; intros d e He Hd Hb Hl.
        - cbn [app spec_run fst] in *. destruct o; cbn; auto. specialize (Hl eq_refl). destruct d; [lia|reflexivity].
        - cbn [app]. destruct (balanced_step _ _ _ Hb) as [Hend0 Hb'].
          assert (Hl0 : (o0 = OEnd -> (2 <= length e)%nat)) by (intros ->; specialize (Hend0 eq_refl); lia).
          pose proof (spec_step_length self e o0 He Hl0) as SL.
          cbn [spec_run] in Hl. destruct (spec_step self e o0) as [e1 a1] eqn:E1. cbn [fst] in SL.
          destruct (spec_run self e1 r0) as [e2 l2] eqn:E2. cbn [fst] in Hl.
          assert (IHr : balanced_from (length e1 - 1) (r0 ++ [o]) = true).
          { apply (IH _ e1); auto.
            - rewrite SL. destruct o0; try lia. specialize (Hl0 eq_refl). lia.
            - rewrite SL. destruct o0; try (subst d; exact Hb').
              + replace (S (length e) - 1)%nat with (S d) by lia. exact Hb'.
              + replace (pred (length e) - 1)%nat with (pred d) by lia. exact Hb'.
            - rewrite E2. exact Hl. }
          destruct o0; cbn [balanced_from]; rewrite SL in IHr; try (subst d; exact IHr).
          + replace (S d) with (S (length e) - 1)%nat by lia. exact IHr.
          + destruct d; [specialize (Hend0 eq_refl); lia|].
            replace d with (pred (length e) - 1)%nat by lia. exact IHr. }
      apply (G ops 0%nat empty_env); auto. intros Ho. rewrite <- Hlen. auto.
    + rewrite forallb_app. cbn. rewrite Wa, Ha. reflexivity.
  - eapply vm_run_snoc; eauto.
Qed.

(* after a successful declaration the name is in the innermost block, with the declared binding *)
Lemma declare_then : forall self v n o v', reachable self v -> is_declare o n ->
  vm_step v o = Ok (v', [E_OK; 0; -1]) ->
  reachable self v' /\ blk_mem n (hd [] (abs_vm v')) = true /\
  env_find n (abs_vm v') = Some (match o with
                                 | ODeclare _ x => mkB x false None
                                 | ODeclareConst _ x => mkB x true None
                                 | ODeclareExt _ x m => mkB x true (Some m)
                                 | _ => mkB 0 false None end).
Proof.
  intros self v n o v' HR Hd S. destruct (is_declare_args _ _ Hd) as [Ha Hne].
  assert (HR' : reachable self v') by (eapply step_reachable; eauto; intros; congruence).
  split; [assumption|].
  destruct (vm_step_refines self v (abs_vm v) o (reachable_R _ _ HR) Ha) as (v1 & S1 & R1); [intros; congruence|].
  rewrite S in S1. inversion S1 as [[Hv Hans]]. subst v1. rewrite (R_abs _ _ _ R1).
  destruct Hd as [(x & Hx & ->)|[(x & Hx & ->)|(x & m & Hx & Hm' & ->)]]; cbn [spec_step] in *.
  - destruct (spec_declare n (mkB x false None) (abs_vm v)) as [e' c] eqn:E. cbn [fst snd] in *.
    inversion Hans; subst c. apply (spec_declare_ok_top _ _ _ _ E).
  - destruct (spec_declare n (mkB x true None) (abs_vm v)) as [e' c] eqn:E. cbn [fst snd] in *.
    inversion Hans; subst c. apply (spec_declare_ok_top _ _ _ _ E).
  - destruct (spec_declare n (mkB x true (Some m)) (abs_vm v)) as [e' c] eqn:E. cbn [fst snd] in *.
    inversion Hans; subst c. apply (spec_declare_ok_top _ _ _ _ E).
Qed.

(* predefined names: never declarable, never assignable, always resolve to the predefined element *)
Lemma predefined_protected : forall self v n g, reachable self v -> predef n = Some g ->
  (forall o, is_declare o n -> vm_step v o = Ok (v, [E_REDECLARED; 0; -1])) /\
  (forall x, x <> 0 -> vm_step v (OAssign n x) = Ok (v, [E_NOT_DEFINED; 0; -1])) /\
  vm_step v (OLookup n) = Ok (v, [E_OK; g; -1]) /\
  vm_step v (OLookupM n) = Ok (v, [E_OK; g; NATIVE_MODULE]).
Proof.
  intros self v n g HR P. pose proof (reachable_no_predef _ _ HR n g P) as NP.
  destruct (reachable_R _ _ HR) as (sp & -> & I & _). cbn [abs_vm vm_scope] in NP.
  repeat split.
  - intros o [(x & Hx & ->)|[(x & Hx & ->)|(x & m & Hx & Hm' & ->)]];
      unfold vm_step, vm_step_gen, vm_declare; cbn [vm_scope]; rewrite P; reflexivity.
  - intros x Hx. unfold vm_step, vm_step_gen, vm_set_element. cbn [vm_scope].
    pose proof (set_refines sp n x I Hx) as S. rewrite NP in S. rewrite S. reflexivity.
  - unfold vm_step, vm_step_gen, vm_find_element. rewrite P. reflexivity.
  - unfold vm_step, vm_step_gen, vm_find_element_with_module. rewrite P. reflexivity.
Qed.

(* a rejected assignment changes nothing at all *)
Lemma rejected_assign_keeps_state : forall self v n x v' c a, reachable self v -> x <> 0 ->
  vm_step v (OAssign n x) = Ok (v', c :: a) -> c <> E_OK -> v' = v.
Proof.
  intros self v n x v' c a HR Hx S Hc. destruct (reachable_R _ _ HR) as (sp & -> & I & _).
  unfold vm_step, vm_step_gen, vm_set_element in S. cbn [vm_scope] in S.
  pose proof (set_refines sp n x I Hx) as SR.
  destruct (env_find n (abs sp)) as [b|].
  - destruct (b_const b).
    + rewrite SR in S. inversion S. reflexivity.
    + destruct SR as (sp' & SR & _). rewrite SR in S. inversion S; subst. contradiction.
  - rewrite SR in S. inversion S. reflexivity.
Qed.

(* a visible constant binding rejects assignment with error 44 *)
Lemma const_not_assignable : forall self v n x b, reachable self v -> x <> 0 ->
  env_find n (abs_vm v) = Some b -> b_const b = true ->
  vm_step v (OAssign n x) = Ok (v, [E_ASSIGN_CONST; 0; -1]).
Proof.
  intros self v n x b HR Hx F C. destruct (reachable_R _ _ HR) as (sp & -> & I & _).
  cbn [abs_vm vm_scope] in F.
  unfold vm_step, vm_step_gen, vm_set_element. cbn [vm_scope].
  pose proof (set_refines sp n x I Hx) as SR. rewrite F, C in SR. rewrite SR. reflexivity.
Qed.

(* lookups answer the visible binding *)
Lemma lookup_answers : forall self v n, reachable self v -> predef n = None ->
  vm_step v (OLookupM n) =
  Ok (v, match env_find n (abs_vm v) with
         | Some b => [E_OK; b_val b; match b_ext b with Some m => m | None => self end]
         | None => [E_NOT_DEFINED; 0; -1]
         end).
Proof.
  intros self v n HR P.
  destruct (vm_step_refines self v (abs_vm v) (OLookupM n) (reachable_R _ _ HR) eq_refl) as (v1 & S1 & R1);
    [intros; discriminate|].
  cbn [spec_step fst snd] in *. unfold spec_lookup_m in S1. rewrite P in S1.
  assert (v1 = v).
  { unfold vm_step, vm_step_gen in S1. destruct (vm_find_element_with_module v n); inversion S1; reflexivity. }
  subst v1. exact S1.
Qed.

(* ------------------------------------------------------------------ Begin/End pairs give balanced histories *)

Lemma balanced_paired_app : forall w, paired w -> forall d r, balanced_from d (w ++ r) = balanced_from d r.
Proof.
  induction 1 as [|o w Hb He Hp IH|body w Hp1 IH1 Hp2 IH2]; intros d r; cbn [app]; [reflexivity| |].
  - destruct o; cbn [balanced_from]; try apply IH; congruence.
  - cbn [balanced_from]. rewrite <- app_assoc. rewrite IH1. cbn [app balanced_from]. apply IH2.
Qed.

Lemma paired_prefix_balanced : forall w, paired w -> forall pre post d, w = pre ++ post -> balanced_from d pre = true.
Proof.
  induction 1 as [|o w Hb He Hp IH|body w Hp1 IH1 Hp2 IH2]; intros pre post d E.
  - destruct pre; [reflexivity|discriminate].
  - destruct pre as [|o' pre']; [reflexivity|]. cbn [app] in E. inversion E; subst.
    destruct o'; cbn [balanced_from]; try (eapply IH; reflexivity); congruence.
  - destruct pre as [|o' pre']; [reflexivity|]. cbn [app] in E. inversion E as [[Ho Hrest]]. subst o'.
    cbn [balanced_from]. symmetry in Hrest. apply app_eq_app in Hrest.
    destruct Hrest as [l [[H1 H2]|[H1 H2]]].
    + (* pre' = body ++ l, OEnd :: w = l ++ post *)
      subst pre'. rewrite balanced_paired_app by assumption.
      destruct l as [|o'' l']; [reflexivity|]. cbn [app] in H2. inversion H2; subst.
      cbn [balanced_from]. eapply IH2. reflexivity.
    + (* body = pre' ++ l *)
      eapply IH1. exact H1.
Qed.

(* a freshly declared name resolves to its own declaration and module: a stale externalRefs entry left
   by a popped import at the same symbol index can never re-attach to it *)
Lemma no_stale_external : forall self v n o v', reachable self v -> is_declare o n ->
  vm_step v o = Ok (v', [E_OK; 0; -1]) ->
  vm_step v' (OLookupM n) =
  Ok (v', match o with
          | ODeclare _ x | ODeclareConst _ x => [E_OK; x; self]
          | ODeclareExt _ x m => [E_OK; x; m]
          | _ => []
          end).
Proof.
  intros self v n o v' HR Hd S.
  assert (P : predef n = None).
  { destruct (predef n) as [g|] eqn:P; [|reflexivity].
    destruct (predefined_protected self v n g HR P) as [D _]. rewrite (D o Hd) in S. discriminate. }
  destruct (declare_then self v n o v' HR Hd S) as (HR' & _ & F).
  rewrite (lookup_answers self v' n HR' P), F.
  destruct Hd as [(x & Hx & ->)|[(x & Hx & ->)|(x & m & Hx & Hm' & ->)]]; reflexivity.
Qed.

(* EndScope below the outermost level (never done by a Begin/defer-End discipline): everything is dropped *)
Lemma unbalanced_end_clears : forall self v, reachable self v -> length (abs_vm v) = 1%nat ->
  exists v', vm_step v OEnd = Ok (v', [0; 0; -1]) /\ vm_obs v' = [-1; 0].
Proof.
  intros self v HR Hlen. destruct (reachable_R _ _ HR) as (sp & -> & I & _).
  cbn [abs_vm vm_scope] in Hlen. unfold abs in Hlen. rewrite abs_aux_length in Hlen.
  pose proof (inv_depth sp I) as Hd. assert (D0 : currentDepth sp = 0) by lia.
  destruct (pop_deeper_spec (locals sp) (values sp) (currentDepth sp) (localCount sp) (externalRefs sp))
    as (c' & refs' & P1 & P2 & P3 & P4); try apply I.
  unfold vm_step, vm_step_gen, vm_end_scope_gen, end_scope_gen. cbn [vm_scope]. rewrite P1.
  eexists. split; [reflexivity|]. cbn [vm_obs vm_scope with_scope scope_obs currentDepth localCount].
  pose proof (inv_desc sp I) as Hdesc. unfold live_of in Hdesc. rewrite D0 in *.
  rewrite take_depth_all0 in P3 by assumption. cbn [snd] in P3.
  assert (c' = 0)%nat.
  { pose proof (live_length (locals sp) (values sp) refs' c') as L. rewrite P3 in L. cbn in L.
    pose proof (inv_len_l sp I). pose proof (inv_len_v sp I). symmetry. apply L; lia. }
  subst c'. reflexivity.
Qed.

Lemma step_commutes : forall self v o, reachable self v -> op_args_ok o = true ->
  (o = OEnd -> (2 <= length (abs_vm v))%nat) ->
  exists v', vm_step v o = Ok (v', snd (spec_step self (abs_vm v) o)) /\
             abs_vm v' = fst (spec_step self (abs_vm v) o) /\ reachable self v'.
Proof.
  intros self v o HR Ha He.
  destruct (vm_step_refines self v (abs_vm v) o (reachable_R _ _ HR) Ha He) as (v' & S & R').
  exists v'. split; [exact S|]. split; [exact (R_abs _ _ _ R')|]. exact (step_reachable _ _ _ _ _ HR Ha He S).
Qed.

Lemma paired_histories_balanced : forall w pre post, paired w -> w = pre ++ post -> balanced_from 0 pre = true.
Proof. intros w pre post H E. exact (paired_prefix_balanced w H pre post 0%nat E). Qed.

Lemma declare_twice_is_error : forall self v n o o' v', reachable self v -> is_declare o n ->
  is_declare o' n -> vm_step v o = Ok (v', [E_OK; 0; -1]) -> vm_step v' o' = Ok (v', [E_REDECLARED; 0; -1]).
Proof.
  intros self v n o o' v' HR Hd Hd' S. destruct (declare_then self v n o v' HR Hd S) as (HR' & M & _).
  exact (redeclare_is_error self v' n o' HR' Hd' M).
Qed.

Lemma declared_const_is_const : forall self v n o v' y, reachable self v ->
  ((exists x, x <> 0 /\ o = ODeclareConst n x) \/ (exists x m, x <> 0 /\ 0 <= m /\ o = ODeclareExt n x m)) ->
  vm_step v o = Ok (v', [E_OK; 0; -1]) -> y <> 0 ->
  vm_step v' (OAssign n y) = Ok (v', [E_ASSIGN_CONST; 0; -1]).
Proof.
  intros self v n o v' y HR Ho S Hy.
  assert (Hd : is_declare o n) by (unfold is_declare; tauto).
  destruct (declare_then self v n o v' HR Hd S) as (HR' & _ & F).
  destruct Ho as [(x & Hx & ->)|(x & m & Hx & Hm & ->)]; eapply const_not_assignable; eauto.
Qed.
