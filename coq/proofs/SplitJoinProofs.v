(* SplitJoinProofs.v — C14 / C12: 分隔 followed by 拼接 with the same separator gives back the text, for every text and
   every non-empty separator.  Ties the text model (model/TextOps.v) to the list model (model/Collections.v). *)
From Coq Require Import List ZArith Bool.
Import ListNotations.
From Zn.model Require Import Decode TextOps.
From Zn.model Require CollectionsTypes Collections.
From Zn.proofs Require Import DecodeProofs TextOpsProofs.
From Zn.proofs Require CollectionsJoinProofs.
Open Scope Z_scope.

Lemma join_text_is_join_sep : forall sep ps, CollectionsTypes.join_text sep ps = join_sep sep ps.
Proof.
  intros sep ps. induction ps as [|p r IH]; [reflexivity|].
  destruct r as [|q r']; [reflexivity|].
  change (CollectionsTypes.join_text sep (p :: q :: r')) with (p ++ sep ++ CollectionsTypes.join_text sep (q :: r')).
  change (join_sep sep (p :: q :: r')) with (p ++ sep ++ join_sep sep (q :: r')).
  rewrite IH. reflexivity.
Qed.

Lemma split_then_join : forall s sep, Forall scalar s -> Forall scalar sep -> sep <> [] ->
  exists ps, split_cps s sep = SOk ps /\
    Collections.arr_step true (CollectionsTypes.LMethod CollectionsTypes.MJoin [CollectionsTypes.VStr sep]) (map CollectionsTypes.VStr ps)
    = (CollectionsTypes.Ok (CollectionsTypes.VStr s), map CollectionsTypes.VStr ps).
Proof.
  intros s sep Hs Hsep Hne.
  destruct (split_spec s sep Hs Hsep Hne) as [ps [_ [Hsp [_ [Hj _]]]]].
  exists ps. split; [exact Hsp|].
  rewrite CollectionsJoinProofs.law_join. rewrite join_text_is_join_sep, Hj. reflexivity.
Qed.
